(* C18 — cpmorphology.pairwise_permutations: the line-level model equals the declarative
   reference (all pairs of positions a < b with equal group label in the rows sorted by group
   then member), and that reference lists every such position pair exactly once. *)
From Coq Require Import ZArith List Bool Arith Lia Sorted Permutation.
From Centro Require Import Base.SortC18 Model.VecC18 Model.IndexesC18 Spec.SpecC18
  Proofs.VecC18Lemmas Proofs.DiffMarksC18 Proofs.BlocksC18 Proofs.MedianC18Proofs Proofs.ModeC18Proofs.
Import ListNotations.
Local Open Scope nat_scope.

(* ================================================================ part 2: exactly once *)
Definition pos_pairs (n : nat) : list (nat * nat) :=
  flat_map (fun a => map (pair a) (seq (S a) (n - S a))) (seq 0 n).

Lemma nodup_app_c18 {A} (l1 l2 : list A) :
  NoDup l1 -> NoDup l2 -> (forall x, In x l1 -> In x l2 -> False) -> NoDup (l1 ++ l2).
Proof.
  intros N1 N2 HD. induction N1 as [|a l1 Ha N1 IH]; [exact N2|].
  cbn [app]. constructor.
  - intros Hin. apply in_app_or in Hin. destruct Hin as [Hin|Hin]; [exact (Ha Hin)|].
    apply (HD a); [left; reflexivity|exact Hin].
  - apply IH. intros x H1 H2. apply (HD x); [right; exact H1|exact H2].
Qed.

Lemma nodup_flat_pairs (g : nat -> list nat) (l : list nat) :
  NoDup l -> (forall a, In a l -> NoDup (g a)) ->
  NoDup (flat_map (fun a => map (pair a) (g a)) l).
Proof.
  intros ND. induction ND as [|a l Ha ND IH]; intros Hg; [constructor|].
  cbn [flat_map]. apply nodup_app_c18.
  - apply FinFun.Injective_map_NoDup; [|apply Hg; left; reflexivity].
    intros x y E. injection E as E. exact E.
  - apply IH. intros a' Ha'. apply Hg. right; exact Ha'.
  - intros [x y] H1 H2. apply in_map_iff in H1. destruct H1 as (b & E & _). injection E as E1 E2.
    apply in_flat_map in H2. destruct H2 as (a' & Ha' & H2).
    apply in_map_iff in H2. destruct H2 as (b' & E' & _). injection E' as E1' E2'.
    subst. apply Ha. exact Ha'.
Qed.

Lemma pos_pairs_once : forall n,
  NoDup (pos_pairs n) /\ forall a b, In (a, b) (pos_pairs n) <-> a < b < n.
Proof.
  intros n. split.
  - unfold pos_pairs. apply nodup_flat_pairs; [apply seq_NoDup|]. intros a _. apply seq_NoDup.
  - intros a b. unfold pos_pairs. rewrite in_flat_map. split.
    + intros (a' & Ha' & Hin). apply in_map_iff in Hin. destruct Hin as (b' & E & Hb').
      injection E as E1 E2. subst. apply in_seq in Ha'. apply in_seq in Hb'. lia.
    + intros Hab. exists a. split; [apply in_seq; lia|].
      apply in_map_iff. exists b. split; [reflexivity|apply in_seq; lia].
Qed.

Lemma flat_map_map_c18 {A B C} (f : B -> list C) (g : A -> B) l :
  flat_map f (map g l) = flat_map (fun a => f (g a)) l.
Proof. induction l as [|a l IH]; [reflexivity|]. cbn [map flat_map]. rewrite IH. reflexivity. Qed.

Lemma map_flat_map_c18 {A B C} (g : B -> C) (f : A -> list B) l :
  map g (flat_map f l) = flat_map (fun a => map g (f a)) l.
Proof. induction l as [|a l IH]; [reflexivity|]. cbn [flat_map]. rewrite map_app, IH. reflexivity. Qed.

Lemma pos_pairs_S n :
  pos_pairs (S n) = map (pair 0) (seq 1 n) ++ map (fun ab => (S (fst ab), S (snd ab))) (pos_pairs n).
Proof.
  unfold pos_pairs. cbn [seq flat_map]. replace (S n - 1) with n by lia. f_equal.
  rewrite <- seq_shift, flat_map_map_c18, map_flat_map_c18.
  apply flat_map_ext. intros a. cbn [Nat.sub].
  rewrite <- seq_shift. rewrite !map_map. reflexivity.
Qed.

Lemma filter_map_c18 {A B} (P : B -> bool) (g : A -> B) l :
  filter P (map g l) = map g (filter (fun a => P (g a)) l).
Proof.
  induction l as [|a l IH]; [reflexivity|]. cbn [map filter]. destruct (P (g a)); cbn [map]; rewrite IH; reflexivity.
Qed.

Lemma map_filter_nth {A B} (G : A -> B) (Q : A -> bool) r d :
  map G (filter Q r) =
  map (fun k => G (nth k r d)) (filter (fun k => Q (nth k r d)) (seq 0 (length r))).
Proof.
  rewrite <- (map_seq_nth r d) at 1. rewrite filter_map_c18, map_map. reflexivity.
Qed.

Lemma all_pairs_positions : forall (l : list (Z * Z)) (d : Z * Z),
  all_pairs_from l =
  map (fun ab => (fst (nth (fst ab) l d), snd (nth (fst ab) l d), snd (nth (snd ab) l d)))
      (filter (fun ab => (fst (nth (snd ab) l d) =? fst (nth (fst ab) l d))%Z) (pos_pairs (length l))).
Proof.
  intros l d. induction l as [|p r IH]; [reflexivity|].
  cbn [all_pairs_from length]. rewrite pos_pairs_S, filter_app, map_app. f_equal.
  - rewrite (map_filter_nth _ _ r d).
    rewrite <- seq_shift. rewrite !filter_map_c18, !map_map. cbn [fst snd nth]. reflexivity.
  - rewrite IH. rewrite filter_map_c18, map_map. cbn [fst snd nth]. reflexivity.
Qed.

Lemma map_fst_combine_c18 {A B} (l1 : list A) (l2 : list B) :
  length l1 = length l2 -> map fst (combine l1 l2) = l1.
Proof.
  revert l2; induction l1 as [|a l1 IH]; intros [|b l2] H; cbn [length] in H; try lia; [reflexivity|].
  cbn [combine map fst]. rewrite IH by lia. reflexivity.
Qed.

Lemma sorted_rows_perm : forall i j, length i = length j -> Permutation (sorted_rows i j) (combine i j).
Proof.
  intros i j H. unfold sorted_rows.
  rewrite <- (map_fst_combine_c18 (combine i j) (seq 0 (length i))) at 2
    by (rewrite combine_length, seq_length; lia).
  apply Permutation_map. symmetry. apply tsort_perm.
Qed.

(* ================================================================ part 1: model = reference *)
(* ---------------------------------------------------------------- runs of the sorted label column *)
Definition expand (rl : list (Z * nat)) : list Z := concat (map (fun p => repeat (fst p) (snd p)) rl).

Lemma expand_cons p t : expand (p :: t) = repeat (fst p) (snd p) ++ expand t.
Proof. reflexivity. Qed.

Lemma expand_rle l : expand (rle l) = l.
Proof.
  induction l as [|x r IH]; [reflexivity|]. rewrite rle_cons.
  remember (rle r) as E eqn:HE. rewrite <- IH. clear IH HE.
  destruct E as [|p t]; [reflexivity|].
  destruct (Z.eqb_spec x (fst p)) as [Hx|Hx]; rewrite !expand_cons; cbn [fst snd repeat app].
  - rewrite Hx. reflexivity.
  - reflexivity.
Qed.

Definition pos_runs (rl : list (Z * nat)) : Prop := Forall (fun p => 0 < snd p) rl.

Lemma rle_pos l : pos_runs (rle l).
Proof.
  unfold pos_runs. induction l as [|x r IH]; [constructor|]. rewrite rle_cons.
  destruct (rle r) as [|p t]; [constructor; [cbn [snd]; lia|constructor]|].
  inversion IH as [|p' t' Hp Ht]; subst.
  destruct (x =? fst p)%Z; constructor; cbn [snd]; try lia; auto.
Qed.

Lemma zunique_rle l : zunique_sorted l = map fst (rle l).
Proof.
  induction l as [|x r IH]; [reflexivity|].
  destruct r as [|y r']; [reflexivity|].
  destruct (rle_shape y r') as (n & t & E).
  rewrite rle_cons, E. rewrite E in IH. cbn [fst].
  change (zunique_sorted (x :: y :: r')) with
    (if (x =? y)%Z then zunique_sorted (y :: r') else x :: zunique_sorted (y :: r')).
  destruct (Z.eqb_spec x y) as [Hxy|Hxy]; rewrite IH; cbn [map fst]; [rewrite Hxy|]; reflexivity.
Qed.

(* ---------------------------------------------------------------- r = cumsum(hstack([False], i[:-1] != i[1:])) *)
Lemma adj_diff_run x m rest : adj_diff (x :: repeat x m ++ rest) = repeat false m ++ adj_diff (x :: rest).
Proof.
  induction m as [|m IH]; [reflexivity|].
  cbn [repeat app]. rewrite adj_diff_cons2, Z.eqb_refl, IH. reflexivity.
Qed.

Lemma cumsum_false m acc rest :
  ncumsum_from acc (map b2n (repeat false m ++ rest)) = repeat acc m ++ ncumsum_from acc (map b2n rest).
Proof. rewrite map_app, map_repeat. cbn [b2n]. apply dm_cumsum_zeros. Qed.

Lemma dm_labels_cons o c r : dm_labels o (c :: r) = repeat o c ++ dm_labels (S o) r.
Proof. reflexivity. Qed.

Lemma labels_runs rl : rl <> [] -> pos_runs rl -> StronglySorted Z.lt (map fst rl) ->
  forall acc, acc :: ncumsum_from acc (map b2n (adj_diff (expand rl))) = dm_labels acc (map snd rl).
Proof.
  unfold pos_runs. induction rl as [|[x n] t IH]; intros HN HP HS acc; [congruence|].
  inversion HP as [|p' t' Hn HPt]; subst. cbn [snd] in Hn.
  destruct n as [|m]; [lia|].
  rewrite expand_cons. cbn [fst snd map]. rewrite dm_labels_cons. cbn [repeat app].
  destruct t as [|[y k] t'].
  - cbn [expand map concat]. rewrite adj_diff_run. cbn [adj_diff].
    rewrite cumsum_false. cbn [map ncumsum_from dm_labels]. reflexivity.
  - inversion HPt as [|p'' t'' Hk HPt']; subst. cbn [snd] in Hk.
    destruct k as [|k']; [lia|].
    specialize (IH ltac:(discriminate) HPt).
    cbn [map fst] in HS. inversion HS as [|x' l' HS' HF]; subst.
    inversion HF as [|y' l'' Hxy HF']; subst.
    specialize (IH HS' (S acc)).
    rewrite expand_cons in *. cbn [fst snd repeat app] in *.
    rewrite adj_diff_run, adj_diff_cons2.
    destruct (Z.eqb_spec x y) as [E|E]; [lia|]. cbn [negb].
    rewrite cumsum_false. cbn [map b2n ncumsum_from].
    replace (acc + 1) with (S acc) by lia. f_equal. f_equal. exact IH.
Qed.

(* ---------------------------------------------------------------- src_count = bincount(r) *)
Lemma ncount_app k l1 l2 : ncount k (l1 ++ l2) = ncount k l1 + ncount k l2.
Proof. unfold ncount. rewrite filter_app, app_length. reflexivity. Qed.

Lemma ncount_repeat k o c : ncount k (repeat o c) = if k =? o then c else 0.
Proof.
  unfold ncount. induction c as [|c IH]; [destruct (k =? o); reflexivity|].
  cbn [repeat filter]. destruct (k =? o); cbn [length]; rewrite IH; reflexivity.
Qed.

Lemma ncount_labels cnt : forall o k,
  ncount k (dm_labels o cnt) = if k <? o then 0 else getn cnt (k - o).
Proof.
  induction cnt as [|c r IH]; intros o k.
  - cbn [dm_labels]. unfold ncount, getn. cbn [filter length]. destruct (k <? o); [reflexivity|].
    destruct (k - o); reflexivity.
  - rewrite dm_labels_cons, ncount_app, ncount_repeat, IH. unfold getn.
    destruct (Nat.eqb_spec k o) as [E|E], (Nat.ltb_spec k (S o)), (Nat.ltb_spec k o); try lia.
    + subst. rewrite Nat.sub_diag. cbn [nth]. lia.
    + replace (k - o) with (S (k - S o)) by lia. cbn [nth]. lia.
Qed.

Lemma list_max_repeat o c : 0 < c -> list_max (repeat o c) = o.
Proof.
  induction c as [|c IH]; intros H; [lia|]. cbn [repeat list_max fold_right].
  destruct c as [|c']; [cbn [repeat fold_right]; lia|].
  change (fold_right Nat.max 0 (repeat o (S c'))) with (list_max (repeat o (S c'))).
  rewrite IH by lia. lia.
Qed.

Lemma list_max_labels cnt : cnt <> [] -> Forall (fun c => 0 < c) cnt ->
  forall o, S (list_max (dm_labels o cnt)) = o + length cnt.
Proof.
  induction cnt as [|c r IH]; intros HN HP o; [congruence|].
  inversion HP as [|c' r' Hc HPr]; subst.
  rewrite dm_labels_cons, list_max_app, list_max_repeat by exact Hc. cbn [length].
  destruct r as [|c2 r2].
  - cbn [dm_labels list_max fold_right length]. lia.
  - specialize (IH ltac:(discriminate) HPr (S o)). cbn [length] in *. lia.
Qed.

Lemma bincount_labels cnt : cnt <> [] -> Forall (fun c => 0 < c) cnt ->
  bincount (dm_labels 0 cnt) 0 = cnt.
Proof.
  intros HN HP. unfold bincount.
  pose proof (list_max_labels cnt HN HP 0) as HM.
  destruct (dm_labels 0 cnt) as [|a l] eqn:E.
  - destruct cnt as [|c r]; [congruence|]. inversion HP as [|c' r' Hc HPr]; subst.
    rewrite dm_labels_cons in E. destruct c; [lia|]. cbn [repeat app] in E. discriminate.
  - rewrite Nat.max_0_r, HM. cbn [Nat.add]. rewrite <- E.
    rewrite <- (map_getn_seq cnt) at 2. apply map_ext. intros k.
    rewrite ncount_labels. cbn [Nat.ltb Nat.leb]. rewrite Nat.sub_0_r. reflexivity.
Qed.
