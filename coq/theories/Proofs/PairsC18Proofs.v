(* C18 — cpmorphology.pairwise_permutations: the line-level model equals the declarative
   reference (all pairs of positions a < b with equal group label in the rows sorted by group
   then member), and that reference lists every such position pair exactly once. *)
From Coq Require Import ZArith List Bool Arith Lia Sorted Permutation.
From Centro Require Import Base.SortC18 Model.VecC18 Model.IndexesC18 Spec.SpecC18
  Proofs.VecC18Lemmas Proofs.DiffMarksC18 Proofs.BlocksC18 Proofs.MedianC18Proofs Proofs.ModeC18Proofs.
Import ListNotations.
Local Open Scope nat_scope.

(* ================================================================ part 2: exactly once *)
Definition pos_pairs (n : nat) : list (nat * nat) :=
  flat_map (fun a => map (pair a) (seq (S a) (n - S a))) (seq 0 n).

Lemma nodup_app_c18 {A} (l1 l2 : list A) :
  NoDup l1 -> NoDup l2 -> (forall x, In x l1 -> In x l2 -> False) -> NoDup (l1 ++ l2).
Proof.
  intros N1 N2 HD. induction N1 as [|a l1 Ha N1 IH]; [exact N2|].
  cbn [app]. constructor.
  - intros Hin. apply in_app_or in Hin. destruct Hin as [Hin|Hin]; [exact (Ha Hin)|].
    apply (HD a); [left; reflexivity|exact Hin].
  - apply IH. intros x H1 H2. apply (HD x); [right; exact H1|exact H2].
Qed.

Lemma nodup_flat_pairs (g : nat -> list nat) (l : list nat) :
  NoDup l -> (forall a, In a l -> NoDup (g a)) ->
  NoDup (flat_map (fun a => map (pair a) (g a)) l).
Proof.
  intros ND. induction ND as [|a l Ha ND IH]; intros Hg; [constructor|].
  cbn [flat_map]. apply nodup_app_c18.
  - apply FinFun.Injective_map_NoDup; [|apply Hg; left; reflexivity].
    intros x y E. injection E as E. exact E.
  - apply IH. intros a' Ha'. apply Hg. right; exact Ha'.
  - intros [x y] H1 H2. apply in_map_iff in H1. destruct H1 as (b & E & _). injection E as E1 E2.
    apply in_flat_map in H2. destruct H2 as (a' & Ha' & H2).
    apply in_map_iff in H2. destruct H2 as (b' & E' & _). injection E' as E1' E2'.
    subst. apply Ha. exact Ha'.
Qed.

Lemma pos_pairs_once : forall n,
  NoDup (pos_pairs n) /\ forall a b, In (a, b) (pos_pairs n) <-> a < b < n.
Proof.
  intros n. split.
  - unfold pos_pairs. apply nodup_flat_pairs; [apply seq_NoDup|]. intros a _. apply seq_NoDup.
  - intros a b. unfold pos_pairs. rewrite in_flat_map. split.
    + intros (a' & Ha' & Hin). apply in_map_iff in Hin. destruct Hin as (b' & E & Hb').
      injection E as E1 E2. subst. apply in_seq in Ha'. apply in_seq in Hb'. lia.
    + intros Hab. exists a. split; [apply in_seq; lia|].
      apply in_map_iff. exists b. split; [reflexivity|apply in_seq; lia].
Qed.

Lemma flat_map_map_c18 {A B C} (f : B -> list C) (g : A -> B) l :
  flat_map f (map g l) = flat_map (fun a => f (g a)) l.
Proof. induction l as [|a l IH]; [reflexivity|]. cbn [map flat_map]. rewrite IH. reflexivity. Qed.

Lemma map_flat_map_c18 {A B C} (g : B -> C) (f : A -> list B) l :
  map g (flat_map f l) = flat_map (fun a => map g (f a)) l.
Proof. induction l as [|a l IH]; [reflexivity|]. cbn [flat_map]. rewrite map_app, IH. reflexivity. Qed.

Lemma pos_pairs_S n :
  pos_pairs (S n) = map (pair 0) (seq 1 n) ++ map (fun ab => (S (fst ab), S (snd ab))) (pos_pairs n).
Proof.
  unfold pos_pairs. cbn [seq flat_map]. replace (S n - 1) with n by lia. f_equal.
  rewrite <- seq_shift, flat_map_map_c18, map_flat_map_c18.
  apply flat_map_ext. intros a. cbn [Nat.sub].
  rewrite <- seq_shift. rewrite !map_map. reflexivity.
Qed.

Lemma filter_map_c18 {A B} (P : B -> bool) (g : A -> B) l :
  filter P (map g l) = map g (filter (fun a => P (g a)) l).
Proof.
  induction l as [|a l IH]; [reflexivity|]. cbn [map filter]. destruct (P (g a)); cbn [map]; rewrite IH; reflexivity.
Qed.

Lemma map_filter_nth {A B} (G : A -> B) (Q : A -> bool) r d :
  map G (filter Q r) =
  map (fun k => G (nth k r d)) (filter (fun k => Q (nth k r d)) (seq 0 (length r))).
Proof.
  rewrite <- (map_seq_nth r d) at 1. rewrite filter_map_c18, map_map. reflexivity.
Qed.

Lemma all_pairs_positions : forall (l : list (Z * Z)) (d : Z * Z),
  all_pairs_from l =
  map (fun ab => (fst (nth (fst ab) l d), snd (nth (fst ab) l d), snd (nth (snd ab) l d)))
      (filter (fun ab => (fst (nth (snd ab) l d) =? fst (nth (fst ab) l d))%Z) (pos_pairs (length l))).
Proof.
  intros l d. induction l as [|p r IH]; [reflexivity|].
  cbn [all_pairs_from length]. rewrite pos_pairs_S, filter_app, map_app. f_equal.
  - rewrite (map_filter_nth _ _ r d).
    rewrite <- seq_shift. rewrite !filter_map_c18, !map_map. cbn [fst snd nth]. reflexivity.
  - rewrite IH. rewrite filter_map_c18, map_map. cbn [fst snd nth]. reflexivity.
Qed.

Lemma map_fst_combine_c18 {A B} (l1 : list A) (l2 : list B) :
  length l1 = length l2 -> map fst (combine l1 l2) = l1.
Proof.
  revert l2; induction l1 as [|a l1 IH]; intros [|b l2] H; cbn [length] in H; try lia; [reflexivity|].
  cbn [combine map fst]. rewrite IH by lia. reflexivity.
Qed.

Lemma sorted_rows_perm : forall i j, length i = length j -> Permutation (sorted_rows i j) (combine i j).
Proof.
  intros i j H. unfold sorted_rows.
  rewrite <- (map_fst_combine_c18 (combine i j) (seq 0 (length i))) at 2
    by (rewrite combine_length, seq_length; lia).
  apply Permutation_map. symmetry. apply tsort_perm.
Qed.

(* ================================================================ part 1: model = reference *)
(* ---------------------------------------------------------------- runs of the sorted label column *)
Definition expand (rl : list (Z * nat)) : list Z := concat (map (fun p => repeat (fst p) (snd p)) rl).

Lemma expand_cons p t : expand (p :: t) = repeat (fst p) (snd p) ++ expand t.
Proof. reflexivity. Qed.

Lemma expand_rle l : expand (rle l) = l.
Proof.
  induction l as [|x r IH]; [reflexivity|]. rewrite rle_cons.
  remember (rle r) as E eqn:HE. rewrite <- IH. clear IH HE.
  destruct E as [|p t]; [reflexivity|].
  destruct (Z.eqb_spec x (fst p)) as [Hx|Hx]; rewrite !expand_cons; cbn [fst snd repeat app].
  - rewrite Hx. reflexivity.
  - reflexivity.
Qed.

Definition pos_runs (rl : list (Z * nat)) : Prop := Forall (fun p => 0 < snd p) rl.

Lemma rle_pos l : pos_runs (rle l).
Proof.
  unfold pos_runs. induction l as [|x r IH]; [constructor|]. rewrite rle_cons.
  destruct (rle r) as [|p t]; [constructor; [cbn [snd]; lia|constructor]|].
  inversion IH as [|p' t' Hp Ht]; subst.
  destruct (x =? fst p)%Z; constructor; cbn [snd]; try lia; auto.
Qed.

Lemma zunique_rle l : zunique_sorted l = map fst (rle l).
Proof.
  induction l as [|x r IH]; [reflexivity|].
  destruct r as [|y r']; [reflexivity|].
  destruct (rle_shape y r') as (n & t & E).
  rewrite rle_cons, E. rewrite E in IH. cbn [fst].
  change (zunique_sorted (x :: y :: r')) with
    (if (x =? y)%Z then zunique_sorted (y :: r') else x :: zunique_sorted (y :: r')).
  destruct (Z.eqb_spec x y) as [Hxy|Hxy]; rewrite IH; cbn [map fst]; [rewrite Hxy|]; reflexivity.
Qed.

(* ---------------------------------------------------------------- r = cumsum(hstack([False], i[:-1] != i[1:])) *)
Lemma adj_diff_run x m rest : adj_diff (x :: repeat x m ++ rest) = repeat false m ++ adj_diff (x :: rest).
Proof.
  induction m as [|m IH]; [reflexivity|].
  cbn [repeat app]. rewrite adj_diff_cons2, Z.eqb_refl, IH. reflexivity.
Qed.

Lemma cumsum_false m acc rest :
  ncumsum_from acc (map b2n (repeat false m ++ rest)) = repeat acc m ++ ncumsum_from acc (map b2n rest).
Proof. rewrite map_app, map_repeat. cbn [b2n]. apply dm_cumsum_zeros. Qed.

Lemma dm_labels_cons o c r : dm_labels o (c :: r) = repeat o c ++ dm_labels (S o) r.
Proof. reflexivity. Qed.

Lemma labels_runs rl : rl <> [] -> pos_runs rl -> StronglySorted Z.lt (map fst rl) ->
  forall acc, acc :: ncumsum_from acc (map b2n (adj_diff (expand rl))) = dm_labels acc (map snd rl).
Proof.
  unfold pos_runs. induction rl as [|[x n] t IH]; intros HN HP HS acc; [congruence|].
  inversion HP as [|p' t' Hn HPt]; subst. cbn [snd] in Hn.
  destruct n as [|m]; [lia|].
  rewrite expand_cons. cbn [fst snd map]. rewrite dm_labels_cons. cbn [repeat app].
  destruct t as [|[y k] t'].
  - cbn [expand map concat]. rewrite adj_diff_run. cbn [adj_diff].
    rewrite cumsum_false. cbn [map ncumsum_from dm_labels]. reflexivity.
  - inversion HPt as [|p'' t'' Hk HPt']; subst. cbn [snd] in Hk.
    destruct k as [|k']; [lia|].
    specialize (IH ltac:(discriminate) HPt).
    cbn [map fst] in HS. inversion HS as [|x' l' HS' HF]; subst.
    inversion HF as [|y' l'' Hxy HF']; subst.
    specialize (IH HS' (S acc)).
    rewrite expand_cons in *. cbn [fst snd repeat app] in *.
    rewrite adj_diff_run, adj_diff_cons2.
    destruct (Z.eqb_spec x y) as [E|E]; [lia|]. cbn [negb].
    rewrite cumsum_false. cbn [map b2n ncumsum_from].
    replace (acc + 1) with (S acc) by lia. f_equal. f_equal. exact IH.
Qed.

(* ---------------------------------------------------------------- src_count = bincount(r) *)
Lemma ncount_app k l1 l2 : ncount k (l1 ++ l2) = ncount k l1 + ncount k l2.
Proof. unfold ncount. rewrite filter_app, app_length. reflexivity. Qed.

Lemma ncount_repeat k o c : ncount k (repeat o c) = if k =? o then c else 0.
Proof.
  unfold ncount. induction c as [|c IH]; [destruct (k =? o); reflexivity|].
  cbn [repeat filter]. destruct (k =? o); cbn [length]; rewrite IH; reflexivity.
Qed.

Lemma ncount_labels cnt : forall o k,
  ncount k (dm_labels o cnt) = if k <? o then 0 else getn cnt (k - o).
Proof.
  induction cnt as [|c r IH]; intros o k.
  - cbn [dm_labels]. unfold ncount, getn. cbn [filter length]. destruct (k <? o); [reflexivity|].
    destruct (k - o); reflexivity.
  - rewrite dm_labels_cons, ncount_app, ncount_repeat, IH. unfold getn.
    destruct (Nat.eqb_spec k o) as [E|E], (Nat.ltb_spec k (S o)), (Nat.ltb_spec k o); try lia.
    + subst. rewrite Nat.sub_diag. cbn [nth]. lia.
    + replace (k - o) with (S (k - S o)) by lia. cbn [nth]. lia.
Qed.

Lemma list_max_repeat o c : 0 < c -> list_max (repeat o c) = o.
Proof.
  induction c as [|c IH]; intros H; [lia|]. cbn [repeat list_max fold_right].
  destruct c as [|c']; [cbn [repeat fold_right]; lia|].
  change (fold_right Nat.max 0 (repeat o (S c'))) with (list_max (repeat o (S c'))).
  rewrite IH by lia. lia.
Qed.

Lemma list_max_labels cnt : cnt <> [] -> Forall (fun c => 0 < c) cnt ->
  forall o, S (list_max (dm_labels o cnt)) = o + length cnt.
Proof.
  induction cnt as [|c r IH]; intros HN HP o; [congruence|].
  inversion HP as [|c' r' Hc HPr]; subst.
  rewrite dm_labels_cons, list_max_app, list_max_repeat by exact Hc. cbn [length].
  destruct r as [|c2 r2].
  - cbn [dm_labels list_max fold_right length]. lia.
  - specialize (IH ltac:(discriminate) HPr (S o)). cbn [length] in *. lia.
Qed.

Lemma bincount_labels cnt : cnt <> [] -> Forall (fun c => 0 < c) cnt ->
  bincount (dm_labels 0 cnt) 0 = cnt.
Proof.
  intros HN HP. unfold bincount.
  pose proof (list_max_labels cnt HN HP 0) as HM.
  destruct (dm_labels 0 cnt) as [|a l] eqn:E.
  - destruct cnt as [|c r]; [congruence|]. inversion HP as [|c' r' Hc HPr]; subst.
    rewrite dm_labels_cons in E. destruct c; [lia|]. cbn [repeat app] in E. discriminate.
  - rewrite Nat.max_0_r, HM. cbn [Nat.add]. rewrite <- E.
    rewrite <- (map_getn_seq cnt) at 2. apply map_ext. intros k.
    rewrite ncount_labels. cbn [Nat.ltb Nat.leb]. rewrite Nat.sub_0_r. reflexivity.
Qed.

(* ---------------------------------------------------------------- offsets: src_idx, dest_idx, d_r *)
Lemma nadj_cumsum D : forall acc, nadj_diff (acc :: ncumsum_from acc D) = map (fun p => 0 <? p) D.
Proof.
  induction D as [|x r IH]; intros acc; [reflexivity|]. cbn [ncumsum_from].
  change (nadj_diff (acc :: acc + x :: ncumsum_from (acc + x) r))
    with (negb (acc =? acc + x) :: nadj_diff (acc + x :: ncumsum_from (acc + x) r)).
  rewrite IH. cbn [map]. f_equal.
  destruct (Nat.eqb_spec acc (acc + x)), (Nat.ltb_spec 0 x); try lia; reflexivity.
Qed.

Lemma cumsum0_nth D k : k <= length D -> getn (0 :: ncumsum D) k = nsum (firstn k D).
Proof.
  intros Hk. destruct k as [|k]; [reflexivity|]. unfold getn. cbn [nth]. unfold ncumsum.
  rewrite ncumsum_from_nth by lia. reflexivity.
Qed.

Lemma last_cumsum_from D : forall acc, last (acc :: ncumsum_from acc D) 0 = acc + nsum D.
Proof.
  induction D as [|x r IH]; intros acc; [cbn; lia|]. cbn [ncumsum_from].
  change (last (acc :: acc + x :: ncumsum_from (acc + x) r) 0)
    with (last (acc + x :: ncumsum_from (acc + x) r) 0).
  rewrite IH. unfold nsum. cbn [fold_right]. lia.
Qed.

Lemma src_idx_nth N g : g < length N -> getn (0 :: ncumsum (removelast N)) g = nsum (firstn g N).
Proof.
  intros Hg. destruct g as [|g]; [reflexivity|]. unfold getn. cbn [nth]. unfold ncumsum.
  rewrite removelast_firstn_len.
  rewrite ncumsum_from_nth by (rewrite firstn_length; lia).
  rewrite firstn_firstn. replace (Nat.min (S g) (pred (length N))) with (S g) by lia. reflexivity.
Qed.

Definition blocks {A} (G : nat) (F : nat -> list A) : list A := concat (map F (seq 0 G)).

Lemma blocks_ext {A} G (F F' : nat -> list A) : (forall o, o < G -> F o = F' o) -> blocks G F = blocks G F'.
Proof. intros H. unfold blocks. f_equal. apply map_ext_in. intros o Ho. apply in_seq in Ho. apply H. lia. Qed.

Lemma d_r_eq D :
  ncumsum (diff_marks (0 :: ncumsum D)
             (compress (nadj_diff (0 :: ncumsum D)) (seq 0 (length (0 :: ncumsum D) - 1)))
             (last (0 :: ncumsum D) 0))
  = blocks (length D) (fun o => repeat o (getn D o)).
Proof.
  unfold ncumsum at 2 3 4. rewrite last_cumsum_from, nadj_cumsum. cbn [length Nat.add].
  rewrite ncumsum_from_length. replace (S (length D) - 1) with (length D) by lia.
  apply diff_marks_spec. intros k Hk. apply cumsum0_nth. lia.
Qed.

Lemma map_blocks {B} (h : nat -> B) (c : nat -> nat) G :
  map h (blocks G (fun o => repeat o (c o))) = blocks G (fun o => repeat (h o) (c o)).
Proof. unfold blocks. rewrite map_concat_map. f_equal. apply map_ext. intros o. apply map_repeat. Qed.

Lemma map_blocks_gen {A B} (h : A -> B) (F : nat -> list A) G :
  map h (blocks G F) = blocks G (fun o => map h (F o)).
Proof. unfold blocks. apply map_concat_map. Qed.

Lemma map2_repeat_l {A B C} (f : A -> B -> C) l c : map2 f (repeat c (length l)) l = map (f c) l.
Proof. induction l as [|a l IH]; [reflexivity|]. cbn [length repeat map2 map]. rewrite IH. reflexivity. Qed.

Lemma map2_blocks_l {A B C} (f : A -> B -> C) (a : nat -> A) (c : nat -> nat) (Y : nat -> list B) G :
  (forall o, o < G -> length (Y o) = c o) ->
  map2 f (blocks G (fun o => repeat (a o) (c o))) (blocks G Y) = blocks G (fun o => map (f (a o)) (Y o)).
Proof.
  intros H. unfold blocks. rewrite map2_concat.
  - f_equal. apply map_ext_in. intros o Ho. apply in_seq in Ho. rewrite <- H by lia. apply map2_repeat_l.
  - intros o Ho. apply in_seq in Ho. rewrite repeat_length. symmetry. apply H. lia.
Qed.

Lemma length_blocks_repeat {A} (a : nat -> A) D :
  length (blocks (length D) (fun o => repeat (a o) (getn D o))) = nsum D.
Proof.
  unfold blocks. rewrite length_concat_map.
  rewrite (map_ext _ (getn D)) by (intros o; apply repeat_length). rewrite map_getn_seq. reflexivity.
Qed.

Lemma d_r_idx_eq D dest_idx : (forall k, k < length D -> getn dest_idx k = nsum (firstn k D)) ->
  map2 Nat.sub (seq 0 (length (blocks (length D) (fun o => repeat o (getn D o)))))
       (map (getn dest_idx) (blocks (length D) (fun o => repeat o (getn D o))))
  = blocks (length D) (fun o => seq 0 (getn D o)).
Proof.
  intros H. rewrite length_blocks_repeat, map_blocks, (seq_blocks D 0).
  unfold blocks. rewrite map2_concat by (intros o _; rewrite seq_length, repeat_length; reflexivity).
  f_equal. apply map_ext_in. intros o Ho. apply in_seq in Ho. rewrite H by lia. cbn [Nat.add].
  apply map2_sub_seq_repeat.
Qed.

Lemma combine_map2 {A B} (l1 : list A) (l2 : list B) : combine l1 l2 = map2 pair l1 l2.
Proof. revert l2; induction l1 as [|a l1 IH]; intros [|b l2]; cbn [combine map2]; try reflexivity. rewrite IH. reflexivity. Qed.

Lemma combine_blocks {A B} (X : nat -> list A) (Y : nat -> list B) G :
  (forall o, o < G -> length (X o) = length (Y o)) ->
  combine (blocks G X) (blocks G Y) = blocks G (fun o => combine (X o) (Y o)).
Proof.
  intros H. rewrite combine_map2. unfold blocks. rewrite map2_concat.
  - f_equal. apply map_ext. intros o. symmetry. apply combine_map2.
  - intros o Ho. apply in_seq in Ho. apply H. lia.
Qed.

(* ---------------------------------------------------------------- the triangular tables *)
Lemma tri_S n : tri (S n) = n + tri n.
Proof.
  unfold tri. replace (S n * (S n - 1)) with (n * (n - 1) + n * 2) by (destruct n; cbn [Nat.sub]; lia).
  rewrite Nat.div_add by lia. lia.
Qed.

Lemma pos_pairs_length n : length (pos_pairs n) = tri n.
Proof.
  induction n as [|n IH]; [reflexivity|].
  rewrite pos_pairs_S, app_length, !map_length, seq_length, IH, tri_S. reflexivity.
Qed.

Lemma v_j1_pairs n : concat (map (fun x => repeat x (n - x - 1)) (seq 0 n)) = map fst (pos_pairs n).
Proof.
  unfold pos_pairs. rewrite map_flat_map_c18, flat_map_concat_map. f_equal. apply map_ext. intros a.
  rewrite map_map. cbn [fst]. rewrite map_const_list, seq_length. f_equal. lia.
Qed.

Lemma v_j2_pairs n : concat (map (fun x => seq (x + 1) (n - (x + 1))) (seq 0 n)) = map snd (pos_pairs n).
Proof.
  unfold pos_pairs. rewrite map_flat_map_c18, flat_map_concat_map. f_equal. apply map_ext. intros a.
  rewrite map_map. cbn [snd]. rewrite map_id, Nat.add_1_r. reflexivity.
Qed.

(* ---------------------------------------------------------------- sparse lookup *)
Lemma sparse_get_app i1 j1 v1 i2 j2 v2 a b : length i1 = length j1 -> length j1 = length v1 ->
  sparse_get (i1 ++ i2) (j1 ++ j2) (v1 ++ v2) a b = sparse_get i1 j1 v1 a b + sparse_get i2 j2 v2 a b.
Proof.
  revert j1 v1. induction i1 as [|x i1 IH]; intros [|y j1] [|w v1] H1 H2; cbn [length] in *; try lia.
  - reflexivity.
  - cbn [app sparse_get]. rewrite IH by lia. lia.
Qed.

Lemma sparse_get_block V : forall c s a b,
  sparse_get (repeat c (length V)) (seq s (length V)) V a b =
  if (c =? a) && (s <=? b) && (b <? s + length V) then nth (b - s) V 0 else 0.
Proof.
  induction V as [|w V IH]; intros c s a b.
  - cbn [length repeat seq sparse_get].
    destruct (c =? a), (Nat.leb_spec s b), (Nat.ltb_spec b (s + 0)); cbn [andb]; try reflexivity; lia.
  - cbn [length repeat seq sparse_get]. rewrite IH.
    destruct (Nat.eqb_spec c a) as [E|E]; cbn [andb]; [|reflexivity].
    destruct (Nat.eqb_spec s b) as [E2|E2], (Nat.leb_spec s b), (Nat.leb_spec (S s) b),
      (Nat.ltb_spec b (s + S (length V))), (Nat.ltb_spec b (S s + length V)); cbn [andb]; try lia.
    + subst. rewrite Nat.sub_diag. cbn [nth]. lia.
    + replace (b - s) with (S (b - S s)) by lia. cbn [nth]. lia.
Qed.

Section SparseTables.
  Variable V : nat -> list nat.
  Hypothesis HV : forall c, length (V c) = tri c.

  Lemma sparse_one c a b :
    sparse_get (repeat c (tri c)) (seq 0 (tri c)) (V c) a b =
    if (c =? a) && (b <? tri c) then nth b (V c) 0 else 0.
  Proof.
    rewrite <- (HV c). rewrite sparse_get_block. cbn [Nat.leb Nat.add]. rewrite Nat.sub_0_r, andb_true_r.
    reflexivity.
  Qed.

  Lemma sparse_notin U a b : ~ In a U ->
    sparse_get (concat (map (fun c => repeat c (tri c)) U)) (concat (map (fun c => seq 0 (tri c)) U))
               (concat (map V U)) a b = 0.
  Proof.
    induction U as [|c U IH]; intros Hn; [reflexivity|]. cbn [map concat].
    rewrite sparse_get_app by (rewrite ?repeat_length, ?seq_length, ?HV; reflexivity).
    rewrite sparse_one, IH by (intros C; apply Hn; right; exact C).
    destruct (Nat.eqb_spec c a) as [E|E]; [exfalso; apply Hn; left; exact E|reflexivity].
  Qed.

  Lemma sparse_lookup U a b : NoDup U -> In a U -> b < tri a ->
    sparse_get (concat (map (fun c => repeat c (tri c)) U)) (concat (map (fun c => seq 0 (tri c)) U))
               (concat (map V U)) a b = nth b (V a) 0.
  Proof.
    intros ND. induction ND as [|c U Hc ND IH]; intros Hin Hb; [contradiction|]. cbn [map concat].
    rewrite sparse_get_app by (rewrite ?repeat_length, ?seq_length, ?HV; reflexivity).
    rewrite sparse_one. destruct (Nat.eqb_spec c a) as [E|E].
    - subst c. rewrite sparse_notin by exact Hc.
      destruct (Nat.ltb_spec b (tri a)); [cbn [andb]; lia|lia].
    - cbn [andb]. destruct Hin as [Hin|Hin]; [congruence|]. rewrite IH by assumption. reflexivity.
  Qed.
End SparseTables.

Lemma map2_map_r {A B C} (f : A -> B -> C) (g : A -> B) l : map2 f l (map g l) = map (fun c => f c (g c)) l.
Proof. induction l as [|a l IH]; [reflexivity|]. cbn [map map2]. rewrite IH. reflexivity. Qed.

(* ---------------------------------------------------------------- np.unique of the sorted counts *)
Lemma nunique_In l x : In x (nunique_sorted l) <-> In x l.
Proof.
  induction l as [|a r IH]; [reflexivity|]. destruct r as [|b r']; [reflexivity|].
  change (nunique_sorted (a :: b :: r')) with
    (if a =? b then nunique_sorted (b :: r') else a :: nunique_sorted (b :: r')).
  destruct (Nat.eqb_spec a b) as [E|E].
  - rewrite IH. subst. cbn [In]. tauto.
  - cbn [In] in *. rewrite IH. tauto.
Qed.

Lemma nunique_NoDup l : StronglySorted le l -> NoDup (nunique_sorted l).
Proof.
  intros HS. induction HS as [|a r HS IH F]; [constructor|]. destruct r as [|b r']; [constructor; [intros []|constructor]|].
  change (nunique_sorted (a :: b :: r')) with
    (if a =? b then nunique_sorted (b :: r') else a :: nunique_sorted (b :: r')).
  destruct (Nat.eqb_spec a b) as [E|E]; [exact IH|]. constructor; [|exact IH].
  intros Hin. apply (proj1 (nunique_In _ _)) in Hin.
  inversion F as [|b' r'' Hab F']; subst. inversion HS as [|b' r'' HS' Fb]; subst.
  rewrite Forall_forall in Fb. destruct Hin as [Hin|Hin]; [lia|]. specialize (Fb a Hin). lia.
Qed.

Definition usizes (N : list nat) : list nat := nunique_sorted (map Z.to_nat (zsort (map Z.of_nat N))).

Lemma usizes_NoDup N : NoDup (usizes N).
Proof.
  unfold usizes. apply nunique_NoDup.
  eapply StronglySorted_map; [|apply zsort_sorted]. intros x y Hxy. lia.
Qed.

Lemma usizes_In N x : In x (usizes N) <-> In x N.
Proof.
  unfold usizes. rewrite nunique_In, in_map_iff. split.
  - intros (z & E & Hz). eapply Permutation_in in Hz; [|symmetry; apply zsort_perm].
    apply in_map_iff in Hz. destruct Hz as (n & En & Hn). subst. rewrite Nat2Z.id. exact Hn.
  - intros Hx. exists (Z.of_nat x). split; [apply Nat2Z.id|].
    eapply Permutation_in; [apply zsort_perm|]. apply in_map. exact Hx.
Qed.
