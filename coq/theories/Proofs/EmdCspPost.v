(* C10 — everything the augmentation step needs to know about one call of compute_shortest_path
   (line-level model), stated on the values it returns: there is a set of finalised nodes (a ghost)
   such that the exit node l is finalised, the labels satisfy the three Dijkstra inequalities, every
   finalised node is untouched or reached through a TIGHT residual arc from its finalised prev, and
   the returned lists are the old ones updated by rc_update with these labels. *)
From Coq Require Import ZArith List Bool Lia ZifyBool.
From Centro Require Import Base.Sx Base.EmdBase Model.Emd Model.EmdMcf
  Proofs.EmdHeap Proofs.EmdHeapPos Proofs.EmdHeapOrd Proofs.EmdHeapMem Proofs.EmdDijkstra Proofs.EmdDijkstraInit
  Proofs.EmdTight Proofs.EmdPotential.
Import ListNotations.
Open Scope Z_scope.

Theorem csp_post nv e rf rb :
  (forall u v rc, res_arc rf rb u v rc -> (v < nv)%nat /\ 0 <= rc) ->
  forall d prev from dd' prev' rf' rb' l,
  (from < nv)%nat -> length d = nv -> length prev = nv ->
  compute_shortest_path nv d prev from rf rb e = Some (dd', prev', rf', rb', l) ->
  exists st,
    sp_d st = dd' /\ sp_prev st = prev' /\
    Post nv rf rb st l /\ TPost rf rb from st /\
    rf' = map (fun fx => map (fun en => (fst en, rc_update (sp_final st) dd' (nz dd' l) (fst fx) (fst en) (snd en))) (snd fx))
              (combine (seq 0 nv) rf) /\
    rb' = map (fun fx => map (fun en => (fst (fst en), rc_update (sp_final st) dd' (nz dd' l) (fst fx) (fst (fst en)) (snd (fst en)), snd en)) (snd fx))
              (combine (seq 0 nv) rb).
Proof.
  intros RA d prev from dd' prev' rf' rb' l H LD LP. unfold compute_shortest_path.
  destruct (dijkstra (S nv) e rf rb _) as [[st l0]|] eqn:ED; [|discriminate]. cbn [bind].
  intros X. injection X as <- <- <- <- <-. exists st.
  split; auto. split; auto.
  split; [eapply dijkstra_labels_shortest; eauto|].
  split; [eapply dijkstra_prev_tight; eauto|]. split; reflexivity.
Qed.

(* consequence used by the augmentation: a tight arc between finalised nodes has reduced cost 0
   after the update, and so has its reverse *)
Corollary csp_tight_arc_zero rf rb from st l v :
  TPost rf rb from st -> fn st v = true -> ~ untouched from v (dd st v) ->
  exists rc, res_arc rf rb (pvn st v) v rc /\ fn st (pvn st v) = true /\
             rc_update (sp_final st) (sp_d st) (nz (sp_d st) l) (pvn st v) v rc = 0 /\
             rc_update (sp_final st) (sp_d st) (nz (sp_d st) l) v (pvn st v) (- rc) = 0.
Proof.
  intros T Fv NU. destruct (T v Fv) as [U|[rc [R [Fp E]]]]; [contradiction|].
  exists rc. split; auto. split; auto.
  apply rc_update_tight; auto; unfold dd in E; lia.
Qed.
