(* C11 — the two-class Otsu cut of Model.OtsuQ: invariance under permutation of the data and under
   insertion of NaNs, and the bracket (the cut is a data value or the mean of two data values). *)
From Coq Require Import ZArith QArith List Bool Lia Permutation.
From Centro Require Import Base.Sx Base.ThresholdNum Model.OtsuQ.
Import ListNotations.

(* ------------------------------------------------------------------ NaN *)
Lemma filter_nan_app l1 l2 : filter_nan (l1 ++ l2) = filter_nan l1 ++ filter_nan l2.
Proof. induction l1 as [|[x|] l1 IH]; cbn; [reflexivity| |]; rewrite IH; reflexivity. Qed.

Theorem otsu_nan_invariant_lemma l1 l2 : otsu (l1 ++ None :: l2) = otsu (l1 ++ l2).
Proof. unfold otsu. rewrite !filter_nan_app. reflexivity. Qed.

(* ------------------------------------------------------------------ permutation *)
Lemma zinsert_comm x y l : zinsert x (zinsert y l) = zinsert y (zinsert x l).
Proof.
  induction l as [|z r IH]; cbn.
  - destruct (Z.leb_spec x y), (Z.leb_spec y x); try reflexivity; try lia.
    assert (x = y) by lia. subst. reflexivity.
  - destruct (Z.leb_spec y z), (Z.leb_spec x z); cbn;
      repeat match goal with
             | |- context [(?a <=? ?b)%Z] => destruct (Z.leb_spec a b)
             end; cbn; try lia; try reflexivity.
    + assert (x = y) by lia. subst. reflexivity.
    + rewrite IH. reflexivity.
Qed.

Lemma zsort_cons x l : zsort (x :: l) = zinsert x (zsort l).
Proof. reflexivity. Qed.
Lemma zsort_perm l l' : Permutation l l' -> zsort l = zsort l'.
Proof.
  induction 1 as [|x l l' _ IH|x y l|l l' l'' _ IH1 _ IH2].
  - reflexivity.
  - rewrite !zsort_cons, IH. reflexivity.
  - rewrite !zsort_cons. apply zinsert_comm.
  - rewrite IH1. exact IH2.
Qed.

Lemma filter_nan_perm l l' : Permutation l l' -> Permutation (filter_nan l) (filter_nan l').
Proof.
  induction 1 as [|o l l' _ IH|o1 o2 l|l l' l'' _ IH1 _ IH2].
  - constructor.
  - destruct o; cbn; [constructor|]; exact IH.
  - destruct o1, o2; cbn; try apply Permutation_refl. apply perm_swap.
  - eapply perm_trans; eassumption.
Qed.

Theorem otsu_perm_invariant_lemma l l' : Permutation l l' -> otsu l = otsu l'.
Proof. intros Hp. unfold otsu. rewrite (zsort_perm _ _ (filter_nan_perm _ _ Hp)). reflexivity. Qed.

(* ------------------------------------------------------------------ bracket *)
Lemma in_zinsert x y l : In x (zinsert y l) -> x = y \/ In x l.
Proof.
  induction l as [|z r IH]; cbn.
  - intros [H|[]]; auto.
  - destruct (y <=? z)%Z; cbn.
    + intros [H|H]; auto.
    + intros [H|H]; auto. destruct (IH H); auto.
Qed.
Lemma in_zsort x l : In x (zsort l) -> In x l.
Proof.
  induction l as [|y l IH]; [cbn; tauto|]. rewrite zsort_cons. intros H.
  destruct (in_zinsert _ _ _ H); [left; congruence|right; auto].
Qed.
Lemma in_filter_nan x l : In x (filter_nan l) -> In (Some x) l.
Proof.
  induction l as [|[y|] l IH]; cbn; [tauto| |].
  - intros [H|H]; [left; congruence|right; auto].
  - intros H. right. auto.
Qed.

Lemma in_stride_aux {A} step k (l : list A) x : In x (stride_aux step k l) -> In x l.
Proof.
  revert k. induction l as [|y l IH]; cbn; [tauto|]. intros [|k]; cbn.
  - intros [H|H]; [left; exact H|right; eapply IH; exact H].
  - intros H. right. eapply IH; exact H.
Qed.

Lemma in_thr data step x : In x (map fst (stride step (otsu_rows data))) -> In x data.
Proof.
  intros H. apply in_map_iff in H. destruct H as [[t s] [E H]]. cbn in E. subst t.
  apply in_stride_aux in H. unfold otsu_rows in H. apply in_combine_l in H.
  destruct data; cbn in H; [tauto|right; exact H].
Qed.

Section Bracket.
  Variables lo hi : Z.
  Let P (z : Z) : Prop := (lo <= z <= hi)%Z.
  Lemma mean_in a b : P a -> P b -> inject_Z lo <= Qmake (a + b) 2 /\ Qmake (a + b) 2 <= inject_Z hi.
  Proof. unfold P, Qle. cbn. intros Ha Hb. lia. Qed.
  Lemma inj_in a : P a -> inject_Z lo <= inject_Z a /\ inject_Z a <= inject_Z hi.
  Proof. unfold P. rewrite <- !Zle_Qle. tauto. Qed.

  Lemma otsu_sorted_bracket data :
    data <> [] -> (forall x, In x data -> P x) ->
    inject_Z lo <= otsu_sorted data /\ otsu_sorted data <= inject_Z hi.
  Proof.
    intros Hne Hall. unfold otsu_sorted.
    destruct data as [|x0 [|x1 rest]]; [congruence| |].
    - apply inj_in. apply Hall. left. reflexivity.
    - set (data := x0 :: x1 :: rest) in *.
      set (step := Nat.div (length data) (Nat.min 256 (length data))).
      set (rows := stride step (otsu_rows data)).
      assert (Hthr : forall x, In x (map fst rows) -> P x).
      { intros x Hx. apply Hall. eapply in_thr. exact Hx. }
      assert (Hd : P (hd x0 (map fst rows))).
      { destruct (map fst rows) as [|t ts] eqn:E; cbn; [apply Hall; left; reflexivity|].
        apply Hthr. left. reflexivity. }
      assert (Hnth : forall i, P (nth i (map fst rows) (hd x0 (map fst rows)))).
      { intros i. destruct (nth_in_or_default i (map fst rows) (hd x0 (map fst rows))) as [H|H].
        - apply Hthr. exact H.
        - rewrite H. exact Hd. }
      destruct (map snd rows) as [|s0 ss]; [apply inj_in; exact Hd|].
      destruct (first_index _ _ _) as [index|]; [|apply inj_in; exact Hd].
      apply mean_in; apply Hnth.
  Qed.
End Bracket.

Theorem otsu_bracket_lemma l lo hi :
  filter_nan l <> [] -> (forall x, In (Some x) l -> (lo <= x <= hi)%Z) ->
  inject_Z lo <= otsu l /\ otsu l <= inject_Z hi.
Proof.
  intros Hne Hall. unfold otsu. apply otsu_sorted_bracket.
  - intros E. apply Hne. destruct (filter_nan l) as [|y r]; [reflexivity|].
    rewrite zsort_cons in E. destruct (zsort r); cbn in E; [discriminate|]. destruct (y <=? z)%Z; discriminate.
  - intros x Hx. apply Hall. apply in_filter_nan. apply in_zsort. exact Hx.
Qed.

(* the hypotheses are satisfiable, and the model computes: two NaNs, bimodal data; the arg-min is the threshold 9 and its neighbours 2 and 10 average to 6 *)
Example ex_otsu_data : list (option Z) := [Some 9; None; Some 1; Some 10; Some 2; None; Some 1; Some 11]%Z.
Example ex_otsu : otsu ex_otsu_data == 6 # 1 /\ filter_nan ex_otsu_data <> [] /\
  Permutation ex_otsu_data (rev ex_otsu_data) /\
  (forall x, In (Some x) ex_otsu_data -> (1 <= x <= 11)%Z).
Proof.
  split; [vm_compute; reflexivity|]. split; [discriminate|]. split; [apply Permutation_rev|].
  intros x H. cbn in H. repeat (destruct H as [H|H]; [try discriminate; inversion H; lia|]). destruct H.
Qed.
