(* C01 / C19-facing — phase 4, fuel: the Dijkstra loop of one free row appends one column to `ready` per iteration and
   |ready| <= n, so with the fuel S (S n) that aug_row gives it, a None result is never the out-of-fuel exit: it is None at
   every larger fuel as well (i.e. it comes from an empty rebuild of scan or a failed cost lookup). *)
From Coq Require Import ZArith List Bool Lia Arith.
From Centro Require Import Base.Sx Model.Lapjv Spec.Lapjv Proofs.LapjvPhases Proofs.LapjvArr Proofs.LapjvAugMarks.
Import ListNotations.

Section Fuel.
Variables (r n : nat) (rows : list (list (nat * ext))) (y : list nat) (v : list ext) (inf : ext).
Hypothesis Rfin : forall i j c, In (j, c) (row rows i) -> (j < n)%nat.

Lemma aug_relax_ready i1 u1 : forall row s, g_ready (fst (aug_relax r n i1 y v u1 row s)) = g_ready s.
Proof.
  induction row as [|[j c] rr IH]; intros s; cbn [aug_relax]; [reflexivity|].
  destruct (getn (g_done s) j n =? r)%nat; [apply IH|].
  destruct (eltb (esub (esub c (gete v j)) u1) (gete (g_d s) j)); [|apply IH].
  destruct (eleb (esub (esub c (gete v j)) u1) (g_umin s)).
  - destruct (getn y j n =? n)%nat; [reflexivity|]. rewrite IH. reflexivity.
  - destruct (getn (g_ontodo s) j n =? r)%nat; rewrite IH; reflexivity.
Qed.

Theorem aug_loop_fuel : forall fuel s, Marks r n s -> (n < fuel + length (g_ready s))%nat ->
  aug_loop fuel r n inf rows y v s = None ->
  forall fuel', (fuel <= fuel')%nat -> aug_loop fuel' r n inf rows y v s = None.
Proof.
  induction fuel as [|f IH]; intros s M Hf E fuel' Hle.
  - exfalso. destruct (Bounds_lengths n s (Marks_Bounds r n s M)) as [_ B]. lia.
  - destruct fuel' as [|f']; [lia|]. cbn [aug_loop] in *.
    pose proof (refill_spec r n rows y inf Rfin s M) as RS. unfold refill in RS.
    destruct (match g_scan s with
              | [] => let '(umin, scan) := aug_min r n (g_d s) (g_done s) (g_todo s) inf [] in
                      let '(found, done') := aug_first_free r n y scan (g_done s) in
                      (mkAug (g_d s) (g_pred s) done' (g_ontodo s) (g_todo s) scan (g_ready s) umin, found)
              | _ => (s, None)
              end) as [s1 found].
    destruct RS as [_ [_ [Er [_ [_ [RN _]]]]]].
    destruct found as [j|]; [discriminate|]. destruct (RN eq_refl) as [M1 _].
    destruct (g_scan s1) as [|jh srest] eqn:ES1; [reflexivity|].
    destruct (cost_at (rowget rows (getn y jh n)) jh) as [c1|]; [|reflexivity].
    pose proof (Marks_pop r n s1 jh srest M1 ES1) as M2.
    match goal with |- context [aug_relax _ _ _ _ _ _ _ ?S] => set (s2 := S) in * end.
    pose proof (aug_relax_marks r n y v (getn y jh n) (esub (esub c1 (gete v jh)) (g_umin s1)) (rowget rows (getn y jh n)) s2
                  (fun j c H => Rfin _ j c H) M2) as [M3 _].
    pose proof (aug_relax_ready (getn y jh n) (esub (esub c1 (gete v jh)) (g_umin s1)) (rowget rows (getn y jh n)) s2) as R3.
    destruct (aug_relax r n (getn y jh n) y v (esub (esub c1 (gete v jh)) (g_umin s1)) (rowget rows (getn y jh n)) s2) as [s3 f3].
    cbn [fst snd] in M3, R3. destruct f3 as [j|]; [discriminate|].
    apply (IH s3 M3); [|exact E|lia].
    rewrite R3. unfold s2. cbn [g_ready]. rewrite app_length, Er. cbn [length]. lia.
Qed.
End Fuel.
