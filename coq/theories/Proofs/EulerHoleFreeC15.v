(* C15 — euler_number of a hole-free label: every label image whose label-l pixel set has a
   4-connected complement (in the plane) reduces to the empty image by deletions of simple pixels
   and isolated points only (C05's end-pixel lemma, IMPORTED: Proofs/EndPixel.v end_pixel_fin), hence
   4 W = 4 * (number of 8-components), for every image size (Full). *)
From Coq Require Import ZArith List Bool Lia.
From Centro Require Import Base.Topo Base.Skel Spec.TopoCheck Proofs.TopoCounts Proofs.TopoSwShrinkEnd Proofs.EndPixel.
From Centro Require Import Base.GraphC15 Model.LabelGraph Spec.EulerMovesC15 Proofs.NeighborsC15 Proofs.EulerQuadC15
  Proofs.EulerStepC15 Proofs.EulerTopoC15.
Import ListNotations.
Open Scope Z_scope.

(* 512 sweep: an end pattern is (8,4)-simple *)
Lemma end_simple_sweep : forall_bits 9 (fun bits => implb (end_pattern bits) (simple_ok bits)) = true.
Proof. vm_compute. reflexivity. Qed.
Lemma pat_len X p : length (pat X p) = 9%nat.
Proof. unfold pat. rewrite map_length, seq_length. reflexivity. Qed.
Lemma endp_simple X e : endp X e = true -> simple_ok (pat X e) = true.
Proof.
  intros E. pose proof (forall_bits_spec 9 _ end_simple_sweep (pat X e) (pat_len X e)) as H. cbn beta in H.
  unfold endp in E. rewrite E in H. exact H.
Qed.
Lemma simple_ok_simple_at im l y x : get2 im y x = l -> simple_ok (pat (X_of im l) (y, x)) = true -> simple_at im l y x = true.
Proof.
  intros P S. rewrite pat_X_of in S by (unfold inS; rewrite P; apply Z.eqb_refl).
  rewrite <- simple8_is_simple_ok in S. exact S.
Qed.

(* hole-freeness is kept by both deletions *)
Lemma hf_ext (X Y : Topo.img) : (forall q, X q = Y q) -> hole_free' X -> hole_free' Y.
Proof.
  intros E H a b Ha Hb. apply (bg_ext _ _ E) in Ha. apply (bg_ext _ _ E) in Hb.
  eapply path_mono; [|exact (H a b Ha Hb)]. intros q. apply (bg_ext _ _ E).
Qed.
Lemma hf_from_anchor (X X' : Topo.img) : (forall q, bg X q -> bg X' q) ->
  (forall a, bg X' a -> exists a0, bg X a0 /\ conn4 X' a a0) -> hole_free' X -> hole_free' X'.
Proof.
  intros Sub Anc H a b Ha Hb. destruct (Anc a Ha) as [a0 [Ba0 Ca]]. destruct (Anc b Hb) as [b0 [Bb0 Cb]].
  eapply path_trans; [exact Ca|]. eapply path_trans; [|apply conn4_sym; exact Cb].
  eapply path_mono; [|exact (H a0 b0 Ba0 Bb0)]. exact Sub.
Qed.
Lemma hf_simple X p : SimpleAt X p -> hole_free' X -> hole_free' (Topo.remove X p).
Proof.
  intros S. pose proof (simple_removal_topo X p S) as T. apply hf_from_anchor.
  - apply (sub_bg _ _ T).
  - apply (te_bg_surj _ _ T).
Qed.
Lemma hf_iso X p : fg X p -> (forall a, adj8 p a -> bg X a) -> hole_free' X -> hole_free' (Topo.remove X p).
Proof.
  intros Fp Iso. apply hf_from_anchor.
  - intros q Hq. apply remove_bg. left. exact Hq.
  - intros a Ha. apply remove_bg in Ha. destruct Ha as [Ha| ->].
    + exists a. split; [exact Ha|]. apply path_refl. apply remove_bg. left. exact Ha.
    + exists (nb p 1).
      assert (A4 : adj4 p (nb p 1)) by (rewrite <- (nb_center p) at 1; apply padj4_sound; reflexivity).
      assert (B : bg X (nb p 1)) by (apply Iso; rewrite <- (nb_center p) at 1; apply padj8_sound; reflexivity).
      split; [exact B|]. eapply path_step; [apply remove_bg; right; reflexivity|exact A4|].
      apply path_refl. apply remove_bg. left. exact B.
Qed.

(* a pixel that is not isolated has a neighbour in the set *)
Lemma not_isolated_nb im l y x : isolated_at im l y x = false -> exists q, adj8 (y, x) q /\ X_of im l q = true.
Proof.
  unfold isolated_at, isolated8, nb_bit. intros H. apply negb_false_iff in H.
  repeat (apply orb_true_iff in H; destruct H as [H|H]);
    match type of H with inS _ _ (y + ?dy) (x + ?dx) = true => exists (y + dy, x + dx) end;
    (split; [unfold adj8; cbn [fst snd]; repeat split; try lia; intros E; inversion E; lia|exact H]).
Qed.

Section HoleFree.
Variable l : Z.
Hypothesis l_nz : l <> 0.

Lemma X_true_inside im q : rect im -> X_of im l q = true ->
  get2 im (fst q) (snd q) = l /\ In q (positions (img_h im) (img_w im)).
Proof.
  intros R H. unfold X_of, inS in H. apply Z.eqb_eq in H. split; [exact H|].
  destruct q as [qy qx]. cbn [fst snd] in *. apply positions_in. apply (get2_inside im qy qx R). lia.
Qed.

Lemma holefree_reduces : forall n im, rect im ->
  (exists L, (length L <= n)%nat /\ forall q, X_of im l q = true -> In q L) ->
  hole_free' (X_of im l) -> exists k, Reduces l im k.
Proof.
  induction n as [|n IH]; intros im R [L [LL LIN]] HF.
  - exists 0. apply red_empty. intros y x E.
    assert (H : X_of im l (y, x) = true) by (unfold X_of, inS; cbn [fst snd]; rewrite E; apply Z.eqb_refl).
    apply LIN in H. destruct L; [destruct H|cbn [length] in LL; lia].
  - set (ps := positions (img_h im) (img_w im)).
    assert (STEP : forall p, X_of im l p = true ->
              (forall q, X_of (remove_px im (fst p) (snd p)) l q = Topo.remove (X_of im l) p q) /\
              exists L', (length L' <= n)%nat /\ forall q, X_of (remove_px im (fst p) (snd p)) l q = true -> In q L').
    { intros [py px0] Hp. destruct (X_true_inside im _ R Hp) as [Gp _]. cbn [fst snd] in *.
      assert (EX := X_of_remove im l py px0 l_nz Gp). split; [exact EX|].
      exists (filter (fun q => negb (Topo.px_eqb q (py, px0))) L). split.
      - assert (S : (length (filter (fun q => negb (Topo.px_eqb q (py, px0))) L) < length L)%nat).
        { apply (filter_shorter _ L (py, px0)); [apply LIN; exact Hp|].
          destruct (px_eqb_spec (py, px0) (py, px0)); [reflexivity|congruence]. }
        lia.
      - intros q Hq. rewrite EX in Hq. unfold Topo.remove in Hq. apply filter_In.
        destruct (Topo.px_eqb q (py, px0)); [discriminate|]. split; [apply LIN; exact Hq|reflexivity]. }
    destruct (find (fun p => inS im l (fst p) (snd p) && negb (isolated_at im l (fst p) (snd p))) ps) as [p|] eqn:FA.
    + (* some pixel has a neighbour: an end pixel exists, it is simple *)
      apply find_some in FA. destruct FA as [_ FA]. apply andb_true_iff in FA. destruct FA as [Hp NI].
      apply negb_true_iff in NI. destruct p as [py px0]. cbn [fst snd] in *.
      destruct (not_isolated_nb im l py px0 NI) as [q [Aq Xq]].
      destruct (end_pixel_fin (S n) (X_of im l) L LL LIN HF (py, px0) (py, px0) Hp (ex_intro _ q (conj Aq Xq)))
        as [e [Xe [Ee _]]].
      destruct (X_true_inside im e R Xe) as [Ge _].
      pose proof (endp_simple _ _ Ee) as SO. destruct e as [ey ex]. cbn [fst snd] in *.
      pose proof (simple_ok_simple_at im l ey ex Ge SO) as SA.
      destruct (STEP (ey, ex) Xe) as [EX HL]. cbn [fst snd] in *.
      destruct (IH (remove_px im ey ex) (set_px_rect im ey ex 0 R) HL) as [k Rk].
      { apply (hf_ext (Topo.remove (X_of im l) (ey, ex))); [intros q0; symmetry; apply EX|].
        apply hf_simple; [apply simple_ok_sound; exact SO|exact HF]. }
      exists k. eapply red_simple; eauto.
    + destruct (find (fun p => inS im l (fst p) (snd p)) ps) as [p|] eqn:FB.
      * (* every pixel of the set is isolated: delete one *)
        apply find_some in FB. destruct FB as [Ip Hp]. destruct p as [py px0]. cbn [fst snd] in *.
        pose proof (find_none _ _ FA (py, px0) Ip) as NA. cbn [fst snd] in NA. rewrite Hp in NA. cbn [andb] in NA.
        apply negb_false_iff in NA.
        assert (Xp : X_of im l (py, px0) = true) by exact Hp.
        destruct (X_true_inside im _ R Xp) as [Gp _]. cbn [fst snd] in Gp.
        destruct (STEP (py, px0) Xp) as [EX HL]. cbn [fst snd] in *.
        destruct (IH (remove_px im py px0) (set_px_rect im py px0 0 R) HL) as [k Rk].
        { apply (hf_ext (Topo.remove (X_of im l) (py, px0))); [intros q0; symmetry; apply EX|].
          apply hf_iso; [exact Xp|apply isolated_at_iso; exact NA|exact HF]. }
        exists (k + 1). eapply red_point; eauto.
      * exists 0. apply red_empty. intros y x E.
        assert (H : X_of im l (y, x) = true) by (unfold X_of, inS; cbn [fst snd]; rewrite E; apply Z.eqb_refl).
        destruct (X_true_inside im _ R H) as [_ Hin]. pose proof (find_none _ _ FB (y, x) Hin) as N0.
        cbn [fst snd] in N0. unfold X_of in H. cbn [fst snd] in H. congruence.
Qed.

(* every hole-free label is reducible by deletions alone *)
Theorem holefree_reducible im : rect im -> hole_free' (X_of im l) -> exists k, Reduces l im k.
Proof.
  intros R HF. apply (holefree_reduces (length (positions (img_h im) (img_w im))) im R); [|exact HF].
  exists (positions (img_h im) (img_w im)). split; [apply le_n|]. intros q Hq. apply (X_true_inside im q R Hq).
Qed.

(* 4 W = 4 * (number of 8-components) for every hole-free label, every image size *)
Theorem euler_holefree im : rect im -> hole_free' (X_of im l) ->
  forall fgl, comp_reps adj8 (fg (X_of im l)) fgl -> euler4 im l = 4 * Z.of_nat (length fgl).
Proof.
  intros R HF fgl CF. destruct (holefree_reducible im R HF) as [k Rk].
  assert (B0 : bg (X_of im l) (-1, -1)).
  { unfold bg, X_of, inS, get2, get2d. cbn [fst snd Z.ltb Z.compare orb]. apply Z.eqb_neq. congruence. }
  assert (CB : comp_reps adj4 (bg (X_of im l)) [(-1, -1)]).
  { split; [constructor; [exact B0|constructor]|split; [cbn; split; [constructor|exact I]|]].
    intros a Ha. exists (-1, -1). split; [left; reflexivity|apply HF; assumption]. }
  destruct (euler_reducible_topological l l_nz im k (Reduces_Reduces2 l im k Rk) R fgl [(-1, -1)] CF CB) as [E _].
  rewrite E. unfold topo_count. cbn [length]. lia.
Qed.
End HoleFree.
