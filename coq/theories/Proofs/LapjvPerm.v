(* C01 — the structural half of lapjv_fixed_cert: if every row is pending or assigned before augment (completeness of
   phases 1-3) then after augment every column is assigned, and x / y are mutually inverse permutations of 0..n-1. *)
From Coq Require Import ZArith List Bool Lia Arith Permutation.
From Centro Require Import Base.Sx Model.Lapjv Spec.Lapjv Proofs.LapjvPhases Proofs.LapjvArr Proofs.LapjvRows Proofs.LapjvAugMarks
  Proofs.LapjvAugFlip Proofs.LapjvAugPred Proofs.LapjvAugRows.
Import ListNotations.

Section Perm.
Variable n : nat.

(* every row is on the pending list or assigned to a column *)
Definition Comp (y : list nat) (pend : list nat) : Prop :=
  forall i, (i < n)%nat -> In i pend \/ exists j, (j < n)%nat /\ getn y j n = i.

Definition acols (y : list nat) : list nat := filter (fun j => negb (getn y j n =? n)%nat) (seq 0 n).

Lemma acnt_acols y : acnt n y = length (acols y).
Proof. reflexivity. Qed.

Lemma comp_count y pend : Comp y pend -> (n <= length pend + acnt n y)%nat.
Proof.
  intros C. rewrite acnt_acols. rewrite <- (map_length (fun j => getn y j n) (acols y)), <- app_length.
  rewrite <- (seq_length n 0) at 1. apply NoDup_incl_length; [apply seq_NoDup|].
  intros i Hi. apply in_seq in Hi. destruct (C i ltac:(lia)) as [H|[j [Hj E]]]; apply in_app_iff; [left; auto|right].
  apply in_map_iff. exists j. split; auto. unfold acols. apply filter_In. split; [apply in_seq; lia|].
  rewrite E. destruct (Nat.eqb_spec i n); [lia|reflexivity].
Qed.

Lemma filter_len_le {A} (p : A -> bool) l : (length (filter p l) <= length l)%nat.
Proof. induction l as [|h r IH]; cbn [filter length]; auto. destruct (p h); cbn [length]; lia. Qed.

Lemma filter_full {A} (p : A -> bool) l : length (filter p l) = length l -> forall a, In a l -> p a = true.
Proof.
  induction l as [|h r IH]; cbn [filter length]; intros L a Ha; [destruct Ha|].
  pose proof (filter_len_le p r) as Le. destruct (p h) eqn:E; cbn [length] in L.
  - destruct Ha as [<-|Ha]; [exact E|apply IH; [lia|exact Ha]].
  - lia.
Qed.

Lemma all_assigned y : (n <= acnt n y)%nat -> forall j, (j < n)%nat -> getn y j n <> n.
Proof.
  intros L j Hj. unfold acnt in L.
  pose proof (filter_len_le (fun j => negb (getn y j n =? n)%nat) (seq 0 n)) as Le. rewrite seq_length in Le.
  assert (H : negb (getn y j n =? n)%nat = true).
  { apply (filter_full (fun j => negb (getn y j n =? n)%nat) (seq 0 n)); [rewrite seq_length; lia|apply in_seq; lia]. }
  destruct (Nat.eqb_spec (getn y j n) n); [discriminate|auto].
Qed.

Theorem perm_of_full x y : length x = n -> length y = n -> PIh n x y None ->
  (forall j, (j < n)%nat -> getn y j n <> n) -> Inverse n x y.
Proof.
  intros Lx Ly PI Full.
  assert (Y : forall j, (j < n)%nat -> (getn y j n < n)%nat /\ getn x (getn y j n) n = j).
  { intros j Hj. apply (PI j _ Hj ltac:(discriminate) eq_refl (Full j Hj)). }
  (* y is injective on 0..n-1 with values in 0..n-1, hence onto *)
  assert (ND : NoDup (map (fun j => getn y j n) (seq 0 n))).
  { assert (G : forall l, NoDup l -> (forall j, In j l -> (j < n)%nat) -> NoDup (map (fun j => getn y j n) l)).
    { induction l as [|a l IH]; intros N B; cbn [map]; [constructor|]. inversion N; subst. constructor.
      - intros Hin. apply in_map_iff in Hin as [b [E Hb]]. destruct (Y a (B a (or_introl eq_refl))) as [_ Xa].
        destruct (Y b (B b (or_intror Hb))) as [_ Xb]. rewrite E in Xb. assert (Eab : a = b) by congruence. apply H1. rewrite Eab. exact Hb.
      - apply IH; auto. intros; apply B; right; auto. }
    apply G; [apply seq_NoDup|intros j Hj; apply in_seq in Hj; lia]. }
  assert (Onto : forall i, (i < n)%nat -> exists j, (j < n)%nat /\ getn y j n = i).
  { intros i Hi.
    assert (Inc : incl (seq 0 n) (map (fun j => getn y j n) (seq 0 n))).
    { apply NoDup_length_incl; auto; [rewrite map_length; lia|].
      intros a Ha. apply in_map_iff in Ha as [j [<- Hj]]. apply in_seq in Hj. apply in_seq. destruct (Y j ltac:(lia)). lia. }
    assert (Hin : In i (map (fun j => getn y j n) (seq 0 n))) by (apply Inc; apply in_seq; lia).
    apply in_map_iff in Hin as [j [E Hj]]. apply in_seq in Hj. exists j. split; [lia|auto]. }
  unfold Inverse, col. split; auto. split; auto. split.
  - intros i Hi. destruct (Onto i Hi) as [j [Hj E]]. destruct (Y j Hj) as [_ Xj]. rewrite E in Xj.
    fold (getn x i n) in *. unfold getn in *.
    assert (E0 : nth i x 0%nat = nth i x n) by (apply nth_indep; lia).
    rewrite E0, Xj. split; auto.
    assert (E1 : nth j y 0%nat = nth j y n) by (apply nth_indep; lia). rewrite E1. exact E.
  - intros j Hj. destruct (Y j Hj) as [A B]. unfold getn in *.
    assert (E1 : nth j y 0%nat = nth j y n) by (apply nth_indep; lia). rewrite E1. split; auto.
    assert (E0 : nth (nth j y n) x 0%nat = nth (nth j y n) x n) by (apply nth_indep; lia). rewrite E0. exact B.
Qed.
End Perm.

(* ---------------------------------------------------------------- completeness through augmenting row reduction *)

Section CompArr.
Variables (n : nat) (rows : list (list (nat * ext))).
Hypothesis Rfin : forall i j c, In (j, c) (row rows i) -> (j < n)%nat.

Definition okj (o : option nat) : Prop := forall j, o = Some j -> (j < n)%nat.

Lemma arr_scan_okj v : forall R u1 u2 j1 j2, (forall j c, In (j, c) R -> (j < n)%nat) -> okj j1 -> okj j2 ->
  okj (snd (fst (arr_scan v R u1 u2 j1 j2))) /\ okj (snd (arr_scan v R u1 u2 j1 j2)).
Proof.
  induction R as [|[j c] R IH]; intros u1 u2 j1 j2 HR O1 O2; cbn [arr_scan fst snd]; auto.
  assert (Oj : okj (Some j)) by (intros k E; inversion E; subst; eapply HR; left; eauto).
  assert (HR' : forall j' c', In (j', c') R -> (j' < n)%nat) by (intros; eapply HR; right; eauto).
  destruct (eltb (esub c (gete v j)) u1); [apply IH; auto|].
  destruct (eltb (esub c (gete v j)) u2); apply IH; auto.
Qed.

Lemma comp_step y i jt rest fl (retry : bool) : length y = n -> (jt < n)%nat ->
  Comp n y ((i :: rest) ++ fl) ->
  Comp n (upd y jt i)
    ((if (getn y jt n =? n)%nat then rest else if retry then getn y jt n :: rest else rest) ++
     (if (getn y jt n =? n)%nat then fl else if retry then fl else getn y jt n :: fl)).
Proof.
  intros Ly Hjt C a Ha.
  assert (Pend : forall b, In b (rest ++ fl) \/ (b = getn y jt n /\ b <> n) ->
            In b ((if (getn y jt n =? n)%nat then rest else if retry then getn y jt n :: rest else rest) ++
                  (if (getn y jt n =? n)%nat then fl else if retry then fl else getn y jt n :: fl))).
  { intros b [H|[E N]].
    - apply in_app_iff in H. apply in_app_iff. destruct (getn y jt n =? n)%nat; [tauto|]. destruct retry; cbn [In]; tauto.
    - apply in_app_iff. destruct (Nat.eqb_spec (getn y jt n) n); [congruence|]. destruct retry; cbn [In]; auto. }
  destruct (C a Ha) as [[<-|H]|[j [Hj E]]].
  - right. exists jt. split; auto. rewrite getn_upd, Nat.eqb_refl, Ly. replace (jt <? n)%nat with true by (symmetry; apply Nat.ltb_lt; auto). reflexivity.
  - left. apply Pend. left. exact H.
  - destruct (Nat.eq_dec j jt) as [->|NE].
    + left. apply Pend. right. split; auto. lia.
    + right. exists j. split; auto. rewrite getn_upd. destruct (Nat.eqb_spec j jt); [contradiction|]. exact E.
Qed.

Theorem arr_loop_comp eps epsr : forall fuel todo s r,
  length (a_y s) = n -> okj (a_j1 s) -> okj (a_j2 s) ->
  Comp n (a_y s) (todo ++ a_free s) ->
  arr_loop fuel eps epsr n rows todo s = Some r ->
  length (a_y r) = n /\ Comp n (a_y r) (a_free r).
Proof.
  induction fuel as [|f IH]; intros todo s r Ly O1 O2 C; destruct todo as [|i rest]; cbn [arr_loop]; intros E;
    try discriminate; try (inversion E; subst; auto; fail).
  pose proof (arr_scan_okj (a_v s) (rowget rows i) PInf PInf (a_j1 s) (a_j2 s) (fun j c H => Rfin i j c H) O1 O2) as [S1 S2].
  destruct (arr_scan (a_v s) (rowget rows i) PInf PInf (a_j1 s) (a_j2 s)) as [[[u1 u2] j1o] j2o]. cbn [fst snd] in S1, S2.
  destruct j1o as [j1|]; [|discriminate].
  assert (Hj1 : (j1 < n)%nat) by (apply S1; auto).
  assert (Ok1 : forall j, (j < n)%nat -> okj (Some j)) by (intros j H k E0; inversion E0; subst; auto).
  assert (Fin : forall jt v', (jt < n)%nat ->
            arr_loop f eps epsr n rows
              (if (getn (a_y s) jt n =? n)%nat then rest else if eltb (eadd u1 epsr) u2 then getn (a_y s) jt n :: rest else rest)
              (mkArr (upd (a_x s) i jt) (upd (a_y s) jt i) v' (Some jt) j2o
                 (if (getn (a_y s) jt n =? n)%nat then a_free s else if eltb (eadd u1 epsr) u2 then a_free s else getn (a_y s) jt n :: a_free s))
            = Some r -> length (a_y r) = n /\ Comp n (a_y r) (a_free r)).
  { intros jt v' Hjt E'. apply IH in E'; cbn [a_y a_j1 a_j2 a_free]; auto.
    - rewrite upd_length. exact Ly.
    - apply comp_step; auto. }
  destruct (eltb (eadd u1 eps) u2).
  - eapply Fin; eauto.
  - destruct (getn (a_y s) j1 n =? n)%nat eqn:En.
    + apply (Fin j1 (a_v s) Hj1). rewrite En. exact E.
    + destruct j2o as [j2|]; [|discriminate]. apply (Fin j2 (a_v s)); [apply S2; auto|exact E].
Qed.

Theorem arr_passes_comp eps epsr fuel : forall k x y v ii x' y' v' ii',
  length y = n -> Comp n y ii ->
  arr_passes k fuel eps epsr n rows (x, y, v, ii) = Some (x', y', v', ii') ->
  length y' = n /\ Comp n y' ii'.
Proof.
  induction k as [|k IH]; intros x y v ii x' y' v' ii' Ly C; cbn [arr_passes].
  - intros E; inversion E; subst; auto.
  - unfold arr_pass at 1.
    destruct (arr_loop fuel eps epsr n rows ii (mkArr x y v None None [])) as [r|] eqn:EL; [|discriminate].
    destruct (arr_loop_comp eps epsr fuel ii (mkArr x y v None None []) r) as [A B]; auto; try (intros j E0; discriminate).
    { cbn [a_y a_free]. rewrite app_nil_r. exact C. }
    apply IH; auto. intros i Hi. destruct (B i Hi) as [H|H]; [left; apply in_rev in H; exact H|right; exact H].
Qed.
End CompArr.

(* ---------------------------------------------------------------- completeness after column reduction *)

Lemma x_init_go_keep n mi : forall j0 x i, ~ In i mi -> getn (x_init_go mi j0 x) i n = getn x i n.
Proof.
  induction mi as [|i0 r IH]; intros j0 x i Nin; cbn [x_init_go]; auto.
  rewrite IH by (intros H; apply Nin; right; auto). rewrite getn_upd.
  destruct (Nat.eqb_spec i i0) as [->|NE]; [exfalso; apply Nin; left; auto|reflexivity].
Qed.

Lemma x_init_go_hit n mi : forall j0 x i, (i < length x)%nat -> In i mi ->
  exists k, (k < length mi)%nat /\ nth k mi n = i /\ getn (x_init_go mi j0 x) i n = (j0 + k)%nat.
Proof.
  induction mi as [|i0 r IH]; intros j0 x i Hi Hin; [destruct Hin|]. cbn [x_init_go length].
  destruct (in_dec Nat.eq_dec i r) as [Hr|Nr].
  - destruct (IH (S j0) (upd x i0 j0) i ltac:(rewrite upd_length; auto) Hr) as [k [Hk [E1 E2]]].
    exists (S k). split; [lia|]. split; auto. rewrite E2. lia.
  - assert (i0 = i) by (destruct Hin; [auto|contradiction]). subst i0.
    exists 0%nat. split; [lia|]. split; auto. rewrite x_init_go_keep by auto.
    rewrite getn_upd, Nat.eqb_refl. replace (i <? length x)%nat with true by (symmetry; apply Nat.ltb_lt; auto). cbn [andb]. lia.
Qed.

Lemma y_init_go_keep n x : forall i0 y j, ~ In j x -> getn (y_init_go n x i0 y) j n = getn y j n.
Proof.
  induction x as [|j1 r IH]; intros i0 y j Nin; cbn [y_init_go]; auto.
  rewrite IH by (intros H; apply Nin; right; auto). destruct (j1 =? n)%nat; auto. rewrite getn_upd.
  destruct (Nat.eqb_spec j j1) as [->|NE]; [exfalso; apply Nin; left; auto|reflexivity].
Qed.

Lemma y_init_go_hit n x : forall i0 y j, (j < length y)%nat -> j <> n -> In j x ->
  exists k, (k < length x)%nat /\ nth k x n = j /\ getn (y_init_go n x i0 y) j n = (i0 + k)%nat.
Proof.
  induction x as [|j1 r IH]; intros i0 y j Hj Nn Hin; [destruct Hin|]. cbn [y_init_go length].
  destruct (in_dec Nat.eq_dec j r) as [Hr|Nr].
  - destruct (IH (S i0) (if (j1 =? n)%nat then y else upd y j1 i0) j
                ltac:(destruct (j1 =? n)%nat; [auto|rewrite upd_length; auto]) Nn Hr) as [k [Hk [E1 E2]]].
    exists (S k). split; [lia|]. split; auto. rewrite E2. lia.
  - assert (j1 = j) by (destruct Hin; [auto|contradiction]). subst j1.
    exists 0%nat. split; [lia|]. split; auto. rewrite y_init_go_keep by auto.
    destruct (Nat.eqb_spec j n); [contradiction|].
    rewrite getn_upd, Nat.eqb_refl. replace (j <? length y)%nat with true by (symmetry; apply Nat.ltb_lt; auto). cbn [andb]. lia.
Qed.

Theorem phase1_comp n tri :
  Comp n (y_init n (x_init n (min_i n tri))) (free_rows n (min_i n tri)).
Proof.
  intros i Hi. set (mi := min_i n tri).
  assert (Lm : length mi = n) by (unfold mi, min_i, col_mins; rewrite !map_length, seq_length; auto).
  destruct (in_dec Nat.eq_dec i (free_rows n mi)) as [F|NF]; [left; auto|right].
  assert (Hin : In i mi).
  { destruct (in_dec Nat.eq_dec i mi) as [H|H]; auto. exfalso. apply NF. unfold free_rows. apply filter_In.
    split; [apply in_seq; lia|]. apply Nat.eqb_eq. unfold count_of.
    destruct (filter (Nat.eqb i) mi) as [|a l] eqn:EF; auto. exfalso.
    assert (Ha : In a (filter (Nat.eqb i) mi)) by (rewrite EF; left; auto).
    apply filter_In in Ha as [Ha Eb]. apply Nat.eqb_eq in Eb. apply H. rewrite Eb. exact Ha. }
  unfold x_init.
  destruct (x_init_go_hit n mi 0%nat (repeat n n) i ltac:(rewrite repeat_length; auto) Hin) as [k [Hk [E1 E2]]].
  set (x0 := x_init_go mi 0 (repeat n n)) in *. cbn [Nat.add] in E2.
  assert (Lx : length x0 = n) by (unfold x0; rewrite (x_init_go_length mi 0 (repeat n n)), repeat_length; auto).
  assert (Hkx : In k x0).
  { rewrite <- E2. unfold getn. apply nth_In. lia. }
  unfold y_init.
  destruct (y_init_go_hit n x0 0%nat (repeat n n) k ltac:(rewrite repeat_length; lia) ltac:(lia) Hkx) as [i' [Hi' [F1 F2]]].
  cbn [Nat.add] in F2. exists k. split; [lia|]. rewrite F2.
  (* x0 i' = k = x0 i, and x0 is injective on assigned values *)
  assert (G : forall a, getn x0 a n <> n -> nth (getn x0 a n) mi n = a).
  { intros a Ha. unfold x0 in *.
    destruct (x_init_go_spec n mi 0%nat (repeat n n) a _ eq_refl) as [H|[_ [H _]]].
    - exfalso. apply Ha. rewrite <- H. unfold getn. apply nth_repeat.
    - rewrite Nat.sub_0_r in H. exact H. }
  assert (A1 : getn x0 i' n = k) by exact F1.
  assert (Ei' : nth k mi n = i') by (rewrite <- A1; apply G; rewrite A1; lia).
  assert (Ei : nth k mi n = i) by (rewrite <- E2; apply G; rewrite E2; lia).
  congruence.
Qed.
