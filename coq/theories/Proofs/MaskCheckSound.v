(* C12 — the two-run checker of Spec/MaskCheck.v is sound and complete for its declarative reading. *)
From Coq Require Import ZArith List Bool Lia.
From Centro Require Import Spec.MaskCheck.
Import ListNotations.
Open Scope Z_scope.

Theorem agree_on_sound sel m : forall a b, agree_on sel m a b = true -> Agree sel m a b.
Proof.
  induction m as [|mk m IH]; intros a b H; destruct a as [|x a], b as [|y b]; cbn [agree_on] in H; try discriminate.
  - split; [|split]; auto.
  - apply andb_true_iff in H as [H1 H2]. destruct (IH a b H2) as [La [Lb Hn]].
    split; [|split]; cbn [length]; try lia.
    intros [|k] Hk Hm; cbn [nth] in *.
    + destruct mk, sel; cbn in *; try discriminate; apply Z.eqb_eq; auto.
    + apply Hn; [cbn [length] in Hk; lia|auto].
Qed.

Theorem agree_on_complete sel m : forall a b, Agree sel m a b -> agree_on sel m a b = true.
Proof.
  induction m as [|mk m IH]; intros a b [La [Lb Hn]]; destruct a as [|x a], b as [|y b]; cbn [length] in *; try lia.
  - reflexivity.
  - cbn [agree_on]. apply andb_true_iff; split.
    + destruct (Bool.eqb mk sel) eqn:E; auto. apply Z.eqb_eq. apply (Hn 0%nat); [lia|].
      cbn [nth]. apply eqb_prop; auto.
    + apply IH. split; [|split]; try lia. intros k Hk Hm. apply (Hn (S k)); [lia|auto].
Qed.

(* the hypotheses are satisfiable on a non-trivial input, and the checker does reject *)
Example agree_in_ex : agree_in [true; false; true] [1; 2; 3] [1; 9; 3] = true /\
                      agree_in [true; false; true] [1; 2; 3] [1; 2; 4] = false /\
                      agree_out [true; false; true] [1; 2; 3] [7; 2; 8] = true /\
                      agree_out [true; false] [1; 2] [1; 3] = false.
Proof. vm_compute. auto. Qed.
