(* C19 — the priority queue of propagate (Model.HeapC19): every pointer dereference stays inside
   heap.ptrs / heap.data for every sequence of pushes and pops, capacity doubling keeps
   items <= space, and the three malloc'ed blocks are exactly the three freed ones. *)
From Coq Require Import ZArith List Bool Lia ZifyBool.
From Centro Require Import Base.ArrC19 Model.HeapC19.
Import ListNotations.
Open Scope Z_scope.

Definition hinv (h : heap) : Prop :=
  0 <= items h <= space h /\ 1 <= space h /\ 0 <= width h /\ zlen (ptrs h) = space h /\
  zlen (data h) = space h * width h /\ Forall (fun p => 0 <= p < space h) (ptrs h).

(* everything but the pointer permutation and the row contents *)
Definition same_frame (h h' : heap) : Prop :=
  items h' = items h /\ space h' = space h /\ width h' = width h /\ allocs h' = allocs h.

Lemma mapM_ok : forall A B (f : A -> option B) l,
  (forall x, In x l -> exists v, f x = Some v) ->
  exists r, mapM f l = Some r /\ length r = length l.
Proof.
  intros A B f l. induction l as [|a t IH]; intros Hf.
  - exists []. split; reflexivity.
  - destruct (Hf a (or_introl eq_refl)) as [b Eb]. cbn [mapM]. rewrite Eb. cbn [bind].
    destruct IH as [r [Er Lr]]; [intros x Hx; apply Hf; right; exact Hx|].
    rewrite Er. cbn [bind]. eexists; split; [reflexivity|]. cbn [length]. lia.
Qed.

Lemma length_zseq : forall n s, length (zseq s n) = n.
Proof. induction n; simpl; intros; auto. Qed.

Lemma zlen_zrange : forall lo hi, lo <= hi -> zlen (zrange lo hi) = hi - lo.
Proof. intros. unfold zlen, zrange. rewrite length_zseq. lia. Qed.

Lemma zlen_app : forall A (a b : list A), zlen (a ++ b) = zlen a + zlen b.
Proof. intros. unfold zlen. rewrite app_length. lia. Qed.

Lemma zlen_repeat : forall A (x : A) n, zlen (repeat x n) = Z.of_nat n.
Proof. intros. unfold zlen. now rewrite repeat_length. Qed.

Lemma rdrow_ok : forall h slot, hinv h -> 0 <= slot < space h ->
  exists row, rdrow h slot = Some row /\ zlen row = width h.
Proof.
  intros h slot (Hi & Hs & Hw & Hp & Hd & Hf) Hslot. unfold rdrow.
  destruct (mapM_ok _ _ (fun c => rd (data h) (slot * width h + c)) (zrange 0 (width h))) as [r [Er Lr]].
  - intros c Hc. apply In_zrange in Hc. apply rd_ok. nia.
  - exists r. split; [assumption|]. unfold zlen. rewrite Lr. fold (zlen (zrange 0 (width h))).
    rewrite zlen_zrange; lia.
Qed.

Lemma rd_ptr : forall h k, hinv h -> 0 <= k < space h ->
  exists p, rd (ptrs h) k = Some p /\ 0 <= p < space h.
Proof.
  intros h k (Hi & Hs & Hw & Hp & Hd & Hf) Hk.
  destruct (rd_ok _ (ptrs h) k ltac:(lia)) as [p Ep]. exists p. split; [assumption|].
  apply rd_some in Ep. destruct Ep as [_ Hin]. rewrite Forall_forall in Hf. apply Hf. exact Hin.
Qed.

Lemma smaller_ok : forall h a b, hinv h -> 0 <= a < space h -> 0 <= b < space h ->
  exists s, smaller a b h = Some s.
Proof.
  intros h a b Hh Ha Hb. unfold smaller.
  destruct (rd_ptr h a Hh Ha) as [pa [Ea Ra]]. rewrite Ea. cbn [bind].
  destruct (rd_ptr h b Hh Hb) as [pb [Eb Rb]]. rewrite Eb. cbn [bind].
  destruct (rdrow_ok h pa Hh Ra) as [ra [Era _]]. rewrite Era. cbn [bind].
  destruct (rdrow_ok h pb Hh Rb) as [rb [Erb _]]. rewrite Erb. cbn [bind]. eauto.
Qed.

Lemma Forall_upd : forall A (P : A -> Prop) (a : list A) n v, Forall P a -> P v -> Forall P (upd a n v).
Proof.
  intros A P a n v Ha Hv. apply Forall_forall. intros x Hx. apply In_upd in Hx.
  destruct Hx as [->|Hx]; [assumption|]. rewrite Forall_forall in Ha. auto.
Qed.

Lemma swap_ok : forall h a b, hinv h -> 0 <= a < space h -> 0 <= b < space h ->
  exists h', swap a b h = Some h' /\ hinv h' /\ same_frame h h'.
Proof.
  intros h a b Hh Ha Hb. unfold swap.
  destruct (rd_ptr h a Hh Ha) as [pa [Ea Ra]]. rewrite Ea. cbn [bind].
  destruct (rd_ptr h b Hh Hb) as [pb [Eb Rb]]. rewrite Eb. cbn [bind].
  destruct Hh as (Hi & Hs & Hw & Hp & Hd & Hf).
  destruct (wr_ok _ (ptrs h) a pb ltac:(lia)) as [p1 [E1 L1]]. rewrite E1. cbn [bind].
  destruct (wr_ok _ p1 b pa ltac:(lia)) as [p2 [E2 L2]]. rewrite E2. cbn [bind].
  eexists; split; [reflexivity|]. apply wr_some in E1. apply wr_some in E2.
  destruct E1 as (_ & -> & _). destruct E2 as (_ & -> & _).
  split; [|repeat split; reflexivity].
  unfold hinv, set_ptrs; cbn [items space width ptrs data allocs]. rewrite !zlen_upd.
  repeat split; try lia. apply Forall_upd; [apply Forall_upd|]; assumption.
Qed.

Lemma same_frame_trans : forall a b c, same_frame a b -> same_frame b c -> same_frame a c.
Proof. unfold same_frame. intros. intuition congruence. Qed.

Lemma same_frame_refl : forall h, same_frame h h.
Proof. unfold same_frame. intros. repeat split. Qed.

Ltac stay h := exists h; split; [reflexivity|split; [assumption|apply same_frame_refl]].

Lemma sift_down_ok : forall fuel i h, hinv h -> 0 <= i < space h ->
  exists h', sift_down fuel i h = Some h' /\ hinv h' /\ same_frame h h'.
Proof.
  induction fuel as [|f IH]; intros i h Hh Hi.
  - cbn [sift_down]. stay h.
  - cbn [sift_down]. destruct (i * 2 + 1 <? items h) eqn:El; [|stay h].
    assert (Hit : items h <= space h) by (destruct Hh as (? & _); lia).
    destruct (smaller_ok h (i * 2 + 1) i Hh ltac:(lia) Hi) as [sl Esl]. rewrite Esl. cbn [bind].
    set (sm := if sl then i * 2 + 1 else i).
    assert (Hsm : 0 <= sm < space h) by (unfold sm; destruct sl; lia).
    assert (Hsm2 : exists sm2, (if i * 2 + 2 <? items h
                   then do sr <- smaller (i * 2 + 2) sm h; Some (if sr then i * 2 + 2 else sm)
                   else Some sm) = Some sm2 /\ 0 <= sm2 < space h).
    { destruct (i * 2 + 2 <? items h) eqn:Er; [|eauto].
      destruct (smaller_ok h (i * 2 + 2) sm Hh ltac:(lia) Hsm) as [sr Esr]. rewrite Esr. cbn [bind].
      eexists; split; [reflexivity|]. destruct sr; lia. }
    destruct Hsm2 as [sm2 [E2 R2]]. rewrite E2. cbn [bind].
    destruct (sm2 =? i); [stay h|].
    destruct (swap_ok h i sm2 Hh Hi R2) as [h' [Es [Hh' Fr]]]. rewrite Es. cbn [bind].
    destruct (IH sm2 h' Hh') as [h'' [E'' [Hh'' Fr']]].
    + destruct Fr as (_ & -> & _). exact R2.
    + exists h''. split; [assumption|]. split; [assumption|]. eapply same_frame_trans; eauto.
Qed.

Lemma hinv_set_items : forall h n, hinv h -> 0 <= n <= space h -> hinv (set_items h n).
Proof. intros h n (Hi & Hs & Hw & Hp & Hd & Hf) Hn. unfold hinv, set_items; cbn. repeat split; auto; lia. Qed.

Theorem heappop_ok : forall fuel destlen h, hinv h -> 0 < items h -> width h <= destlen ->
  exists row h', heappop fuel destlen h = Some (row, h') /\ hinv h' /\ zlen row = width h /\
    items h' = items h - 1 /\ space h' = space h /\ width h' = width h /\ allocs h' = allocs h.
Proof.
  intros fuel destlen h Hh Hpos Hd. unfold heappop.
  assert (Hit : items h <= space h) by (destruct Hh as (? & _); lia).
  destruct (rd_ptr h 0 Hh ltac:(lia)) as [p0 [E0 R0]]. rewrite E0. cbn [bind].
  destruct (rdrow_ok h p0 Hh R0) as [row [Er Lr]]. rewrite Er. cbn [bind].
  replace (destlen <? width h) with false by lia.
  set (h1 := set_items h (items h - 1)).
  assert (H1 : hinv h1) by (apply hinv_set_items; [assumption|lia]).
  destruct (items h1 =? 0) eqn:Ez.
  - exists row, h1. split; [reflexivity|]. split; [exact H1|]. split; [exact Lr|].
    unfold h1; cbn [set_items items space width allocs]. repeat split; lia.
  - destruct (swap_ok h1 0 (items h1) H1) as [h2 [E2 [H2 F2]]]; try (unfold h1; cbn; lia).
    rewrite E2. cbn [bind].
    destruct (sift_down_ok fuel 0 h2 H2) as [h3 [E3 [H3 F3]]].
    { destruct F2 as (_ & -> & _). unfold h1; cbn. lia. }
    rewrite E3. cbn [bind]. exists row, h3.
    destruct F2 as (A1 & A2 & A3 & A4). destruct F3 as (B1 & B2 & B3 & B4).
    split; [reflexivity|]. split; [exact H3|]. split; [exact Lr|].
    unfold h1 in *; cbn [set_items items space width allocs] in *.
    repeat split; congruence.
Qed.

Lemma sift_up_ok : forall fuel child h, hinv h -> 0 <= child < space h ->
  exists h', sift_up fuel child h = Some h' /\ hinv h' /\ same_frame h h'.
Proof.
  induction fuel as [|f IH]; intros child h Hh Hc.
  - cbn [sift_up]. stay h.
  - cbn [sift_up]. destruct (0 <? child) eqn:E0; [|stay h].
    assert (Hp : 0 <= (child + 1) / 2 - 1 < child).
    { pose proof (Z_div_mod_eq_full (child + 1) 2). pose proof (Z.mod_pos_bound (child + 1) 2 ltac:(lia)). lia. }
    destruct (smaller_ok h child ((child + 1) / 2 - 1) Hh Hc ltac:(lia)) as [s Es]. rewrite Es. cbn [bind].
    destruct s; [|stay h].
    destruct (swap_ok h ((child + 1) / 2 - 1) child Hh ltac:(lia) Hc) as [h' [E' [H' F']]].
    rewrite E'. cbn [bind].
    destruct (IH ((child + 1) / 2 - 1) h' H') as [h'' [E'' [H'' F'']]].
    + destruct F' as (_ & -> & _). lia.
    + exists h''. split; [assumption|]. split; [assumption|]. eapply same_frame_trans; eauto.
Qed.

Lemma grow_ok : forall h, hinv h -> items h = space h ->
  hinv (grow h) /\ items (grow h) = items h /\ space (grow h) = space h * 2 /\
  width (grow h) = width h /\ allocs (grow h) = allocs h.
Proof.
  intros h (Hi & Hs & Hw & Hp & Hd & Hf) Heq. unfold grow, hinv; cbn [items space width ptrs data allocs].
  assert (Hfn : firstn (Z.to_nat (items h)) (ptrs h) = ptrs h).
  { apply firstn_all2. unfold zlen in Hp. lia. }
  rewrite Hfn. repeat split; try lia.
  - rewrite zlen_app, zlen_zrange; lia.
  - rewrite zlen_app, zlen_repeat. nia.
  - apply Forall_app. split.
    + eapply Forall_impl; [|exact Hf]. cbn. intros; lia.
    + apply Forall_forall. intros x Hx. apply In_zrange in Hx. lia.
Qed.

Theorem heappush_ok : forall fuel h e, hinv h -> width h <= zlen e ->
  exists h', heappush fuel h e = Some h' /\ hinv h' /\ items h' = items h + 1 /\
    width h' = width h /\ allocs h' = allocs h /\ (space h' = space h \/ space h' = space h * 2).
Proof.
  intros fuel h e Hh He. unfold heappush.
  set (h1 := if items h =? space h then grow h else h).
  assert (H1 : hinv h1 /\ items h1 = items h /\ items h1 < space h1 /\ width h1 = width h /\
               allocs h1 = allocs h /\ (space h1 = space h \/ space h1 = space h * 2)).
  { unfold h1. destruct (items h =? space h) eqn:E.
    - destruct (grow_ok h Hh ltac:(lia)) as (A & B & C & D & F).
      destruct Hh as (Hi & Hs & _). split; [exact A|]. repeat split; try lia.
    - split; [exact Hh|]. destruct Hh as (Hi & Hs & Hr). repeat split; try lia. }
  destruct H1 as (H1 & I1 & L1 & W1 & A1 & S1).
  assert (Hc : 0 <= items h < space h1) by (destruct Hh as (? & _); lia).
  destruct (rd_ptr h1 (items h) H1 Hc) as [pc [Epc Rpc]]. rewrite Epc. cbn [bind].
  destruct H1 as (Hi & Hs & Hw & Hp & Hd & Hf).
  destruct (foldM_inv _ _ (fun d => zlen d = space h1 * width h1) (fun c => 0 <= c < width h1)
              (fun d c => do v <- rd e c; wr d (pc * width h1 + c) v) (zrange 0 (width h1)) (data h1))
    as [d2 [Ed Ld]].
  - exact Hd.
  - apply Forall_forall. intros c Hc'. apply In_zrange in Hc'. lia.
  - intros d c Hdl Hcr. destruct (rd_ok _ e c ltac:(lia)) as [v Ev]. rewrite Ev. cbn [bind].
    destruct (wr_ok _ d (pc * width h1 + c) v ltac:(nia)) as [d' [E' L']]. exists d'. split; [assumption|lia].
  - rewrite Ed. cbn [bind].
    set (h2 := mkheap (items h1 + 1) (space h1) (width h1) (ptrs h1) d2 (allocs h1)).
    assert (H2 : hinv h2) by (unfold hinv, h2; cbn; repeat split; auto; lia).
    destruct (sift_up_ok fuel (items h) h2 H2) as [h3 [E3 [H3 F3]]]; [unfold h2; cbn; lia|].
    exists h3. split; [assumption|]. split; [assumption|].
    destruct F3 as (B1 & B2 & B3 & B4). unfold h2 in *; cbn [items space width allocs] in *.
    repeat split; try lia.
Qed.

Definition op_ok (w : Z) (o : op) : Prop := match o with Push r => w <= zlen r | Pop => True end.

Lemma run_ops_ok : forall fuel ops h, hinv h -> width h <= 5 -> Forall (op_ok (width h)) ops ->
  exists h', run_ops fuel ops h = Some h' /\ hinv h' /\ allocs h' = allocs h.
Proof.
  intros fuel ops. induction ops as [|o t IH]; intros h Hh Hw Ho.
  - exists h. split; [reflexivity|]. split; [assumption|reflexivity].
  - inversion Ho as [|? ? Ho1 Ho2]; subst. destruct o as [r|]; cbn [run_ops].
    + destruct (heappush_ok fuel h r Hh Ho1) as [h' (E & H' & I' & W' & A' & S')]. rewrite E. cbn [bind].
      destruct (IH h' H') as [h'' (E'' & H'' & A'')]; [lia|rewrite W'; assumption|].
      exists h''. split; [assumption|]. split; [assumption|congruence].
    + destruct (0 <? items h) eqn:Ep.
      * destruct (heappop_ok fuel 5 h Hh ltac:(lia) Hw) as [row [h' (E & H' & Lr & I' & S' & W' & A')]].
        rewrite E. cbn [bind snd].
        destruct (IH h' H') as [h'' (E'' & H'' & A'')]; [lia|rewrite W'; assumption|].
        exists h''. split; [assumption|]. split; [assumption|congruence].
      * apply IH; assumption.
Qed.

Lemma heap_init_ok : forall n w flat, kernel_pre_heap n w (zlen flat) = true ->
  hinv (heap_from_numpy2 n w flat) /\ allocs (heap_from_numpy2 n w flat) = 3 /\
  width (heap_from_numpy2 n w flat) = w.
Proof.
  intros n w flat Hp. unfold kernel_pre_heap in Hp.
  assert (Hn : 0 <= n) by lia. assert (Hw : 0 <= w <= 5) by lia. assert (Hl : zlen flat = n * w) by lia.
  unfold heap_from_numpy2, hinv; cbn [items space width ptrs data allocs].
  repeat split; try lia.
  - rewrite zlen_zrange; lia.
  - rewrite zlen_app, zlen_repeat. nia.
  - apply Forall_forall. intros x Hx. apply In_zrange in Hx. lia.
Qed.

(* for every pq of n rows x w <= 5 columns, every fuel and every sequence of pops and 5-column
   pushes: no dereference leaves heap.ptrs / heap.data (in particular across any number of
   capacity doublings), items <= space at the end, and heap_done frees exactly what was allocated *)
Theorem heap_safe : forall n w flat fuel ops,
  kernel_pre_heap n w (zlen flat) = true ->
  Forall (fun o => match o with Push r => 5 <= zlen r | Pop => True end) ops ->
  exists h, run_ops fuel ops (heap_from_numpy2 n w flat) = Some h /\
            0 <= items h <= space h /\ heap_done h = 0.
Proof.
  intros n w flat fuel ops Hp Ho. destruct (heap_init_ok n w flat Hp) as (Hi & Ha & Hw).
  assert (W5 : w <= 5) by (unfold kernel_pre_heap in Hp; lia).
  destruct (run_ops_ok fuel ops _ Hi) as [h (E & H' & A')].
  - rewrite Hw. exact W5.
  - rewrite Hw. eapply Forall_impl; [|exact Ho]. intros [r|]; cbn; intros; lia.
  - exists h. split; [assumption|]. split; [apply H'|]. unfold heap_done. lia.
Qed.

(* growth really happens in the model: 1000 initial rows, one push -> space 2000 *)
Example heap_growth_example :
  let h0 := heap_from_numpy2 1000 5 (repeat 7 5000) in
  kernel_pre_heap 1000 5 (zlen (repeat 7 5000)) = true /\
  match run_ops 20 [Push [1;2;3;4;5]; Pop; Push [9;9;9;9;9]] h0 with
  | Some h => (items h, space h, heap_done h) = (1001, 2000, 0)
  | None => False
  end.
Proof. vm_compute. split; reflexivity. Qed.
