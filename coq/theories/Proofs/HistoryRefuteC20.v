(* C20 - the model is not vacuous: each premise of [history_independent] is necessary.  For every
   class of slip the translator reports, a two-function table exhibiting it and a concrete history
   on which the state machine returns different results (witness by vm_compute). *)
From Coq Require Import ZArith List Bool.
From Centro Require Import Model.HistoryC20 Spec.HistoryC20 Proofs.HistoryC20.
Import ListNotations.
Open Scope Z_scope.

(* concrete instance: arguments, table values and generator states are integers; the body reports
   exactly what it is allowed to see *)
Definition r_body (f a : Z) (v : list (option Z)) (s : @rsrc Z) : list (option Z) * @rsrc Z := (v, s).
Definition r_const (g : Z) : Z := 100 + g.
Definition r_argval (f a g : Z) : Z := a.
Definition r_accval (f a g : Z) (old : option Z) : Z := match old with Some v => v + 1 | None => 0 end.
Definition r_next (f a : Z) (s : @rsrc Z) (r : Z) : Z := r + 1.
Definition r_mval (g a : Z) : Z := 500 + a.
Definition r_result (t : list sig) := result_after Z Z _ Z t r_const r_argval r_accval r_mval Z.eqb r_body r_next.

(* a module-level cache keyed on nothing that stores an argument-dependent table *)
Definition t_argdep : list sig := [ mk_sig 0 true [(0, KArg)] [0] [] false false None false [] false ].
Lemma argdep_cache_refuted : exists h c, r_result t_argdep 0 h c <> r_result t_argdep 0 [] c.
Proof. exists [(0, 1)], (0, 2). vm_compute. intros H. discriminate H. Qed.

(* state that accumulates (mutable default argument, appended module list) *)
Definition t_accum : list sig := [ mk_sig 0 true [(0, KAccum)] [0] [] false false None false [] false ].
Lemma accumulating_state_refuted : exists h c, r_result t_accum 0 h c <> r_result t_accum 0 [] c.
Proof. exists [(0, 5)], (0, 5). vm_compute. intros H. discriminate H. Qed.

(* a draw from the global generator with the seed removed: depends on what ran before *)
Definition t_unseeded : list sig := [ mk_sig 0 true [] [] [] true false None false [] false ].
Lemma unseeded_draw_refuted : exists h c, r_result t_unseeded 0 h c <> r_result t_unseeded 0 [] c.
Proof. exists [(0, 5)], (0, 5). vm_compute. intros H. discriminate H. Qed.

(* an unseeded private generator *)
Definition t_entropy : list sig := [ mk_sig 0 true [] [] [] false false None true [] false ].
Lemma entropy_refuted : exists h c, r_result t_entropy 0 h c <> r_result t_entropy 0 [] c.
Proof. exists [(0, 5)], (0, 5). vm_compute. intros H. discriminate H. Qed.

(* reading a lazily filled table that another function fills *)
Definition t_unguarded : list sig :=
  [ mk_sig 0 true [(0, KConst)] [0] [] false false None false [] false;
    mk_sig 1 true [] [0] [0] false false None false [] false ].
Lemma unguarded_read_refuted : exists h c, r_result t_unguarded 0 h c <> r_result t_unguarded 0 [] c.
Proof. exists [(0, 5)], (1, 5). vm_compute. intros H. discriminate H. Qed.

(* a memo table whose key does NOT determine the arguments (here: every key equal): the first call's value
   is served to every later call.  With the full argument as key the same table is history independent
   (history_independent; the checker accepts KMemo), so the key hypothesis of the theorem is necessary. *)
Definition t_memo : list sig := [ mk_sig 0 true [(0, KMemo)] [0] [] false false None false [] false ].
Lemma memo_partial_key_refuted : exists h c,
  result_after Z Z _ Z t_memo r_const r_argval r_accval r_mval (fun _ _ => true) r_body r_next 0 h c <>
  result_after Z Z _ Z t_memo r_const r_argval r_accval r_mval (fun _ _ => true) r_body r_next 0 [] c.
Proof. exists [(0, 1)], (0, 2). vm_compute. intros H. discriminate H. Qed.
Lemma memo_full_key_example : forall h c, r_result t_memo 0 h c = r_result t_memo 1 [] c.
Proof.
  intros h c. unfold r_result.
  apply (Proofs.HistoryC20.history_independent Z Z _ Z t_memo r_const r_argval r_accval r_mval Z.eqb r_body r_next).
  - intros a b H. apply Z.eqb_eq. exact H.
  - exact Z.eqb_refl.
  - apply Proofs.HistoryC20.sigs_okb_sound. vm_compute. reflexivity.
Qed.

(* the boolean checker rejects every one of them *)
Lemma checker_rejects : map sigs_okb [t_argdep; t_accum; t_unseeded; t_entropy; t_unguarded] =
                        [false; false; false; false; false].
Proof. vm_compute. reflexivity. Qed.
