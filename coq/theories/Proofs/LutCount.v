(* C06 — the index list built by prepare_for_index_lookup has one entry per set pixel. *)
From Coq Require Import ZArith List Bool Lia.
From Centro Require Import Base.Sx Base.LutBits Spec.LutRule Spec.LutDocs Model.Lut Proofs.LutSparse.
Import ListNotations.

Lemma len_flat_map_seq {B C} (d : C) (m : C -> nat) (L : list C) : forall a (F : nat -> list B),
  (forall k, (k < length L)%nat -> length (F (a + k)%nat) = m (nth k L d)) ->
  length (flat_map F (seq a (length L))) = list_sum (map m L).
Proof.
  induction L as [|c L IH]; intros a F HF; [reflexivity|].
  cbn [length seq flat_map map]. rewrite app_length.
  change (list_sum (m c :: map m L)) with (m c + list_sum (map m L))%nat. f_equal.
  - specialize (HF 0%nat). rewrite Nat.add_0_r in HF. apply HF. cbn. lia.
  - apply IH. intros k Hk. replace (S a + k)%nat with (a + S k)%nat by lia. apply (HF (S k)). cbn. lia.
Qed.

Lemma flat_map_map {A B C} (f : B -> list C) (g : A -> B) l : flat_map f (map g l) = flat_map (fun x => f (g x)) l.
Proof. induction l as [|a l IH]; [reflexivity|]. cbn [map flat_map]. rewrite IH. reflexivity. Qed.

Definition b2n (x : bool) : nat := if x then 1 else 0.

Lemma cnt_sum (l : list bool) : cnt l = list_sum (map b2n l).
Proof.
  unfold cnt. induction l as [|x l IH]; [reflexivity|]. cbn [filter map].
  change (list_sum (b2n x :: map b2n l)) with (b2n x + list_sum (map b2n l))%nat.
  destruct x; cbn [length b2n]; lia.
Qed.

Lemma cnt_app l1 l2 : cnt (l1 ++ l2) = (cnt l1 + cnt l2)%nat.
Proof. unfold cnt. rewrite filter_app, app_length. reflexivity. Qed.

Lemma cnt_concat (X : grid bool) : cnt (concat X) = list_sum (map cnt X).
Proof.
  induction X as [|r X IH]; [reflexivity|]. cbn [concat map].
  change (list_sum (cnt r :: map cnt X)) with (cnt r + list_sum (map cnt X))%nat. rewrite cnt_app, IH. reflexivity.
Qed.

(* Full: number of entries of np.argwhere(image) = number of set pixels *)
Theorem argwhere_count (X : grid bool) : rect X -> length (argwhere1 X) = cnt (concat X).
Proof.
  intros [_ F]. rewrite cnt_concat. unfold argwhere1, zrange. rewrite flat_map_map.
  apply (len_flat_map_seq (@nil bool) cnt X 0%nat). intros p Hp.
  assert (LR : length (nth p X []) = length (hd [] X)) by (rewrite Forall_forall in F; apply F, nth_In, Hp).
  rewrite flat_map_map, cnt_sum. rewrite <- LR.
  apply (len_flat_map_seq false b2n (nth p X []) 0%nat). intros q Hq.
  unfold rd. cbn [Nat.add].
  destruct ((0 + Z.of_nat p <? 0)%Z || (0 + Z.of_nat q <? 0)%Z) eqn:B; [lia|].
  replace (Z.to_nat (0 + Z.of_nat q)) with q by lia. replace (Z.to_nat (0 + Z.of_nat p)) with p by lia.
  destruct (nth q (nth p X []) false); reflexivity.
Qed.
