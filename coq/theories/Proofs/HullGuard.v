(* C02 — the in-place guard of the second loop: it blocks only a point that is already on the stack
   (a single-pixel column on the lower chain) and that the next EMIT would pop anyway (dead_top), so it
   never changes the result (guard_irrelevant) and the output never outgrows the label's own rows
   (HullNoOverflow). *)
From Coq Require Import ZArith List Bool Lia ZifyBool Sorted.
From Centro Require Import Base.Sx Model.Hull Proofs.HullEmit Proofs.HullBelow Proofs.HullAbove Proofs.HullCorrect.
Import ListNotations.
Open Scope Z_scope.

(* ---------------------------------------------------------------- arithmetic core of dead_top *)
Lemma dead_core (x q t q' : pt) : snd x < snd q -> snd q < snd t -> snd q' < snd q ->
  0 <= cross x q t -> 0 <= cross x q q' -> cross t q q' <= 0.
Proof.
  destruct x as [xi xj], q as [qi qj], t as [ti tj], q' as [pi pj]. unfold cross. cbn [fst snd]. intros.
  assert (E : (qj - xj) * (- ((qj - tj) * (pi - qi) - (pj - qj) * (qi - ti)))
              = (qj - pj) * ((qj - xj) * (ti - qi) - (tj - qj) * (qi - xi))
                + (tj - qj) * ((qj - xj) * (pi - qi) - (pj - qj) * (qi - xi))) by ring.
  nia.
Qed.

Lemma CONVEX_nonpos_left (t q q' : pt) : snd q <= snd t -> cross t q q' <= 0 -> CONVEX t q q' = false.
Proof.
  intros H C. unfold CONVEX. destruct (0 <? cross t q q') eqn:E1; [lia|].
  destruct (cross t q q' <? 0) eqn:E2; [reflexivity|].
  destruct (snd t <? snd q) eqn:E3; [lia | reflexivity].
Qed.

Lemma pt_eq_dec : forall a b : pt, {a = b} + {a <> b}.
Proof. decide equality; apply Z.eq_dec. Defined.

(* ---------------------------------------------------------------- list facts *)
Lemma NoDup_suffix {A} (pre l : list A) : NoDup (pre ++ l) -> NoDup l.
Proof. induction pre as [|x pre IH]; intros H; [exact H|]. apply IH. inversion H. assumption. Qed.
Lemma jdesc_NoDup (st : list pt) : jdesc st -> NoDup st.
Proof.
  induction 1 as [|a l HS IH HF]; constructor; auto.
  intros Hin. rewrite Forall_forall in HF. specialize (HF a Hin). lia.
Qed.
Lemma jdesc_mid (P Z : list pt) (y : pt) : jdesc (P ++ y :: Z) ->
  (forall a, In a P -> snd y < snd a) /\ (forall z, In z Z -> snd z < snd y).
Proof.
  induction P as [|p P IH]; intros H.
  - split; [intros a []|]. inversion H as [|? ? _ F]. rewrite Forall_forall in F. exact F.
  - cbn [app] in H. inversion H as [|? ? HS F]. subst. destruct (IH HS) as [I1 I2]. split; [|exact I2].
    rewrite Forall_forall in F. intros a [Ha|Ha]; [subst a; apply F; apply in_or_app; right; left; reflexivity | auto].
Qed.
Lemma edges_ok_mid (P C : list pt) (q x s : pt) : edges_ok (P ++ q :: x :: C) s -> 0 <= cross x q s.
Proof.
  induction P as [|p P IH]; intros H.
  - cbn in H. tauto.
  - apply IH. eapply edges_ok_tail. exact H.
Qed.
Lemma last_app_ne {A} (pre l : list A) d : l <> [] -> last (pre ++ l) d = last l d.
Proof.
  intros Hne. induction pre as [|x pre IH]; [reflexivity|].
  cbn [app]. rewrite <- IH. destruct (pre ++ l) eqn:E; [|reflexivity].
  apply app_eq_nil in E. destruct E. contradiction.
Qed.

(* ---------------------------------------------------------------- what the first loop leaves *)
Theorem lower_pass_facts : forall m pts p0 e, In p0 pts ->
  (forall s, In s pts -> snd p0 <= snd s) -> (forall s, In s pts -> fst s <= m) -> snd p0 <= e ->
  let st1 := fold_left (lower_emit m (build_lower m pts)) (cols_up (snd p0) e) [] in
  st1 <> [] /\ jdesc st1 /\ chain_ok st1 /\
  forall s, In s pts -> snd s <= e -> (forall d, snd s <= snd (hd d st1)) /\ edges_ok st1 s /\ bottom_ok st1 s.
Proof.
  intros m pts p0 e Hp0 Hleft Hmax He st1. unfold st1, cols_up.
  assert (En : Z.to_nat (e - snd p0 + 1) = S (Z.to_nat (e - snd p0))) by lia. rewrite En.
  cbn [seq]. rewrite <- seq_shift. cbn [map fold_left]. rewrite map_map.
  replace (snd p0 + Z.of_nat 0) with (snd p0) by lia.
  rewrite (map_ext (fun k => snd p0 + Z.of_nat (S k)) (fun k => (snd p0 + 1) + Z.of_nat k)) by (intros; lia).
  pose proof (lp_fold m pts Hmax (Z.to_nat (e - snd p0)) (snd p0 + 1) _
                (lp_first m pts (snd p0) Hleft Hmax p0 Hp0 eq_refl)) as [Hne [HJ [HC [_ Hall]]]].
  split; [exact Hne|]. split; [exact HJ|]. split; [exact HC|].
  intros s Hs Hse. apply Hall; [exact Hs | lia].
Qed.

(* ---------------------------------------------------------------- dead top elements *)
Section Guard.
  Variables (m : Z) (pts : list pt) (p0 : pt) (ej : Z).
  Hypothesis Hp0 : In p0 pts.
  Hypothesis Hleft : forall s, In s pts -> snd p0 <= snd s.
  Hypothesis Hright : forall s, In s pts -> snd s <= ej.
  Hypothesis Hrange : forall s, In s pts -> 0 <= fst s <= m.
  Let sj := snd p0.
  Let st1 := fold_left (lower_emit m (build_lower m pts)) (cols_up sj ej) [].
  Let upper := build_upper pts.

  (* p on top of G is popped by every later point *)
  Definition dead (p : pt) (G : list pt) : Prop :=
    forall q', In q' pts -> snd q' < snd p -> CONVEX (hd p G) p q' = false.
  Definition clean (G : list pt) : Prop :=
    NoDup G \/ exists p G', G = p :: G' /\ NoDup G' /\ In p G' /\ dead p G'.
  (* upper part (columns > j) on top of a suffix of the lower chain *)
  Definition shape (j : Z) (G : list pt) : Prop :=
    exists up low pre, G = up ++ low /\ st1 = pre ++ low /\ low <> [] /\ forall u, In u up -> j < snd u.

  Lemma st1_facts : st1 <> [] /\ jdesc st1 /\ chain_ok st1 /\ incl st1 pts /\
    (forall s, In s pts -> edges_ok st1 s /\ bottom_ok st1 s) /\ (forall d, snd (last st1 d) = sj).
  Proof.
    assert (He : sj <= ej) by (apply Hright; exact Hp0).
    destruct (lower_pass_facts m pts p0 ej Hp0 Hleft (fun s H => proj2 (Hrange s H)) He) as [Hne [HJ [HC Hall]]].
    fold sj in Hne, HJ, HC, Hall. fold st1 in Hne, HJ, HC, Hall.
    assert (Hincl : incl st1 pts).
    { apply (proj1 (lower_pass_inv m pts (cols_up sj ej) [] ltac:(intros x []) Logic.I)). }
    split; [exact Hne|]. split; [exact HJ|]. split; [exact HC|]. split; [exact Hincl|]. split.
    - intros s Hs. destruct (Hall s Hs (Hright s Hs)) as [_ [A B]]. split; assumption.
    - intros d. destruct (Hall p0 Hp0 (Hright p0 Hp0)) as [_ [_ B]]. destruct (B d) as [B1 _].
      assert (In (last st1 d) pts).
      { destruct (exists_last Hne) as [l' [z Ez]]. apply Hincl. rewrite Ez. rewrite last_last.
        apply in_or_app. right. left. reflexivity. }
      specialize (Hleft _ H). fold sj in Hleft, B1. lia.
  Qed.

  Lemma shape_suffix j pre0 S : shape j (pre0 ++ S) -> S <> [] -> shape j S.
  Proof.
    intros [up [low [pre [E [E1 [Hl Hu]]]]]] HS.
    destruct (app_eq_app _ _ _ _ E) as [l [[A B]|[A B]]].
    - (* pre0 = up ++ l, low = l ++ S *)
      exists [], S, (pre ++ l). split; [reflexivity|]. split; [rewrite E1, B, app_assoc; reflexivity|].
      split; [exact HS|]. intros u [].
    - (* up = pre0 ++ l, S = l ++ low *)
      exists l, low, pre. split; [exact B|]. split; [exact E1|]. split; [exact Hl|].
      intros u Hin. apply Hu. rewrite A. apply in_or_app. right. exact Hin.
  Qed.
  Lemma shape_weaken j j' G : j' <= j -> shape j G -> shape j' G.
  Proof.
    intros Hle [up [low [pre [E [E1 [Hl Hu]]]]]]. exists up, low, pre. repeat split; auto.
    intros u Hin. specialize (Hu u Hin). lia.
  Qed.
  Lemma shape_push j q G : shape j G -> snd q = j -> shape (j - 1) (q :: G).
  Proof.
    intros [up [low [pre [E [E1 [Hl Hu]]]]]] Hq. exists (q :: up), low, pre. split; [rewrite E; reflexivity|].
    split; [exact E1|]. split; [exact Hl|]. intros u [Hin|Hin]; [subst u; lia | specialize (Hu u Hin); lia].
  Qed.

  (* dead_top: a point of column j > start_j that is already on the stack is dead on top of it *)
  Lemma dup_dead j q G : shape j G -> incl G pts -> In q G -> snd q = j -> sj < j -> dead q G.
  Proof.
    intros [up [low [pre [E [E1 [Hl Hu]]]]]] Hincl Hin Hq Hj q' Hq' Hlt.
    destruct st1_facts as [_ [HJ [_ [_ [Hall Hlast]]]]].
    assert (Hinl : In q low).
    { rewrite E in Hin. apply in_app_or in Hin. destruct Hin as [Hin|Hin]; [|exact Hin].
      specialize (Hu q Hin). lia. }
    apply in_split in Hinl. destruct Hinl as [A [C EC]].
    destruct C as [|x C'].
    { exfalso. specialize (Hlast q). rewrite E1, (last_app_ne pre low q Hl), EC, last_last in Hlast. lia. }
    assert (Est1 : st1 = (pre ++ A) ++ q :: x :: C') by (rewrite E1, EC, <- app_assoc; reflexivity).
    assert (Hx : snd x < snd q).
    { rewrite Est1 in HJ. apply (proj2 (jdesc_mid _ _ _ HJ)). left. reflexivity. }
    assert (Hsup : forall s, In s pts -> 0 <= cross x q s).
    { intros s Hs. destruct (Hall s Hs) as [Hedges _]. rewrite Est1 in Hedges. eapply edges_ok_mid. exact Hedges. }
    (* the top of G *)
    assert (Ht : hd q G = q \/ (snd q < snd (hd q G) /\ In (hd q G) pts)).
    { rewrite E. destruct up as [|u up'].
      - cbn [app]. rewrite EC. destruct A as [|a A']; [left; reflexivity|]. right. cbn [app hd]. split.
        + assert (HJl : jdesc (a :: A' ++ q :: x :: C')).
          { apply (jdesc_suffix pre). rewrite E1, EC in HJ. exact HJ. }
          apply (proj1 (jdesc_mid (a :: A') _ q HJl)). left. reflexivity.
        + apply Hincl. rewrite E, EC. cbn [app]. left. reflexivity.
      - right. cbn [app hd]. split; [specialize (Hu u ltac:(left; reflexivity)); lia|].
        apply Hincl. rewrite E. left. reflexivity. }
    destruct Ht as [Ht|[Ht1 Ht2]].
    - rewrite Ht. apply CONVEX_nonpos_left; [lia|]. unfold cross. nia.
    - apply CONVEX_nonpos_left; [lia|]. apply (dead_core x q (hd q G) q'); auto.
  Qed.
End Guard.

(* ---------------------------------------------------------------- guarded and guard-free second loop side by side *)
Section Guard2.
  Variables (m : Z) (pts : list pt) (p0 : pt) (ej cap : Z).
  Hypothesis Hp0 : In p0 pts.
  Hypothesis Hleft : forall s, In s pts -> snd p0 <= snd s.
  Hypothesis Hright : forall s, In s pts -> snd s <= ej.
  Hypothesis Hrange : forall s, In s pts -> 0 <= fst s <= m.
  Hypothesis Hcap : zlen pts <= cap.
  Let sj := snd p0.
  Let st1 := fold_left (lower_emit m (build_lower m pts)) (cols_up sj ej) [].
  Let upper := build_upper pts.
  Let Dead := dead pts.
  Let Clean := clean pts.
  Let Shape := shape m pts p0 ej.

  Definition ginv (j : Z) (G F : list pt) : Prop :=
    G <> [] /\ Shape j G /\ incl G pts /\ Clean G /\
    (F = G \/ exists p, F = p :: G /\ Dead p G /\ In p pts /\ j < snd p).

  Lemma prune_dead p G q : G <> [] -> Dead p G -> In q pts -> snd q < snd p -> prune (p :: G) q = prune G q.
  Proof.
    intros Hne Hd Hq Hlt. destruct G as [|t r]; [contradiction|].
    specialize (Hd q Hq Hlt). cbn [hd] in Hd.
    replace (prune (p :: t :: r) q) with (if CONVEX t p q then p :: t :: r else prune (t :: r) q) by reflexivity.
    rewrite Hd. reflexivity.
  Qed.

  Lemma shape_low_nodup j G : Shape j G -> forall p G', G = p :: G' -> In p G' -> j < snd p.
  Proof.
    intros [up [low [pre [E [E1 [Hl Hu]]]]]] p G' EG Hin. destruct up as [|u up'].
    - exfalso. cbn [app] in E. destruct (st1_facts m pts p0 ej Hp0 Hleft Hright Hrange) as [_ [HJ _]].
      fold sj in HJ. fold st1 in HJ. assert (ND : NoDup low).
      { apply (NoDup_suffix pre). rewrite <- E1. apply jdesc_NoDup. exact HJ. }
      rewrite <- E, EG in ND. inversion ND. contradiction.
    - cbn [app] in E. rewrite EG in E. inversion E. subst. apply Hu. left. reflexivity.
  Qed.

  Lemma clean_prune j G q : G <> [] -> Shape j G -> Clean G -> In q pts -> snd q <= j ->
    NoDup (prune G q) /\ exists pre, G = pre ++ prune G q.
  Proof.
    intros Hne HS [ND|[p [G' [EG [ND [Hin Hd]]]]]] Hq Hqj.
    - destruct (prune_suffix G q) as [pre E]. split; [|exists pre; exact E].
      apply (NoDup_suffix pre). rewrite <- E. exact ND.
    - pose proof (shape_low_nodup j G HS p G' EG Hin) as Hp.
      assert (Hne' : G' <> []) by (intros E0; rewrite E0 in Hin; destruct Hin).
      rewrite EG. rewrite (prune_dead p G' q Hne' Hd Hq ltac:(lia)).
      destruct (prune_suffix G' q) as [pre E]. split.
      + apply (NoDup_suffix pre). rewrite <- E. exact ND.
      + exists (p :: pre). cbn [app]. f_equal. exact E.
  Qed.

  Lemma ginv_step j G F : sj < j -> ginv j G F ->
    ginv (j - 1) (upper_emit upper cap G j) (upper_emit_free upper F j).
  Proof.
    intros Hj [Hne [HS [Hincl [HC HF]]]]. unfold upper_emit, upper_emit_free.
    destruct (-1 <? upper j) eqn:E.
    - set (q := ((upper j, j) : pt)).
      assert (Hq : In q pts).
      { destruct (build_upper_in pts j) as [B|B]; [fold upper in B; lia | exact B]. }
      destruct (clean_prune j G q Hne HS HC Hq ltac:(cbn; lia)) as [ND [pre Epre]].
      assert (Hne' : prune G q <> []) by (apply prune_nonempty; exact Hne).
      assert (HS' : Shape j (prune G q)) by (apply (shape_suffix m pts p0 ej j pre); [rewrite <- Epre; exact HS | exact Hne']).
      assert (Hincl' : incl (prune G q) pts) by (intros x Hx; apply Hincl; eapply prune_subset; exact Hx).
      assert (EF : prune F q = prune G q).
      { destruct HF as [HF|[p [HF [Hd [Hp Hlt]]]]]; [rewrite HF; reflexivity|].
        rewrite HF. apply prune_dead; auto. }
      rewrite EF.
      assert (Hdup : In q (prune G q) -> Dead q (prune G q)).
      { intros Hin. apply (dup_dead m pts p0 ej Hp0 Hleft Hright Hrange j); auto. }
      destruct (in_dec pt_eq_dec q (prune G q)) as [Hin|Hnin].
      + (* q is already on the stack *)
        destruct (zlen (prune G q) <? cap) eqn:EC.
        * split; [discriminate|]. split; [apply (shape_push m pts p0 ej j); auto|].
          split; [intros x [Hx|Hx]; [subst; exact Hq | auto]|].
          split; [right; exists q, (prune G q); split; [reflexivity|]; split; [exact ND|]; split; [exact Hin | exact (Hdup Hin)]|]. left. reflexivity.
        * split; [exact Hne'|]. split; [apply (shape_weaken m pts p0 ej j); [lia | exact HS']|].
          split; [exact Hincl'|]. split; [left; exact ND|].
          right. exists q. split; [reflexivity|]. split; [exact (Hdup Hin)|]. split; [exact Hq|]. unfold q. cbn [snd]. lia.
      + (* a new point: the guard cannot fire *)
        assert (ND2 : NoDup (q :: prune G q)) by (constructor; assumption).
        assert (Hlen : (length (q :: prune G q) <= length pts)%nat).
        { apply NoDup_incl_length; [exact ND2|]. intros x [Hx|Hx]; [subst; exact Hq | auto]. }
        assert (EC : zlen (prune G q) <? cap = true) by (unfold zlen in *; cbn [length] in Hlen; lia).
        rewrite EC. split; [discriminate|]. split; [apply (shape_push m pts p0 ej j); auto|].
        split; [intros x [Hx|Hx]; [subst; exact Hq | auto]|].
        split; [left; exact ND2|]. left. reflexivity.
    - split; [exact Hne|]. split; [apply (shape_weaken m pts p0 ej j); [lia | exact HS]|].
      split; [exact Hincl|]. split; [exact HC|].
      destruct HF as [HF|[p [HF [Hd [Hp Hlt]]]]]; [left; exact HF|]. right. exists p. repeat split; auto. lia.
  Qed.

  Lemma ginv_fold_right : forall n lo G F, sj < lo -> ginv (lo + Z.of_nat n - 1) G F ->
    ginv (lo - 1)
      (fold_right (fun j acc => upper_emit upper cap acc j) G (map (fun k => lo + Z.of_nat k) (seq 0 n)))
      (fold_right (fun j acc => upper_emit_free upper acc j) F (map (fun k => lo + Z.of_nat k) (seq 0 n))).
  Proof.
    induction n as [|n IH]; intros lo G F Hlo H.
    - cbn [seq map fold_right]. replace (lo + Z.of_nat 0 - 1) with (lo - 1) in H by lia. exact H.
    - cbn [seq]. rewrite <- seq_shift. cbn [map fold_right]. rewrite !map_map.
      replace (lo + Z.of_nat 0) with lo by lia.
      rewrite !(map_ext (fun k => lo + Z.of_nat (S k)) (fun k => (lo + 1) + Z.of_nat k)) by (intros; lia).
      apply ginv_step; [exact Hlo|].
      replace lo with (lo + 1 - 1) at 1 by lia. apply IH; [lia|].
      replace (lo + 1 + Z.of_nat n - 1) with (lo + Z.of_nat (S n) - 1) by lia. exact H.
  Qed.

  Lemma ginv_init : ginv ej st1 st1.
  Proof.
    destruct (st1_facts m pts p0 ej Hp0 Hleft Hright Hrange) as [Hne [HJ [_ [Hincl _]]]].
    fold sj in Hne, HJ, Hincl. fold st1 in Hne, HJ, Hincl.
    split; [exact Hne|]. split.
    - exists [], st1, []. repeat split; auto. intros u [].
    - split; [exact Hincl|]. split; [left; apply jdesc_NoDup; exact HJ | left; reflexivity].
  Qed.

  (* after the second loop *)
  Lemma ginv_final :
    ginv sj (fold_left (upper_emit upper cap) (rev (cols_up (sj + 1) ej)) st1)
            (fold_left (upper_emit_free upper) (rev (cols_up (sj + 1) ej)) st1).
  Proof.
    rewrite !fold_left_rev. unfold cols_up.
    destruct (Z_lt_le_dec sj ej) as [Hlt|Hge].
    - replace sj with (sj + 1 - 1) at 1 by lia. apply ginv_fold_right; [lia|].
      replace (sj + 1 + Z.of_nat (Z.to_nat (ej - (sj + 1) + 1)) - 1) with ej by lia. apply ginv_init.
    - replace (Z.to_nat (ej - (sj + 1) + 1)) with 0%nat by lia. cbn [seq map fold_right].
      destruct ginv_init as [A [B [C [D _]]]].
      split; [exact A|]. split; [apply (shape_weaken m pts p0 ej ej); [specialize (Hright p0 Hp0); fold sj in Hright; lia | exact B]|].
      split; [exact C|]. split; [exact D|]. left. reflexivity.
  Qed.
End Guard2.

(* ---------------------------------------------------------------- the two theorems *)
(* hull_label without the guard *)
Definition hull_free (m : Z) (pts : list pt) : list pt :=
  match pts with
  | [] => []
  | p0 :: _ =>
      let start_j := snd p0 in
      let end_j := snd (last pts p0) in
      let lower := build_lower m pts in
      let upper := build_upper pts in
      let need_last := negb (lower start_j =? upper start_j) in
      let st1 := fold_left (lower_emit m lower) (cols_up start_j end_j) [] in
      let st2 := fold_left (upper_emit_free upper) (rev (cols_up (start_j + 1) end_j)) st1 in
      let st3 := prune st2 (upper start_j, start_j) in
      rev (if need_last then (upper start_j, start_j) :: st3 else st3)
  end.

Lemma sorted_last_max (l : list pt) d : StronglySorted (fun a b => snd a <= snd b) l ->
  forall s, In s l -> snd s <= snd (last l d).
Proof.
  induction 1 as [|a t HS IH HF]; intros s Hs; [destruct Hs|].
  destruct t as [|b t'].
  - destruct Hs as [Hs|[]]. subst. cbn. lia.
  - change (last (a :: b :: t') d) with (last (b :: t') d).
    destruct Hs as [Hs|Hs]; [|apply IH; exact Hs]. subst s.
    rewrite Forall_forall in HF. eapply Z.le_trans; [apply (HF b); left; reflexivity | apply IH; left; reflexivity].
Qed.

Section Final.
  Variables (m : Z) (p0 : pt) (rest : list pt) (slack : Z).
  Let pts := p0 :: rest.
  Hypothesis Hok : label_ok m pts.
  Hypothesis Hslack : 0 <= slack.
  Let sj := snd p0.
  Let ej := snd (last pts p0).
  Let upper := build_upper pts.
  Let lower := build_lower m pts.
  Let st1 := fold_left (lower_emit m lower) (cols_up sj ej) [].
  Let Q : pt := (upper sj, sj).

  Lemma fin_p0 : In p0 pts. Proof. left. reflexivity. Qed.
  Lemma fin_left : forall s, In s pts -> snd p0 <= snd s.
  Proof.
    intros s [Hs|Hs]; [subst; lia|]. destruct Hok as [_ HS]. inversion HS as [|? ? _ F]. subst.
    rewrite Forall_forall in F. apply F. exact Hs.
  Qed.
  Lemma fin_right : forall s, In s pts -> snd s <= ej.
  Proof. intros s Hs. apply sorted_last_max; [exact (proj2 Hok) | exact Hs]. Qed.
  Lemma fin_range : forall s, In s pts -> 0 <= fst s <= m.
  Proof. exact (proj1 Hok). Qed.
  Lemma fin_cap : zlen pts <= slack + zlen pts. Proof. lia. Qed.

  Lemma fin_Q : In Q pts /\ lower sj <= upper sj /\ In (lower sj, sj) pts.
  Proof.
    pose proof (build_upper_ge pts p0 fin_p0) as G1. pose proof (build_lower_le m pts p0 fin_p0) as G2.
    pose proof (fin_range p0 fin_p0) as R. fold sj in G1, G2. fold upper in G1. fold lower in G2.
    split; [|split; [lia|]].
    - destruct (build_upper_in pts sj) as [B|B]; [fold upper in B; lia | exact B].
    - destruct (build_lower_in m pts sj) as [B|B]; [fold lower in B; lia | exact B].
  Qed.

  Let G := fold_left (upper_emit upper (slack + zlen pts)) (rev (cols_up (sj + 1) ej)) st1.
  Let F := fold_left (upper_emit_free upper) (rev (cols_up (sj + 1) ej)) st1.

  Lemma fin_inv : ginv m pts p0 ej sj G F.
  Proof. apply (ginv_final m pts p0 ej (slack + zlen pts) fin_p0 fin_left fin_right fin_range fin_cap). Qed.

  Lemma fin_prune_eq : prune F Q = prune G Q.
  Proof.
    destruct fin_inv as [Hne [_ [_ [_ HF]]]]. destruct HF as [HF|[p [HF [Hd [Hp Hlt]]]]]; [rewrite HF; reflexivity|].
    rewrite HF. apply (prune_dead pts); auto. exact (proj1 fin_Q).
  Qed.

  Lemma fin_stack3 : NoDup (prune G Q) /\ incl (prune G Q) pts /\
    (lower sj <> upper sj -> ~ In Q (prune G Q)).
  Proof.
    destruct fin_inv as [Hne [HS [Hincl [HC _]]]].
    destruct (clean_prune m pts p0 ej fin_p0 fin_left fin_right fin_range sj G Q Hne HS HC (proj1 fin_Q) ltac:(cbn; lia))
      as [ND [pre Epre]].
    split; [exact ND|]. split; [intros x Hx; apply Hincl; eapply prune_subset; exact Hx|].
    intros Hneq Hin.
    assert (HinG : In Q G) by (eapply prune_subset; exact Hin).
    destruct HS as [up [low [pre' [E [E1 [Hl Hu]]]]]]. fold sj in E1. fold lower in E1. fold st1 in E1.
    rewrite E in HinG. apply in_app_or in HinG. destruct HinG as [HinG|HinG].
    { specialize (Hu Q HinG). unfold Q in Hu. cbn [snd] in Hu. lia. }
    destruct (st1_facts m pts p0 ej fin_p0 fin_left fin_right fin_range) as [Hne1 [HJ [_ [_ [Hall Hlast]]]]].
    fold sj in Hne1, HJ, Hall, Hlast. fold lower in Hne1, HJ, Hall, Hlast. fold st1 in Hne1, HJ, Hall, Hlast.
    assert (Hin1 : In Q st1) by (rewrite E1; apply in_or_app; right; exact HinG).
    destruct (exists_last Hne1) as [l' [z Ez]].
    assert (Hz : last st1 Q = z) by (rewrite Ez; apply last_last).
    assert (EQ : Q = z).
    { rewrite Ez in Hin1. apply in_app_or in Hin1. destruct Hin1 as [H1|[H1|[]]]; [|symmetry; exact H1].
      exfalso. rewrite Ez in HJ. pose proof (proj1 (jdesc_mid l' [] z HJ) Q H1) as C.
      specialize (Hlast Q). rewrite Hz in Hlast. unfold Q in C. cbn [snd] in C. lia. }
    destruct fin_Q as [_ [Hle HL]].
    destruct (Hall _ HL) as [_ HB]. destruct (HB Q) as [_ B2]. rewrite Hz, <- EQ in B2.
    unfold Q in B2. cbn [fst snd] in B2. specialize (B2 eq_refl). lia.
  Qed.
End Final.

(* guard_irrelevant: for every label the kernel may see and every slack >= 0 the guarded kernel
   returns what the guard-free kernel returns; hence the result does not depend on the slack, i.e.
   on the pixels of other labels *)
Theorem guard_irrelevant : forall m pts slack, label_ok m pts -> 0 <= slack ->
  hull_label m pts slack = hull_free m pts.
Proof.
  intros m pts slack Hok Hs. destruct pts as [|p0 rest]; [reflexivity|].
  unfold hull_label, hull_free. cbv zeta.
  rewrite <- (fin_prune_eq m p0 rest slack Hok Hs). reflexivity.
Qed.

Corollary slack_irrelevant : forall m pts s1 s2, label_ok m pts -> 0 <= s1 -> 0 <= s2 ->
  hull_label m pts s1 = hull_label m pts s2.
Proof. intros. rewrite !guard_irrelevant by assumption. reflexivity. Qed.

(* HullNoOverflow (C19's write bound for the kernel): the rows written for a label never reach the
   row where its own input ends *)
Lemma len_bound (l : list pt) (n : nat) (slack : Z) : (length l <= n)%nat -> 0 <= slack ->
  Z.of_nat (length l) <= slack + Z.of_nat n.
Proof. lia. Qed.

Theorem hull_no_overflow : HullNoOverflow.
Proof.
  intros m pts slack Hok Hs. destruct pts as [|p0 rest]; [cbn; unfold zlen; cbn; lia|].
  destruct (fin_stack3 m p0 rest slack Hok Hs) as [ND [Hincl Hnin]].
  destruct (fin_Q m p0 rest Hok) as [HQ _].
  unfold hull_label. cbv zeta. unfold zlen. rewrite rev_length.
  match goal with |- context [if ?b then _ else _] => destruct b eqn:EB end.
  - assert (Hlen : (length ((build_upper (p0 :: rest) (snd p0), snd p0)
                     :: prune (fold_left (upper_emit (build_upper (p0 :: rest)) (slack + zlen (p0 :: rest)))
                                (rev (cols_up (snd p0 + 1) (snd (last (p0 :: rest) p0))))
                                (fold_left (lower_emit m (build_lower m (p0 :: rest))) (cols_up (snd p0) (snd (last (p0 :: rest) p0))) []))
                          (build_upper (p0 :: rest) (snd p0), snd p0)) <= length (p0 :: rest))%nat).
    { apply NoDup_incl_length.
      - constructor; [apply Hnin; lia | exact ND].
      - intros x [Hx|Hx]; [subst x; exact HQ | apply Hincl; exact Hx]. }
    apply len_bound; [exact Hlen | exact Hs].
  - apply len_bound; [exact (NoDup_incl_length ND Hincl) | exact Hs].
Qed.

Example guard_irrelevant_ex :
  label_ok 1 [(1,0);(0,1);(1,2)] /\ hull_label 1 [(1,0);(0,1);(1,2)] 0 = [(1,0);(0,1);(1,2)]
  /\ hull_free 1 [(1,0);(0,1);(1,2)] = [(1,0);(0,1);(1,2)].
Proof.
  split; [split; [intros s H; cbn in H; repeat (destruct H as [H|H]; [subst s; cbn; lia|]); contradiction
                 | repeat constructor; cbn; lia]|].
  vm_compute. split; reflexivity.
Qed.
