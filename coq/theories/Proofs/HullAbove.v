(* C02 — clause (c) for the upper pass: the mirror image of HullBelow.v for a chain whose columns
   decrease towards the top of the stack, with the pixels BELOW the new point in its column. *)
From Coq Require Import ZArith List Bool Lia ZifyBool Sorted.
From Centro Require Import Base.Sx Model.Hull Proofs.HullEmit Proofs.HullBelow.
Import ListNotations.
Open Scope Z_scope.

(* rotation by 180 degrees keeps the orientation *)
Definition rho (a : pt) : pt := (- fst a, - snd a).
Lemma cross_rho a b c : cross (rho a) (rho b) (rho c) = cross a b c.
Proof. unfold cross, rho. cbn [fst snd]. ring. Qed.

Lemma above_L1 a b p s : snd b < snd a -> snd p < snd b -> snd s < snd a -> snd b <= snd s ->
  cross a b p <= 0 -> 0 <= cross a b s -> 0 <= cross a p s.
Proof.
  intros. rewrite <- cross_rho. apply (below_L1 (rho a) (rho b) (rho p) (rho s));
    rewrite ?cross_rho; unfold rho; cbn [fst snd]; lia.
Qed.
Lemma above_L2 x y z p : snd y < snd x -> snd z < snd y -> snd p < snd z ->
  0 < cross x y z -> 0 < cross y z p -> 0 < cross x y p.
Proof.
  intros. rewrite <- cross_rho. apply (below_L2 (rho x) (rho y) (rho z) (rho p));
    rewrite ?cross_rho; unfold rho; cbn [fst snd]; lia.
Qed.
Lemma above_L3 a b p s : snd b < snd a -> snd p < snd b -> snd b <= snd s ->
  0 < cross a b p -> 0 <= cross a b s -> 0 <= cross b p s.
Proof.
  intros. rewrite <- cross_rho. apply (below_L3 (rho a) (rho b) (rho p) (rho s));
    rewrite ?cross_rho; unfold rho; cbn [fst snd]; lia.
Qed.
Lemma above_L4 a b p s : snd b < snd a -> snd p < snd b -> snd s < snd b -> snd p <= snd s ->
  cross a b p <= 0 -> 0 <= cross b p s -> 0 <= cross a p s.
Proof.
  intros. rewrite <- cross_rho. apply (below_L4 (rho a) (rho b) (rho p) (rho s));
    rewrite ?cross_rho; unfold rho; cbn [fst snd]; lia.
Qed.

(* top first; columns strictly increasing towards the bottom *)
Definition jasc (st : list pt) : Prop := StronglySorted (fun a b => snd a < snd b) st.
(* s is not right of / above the bottom vertex of the stack *)
Definition top_ok (st : list pt) (s : pt) : Prop :=
  forall d, snd s <= snd (last st d) /\ (snd s = snd (last st d) -> fst s <= fst (last st d)).

Lemma jasc_tail x st : jasc (x :: st) -> jasc st.
Proof. intros H. inversion H. assumption. Qed.
Lemma jasc_head2 b a st : jasc (b :: a :: st) -> snd b < snd a.
Proof. intros H. inversion H as [|? ? _ F]. inversion F. assumption. Qed.
Lemma jasc_suffix pre : forall st, jasc (pre ++ st) -> jasc st.
Proof. induction pre as [|x pre IH]; intros st H; [exact H|]. apply IH. eapply jasc_tail. exact H. Qed.

Lemma CONVEX_left a b p : snd b < snd a -> (CONVEX a b p = true <-> 0 < cross a b p).
Proof.
  intros H. unfold CONVEX. destruct (0 <? cross a b p) eqn:E1; [split; [lia | auto]|].
  destruct (cross a b p <? 0) eqn:E2; [split; [discriminate | lia]|].
  split; [|lia]. intros H2. apply andb_prop in H2. lia.
Qed.

Lemma prune_hd_ge (st : list pt) (p : pt) : jasc st -> snd (hd p st) <= snd (hd p (prune st p)).
Proof.
  induction st as [|b rest IH]; intros HJ; [cbn; lia|].
  destruct rest as [|a r]; [cbn; lia|].
  replace (prune (b :: a :: r) p) with (if CONVEX a b p then b :: a :: r else prune (a :: r) p) by reflexivity.
  destruct (CONVEX a b p); [cbn; lia|].
  specialize (IH (jasc_tail _ _ HJ)). pose proof (jasc_head2 _ _ _ HJ). cbn [hd] in IH |- *. lia.
Qed.

Lemma new_edge_ok_up (p s : pt) : forall st : list pt, st <> [] -> jasc st -> snd p < snd (hd p st) ->
  edges_ok st s -> top_ok st s -> snd p <= snd s ->
  (snd (hd p st) <= snd s \/ 0 <= cross (hd p st) p s) ->
  0 <= cross (hd p (prune st p)) p s.
Proof.
  induction st as [|b rest IH]; intros Hne HJ Hp HE HB Hsp Hor; [contradiction|].
  destruct rest as [|a r].
  - cbn [prune hd] in *. destruct Hor as [Hor|Hor]; [|exact Hor].
    destruct (HB p) as [B1 B2]. cbn [last] in B1, B2.
    assert (Es : snd s = snd b) by lia. specialize (B2 Es).
    destruct b as [bi bj], p as [pi pj], s as [si sj]. unfold cross. cbn [fst snd] in *. nia.
  - cbn [hd] in Hp, Hor. pose proof (jasc_head2 _ _ _ HJ) as Hab.
    destruct HE as [HE1 HE2].
    replace (prune (b :: a :: r) p) with (if CONVEX a b p then b :: a :: r else prune (a :: r) p) by reflexivity.
    destruct (CONVEX a b p) eqn:EC.
    + cbn [hd]. apply CONVEX_left in EC; [|exact Hab].
      destruct Hor as [Hor|Hor]; [|exact Hor]. eapply above_L3; eauto.
    + assert (Hle : cross a b p <= 0).
      { destruct (Z_lt_le_dec 0 (cross a b p)) as [G|G]; [|exact G].
        apply (CONVEX_left a b p Hab) in G. rewrite G in EC. discriminate. }
      apply IH.
      * discriminate.
      * eapply jasc_tail; exact HJ.
      * cbn [hd]. lia.
      * exact HE2.
      * intros d. specialize (HB d). cbn [last] in HB |- *. exact HB.
      * exact Hsp.
      * cbn [hd]. destruct (Z_le_gt_dec (snd a) (snd s)) as [G|G]; [left; exact G|]. right.
        destruct (Z_le_gt_dec (snd b) (snd s)) as [G2|G2].
        -- eapply above_L1; eauto. lia.
        -- destruct Hor as [Hor|Hor]; [lia|]. eapply above_L4; eauto. lia.
Qed.

Lemma chain_strict_up st : jasc st -> chain_ok st -> strict_ok st.
Proof.
  induction st as [|c rest IH]; intros HJ HC; [exact Logic.I|].
  destruct rest as [|b [|a r]]; try exact Logic.I.
  cbn [strict_ok]. cbn [chain_ok] in HC. destruct HC as [H1 H2]. split.
  - apply CONVEX_left; [|exact H1]. apply (jasc_head2 b a r). eapply jasc_tail. exact HJ.
  - apply IH; [eapply jasc_tail; exact HJ | exact H2].
Qed.
Lemma left_of_chain (p : pt) : forall st : list pt, jasc st -> strict_ok st -> snd p < snd (hd p st) ->
  (match st with b :: a :: _ => 0 < cross a b p | _ => True end) -> edges_pos st p.
Proof.
  induction st as [|b rest IH]; intros HJ HS Hp H0; [exact Logic.I|].
  destruct rest as [|a r]; [exact Logic.I|]. cbn [edges_pos]. split; [exact H0|].
  pose proof (jasc_head2 _ _ _ HJ) as Hab. cbn [hd] in Hp.
  apply IH.
  - eapply jasc_tail; exact HJ.
  - eapply strict_ok_tail; exact HS.
  - cbn [hd]. lia.
  - destruct r as [|a' r']; [exact Logic.I|]. apply strict_ok_head in HS.
    assert (Ha : snd a < snd a') by (apply (jasc_head2 a a' r'); eapply jasc_tail; exact HJ).
    eapply (above_L2 a' a b p); eauto; try lia.
Qed.
Lemma edges_pos_below (st : list pt) (p : pt) k : 0 <= k -> jasc st -> edges_pos st p -> edges_ok st (fst p - k, snd p).
Proof.
  intros Hk. induction st as [|b rest IH]; intros HJ HP; [exact Logic.I|].
  destruct rest as [|a r]; [exact Logic.I|]. cbn [edges_pos] in HP. destruct HP as [P1 P2].
  pose proof (jasc_head2 _ _ _ HJ) as Hab.
  assert (G1 : 0 <= cross a b (fst p - k, snd p)).
  { destruct a as [ai aj], b as [bi bj], p as [pi pj]. unfold cross in *. cbn [fst snd] in *. nia. }
  assert (G2 : edges_ok (a :: r) (fst p - k, snd p)) by (apply IH; [eapply jasc_tail; exact HJ | exact P2]).
  exact (conj G1 G2).
Qed.

(* one EMIT of the upper pass on a stack whose columns decrease towards the top *)
Theorem emit_above_step : forall (st : list pt) (p s : pt), st <> [] -> jasc st -> chain_ok st -> snd p < snd (hd p st) ->
  (  (snd (hd p st) <= snd s /\ edges_ok st s /\ top_ok st s)
   \/ (snd s = snd p /\ fst s <= fst p)) ->
  edges_ok (p :: prune st p) s /\ jasc (p :: prune st p) /\ chain_ok (p :: prune st p).
Proof.
  intros st p s Hne HJ HC Hp Hs.
  destruct (prune_suffix st p) as [pre Epre].
  assert (HJ' : jasc (prune st p)) by (apply (jasc_suffix pre); rewrite <- Epre; exact HJ).
  assert (Hne' : prune st p <> []) by (apply prune_nonempty; exact Hne).
  pose proof (prune_hd_ge st p HJ) as Hhd.
  assert (HJn : jasc (p :: prune st p)).
  { constructor; [exact HJ'|]. rewrite Forall_forall. intros x Hx.
    destruct (prune st p) as [|h tl] eqn:EPR; [contradiction|]. cbn [hd] in Hhd.
    destruct Hx as [Hx|Hx]; [rewrite <- Hx; lia|].
    inversion HJ' as [|? ? _ F]. subst. rewrite Forall_forall in F. specialize (F x Hx). lia. }
  split; [|split; [exact HJn | apply prune_ok; exact HC]].
  destruct (prune st p) as [|t tl] eqn:EPR; [contradiction|]. cbn [hd] in Hhd.
  assert (Hnew_strict : match t :: tl with b :: a :: _ => 0 < cross a b p | _ => True end).
  { destruct tl as [|a tl']; [exact Logic.I|].
    pose proof (proj2 (prune_ok st p HC)) as HC2. rewrite EPR in HC2. cbn [chain_ok] in HC2.
    apply CONVEX_left; [apply (jasc_head2 t a tl'); exact HJ' | tauto]. }
  destruct Hs as [[Hs1 [Hs2 Hs3]]|[Hs1 Hs2]].
  - assert (HE' : edges_ok (t :: tl) s) by (apply (edges_ok_suffix pre); rewrite <- Epre; exact Hs2).
    pose proof (new_edge_ok_up p s st Hne HJ Hp Hs2 Hs3 ltac:(lia) (or_introl Hs1)) as N.
    rewrite EPR in N. cbn [hd] in N. exact (conj N HE').
  - replace s with (fst p - (fst p - fst s), snd p) by (destruct s; cbn [fst snd] in *; f_equal; lia).
    assert (G1 : 0 <= cross t p (fst p - (fst p - fst s), snd p)).
    { destruct t as [ti tj], p as [pi pj]. unfold cross. cbn [fst snd] in *. nia. }
    assert (G2 : edges_ok (t :: tl) (fst p - (fst p - fst s), snd p)).
    { apply edges_pos_below; [lia | exact HJ' |].
      apply left_of_chain; [exact HJ' | | cbn [hd]; lia | exact Hnew_strict].
      apply chain_strict_up; [exact HJ'|]. pose proof (proj1 (prune_ok st p HC)) as X. rewrite EPR in X. exact X. }
    exact (conj G1 G2).
Qed.

(* ---------------------------------------------------------------- the whole upper chain *)
(* EMIT of the second loop without the in-place guard *)
Definition upper_emit_free (upper : env) (st : list pt) (j : Z) : list pt :=
  if -1 <? upper j then (upper j, j) :: prune st (upper j, j) else st.

Lemma jasc_last_ge (st : list pt) d : st <> [] -> jasc st -> snd (hd d st) <= snd (last st d).
Proof.
  induction st as [|x st IH]; intros Hne HJ; [contradiction|].
  destruct st as [|y st']; [cbn; lia|].
  specialize (IH ltac:(discriminate) (jasc_tail _ _ HJ)). pose proof (jasc_head2 _ _ _ HJ).
  change (last (x :: y :: st') d) with (last (y :: st') d). cbn [hd] in *. lia.
Qed.

Section UpperPass.
  Variables (pts : list pt).
  Hypothesis Hnn : forall s, In s pts -> 0 <= fst s.
  Let upper := build_upper pts.

  Definition up_inv (J : Z) (st : list pt) : Prop :=
    (st = [] /\ forall s, In s pts -> snd s < J) \/
    (st <> [] /\ jasc st /\ chain_ok st /\ (forall d, J <= snd (hd d st)) /\
     forall s, In s pts -> J <= snd s ->
       (forall d, snd (hd d st) <= snd s) /\ edges_ok st s /\ top_ok st s).

  Lemma up_column_empty J : upper J = -1 -> forall s, In s pts -> snd s <> J.
  Proof.
    intros E s Hs Es. pose proof (build_upper_ge pts s Hs) as G. rewrite Es in G. fold upper in G.
    specialize (Hnn s Hs). lia.
  Qed.

  Lemma up_step J st : up_inv (J + 1) st -> up_inv J (upper_emit_free upper st J).
  Proof.
    intros Hinv. unfold upper_emit_free. destruct (-1 <? upper J) eqn:E.
    - set (p := ((upper J, J) : pt)).
      assert (Hcol : forall s, In s pts -> snd s = J -> fst s <= fst p).
      { intros s Hs Es. unfold p. cbn [fst]. unfold upper. rewrite <- Es. apply build_upper_ge. exact Hs. }
      destruct Hinv as [[E0 Hall]|[Hne [HJ [HC [Hhd Hall]]]]].
      + subst st. cbn [prune]. right. split; [discriminate|]. split; [repeat constructor|]. split; [exact Logic.I|].
        split; [intros d; cbn [hd]; unfold p; cbn [snd]; lia|].
        intros s Hs HsJ. specialize (Hall s Hs). assert (Es : snd s = J) by lia.
        split; [intros d; cbn [hd]; unfold p; cbn [snd]; lia|]. split; [exact Logic.I|].
        intros d. cbn [last]. unfold p at 1 2. cbn [snd]. split; [lia|]. intros _. apply Hcol; auto.
      + assert (Hp : snd p < snd (hd p st)) by (unfold p at 1; cbn [snd]; specialize (Hhd p); lia).
        assert (Hpr : prune st p <> []) by (apply prune_nonempty; exact Hne).
        assert (Step : forall s, (snd (hd p st) <= snd s /\ edges_ok st s /\ top_ok st s) \/ (snd s = snd p /\ fst s <= fst p) ->
                       edges_ok (p :: prune st p) s /\ jasc (p :: prune st p) /\ chain_ok (p :: prune st p))
          by (intros s Hs; apply emit_above_step; auto).
        assert (Hbot : forall d, last (p :: prune st p) d = last st d).
        { intros d. rewrite last_cons_ne by exact Hpr. apply prune_last. }
        destruct (Step p (or_intror (conj eq_refl (Z.le_refl _)))) as [_ [J' C']].
        right. split; [discriminate|]. split; [exact J'|]. split; [exact C'|].
        split; [intros d; cbn [hd]; unfold p; cbn [snd]; lia|].
        intros s Hs HsJ. split; [intros d; cbn [hd]; unfold p; cbn [snd]; lia|].
        destruct (Z_lt_le_dec J (snd s)) as [G|G].
        * destruct (Hall s Hs ltac:(lia)) as [A1 [A2 A3]].
          split; [apply Step; left; auto|].
          intros d. rewrite Hbot. apply A3.
        * assert (Es : snd s = J) by lia.
          split.
          -- apply Step. right. split; [exact Es|]. apply Hcol; auto.
          -- intros d. rewrite Hbot. pose proof (jasc_last_ge st d Hne HJ) as L. specialize (Hhd d). split; lia.
    - assert (EJ : upper J = -1).
      { destruct (build_upper_in pts J) as [B|B]; [exact B|]. fold upper in B.
        pose proof (Hnn _ B) as N. cbn [fst] in N. lia. }
      destruct Hinv as [[E0 Hall]|[Hne [HJ [HC [Hhd Hall]]]]].
      + left. split; [exact E0|]. intros s Hs. specialize (Hall s Hs). pose proof (up_column_empty J EJ s Hs). lia.
      + right. split; [exact Hne|]. split; [exact HJ|]. split; [exact HC|].
        split; [intros d; specialize (Hhd d); lia|].
        intros s Hs HsJ. apply Hall; [exact Hs|]. pose proof (up_column_empty J EJ s Hs). lia.
  Qed.

  Lemma up_fold_right : forall n lo, up_inv (lo + Z.of_nat n) [] ->
    up_inv lo (fold_right (fun j acc => upper_emit_free upper acc j) [] (map (fun k => lo + Z.of_nat k) (seq 0 n))).
  Proof.
    induction n as [|n IH]; intros lo H.
    - cbn [seq map fold_right]. replace (lo + Z.of_nat 0) with lo in H by lia. exact H.
    - cbn [seq]. rewrite <- seq_shift. cbn [map fold_right]. rewrite map_map.
      replace (lo + Z.of_nat 0) with lo by lia.
      rewrite (map_ext (fun k => lo + Z.of_nat (S k)) (fun k => (lo + 1) + Z.of_nat k)) by (intros; lia).
      apply up_step. apply IH. replace (lo + 1 + Z.of_nat n) with (lo + Z.of_nat (S n)) by lia. exact H.
  Qed.
End UpperPass.

Lemma fold_left_rev {A B} (g : A -> B -> A) (l : list B) (a : A) :
  fold_left g (rev l) a = fold_right (fun x acc => g acc x) a l.
Proof.
  rewrite <- (rev_involutive l) at 2. rewrite fold_left_rev_right. reflexivity.
Qed.

(* (c) for the upper chain, all inputs: the guard-free second EMIT loop over columns e .. lo leaves a
   chain with strictly decreasing columns, locally convex, with every pixel of columns >= lo on
   the inner side of, or on, each of its edges *)
Theorem upper_chain_contains : forall pts lo e,
  (forall s, In s pts -> 0 <= fst s) -> (forall s, In s pts -> snd s <= e) ->
  let stU := fold_left (upper_emit_free (build_upper pts)) (rev (cols_up lo e)) [] in
  jasc stU /\ chain_ok stU /\ forall s, In s pts -> lo <= snd s -> edges_ok stU s.
Proof.
  intros pts lo e Hnn Hright stU. unfold stU. rewrite fold_left_rev. unfold cols_up.
  pose proof (up_fold_right pts Hnn (Z.to_nat (e - lo + 1)) lo) as H.
  destruct H as [[E0 _]|[_ [HJ [HC [_ Hall]]]]].
  - left. split; [reflexivity|]. intros s Hs. specialize (Hright s Hs). lia.
  - rewrite E0. split; [constructor|]. split; [exact Logic.I|]. intros; exact Logic.I.
  - split; [exact HJ|]. split; [exact HC|]. intros s Hs Hlo. apply Hall; auto.
Qed.

Example upper_chain_contains_ex :
  let pts := [(0,0);(2,0);(1,1);(3,1);(0,2);(2,3)] in
  fold_left (upper_emit_free (build_upper pts)) (rev (cols_up 0 3)) [] = [(2,0);(3,1);(2,3)]
  /\ edges_ok [(2,0);(3,1);(2,3)] (1,1) /\ edges_ok [(2,0);(3,1);(2,3)] (0,2).
Proof. vm_compute. split; [reflexivity|]. split; (split; [discriminate | split; [discriminate | exact Logic.I]]). Qed.
