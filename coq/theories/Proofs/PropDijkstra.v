(* C03: soundness of the model's main loop (Model/Propagate.v), for every input, both key layouts
   and whatever order the heap delivers its rows in: every distance the model reports is -1
   (never touched), 0 at a seed, or the cost - folded as the code folds it, step + accumulated,
   in the kernel's binary64 arithmetic - of a real 8-connected path through the mask that starts at
   a masked seed.  No property of float arithmetic is used: the distances are compared as terms. *)
From Coq Require Import ZArith List Bool Lia ZifyBool Permutation.
From Coq Require PrimFloat.
From Centro Require Import Base.PropFloat Model.PropHeap Model.Propagate Proofs.PropHeapInv Proofs.PropHeapKey Proofs.PropGrid.
Import ListNotations.
Open Scope Z_scope.

(* ---- arrays as lists of rows ---- *)
Definition shape {A} (l : list (list A)) (m n : Z) : Prop :=
  length l = Z.to_nat m /\ Forall (fun r => length r = Z.to_nat n) l.

Lemma upd_length : forall A (l : list A) k v, length (upd l k v) = length l.
Proof. induction l as [|h t IH]; intros [|k] v; cbn; auto. Qed.
Lemma nth_upd_same : forall A (l : list A) k v d, (k < length l)%nat -> nth k (upd l k v) d = v.
Proof. induction l as [|h t IH]; intros [|k] v d H; cbn in *; try lia; auto. apply IH. lia. Qed.
Lemma nth_upd_other : forall A (l : list A) k k' v d, k <> k' -> nth k' (upd l k v) d = nth k' l d.
Proof. induction l as [|h t IH]; intros [|k] [|k'] v d H; cbn; auto; try lia; apply IH; lia. Qed.
Lemma Forall_upd : forall A (P : A -> Prop) (l : list A) k v, Forall P l -> P v -> Forall P (upd l k v).
Proof.
  induction l as [|h t IH]; intros [|k] v Hl Hv; cbn; auto; inversion Hl; subst; constructor; auto.
Qed.

Section Arr.
Variables m n : Z.
Definition inr (v : Z * Z) : Prop := 0 <= fst v < m /\ 0 <= snd v < n.

Lemma shape_row : forall A (l : list (list A)) i, shape l m n -> 0 <= i < m ->
  length (nth (Z.to_nat i) l []) = Z.to_nat n.
Proof.
  intros A l i [H1 H2] Hi. apply (proj1 (Forall_forall _ l) H2). apply nth_In. lia.
Qed.

Lemma set2_shape : forall A (l : list (list A)) i j v, shape l m n -> 0 <= i < m -> shape (set2 l i j v) m n.
Proof.
  intros A l i j v Hs Hi. pose proof (shape_row A l i Hs Hi) as Hr. destruct Hs as [H1 H2].
  unfold set2. split; [rewrite upd_length; exact H1|].
  apply Forall_upd; [exact H2|]. rewrite upd_length. exact Hr.
Qed.

Lemma get2_set2_same : forall A (l : list (list A)) i j v d, shape l m n -> inr (i, j) ->
  get2 d (set2 l i j v) i j = v.
Proof.
  intros A l i j v d Hs [Hi Hj]. cbn [fst snd] in *. pose proof (shape_row A l i Hs Hi) as Hr.
  unfold get2, set2. rewrite nth_upd_same by (destruct Hs; lia). apply nth_upd_same. lia.
Qed.

Lemma get2_set2_other : forall A (l : list (list A)) i j i' j' v d, inr (i, j) -> inr (i', j') ->
  (i, j) <> (i', j') -> shape l m n -> get2 d (set2 l i j v) i' j' = get2 d l i' j'.
Proof.
  intros A l i j i' j' v d [Hi Hj] [Hi' Hj'] Hne Hs. cbn [fst snd] in *. unfold get2, set2.
  destruct (Z.eq_dec i i') as [->|Ni].
  - rewrite nth_upd_same by (destruct Hs; lia). apply nth_upd_other.
    assert (j <> j') by (intros ->; apply Hne; reflexivity). lia.
  - rewrite nth_upd_other by lia. reflexivity.
Qed.

Lemma get2_map2 : forall A B (f : A -> B) (l : list (list A)) i j da db, shape l m n -> inr (i, j) ->
  get2 db (map (map f) l) i j = f (get2 da l i j).
Proof.
  intros A B f l i j da db Hs [Hi Hj]. cbn [fst snd] in *. pose proof (shape_row A l i Hs Hi) as Hr.
  unfold get2. destruct Hs as [H1 H2].
  rewrite (nth_indep (map (map f) l) [] (map f [])) by (rewrite map_length; lia).
  rewrite map_nth. rewrite (nth_indep (map f _) db (f da)) by (rewrite map_length; lia).
  apply map_nth.
Qed.
Lemma map2_shape : forall A B (f : A -> B) (l : list (list A)), shape l m n -> shape (map (map f) l) m n.
Proof.
  intros A B f l [H1 H2]. split; [rewrite map_length; exact H1|].
  apply Forall_forall. intros r Hr. apply in_map_iff in Hr. destruct Hr as [r0 [<- Hin]].
  rewrite map_length. exact (proj1 (Forall_forall _ l) H2 r0 Hin).
Qed.
End Arr.

(* ---- the loop ---- *)
Section Loop.
Variable key : keymode.
Variable image : list (list float).
Variable mask : list (list bool).
Variables m n : Z.
Variable weight : float.
Variable labels : list (list Z).

Definition labv (v : Z * Z) : Z := get2 0 labels (fst v) (snd v).
Definition maskv (v : Z * Z) : Prop := get2 false mask (fst v) (snd v) = true.
Definition stepF (u v : Z * Z) : float := step_cost image (fst u) (snd u) (fst v) (snd v) m n weight.
Definition adj8 (u v : Z * Z) : Prop := exists o, In o offsets8 /\ v = (fst u + fst o, snd u + snd o).

(* x is the cost of a path through the mask from a masked seed to v *)
Inductive reach : Z * Z -> float -> Prop :=
| reach_seed : forall s, inr m n s -> 0 < labv s -> maskv s -> reach s PrimFloat.zero
| reach_step : forall u v x, reach u x -> adj8 u v -> inr m n v -> maskv v ->
                             reach v (PrimFloat.add (stepF u v) x).

Definition good (v : Z * Z) (x : float) : Prop :=
  x = neg_one \/ (x = PrimFloat.zero /\ 0 < labv v) \/ reach v x.

Definition pixel_of (r : row) : Z * Z := (nth 3 r 0, nth 4 r 0).
Definition row_ok (dist : list (list float)) (r : row) : Prop :=
  inr m n (pixel_of r) /\ reach (pixel_of r) (get2 PrimFloat.zero dist (fst (pixel_of r)) (snd (pixel_of r))).

Definition Inv (dist : list (list float)) (hp : heap) : Prop :=
  shape dist m n /\
  (forall v, inr m n v -> good v (get2 PrimFloat.zero dist (fst v) (snd v))) /\
  Forall (row_ok dist) (rows hp).

Lemma relax_inv : forall lab label i1 j1 d0 o acc,
  In o offsets8 -> inr m n (i1, j1) -> reach (i1, j1) d0 -> Inv (fst acc) (snd acc) ->
  Inv (fst (relax key image mask m n weight lab label i1 j1 d0 acc o))
      (snd (relax key image mask m n weight lab label i1 j1 d0 acc o)).
Proof.
  intros lab label i1 j1 d0 o [dist hp] Ho Hin1 Hr1 HI. unfold relax. cbn [fst snd].
  set (i2 := i1 + fst o). set (j2 := j1 + snd o).
  destruct ((i2 <? 0) || (i2 >=? m) || (j2 <? 0) || (j2 >=? n)) eqn:Hb; [exact HI|].
  destruct (0 <? get2 0 lab i2 j2); [exact HI|].
  destruct (get2 false mask i2 j2) eqn:Hm; cbn [negb]; [|exact HI].
  set (d := PrimFloat.add (step_cost image i1 j1 i2 j2 m n weight) d0).
  destruct (PrimFloat.eqb (get2 PrimFloat.zero dist i2 j2) neg_one || PrimFloat.ltb d (get2 PrimFloat.zero dist i2 j2));
    [|exact HI].
  cbn [fst snd].
  assert (Hin2 : inr m n (i2, j2)) by (unfold inr; cbn [fst snd]; lia).
  assert (Hr2 : reach (i2, j2) d).
  { apply (reach_step (i1, j1) (i2, j2) d0 Hr1); [|exact Hin2|exact Hm].
    exists o. split; [exact Ho | reflexivity]. }
  destruct HI as [Hs [HD HH]].
  assert (Hrows : forall r, row_ok dist r -> row_ok (set2 dist i2 j2 d) r).
  { intros r [Hri Hrr]. split; [exact Hri|].
    destruct (pixel_of r) as [a b] eqn:Hp. cbn [fst snd] in *.
    destruct (Z.eq_dec a i2) as [->|Na].
    - destruct (Z.eq_dec b j2) as [->|Nb].
      + rewrite (get2_set2_same m n) by assumption. exact Hr2.
      + rewrite (get2_set2_other m n) by (try assumption; congruence). exact Hrr.
    - rewrite (get2_set2_other m n) by (try assumption; congruence). exact Hrr. }
  split; [apply set2_shape; [exact Hs | destruct Hin2; assumption]|]. split.
  - intros [a b] Hv. cbn [fst snd].
    destruct (Z.eq_dec a i2) as [->|Na].
    + destruct (Z.eq_dec b j2) as [->|Nb].
      * rewrite (get2_set2_same m n) by assumption. right. right. exact Hr2.
      * rewrite (get2_set2_other m n) by (try assumption; congruence). exact (HD (i2, b) Hv).
    + rewrite (get2_set2_other m n) by (try assumption; congruence). exact (HD (a, b) Hv).
  - eapply Permutation_Forall; [apply Permutation_sym; apply heap_multiset_push|].
    constructor.
    + split; [exact Hin2|]. unfold pixel_of. cbn [nth fst snd].
      rewrite (get2_set2_same m n) by assumption. exact Hr2.
    + apply Forall_forall. intros r Hr. apply Hrows. exact (proj1 (Forall_forall _ _) HH r Hr).
Qed.

Lemma relax_fold_inv : forall lab label i1 j1 d0 offs acc,
  incl offs offsets8 -> inr m n (i1, j1) -> reach (i1, j1) d0 -> Inv (fst acc) (snd acc) ->
  Inv (fst (fold_left (relax key image mask m n weight lab label i1 j1 d0) offs acc))
      (snd (fold_left (relax key image mask m n weight lab label i1 j1 d0) offs acc)).
Proof.
  intros lab label i1 j1 d0 offs. induction offs as [|o r IH]; intros acc Hi Hin Hr HI; cbn [fold_left].
  - exact HI.
  - apply IH; [intros x Hx; apply Hi; right; exact Hx | exact Hin | exact Hr|].
    apply relax_inv; [apply Hi; left; reflexivity | exact Hin | exact Hr | exact HI].
Qed.

Lemma loop_inv : forall fuel st st', Inv (s_dist st) (s_hp st) ->
  loop key image mask m n weight fuel st = (st', true) -> Inv (s_dist st') (s_hp st').
Proof.
  induction fuel as [|f IH]; intros st st' HI HL; cbn [loop] in HL; [discriminate|].
  destruct (rows (s_hp st)) as [|r0 rest] eqn:Hrows.
  - inversion HL. subst st'. exact HI.
  - assert (Hne : rows (s_hp st) <> []) by (rewrite Hrows; discriminate).
    pose proof (heap_multiset_pop (s_hp st) Hne) as HP.
    destruct (heappop (s_hp st)) as [e hp1] eqn:Hpop. cbn [fst snd] in HP.
    destruct HI as [Hs [HD HH]].
    assert (HF : Forall (row_ok (s_dist st)) (e :: rows hp1)) by (eapply Permutation_Forall; eassumption).
    inversion HF as [|? ? He Hrest]. subst.
    destruct (get2 0 (s_lab st) (nth 3 e 0) (nth 4 e 0) =? 0).
    + set (lab1 := set2 (s_lab st) (nth 3 e 0) (nth 4 e 0) (nth 2 e 0)) in *.
      set (d0 := get2 PrimFloat.zero (s_dist st) (nth 3 e 0) (nth 4 e 0)) in *.
      destruct He as [Hein Her]. unfold pixel_of in Hein, Her. cbn [fst snd] in Her.
      pose proof (relax_fold_inv lab1 (nth 2 e 0) (nth 3 e 0) (nth 4 e 0) d0 offsets8 (s_dist st, hp1)
                                 (incl_refl _) Hein Her) as HF2.
      cbn [fst snd] in HF2. specialize (HF2 (conj Hs (conj HD Hrest))).
      destruct (fold_left (relax key image mask m n weight lab1 (nth 2 e 0) (nth 3 e 0) (nth 4 e 0) d0) offsets8
                          (s_dist st, hp1)) as [dist1 hp2] eqn:Hfold.
      cbn [fst snd] in HF2. exact (IH (mkst lab1 dist1 hp2) st' HF2 HL).
    + exact (IH (mkst (s_lab st) (s_dist st) hp1) st' (conj Hs (conj HD Hrest)) HL).
Qed.

Theorem dijkstra_sound_sec : forall lo d,
  shape labels m n -> (forall v, inr m n v -> 0 <= labv v) ->
  propagate key image labels mask m n weight = Some (lo, d) ->
  forall v, inr m n v -> good v (get2 PrimFloat.zero d (fst v) (snd v)).
Proof.
  intros lo d Hsh Hnn HP v Hv. unfold propagate in HP.
  match type of HP with context [loop _ _ _ _ _ _ ?fuel ?st0] =>
    destruct (loop key image mask m n weight fuel st0) as [st ok] eqn:HL; set (S0 := st0) in * end.
  destruct ok; [|discriminate]. inversion HP. subst lo d. clear HP.
  assert (HI0 : Inv (s_dist S0) (s_hp S0)).
  { unfold S0. cbn [s_dist s_hp]. split; [apply map2_shape; exact Hsh|]. split.
    - intros [a b] Hab. cbn [fst snd]. rewrite (get2_map2 m n _ _ _ labels a b 0) by assumption.
      destruct (0 <? get2 0 labels a b) eqn:E.
      + right. left. split; [reflexivity | unfold labv; cbn [fst snd]; lia].
      + left. reflexivity.
    - unfold heap_from_rows. cbn [rows]. apply Forall_forall. intros r Hr.
      apply in_flat_map in Hr. destruct Hr as [[a b] [Hc Hr]]. cbn [fst snd] in Hr.
      apply coords_In in Hc.
      destruct (negb (get2 0 labels a b =? 0) && get2 false mask a b) eqn:E; [|destruct Hr].
      destruct Hr as [<-|[]]. apply andb_prop in E. destruct E as [E1 E2].
      assert (Hab : inr m n (a, b)) by (unfold inr; cbn [fst snd]; lia).
      split; [exact Hab|]. unfold pixel_of. cbn [nth fst snd].
      rewrite (get2_map2 m n _ _ _ labels a b 0) by assumption.
      pose proof (Hnn (a, b) Hab) as H0. unfold labv in H0. cbn [fst snd] in H0.
      assert (Hpos : 0 < get2 0 labels a b) by lia.
      assert (E3 : (0 <? get2 0 labels a b) = true) by lia. rewrite E3.
      apply reach_seed; [exact Hab | exact Hpos | exact E2]. }
  destruct (loop_inv _ _ _ HI0 HL) as [_ [HD _]]. apply HD. exact Hv.
Qed.
End Loop.

Theorem dijkstra_sound : forall key image labels mask m n weight lo d,
  shape labels m n -> (forall v, inr m n v -> 0 <= labv labels v) ->
  propagate key image labels mask m n weight = Some (lo, d) ->
  forall v, inr m n v -> good image mask m n weight labels v (get2 PrimFloat.zero d (fst v) (snd v)).
Proof. intros. eapply dijkstra_sound_sec; eassumption. Qed.

(* hypotheses satisfiable: a 1x2 image, one seed, the non-seed pixel is reached by a real path *)
Example dijkstra_example :
  let image := map (map float_of_bits) [[0; 4607182418800017408]] in
  shape [[1; 0]] 1 2 /\ (forall v, inr 1 2 v -> 0 <= labv [[1; 0]] v) /\
  exists lo d, propagate Dropped image [[1; 0]] [[true; true]] 1 2 PrimFloat.one = Some (lo, d) /\
               lo = [[1; 1]] /\ map (map bits_of_float) d = [[0; 4614303235046005587]].
Proof.
  cbn zeta. split; [split; [reflexivity | repeat constructor]|]. split.
  - intros [a b] [Ha Hb]. cbn [fst snd] in *. unfold labv, get2. cbn [fst snd].
    assert (a = 0) by lia. subst a. assert (b = 0 \/ b = 1) by lia. destruct H as [->| ->]; [change (0 <= 1) | change (0 <= 0)]; lia.
  - eexists. eexists. split; [vm_compute; reflexivity|]. split; vm_compute; reflexivity.
Qed.
