(* C02 / C19 — where the kernel writes.  The output of a label is written in place at rows
   outidx .. ; the label's own input ends at row pixidx = outidx + slack + nv.  Every row written
   by the two EMIT loops lies strictly before pixidx; the single write after the loops
   (need_last_upper_point) lies at most AT pixidx.  Also: the EMIT stack can hold a point twice. *)
From Coq Require Import ZArith List Bool Lia ZifyBool FinFun.
From Centro Require Import Base.Sx Model.Hull Proofs.HullEmit Proofs.HullCorrect.
Import ListNotations.
Open Scope Z_scope.

Lemma prune_length (st : list pt) p : (length (prune st p) <= length st)%nat.
Proof.
  induction st as [|b rest IH]; [cbn; lia|]. destruct rest as [|a r]; [cbn; lia|].
  replace (prune (b :: a :: r) p) with (if CONVEX a b p then b :: a :: r else prune (a :: r) p) by reflexivity.
  destruct (CONVEX a b p); cbn [length] in *; lia.
Qed.

(* ---------------------------------------------------------------- first loop *)
Lemma lower_fold_len m lower : forall cols st,
  (length (fold_left (lower_emit m lower) cols st) <= length st + length (filter (fun c => (lower c <? m + 1)%Z) cols))%nat.
Proof.
  induction cols as [|c cols IH]; intros st; cbn [fold_left filter]; [lia|].
  specialize (IH (lower_emit m lower st c)). unfold lower_emit in *.
  destruct (lower c <? m + 1); cbn [length] in *; [|lia].
  pose proof (prune_length st (lower c, c)). lia.
Qed.

Lemma nonempty_cols_le m pts cols : NoDup cols ->
  (length (filter (fun c => (build_lower m pts c <? m + 1)%Z) cols) <= length pts)%nat.
Proof.
  intros ND. set (ne := filter (fun c => build_lower m pts c <? m + 1) cols).
  rewrite <- (map_length (fun c => (build_lower m pts c, c)) ne).
  apply NoDup_incl_length.
  - apply (NoDup_map_inv snd). rewrite map_map. cbn [snd]. rewrite map_id. apply NoDup_filter. exact ND.
  - intros p Hp. apply in_map_iff in Hp. destruct Hp as [c [E Hc]]. subst p.
    apply filter_In in Hc. destruct Hc as [_ Hc].
    destruct (build_lower_in m pts c) as [B|B]; [lia | exact B].
Qed.

Lemma cols_up_NoDup s e : NoDup (cols_up s e).
Proof.
  unfold cols_up. apply Injective_map_NoDup; [|apply seq_NoDup].
  intros x y H. lia.
Qed.

(* every stack of the first loop (the loop over any duplicate-free list of columns, in particular over
   every prefix of range(start_j, end_j+1)) holds at most nv rows: its writes land at rows
   < outidx + nv <= pixidx *)
Theorem lower_loop_within : forall m pts cols, NoDup cols ->
  zlen (fold_left (lower_emit m (build_lower m pts)) cols []) <= zlen pts.
Proof.
  intros m pts cols ND. unfold zlen.
  pose proof (lower_fold_len m (build_lower m pts) cols []). pose proof (nonempty_cols_le m pts cols ND).
  cbn [length] in *. lia.
Qed.

(* ---------------------------------------------------------------- second loop: the guard *)
Theorem upper_loop_within : forall upper cap cols st,
  zlen (fold_left (upper_emit upper cap) cols st) <= Z.max (zlen st) cap.
Proof.
  intros upper cap. induction cols as [|c cols IH]; intros st; cbn [fold_left]; [lia|].
  specialize (IH (upper_emit upper cap st c)).
  assert (zlen (upper_emit upper cap st c) <= Z.max (zlen st) cap); [|lia].
  unfold upper_emit. destruct (-1 <? upper c); [|lia].
  pose proof (prune_length st (upper c, c)) as P. unfold zlen in *.
  destruct (Z.of_nat (length (prune st (upper c, c))) <? cap) eqn:E; cbn [length]; lia.
Qed.

(* ---------------------------------------------------------------- the label *)
(* no_overflow, partial: the label's output never outgrows its own rows by more than the ONE row of
   the final, unguarded write.  Missing lemma final_write_strict: when need_last_upper_point holds
   (two different pixels in column start_j) the stack after the final prune is shorter than cap. *)
Lemma final_bound (st1 st2 st3 : list pt) (nv cap slack : Z) (x : pt) (b : bool) :
  zlen st1 <= nv -> zlen st2 <= Z.max (zlen st1) cap -> (length st3 <= length st2)%nat ->
  cap = slack + nv -> 0 <= slack -> zlen (rev (if b then x :: st3 else st3)) <= slack + nv + 1.
Proof. unfold zlen. intros. rewrite rev_length. destruct b; cbn [length]; lia. Qed.

Theorem no_overflow_partial : forall m pts slack, 0 <= slack ->
  zlen (hull_label m pts slack) <= slack + zlen pts + 1.
Proof.
  intros m pts slack Hs. destruct pts as [|p0 rest]; [cbn; unfold zlen; cbn; lia|].
  unfold hull_label. cbv zeta.
  eapply final_bound; [| | | reflexivity | exact Hs].
  - apply lower_loop_within. apply cols_up_NoDup.
  - apply upper_loop_within.
  - apply prune_length.
Qed.

(* ---------------------------------------------------------------- stack_nodup is false *)
(* the EMIT stack of the second loop CAN hold a point twice when there is slack (the code's own
   comment: "The last point can get temporarily pushed on the list twice"); with slack 0 the guard
   blocks exactly this push *)
Definition stack2 (m : Z) (pts : list pt) (slack : Z) : list pt :=
  match pts with
  | [] => []
  | p0 :: _ =>
      let st1 := fold_left (lower_emit m (build_lower m pts)) (cols_up (snd p0) (snd (last pts p0))) [] in
      fold_left (upper_emit (build_upper pts) (slack + zlen pts)) (rev (cols_up (snd p0 + 1) (snd (last pts p0)))) st1
  end.
Theorem stack_nodup_refuted : exists m pts slack, label_ok m pts /\ 0 <= slack /\ ~ NoDup (stack2 m pts slack)
  /\ NoDup (stack2 m pts 0) /\ hull_label m pts slack = hull_label m pts 0.
Proof.
  exists 1, [(1,0);(0,1);(1,2)], 1. split.
  - split; [intros s H; cbn in H; repeat (destruct H as [H|H]; [subst s; cbn; lia|]); contradiction|].
    repeat constructor; cbn; lia.
  - split; [lia|]. split; [|split; [|vm_compute; reflexivity]].
    + assert (E : stack2 1 [(1,0);(0,1);(1,2)] 1 = [(0,1);(1,2);(0,1);(1,0)]) by (vm_compute; reflexivity).
      rewrite E. intros ND. inversion ND as [|x l Hn _]. apply Hn. cbn. tauto.
    + assert (E : stack2 1 [(1,0);(0,1);(1,2)] 0 = [(1,2);(0,1);(1,0)]) by (vm_compute; reflexivity).
      rewrite E. repeat constructor; cbn; intuition discriminate.
Qed.

Example no_overflow_partial_ex :
  zlen (hull_label 2 [(0,0);(1,0);(2,0);(0,1);(2,1);(0,2);(1,2);(2,2)] 0) = 4 /\
  zlen (fold_left (lower_emit 2 (build_lower 2 [(0,0);(2,0);(1,1)])) (cols_up 0 1) []) = 2.
Proof. vm_compute. split; reflexivity. Qed.
