(* C05 - clause-by-clause corollaries of the property text:
   "only remove foreground pixels" ([*_subset]), "the Euler number of every object is preserved"
   ([*_object_topo]: TopoEq per object, for every operation), and "binary_shrink reduces every
   hole-free object to a single pixel" for an object of ANY image ([shrink_object_to_point]: the
   other objects may have holes, may lie in holes of other objects, ...). *)
From Coq Require Import ZArith NArith List Bool Lia.
From Centro Require Import Base.Topo Base.Skel Base.TopoPar Base.TopoSweep Base.TopoGrid Gen.TablesC05.
From Centro Require Import Model.ThinSkel Spec.TopoCheck Proofs.ThinSkelTopo Proofs.ThinSkelIdem Proofs.TopoCounts
  Proofs.TopoSwShrinkEnd Proofs.ShrinkPoint Proofs.LabelsIndep Proofs.EndPixel Proofs.TopoCheckPoints Proofs.TopoRestrict.
Import ListNotations.
Open Scope Z_scope.

(* ---- only foreground pixels are removed ---- *)
Theorem thin_subset : forall H W iters g p, wf H W g -> img_of (thin_model H W iters g) p = true -> img_of g p = true.
Proof. intros H W iters g p Hg. apply (te_sub _ _ (thin_model_topo H W iters g Hg)). Qed.
Theorem shrink_subset : forall H W k g p, wf H W g -> img_of (shrink_model H W k g) p = true -> img_of g p = true.
Proof. intros H W k g p Hg. apply (te_sub _ _ (shrink_model_topo H W k g Hg)). Qed.
Theorem skeletonize_subset : forall H W ordering g p, wf H W g ->
  img_of (skeletonize_ord H W ordering g) p = true -> img_of g p = true.
Proof. intros H W o g p Hg. apply (te_sub _ _ (skeletonize_ord_topo H W o g Hg)). Qed.

(* ---- per object ---- *)
Theorem thin_object_topo : forall H W iters g C, wf H W g -> comps_closed (img_of g) C ->
  TopoEq C (restr C (img_of (thin_model H W iters g))).
Proof. intros H W iters g C Hg CC. apply (TopoEq_restrict _ _ C (thin_model_topo H W iters g Hg) CC). Qed.
Theorem shrink_object_topo : forall H W k g C, wf H W g -> comps_closed (img_of g) C ->
  TopoEq C (restr C (img_of (shrink_model H W k g))).
Proof. intros H W k g C Hg CC. apply (TopoEq_restrict _ _ C (shrink_model_topo H W k g Hg) CC). Qed.
Theorem skeletonize_object_topo : forall H W ordering g C, wf H W g -> comps_closed (img_of g) C ->
  TopoEq C (restr C (img_of (skeletonize_ord H W ordering g))).
Proof. intros H W o g C Hg CC. apply (TopoEq_restrict _ _ C (skeletonize_ord_topo H W o g Hg) CC). Qed.

Lemma pat_restr X R C e : (forall q, R q = true -> X q = true) -> comps_closed X C -> C e = true ->
  pat (restr C R) e = pat R e.
Proof.
  intros Sub CC Ce. unfold pat. apply map_ext_in. intros b Hb. apply in_seq in Hb. unfold restr.
  destruct (R (nb e b)) eqn:V; [|apply andb_false_r]. rewrite andb_true_r.
  destruct (Nat.eq_dec b 4) as [->|N4]; [rewrite nb_center; exact Ce|].
  apply (near _ _ CC e (nb e b) Ce); [apply adj8_nb; lia|apply Sub; exact V].
Qed.

Theorem shrink_object_to_point : forall H W g C, wf H W g -> comps_closed (img_of g) C ->
  connected C -> hole_free C -> (exists a, C a = true) ->
  exists q, forall p, restr C (img_of (shrink_model H W (-1) g)) p = true <-> p = q.
Proof.
  intros H W g C Hg CC HC HH [a Ca].
  set (r := shrink_model H W (-1) g).
  pose proof (shrink_model_topo H W (-1) g Hg) as T. fold r in T.
  assert (Wr : wf H W r) by (unfold r, shrink_model; apply cycle_loop_topo; [apply shrink_tables_admissible|exact Hg]).
  pose proof (shrink_converged H W g Hg) as S. fold r in S.
  pose proof (TopoEq_restrict _ _ C T CC) as TR.
  set (C' := restr C (img_of r)) in *.
  assert (NoEnd : forall e, C' e = true -> endp C' e = false).
  { intros e Ve. unfold C', restr in Ve. apply andb_true_iff in Ve as [Ce Re]. unfold endp, C'.
    rewrite (pat_restr (img_of g) (img_of r) C e (te_sub _ _ T) CC Ce). apply (shrink_stable_no_end H W r Wr S e Re). }
  destruct (te_fg_surj _ _ TR a Ca) as [q [Vq _]]. exists q. intros p. split; [|intros ->; exact Vq].
  intros Vp. destruct (px_eqb_spec p q) as [E|N]; [exact E|]. exfalso.
  pose proof (TopoEq_connected _ _ TR HC p q Vp Vq) as P.
  destruct (end_pixel_fin (length (raster H W)) C' (raster H W) (le_n _)) with (x := p) (q := p) as [e [Ve [Ee _]]].
  - intros x Vx. unfold C', restr in Vx. apply andb_true_iff in Vx as [_ Vx]. apply (fin_raster H W r Wr x Vx).
  - exact (TopoEq_hole_free _ _ TR HH).
  - exact Vp.
  - exact (has_nbr_of_path _ p q P N).
  - rewrite (NoEnd e Ve) in Ee. discriminate.
Qed.

(* every sweep only removes, and removes nothing exactly when the pixel count stays the same: the
   break test `len(index_i) == pixel_count` of the code detects convergence exactly *)
Theorem passes_monotone : forall H W ks g, wf H W g ->
  (count (run_passes H W ks g) <= count g)%nat /\ (count (run_passes H W ks g) = count g -> run_passes H W ks g = g).
Proof. intros H W ks g Hg. apply run_passes_le. exact Hg. Qed.

(* the whole image is a union of its own components; so is every 8-component *)
Lemma comps_closed_self X : comps_closed X X.
Proof. split; [auto|]. intros a b _ P. exact (path_end _ _ _ _ P). Qed.
Lemma comps_closed_component X x : X x = true -> forall C : img,
  (forall q, C q = true <-> conn8 X x q) -> comps_closed X C.
Proof.
  intros Xx C HCq. split.
  - intros q Cq. apply HCq in Cq. exact (path_end _ _ _ _ Cq).
  - intros a b Ca P. apply HCq. apply HCq in Ca. eapply path_trans; eassumption.
Qed.
Example object_premises : comps_closed (img_of [[true; true]]) (img_of [[true; true]]).
Proof. apply comps_closed_self. Qed.

Theorem skeletonize_loop_subset : forall H W order g p, wf H W g -> NoDup order ->
  (forall q, In q order -> img_of g q = true) ->
  img_of (skel_loop_grid H W order g) p = true -> img_of g p = true.
Proof. intros H W order g p Hg ND Hf. apply (te_sub _ _ (skel_loop_grid_topo H W order g Hg ND Hf)). Qed.

(* Euler number = (number of 8-components) - (number of holes) = |fg reps| - (|bg reps| - 1): preserved *)
Theorem euler_preserved : forall X X' l m', TopoEq X X' ->
  comp_reps adj8 (fg X) l -> comp_reps adj4 (bg X') m' ->
  exists l' m, comp_reps adj8 (fg X') l' /\ comp_reps adj4 (bg X) m /\
    length l' = length l /\ length m = length m' /\
    Z.of_nat (length l) - (Z.of_nat (length m) - 1) = Z.of_nat (length l') - (Z.of_nat (length m') - 1).
Proof.
  intros X X' l m' T Rl Rm.
  destruct (topo_counts_fg X X' T l Rl) as [l' [L1 [R1 _]]].
  destruct (topo_counts_bg X X' T m' Rm) as [m [L2 [R2 _]]].
  exists l', m. repeat split; try assumption; try (apply R1); try (apply R2). lia.
Qed.
