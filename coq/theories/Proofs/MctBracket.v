(* C11 — S5 for the maximum-correlation threshold, for the executable model Model.MctZ and ALL inputs:
   non-constant data and bins >= 2  ==>  min <= threshold <= max.
   Upper side: the arg-max is a level < number of levels = bins.  Lower side: the arg-max is not level 0 —
   its squared score is 0 (the tail of level 0 is everything, so the denominator vanishes), while the top level
   bins-1 has a positive score: its tail is the c copies of the top bin (0 < c < nm), whose deviation from
   the mean bin is positive. *)
From Coq Require Import ZArith QArith List Bool Lia.
From Centro Require Import Base.Sx Base.ThresholdNum Model.OtsuQ Model.RidlerQ Model.MctZ Proofs.ThresholdBracket.
Import ListNotations.
Open Scope Z_scope.

(* ---------------------------------------------------------------- min / max of a list *)
Lemma zmax_l_ge_d l : forall d, d <= zmax_l d l.
Proof. unfold zmax_l. induction l as [|x l IH]; intros d; cbn; [lia|]. specialize (IH (Z.max d x)). lia. Qed.
Lemma zmax_l_ge l : forall d x, In x l -> x <= zmax_l d l.
Proof.
  unfold zmax_l. induction l as [|y l IH]; intros d x H; [destruct H|]. destruct H as [H|H]; cbn.
  - subst. pose proof (zmax_l_ge_d l (Z.max d x)). unfold zmax_l in *. lia.
  - apply IH. exact H.
Qed.
Lemma zmax_l_le l : forall d B, d <= B -> (forall x, In x l -> x <= B) -> zmax_l d l <= B.
Proof.
  unfold zmax_l. induction l as [|y l IH]; intros d B Hd H; cbn; [exact Hd|].
  apply IH; [pose proof (H y (or_introl eq_refl)); lia|intros x Hx; apply H; right; exact Hx].
Qed.
Lemma zmax_l_in l : forall d, zmax_l d l = d \/ In (zmax_l d l) l.
Proof.
  unfold zmax_l. induction l as [|y l IH]; intros d; cbn; [left; reflexivity|].
  destruct (IH (Z.max d y)) as [E|E]; [|right; right; exact E].
  rewrite E. destruct (Z.max_spec d y) as [[_ M]|[_ M]]; rewrite M; [right; left; reflexivity|left; reflexivity].
Qed.
Lemma zmin_l_le_d l : forall d, zmin_l d l <= d.
Proof. unfold zmin_l. induction l as [|x l IH]; intros d; cbn; [lia|]. specialize (IH (Z.min d x)). lia. Qed.
Lemma zmin_l_le l : forall d x, In x l -> zmin_l d l <= x.
Proof.
  unfold zmin_l. induction l as [|y l IH]; intros d x H; [destruct H|]. destruct H as [H|H]; cbn.
  - subst. pose proof (zmin_l_le_d l (Z.min d x)). unfold zmin_l in *. lia.
  - apply IH. exact H.
Qed.
Lemma zmin_l_in l : forall d, zmin_l d l = d \/ In (zmin_l d l) l.
Proof.
  unfold zmin_l. induction l as [|y l IH]; intros d; cbn; [left; reflexivity|].
  destruct (IH (Z.min d y)) as [E|E]; [|right; right; exact E].
  rewrite E. destruct (Z.min_spec d y) as [[_ M]|[_ M]]; rewrite M; [left; reflexivity|right; left; reflexivity].
Qed.

(* ---------------------------------------------------------------- sums *)
Lemma zsum_le_bound l M : (forall x, In x l -> x <= M) -> zsum l <= M * Z.of_nat (length l).
Proof.
  induction l as [|y l IH]; intros H; cbn [zsum fold_right length]; [lia|].
  fold (zsum l). rewrite Nat2Z.inj_succ.
  pose proof (H y (or_introl eq_refl)). pose proof (IH (fun x Hx => H x (or_intror Hx))). nia.
Qed.
Lemma zsum_lt_bound l M z : In z l -> z < M -> (forall x, In x l -> x <= M) -> zsum l < M * Z.of_nat (length l).
Proof.
  induction l as [|y l IH]; intros Hin Hz H; [destruct Hin|].
  cbn [zsum fold_right length]. fold (zsum l). rewrite Nat2Z.inj_succ.
  pose proof (H y (or_introl eq_refl)) as Hy.
  destruct Hin as [E|Hin].
  - subst y. pose proof (zsum_le_bound l M (fun x Hx => H x (or_intror Hx))). nia.
  - pose proof (IH Hin Hz (fun x Hx => H x (or_intror Hx))). nia.
Qed.
Lemma zsum_nonneg l : (forall x, In x l -> 0 <= x) -> 0 <= zsum l.
Proof.
  induction l as [|y l IH]; intros H; cbn [zsum fold_right]; [lia|]. fold (zsum l).
  pose proof (H y (or_introl eq_refl)). pose proof (IH (fun x Hx => H x (or_intror Hx))). lia.
Qed.
Lemma zsum_pos l z : In z l -> 0 < z -> (forall x, In x l -> 0 <= x) -> 0 < zsum l.
Proof.
  induction l as [|y l IH]; intros Hin Hz H; [destruct Hin|]. cbn [zsum fold_right]. fold (zsum l).
  pose proof (H y (or_introl eq_refl)).
  pose proof (zsum_nonneg l (fun x Hx => H x (or_intror Hx))).
  destruct Hin as [E|Hin]; [subst; lia|].
  pose proof (IH Hin Hz (fun x Hx => H x (or_intror Hx))). lia.
Qed.
Lemma zsum_const l c : (forall x, In x l -> x = c) -> zsum l = c * Z.of_nat (length l).
Proof.
  induction l as [|y l IH]; intros H; cbn [zsum fold_right length]; [lia|]. fold (zsum l).
  rewrite Nat2Z.inj_succ, (H y (or_introl eq_refl)), (IH (fun x Hx => H x (or_intror Hx))). lia.
Qed.

(* ---------------------------------------------------------------- arg-max *)
Lemma argmax_keep best bi i l : (1 <= bi)%nat -> (1 <= i)%nat -> (1 <= argmax_first best bi i l)%nat.
Proof.
  revert best bi i. induction l as [|x l IH]; intros best bi i Hb Hi; cbn; [exact Hb|].
  destruct (score_lt best x); apply IH; lia.
Qed.
Lemma argmax_ge1 best i l : (1 <= i)%nat -> (exists x, In x l /\ score_lt best x = true) ->
  (1 <= argmax_first best 0 i l)%nat.
Proof.
  revert i. induction l as [|x l IH]; intros i Hi [w [Hin Hw]]; [destruct Hin|]. cbn.
  destruct (score_lt best x) eqn:E.
  - apply argmax_keep; lia.
  - apply IH; [lia|]. destruct Hin as [E1|Hin]; [subst; congruence|]. exists w. split; assumption.
Qed.
Lemma argmax_bound l : forall best bi i, (bi < i)%nat -> (argmax_first best bi i l < i + length l)%nat.
Proof.
  induction l as [|x l IH]; intros best bi i H; cbn; [lia|].
  destruct (score_lt best x); [specialize (IH x i (S i))|specialize (IH best bi (S i))]; lia.
Qed.

Lemma in_zseq n : forall s x, s <= x < s + Z.of_nat n -> In x (zseq s n).
Proof.
  induction n as [|n IH]; intros s x H; [lia|]. cbn. destruct (Z.eq_dec s x) as [E|E]; [left; exact E|].
  right. apply IH. lia.
Qed.
Lemma zseq_length n : forall s, length (zseq s n) = n.
Proof. induction n; intros s; cbn; [reflexivity|]. rewrite IHn. reflexivity. Qed.

Lemma filter_all {X} (f : X -> bool) l : (forall x, In x l -> f x = true) -> filter f l = l.
Proof.
  induction l as [|y l IH]; intros H; cbn; [reflexivity|].
  rewrite (H y (or_introl eq_refl)), IH; [reflexivity|]. intros x Hx. apply H. right. exact Hx.
Qed.

Lemma filter_len_le {X} (f : X -> bool) l : (length (filter f l) <= length l)%nat.
Proof. induction l as [|y l IH]; cbn; [lia|]. destruct (f y); cbn; lia. Qed.

(* ---------------------------------------------------------------- the model *)
Section Mct.
  Variables (data : list Z) (bins : Z).
  Variable x0 : Z.
  Hypothesis data_eq : exists r, data = x0 :: r.
  Let mn := zmin_l x0 data.
  Let mx := zmax_l x0 data.
  Hypothesis nonconst : mn < mx.
  Hypothesis bins2 : 2 <= bins.
  Let binned := map (mbin mn mx bins) data.
  Let nm := Z.of_nat (length data).
  Let S1 := zsum binned.
  Let top := bins - 1.

  Lemma mn_in : In mn data.
  Proof.
    destruct data_eq as [r E]. unfold mn. destruct (zmin_l_in data x0) as [H|H]; [|exact H].
    rewrite H, E. left. reflexivity.
  Qed.
  Lemma mx_in : In mx data.
  Proof.
    destruct data_eq as [r E]. unfold mx. destruct (zmax_l_in data x0) as [H|H]; [|exact H].
    rewrite H, E. left. reflexivity.
  Qed.
  Lemma data_range x : In x data -> mn <= x <= mx.
  Proof. intros H. split; [apply zmin_l_le|apply zmax_l_ge]; exact H. Qed.

  Lemma mbin_range x : mn <= x <= mx -> 0 <= mbin mn mx bins x <= top.
  Proof.
    intros H. unfold mbin, top. split.
    - apply Z.div_pos; nia.
    - apply Z.div_le_upper_bound; nia.
  Qed.
  Lemma mbin_mn : mbin mn mx bins mn = 0.
  Proof. unfold mbin. replace (mn - mn) with 0 by lia. reflexivity. Qed.
  Lemma mbin_mx : mbin mn mx bins mx = top.
  Proof. unfold mbin, top. rewrite Z.mul_comm. apply Z.div_mul. lia. Qed.

  Lemma binned_range b : In b binned -> 0 <= b <= top.
  Proof.
    unfold binned. intros H. apply in_map_iff in H. destruct H as [x [E Hx]]. subst b.
    apply mbin_range. apply data_range. exact Hx.
  Qed.
  Lemma zero_in : In 0 binned.
  Proof. unfold binned. rewrite <- mbin_mn. apply in_map. exact mn_in. Qed.
  Lemma top_in : In top binned.
  Proof. unfold binned. rewrite <- mbin_mx. apply in_map. exact mx_in. Qed.
  Lemma nb_eq : zmax_l 0 binned + 1 = bins.
  Proof.
    assert (zmax_l 0 binned = top); [|unfold top in *; lia].
    apply Z.le_antisymm.
    - apply zmax_l_le; [unfold top; lia|]. intros b Hb. apply binned_range. exact Hb.
    - apply zmax_l_ge. exact top_in.
  Qed.
  Lemma binned_len : Z.of_nat (length binned) = nm.
  Proof. unfold binned, nm. rewrite map_length. reflexivity. Qed.

  (* level 0: the tail is everything *)
  Lemma tail0 : tail 0 binned = binned.
  Proof.
    unfold tail. apply filter_all. intros b Hb.
    apply Z.leb_le. apply binned_range. exact Hb.
  Qed.
  Lemma score0 SS : score nm S1 SS binned 0 = (0, 1).
  Proof.
    unfold score, tailC. rewrite tail0, binned_len. replace (SS * (nm - nm) * nm) with 0 by lia. reflexivity.
  Qed.

  (* top level *)
  Lemma tail_top_all b : In b (tail top binned) -> b = top.
  Proof.
    unfold tail. intros H. apply filter_In in H. destruct H as [Hb Hl]. apply Z.leb_le in Hl.
    pose proof (binned_range b Hb). lia.
  Qed.
  Let c := tailC binned top.
  Lemma c_pos : 0 < c.
  Proof.
    unfold c, tailC. assert (In top (tail top binned)).
    { unfold tail. apply filter_In. split; [exact top_in|apply Z.leb_le; lia]. }
    destruct (tail top binned); [destruct H|]. cbn [length]. lia.
  Qed.
  Lemma filter_length_lt {X} (f : X -> bool) (l : list X) z :
    In z l -> f z = false -> (length (filter f l) < length l)%nat.
  Proof.
    induction l as [|y l IH]; intros Hin Hz; [destruct Hin|]. cbn.
    pose proof (filter_len_le f l).
    destruct Hin as [E|Hin].
    - subst. rewrite Hz. lia.
    - specialize (IH Hin Hz). destruct (f y); cbn; lia.
  Qed.
  Lemma c_lt : c < nm.
  Proof.
    unfold c, tailC, tail. rewrite <- binned_len. apply Nat2Z.inj_lt.
    apply (filter_length_lt _ binned 0); [exact zero_in|]. apply Z.leb_gt. unfold top. lia.
  Qed.
  Lemma nm_pos : 0 < nm.
  Proof. pose proof c_pos. pose proof c_lt. lia. Qed.
  Lemma dev_top_pos : 0 < dev nm S1 top.
  Proof.
    unfold dev, S1. rewrite <- binned_len.
    assert (zsum binned < top * Z.of_nat (length binned)); [|lia].
    apply (zsum_lt_bound binned top 0); [exact zero_in|unfold top; lia|].
    intros b Hb. apply binned_range. exact Hb.
  Qed.
  Lemma tailN_top : tailN nm S1 binned top = dev nm S1 top * c.
  Proof.
    unfold tailN, c, tailC. rewrite <- (map_length (dev nm S1) (tail top binned)).
    apply zsum_const. intros v Hv. apply in_map_iff in Hv. destruct Hv as [b [E Hb]].
    rewrite (tail_top_all b Hb) in E. symmetry. exact E.
  Qed.
  Lemma sumsq_pos : 0 < sumsq nm S1 binned.
  Proof.
    unfold sumsq. apply (zsum_pos _ (dev nm S1 top * dev nm S1 top)).
    - apply in_map_iff. exists top. split; [reflexivity|exact top_in].
    - pose proof dev_top_pos. nia.
    - intros v Hv. apply in_map_iff in Hv. destruct Hv as [b [E _]]. subst v. nia.
  Qed.
  Lemma score_top_pos : score_lt (0, 1) (score nm S1 (sumsq nm S1 binned) binned top) = true.
  Proof.
    unfold score. fold c. pose proof c_pos. pose proof c_lt. pose proof sumsq_pos. pose proof dev_top_pos. pose proof nm_pos.
    assert (Hden : 0 < sumsq nm S1 binned * (nm - c) * c) by nia.
    destruct (sumsq nm S1 binned * (nm - c) * c =? 0) eqn:E; [apply Z.eqb_eq in E; lia|].
    unfold score_lt. cbn [fst snd]. apply Z.ltb_lt. rewrite tailN_top. nia.
  Qed.

  Lemma mct_argmax_range : (1 <= mct_argmax mn mx bins data)%nat /\ Z.of_nat (mct_argmax mn mx bins data) <= top.
  Proof.
    unfold mct_argmax, mct_rows. fold binned. fold nm. fold S1. rewrite nb_eq.
    set (sc := score nm S1 (sumsq nm S1 binned) binned).
    assert (Hb : Z.to_nat bins = S (Z.to_nat top)) by (unfold top; lia).
    rewrite Hb. cbn [zseq map]. split.
    - unfold sc at 1. rewrite score0. apply argmax_ge1; [lia|].
      exists (sc top). split; [|exact score_top_pos].
      apply in_map. apply in_zseq. unfold top. lia.
    - pose proof (argmax_bound (map sc (zseq (0 + 1) (Z.to_nat top))) (sc 0) 0%nat 1%nat ltac:(lia)) as B.
      rewrite map_length, zseq_length in B. unfold top in *. lia.
  Qed.
End Mct.

Open Scope Q_scope.
Theorem mct_model_bracket_lemma data bins x0 r :
  data = x0 :: r -> (zmin_l x0 data < zmax_l x0 data)%Z -> (2 <= bins)%Z ->
  inject_Z (zmin_l x0 data) <= mct_threshold data bins /\ mct_threshold data bins <= inject_Z (zmax_l x0 data).
Proof.
  intros E Hnc Hb. unfold mct_threshold. rewrite E. rewrite <- E.
  destruct (Z.eqb_spec (zmin_l x0 data) (zmax_l x0 data)) as [Eq|_]; [lia|].
  destruct (mct_argmax_range data bins x0 (ex_intro _ r E) Hnc Hb) as [A1 A2].
  apply mct_bracket_partial_lemma; [rewrite <- Zle_Qle; lia|exact Hb|lia].
Qed.

(* constant data: the code returns the value itself *)
Lemma mct_model_constant data bins x0 r :
  data = x0 :: r -> zmin_l x0 data = zmax_l x0 data -> mct_threshold data bins = inject_Z (zmin_l x0 data).
Proof. intros E H. unfold mct_threshold. rewrite E. rewrite <- E. rewrite H, Z.eqb_refl. reflexivity. Qed.

Example ex_mct : mct_threshold [1; 2; 2; 3; 9; 10; 10; 12]%Z 4 == 1 # 1 /\ (zmin_l 1 [1; 2; 2; 3; 9; 10; 10; 12] < zmax_l 1 [1; 2; 2; 3; 9; 10; 10; 12])%Z.
Proof. split; vm_compute; reflexivity. Qed.
