(* C10 (feeds C19) — index safety of the binary heap of min_cost_flow.hpp as transcribed in
   Model/EmdMcf.v: swap_heap, heap_decrease_key (sift-up with PARENT), heapify (LEFT / RIGHT) and
   heap_remove_first never index Q or _nodes_to_Q out of bounds.  The accessors of the model are
   bounds-checked (None = out of bounds); the theorems say the result is never None, under the only
   facts the code relies on: every heap entry names a node inside the position table, and the
   position handed to decrease_key passed the code's own test  _nodes_to_Q[v] < Q.size(). *)
From Coq Require Import ZArith List Bool Lia ZifyBool.
From Centro Require Import Base.Sx Base.EmdBase Model.Emd Model.EmdMcf.
Import ListNotations.
Open Scope Z_scope.

Definition ents_ok (h : heap) : Prop := forall en, In en (fst h) -> (fst en < length (snd h))%nat.

Lemma oget_some {A} (l : list A) i : (i < length l)%nat -> exists x, oget l i = Some x /\ In x l.
Proof.
  intros H. unfold oget. destruct (nth_error l i) as [x|] eqn:E.
  - exists x. split; auto. eapply nth_error_In; eauto.
  - apply nth_error_None in E. lia.
Qed.
Lemma oset_some {A} (x : A) : forall (l : list A) i, (i < length l)%nat ->
  exists l', oset l i x = Some l' /\ length l' = length l /\ forall y, In y l' -> y = x \/ In y l.
Proof.
  induction l as [|a l IH]; intros i H; [cbn [length] in H; lia|].
  destruct i as [|i]; cbn [oset].
  - exists (x :: l). split; auto. split; auto. intros y [<-|Hy]; auto. right. right. auto.
  - cbn [length] in H. destruct (IH i ltac:(lia)) as [l' [E [L I]]]. rewrite E.
    exists (a :: l'). split; auto. split; [cbn [length]; lia|].
    intros y [<-|Hy]; [right; left; auto|]. destruct (I y Hy); auto. right. right. auto.
Qed.

Definition same_shape (h h' : heap) : Prop :=
  length (fst h') = length (fst h) /\ length (snd h') = length (snd h).

Lemma swap_heap_safe h i j : ents_ok h -> (i < length (fst h))%nat -> (j < length (fst h))%nat ->
  exists h', swap_heap h i j = Some h' /\ same_shape h h' /\ ents_ok h'.
Proof.
  destruct h as [Q n2q]. unfold ents_ok, same_shape. cbn [fst snd]. intros OK Hi Hj. unfold swap_heap.
  destruct (oget_some Q i Hi) as [qi [Ei Ii]]. destruct (oget_some Q j Hj) as [qj [Ej Ij]].
  rewrite Ei, Ej. cbn [bind].
  destruct (oset_some qj Q i Hi) as [Q1 [E1 [L1 I1]]]. rewrite E1. cbn [bind].
  destruct (oset_some qi Q1 j ltac:(lia)) as [Q2 [E2 [L2 I2]]]. rewrite E2. cbn [bind].
  destruct (oset_some j n2q (fst qi) (OK qi Ii)) as [n1 [E3 [L3 _]]]. rewrite E3. cbn [bind].
  destruct (oset_some i n1 (fst qj) ltac:(rewrite L3; apply OK; auto)) as [n2 [E4 [L4 _]]]. rewrite E4. cbn [bind].
  eexists. split; [reflexivity|]. cbn [fst snd]. split; [lia|].
  intros en Hen. rewrite L4, L3.
  destruct (I2 en Hen) as [->|H1]; [apply OK; auto|]. destruct (I1 en H1) as [->|H0]; apply OK; auto.
Qed.

Lemma PARENT_lt i : (0 < i)%nat -> (PARENT i < i)%nat.
Proof. intros H. unfold PARENT. apply Nat.div_lt_upper_bound; lia. Qed.

Lemma sift_up_safe : forall fuel h i, ents_ok h -> (i < length (fst h))%nat ->
  exists h', sift_up fuel h i = Some h' /\ same_shape h h' /\ ents_ok h'.
Proof.
  induction fuel as [|f IH]; intros h i OK Hi; cbn [sift_up].
  - exists h. unfold same_shape. auto.
  - destruct (i =? 0)%nat eqn:E0; [exists h; unfold same_shape; auto|].
    apply Nat.eqb_neq in E0. pose proof (PARENT_lt i ltac:(lia)) as PL.
    destruct (oget_some (fst h) (PARENT i) ltac:(lia)) as [qp [Ep _]].
    destruct (oget_some (fst h) i Hi) as [qi [Ei _]]. rewrite Ep, Ei. cbn [bind].
    destruct (snd qi <? snd qp); [|exists h; unfold same_shape; auto].
    destruct (swap_heap_safe h i (PARENT i) OK Hi ltac:(lia)) as [h1 [E1 [[S1 S2] OK1]]]. rewrite E1. cbn [bind].
    destruct (IH h1 (PARENT i) OK1 ltac:(lia)) as [h2 [E2 [[T1 T2] OK2]]].
    exists h2. split; auto. split; auto. unfold same_shape. lia.
Qed.

(* the code calls heap_decrease_key only after testing _nodes_to_Q[v] < Q.size() *)
Theorem heap_decrease_key_safe h v alt pos : ents_ok h ->
  oget (snd h) v = Some pos -> (pos < length (fst h))%nat ->
  exists h', heap_decrease_key h v alt = Some h' /\ same_shape h h' /\ ents_ok h'.
Proof.
  intros OK Ev Hp. unfold heap_decrease_key. rewrite Ev. cbn [bind].
  destruct (oget_some (fst h) pos Hp) as [qi [Ei Ii]]. rewrite Ei. cbn [bind].
  destruct (oset_some ((fst qi, alt) : qent) (fst h) pos Hp) as [Q1 [E1 [L1 I1]]]. rewrite E1. cbn [bind].
  assert (OK1 : ents_ok (Q1, snd h)).
  { intros en Hen. cbn [fst snd] in *. destruct (I1 en Hen) as [->|H0]; [cbn [fst]|]; apply OK; auto. }
  destruct (sift_up_safe (S pos) (Q1, snd h) pos OK1 ltac:(cbn [fst]; lia)) as [h' [E [[S1 S2] OK']]].
  exists h'. split; auto. split; auto. unfold same_shape. cbn [fst snd] in *. lia.
Qed.

Lemma heapify_safe : forall fuel h i, ents_ok h -> (fst h = [] \/ (i < length (fst h))%nat) ->
  exists h', heapify fuel h i = Some h' /\ same_shape h h' /\ ents_ok h'.
Proof.
  induction fuel as [|f IH]; intros h i OK Hi; cbn [heapify].
  - exists h. unfold same_shape. auto.
  - cbv zeta. destruct Hi as [Hn|Hi].
    + rewrite Hn. cbn [length]. assert (E1 : (LEFT i <? 0)%nat = false) by (apply Nat.ltb_ge; lia).
      assert (E2 : (RIGHT i <? 0)%nat = false) by (apply Nat.ltb_ge; lia). rewrite E1, E2. cbn [bind].
      rewrite Nat.eqb_refl. exists h. unfold same_shape. auto.
    + destruct (oget_some (fst h) i Hi) as [qi [Ei _]].
      assert (S1 : exists s1, (if (LEFT i <? length (fst h))%nat
                               then ql <- oget (fst h) (LEFT i);; qi <- oget (fst h) i;; Some (if snd ql <? snd qi then LEFT i else i)
                               else Some i) = Some s1 /\ (s1 < length (fst h))%nat).
      { destruct (LEFT i <? length (fst h))%nat eqn:EL.
        - apply Nat.ltb_lt in EL. destruct (oget_some (fst h) (LEFT i) EL) as [ql [El _]]. rewrite El, Ei. cbn [bind].
          eexists. split; [reflexivity|]. destruct (snd ql <? snd qi); lia.
        - exists i. auto. }
      destruct S1 as [s1 [E1 L1]]. rewrite E1. cbn [bind].
      assert (S2 : exists s2, (if (RIGHT i <? length (fst h))%nat
                               then qr <- oget (fst h) (RIGHT i);; qs <- oget (fst h) s1;; Some (if snd qr <? snd qs then RIGHT i else s1)
                               else Some s1) = Some s2 /\ (s2 < length (fst h))%nat).
      { destruct (RIGHT i <? length (fst h))%nat eqn:ER.
        - apply Nat.ltb_lt in ER. destruct (oget_some (fst h) (RIGHT i) ER) as [qr [Er _]].
          destruct (oget_some (fst h) s1 L1) as [qs [Es _]]. rewrite Er, Es. cbn [bind].
          eexists. split; [reflexivity|]. destruct (snd qr <? snd qs); lia.
        - exists s1. auto. }
      destruct S2 as [s2 [E2 L2]]. rewrite E2. cbn [bind].
      destruct (s2 =? i)%nat; [exists h; unfold same_shape; auto|].
      destruct (swap_heap_safe h i s2 OK Hi L2) as [h1 [Es [[T1 T2] OK1]]]. rewrite Es. cbn [bind].
      destruct (IH h1 s2 OK1 ltac:(right; lia)) as [h2 [Eh [[U1 U2] OK2]]].
      exists h2. split; auto. split; auto. unfold same_shape. lia.
Qed.

Lemma in_removelast {A} (l : list A) y : In y (removelast l) -> In y l.
Proof.
  induction l as [|a l IH]; cbn [removelast]; auto. destruct l as [|b l]; [intros []|].
  intros [<-|H]; [left; auto|right; auto].
Qed.
Lemma removelast_length {A} (l : list A) : length (removelast l) = (length l - 1)%nat.
Proof.
  induction l as [|a l IH]; auto. cbn [removelast]. destruct l as [|b l]; auto.
  cbn [length] in *. lia.
Qed.

(* the code calls heap_remove_first only on a non-empty heap (Q[0] was just read) *)
Theorem heap_remove_first_safe h : ents_ok h -> (0 < length (fst h))%nat ->
  exists h', heap_remove_first h = Some h' /\ length (fst h') = (length (fst h) - 1)%nat /\
             length (snd h') = length (snd h) /\ ents_ok h'.
Proof.
  intros OK Hn. unfold heap_remove_first.
  destruct (swap_heap_safe h 0 (length (fst h) - 1) OK ltac:(lia) ltac:(lia)) as [h1 [E1 [[S1 S2] OK1]]].
  rewrite E1. cbn [bind].
  assert (OK2 : ents_ok (removelast (fst h1), snd h1)).
  { intros en Hen. cbn [fst snd] in *. apply OK1. apply in_removelast. auto. }
  destruct (heapify_safe (length (removelast (fst h1))) (removelast (fst h1), snd h1) 0 OK2) as [h2 [E2 [[T1 T2] OK3]]].
  { cbn [fst]. destruct (removelast (fst h1)) as [|a l]; [left; auto|right; cbn [length]; lia]. }
  exists h2. split; auto. cbn [fst snd] in *. rewrite removelast_length in T1. split; [lia|]. split; [lia|auto].
Qed.

(* the heap built at the start of compute_shortest_path satisfies the invariant *)
Lemma heap_init_ok nv from : (from < nv)%nat ->
  ents_ok (heap_init nv from) /\ length (fst (heap_init nv from)) = nv /\ length (snd (heap_init nv from)) = nv.
Proof.
  intros H. unfold heap_init, ents_ok. cbn [fst snd]. rewrite !map_length, seq_length.
  split; [|split; auto].
  - intros en [<-|Hen]; [cbn [fst]; lia|]. apply in_map_iff in Hen. destruct Hen as [i [<- Hi]].
    apply filter_In in Hi. destruct Hi as [Hi _]. apply in_seq in Hi. cbn [fst]. lia.
  - cbn [length]. rewrite map_length.
    assert (G : forall l, NoDup l -> In from l -> S (length (filter (fun i => negb (i =? from)%nat) l)) = length l).
    { induction l as [|a l IH]; intros ND Hin; [destruct Hin|]. inversion ND as [|? ? Na ND']; subst.
      cbn [filter]. destruct (a =? from)%nat eqn:E.
      - apply Nat.eqb_eq in E. subst a. cbn [negb length]. f_equal.
        clear IH Hin ND. induction l as [|b l IH]; auto. cbn [filter].
        destruct (b =? from)%nat eqn:Eb; [apply Nat.eqb_eq in Eb; subst; exfalso; apply Na; left; auto|].
        cbn [negb length]. f_equal. apply IH; [intros X; apply Na; right; auto|]. inversion ND'; auto.
      - cbn [negb length]. f_equal. apply IH; auto. destruct Hin as [->|]; auto. apply Nat.eqb_neq in E. congruence. }
    rewrite (G (seq 0 nv)); [apply seq_length|apply seq_NoDup|apply in_seq; lia].
Qed.

(* one relaxation (the body of the two neighbour loops) never indexes out of bounds *)
Theorem relax_safe u du st v rc : ents_ok (sp_h st) -> (v < length (snd (sp_h st)))%nat ->
  exists st', relax u du st v rc = Some st' /\ same_shape (sp_h st) (sp_h st') /\ ents_ok (sp_h st').
Proof.
  intros OK Hv. unfold relax.
  destruct (oget_some (snd (sp_h st)) v Hv) as [pos [Ep _]]. rewrite Ep. cbn [bind].
  destruct (pos <? length (fst (sp_h st)))%nat eqn:EL; [|exists st; unfold same_shape; auto].
  apply Nat.ltb_lt in EL. destruct (oget_some (fst (sp_h st)) pos EL) as [qv [Eq _]]. rewrite Eq. cbn [bind].
  destruct (du + rc <? snd qv); [|exists st; unfold same_shape; auto].
  destruct (heap_decrease_key_safe (sp_h st) v (du + rc) pos OK Ep EL) as [h' [E [SS OK']]].
  rewrite E. cbn [bind]. eexists. split; [reflexivity|]. cbn [sp_h]. auto.
Qed.
