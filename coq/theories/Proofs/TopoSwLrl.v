(* C05: the pruned 4x5-window sweep (Base/TopoSweep.v) run by the kernel on the REGENERATED table
   [shrink_lrl] (Gen/TablesC05.v).  A changed table bit re-runs this file; if the table then deletes a
   pixel that is not simple after its raster-earlier neighbours are gone, the lemma fails. *)
From Coq Require Import ZArith NArith List Bool.
From Centro Require Import Base.Topo Base.Skel Base.TopoPar Base.TopoSweep Base.TopoGrid Gen.TablesC05.

Lemma sweep_shrink_lrl : sweep (keepN shrink_lrl) = true.
Proof. vm_compute. reflexivity. Qed.

Lemma admissible_shrink_lrl : admissible (keepN shrink_lrl).
Proof. unfold admissible. apply sweep_sound. exact sweep_shrink_lrl. Qed.
