(* C08 — termination of the first worklist walk: the potential
     sum over unmarked regions of (degree + 2) + sum over the stack of (degree + 2) + (neighbours left + 1)
   drops at every transition, so fuel >= sum over all regions of (degree + 2) always suffices. *)
From Coq Require Import ZArith List Bool Lia ZifyBool.
From Centro Require Import Base.FillZMap Model.FillHoles Spec.FillHoles Proofs.FillGraph.
Import ListNotations.
Open Scope Z_scope.

Section Fuel.
Variable adj : Z -> list Z.
Variable lcount : Z.
Variable nodes : list Z.
Hypothesis Hnd : NoDup nodes.
Hypothesis Hclosed : forall i j, In i nodes -> In j (adj i) -> In j nodes.

Definition wt (v : Z) : nat := S (S (length (adj v))).
Definition sumw (l : list Z) : nat := fold_right (fun v a => (wt v + a)%nat) O l.
Definition unmarked (nh : zmap bool) : list Z := filter (fun v => negb (getb nh v)) nodes.
Definition curw (c : option (Z * list Z * list Z)) : nat :=
  match c with Some (_, _, rest) => S (length rest) | None => O end.
Definition mu (s : wst) : nat := (sumw (unmarked (w_nh s)) + sumw (w_todo s) + curw (w_cur s))%nat.

Definition scope (s : wst) : Prop :=
  (forall v, In v (w_todo s) -> In v nodes) /\
  (forall ii pre rest, w_cur s = Some (ii, pre, rest) -> forall x, In x rest -> In x nodes).

Lemma sumw_cons v l : sumw (v :: l) = (wt v + sumw l)%nat.
Proof. reflexivity. Qed.
Lemma sumw_nil : sumw [] = O.
Proof. reflexivity. Qed.
Opaque sumw.

Lemma sumw_mark (l : list Z) nh jj : NoDup l -> In jj l -> getb nh jj = false ->
  (sumw (filter (fun v => negb (getb (zset nh jj true) v)) l) + wt jj = sumw (filter (fun v => negb (getb nh v)) l))%nat.
Proof.
  intros Nd. induction l as [|a l IH]; intros Hin Hj; [destruct Hin|].
  inversion Nd as [|x y Na Nd']; subst x y. cbn [filter].
  destruct (Z.eq_dec a jj) as [->|N].
  - rewrite getb_set_same, Hj. cbn [negb]. rewrite sumw_cons.
    assert (E : filter (fun v => negb (getb (zset nh jj true) v)) l = filter (fun v => negb (getb nh v)) l).
    { apply filter_ext_in. intros x Hx. rewrite getb_set_other; [reflexivity|]. intros ->. contradiction. }
    rewrite E. apply Nat.add_comm.
  - rewrite getb_set_other by auto. destruct Hin as [Hin|Hin]; [congruence|].
    specialize (IH Nd' Hin Hj). destruct (negb (getb nh a)); rewrite ?sumw_cons; lia.
Qed.

Lemma step_decreases s : scope s -> finished1 s = false -> scope (step1 adj lcount s) /\ (S (mu (step1 adj lcount s)) <= mu s)%nat.
Proof.
  intros [St Sc] F. unfold step1, mu. destruct (w_cur s) as [[[ii pre] [|jj rest]]|] eqn:C.
  - split; [split; cbn [w_todo w_cur]; [auto|intros; discriminate]|]. cbn [w_nh w_todo w_cur curw length]. lia.
  - assert (Jn : In jj nodes) by (apply (Sc ii pre (jj :: rest) eq_refl); left; auto).
    assert (Sc' : forall x, In x rest -> In x nodes) by (intros x Hx; apply (Sc ii pre (jj :: rest) eq_refl); right; auto).
    assert (Same : forall s', w_nh s' = w_nh s -> w_todo s' = w_todo s -> w_cur s' = Some (ii, jj :: pre, rest) ->
                   scope s' /\ (S (sumw (unmarked (w_nh s')) + sumw (w_todo s') + curw (w_cur s')) <=
                                sumw (unmarked (w_nh s)) + sumw (w_todo s) + curw (Some (ii, pre, jj :: rest)))%nat).
    { intros s' E1 E2 E3. rewrite E1, E2, E3. split; [|cbn [curw length]; lia].
      split; [rewrite E2; auto|]. intros i0 p0 r0 E. rewrite E3 in E. inversion E; subst. auto. }
    assert (Mark : getb (w_nh s) jj = false ->
                   scope (w_mark s jj (Some (ii, jj :: pre, rest))) /\
                   (S (sumw (unmarked (w_nh (w_mark s jj (Some (ii, jj :: pre, rest))))) +
                       sumw (w_todo (w_mark s jj (Some (ii, jj :: pre, rest)))) +
                       curw (w_cur (w_mark s jj (Some (ii, jj :: pre, rest))))) <=
                    sumw (unmarked (w_nh s)) + sumw (w_todo s) + curw (Some (ii, pre, jj :: rest)))%nat).
    { intros Hj. unfold w_mark. cbn [w_nh w_todo w_cur]. split.
      - split; cbn [w_todo w_cur]; [intros v [<-|Hv]; auto|]. intros i0 p0 r0 E. inversion E; subst. auto.
      - pose proof (sumw_mark nodes (w_nh s) jj Hnd Jn Hj) as M. unfold unmarked.
        rewrite sumw_cons. cbn [curw length]. lia. }
    destruct (getb (w_nh s) jj) eqn:Njj; [apply Same; reflexivity|].
    destruct (ii <=? lcount).
    + destruct (getz (w_anh s) jj =? 0); [apply Same; reflexivity|].
      destruct (getz (w_anh s) jj =? ii); [apply Same; reflexivity|apply Mark; reflexivity].
    + destruct (lcount <? jj); [apply Same; reflexivity|apply Mark; reflexivity].
  - destruct (w_todo s) as [|ii t] eqn:T.
    + unfold finished1 in F. rewrite C, T in F. discriminate.
    + cbn [w_nh w_todo w_cur curw]. split.
      * split; cbn [w_todo w_cur]; [intros v Hv; apply St; right; auto|].
        intros i0 p0 r0 E. inversion E; subst. intros x Hx. apply (Hclosed i0); auto. apply St. left; auto.
      * rewrite sumw_cons. unfold wt. lia.
Qed.

Lemma run1_finishes fuel : forall s, scope s -> (mu s <= fuel)%nat -> finished1 (run1 adj lcount fuel s) = true.
Proof.
  induction fuel as [|f IH]; intros s Sc Hm; cbn [run1]; destruct (finished1 s) eqn:F; auto.
  - destruct (step_decreases s Sc F) as [_ D]. lia.
  - destruct (step_decreases s Sc F) as [Sc' D]. apply IH; [auto|lia].
Qed.

(* the initial potential is at most the sum over all regions *)
Lemma sumw_partition (P : Z -> bool) l : (sumw (filter P l) + sumw (filter (fun v => negb (P v)) l) = sumw l)%nat.
Proof. induction l as [|a l IH]; [reflexivity|]. cbn [filter]. destruct (P a); cbn [negb]; rewrite ?sumw_cons; lia. Qed.

Lemma sumw_incl l : forall l', NoDup l -> (forall v, In v l -> In v l') -> (sumw l <= sumw l')%nat.
Proof.
  induction l as [|a l IH]; intros l' Nd Hi; [rewrite sumw_nil; lia|].
  inversion Nd as [|x y Na Nd']; subst x y.
  destruct (in_split a l' (Hi a (or_introl eq_refl))) as [l1 [l2 ->]].
  assert (E : forall m1 m2, sumw (m1 ++ m2) = (sumw m1 + sumw m2)%nat).
  { intros m1 m2. induction m1 as [|b m1 IHm]; [reflexivity|]. cbn [app]. rewrite !sumw_cons. lia. }
  assert (Hl : forall v, In v l -> In v (l1 ++ l2)).
  { intros v Hv. specialize (Hi v (or_intror Hv)). apply in_app_or in Hi as [H|[H|H]]; apply in_or_app; auto.
    subst v. contradiction. }
  specialize (IH (l1 ++ l2) Nd' Hl). rewrite E in *. rewrite !sumw_cons. lia.
Qed.

Lemma fold_set_true_in l : forall m v, getb (fold_left (fun m v => zset m v true) l m) v = true <-> (In v l \/ getb m v = true).
Proof.
  induction l as [|a l IH]; intros m v; cbn [fold_left In].
  - tauto.
  - rewrite IH. destruct (Z.eq_dec v a) as [->|N].
    + rewrite getb_set_same. tauto.
    + rewrite getb_set_other by auto. intuition congruence.
Qed.

Theorem walk1_terminates (todo0 : list Z) fuel : NoDup todo0 -> (forall v, In v todo0 -> In v nodes) ->
  (sumw nodes <= fuel)%nat -> finished1 (run1 adj lcount fuel (init1 todo0)) = true.
Proof.
  intros Nd0 Hb Hf. apply run1_finishes.
  - unfold init1. rewrite frev_rev. split; cbn [w_todo w_cur]; [intros v Hv; apply Hb; apply in_rev; auto|intros; discriminate].
  - unfold mu, init1. rewrite frev_rev. cbn [w_nh w_todo w_cur curw].
    set (nh0 := fold_left (fun m v => zset m v true) todo0 zempty).
    pose proof (sumw_partition (getb nh0) nodes) as P. fold (unmarked nh0) in P.
    assert (L : (sumw (rev todo0) <= sumw (filter (getb nh0) nodes))%nat).
    { apply sumw_incl; [apply NoDup_rev; auto|]. intros v Hv. apply in_rev in Hv. apply filter_In. split; [auto|].
      unfold nh0. apply fold_set_true_in. left; auto. }
    lia.
Qed.


(* ---------------------------------------------------------------- the second walk *)
Definition unlabelled (anh : zmap Z) : list Z := filter (fun v => getz anh v =? 0) nodes.
Definition curw2 (c : option (Z * list Z)) : nat :=
  match c with Some (_, rest) => S (length rest) | None => O end.
Definition mu2 (s : vst) : nat := (sumw (unlabelled (v_anh s)) + sumw (v_todo s) + curw2 (v_cur s))%nat.

Definition scope2 (s : vst) : Prop :=
  (forall v, In v (v_todo s) -> In v nodes /\ getz (v_anh s) v <> 0) /\
  (forall ii rest, v_cur s = Some (ii, rest) -> getz (v_anh s) ii <> 0 /\ forall x, In x rest -> In x nodes).

Lemma sumw_label (l : list Z) anh jj k : NoDup l -> In jj l -> getz anh jj = 0 -> k <> 0 ->
  (sumw (filter (fun v => (getz (zset anh jj k) v =? 0)%Z) l) + wt jj = sumw (filter (fun v => (getz anh v =? 0)%Z) l))%nat.
Proof.
  intros Nd. induction l as [|a l IH]; intros Hin Hj Hk; [destruct Hin|].
  inversion Nd as [|x y Na Nd']; subst x y. cbn [filter].
  destruct (Z.eq_dec a jj) as [->|N].
  - rewrite getz_set_same, Hj. destruct (k =? 0) eqn:K; [lia|]. cbn [Z.eqb]. rewrite sumw_cons.
    assert (E : filter (fun v => getz (zset anh jj k) v =? 0) l = filter (fun v => getz anh v =? 0) l).
    { apply filter_ext_in. intros x Hx. rewrite getz_set_other; [reflexivity|]. intros ->. contradiction. }
    rewrite E. apply Nat.add_comm.
  - rewrite getz_set_other by auto. destruct Hin as [Hin|Hin]; [congruence|].
    specialize (IH Nd' Hin Hj Hk). destruct (getz anh a =? 0); rewrite ?sumw_cons; lia.
Qed.

Lemma step2_decreases nh s : scope2 s -> finished2 s = false ->
  scope2 (step2 adj nh s) /\ (S (mu2 (step2 adj nh s)) <= mu2 s)%nat.
Proof.
  intros [St Sc] F. unfold step2, mu2. destruct (v_cur s) as [[ii [|jj rest]]|] eqn:C.
  - split; [split; cbn [v_todo v_cur v_anh]; [auto|intros; discriminate]|]. cbn [v_anh v_todo v_cur curw2 length]. lia.
  - destruct (Sc ii (jj :: rest) eq_refl) as [Aii Sr].
    assert (Jn : In jj nodes) by (apply Sr; left; auto).
    destruct (negb (getb nh jj) && (getz (v_anh s) jj =? 0)) eqn:Cond.
    + apply andb_prop in Cond as [_ Ajj]. apply Z.eqb_eq in Ajj. cbn [v_anh v_todo v_cur]. split.
      * split; cbn [v_anh v_todo v_cur].
        -- intros v [<-|Hv]; [split; [auto|rewrite getz_set_same; auto]|]. destruct (St v Hv) as [A B]. split; [auto|].
           destruct (Z.eq_dec v jj) as [->|N]; [rewrite getz_set_same; auto|rewrite getz_set_other; auto].
        -- intros i0 r0 E. inversion E; subst i0 r0. split.
           ++ destruct (Z.eq_dec ii jj) as [->|N]; [rewrite getz_set_same; auto|rewrite getz_set_other; auto].
           ++ intros x Hx. apply Sr; right; auto.
      * pose proof (sumw_label nodes (v_anh s) jj (getz (v_anh s) ii) Hnd Jn Ajj Aii) as M. unfold unlabelled.
        rewrite sumw_cons. cbn [curw2 length]. lia.
    + cbn [v_anh v_todo v_cur]. split; [|cbn [curw2 length]; lia]. split; cbn [v_anh v_todo v_cur]; [auto|].
      intros i0 r0 E. inversion E; subst i0 r0. split; [auto|]. intros x Hx. apply Sr; right; auto.
  - destruct (v_todo s) as [|ii t] eqn:T.
    + unfold finished2 in F. rewrite C, T in F. discriminate.
    + cbn [v_anh v_todo v_cur curw2]. destruct (St ii (or_introl eq_refl)) as [Ni Ai]. split.
      * split; cbn [v_anh v_todo v_cur]; [intros v Hv; apply St; right; auto|].
        intros i0 r0 E. inversion E; subst. split; [auto|]. intros x Hx. apply (Hclosed i0); auto.
      * rewrite sumw_cons. unfold wt. lia.
Qed.

Lemma run2_finishes nh fuel : forall s, scope2 s -> (mu2 s <= fuel)%nat -> finished2 (run2 adj fuel nh s) = true.
Proof.
  induction fuel as [|f IH]; intros s Sc Hm; cbn [run2]; destruct (finished2 s) eqn:F; auto.
  - destruct (step2_decreases nh s Sc F) as [_ D]. lia.
  - destruct (step2_decreases nh s Sc F) as [Sc' D]. apply IH; [auto|lia].
Qed.

Theorem walk2_terminates nh anh0 (n : nat) fuel : (forall v, In v (zseq 0 n) -> In v nodes) ->
  (sumw nodes <= fuel)%nat -> finished2 (run2 adj fuel nh (init2 n nh anh0)) = true.
Proof.
  intros Hn Hf. apply run2_finishes.
  - unfold init2. rewrite frev_rev. split; cbn [v_anh v_todo v_cur]; [|intros; discriminate].
    intros v Hv. apply in_rev in Hv. apply filter_In in Hv as [Hv Cv]. split; [apply Hn; auto|].
    apply andb_prop in Cv as [_ Cv]. apply negb_true_iff in Cv. apply Z.eqb_neq in Cv. exact Cv.
  - unfold mu2, init2. rewrite frev_rev. cbn [v_anh v_todo v_cur curw2].
    pose proof (sumw_partition (fun v => getz anh0 v =? 0) nodes) as P. fold (unlabelled anh0) in P.
    assert (L : (sumw (rev (filter (fun jj => negb (getb nh jj) && negb (getz anh0 jj =? 0)%Z) (zseq 0 n))) <=
                 sumw (filter (fun v => negb (getz anh0 v =? 0)%Z) nodes))%nat).
    { apply sumw_incl.
      - apply NoDup_rev, NoDup_filter. clear. generalize 0. induction n as [|k IH]; intros lo; cbn [zseq]; constructor.
        + intros Hin. apply zseq_In in Hin. lia.
        + apply IH.
      - intros v Hv. apply in_rev in Hv. apply filter_In in Hv as [Hv Cv]. apply filter_In. split; [apply Hn; auto|].
        apply andb_prop in Cv as [_ Cv]. exact Cv. }
    lia.
Qed.

End Fuel.

(* Example: the hypotheses hold on the witness graph of Proofs/FillGraph.v (4 regions, 8 directed
   edges): the bound is 16 steps *)
Example walk1_terminates_example : finished1 (run1 wit_adj 3 16 (init1 wit_todo)) = true.
Proof.
  apply (walk1_terminates wit_adj 3 [1;2;3;5]).
  - repeat constructor; cbn [In]; lia.
  - intros i j Hi Hj. apply adj_of_edges_spec in Hj.
    assert (H : forallb (fun e => existsb (Z.eqb (snd e)) [1;2;3;5]) wit_edges = true) by (vm_compute; reflexivity).
    rewrite forallb_forall in H. specialize (H _ Hj). apply existsb_exists in H as [x [Hx Ex]].
    cbn [snd] in Ex. apply Z.eqb_eq in Ex. subst x. exact Hx.
  - exact wit_nodup.
  - intros v [<-|[<-|[]]]; cbn [In]; auto.
  - vm_compute. lia.
Qed.
