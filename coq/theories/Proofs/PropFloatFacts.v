(* C03: the facts about binary64 used by the optimality proof of the main loop (Proofs/PropOptimal.v),
   derived from Coq's FloatAxioms through Flocq like b64_add_monotone_proved. *)
From Coq Require Import ZArith Lia Lra Reals Bool.
From Coq Require Import Floats SpecFloat.
From Flocq Require Import Core.Zaux Core.Raux Core.Defs Core.Digits Core.Float_prop Core.Generic_fmt Core.FLT.
From Flocq Require Import IEEE754.BinarySingleNaN.
From Flocq Require IEEE754.PrimFloat.
From Centro Require Import Base.PropFloat Spec.PropCheck Proofs.PropFloatMono.
Open Scope Z_scope.
Local Existing Instance PropFloatMono.Hprec.
Local Existing Instance PropFloatMono.Hmax.
Local Existing Instance PropFloatMono.VE.
Notation bf := (binary_float prec emax).
Notation pinf := (B754_infinity false : bf).
Notation rnd64 := (round radix2 (SpecFloat.fexp prec emax) (round_mode mode_NE)).

(* ================= float-level facts used by the optimality proof of the main loop ================= *)
Definition okF' (x : float) : Prop := ok64 (bits_of_float x).

Lemma ok_nonneg : forall s, valid_binary prec emax s = true -> ok64 (bitsSF s) -> nonnegSF s.
Proof.
  intros s V [H0 H1]. destruct s as [b|b| |b m e].
  - destruct b; [|exact I]. exfalso. vm_compute in H1. apply H1. reflexivity.
  - destruct b; [|exact I]. exfalso. vm_compute in H1. apply H1. reflexivity.
  - exfalso. vm_compute in H1. apply H1. reflexivity.
  - destruct b; [|exact I]. exfalso. cbn [valid_binary] in V. destruct (bounded_facts m e V) as [He [Hm1 Hm2]].
    assert (E : bitsSF (S754_finite true m e) = two63 + ((e + 1074) * two52 + Zpos m)).
    { unfold bitsSF, two52. destruct (Zpos m <? 4503599627370496) eqn:E; lia. }
    rewrite E in H1. unfold two63, bits_inf, two52 in H1. lia.
Qed.

Lemma okF_nonneg : forall x, okF' x -> nonnegSF (Prim2SF x).
Proof. intros x H. apply ok_nonneg; [apply Prim2SF_valid|]. unfold okF' in H. rewrite bits_of_float_SF in H. exact H. Qed.

Ltac lt_yes := split; [intros _; reflexivity | intros _; try lia; try nia].
Ltac lt_no := split; [intros; exfalso; try lia; nia | intros H; discriminate H].

Lemma bits_lt_compare : forall s1 s2,
  valid_binary prec emax s1 = true -> valid_binary prec emax s2 = true -> nonnegSF s1 -> nonnegSF s2 ->
  (bitsSF s1 < bitsSF s2 <-> SFcompare s1 s2 = Some Lt).
Proof.
  intros s1 s2 V1 V2 N1 N2.
  destruct s1 as [b1|b1| |b1 m1 e1]; try destruct b1; try contradiction;
  destruct s2 as [b2|b2| |b2 m2 e2]; try destruct b2; try contradiction; cbn [valid_binary] in *.
  - cbn. lt_no.
  - cbn. unfold bits_inf. lt_yes.
  - rewrite (bits_finite m2 e2 V2). destruct (bounded_facts m2 e2 V2) as [He [Hm1 Hm2]].
    cbn. unfold two52. lt_yes.
  - cbn. unfold bits_inf. lt_no.
  - cbn. lt_no.
  - rewrite (bits_finite m2 e2 V2). destruct (bounded_facts m2 e2 V2) as [He [Hm1 Hm2]].
    cbn. unfold bits_inf, two52. lt_no.
  - rewrite (bits_finite m1 e1 V1). destruct (bounded_facts m1 e1 V1) as [He [Hm1 Hm2]].
    cbn. unfold two52. lt_no.
  - rewrite (bits_finite m1 e1 V1). destruct (bounded_facts m1 e1 V1) as [He [Hm1 Hm2]].
    cbn. unfold bits_inf, two52. lt_yes.
  - rewrite (bits_finite m1 e1 V1), (bits_finite m2 e2 V2).
    destruct (bounded_facts m1 e1 V1) as [He1 [Ha1 Hb1]]. destruct (bounded_facts m2 e2 V2) as [He2 [Ha2 Hb2]].
    cbn [SFcompare]. unfold two52.
    destruct (Z.compare_spec e1 e2) as [E|E|E].
    + subst e2. change (Pcompare m1 m2 Eq) with (Pos.compare m1 m2).
      destruct (Pos.compare_spec m1 m2) as [P|P|P].
      * subst. lt_no.
      * lt_yes.
      * lt_no.
    + lt_yes.
    + lt_no.
Qed.

(* comparison of the kernel = order of bit patterns *)
Theorem ltb_bits : forall x y, okF' x -> okF' y ->
  (PrimFloat.ltb x y = true <-> bits_of_float x < bits_of_float y).
Proof.
  intros x y Hx Hy. rewrite ltb_spec. unfold SFltb. rewrite !bits_of_float_SF.
  rewrite (bits_lt_compare _ _ (Prim2SF_valid x) (Prim2SF_valid y) (okF_nonneg x Hx) (okF_nonneg y Hy)).
  destruct (SFcompare (Prim2SF x) (Prim2SF y)) as [[]|]; split; intros H; try reflexivity; try discriminate H.
Qed.

Theorem eqb_neg_one_false : forall x, okF' x -> PrimFloat.eqb x (PrimFloat.opp PrimFloat.one) = false.
Proof.
  intros x Hx. rewrite eqb_spec. unfold SFeqb. pose proof (okF_nonneg x Hx) as N.
  change (Prim2SF (- 1)%float) with (S754_finite true 4503599627370496 (-52)).
  destruct (Prim2SF x) as [[]|[]| |[] m e]; try contradiction; reflexivity.
Qed.

(* monotone in the second operand as well *)
Lemma plus_mono_B_r : forall xa xb xc : bf, nonnegB xa -> nonnegB xb -> nonnegB xc -> le_cmp (Bcompare xa xb) ->
  nonnegB (Bplus mode_NE xc xa) /\ nonnegB (Bplus mode_NE xc xb) /\
  le_cmp (Bcompare (Bplus mode_NE xc xa) (Bplus mode_NE xc xb)).
Proof.
  intros xa xb xc Na Nb Nc Hab.
  destruct (is_finite xc) eqn:Fc.
  2:{ rewrite (notfin_inf xc Nc Fc), (plus_inf_l xa Na), (plus_inf_l xb Nb).
      split; [exact I|]. split; [exact I|]. right. reflexivity. }
  destruct (is_finite xb) eqn:Fb.
  2:{ rewrite (notfin_inf xb Nb Fb), (plus_inf_r xc Nc).
      destruct (is_finite xa) eqn:Fa.
      - destruct (fin_plus xc xa Fc Fa Nc Na) as [_ [[_ [_ [_ N]]]|[_ E]]].
        + split; [exact N|]. split; [exact I|]. unfold Bcompare. apply cmp_inf. exact N.
        + unfold nonnegB, Bcompare. rewrite E. split; [exact I|]. split; [exact I|]. right. reflexivity.
      - rewrite (notfin_inf xa Na Fa), (plus_inf_r xc Nc). split; [exact I|]. split; [exact I|]. right. reflexivity. }
  destruct (is_finite xa) eqn:Fa.
  2:{ exfalso. rewrite (notfin_inf xa Na Fa) in Hab. exact (cmp_inf_fin xb Nb Fb Hab). }
  apply (le_cmp_R xa xb Fa Fb) in Hab.
  destruct (fin_plus xc xa Fc Fa Nc Na) as [Ra0 Ha]. destruct (fin_plus xc xb Fc Fb Nc Nb) as [Rb0 Hb].
  assert (Hle : (rnd64 (B2R xc + B2R xa) <= rnd64 (B2R xc + B2R xb))%R).
  { apply round_le; [exact VE | auto with typeclass_instances | lra]. }
  cbv zeta in Ha, Hb.
  destruct Hb as [[Lb [Eb [Fb' Nb']]]|[Gb Eb]].
  - destruct Ha as [[La [Ea [Fa' Na']]]|[Ga Ea]]; [|exfalso; lra].
    split; [exact Na'|]. split; [exact Nb'|]. apply (le_cmp_R _ _ Fa' Fb'). rewrite Ea, Eb. exact Hle.
  - destruct Ha as [[La [Ea [Fa' Na']]]|[Ga Ea]].
    + split; [exact Na'|]. unfold nonnegB, Bcompare. rewrite Eb. split; [exact I|]. apply cmp_inf. exact Na'.
    + unfold nonnegB, Bcompare. rewrite Ea, Eb. split; [exact I|]. split; [exact I|]. right. reflexivity.
Qed.

Lemma nonnegB_of_okF : forall x, okF' x -> nonnegB (FP.Prim2B x).
Proof. intros x H. unfold nonnegB. rewrite FP.B2SF_Prim2B. apply okF_nonneg. exact H. Qed.

Lemma okF_of_nonneg : forall x, nonnegSF (Prim2SF x) -> okF' x.
Proof. intros x H. unfold okF'. rewrite bits_of_float_SF. apply bits_ok64; [apply Prim2SF_valid | exact H]. Qed.

Lemma le_bits_cmp : forall x y, okF' x -> okF' y ->
  (bits_of_float x <= bits_of_float y <-> le_cmp (Bcompare (FP.Prim2B x) (FP.Prim2B y))).
Proof.
  intros x y Hx Hy. unfold Bcompare. rewrite !FP.B2SF_Prim2B, !bits_of_float_SF.
  apply bits_le_compare; try apply Prim2SF_valid; apply okF_nonneg; assumption.
Qed.

(* s + _ is monotone *)
Theorem add_mono_r : forall s x y, okF' s -> okF' x -> okF' y -> bits_of_float x <= bits_of_float y ->
  okF' (PrimFloat.add s x) /\ okF' (PrimFloat.add s y) /\
  bits_of_float (PrimFloat.add s x) <= bits_of_float (PrimFloat.add s y).
Proof.
  intros s x y Hs Hx Hy Hxy.
  destruct (plus_mono_B_r _ _ _ (nonnegB_of_okF x Hx) (nonnegB_of_okF y Hy) (nonnegB_of_okF s Hs)
              (proj1 (le_bits_cmp x y Hx Hy) Hxy)) as [Ra [Rb Rc]].
  rewrite <- (add_equiv_here s x) in Ra, Rc. rewrite <- (add_equiv_here s y) in Rb, Rc.
  unfold nonnegB in Ra, Rb. rewrite FP.B2SF_Prim2B in Ra, Rb.
  pose proof (okF_of_nonneg _ Ra) as Oa. pose proof (okF_of_nonneg _ Rb) as Ob.
  split; [exact Oa|]. split; [exact Ob|]. apply (le_bits_cmp _ _ Oa Ob). exact Rc.
Qed.

(* x <= s + x *)
Theorem add_ge_r : forall s x, okF' s -> okF' x ->
  okF' (PrimFloat.add s x) /\ bits_of_float x <= bits_of_float (PrimFloat.add s x).
Proof.
  intros s x Hs Hx.
  assert (Hz : okF' PrimFloat.zero) by (unfold okF', ok64; vm_compute; split; discriminate).
  assert (Ez0 : bits_of_float PrimFloat.zero = 0) by (vm_compute; reflexivity).
  assert (Hzs : bits_of_float PrimFloat.zero <= bits_of_float s) by (rewrite Ez0; destruct Hs as [H _]; exact H).
  destruct (plus_mono_B _ _ _ (nonnegB_of_okF _ Hz) (nonnegB_of_okF s Hs) (nonnegB_of_okF x Hx)
              (proj1 (le_bits_cmp _ s Hz Hs) Hzs)) as [Ra [Rb Rc]].
  rewrite <- (add_equiv_here s x) in Rb, Rc.
  assert (E0 : Bplus mode_NE (FP.Prim2B PrimFloat.zero) (FP.Prim2B x) = FP.Prim2B x).
  { assert (Ez : FP.Prim2B PrimFloat.zero = B754_zero false) by (rewrite FP.zero_equiv; apply FP.Prim2B_B2Prim).
    rewrite Ez. pose proof (nonnegB_of_okF x Hx) as N. destruct (FP.Prim2B x) as [[]|[]| |[] mx ex Bx]; try contradiction; reflexivity. }
  rewrite E0 in Rc. unfold nonnegB in Rb. rewrite FP.B2SF_Prim2B in Rb.
  pose proof (okF_of_nonneg _ Rb) as Ob. split; [exact Ob|]. apply (le_bits_cmp _ _ Hx Ob). exact Rc.
Qed.
