(* C10 — the metric shortcut of emd_hat_gd_metric: for a ground distance with zero diagonal,
   non-negative entries and the triangle inequality, pre-flowing min(P_i,Q_i) along the diagonal
   does not change the optimum of the transportation problem.  All sizes. *)
From Coq Require Import ZArith List Bool Lia ZifyBool.
From Centro Require Import Base.Sx Base.EmdBase Spec.Emd Proofs.EmdDuality.
Import ListNotations.
Open Scope Z_scope.

Definition cell (a b i j : nat) : Z := if (i =? a)%nat && (j =? b)%nat then 1 else 0.
Definition adj (f : nat -> nat -> Z) (a b : nat) (dl : Z) : nat -> nat -> Z :=
  fun i j => f i j + cell a b i j * dl.

Lemma zsum_ind_in a : forall k s, (s <= a < s + k)%nat ->
  zsum (map (fun x => if (x =? a)%nat then 1 else 0) (seq s k)) = 1.
Proof.
  induction k as [|k IH]; intros s H; [lia|]. cbn [seq map zsum].
  destruct (s =? a)%nat eqn:E.
  - apply Nat.eqb_eq in E. subst. rewrite zsum_map_zero; [lia|].
    intros x Hx. apply in_seq in Hx. destruct (x =? a)%nat eqn:E; auto. apply Nat.eqb_eq in E. lia.
  - apply Nat.eqb_neq in E. rewrite IH by lia. lia.
Qed.

Ltac fin := first [ lia | rewrite ?Z.mul_1_r, ?Z.mul_0_r, ?Z.add_0_r; reflexivity | f_equal; lia ].

Section Adj.
Variable n : nat.
Variable f : nat -> nat -> Z.
Variables a b : nat.
Variable dl : Z.
Hypothesis Ha : (a < n)%nat.
Hypothesis Hb : (b < n)%nat.

Lemma rowsum_adj i : rowsum n (adj f a b dl) i = rowsum n f i + (if (i =? a)%nat then dl else 0).
Proof.
  unfold rowsum, cols, adj. rewrite zsum_map_add.
  rewrite (zsum_map_ext (fun j => cell a b i j * dl)
             (fun j => (dl * (if (i =? a)%nat then 1 else 0)) * (if (j =? b)%nat then 1 else 0))).
  - rewrite zsum_map_scale, zsum_ind_in by lia. destruct (i =? a)%nat; fin.
  - intros j _. unfold cell. destruct (i =? a)%nat, (j =? b)%nat; cbn [andb]; lia.
Qed.
Lemma colsum_adj j : colsum n (adj f a b dl) j = colsum n f j + (if (j =? b)%nat then dl else 0).
Proof.
  unfold colsum, rows, adj. rewrite zsum_map_add.
  rewrite (zsum_map_ext (fun i => cell a b i j * dl)
             (fun i => (dl * (if (j =? b)%nat then 1 else 0)) * (if (i =? a)%nat then 1 else 0))).
  - rewrite zsum_map_scale, zsum_ind_in by lia. destruct (j =? b)%nat; fin.
  - intros i _. unfold cell. destruct (i =? a)%nat, (j =? b)%nat; cbn [andb]; lia.
Qed.
Lemma moved_adj : moved n n (adj f a b dl) = moved n n f + dl.
Proof.
  unfold moved, rows.
  rewrite (zsum_map_ext _ (fun i => rowsum n f i + dl * (if (i =? a)%nat then 1 else 0))).
  - rewrite zsum_map_add, zsum_map_scale, zsum_ind_in by lia. fin.
  - intros i _. rewrite rowsum_adj. destruct (i =? a)%nat; lia.
Qed.
Lemma cost_adj C : cost n n C (adj f a b dl) = cost n n C f + C a b * dl.
Proof.
  unfold cost, rows, cols, adj.
  rewrite (zsum_map_ext _ (fun i => zsum (map (fun j => C i j * f i j) (seq 0 n)) +
                                    (C a b * dl) * (if (i =? a)%nat then 1 else 0))).
  - rewrite zsum_map_add, zsum_map_scale, zsum_ind_in by lia. fin.
  - intros i _.
    rewrite (zsum_map_ext _ (fun j => C i j * f i j + (C i j * dl) * cell a b i j)) by (intros; lia).
    rewrite zsum_map_add. f_equal.
    destruct (i =? a)%nat eqn:E.
    + apply Nat.eqb_eq in E. subst i.
      rewrite (zsum_map_ext _ (fun j => (C a b * dl) * (if (j =? b)%nat then 1 else 0))).
      * rewrite zsum_map_scale, zsum_ind_in by lia. fin.
      * intros j _. unfold cell. rewrite Nat.eqb_refl. cbn [andb].
        destruct (j =? b)%nat eqn:E; [apply Nat.eqb_eq in E; subst|]; lia.
    + rewrite zsum_map_zero; [lia|]. intros j _. unfold cell. rewrite E. cbn [andb]. lia.
Qed.
Lemma diag_adj : zsum (map (fun i => adj f a b dl i i) (seq 0 n)) =
                 zsum (map (fun i => f i i) (seq 0 n)) + (if (a =? b)%nat then dl else 0).
Proof.
  unfold adj. rewrite zsum_map_add.
  rewrite (zsum_map_ext (fun i => cell a b i i * dl)
             (fun i => (dl * (if (a =? b)%nat then 1 else 0)) * (if (i =? a)%nat then 1 else 0))).
  - rewrite zsum_map_scale, zsum_ind_in by lia. destruct (a =? b)%nat; fin.
  - intros i _. unfold cell. destruct (a =? b)%nat eqn:E1, (i =? a)%nat eqn:E2, (i =? b)%nat eqn:E3; cbn [andb]; try lia;
    rewrite ?Nat.eqb_eq, ?Nat.eqb_neq in *; lia.
Qed.
End Adj.

Section Metric.
Variable n : nat.
Variables P Q : nat -> Z.
Variable C : nat -> nat -> Z.
Variable T : Z.
Hypothesis C_diag : forall i, (i < n)%nat -> C i i = 0.
Hypothesis C_pos : forall i j, (i < n)%nat -> (j < n)%nat -> 0 <= C i j.
Hypothesis C_tri : forall i j k, (i < n)%nat -> (j < n)%nat -> (k < n)%nat -> C k j <= C k i + C i j.

Definition mu (i : nat) : Z := Z.min (P i) (Q i).
Definition dsum (f : nat -> nat -> Z) : Z := zsum (map (fun i => f i i) (seq 0 n)).
Hypothesis HT : zsum (map mu (seq 0 n)) <= T.

Lemma feas_entry_le f : feasible n n P Q T f -> forall i j, (i < n)%nat -> (j < n)%nat ->
  f i j <= rowsum n f i /\ f i j <= colsum n f j.
Proof.
  intros [Hpos _] i j Hi Hj. split.
  - unfold rowsum. apply (zsum_map_term_le (fun j => f i j)); [|apply in_seq0; auto].
    intros y Hy. apply Hpos; auto. apply in_seq0; auto.
  - unfold colsum. apply (zsum_map_term_le (fun i => f i j)); [|apply in_seq0; auto].
    intros y Hy. apply Hpos; auto. apply in_seq0; auto.
Qed.
Lemma feas_diag_le f : feasible n n P Q T f -> forall i, (i < n)%nat -> f i i <= mu i.
Proof.
  intros F i Hi. destruct (feas_entry_le f F i i Hi Hi) as [A B].
  destruct F as [_ [Hr [Hc _]]]. specialize (Hr i ltac:(apply in_seq0; auto)).
  specialize (Hc i ltac:(apply in_seq0; auto)). unfold mu. lia.
Qed.

(* sum of a function vanishing off one index *)
Lemma zsum_only (g : nat -> Z) k : (k < n)%nat -> (forall x, (x < n)%nat -> x <> k -> g x = 0) ->
  zsum (map g (seq 0 n)) = g k.
Proof.
  intros Hk H.
  rewrite (zsum_map_ext g (fun x => g k * (if (x =? k)%nat then 1 else 0))).
  - rewrite zsum_map_scale, zsum_ind_in by lia. lia.
  - intros x Hx. apply in_seq0 in Hx. destruct (x =? k)%nat eqn:E.
    + apply Nat.eqb_eq in E. subst. lia.
    + apply Nat.eqb_neq in E. rewrite H; auto. lia.
Qed.

(* searching a row / a column / the matrix for a positive off-diagonal entry *)
Definition row_pos f i := find (fun j => negb (j =? i)%nat && (0 <? f i j)) (seq 0 n).
Definition col_pos f i := find (fun k => negb (k =? i)%nat && (0 <? f k i)) (seq 0 n).
Definition off_pos f := find (fun kl => negb (fst kl =? snd kl)%nat && (0 <? f (fst kl) (snd kl)))
                             (list_prod (seq 0 n) (seq 0 n)).

(* moving one more unit onto the diagonal never costs more *)
Lemma diag_step f i : feasible n n P Q T f -> (i < n)%nat -> f i i < mu i ->
  exists f1, feasible n n P Q T f1 /\ cost n n C f1 <= cost n n C f /\ dsum f < dsum f1.
Proof.
  intros F Hi Lt. pose proof F as [Hpos [Hr [Hc Hm]]].
  assert (Ii : In i (seq 0 n)) by (apply in_seq0; auto).
  assert (POS : forall x y, (x < n)%nat -> (y < n)%nat -> 0 <= f x y)
    by (intros; apply Hpos; apply in_seq0; auto).
  destruct (row_pos f i) as [j|] eqn:RP; destruct (col_pos f i) as [k|] eqn:CP.
  - (* reroute  i->j, k->i  into  i->i, k->j *)
    apply find_some in RP. destruct RP as [Ij RP]. apply in_seq0 in Ij.
    apply find_some in CP. destruct CP as [Ik CP]. apply in_seq0 in Ik.
    assert (j <> i /\ 0 < f i j) as [Nj Pj] by (destruct (j =? i)%nat eqn:E; cbn in RP; [discriminate|apply Nat.eqb_neq in E; lia]).
    assert (k <> i /\ 0 < f k i) as [Nk Pk] by (destruct (k =? i)%nat eqn:E; cbn in CP; [discriminate|apply Nat.eqb_neq in E; lia]).
    exists (adj (adj (adj (adj f i j (-1)) k i (-1)) i i 1) k j 1).
    split; [split; [|split; [|split]]|split].
    + intros x y Hx Hy. apply in_seq0 in Hx. apply in_seq0 in Hy. unfold adj, cell.
      pose proof (POS x y Hx Hy).
      destruct (x =? i)%nat eqn:E1; destruct (y =? j)%nat eqn:E2; destruct (x =? k)%nat eqn:E3; destruct (y =? i)%nat eqn:E4;
        cbn [andb]; rewrite ?Nat.eqb_eq, ?Nat.eqb_neq in *; subst; try lia.
    + intros x Hx. rewrite !rowsum_adj by auto. specialize (Hr x Hx).
      destruct (x =? i)%nat eqn:E1; destruct (x =? k)%nat eqn:E3; rewrite ?Nat.eqb_eq in *; subst; lia.
    + intros y Hy. rewrite !colsum_adj by auto. specialize (Hc y Hy).
      destruct (y =? i)%nat eqn:E1; destruct (y =? j)%nat eqn:E3; rewrite ?Nat.eqb_eq in *; subst; lia.
    + rewrite !moved_adj by auto. lia.
    + rewrite !cost_adj by auto. rewrite (C_diag i Hi). pose proof (C_tri i j k Hi Ij Ik). lia.
    + unfold dsum. rewrite !diag_adj by auto. rewrite Nat.eqb_refl.
      assert (E1 : (i =? j)%nat = false) by (apply Nat.eqb_neq; auto).
      assert (E2 : (k =? i)%nat = false) by (apply Nat.eqb_neq; auto).
      rewrite E1, E2. destruct (k =? j)%nat; lia.
  - (* column i has room: shorten i->j to i->i *)
    apply find_some in RP. destruct RP as [Ij RP]. apply in_seq0 in Ij.
    assert (j <> i /\ 0 < f i j) as [Nj Pj] by (destruct (j =? i)%nat eqn:E; cbn in RP; [discriminate|apply Nat.eqb_neq in E; lia]).
    assert (CS : colsum n f i = f i i).
    { unfold colsum. apply (zsum_only (fun x => f x i) i Hi). intros x Hx Nx.
      pose proof (find_none _ _ CP x ltac:(apply in_seq0; auto)) as Z. cbn beta in Z.
      assert (E : (x =? i)%nat = false) by (apply Nat.eqb_neq; auto). rewrite E in Z. cbn [negb andb] in Z.
      pose proof (POS x i Hx Hi). lia. }
    exists (adj (adj f i j (-1)) i i 1).
    split; [split; [|split; [|split]]|split].
    + intros x y Hx Hy. apply in_seq0 in Hx. apply in_seq0 in Hy. unfold adj, cell. pose proof (POS x y Hx Hy).
      destruct (x =? i)%nat eqn:E1; destruct (y =? j)%nat eqn:E2; destruct (y =? i)%nat eqn:E4;
        cbn [andb]; rewrite ?Nat.eqb_eq, ?Nat.eqb_neq in *; subst; try lia.
    + intros x Hx. rewrite !rowsum_adj by auto. specialize (Hr x Hx). destruct (x =? i)%nat; lia.
    + intros y Hy. rewrite !colsum_adj by auto. specialize (Hc y Hy). unfold mu in Lt.
      destruct (y =? i)%nat eqn:E1; destruct (y =? j)%nat eqn:E3; rewrite ?Nat.eqb_eq in *; subst; lia.
    + rewrite !moved_adj by auto. lia.
    + rewrite !cost_adj by auto. rewrite (C_diag i Hi). pose proof (C_pos i j Hi Ij). lia.
    + unfold dsum. rewrite !diag_adj by auto. rewrite Nat.eqb_refl.
      assert (E1 : (i =? j)%nat = false) by (apply Nat.eqb_neq; auto). rewrite E1. lia.
  - (* row i has room: shorten k->i to i->i *)
    apply find_some in CP. destruct CP as [Ik CP]. apply in_seq0 in Ik.
    assert (k <> i /\ 0 < f k i) as [Nk Pk] by (destruct (k =? i)%nat eqn:E; cbn in CP; [discriminate|apply Nat.eqb_neq in E; lia]).
    assert (RS : rowsum n f i = f i i).
    { unfold rowsum. apply (zsum_only (fun y => f i y) i Hi). intros y Hy Ny.
      pose proof (find_none _ _ RP y ltac:(apply in_seq0; auto)) as Z. cbn beta in Z.
      assert (E : (y =? i)%nat = false) by (apply Nat.eqb_neq; auto). rewrite E in Z. cbn [negb andb] in Z.
      pose proof (POS i y Hi Hy). lia. }
    exists (adj (adj f k i (-1)) i i 1).
    split; [split; [|split; [|split]]|split].
    + intros x y Hx Hy. apply in_seq0 in Hx. apply in_seq0 in Hy. unfold adj, cell. pose proof (POS x y Hx Hy).
      destruct (x =? i)%nat eqn:E1; destruct (x =? k)%nat eqn:E2; destruct (y =? i)%nat eqn:E4;
        cbn [andb]; rewrite ?Nat.eqb_eq, ?Nat.eqb_neq in *; subst; try lia.
    + intros x Hx. rewrite !rowsum_adj by auto. specialize (Hr x Hx). unfold mu in Lt.
      destruct (x =? i)%nat eqn:E1; destruct (x =? k)%nat eqn:E3; rewrite ?Nat.eqb_eq in *; subst; lia.
    + intros y Hy. rewrite !colsum_adj by auto. specialize (Hc y Hy). destruct (y =? i)%nat; lia.
    + rewrite !moved_adj by auto. lia.
    + rewrite !cost_adj by auto. rewrite (C_diag i Hi). pose proof (C_pos k i Ik Hi). lia.
    + unfold dsum. rewrite !diag_adj by auto. rewrite Nat.eqb_refl.
      assert (E1 : (k =? i)%nat = false) by (apply Nat.eqb_neq; auto). rewrite E1. lia.
  - (* row i and column i carry only f i i: take a unit from some off-diagonal k->l *)
    assert (RS : rowsum n f i = f i i).
    { unfold rowsum. apply (zsum_only (fun y => f i y) i Hi). intros y Hy Ny.
      pose proof (find_none _ _ RP y ltac:(apply in_seq0; auto)) as Z. cbn beta in Z.
      assert (E : (y =? i)%nat = false) by (apply Nat.eqb_neq; auto). rewrite E in Z. cbn [negb andb] in Z.
      pose proof (POS i y Hi Hy). lia. }
    assert (CS : colsum n f i = f i i).
    { unfold colsum. apply (zsum_only (fun x => f x i) i Hi). intros x Hx Nx.
      pose proof (find_none _ _ CP x ltac:(apply in_seq0; auto)) as Z. cbn beta in Z.
      assert (E : (x =? i)%nat = false) by (apply Nat.eqb_neq; auto). rewrite E in Z. cbn [negb andb] in Z.
      pose proof (POS x i Hx Hi). lia. }
    destruct (off_pos f) as [[k l]|] eqn:OP.
    + apply find_some in OP. destruct OP as [Ikl OP]. apply in_prod_iff in Ikl. destruct Ikl as [Ik Il].
      apply in_seq0 in Ik. apply in_seq0 in Il. cbn [fst snd] in OP.
      assert (k <> l /\ 0 < f k l) as [Nkl Pkl] by (destruct (k =? l)%nat eqn:E; cbn in OP; [discriminate|apply Nat.eqb_neq in E; lia]).
      assert (Nki : k <> i).
      { intros ->. pose proof (find_none _ _ RP l ltac:(apply in_seq0; auto)) as Z. cbn beta in Z.
        assert (E : (l =? i)%nat = false) by (apply Nat.eqb_neq; auto). rewrite E in Z. cbn [negb andb] in Z. lia. }
      assert (Nli : l <> i).
      { intros ->. pose proof (find_none _ _ CP k ltac:(apply in_seq0; auto)) as Z. cbn beta in Z.
        assert (E : (k =? i)%nat = false) by (apply Nat.eqb_neq; auto). rewrite E in Z. cbn [negb andb] in Z. lia. }
      exists (adj (adj f k l (-1)) i i 1).
      split; [split; [|split; [|split]]|split].
      * intros x y Hx Hy. apply in_seq0 in Hx. apply in_seq0 in Hy. unfold adj, cell. pose proof (POS x y Hx Hy).
        destruct (x =? i)%nat eqn:E1; destruct (x =? k)%nat eqn:E2; destruct (y =? i)%nat eqn:E4; destruct (y =? l)%nat eqn:E5;
          cbn [andb]; rewrite ?Nat.eqb_eq, ?Nat.eqb_neq in *; subst; try lia.
      * intros x Hx. rewrite !rowsum_adj by auto. specialize (Hr x Hx). unfold mu in Lt.
        destruct (x =? i)%nat eqn:E1; destruct (x =? k)%nat eqn:E3; rewrite ?Nat.eqb_eq in *; subst; lia.
      * intros y Hy. rewrite !colsum_adj by auto. specialize (Hc y Hy). unfold mu in Lt.
        destruct (y =? i)%nat eqn:E1; destruct (y =? l)%nat eqn:E3; rewrite ?Nat.eqb_eq in *; subst; lia.
      * rewrite !moved_adj by auto. lia.
      * rewrite !cost_adj by auto. rewrite (C_diag i Hi). pose proof (C_pos k l Ik Il). lia.
      * unfold dsum. rewrite !diag_adj by auto. rewrite Nat.eqb_refl.
        assert (E1 : (k =? l)%nat = false) by (apply Nat.eqb_neq; auto). rewrite E1. lia.
    + (* no off-diagonal flow at all: then T = sum of the diagonal < sum mu <= T *)
      exfalso.
      assert (OFF : forall x y, (x < n)%nat -> (y < n)%nat -> x <> y -> f x y = 0).
      { intros x y Hx Hy Nxy.
        pose proof (find_none _ _ OP (x, y) ltac:(apply in_prod; apply in_seq0; auto)) as Z. cbn [fst snd] in Z.
        assert (E : (x =? y)%nat = false) by (apply Nat.eqb_neq; auto). rewrite E in Z. cbn [negb andb] in Z.
        pose proof (POS x y Hx Hy). lia. }
      assert (MV : moved n n f = dsum f).
      { unfold moved, dsum, rows. apply zsum_map_ext. intros x Hx. apply in_seq0 in Hx.
        unfold rowsum. apply (zsum_only (fun y => f x y) x Hx). intros y Hy Ny. apply OFF; auto. }
      assert (DL : dsum f < zsum (map mu (seq 0 n))).
      { unfold dsum.
        assert (G : forall l, (forall x, In x l -> (x < n)%nat) -> zsum (map (fun x => f x x) l) <= zsum (map mu l)).
        { intros l Hl. apply zsum_map_le. intros x Hx. apply feas_diag_le; auto. }
        assert (S : zsum (map (fun x => mu x - f x x) (seq 0 n)) >= mu i - f i i).
        { pose proof (zsum_map_term_le (fun x => mu x - f x x) (seq 0 n) i) as X. cbn beta in X.
          assert (mu i - f i i <= zsum (map (fun x => mu x - f x x) (seq 0 n))); [|lia].
          apply X; auto. intros y Hy. apply in_seq0 in Hy. pose proof (feas_diag_le f F y Hy). lia. }
        rewrite (zsum_map_ext (fun x => mu x - f x x) (fun x => mu x + (-1) * f x x)) in S by (intros; lia).
        rewrite zsum_map_add, zsum_map_scale in S. lia. }
      lia.
Qed.

Lemma diag_saturate : forall k f, feasible n n P Q T f ->
  (Z.to_nat (zsum (map mu (seq 0 n)) - dsum f) <= k)%nat ->
  exists f', feasible n n P Q T f' /\ cost n n C f' <= cost n n C f /\ forall i, (i < n)%nat -> f' i i = mu i.
Proof.
  induction k as [|k IH]; intros f F Hk.
  - (* nothing missing *)
    assert (DS : forall g, feasible n n P Q T g -> dsum g <= zsum (map mu (seq 0 n)))
      by (intros g G; unfold dsum; apply zsum_map_le; intros x Hx; apply feas_diag_le; auto; apply in_seq0; auto).
    exists f. split; auto. split; [lia|]. intros i Hi.
    destruct (Z_lt_dec (f i i) (mu i)) as [L|L]; [|pose proof (feas_diag_le f F i Hi); lia].
    destruct (diag_step f i F Hi L) as [f1 [F1 [_ D1]]]. pose proof (DS f1 F1). pose proof (DS f F). lia.
  - destruct (find (fun i => f i i <? mu i) (seq 0 n)) as [i|] eqn:FD.
    + apply find_some in FD. destruct FD as [Ii L]. apply in_seq0 in Ii.
      destruct (diag_step f i F Ii ltac:(lia)) as [f1 [F1 [C1 D1]]].
      destruct (IH f1 F1 ltac:(lia)) as [f' [F' [C' D']]].
      exists f'. split; auto. split; [lia|auto].
    + exists f. split; auto. split; [lia|]. intros i Hi.
      pose proof (find_none _ _ FD i ltac:(apply in_seq0; auto)) as Z. cbn beta in Z.
      pose proof (feas_diag_le f F i Hi). lia.
Qed.

(* adding / removing a diagonal flow *)
Definition plusd (h : nat -> nat -> Z) (s : nat -> Z) : nat -> nat -> Z :=
  fun i j => h i j + (if (i =? j)%nat then s i else 0).

Lemma rowsum_plusd h s i : (i < n)%nat -> rowsum n (plusd h s) i = rowsum n h i + s i.
Proof.
  intros Hi. unfold rowsum, cols, plusd. rewrite zsum_map_add.
  rewrite (zsum_map_ext (fun j => if (i =? j)%nat then s i else 0) (fun j => s i * (if (j =? i)%nat then 1 else 0))).
  - rewrite zsum_map_scale, zsum_ind_in by lia. fin.
  - intros j _. rewrite (Nat.eqb_sym i j). destruct (j =? i)%nat; lia.
Qed.
Lemma colsum_plusd h s j : (j < n)%nat -> colsum n (plusd h s) j = colsum n h j + s j.
Proof.
  intros Hj. unfold colsum, rows, plusd. rewrite zsum_map_add.
  rewrite (zsum_map_ext (fun i => if (i =? j)%nat then s i else 0) (fun i => s j * (if (i =? j)%nat then 1 else 0))).
  - rewrite zsum_map_scale, zsum_ind_in by lia. fin.
  - intros i _. destruct (i =? j)%nat eqn:E; [apply Nat.eqb_eq in E; subst|]; lia.
Qed.
Lemma moved_plusd h s : moved n n (plusd h s) = moved n n h + zsum (map s (seq 0 n)).
Proof.
  unfold moved, rows. rewrite <- zsum_map_add. apply zsum_map_ext. intros i Hi. apply in_seq0 in Hi.
  apply rowsum_plusd; auto.
Qed.
Lemma cost_plusd h s : cost n n C (plusd h s) = cost n n C h.
Proof.
  unfold cost, rows, cols. apply zsum_map_ext. intros i Hi. apply in_seq0 in Hi. unfold plusd.
  rewrite (zsum_map_ext _ (fun j => C i j * h i j + (C i i * s i) * (if (j =? i)%nat then 1 else 0))).
  - rewrite zsum_map_add, zsum_map_scale, zsum_ind_in by lia. rewrite (C_diag i Hi). fin.
  - intros j _. rewrite (Nat.eqb_sym i j). destruct (j =? i)%nat eqn:E; [apply Nat.eqb_eq in E; subst|]; lia.
Qed.

Hypothesis P_pos : forall i, (i < n)%nat -> 0 <= P i.
Hypothesis Q_pos : forall i, (i < n)%nat -> 0 <= Q i.
Definition P' (i : nat) : Z := P i - mu i.
Definition Q' (i : nat) : Z := Q i - mu i.
Definition T' : Z := T - zsum (map mu (seq 0 n)).

Lemma reduced_to_full h : feasible n n P' Q' T' h -> feasible n n P Q T (plusd h mu).
Proof.
  intros [Hpos [Hr [Hc Hm]]]. split; [|split; [|split]].
  - intros i j Hi Hj. specialize (Hpos i j Hi Hj). apply in_seq0 in Hi. unfold plusd.
    pose proof (P_pos i Hi). pose proof (Q_pos i Hi). unfold mu. destruct (i =? j)%nat; lia.
  - intros i Hi. specialize (Hr i Hi). apply in_seq0 in Hi. rewrite rowsum_plusd by auto. unfold P' in Hr. lia.
  - intros j Hj. specialize (Hc j Hj). apply in_seq0 in Hj. rewrite colsum_plusd by auto. unfold Q' in Hc. lia.
  - rewrite moved_plusd. unfold T' in Hm. lia.
Qed.
Lemma full_to_reduced f : feasible n n P Q T f -> (forall i, (i < n)%nat -> f i i = mu i) ->
  feasible n n P' Q' T' (plusd f (fun i => - mu i)).
Proof.
  intros [Hpos [Hr [Hc Hm]]] D. split; [|split; [|split]].
  - intros i j Hi Hj. specialize (Hpos i j Hi Hj). apply in_seq0 in Hi. unfold plusd.
    destruct (i =? j)%nat eqn:E; [apply Nat.eqb_eq in E; subst j; rewrite D by auto|]; lia.
  - intros i Hi. specialize (Hr i Hi). apply in_seq0 in Hi. rewrite rowsum_plusd by auto. unfold P'. lia.
  - intros j Hj. specialize (Hc j Hj). apply in_seq0 in Hj. rewrite colsum_plusd by auto. unfold Q'. lia.
  - rewrite moved_plusd. unfold T'.
    rewrite (zsum_map_ext (fun i => - mu i) (fun i => (-1) * mu i)) by (intros; lia). rewrite zsum_map_scale. lia.
Qed.

(* emd_hat_gd_metric's pre-flow is sound: the optimum of the instance equals the optimum of the
   residual instance P - min(P,Q), Q - min(P,Q) that is handed to the common implementation
   (the pre-flowed units travel at cost C i i = 0) *)
Theorem diag_preflow_optimal d : is_opt n n P Q C T d <-> is_opt n n P' Q' C T' d.
Proof.
  split; intros [[f [Ff Ef]] LB]; split.
  - destruct (diag_saturate _ f Ff (Nat.le_refl _)) as [f' [F' [C' D']]].
    exists (plusd f' (fun i => - mu i)). split; [apply full_to_reduced; auto|].
    rewrite cost_plusd. specialize (LB f' F'). lia.
  - intros h Fh. specialize (LB _ (reduced_to_full h Fh)). rewrite cost_plusd in LB. exact LB.
  - exists (plusd f mu). split; [apply reduced_to_full; auto|]. rewrite cost_plusd. exact Ef.
  - intros g Fg. destruct (diag_saturate _ g Fg (Nat.le_refl _)) as [g' [G' [C' D']]].
    specialize (LB _ (full_to_reduced g' G' D')). rewrite cost_plusd in LB. lia.
Qed.
End Metric.

(* the hypotheses are satisfiable: the line metric |i-j| on 3 bins, T = min(sum P, sum Q) *)
Example metric_hyps_example :
  let C := fun i j : nat => Z.abs (Z.of_nat i - Z.of_nat j) in
  let P := nz [4; 0; 3] in let Q := nz [1; 5; 2] in
  (forall i, (i < 3)%nat -> C i i = 0) /\ (forall i j, (i < 3)%nat -> (j < 3)%nat -> 0 <= C i j) /\
  (forall i j k, (i < 3)%nat -> (j < 3)%nat -> (k < 3)%nat -> C k j <= C k i + C i j) /\
  zsum (map (mu P Q) (seq 0 3)) <= 7.
Proof. cbv zeta. repeat split; intros; try lia. vm_compute. discriminate. Qed.
