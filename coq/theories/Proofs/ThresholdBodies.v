(* C11 — range facts about the numerical bodies of Background, Kapur and RobustBackground, stated on the
   formulas REGENERATED from threshold.py (Gen.ThresholdC11.background_value, kapur_level, robust_defaults) and on
   the executable reference model Model.RobustQ (tied by the correspondence stream `rob`). *)
From Coq Require Import ZArith QArith List Bool Lia Lqa String.
From Centro Require Import Base.Sx Base.ThresholdNum Model.ThresholdLang Model.OtsuQ Model.RobustQ Gen.ThresholdC11 Proofs.OtsuProofs.
Import ListNotations.
Open Scope Q_scope.

Lemma div_unit x c : 0 < c -> 0 <= x -> x <= c -> 0 <= x / c /\ x / c <= 1.
Proof.
  intros Hc H0 H1. split.
  - apply Qle_shift_div_l; [exact Hc|]. rewrite Qmult_0_l. exact H0.
  - apply Qle_shift_div_r; [exact Hc|]. rewrite Qmult_1_l. exact H1.
Qed.

(* Background: whatever bin the histogram's arg-max is, the value lies in [min, min + 2 (max - min)]
   (the method may exceed the largest intensity: that is why it is not in the bracket clause S5) *)
Theorem background_value_range_lemma index mn mx :
  0 <= index -> index <= inject_Z (background_nbins - 1) -> mn <= mx ->
  mn <= background_value index mn mx /\ background_value index mn mx <= mn + (2 # 1) * (mx - mn).
Proof.
  intros H0 H1 Hm. unfold background_value, background_nbins in *. change (inject_Z (256 - 1)) with (255 # 1) in H1.
  destruct (div_unit index ((256 # 1) - (1 # 1))) as [A0 A1]; [reflexivity|exact H0|lra|].
  set (w := index / ((256 # 1) - (1 # 1))) in *.
  destruct (div_unit (w + (5764607523034235 # 288230376151711744)) (1170935903116329 # 1125899906842624)) as [U0 U1];
    [reflexivity|lra|lra|].
  set (u := (w + (5764607523034235 # 288230376151711744)) / (1170935903116329 # 1125899906842624)) in *.
  split; nra.
Qed.

(* Kapur: every level of the log2 histogram, hence the mean of two adjacent levels, lies between the smallest and
   the largest log2 intensity (2 ** . is monotone: the threshold is between the smallest and largest smoothed value) *)
Theorem kapur_level_range_lemma i lo hi :
  0 <= i -> i <= inject_Z (kapur_nlevels - 1) -> lo <= hi ->
  lo <= kapur_level i lo hi /\ kapur_level i lo hi <= hi.
Proof.
  intros H0 H1 Hl. unfold kapur_level, kapur_nlevels in *. change (inject_Z (256 - 1)) with (255 # 1) in H1.
  assert (A : 0 <= (hi - lo) * i / (255 # 1)) by (apply Qle_shift_div_l; [reflexivity|nra]).
  assert (B : (hi - lo) * i / (255 # 1) <= hi - lo) by (apply Qle_shift_div_r; [reflexivity|nra]).
  split; lra.
Qed.
Theorem kapur_midpoint_range_lemma i j lo hi :
  0 <= i -> i <= inject_Z (kapur_nlevels - 1) -> 0 <= j -> j <= inject_Z (kapur_nlevels - 1) -> lo <= hi ->
  lo <= (kapur_level i lo hi + kapur_level j lo hi) / (2 # 1) /\ (kapur_level i lo hi + kapur_level j lo hi) / (2 # 1) <= hi.
Proof.
  intros. destruct (kapur_level_range_lemma i lo hi) as [A B]; auto.
  destruct (kapur_level_range_lemma j lo hi) as [C D]; auto.
  split; [apply Qle_shift_div_l|apply Qle_shift_div_r]; try reflexivity; lra.
Qed.

(* RobustBackground: defaults of the regenerated signature, and the mean of the trimmed sample lies between the
   smallest and the largest value (so mean + deviations * std >= min for deviations >= 0) *)
Lemma robust_defaults_lemma :
  map (fun d => (fst (fst d), snd (fst d))) robust_defaults =
    [("lower_outlier_fraction", "0.05"); ("upper_outlier_fraction", "0.05"); ("deviations_above_average", "2.0")]%string /\
  robust_default_fns = ["np.mean"; "np.std"]%string.
Proof. split; reflexivity. Qed.

Lemma zsum_bounds lo hi l : (forall x, In x l -> (lo <= x <= hi)%Z) ->
  (lo * Z.of_nat (List.length l) <= zsum l <= hi * Z.of_nat (List.length l))%Z.
Proof.
  induction l as [|y l IH]; intros H; [cbn; lia|].
  change (zsum (y :: l)) with (y + zsum l)%Z. cbn [List.length]. rewrite Nat2Z.inj_succ.
  pose proof (H y (or_introl eq_refl)). pose proof (IH (fun x Hx => H x (or_intror Hx))). nia.
Qed.
Lemma in_firstn_l {X} a (l : list X) x : In x (firstn a l) -> In x l.
Proof. revert l. induction a as [|a IH]; intros [|y l]; cbn; try tauto. intros [H|H]; [left; exact H|right; apply IH; exact H]. Qed.
Lemma in_skipn_l {X} b (l : list X) x : In x (skipn b l) -> In x l.
Proof. revert l. induction b as [|b IH]; intros [|y l]; cbn; try tauto. intros H. right. apply IH. exact H. Qed.

(* the trimmed sample is part of the data, so its mean lies between the smallest and the largest value *)
Theorem robust_mean_range_lemma data lof uof lo hi :
  (forall x, In x data -> (lo <= x <= hi)%Z) ->
  let im := snd (robust_trim (zsort data) lof uof) in
  im <> [] ->
  inject_Z lo <= fst (mean_var im) /\ fst (mean_var im) <= inject_Z hi.
Proof.
  intros Hall im Hne.
  assert (Him : forall x, In x im -> (lo <= x <= hi)%Z).
  { intros x Hx. apply Hall. apply Proofs.OtsuProofs.in_zsort. unfold im, robust_trim in Hx. cbn [snd] in Hx.
    destruct (_ =? 0)%Z; [exact Hx|]. apply in_skipn_l with (b := Z.to_nat (py_round (fmul (inject_Z (Z.of_nat (List.length (zsort data)))) lof))).
    eapply in_firstn_l. exact Hx. }
  pose proof (zsum_bounds lo hi im Him) as [B1 B2].
  assert (Hk : (0 < Z.of_nat (List.length im))%Z) by (destruct im; [congruence|cbn [List.length]; lia]).
  unfold mean_var. cbn [fst]. unfold Qle. cbn [Qnum Qden inject_Z]. rewrite Z2Pos.id by exact Hk. lia.
Qed.

From Centro Require Import Proofs.ThresholdCrop.
Lemma body_methods_crop_first_lemma :
  (forall f, In f ["get_kapur_threshold"; "get_background_threshold"; "get_robust_background_threshold"]%string ->
     exists acc, In (f, acc) threshold_access /\ forallb access_ok acc = true /\
                 (forall a, In a acc -> a = CropMask \/ a = WholeIfNoMask)) /\
  (forall (A T : Type) (G : list A -> T) H W mask a b,
     agree A H W mask a b -> G (crop A H W a mask) = G (crop A H W b mask)).
Proof.
  split; [|exact crop_first_noninterference_lemma].
  intros f Hf. cbn in Hf.
  destruct Hf as [E|[E|[E|[]]]]; subst f; eexists; (split; [unfold threshold_access; cbn; tauto|]);
    (split; [reflexivity|]); intros a Ha; cbn in Ha; intuition (subst; auto).
Qed.
