(* C18 — soundness of the boolean checkers that are run on the implementation's output. *)
From Coq Require Import ZArith List Bool Arith Lia Sorted Permutation RelationClasses.
From Centro Require Import Base.SortC18 Model.VecC18 Spec.SpecC18 Proofs.BinsC18Lemmas.
Import ListNotations.
Local Open Scope nat_scope.

Lemma zsorted_ltb_sorted v : zsorted_ltb v = true -> StronglySorted Z.lt v.
Proof.
  intros H. apply Sorted_StronglySorted. { intros x y z; apply Z.lt_trans. }
  induction v as [|x v IH]; [constructor|]. destruct v as [|y v]; [repeat constructor|].
  change (zsorted_ltb (x :: y :: v)) with ((x <? y)%Z && zsorted_ltb (y :: v)) in H.
  apply andb_true_iff in H as (A & B). constructor; [auto|]. constructor. apply Z.ltb_lt. exact A.
Qed.

Lemma forallb2_nth {A B} (f : A -> B -> bool) l1 l2 d1 d2 : forallb2 f l1 l2 = true ->
  length l1 = length l2 /\ forall i, i < length l1 -> f (nth i l1 d1) (nth i l2 d2) = true.
Proof.
  revert l2. induction l1 as [|a l1 IH]; intros [|b l2] H; cbn [forallb2] in H; try discriminate.
  - split; [reflexivity|]. intros i Hi; cbn in Hi; lia.
  - apply andb_true_iff in H as (H0 & H1). destruct (IH l2 H1) as (L & N). split; [cbn [length]; lia|].
    intros [|i] Hi; cbn [nth]; [exact H0|]. apply N. cbn [length] in Hi. lia.
Qed.

Lemma memz_In x l : memz x l = true <-> In x l.
Proof.
  unfold memz. rewrite existsb_exists. split.
  - intros (y & Hy & E). apply Z.eqb_eq in E. subst; exact Hy.
  - intros H. exists x. split; [exact H|apply Z.eqb_refl].
Qed.

Theorem rank_iso_check_sound image r v : rank_iso_check image r v = true -> rank_iso_spec image r v.
Proof.
  unfold rank_iso_check. intros H. apply andb_true_iff in H as (H & HM). apply andb_true_iff in H as (HSo & HF).
  apply zsorted_ltb_sorted in HSo. destruct (forallb2_nth _ _ _ 0 0%Z HF) as (HL & HN).
  rewrite forallb_forall in HM.
  assert (forall i, i < length image -> getn r i < length v /\ getz v (getn r i) = getz image i) as HP.
  { intros i Hi. specialize (HN i ltac:(lia)). apply andb_true_iff in HN as (A & B).
    apply Nat.ltb_lt in A. apply Z.eqb_eq in B. split; assumption. }
  unfold rank_iso_spec. split; [exact HL|]. split; [exact HSo|]. split; [exact HP|]. split.
  - intros i j Hi Hj. destruct (HP i Hi) as (Li & Ei), (HP j Hj) as (Lj & Ej). rewrite <- Ei, <- Ej. unfold getz. split.
    + intros Hlt. destruct (Nat.lt_trichotomy (getn r i) (getn r j)) as [L|[E|G]]; [exact L| |].
      * rewrite E in Hlt. lia.
      * pose proof (sorted_lt_nth v _ _ HSo (conj G Li)). lia.
    + intros L. apply (sorted_lt_nth v _ _ HSo (conj L Lj)).
  - intros x. split.
    + intros Hx. apply memz_In. apply HM. exact Hx.
    + intros Hx. destruct (In_nth image x 0%Z Hx) as (i & Hi & <-). destruct (HP i Hi) as (Li & Ei).
      unfold getz in Ei. rewrite <- Ei. apply nth_In. exact Li.
Qed.

Theorem bins_check_sound image nbins r v : bins_check image nbins r v = true -> bins_text_spec image nbins r v.
Proof.
  unfold bins_check. intros H. apply andb_true_iff in H as (H & HM). apply andb_true_iff in H as (H & HP).
  apply andb_true_iff in H as (H & HR). apply andb_true_iff in H as (HL & HV).
  apply Nat.eqb_eq in HL. apply Nat.leb_le in HV. rewrite forallb_forall in HR, HM, HP.
  unfold bins_text_spec. split; [exact HL|]. split; [exact HV|]. split; [|split].
  - intros i Hi. apply Nat.ltb_lt. apply HR. unfold getn. apply nth_In. lia.
  - intros i j Hi Hj Hle.
    assert (forall k, k < length image -> In (getz image k, getn r k) (combine image r)) as HIn.
    { intros k Hk. unfold getz, getn. rewrite <- combine_nth by lia. apply nth_In. rewrite combine_length. lia. }
    specialize (HP _ (HIn i Hi)). rewrite forallb_forall in HP. specialize (HP _ (HIn j Hj)).
    cbn [fst snd] in HP. destruct (Z.leb_spec (getz image i) (getz image j)); [|lia].
    cbn [implb] in HP. apply Nat.leb_le. exact HP.
  - intros x Hx. apply memz_In. apply HM. exact Hx.
Qed.

Example rank_iso_check_ex : rank_iso_check [30; -10; 30; 5; -10]%Z [2; 0; 2; 1; 0] [-10; 5; 30]%Z = true.
Proof. vm_compute. reflexivity. Qed.
Example bins_check_ex : bins_check [4;4;5;5;0;0;1;1;2;3;6;7;7;7]%Z 4 [0;0;1;1;0;0;0;0;0;0;1;2;2;2] [0;5;7]%Z = true.
Proof. vm_compute. reflexivity. Qed.
