(* C05 - the end-pixel lemma discharges the hypothesis of [shrink_to_point_partial]:
   binary_shrink run to convergence reduces every connected hole-free image to exactly one pixel. *)
From Coq Require Import ZArith NArith List Bool Lia.
From Centro Require Import Base.Topo Base.Skel Base.TopoPar Base.TopoGrid Gen.TablesC05.
From Centro Require Import Model.ThinSkel Proofs.TopoSwShrinkEnd Proofs.ShrinkPoint Proofs.EndPixel.
Import ListNotations.
Open Scope Z_scope.

Theorem end_pixel_lemma : EndPixelLemma.
Proof.
  intros H W g Hg HC HH [a [b [Nab [Va Vb]]]].
  assert (Nb : exists y, adj8 a y /\ img_of g y = true).
  { pose proof (HC a b Va Vb) as P. inversion P as [? ? E1 E2 | ? y ? Fa A Pyb]; subst; [contradiction|].
    exists y. split; [exact A|exact (path_start _ _ _ _ Pyb)]. }
  destruct (end_pixel_fin (length (raster H W)) (img_of g) (raster H W) (le_n _)) with (x := a) (q := a)
    as [e [Ve [Ee _]]]; [|exact HH|exact Va|exact Nb|].
  - intros q Vq. apply raster_complete. destruct Hg as [LH LW]. apply (img_of_frame g H W q LH LW Vq).
  - exists e. split; [exact Ve|exact Ee].
Qed.

Theorem shrink_to_point : forall H W g, wf H W g -> connected (img_of g) -> hole_free (img_of g) ->
  (exists a, img_of g a = true) ->
  exists q, forall p, img_of (shrink_model H W (-1) g) p = true <-> p = q.
Proof. exact (shrink_to_point_partial end_pixel_lemma). Qed.

(* the premises are satisfiable on a non-trivial input: the 2x2 block *)
Example shrink_to_point_premises :
  let g := [[true; true]; [true; true]] in
  wf 2 2 g /\ (exists a, img_of g a = true) /\ shrink_model 2 2 (-1) g = [[true; false]; [false; false]].
Proof.
  cbv zeta. split; [split; [reflexivity|intros r [<-|[<-|[]]]; reflexivity]|]. split; [exists (0, 0); reflexivity|vm_compute; reflexivity].
Qed.
Print Assumptions shrink_to_point.
