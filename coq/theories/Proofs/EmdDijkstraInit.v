(* C10 — the Dijkstra invariant holds for the heap built at the start of compute_shortest_path,
   hence dijkstra_labels_shortest for every call, and the reduced costs handed back by
   compute_shortest_path are non-negative on every residual arc (the potential-update half of
   ssp_reduced_costs_nonneg). *)
From Coq Require Import ZArith List Bool Lia ZifyBool.
From Centro Require Import Base.Sx Base.EmdBase Model.Emd Model.EmdMcf
  Proofs.EmdHeap Proofs.EmdHeapPos Proofs.EmdHeapOrd Proofs.EmdHeapMem Proofs.EmdDijkstra Proofs.EmdPotential.
Import ListNotations.
Open Scope Z_scope.

Lemma heap_init_slots nv from : (from < nv)%nat ->
  slot (heap_init nv from) 0 = Some (from, 0) /\
  (forall p, (0 < p < nv)%nat -> exists w, slot (heap_init nv from) p = Some (w, INTMAX)) /\
  (forall v, (v < nv)%nat -> is_entry (heap_init nv from) v).
Proof.
  intros H. unfold heap_init, slot, is_entry, oget. cbn [fst].
  set (L := filter (fun i => negb (i =? from)%nat) (seq 0 nv)).
  assert (LL : S (length L) = nv).
  { destruct (heap_init_ok nv from H) as [_ [A _]]. unfold heap_init in A. cbn [fst length] in A. rewrite map_length in A. exact A. }
  split; [reflexivity|]. split.
  - intros p Hp. destruct p as [|p]; [lia|]. cbn [nth_error].
    destruct (nth_error L p) as [w|] eqn:E; [|apply nth_error_None in E; lia].
    exists w. apply (map_nth_error (fun i : nat => (i, INTMAX)) p L E).
  - intros v Hv. destruct (Nat.eq_dec v from) as [->|N].
    + exists O, (from, 0). auto.
    + assert (IN : In v L) by (apply filter_In; split; [apply in_seq; lia|apply negb_true_iff, Nat.eqb_neq; auto]).
      destruct (In_nth_error _ _ IN) as [p Ep]. exists (S p), (v, INTMAX). cbn [nth_error].
      split; [apply (map_nth_error (fun i : nat => (i, INTMAX)) p L Ep)|reflexivity].
Qed.

Lemma heap_init_ord nv from : (from < nv)%nat -> heap_ord (heap_init nv from).
Proof.
  intros H k Hk. destruct (heap_init_slots nv from H) as [S0 [SP _]].
  assert (SZ : hsize (heap_init nv from) = nv) by (destruct (heap_init_ok nv from H) as [_ [A _]]; exact A).
  rewrite SZ in Hk. destruct (SP k Hk) as [w Hw]. rewrite (has_key _ _ _ _ Hw).
  pose proof (PARENT_lt k ltac:(lia)) as PL.
  destruct (Nat.eq_dec (PARENT k) 0) as [E|E].
  - rewrite E, (has_key _ _ _ _ S0). unfold INTMAX. lia.
  - destruct (SP (PARENT k) ltac:(lia)) as [w' Hw']. rewrite (has_key _ _ _ _ Hw'). lia.
Qed.

Section Init.
Variable nv : nat.
Variable e : list Z.
Variable rf : list (list (nat * Z)).
Variable rb : list (list (nat * Z * Z)).
Hypothesis RA : forall u v rc, res_arc rf rb u v rc -> (v < nv)%nat /\ 0 <= rc.

Lemma J_init d prev from : (from < nv)%nat -> length d = nv ->
  J nv rf rb {| sp_h := heap_init nv from; sp_d := d; sp_prev := prev; sp_final := repeat false nv |}.
Proof.
  intros H LD. unfold J. cbn [sp_h sp_d sp_final].
  destruct (heap_init_ok nv from H) as [EO [L1 L2]]. destruct (heap_init_slots nv from H) as [_ [_ EN]].
  assert (FF : forall v, fn {| sp_h := heap_init nv from; sp_d := d; sp_prev := prev; sp_final := repeat false nv |} v = false).
  { intros v. unfold fn, fin. cbn [sp_final]. destruct (Nat.lt_ge_cases v nv); [apply nth_repeat|apply nth_overflow; rewrite repeat_length; auto]. }
  split; [repeat split; auto; [apply heap_init_ord; auto|apply heap_init_pos; auto]|].
  split; auto. split; [apply repeat_length|].
  split; [intros; apply EN; auto|].
  split; [intros v [p [en [Hp E]]]; split; [apply FF|]; subst v; rewrite <- L2; apply EO; unfold slot in Hp; eapply nth_error_In; eauto|].
  split; [intros a b rc Fa; rewrite FF in Fa; discriminate|].
  split; [intros a w k Fa; rewrite FF in Fa; discriminate|].
  intros v Fv. rewrite FF in Fv. discriminate.
Qed.

(* dijkstra_labels_shortest, for the call made by compute_shortest_path *)
Theorem dijkstra_labels_shortest d prev from st l : (from < nv)%nat -> length d = nv ->
  dijkstra (S nv) e rf rb {| sp_h := heap_init nv from; sp_d := d; sp_prev := prev; sp_final := repeat false nv |}
    = Some (st, l) ->
  Post nv rf rb st l.
Proof. intros H LD E. eapply dijkstra_inv; eauto. apply J_init; auto. Qed.

(* ssp_reduced_costs_nonneg, potential-update half: every residual arc of the lists handed back by
   compute_shortest_path has a non-negative reduced cost (targets unchanged) *)
Theorem csp_residual_nonneg d prev from dd' prev' rf' rb' l :
  (from < nv)%nat -> length d = nv -> length rf = nv -> length rb = nv ->
  compute_shortest_path nv d prev from rf rb e = Some (dd', prev', rf', rb', l) ->
  forall u v rc, res_arc rf' rb' u v rc -> (v < nv)%nat /\ 0 <= rc.
Proof.
  intros H LD LRF LRB. unfold compute_shortest_path.
  destruct (dijkstra (S nv) e rf rb _) as [[st l0]|] eqn:ED; [|discriminate]. cbn [bind].
  intros X. injection X as <- <- <- <- <-.
  pose proof (dijkstra_labels_shortest _ _ _ _ _ H LD ED) as [FL [LL [P1 [P2 P3]]]].
  assert (UPD : forall u v rc, res_arc rf rb u v rc -> 0 <= rc_update (sp_final st) (sp_d st) (nz (sp_d st) l0) u v rc).
  { intros u v rc R. destruct (RA _ _ _ R) as [_ R0]. apply rc_update_nonneg; auto.
    - intros A B. apply (P1 u v rc R A B).
    - intros A B. apply (P2 u v rc R A B).
    - intros B. apply (P3 v B). }
  intros u v rc [Hin|[cap [Hin Hc]]].
  - destruct (Nat.lt_ge_cases u nv) as [Lu|Lu];
      [|rewrite (nth_overflow _ []) in Hin by (rewrite map_length, combine_length, seq_length; lia); destruct Hin].
    rewrite (nth_indep _ [] (map (fun en : nat * Z => (fst en, rc_update (sp_final st) (sp_d st) (nz (sp_d st) l0) (fst (O, @nil (nat*Z))) (fst en) (snd en))) (snd (O, @nil (nat*Z))))) in Hin
      by (rewrite map_length, combine_length, seq_length; lia).
    rewrite (map_nth (fun fx : nat * list (nat * Z) => map (fun en => (fst en, rc_update (sp_final st) (sp_d st) (nz (sp_d st) l0) (fst fx) (fst en) (snd en))) (snd fx))) in Hin.
    rewrite combine_nth in Hin by (rewrite seq_length; lia). rewrite seq_nth in Hin by auto. cbn [fst snd plus] in Hin.
    apply in_map_iff in Hin. destruct Hin as [[v0 rc0] [Eq Hin0]]. cbn [fst snd] in Eq. injection Eq as <- <-.
    assert (R : res_arc rf rb u v0 rc0) by (left; auto). destruct (RA _ _ _ R). split; auto.
  - destruct (Nat.lt_ge_cases u nv) as [Lu|Lu];
      [|rewrite (nth_overflow _ []) in Hin by (rewrite map_length, combine_length, seq_length; lia); destruct Hin].
    rewrite (nth_indep _ [] (map (fun en : nat * Z * Z => (fst (fst en), rc_update (sp_final st) (sp_d st) (nz (sp_d st) l0) (fst (O, @nil (nat*Z*Z))) (fst (fst en)) (snd (fst en)), snd en)) (snd (O, @nil (nat*Z*Z))))) in Hin
      by (rewrite map_length, combine_length, seq_length; lia).
    rewrite (map_nth (fun fx : nat * list (nat * Z * Z) => map (fun en => (fst (fst en), rc_update (sp_final st) (sp_d st) (nz (sp_d st) l0) (fst fx) (fst (fst en)) (snd (fst en)), snd en)) (snd fx))) in Hin.
    rewrite combine_nth in Hin by (rewrite seq_length; lia). rewrite seq_nth in Hin by auto. cbn [fst snd plus] in Hin.
    apply in_map_iff in Hin. destruct Hin as [[[v0 rc0] cap0] [Eq Hin0]]. cbn [fst snd] in Eq. injection Eq as <- <- <-.
    assert (R : res_arc rf rb u v0 rc0) by (right; exists cap0; auto). destruct (RA _ _ _ R). split; auto.
Qed.
End Init.

(* the hypothesis RA is satisfiable: 3 nodes, arcs 0->1 (2), 0->2 (5), 1->2 (1), no flow yet; and the
   call really returns *)
Example csp_example :
  let rf := [[(1%nat, 2); (2%nat, 5)]; [(2%nat, 1)]; []] in
  let rb := [[]; [(O, -2, 0)]; [(O, -5, 0); (1%nat, -1, 0)]] in
  (forall u v rc, res_arc rf rb u v rc -> (v < 3)%nat /\ 0 <= rc) /\
  exists r, compute_shortest_path 3 [0; 0; 0] [O; O; O] 0 rf rb [1; 0; -1] = Some r.
Proof.
  cbv zeta. split.
  - intros u v rc [H|[cap [H Hc]]]; destruct u as [|[|[|u]]]; cbn [nth] in H;
      try (destruct u; cbn [nth] in H); cbn [In] in H;
      repeat (destruct H as [H|H]; [inversion H; subst; split; lia|]); try destruct H.
  - eexists. vm_compute. reflexivity.
Qed.
