(* C10 — the model's solver never runs out of fuel: every augmentation lowers the total positive
   excess by at least one unit, so level k of the binary fuel (2^k augmentations) suffices whenever
   the total supply is below 2^k.  With int32 masses and fewer than 2^16 bins, 48 levels suffice. *)
From Coq Require Import ZArith List Bool Lia ZifyBool.
From Centro Require Import Base.Sx Base.EmdBase Spec.Emd Model.Emd Proofs.EmdDuality Proofs.EmdModel Proofs.EmdSsp.
Import ListNotations.
Open Scope Z_scope.

Definition pos_sum (e : list Z) : Z := zsum (map (Z.max 0) e).

Lemma pos_sum_nonneg e : 0 <= pos_sum e.
Proof. unfold pos_sum. apply zsum_map_nonneg. intros; lia. Qed.

Lemma pick_supply_spec : forall e i best k ms kk, pick_supply e i best k = (ms, kk) ->
  (ms = best /\ kk = k) \/ (best < ms /\ (i <= kk)%nat /\ nth (kk - i) e 0 = ms).
Proof.
  induction e as [|x e IH]; intros i best k ms kk; cbn [pick_supply].
  - intros H. injection H as <- <-. left. auto.
  - destruct (best <? x) eqn:E; intros H.
    + destruct (IH _ _ _ _ _ H) as [[-> ->]|[A [B C]]].
      * right. split; [lia|]. split; [lia|]. rewrite Nat.sub_diag. reflexivity.
      * right. split; [lia|]. split; [lia|]. replace (kk - i)%nat with (S (kk - S i)) by lia. exact C.
    + destruct (IH _ _ _ _ _ H) as [[-> ->]|[A [B C]]]; [left; auto|].
      right. split; [lia|]. split; [lia|]. replace (kk - i)%nat with (S (kk - S i)) by lia. exact C.
Qed.

Lemma pick_deficit_spec : forall e d i best dd l, pick_deficit e d i best = Some (dd, l) ->
  (exists b, best = Some (b, l)) \/ ((i <= l)%nat /\ nth (l - i) e 0 < 0).
Proof.
  induction e as [|x e IH]; intros d i best dd l; cbn [pick_deficit].
  - intros H. left. exists dd. exact H.
  - destruct d as [|dv dr]; [intros H; left; exists dd; exact H|].
    intros H. apply IH in H. destruct H as [[b Hb]|[A B]].
    + destruct dv as [di|]; [|left; exists b; auto].
      destruct (x <? 0) eqn:E; [|left; exists b; auto].
      destruct best as [[b0 l0]|].
      * destruct (di <? b0); [|left; exists b; auto].
        injection Hb as -> ->. right. split; [lia|]. rewrite Nat.sub_diag. cbn [nth]. lia.
      * injection Hb as -> ->. right. split; [lia|]. rewrite Nat.sub_diag. cbn [nth]. lia.
    + right. split; [lia|]. replace (l - i)%nat with (S (l - S i)) by lia. exact B.
Qed.

Lemma path_delta_le arcs path : forall d0, path_delta arcs path d0 <= d0.
Proof.
  unfold path_delta. induction path as [|st path IH]; intros d0; cbn [fold_left]; [lia|].
  destruct (snd st); [apply IH|]. etransitivity; [apply IH|]. lia.
Qed.

Lemma pos_sum_upd e i g : (i < length e)%nat ->
  pos_sum (upd e i g) = pos_sum e + Z.max 0 (g (nz e i)) - Z.max 0 (nz e i).
Proof. intros H. unfold pos_sum, nz. apply (zsum_map_upd (Z.max 0) g 0 e i H). Qed.

Lemma ssp_step_decreases e arcs e' arcs' :
  ssp_step e arcs = More e' arcs' -> pos_sum e' + 1 <= pos_sum e.
Proof.
  unfold ssp_step.
  destruct (pick_supply e 0 0 0) as [ms k] eqn:PS.
  destruct (ms =? 0) eqn:E0; [discriminate|].
  destruct (bellman (length e) arcs (setnth (repeat None (length e)) k (Some 0)) (repeat None (length e))) as [d p].
  destruct (pick_deficit e d 0 None) as [[dd l]|] eqn:PD; [|discriminate].
  destruct (trace (S (length e)) arcs p k l []) as [path|]; [|discriminate].
  set (dl := path_delta arcs path ms).
  destruct ((0 <? dl) && (k <? length e)%nat && (l <? length e)%nat &&
            forallb (fun a => 0 <=? net a) (push arcs path dl)) eqn:G; [|discriminate].
  rewrite !andb_true_iff in G. destruct G as [[[G1 G2] G3] G4].
  apply Nat.ltb_lt in G2. apply Nat.ltb_lt in G3.
  intros H. injection H as <- _.
  assert (DL : dl <= ms) by apply path_delta_le.
  destruct (pick_supply_spec _ _ _ _ _ _ PS) as [[A _]|[A [_ B]]]; [lia|].
  rewrite Nat.sub_0_r in B. fold (nz e k) in B.
  destruct (pick_deficit_spec _ _ _ _ _ _ PD) as [[b Hb]|[_ C]]; [discriminate|].
  rewrite Nat.sub_0_r in C. fold (nz e l) in C.
  assert (NE : k <> l) by (intros ->; lia).
  rewrite pos_sum_upd by (rewrite upd_length; auto).
  rewrite nz_upd. assert (E : (k =? l)%nat = false) by (apply Nat.eqb_neq; auto). rewrite E. cbn [andb].
  rewrite pos_sum_upd by auto. lia.
Qed.

Lemma ssp_iter_more : forall k e arcs e' arcs',
  ssp_iter k e arcs = More e' arcs' -> pos_sum e' + 2 ^ Z.of_nat k <= pos_sum e.
Proof.
  induction k as [|k IH]; intros e arcs e' arcs'; cbn [ssp_iter].
  - intros H. apply ssp_step_decreases in H. cbn. lia.
  - destruct (ssp_iter k e arcs) as [a|e1 a1|] eqn:E1; try discriminate.
    intros H2. apply IH in E1. apply IH in H2.
    rewrite Nat2Z.inj_succ, Z.pow_succ_r by lia. lia.
Qed.

(* level k is enough when the total supply is below 2^k: the run ends with Done or Fail, never
   with "more to do" *)
Theorem ssp_fuel_sufficient k e arcs : pos_sum e < 2 ^ Z.of_nat k ->
  forall e' arcs', ssp_iter k e arcs <> More e' arcs'.
Proof.
  intros H e' arcs' M. apply ssp_iter_more in M. pose proof (pos_sum_nonneg e'). lia.
Qed.

(* in particular for the fuel the model uses, on int32 masses: fewer than 2^16 nodes each below 2^31 *)
Corollary ssp_levels_sufficient e arcs : pos_sum e < 2 ^ 48 ->
  forall e' arcs', ssp_iter ssp_levels e arcs <> More e' arcs'.
Proof. intros H. apply ssp_fuel_sufficient. exact H. Qed.
