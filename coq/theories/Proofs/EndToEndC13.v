(* C13 — end to end through C02 and C14: for every ijv list (non-negative rows) and every repeat-free
   request list, what the composed models of minimum_enclosing_circle / feret_diameter return at
   position r is determined by label indexes[r]'s own pixels S:
   - the hull polygon V handed on is a C02 hull polygon of S (vertices = extreme points of S, all of
     S inside), whatever the other labels are;
   - the circle is the minimum enclosing circle of V, and no circle enclosing S is smaller;
   - the Feret values are the brute-force maximum and minimum width of V.
   Not proved here (hence the suffix): "a disc / strip containing the vertices of the polygon contains
   every point on the inner side of all its edges" (polygon_in_disc, polygon_in_strip), which would
   replace V by S in the last two clauses. *)
From Coq Require Import ZArith QArith List Bool Lia.
From Centro Require Import Model.Hull Spec.HullSpec Proofs.OwnRowsC13 Model.Circle Model.Feret Model.MecFeretC13
  Spec.MecSpec Spec.ChrystalHyp Proofs.ChrystalFull Proofs.ChrystalHull Spec.CalipersHyp Spec.FeretSpec Spec.FeretBrute
  Proofs.SweepProofs Proofs.CalipersFull Proofs.CalipersHull.
Import ListNotations.
Open Scope Z_scope.

Theorem mec_end_to_end ijv indexes r :
  NoDup indexes -> (r < length indexes)%nat -> nonneg_rows ijv ->
  let l := nth r indexes 0 in
  let S := pts_of ijv l in
  let V := own_hull ijv l in
  let res := nth r (mec_rows (fst (convex_hull_ijv ijv indexes))) (chrystal []) in
  HullSpec S V /\
  (S = [] -> res = CEmpty) /\
  (S <> [] -> exists ny nx d rn,
      res = CCircle ny nx d rn /\
      MEC V (inject_Z ny / inject_Z d) (inject_Z nx / inject_Z d) (inject_Z rn / inject_Z (d * d)) /\
      forall ex ey rho, Encloses S ex ey rho -> (inject_Z rn / inject_Z (d * d) <= rho)%Q).
Proof.
  intros ND Hr Hnn l S V res. pose proof (own_hull_spec ijv l Hnn) as HS. fold S V in HS.
  split; [exact HS|]. unfold res. rewrite mec_own_rows_full by assumption. fold l V. split.
  - intros E. assert (V = []) as ->; [|reflexivity].
    destruct V as [|v t]; [reflexivity|]. exfalso.
    assert (In v S) by (apply (hs_subset _ _ HS); left; reflexivity). rewrite E in H. destruct H.
  - intros NE. assert (VN : V <> []) by (intros E; apply NE; apply (hs_empty _ _ HS E)).
    destruct (chrystal_reaches_certificate V (hull_satisfies_chrystal_hyp S V HS VN)) as [ny [nx [d [rn [E M]]]]].
    exists ny, nx, d, rn. split; [exact E|]. split; [exact M|].
    intros ex ey rho En. apply (proj2 M ex ey rho). intros p Hp. apply En. apply (hs_subset _ _ HS). exact Hp.
Qed.

Theorem feret_end_to_end ijv indexes r :
  NoDup indexes -> (r < length indexes)%nat -> nonneg_rows ijv ->
  let l := nth r indexes 0 in
  let S := pts_of ijv l in
  let V := own_hull ijv l in
  let res := nth r (feret_rows (fst (convex_hull_ijv ijv indexes))) (sweep []) in
  HullSpec S V /\
  exists mx mq, res = Some (mx, mq) /\ mx = max_d2 V /\
    ((length V <= 2)%nat -> mq = (0, 1)) /\
    ((3 <= length V)%nat ->
       exists bq, bf_min V = Some bq /\ 0 < snd mq /\ 0 < snd bq /\ fst mq * snd bq = fst bq * snd mq).
Proof.
  intros ND Hr Hnn l S V res. pose proof (own_hull_spec ijv l Hnn) as HS. fold S V in HS.
  split; [exact HS|]. unfold res. rewrite feret_own_rows_full by assumption. fold l V.
  destruct (sweep V) as [[mx mq]|] eqn:E; [|exfalso; exact (sweep_terminates V E)].
  exists mx, mq. split; [reflexivity|].
  destruct (Nat.leb (length V) 2) eqn:L.
  - apply Nat.leb_le in L. pose proof (calipers_small V L) as C. rewrite E in C. injection C as -> ->.
    split; [reflexivity|]. split; [reflexivity|]. intros H. lia.
  - apply Nat.leb_gt in L.
    destruct (calipers_eq_bruteforce V mx mq (hull_strictly_convex S V HS ltac:(lia)) E) as [M B].
    split; [exact M|]. split; [intros H; lia|]. intros _. exact B.
Qed.

(* ---------------------------------------------------------------- with polygon_in_disc: about S itself *)
From Centro Require Import Proofs.PolygonDiscC13 Proofs.FeretProofs.

Theorem mec_end_to_end_full ijv indexes r :
  NoDup indexes -> (r < length indexes)%nat -> nonneg_rows ijv ->
  let S := pts_of ijv (nth r indexes 0) in
  let res := nth r (mec_rows (fst (convex_hull_ijv ijv indexes))) (chrystal []) in
  (S = [] -> res = CEmpty) /\
  (S <> [] -> exists ny nx d rn,
      res = CCircle ny nx d rn /\
      MEC S (inject_Z ny / inject_Z d) (inject_Z nx / inject_Z d) (inject_Z rn / inject_Z (d * d))).
Proof.
  intros ND Hr Hnn S res. destruct (mec_end_to_end ijv indexes r ND Hr Hnn) as [HS [He Hc]].
  split; [exact He|]. intros NE. destruct (Hc NE) as [ny [nx [d [rn [E [M Min]]]]]].
  exists ny, nx, d, rn. split; [exact E|]. split; [|exact Min].
  apply (polygon_in_disc _ _ _ _ _ HS). exact (proj1 M).
Qed.

Lemma d2q_sdist2 (p c : Z * Z) : (d2q p (inject_Z (fst c)) (inject_Z (snd c)) == inject_Z (sdist2 p c))%Q.
Proof.
  unfold d2q, d2, sdist2. rewrite inject_Z_plus, !inject_Z_mult. unfold Zminus. rewrite !inject_Z_plus, !inject_Z_opp. ring.
Qed.

(* the farthest pair of pixels of S is a pair of hull vertices *)
Theorem max_d2_hull S V : HullSpec S V -> max_d2 V = max_d2 S.
Proof.
  intros HS. destruct (feret_max_spec S) as [US AS]. destruct (feret_max_spec V) as [UV AV].
  destruct V as [|v0 V'] eqn:EV.
  - rewrite (hs_empty _ _ HS eq_refl). reflexivity.
  - rewrite <- EV in *. assert (NV : V <> []) by (rewrite EV; discriminate).
    assert (NS : S <> []).
    { intro E. assert (In v0 S) by (apply (hs_subset _ _ HS); rewrite EV; left; reflexivity). rewrite E in H. destruct H. }
    apply Z.le_antisymm.
    + destruct (AV NV) as [p [q [Ip [Iq E]]]]. rewrite <- E. apply US; apply (hs_subset _ _ HS); assumption.
    + destruct (AS NS) as [p [q [Ip [Iq E]]]]. rewrite <- E.
      (* every vertex is within max_d2 V of every vertex; hence of every pixel; hence every pixel of every pixel *)
      assert (Step : forall c, (forall v, In v V -> sdist2 v c <= max_d2 V) -> forall s, In s S -> sdist2 s c <= max_d2 V).
      { intros c Hc s Hs.
        assert (En : Encloses V (inject_Z (fst c)) (inject_Z (snd c)) (inject_Z (max_d2 V))).
        { intros v Hv. rewrite d2q_sdist2. rewrite <- Zle_Qle. apply Hc, Hv. }
        pose proof (polygon_in_disc S V _ _ _ HS En s Hs) as L. rewrite d2q_sdist2 in L. rewrite <- Zle_Qle in L. exact L. }
      assert (Sym : forall a b, sdist2 a b = sdist2 b a) by (intros a b; unfold sdist2; ring).
      assert (VS : forall v, In v V -> forall s, In s S -> sdist2 s v <= max_d2 V).
      { intros v Hv. apply Step. intros v' Hv'. apply UV; assumption. }
      apply (Step q); [|exact Ip]. intros v Hv. rewrite Sym. apply (VS v Hv q Iq).
Qed.

Theorem feret_end_to_end_max ijv indexes r :
  NoDup indexes -> (r < length indexes)%nat -> nonneg_rows ijv ->
  let S := pts_of ijv (nth r indexes 0) in
  exists mx mq, nth r (feret_rows (fst (convex_hull_ijv ijv indexes))) (sweep []) = Some (mx, mq) /\
                mx = max_d2 S.
Proof.
  intros ND Hr Hnn S. destruct (feret_end_to_end ijv indexes r ND Hr Hnn) as [HS [mx [mq [E [M _]]]]].
  exists mx, mq. split; [exact E|]. rewrite M. apply (max_d2_hull _ _ HS).
Qed.

(* ---------------------------------------------------------------- the vectorised model, end to end *)
From Centro Require Import Proofs.HullTop Proofs.MecVecSimC13.

Lemma rows_labels ijv indexes : NoDup indexes -> nonneg_rows ijv ->
  map fst (fst (convex_hull_ijv ijv indexes)) = indexes.
Proof.
  intros ND Hnn. apply (nth_ext _ _ 0 0).
  - rewrite map_length. apply result_length.
  - intros r Hr. rewrite map_length, result_length in Hr.
    change 0 with (fst (0, @nil pt)) at 1. rewrite map_nth. rewrite request_own by assumption. reflexivity.
Qed.

(* on the rows C02's model hands over, C14's vectorised bookkeeping model equals the per-object model:
   with mec_end_to_end_full, every position of the VECTORISED call is the minimum enclosing circle of the
   requested label's own pixels *)
Theorem mec_vec_end_to_end ijv indexes :
  NoDup indexes -> (forall j, In j indexes -> 0 <= j) -> nonneg_rows ijv ->
  mec_rows_vec (fst (convex_hull_ijv ijv indexes)) = mec_rows (fst (convex_hull_ijv ijv indexes)).
Proof.
  intros ND NN Hnn. apply mec_rows_vec_correct.
  - rewrite rows_labels by assumption. exact ND.
  - rewrite rows_labels by assumption. exact NN.
  - intros row Hrow. destruct (In_nth _ _ (0, []) Hrow) as [r [Hr Er]]. rewrite result_length in Hr.
    rewrite request_own in Er by assumption. subst row. cbn [snd].
    destruct (mec_end_to_end ijv indexes r ND Hr Hnn) as [_ [He Hc]]. cbv zeta in He, Hc.
    rewrite mec_own_rows_full in He, Hc by assumption.
    destruct (pts_of ijv (nth r indexes 0)) as [|p t] eqn:ES.
    + rewrite (He eq_refl). discriminate.
    + destruct (Hc ltac:(discriminate)) as [ny [nx [d [rn [E _]]]]]. rewrite E. discriminate.
Qed.

(* ---------------------------------------------------------------- minimum Feret diameter, end to end *)
From Centro Require Import Spec.FeretLower Proofs.FeretMinC13 Proofs.FeretConeC13 Proofs.HullAreaVecC13Proofs Model.HullAreaC13 Model.HullAreaVecC13.

(* the minimum returned by the sweep on the label's hull is - cross-multiplied - a squared width that the label's
   own pixel set S attains in a direction normal to a hull edge, and no strip normal to a hull edge that contains S
   is narrower; no per-run certificate *)
Theorem feret_min_end_to_end ijv indexes r :
  NoDup indexes -> (r < length indexes)%nat -> nonneg_rows ijv ->
  let l := nth r indexes 0 in
  let S := pts_of ijv l in
  let V := own_hull ijv l in
  (3 <= length V)%nat ->
  exists mx mq bn bd,
    nth r (feret_rows (fst (convex_hull_ijv ijv indexes))) (sweep []) = Some (mx, mq) /\
    0 < snd mq /\ 0 < bd /\ fst mq * bd = bn * snd mq /\
    width_attained S bn bd /\ width_lower (edge_direction V) S bn bd.
Proof.
  intros ND Hr Hnn l S V L3.
  destruct (feret_end_to_end ijv indexes r ND Hr Hnn) as [HS [mx [mq (E & _ & _ & Big)]]]. fold l S V in HS, Big.
  destruct (Big L3) as [bq (Eb & Pm & Pb & Eq)].
  destruct (feret_min_edge_flush S V HS L3) as [bn [bd (Eb' & Bd & At & Low)]].
  rewrite Eb in Eb'. injection Eb' as ->. cbn [fst snd] in *.
  exists mx, mq, bn, bd. repeat split; try assumption.
Qed.

(* the same with the lower bound over ALL directions: the minimum Feret diameter returned by the sweep is the
   minimum width of the label's own pixel set, min over u <> 0 of (max - min of <u, s>)^2 / |u|^2 *)
Theorem feret_min_end_to_end_all ijv indexes r :
  NoDup indexes -> (r < length indexes)%nat -> nonneg_rows ijv ->
  let l := nth r indexes 0 in
  let S := pts_of ijv l in
  let V := own_hull ijv l in
  (3 <= length V)%nat ->
  exists mx mq bn bd,
    nth r (feret_rows (fst (convex_hull_ijv ijv indexes))) (sweep []) = Some (mx, mq) /\
    0 < snd mq /\ 0 < bd /\ fst mq * bd = bn * snd mq /\
    width_attained S bn bd /\ width_lower (fun u => u <> (0, 0)) S bn bd.
Proof.
  intros ND Hr Hnn l S V L3.
  destruct (feret_end_to_end ijv indexes r ND Hr Hnn) as [HS [mx [mq (E & _ & _ & Big)]]]. fold l S V in HS, Big.
  destruct (Big L3) as [bq (Eb & Pm & Pb & Eq)].
  destruct (feret_min_all_directions S V HS L3) as [bn [bd (Eb' & Bd & At & Low)]].
  rewrite Eb in Eb'. injection Eb' as ->. cbn [fst snd] in *.
  exists mx, mq, bn, bd. repeat split; try assumption.
Qed.

(* one- and two-vertex hulls (single pixels, lines): the sweep returns 0 / 1 and the width of the pixel set is 0 *)
Theorem feret_min_end_to_end_degenerate ijv indexes r :
  NoDup indexes -> (r < length indexes)%nat -> nonneg_rows ijv ->
  let l := nth r indexes 0 in
  let S := pts_of ijv l in
  let V := own_hull ijv l in
  (1 <= length V <= 2)%nat ->
  exists mx,
    nth r (feret_rows (fst (convex_hull_ijv ijv indexes))) (sweep []) = Some (mx, (0, 1)) /\
    width_attained S 0 1 /\ width_lower (fun u => u <> (0, 0)) S 0 1.
Proof.
  intros ND Hr Hnn l S V LV.
  destruct (feret_end_to_end ijv indexes r ND Hr Hnn) as [HS [mx [mq (E & _ & Small & _)]]]. fold l S V in HS, Small.
  rewrite (Small ltac:(lia)) in E. exists mx. split; [exact E|]. exact (feret_min_degenerate S V HS LV).
Qed.

(* a pixel line next to another object: two hull vertices *)
Example feret_min_degenerate_example :
  let ijv := [((4, 1), 3); ((4, 2), 3); ((4, 3), 3); ((0, 0), 5); ((5, 2), 5)] in
  NoDup [3; 5] /\ nonneg_rows ijv /\ (1 <= length (own_hull ijv 3) <= 2)%nat /\
  nth 0 (feret_rows (fst (convex_hull_ijv ijv [3; 5]))) (sweep []) = Some (4, (0, 1)).
Proof.
  cbv zeta. split; [repeat constructor; cbn; intuition discriminate|].
  split; [intros x Hx; cbn in Hx; intuition (subst; cbn; lia)|].
  split; [vm_compute; lia|]. vm_compute. reflexivity.
Qed.

(* the hypotheses of the planar cone lemma (FeretConeC13.cone_span) *)
Example cone_span_example :
  let c1 := (1, 0) in let c2 := (0, 1) in let c3 := (1, 1) in let c4 := (2, -1) in let u := (3, 2) in
  FeretLower.crossv c1 c2 <> 0 /\ u <> (0, 0) /\ 0 <= FeretLower.dotv c1 u /\ 0 <= FeretLower.dotv c2 u /\
  0 <= FeretLower.dotv c3 u /\ 0 <= FeretLower.dotv c4 u.
Proof. cbv. repeat split; try discriminate. Qed.

(* the hypotheses on a 3 x 2 block next to another object: the hull is the four corners, the minimum squared width
   is 1 = 4 / 4 (the short side), attained normal to a long edge *)
Example feret_min_all_example :
  let ijv := [((0, 0), 3); ((0, 1), 3); ((1, 0), 3); ((1, 1), 3); ((2, 0), 3); ((2, 1), 3); ((7, 7), 5)] in
  NoDup [5; 3] /\ nonneg_rows ijv /\ (3 <= length (own_hull ijv 3))%nat /\
  bf_min (own_hull ijv 3) = Some (4, 4) /\
  nth 1 (feret_rows (fst (convex_hull_ijv ijv [5; 3]))) (sweep []) = Some (5, (4, 4)).
Proof.
  cbv zeta. split; [repeat constructor; cbn; intuition discriminate|].
  split; [intros x Hx; cbn in Hx; intuition (subst; cbn; lia)|].
  split; [vm_compute; lia|]. split; vm_compute; reflexivity.
Qed.

(* calculate_convex_hull_areas as written on the rows of C02's convex_hull_ijv *)
Theorem hull_areas_vec_end_to_end ijv indexes res :
  NoDup indexes -> (forall j, In j indexes -> 0 <= j) -> nonneg_rows ijv ->
  hull_areas_vec (map fst (fst (convex_hull_ijv ijv indexes))) (map snd (fst (convex_hull_ijv ijv indexes))) = Some res ->
  res = hull_areas_rows (fst (convex_hull_ijv ijv indexes)).
Proof.
  intros ND NN Hnn H. unfold hull_areas_rows. rewrite <- map_map.
  apply (hull_areas_vec_correct (map fst (fst (convex_hull_ijv ijv indexes))) (map snd (fst (convex_hull_ijv ijv indexes))) res);
    [rewrite rows_labels by assumption; exact ND|rewrite rows_labels by assumption; exact NN
    |rewrite !map_length; reflexivity|exact H].
Qed.
