(* C01 — the ragged row arrays built by lapjv() (rows_of) satisfy the structural premises of the
   phase-3 invariant theorem, and the state after column reduction satisfies the invariant. *)
From Coq Require Import ZArith List Bool Lia ZifyBool Arith.
From Centro Require Import Base.Sx Model.Lapjv Spec.Lapjv Proofs.LapjvPhases Proofs.LapjvArr.
Import ListNotations.
Open Scope Z_scope.

Lemma ins_j_in e l p : In p (ins_j e l) <-> p = e \/ In p l.
Proof.
  induction l as [|h r IH]; cbn [ins_j]; [cbn; intuition|].
  destruct (fst e <? fst h)%nat; cbn [In]; [intuition|]. rewrite IH. intuition.
Qed.
Lemma ins_j_length e l : length (ins_j e l) = S (length l).
Proof. induction l as [|h r IH]; cbn [ins_j length]; auto. destruct (fst e <? fst h)%nat; cbn [length]; auto. Qed.

Lemma row_of_in i l : forall acc p,
  In p (row_of i l acc) <-> In p acc \/ exists t, In t l /\ t_i t = i /\ p = (t_j t, Fin (t_c t)).
Proof.
  induction l as [|t r IH]; intros acc p; cbn [row_of].
  - split; [auto|intros [H|[t [[] _]]]; auto].
  - rewrite IH. destruct (Nat.eqb_spec (t_i t) i) as [E|NE].
    + rewrite ins_j_in. split.
      * intros [[->|H]|[t' [Hin Ht]]]; [right; exists t; split; [left|]; auto|left; auto|right; exists t'; split; [right|]; auto].
      * intros [H|[t' [[<-|Hin] [Hi Hp]]]]; [left; right; auto|left; left; auto|right; exists t'; auto].
    + split.
      * intros [H|[t' [Hin Ht]]]; [left; auto|right; exists t'; split; [right|]; auto].
      * intros [H|[t' [[<-|Hin] [Hi Hp]]]]; [left; auto|contradiction|right; exists t'; auto].
Qed.

Lemma row_of_length i l : forall acc,
  length (row_of i l acc) = (length acc + length (filter (fun t => (t_i t =? i)%nat) l))%nat.
Proof.
  induction l as [|t r IH]; intros acc; cbn [row_of filter length]; [lia|].
  rewrite IH. destruct (t_i t =? i)%nat; cbn [length]; [rewrite ins_j_length|]; lia.
Qed.

Lemma row_of_nodup i l : forall acc,
  NoDup (map fst acc) -> NoDup (map fst l) ->
  (forall t, In t l -> t_i t = i -> ~ In (t_j t) (map fst acc)) ->
  NoDup (map fst (row_of i l acc)).
Proof.
  induction l as [|t r IH]; intros acc Na Nl Hd; cbn [row_of]; auto.
  cbn [map] in Nl. inversion Nl as [|? ? Nin Nl']; subst.
  destruct (Nat.eqb_spec (t_i t) i) as [E|NE].
  - apply IH; auto.
    + (* NoDup of the columns after insertion *)
      assert (G : forall l0, ~ In (t_j t) (map fst l0) -> NoDup (map fst l0) ->
                  NoDup (map fst (ins_j (t_j t, Fin (t_c t)) l0))).
      { induction l0 as [|h q IHq]; intros Hn Nq; cbn [ins_j map]; [constructor; auto|].
        cbn [fst]. destruct (t_j t <? fst h)%nat; cbn [map fst].
        - constructor; auto.
        - cbn [map] in Nq, Hn. inversion Nq; subst. constructor.
          + intros Hin. apply in_map_iff in Hin as [p [Ep Hp]]. apply ins_j_in in Hp as [->|Hp].
            * cbn [fst] in Ep. apply Hn. left. auto.
            * apply H1. rewrite <- Ep. apply in_map. exact Hp.
          + apply IHq; auto. intros Hin. apply Hn. right. exact Hin. }
      apply G; auto. apply Hd; [left; auto|auto].
    + intros t' Hin' Ei' Hc. apply in_map_iff in Hc as [p [Ep Hp]]. apply ins_j_in in Hp as [->|Hp].
      * cbn [fst] in Ep. apply Nin. apply in_map_iff. exists t'. split; auto.
        unfold t_i, t_j in *. destruct t' as [[a b] c], t as [[a' b'] c']. cbn in *. congruence.
      * apply (Hd t' (or_intror Hin') Ei'). rewrite <- Ep. apply in_map. exact Hp.
  - apply IH; auto. intros t' Hin'. apply Hd. right. exact Hin'.
Qed.

Section Rows.
Variables (n : nat) (tri : list triple).
Hypothesis Hrange : forall t, In t tri -> (t_i t < n)%nat /\ (t_j t < n)%nat.
Hypothesis Hpairs : NoDup (map fst tri).
Hypothesis Hcand2 : forall i, (i < n)%nat -> (2 <= length (filter (fun t => (t_i t =? i)%nat) tri))%nat.

Lemma rowget_rows_of i : rowget (rows_of n tri) i = if (i <? n)%nat then row_of i tri [] else [].
Proof.
  unfold rowget, rows_of. destruct (Nat.ltb_spec i n) as [L|L].
  - apply (nth_map_seq (fun i0 => row_of i0 tri []) n i [] L).
  - apply nth_overflow. rewrite map_length, seq_length. exact L.
Qed.

Lemma rows_fin i j c : In (j, c) (row (rows_of n tri) i) -> (j < n)%nat /\ exists z, c = Fin z.
Proof.
  unfold row. rewrite rowget_rows_of. destruct (i <? n)%nat; [|intros []].
  intros H. apply row_of_in in H as [[]|[t [Hin [_ E]]]]. inversion E; subst.
  split; [apply Hrange; auto|eauto].
Qed.
Lemma rows_nodup i : NoDup (map fst (row (rows_of n tri) i)).
Proof.
  unfold row. rewrite rowget_rows_of. destruct (i <? n)%nat; [|constructor].
  apply row_of_nodup; [constructor | exact Hpairs | intros t _ _ []].
Qed.
Lemma rows_two i : (i < n)%nat -> (2 <= length (row (rows_of n tri) i))%nat.
Proof.
  intros Hi. unfold row. rewrite rowget_rows_of. replace (i <? n)%nat with true by (symmetry; apply Nat.ltb_lt; auto).
  rewrite row_of_length. cbn [length]. apply Hcand2; auto.
Qed.

(* phase 3 of the model on the model's own rows: k passes of augmenting row reduction without the tie
   band keep the invariant and hand a duplicate-free list of genuinely free rows to the augment phase *)
Theorem arr_passes_inv_model epsr fuel k x y v ii x' y' v' ii' : 0 <= epsr ->
  Inv n (rows_of n tri) x y v -> Pending n y ii ->
  arr_passes k fuel (Fin 0) (Fin epsr) n (rows_of n tri) (x, y, v, ii) = Some (x', y', v', ii') ->
  Inv n (rows_of n tri) x' y' v' /\ Pending n y' ii'.
Proof.
  intros Her. apply (arr_passes_inv n (rows_of n tri) rows_fin rows_nodup rows_two epsr fuel Her).
Qed.
End Rows.

(* ---------------------------------------------------------------- the state after column reduction *)

Lemma x_init_go_length mi : forall j0 x, length (x_init_go mi j0 x) = length x.
Proof. induction mi as [|i r IH]; intros j0 x; cbn [x_init_go]; auto. rewrite IH, upd_length. reflexivity. Qed.
Lemma y_init_go_length n x : forall i0 y, length (y_init_go n x i0 y) = length y.
Proof.
  induction x as [|j r IH]; intros i0 y; cbn [y_init_go]; auto. rewrite IH. destruct (j =? n)%nat; auto. apply upd_length.
Qed.
Lemma y_init_go_spec n x : forall i0 y j i,
  getn (y_init_go n x i0 y) j n = i ->
  getn y j n = i \/ ((i0 <= i < i0 + length x)%nat /\ nth (i - i0) x n = j).
Proof.
  induction x as [|j1 r IH]; intros i0 y j i; cbn [y_init_go]; [auto|].
  intros H. apply IH in H. destruct H as [H|[R H]].
  - destruct (j1 =? n)%nat; [auto|]. rewrite getn_upd in H.
    destruct ((j =? j1)%nat && (j1 <? length y)%nat) eqn:E; [|auto].
    right. apply andb_true_iff in E as [E _]. apply Nat.eqb_eq in E. subst. cbn [length]. split; [lia|].
    rewrite Nat.sub_diag. reflexivity.
  - right. cbn [length]. split; [lia|]. replace (i - i0)%nat with (S (i - S i0)) by lia. exact H.
Qed.

Section Phase1.
Variables (n : nat) (tri : list triple).
Hypothesis Hrange : forall t, In t tri -> (t_i t < n)%nat /\ (t_j t < n)%nat.
Hypothesis Hpairs : NoDup (map fst tri).
Hypothesis Hcols : forall j, (j < n)%nat -> exists t, In t tri /\ t_j t = j.

Let mi := min_i n tri.
Let x0 := x_init n mi.
Let y0 := y_init n x0.
Let v0 := v_init n tri.

Lemma in_row_of_tri t : In t tri -> In (t_j t, Fin (t_c t)) (row (rows_of n tri) (t_i t)).
Proof.
  intros Hin. unfold row. rewrite rowget_rows_of.
  replace (t_i t <? n)%nat with true by (symmetry; apply Nat.ltb_lt; apply Hrange; auto).
  apply row_of_in. right. exists t. auto.
Qed.

Theorem phase1_inv : Inv n (rows_of n tri) x0 y0 v0 /\ Pending n y0 (free_rows n mi).
Proof.
  assert (Lx : length x0 = n) by (unfold x0, x_init; rewrite x_init_go_length, repeat_length; auto).
  assert (Ly : length y0 = n) by (unfold y0, y_init; rewrite y_init_go_length, repeat_length; auto).
  assert (Lm : length mi = n) by (unfold mi, min_i, col_mins; rewrite !map_length, seq_length; auto).
  assert (FV : FinV n v0).
  { split; [unfold v0, v_init, col_mins; rewrite !map_length, seq_length; auto|].
    intros j Hj. destruct (Hcols j Hj) as [t [Hin Ej]]. subst j.
    destruct (column_reduction_feasible n tri t Hin Hj) as [c [E _]]. eauto. }
  assert (YX : forall j i, (j < n)%nat -> getn y0 j n = i -> i <> n -> (i < n)%nat /\ getn x0 i n = j).
  { intros j i Hj Hy Hne. unfold y0, y_init in Hy. apply y_init_go_spec in Hy. destruct Hy as [Hy|[R Hy]].
    - unfold getn in Hy. rewrite nth_repeat in Hy. congruence.
    - rewrite Lx in R. rewrite Nat.sub_0_r in Hy. split; [lia|exact Hy]. }
  split; [split; [exact Lx|split; [exact Ly|split; [exact FV|]]]|].
  - intros j i Hj Hy Hne. destruct (YX j i Hj Hy Hne) as [Hi Hx]. split; auto. split; auto.
    destruct (column_reduction_tight n tri i j Hx ltac:(lia)) as [_ [c [Ev Hin]]].
    exists c. split; [apply (in_row_of_tri (i, j, c)); exact Hin|].
    intros j' c' Hin'. unfold row in Hin'. rewrite rowget_rows_of in Hin'.
    destruct (i <? n)%nat; [|destruct Hin'].
    apply row_of_in in Hin' as [[]|[t [Hint [_ E]]]]. injection E as -> ->.
    destruct (column_reduction_feasible n tri t Hint (proj2 (Hrange t Hint))) as [cc [Ev' Hge]].
    unfold v0. rewrite (vz_fin _ _ _ Ev), (vz_fin _ _ _ Ev'). lia.
  - split; [apply NoDup_filter, seq_NoDup|].
    intros i Hi. apply filter_In in Hi as [Hi Hc]. apply in_seq in Hi. split; [lia|].
    intros j Hj Hy. destruct (YX j i Hj Hy ltac:(lia)) as [_ Hx].
    unfold x0, x_init in Hx. apply x_init_go_spec in Hx. destruct Hx as [Hx|[R [Hx _]]].
    + unfold getn in Hx. rewrite nth_repeat in Hx. lia.
    + rewrite Nat.sub_0_r in Hx. apply Nat.eqb_eq in Hc. unfold count_of in Hc.
      assert (In i (filter (Nat.eqb i) mi)); [|destruct (filter (Nat.eqb i) mi); [contradiction|discriminate]].
      apply filter_In. split; [|apply Nat.eqb_refl]. rewrite <- Hx. apply nth_In. lia.
Qed.
End Phase1.
