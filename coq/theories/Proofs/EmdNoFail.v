(* C10 — mcf_no_fail_if_flag_clear, the augmentation half: when the companion flag of a step is clear
   (in particular the walk along prev reached the start node within nv hops through finalized nodes),
   scan_delta and augment cannot fail: every hop is a residual arc, so x[from] has an entry pointing
   at `to` (forward entry of an arc from->to or reverse entry of an arc to->from).  A step with a
   clear flag can therefore only fail in the search: compute_shortest_path = None (it never returns the start node: the node it
   returns has negative excess). *)
From Coq Require Import ZArith List Bool Lia ZifyBool.
From Centro Require Import Base.Sx Base.EmdBase Model.Emd Model.EmdMcf
  Proofs.EmdDuality Proofs.EmdSsp Proofs.EmdHeap Proofs.EmdHeapPos Proofs.EmdHeapOrd Proofs.EmdHeapMem Proofs.EmdDijkstra Proofs.EmdDijkstraInit
  Proofs.EmdTight Proofs.EmdPotential Proofs.EmdGhost Proofs.EmdCspPost Proofs.EmdFuel Proofs.EmdAugment Proofs.EmdRun
  Proofs.EmdMetric Proofs.EmdConserve Proofs.EmdCertModel Proofs.EmdConserveRun Proofs.EmdMcfCert Proofs.EmdIndex Proofs.EmdXCaps Proofs.EmdDist.
Import ListNotations.
Open Scope Z_scope.

Lemma upd_first_x_succeeds t g : forall l, (exists en, In en l /\ fst (fst en) = t) -> exists l', upd_first_x l t g = Some l'.
Proof.
  induction l as [|en l IH]; intros [e0 [H E]]; [destruct H|]. cbn [upd_first_x].
  destruct (fst (fst en) =? t)%nat eqn:EQ; [eexists; reflexivity|].
  destruct H as [<-|H]; [apply Nat.eqb_neq in EQ; contradiction|].
  destruct (IH (ex_intro _ e0 (conj H E))) as [l' ->]. eexists; reflexivity.
Qed.

Lemma scan_delta_some rf dd prev rb k : forall fuel to delta, walk_flag fuel rf dd prev k to = false ->
  exists d, scan_delta fuel prev rb k to delta = Some d.
Proof.
  induction fuel as [|f IH]; intros to delta WF; cbn [walk_flag] in WF; [discriminate|]. cbn [scan_delta].
  apply orb_false_iff in WF. destruct WF as [_ WF].
  destruct (nth to prev O =? k)%nat; [eexists; reflexivity|]. apply IH. exact WF.
Qed.

Lemma augment_some nv arcs rf dd prev k : forall fuel to dl e x rb,
  skel_x x = skel_x (x_of nv arcs) -> walk_flag fuel rf dd prev k to = false ->
  (forall f t, In (f, t) (hops fuel prev k to) -> (f < nv)%nat /\ exists w, In (t, w) (srow arcs f)) ->
  exists r, augment fuel prev k to dl e x rb = Some r.
Proof.
  induction fuel as [|f IH]; intros to dl e x rb SK WF HH; cbn [walk_flag] in WF; [discriminate|]. cbn [augment].
  apply orb_false_iff in WF. destruct WF as [_ WF].
  set (from := nth to prev O) in *.
  destruct (HH from to ltac:(cbn [hops]; left; reflexivity)) as [Hf [w Hw]].
  assert (EX : exists en, In en (nth from x []) /\ fst (fst en) = to).
  { rewrite <- (skel_row nv arcs x from SK Hf) in Hw. apply in_map_iff in Hw. destruct Hw as [en [E Hin]].
    exists en. split; auto. rewrite E. reflexivity. }
  destruct (upd_first_x_succeeds to (fun fl => fl + dl) _ EX) as [xf UX]. rewrite UX. cbn [bind].
  destruct (from =? k)%nat eqn:EK; [eexists; reflexivity|].
  apply IH.
  - rewrite (skel_upd x from xf (upd_first_x_skel _ _ _ _ UX)). exact SK.
  - exact WF.
  - intros f0 t0 Hin. apply HH. cbn [hops]. fold from. rewrite EK. right. exact Hin.
Qed.

Lemma dijkstra_returns_deficit e rf rb : forall fuel st st' l, dijkstra fuel e rf rb st = Some (st', l) -> nz e l < 0.
Proof.
  induction fuel as [|f IH]; intros st st' l; cbn [dijkstra]; [discriminate|].
  destruct (oget (fst (sp_h st)) 0) as [q0|]; [|discriminate]. cbn [bind].
  destruct (nz e (fst q0) <? 0) eqn:E; [intros H; injection H as _ <-; lia|].
  destruct (heap_remove_first _) as [h'|]; [|discriminate]. cbn [bind].
  destruct (relax_fwd _ _ _ _) as [st3|]; [|discriminate]. cbn [bind].
  destruct (relax_bwd _ _ _ _) as [st4|]; [|discriminate]. cbn [bind].
  destruct (fst (sp_h st4)); [discriminate|]. apply IH.
Qed.

Lemma csp_returns_deficit nv d prev k rf rb e d' prev' rf' rb' l :
  compute_shortest_path nv d prev k rf rb e = Some (d', prev', rf', rb', l) -> nz e l < 0.
Proof.
  unfold compute_shortest_path. destruct (dijkstra _ _ _ _ _) as [[st l0]|] eqn:ED; [|discriminate]. cbn [bind].
  intros H. injection H as _ _ _ _ <-. eapply dijkstra_returns_deficit; eauto.
Qed.

Theorem step_fail_only_in_search nv c st : length c = nv ->
  (forall l tc, In l c -> In tc l -> (fst tc < nv)%nat /\ 0 <= snd tc) ->
  RunInv nv c st -> skel_x (m_x st) = skel_x (x_of nv (mk_arcs c)) ->
  step_flag st = false -> mcf_step st = MFail ->
  compute_shortest_path nv (m_d st) (m_prev st) (snd (pick_supply (m_e st) O 0 O)) (m_rf st) (m_rb st) (m_e st) = None.
Proof.
  intros LC GC [LE [LD [LP [[pi G] [RA CO]]]]] SK. unfold mcf_step, step_flag. rewrite LE.
  destruct (pick_supply (m_e st) 0 0 0) as [ms k] eqn:PS. cbn [snd].
  destruct (ms =? 0) eqn:E0; [discriminate|].
  destruct (compute_shortest_path nv (m_d st) (m_prev st) k (m_rf st) (m_rb st) (m_e st))
    as [[[[[d prev] rf] rb] l]|] eqn:EC; [|auto].
  intros FL X. exfalso.
  pose proof (csp_returns_deficit _ _ _ _ _ _ _ _ _ _ _ _ EC) as DEF.
  assert (ELK : l <> k).
  { intros ->. destruct (pick_supply_spec _ _ _ _ _ _ PS) as [[A _]|[A [_ B]]]; [lia|]. rewrite Nat.sub_0_r in B. unfold nz in DEF. lia. }
  assert (ELKb : (l =? k)%nat = false) by (apply Nat.eqb_neq; exact ELK). rewrite ELKb in FL, X.
  assert (WF : walk_flag nv rf d prev k l = false).
  { destruct (walk_flag nv rf d prev k l); [discriminate|reflexivity]. }
  destruct (scan_delta_some rf d prev rb k nv l ms WF) as [delta ES].
  assert (Hk : (k < nv)%nat).
  { destruct (pick_supply_spec _ _ _ _ _ _ PS) as [[A _]|[A [_ B]]]; [lia|].
    rewrite Nat.sub_0_r in B. destruct (Nat.lt_ge_cases k (length (m_e st))); [lia|]. rewrite nth_overflow in B by auto. lia. }
  pose proof G as [LRF [LRB [G1 G2]]].
  destruct (csp_post nv (m_e st) (m_rf st) (m_rb st) RA _ _ _ _ _ _ _ _ Hk LD LP EC) as [sp [ED [EP [PO [TP [ERF ERB]]]]]].
  destruct PO as [FLn [LL _]].
  assert (CH : forall from' to', In (from', to') (hops nv prev k l) ->
            fn sp to' = true /\ to' <> k /\ from' = pvn sp to' /\ (from' < nv)%nat /\ (to' < nv)%nat /\
            tight (m_rf st) (m_rb st) sp to' (dd sp to')).
  { apply (walk_chain nv (m_rf st) (m_rb st) k sp rf prev RA LRF LRB TP EP nv l FLn ELK). rewrite ED. exact WF. }
  assert (HH : forall f0 t0, In (f0, t0) (hops nv prev k l) -> (f0 < nv)%nat /\ exists w, In (t0, w) (srow (mk_arcs c) f0)).
  { intros f0 t0 Hin. destruct (CH f0 t0 Hin) as [_ [_ [EF [A [B [rc [RES _]]]]]]]. split; auto. rewrite <- EF in RES.
    destruct RES as [R1|[cap [R2 _]]].
    - rewrite (G1 f0 A) in R1. unfold fwd_of in R1. apply in_map_iff in R1. destruct R1 as [[t w] [E Hin0]]. cbn [fst snd] in E.
      injection E as E1 _. subst t. exists w.
      pose proof (mk_arcs_complete nv c LC f0 t0 w ltac:(lia) Hin0) as Ha.
      unfold srow. apply in_flat_map. eexists. split; [exact Ha|]. cbn [a_from a_to a_cost]. rewrite Nat.eqb_refl. left. reflexivity.
    - assert (S : In (t0, rc) (strip (nth f0 (m_rb st) []))) by (unfold strip; apply in_map_iff; exists (t0, rc, cap); auto).
      rewrite (G2 f0 A) in S. destruct (bwd_entry_arc c pi f0 _ S) as [a [Ha [At [Af _]]]]. cbn [fst] in Af.
      exists (- a_cost a). unfold srow. apply in_flat_map. exists a. split; [exact Ha|]. apply in_or_app. right.
      rewrite At, Nat.eqb_refl. left. rewrite Af. reflexivity. }
  destruct (augment_some nv (mk_arcs c) rf d prev k nv l delta (m_e st) (m_x st) rb SK WF HH) as [[[e' x'] rb'] EA].
  rewrite ES, EA in X. discriminate.
Qed.
