(* C02 — pivot_protected and clause (c) for the complete output polygon of the guard-free kernel. *)
From Coq Require Import ZArith List Bool Lia ZifyBool Sorted.
From Centro Require Import Base.Sx Model.Hull Spec.HullSpec Proofs.HullEmit Proofs.HullGeom Proofs.HullBelow Proofs.HullAbove
  Proofs.HullCorrect Proofs.HullGuard Proofs.HullStrict.
Import ListNotations.
Open Scope Z_scope.

Lemma CONVEX_left_pos (a b c : pt) : 0 < cross a b c -> CONVEX a b c = true.
Proof. intros H. unfold CONVEX. destruct (0 <? cross a b c) eqn:E; [reflexivity | lia]. Qed.

(* ---------------------------------------------------------------- pruning above a protected vertex *)
Lemma prune_app_protected (q : pt) (base : list pt) : base <> [] ->
  forall A : list pt, A <> [] -> CONVEX (hd q base) (last A q) q = true ->
  prune (A ++ base) q = prune A q ++ base.
Proof.
  intros Hb. induction A as [|a1 A IH]; intros Hne HC; [contradiction|].
  destruct A as [|a2 A'].
  - cbn [app last] in *. destruct base as [|x r]; [contradiction|]. cbn [hd] in HC.
    replace (prune (a1 :: x :: r) q) with (if CONVEX x a1 q then a1 :: x :: r else prune (x :: r) q) by reflexivity.
    rewrite HC. reflexivity.
  - change (last (a1 :: a2 :: A') q) with (last (a2 :: A') q) in HC.
    change ((a1 :: a2 :: A') ++ base) with (a1 :: a2 :: (A' ++ base)).
    replace (prune (a1 :: a2 :: (A' ++ base)) q) with (if CONVEX a2 a1 q then a1 :: a2 :: (A' ++ base) else prune (a2 :: A' ++ base) q) by reflexivity.
    replace (prune (a1 :: a2 :: A') q) with (if CONVEX a2 a1 q then a1 :: a2 :: A' else prune (a2 :: A') q) by reflexivity.
    destruct (CONVEX a2 a1 q); [reflexivity|]. apply (IH ltac:(discriminate) HC).
Qed.

Lemma free_fold_protected (upper : env) (base : list pt) (R : pt) : base <> [] ->
  forall cols (A : list pt), A <> [] -> (forall d, last A d = R) ->
  (forall j, In j cols -> -1 <? upper j = true -> CONVEX (hd (upper j, j) base) R (upper j, j) = true) ->
  fold_left (upper_emit_free upper) cols (A ++ base) = fold_left (upper_emit_free upper) cols A ++ base
  /\ (forall d, last (fold_left (upper_emit_free upper) cols A) d = R) /\ fold_left (upper_emit_free upper) cols A <> [].
Proof.
  intros Hb. induction cols as [|j cols IH]; intros A Hne HR HP; cbn [fold_left]; [auto|].
  assert (Estep : upper_emit_free upper (A ++ base) j = upper_emit_free upper A j ++ base).
  { unfold upper_emit_free. destruct (-1 <? upper j) eqn:E; [|reflexivity].
    rewrite (prune_app_protected (upper j, j) base Hb A Hne); [reflexivity|].
    rewrite HR. apply HP; [left; reflexivity | exact E]. }
  rewrite Estep. apply IH.
  - unfold upper_emit_free. destruct (-1 <? upper j); [discriminate | exact Hne].
  - intros d. unfold upper_emit_free. destruct (-1 <? upper j); [|apply HR].
    rewrite last_cons_ne by (apply prune_nonempty; exact Hne). rewrite prune_last. apply HR.
  - intros j' Hj'. apply HP. right. exact Hj'.
Qed.

Lemma cols_up_snoc s e : s <= e -> cols_up s e = cols_up s (e - 1) ++ [e].
Proof.
  intros H. unfold cols_up. replace (Z.to_nat (e - s + 1)) with (S (Z.to_nat (e - 1 - s + 1))) by lia.
  rewrite seq_S, map_app. cbn [map]. f_equal. f_equal. lia.
Qed.
Lemma cols_up_cons s e : s <= e -> cols_up s e = s :: cols_up (s + 1) e.
Proof.
  intros H. unfold cols_up. replace (Z.to_nat (e - s + 1)) with (S (Z.to_nat (e - (s + 1) + 1))) by lia.
  cbn [seq]. rewrite <- seq_shift. cbn [map]. rewrite map_map. f_equal; [lia|]. apply map_ext. intros; lia.
Qed.
Lemma last_tl {A} (l : list A) d : tl l <> [] -> last (tl l) d = last l d.
Proof. destruct l as [|x l]; [contradiction|]. cbn [tl]. intros H. symmetry. apply last_cons_ne. exact H. Qed.
Lemma in_cols_up s e j : In j (cols_up s e) -> s <= j <= e.
Proof. unfold cols_up. intros H. apply in_map_iff in H. destruct H as [k [E Hk]]. apply in_seq in Hk. lia. Qed.

Lemma edges_ok_app (A C : list pt) (r s : pt) : edges_ok (A ++ [r]) s -> edges_ok (r :: C) s -> edges_ok (A ++ r :: C) s.
Proof.
  induction A as [|a A IH]; intros H1 H2; [exact H2|].
  destruct A as [|a' A'].
  - cbn [app] in *. destruct H1 as [H1 _]. exact (conj H1 H2).
  - cbn [app] in *. destruct H1 as [H1 H1']. exact (conj H1 (IH H1' H2)).
Qed.

Lemma free_fold_cols (upper : env) (P : pt -> Prop) : forall cols (A : list pt),
  (forall x, In x A -> P x) -> (forall j, In j cols -> P (upper j, j)) ->
  forall x, In x (fold_left (upper_emit_free upper) cols A) -> P x.
Proof.
  induction cols as [|j cols IH]; intros A HA HP x Hx; cbn [fold_left] in Hx; [auto|].
  apply (IH (upper_emit_free upper A j)); auto.
  - intros y Hy. unfold upper_emit_free in Hy. destruct (-1 <? upper j); [|auto].
    destruct Hy as [Hy|Hy]; [subst y; apply HP; left; reflexivity | apply HA; eapply prune_subset; exact Hy].
  - intros j' Hj'. apply HP. right. exact Hj'.
Qed.
Lemma jdesc_tl (l : list pt) : jdesc l -> jdesc (tl l).
Proof. destruct l as [|x l]; [auto|]. cbn [tl]. apply jdesc_tail. Qed.
Lemma last_rev {A} (l : list A) d : last (rev l) d = hd d l.
Proof. destruct l as [|x l]; [reflexivity|]. cbn [rev hd]. apply last_last. Qed.
Lemma hd_rev {A} (l : list A) d : hd d (rev l) = last l d.
Proof. rewrite <- (rev_involutive l) at 2. rewrite last_rev. reflexivity. Qed.

(* no vertex is repeated *)
Lemma hull_label_nodup : forall m pts slack, label_ok m pts -> 0 <= slack -> NoDup (hull_label m pts slack).
Proof.
  intros m pts slack Hok Hs. destruct pts as [|p0 rest]; [constructor|].
  destruct (fin_stack3 m p0 rest slack Hok Hs) as [ND [_ Hnin]].
  unfold hull_label. cbv zeta. apply NoDup_rev.
  match goal with |- context [if ?b then _ else _] => destruct b eqn:EB end; [|exact ND].
  constructor; [apply Hnin; lia | exact ND].
Qed.

(* ---------------------------------------------------------------- the structure of the final stack *)
Section Poly.
  Variables (m : Z) (p0 : pt) (rest : list pt).
  Let pts := p0 :: rest.
  Hypothesis Hok : label_ok m pts.
  Let sj := snd p0.
  Let ej := snd (last pts p0).
  Hypothesis Hwide : sj < ej.
  Let upper := build_upper pts.
  Let lower := build_lower m pts.
  Let st1 := fold_left (lower_emit m lower) (cols_up sj ej) [].
  Let Q : pt := (upper sj, sj).
  Let R : pt := (upper ej, ej).

  Let Hp0 := fin_p0 p0 rest.
  Let Hleft := fin_left m p0 rest Hok.
  Let Hright := fin_right m p0 rest Hok.
  Let Hrange := fin_range m p0 rest Hok.

  Lemma poly_st1 : st1 <> [] /\ jdesc st1 /\ chain_ok st1 /\ incl st1 pts /\
    (forall s, In s pts -> edges_ok st1 s /\ bottom_ok st1 s) /\ (forall d, snd (last st1 d) = sj) /\
    (forall d, snd (hd d st1) = ej).
  Proof.
    destruct (st1_facts m pts p0 ej Hp0 Hleft Hright Hrange) as [A [B [C [D [E F]]]]].
    fold sj in A, B, C, D, E, F. fold lower in A, B, C, D, E, F. fold st1 in A, B, C, D, E, F.
    repeat (split; [assumption|]).
    intros d.
    assert (He : sj <= ej) by lia.
    destruct (lower_pass_facts m pts p0 ej Hp0 Hleft (fun s H => proj2 (Hrange s H)) He) as [_ [_ [_ Hall]]].
    fold sj in Hall. fold lower in Hall. fold st1 in Hall.
    assert (Hl : In (last pts p0) pts).
    { unfold pts. destruct (exists_last (l := p0 :: rest) ltac:(discriminate)) as [l' [z Ez]]. rewrite Ez, last_last.
      apply in_or_app. right. left. reflexivity. }
    destruct (Hall _ Hl ltac:(fold ej; lia)) as [H1 _]. specialize (H1 d).
    assert (In (hd d st1) pts) by (apply D; destruct st1; [contradiction | left; reflexivity]).
    pose proof (Hright _ H) as X. apply Z.le_antisymm; [exact X | exact H1].
  Qed.

  Lemma poly_R : In R pts /\ In Q pts.
  Proof.
    split.
    - assert (Hl : In (last pts p0) pts).
      { unfold pts. destruct (exists_last (l := p0 :: rest) ltac:(discriminate)) as [l' [z Ez]]. rewrite Ez, last_last.
        apply in_or_app. right. left. reflexivity. }
      pose proof (build_upper_ge pts _ Hl) as G. fold ej in G. fold upper in G. pose proof (Hrange _ Hl).
      destruct (build_upper_in pts ej) as [B|B]; [fold upper in B; lia | exact B].
    - exact (proj1 (fin_Q m p0 rest Hok)).
  Qed.

  (* the part of the stack below the right-most vertex R *)
  Definition base : list pt := if pt_eq_dec (hd R st1) R then tl st1 else st1.

  Lemma poly_first : base <> [] /\ upper_emit_free upper st1 ej = R :: base /\
    (forall s, In s pts -> edges_ok (R :: base) s) /\
    (forall q, In q pts -> snd q < ej -> CONVEX (hd q base) R q = true) /\ incl base st1.
  Proof.
    destruct poly_st1 as [Hne [HJ [HC [Hincl [Hall [Hlast Hhd]]]]]].
    destruct poly_R as [HR _].
    assert (EU : -1 <? upper ej = true).
    { pose proof (Hrange _ HR) as X. unfold R in X. cbn [fst] in X. lia. }
    unfold upper_emit_free. rewrite EU. fold R. unfold base.
    destruct st1 as [|T tl1] eqn:E1; [contradiction|]. cbn [hd tl].
    destruct tl1 as [|lk tl2].
    { exfalso. specialize (Hlast T). specialize (Hhd T). cbn in Hlast, Hhd. lia. }
    assert (HTj : snd T = ej) by (specialize (Hhd T); exact Hhd).
    assert (Hlk : snd lk < snd T) by (apply (jdesc_head2 T lk tl2); exact HJ).
    destruct (pt_eq_dec T R) as [ET|NT].
    - (* the last column holds one pixel: T = R is popped and pushed again *)
      subst T. split; [discriminate|]. split.
      + f_equal.
        replace (prune (R :: lk :: tl2) R) with (if CONVEX lk R R then R :: lk :: tl2 else prune (lk :: tl2) R) by reflexivity.
        assert (EC : CONVEX lk R R = false).
        { unfold CONVEX. assert (cross lk R R = 0) by (unfold cross; ring). rewrite H.
          rewrite !Z.ltb_irrefl. apply andb_false_r. }
        rewrite EC. destruct tl2 as [|l' tl3]; [reflexivity|].
        replace (prune (lk :: l' :: tl3) R) with (if CONVEX l' lk R then lk :: l' :: tl3 else prune (l' :: tl3) R) by reflexivity.
        cbn [chain_ok] in HC. rewrite (proj1 HC). reflexivity.
      + split; [intros s Hs; exact (proj1 (Hall s Hs))|]. split.
        * intros q Hq Hqj. cbn [hd]. destruct (Hall q Hq) as [[Hedge _] _].
          unfold CONVEX. destruct (0 <? cross lk R q) eqn:E0; [reflexivity|].
          destruct (cross lk R q <? 0) eqn:E2; [lia|]. apply andb_true_intro. split; lia.
        * intros x Hx. right. exact Hx.
    - (* two pixels in the last column: R goes on top of T *)
      assert (HTi : fst T < fst R).
      { assert (HT : In T pts) by (apply Hincl; left; reflexivity).
        pose proof (build_upper_ge pts T HT) as G. rewrite HTj in G. fold upper in G.
        unfold R. cbn [fst]. destruct (Z.eq_dec (fst T) (upper ej)) as [Ee|Ne]; [|lia].
        exfalso. apply NT. destruct T as [Ti Tj]. unfold R. cbn [fst snd] in *. subst. reflexivity. }
      split; [discriminate|]. split.
      + f_equal.
        replace (prune (T :: lk :: tl2) R) with (if CONVEX lk T R then T :: lk :: tl2 else prune (lk :: tl2) R) by reflexivity.
        assert (EC : CONVEX lk T R = true).
        { apply CONVEX_left_pos. unfold cross. unfold R in *. cbn [fst snd] in *. nia. }
        rewrite EC. reflexivity.
      + split.
        * intros s Hs. destruct (Hall s Hs) as [He _]. assert (Hs2 : snd s <= ej) by exact (Hright s Hs).
          assert (G1 : 0 <= cross T R s).
          { unfold cross. unfold R in *. cbn [fst snd] in *. nia. }
          exact (conj G1 He).
        * split; [|intros x Hx; exact Hx].
          intros q Hq Hqj. cbn [hd]. apply CONVEX_left_pos.
          unfold cross. unfold R in *. cbn [fst snd] in *. nia.
  Qed.

  Let cols2 := rev (cols_up (sj + 1) ej).
  Let stU := fold_left (upper_emit_free upper) cols2 [].
  Let st2F := fold_left (upper_emit_free upper) cols2 st1.

  (* pivot_protected: the second loop never pops the right-most vertex R; the stack is the upper
     chain (computed on an empty stack) on top of the untouched lower part *)
  Theorem pivot_protected : st2F = stU ++ base /\ (forall d, last stU d = R) /\ stU <> [] /\
    prune st2F Q = prune stU Q ++ base.
  Proof.
    destruct poly_first as [Hb [Efirst [_ [Hprot _]]]]. destruct poly_R as [HR HQ].
    assert (EU : -1 <? upper ej = true).
    { pose proof (Hrange _ HR) as X. unfold R in X. cbn [fst] in X. lia. }
    assert (Ecols : cols2 = ej :: rev (cols_up (sj + 1) (ej - 1))).
    { unfold cols2. rewrite (cols_up_snoc (sj + 1) ej) by lia. rewrite rev_app_distr. reflexivity. }
    assert (Hprot2 : forall j, In j (rev (cols_up (sj + 1) (ej - 1))) -> -1 <? upper j = true ->
                     CONVEX (hd (upper j, j) base) R (upper j, j) = true).
    { intros j Hj Ej. apply in_rev in Hj. apply in_cols_up in Hj. apply Hprot; [|cbn [snd]; lia].
      destruct (build_upper_in pts j) as [B|B]; [fold upper in B; lia | exact B]. }
    destruct (free_fold_protected upper base R Hb (rev (cols_up (sj + 1) (ej - 1))) [R] ltac:(discriminate)
                (fun d => eq_refl) Hprot2) as [F1 [F2 F3]].
    assert (EstU : stU = fold_left (upper_emit_free upper) (rev (cols_up (sj + 1) (ej - 1))) [R]).
    { unfold stU. rewrite Ecols. cbn [fold_left]. unfold upper_emit_free at 2. rewrite EU. reflexivity. }
    assert (Est2 : st2F = stU ++ base).
    { unfold st2F. rewrite Ecols. cbn [fold_left]. rewrite Efirst. rewrite EstU. exact F1. }
    split; [exact Est2|]. split; [intros d; rewrite EstU; apply F2|]. split; [rewrite EstU; exact F3|].
    rewrite Est2. apply prune_app_protected; [exact Hb | rewrite EstU; exact F3|].
    rewrite EstU, F2. apply Hprot; [exact HQ | unfold Q; cbn [snd]; lia].
  Qed.

  (* the final stack: rev of the output *)
  Definition final_stack : list pt :=
    if negb (lower sj =? upper sj) then Q :: prune st2F Q else prune st2F Q.

  Lemma final_stack_out : hull_free m pts = rev final_stack.
  Proof. reflexivity. Qed.

  (* clause (c) for the complete polygon: every pixel lies on the inner side of, or on, every edge of
     the output, including the edges at the right-most vertex and the closing edge *)
  Theorem hull_free_edges : final_stack <> [] /\
    forall s, In s pts -> edges_ok final_stack s /\ forall d, 0 <= cross (hd d final_stack) (last final_stack d) s.
  Proof.
    destruct pivot_protected as [Est2 [HlastU [HneU Epr]]].
    destruct poly_first as [Hb [_ [HRbase [_ Hbincl]]]].
    destruct poly_st1 as [Hne1 [HJ1 [_ [Hincl1 [Hall1 [Hlast1 _]]]]]].
    destruct poly_R as [HR HQ]. destruct (fin_Q m p0 rest Hok) as [_ [Hlu HL]].
    fold sj in Hlu, HL. fold upper in Hlu, HL. fold lower in Hlu, HL.
    assert (EUs : -1 <? upper sj = true).
    { pose proof (Hrange _ HQ) as X. unfold Q in X. cbn [fst] in X. lia. }
    (* the upper chain including column start_j *)
    set (stU' := Q :: prune stU Q).
    assert (EstU' : stU' = fold_left (upper_emit_free upper) (rev (cols_up sj ej)) []).
    { rewrite (cols_up_cons sj ej) by lia. cbn [rev]. rewrite fold_left_app. cbn [fold_left].
      fold cols2. fold stU. unfold upper_emit_free at 1. rewrite EUs. reflexivity. }
    destruct (upper_chain_contains pts sj ej (fun s H => proj1 (Hrange s H)) Hright) as [HJU [HCU HallU]].
    fold upper in HJU, HCU, HallU. rewrite <- EstU' in HJU, HCU, HallU.
    assert (HprU : prune stU Q <> []) by (apply prune_nonempty; exact HneU).
    assert (HlastP : forall d, last (prune stU Q) d = R) by (intros d; rewrite prune_last; apply HlastU).
    destruct (exists_last HprU) as [A' [r Er]].
    assert (Err : r = R) by (specialize (HlastP r); rewrite Er, last_last in HlastP; exact HlastP). subst r.
    (* the bottom vertex *)
    assert (Hlb : forall d, last base d = last st1 d).
    { intros d. pose proof Hb as Hb'. unfold base in Hb' |- *. destruct (pt_eq_dec (hd R st1) R); [|reflexivity].
      apply last_tl. exact Hb'. }
    assert (HB : forall d, In (last st1 d) pts).
    { intros d. destruct (exists_last Hne1) as [l' [z Ez]]. apply Hincl1. rewrite Ez, last_last.
      apply in_or_app. right. left. reflexivity. }
    assert (Hwrap : forall s, In s pts -> forall d, 0 <= cross Q (last st1 d) s).
    { intros s Hs d. pose proof (build_upper_ge pts _ (HB d)) as G. rewrite (Hlast1 d) in G. fold upper in G.
      pose proof (Hleft s Hs) as G2. fold sj in G2. specialize (Hlast1 d).
      destruct (last st1 d) as [bi bj]. destruct s as [si sj']. unfold cross, Q. cbn [fst snd] in *. nia. }
    assert (HBQ : lower sj = upper sj -> forall d, last st1 d = Q).
    { intros E d. pose proof (build_upper_ge pts _ (HB d)) as G. pose proof (build_lower_le m pts _ (HB d)) as G2.
      rewrite (Hlast1 d) in G, G2. fold upper in G. fold lower in G2. specialize (Hlast1 d).
      destruct (last st1 d) as [bi bj]. unfold Q. cbn [fst snd] in *. f_equal; lia. }
    unfold final_stack. rewrite Epr, Er.
    destruct (negb (lower sj =? upper sj)) eqn:EN.
    - split; [discriminate|]. intros s Hs. split.
      + rewrite <- app_assoc. change (edges_ok ((Q :: A') ++ R :: base) s).
        apply edges_ok_app; [|apply HRbase; exact Hs].
        specialize (HallU s Hs ltac:(apply Hleft; exact Hs)). unfold stU' in HallU. rewrite Er in HallU. exact HallU.
      + intros d. cbn [hd]. rewrite last_cons_ne by (destruct A'; discriminate).
        rewrite <- app_assoc. rewrite last_app_ne by discriminate.
        change ([R] ++ base) with (R :: base). rewrite last_cons_ne by exact Hb. rewrite Hlb. apply Hwrap. exact Hs.
    - split; [destruct A'; discriminate|]. intros s Hs.
      specialize (HallU s Hs ltac:(apply Hleft; exact Hs)). unfold stU' in HallU. rewrite Er in HallU.
      split.
      + rewrite <- app_assoc. change ([R] ++ base) with (R :: base).
        apply edges_ok_app; [|apply HRbase; exact Hs]. eapply edges_ok_tail. exact HallU.
      + intros d. rewrite <- app_assoc. rewrite last_app_ne by discriminate.
        change ([R] ++ base) with (R :: base). rewrite last_cons_ne by exact Hb. rewrite Hlb.
        rewrite (HBQ ltac:(lia) d).
        (* the closing edge is the first edge of the upper chain extended to column start_j *)
        destruct A' as [|z A'']; cbn [app hd]; cbn [app] in HallU; [exact (proj1 HallU)|].
        destruct A''; cbn [app] in HallU; exact (proj1 HallU).
  Qed.

  (* ---------------------------------------------------------------- the label with at least two columns *)
  Theorem wide_correct : HullSpec pts (hull_free m pts).
  Proof.
    destruct pivot_protected as [Est2 [HlastU [HneU Epr]]].
    destruct poly_first as [Hb [_ [_ [_ Hbincl]]]].
    destruct poly_st1 as [Hne1 [HJ1 [_ [Hincl1 [Hall1 [Hlast1 _]]]]]].
    destruct poly_R as [HR HQ]. destruct (fin_Q m p0 rest Hok) as [_ [Hlu0 HL0]].
    assert (Hlu : lower sj <= upper sj) by exact Hlu0. assert (HL : In ((lower sj, sj) : pt) pts) by exact HL0.
    clear Hlu0 HL0.
    destruct hull_free_edges as [HFSne HFSedges].
    assert (Hfree : hull_free m pts = hull_label m pts 0) by (symmetry; apply guard_irrelevant; [exact Hok | lia]).
    set (Bv := last st1 p0).
    assert (HBv : snd Bv = sj) by apply Hlast1.
    assert (HBin : In Bv pts).
    { destruct (exists_last Hne1) as [l' [z Ez]]. apply Hincl1. unfold Bv. rewrite Ez, last_last.
      apply in_or_app. right. left. reflexivity. }
    (* base = base' ++ [Bv], a jdesc suffix of st1 *)
    assert (HJb : jdesc base).
    { unfold base. destruct (pt_eq_dec (hd R st1) R); [|exact HJ1]. apply jdesc_tl. exact HJ1. }
    assert (Hlb : last base p0 = Bv).
    { pose proof Hb as Hb'. unfold base in Hb' |- *. destruct (pt_eq_dec (hd R st1) R); [|reflexivity].
      apply last_tl. exact Hb'. }
    destruct (exists_last Hb) as [base' [z Ez]].
    assert (Ezb : z = Bv) by (rewrite Ez, last_last in Hlb; exact Hlb). subst z.
    set (PU := prune stU Q).
    assert (HPU : forall x, In x PU -> sj < snd x).
    { intros x Hx. apply (prune_subset stU Q) in Hx.
      apply (free_fold_cols upper (fun y => sj < snd y) cols2 []); [intros y [] | | exact Hx].
      intros j Hj. unfold cols2 in Hj. apply in_rev in Hj. apply in_cols_up in Hj. cbn [snd]. lia. }
    assert (Hbase' : forall x, In x base' -> sj < snd x).
    { intros x Hx. rewrite Ez in HJb. pose proof (proj1 (jdesc_mid base' [] Bv HJb) x Hx). lia. }
    set (M := PU ++ base').
    assert (Est3 : prune st2F Q = M ++ [Bv]) by (rewrite Epr, Ez; unfold M, PU; rewrite app_assoc; reflexivity).
    assert (HM : forall x, In x M -> sj < snd x).
    { intros x Hx. unfold M in Hx. apply in_app_or in Hx. destruct Hx; auto. }
    assert (HRM : In R M).
    { unfold M. apply in_or_app. left. unfold PU.
      assert (N : prune stU Q <> []) by (apply prune_nonempty; exact HneU).
      destruct (exists_last N) as [l' [w Ew]]. rewrite Ew.
      pose proof (HlastU R) as X. rewrite <- (prune_last stU Q R), Ew, last_last in X. subst w.
      apply in_or_app. right. left. reflexivity. }
    (* the output as a list *)
    assert (EV : hull_free m pts = if negb (lower sj =? upper sj) then Bv :: rev M ++ [Q] else Bv :: rev M).
    { rewrite final_stack_out. unfold final_stack. rewrite Est3.
      destruct (negb (lower sj =? upper sj)); cbn [rev]; rewrite rev_app_distr; reflexivity. }
    apply (strict_hullspec pts (hull_free m pts) Bv Q sj ej (negb (lower sj =? upper sj))).
    - rewrite Hfree. intros x Hx. apply (vertices_subset m pts 0 x); [|exact Hx].
      intros q Hq. exact (proj1 (Hrange q Hq)).
    - rewrite Hfree. apply hull_label_nodup; [exact Hok | lia].
    - (* edges inside the list *)
      intros l1 l2 a b E s Hs. destruct (HFSedges s Hs) as [He _].
      assert (EF : final_stack = rev l2 ++ b :: a :: rev l1).
      { rewrite <- (rev_involutive final_stack), <- final_stack_out, E, rev_app_distr. cbn [rev].
        rewrite <- !app_assoc. reflexivity. }
      rewrite EF in He. eapply edges_ok_mid. exact He.
    - (* the closing edge *)
      intros d s Hs. destruct (HFSedges s Hs) as [_ Hw]. rewrite final_stack_out, last_rev, hd_rev. apply Hw.
    - intros l1 l2 a b c E. rewrite Hfree in E.
      apply (emit_chain_convex m pts 0 (fun q Hq => proj1 (Hrange q Hq)) l1 l2 a b c E).
    - intros s Hs. split; [apply Hleft | apply Hright]; exact Hs.
    - exact Hwide.
    - exists R. split; [|reflexivity]. rewrite EV.
      destruct (negb (lower sj =? upper sj)); right; [apply in_or_app; left|]; apply in_rev; rewrite rev_involutive; exact HRM.
    - destruct (negb (lower sj =? upper sj)) eqn:EN.
      + exists (rev M). split; [exact EV|]. split; [exact HBv|]. split; [reflexivity|]. split.
        * destruct (Hall1 _ HL) as [_ HBo]. destruct (HBo p0) as [_ B2].
          assert (B3 : fst Bv <= lower sj) by (apply B2; cbn [snd]; symmetry; exact HBv).
          assert (Hne : lower sj <> upper sj) by (intros E0; rewrite E0, Z.eqb_refl in EN; discriminate).
          unfold Q. cbn [fst]. lia.
        * intros x Hx. apply HM. apply in_rev. exact Hx.
      + exists (rev M). split; [exact EV|]. split; [exact HBv|]. split; [intros x Hx; apply HM; apply in_rev; exact Hx|].
        intros l1 y z E.
        assert (EQB : Q = Bv).
        { pose proof (build_upper_ge pts _ HBin) as G. pose proof (build_lower_le m pts _ HBin) as G2.
          rewrite HBv in G, G2. fold upper in G. fold lower in G2.
          destruct Bv as [bi bj]. unfold Q. cbn [fst snd] in *. f_equal; lia. }
        rewrite <- EQB.
        assert (EF : prune st2F Q = z :: y :: rev l1).
        { assert (X : final_stack = prune st2F Q) by (unfold final_stack; rewrite EN; reflexivity).
          rewrite <- X, <- (rev_involutive final_stack), <- final_stack_out, E, rev_app_distr. reflexivity. }
        eapply prune_top_convex. exact EF.
  Qed.
End Poly.

(* ---------------------------------------------------------------- the label with one column *)
Lemma cols_up_single s : cols_up s s = [s].
Proof. unfold cols_up. replace (Z.to_nat (s - s + 1)) with 1%nat by lia. cbn. f_equal. lia. Qed.
Lemma cols_up_empty s : cols_up (s + 1) s = [].
Proof. unfold cols_up. replace (Z.to_nat (s - (s + 1) + 1)) with 0%nat by lia. reflexivity. Qed.

Theorem narrow_correct : forall m p0 rest, label_ok m (p0 :: rest) -> snd (last (p0 :: rest) p0) = snd p0 ->
  HullSpec (p0 :: rest) (hull_free m (p0 :: rest)).
Proof.
  intros m p0 rest Hok Eej.
  set (pts := p0 :: rest). set (sj := snd p0). set (lo := build_lower m pts sj). set (up := build_upper pts sj).
  destruct (fin_Q m p0 rest Hok) as [HQ0 [Hlu0 HL0]].
  assert (HQ : In ((up, sj) : pt) pts) by exact HQ0. assert (Hlu : lo <= up) by exact Hlu0.
  assert (HL : In ((lo, sj) : pt) pts) by exact HL0. clear HQ0 Hlu0 HL0.
  assert (Hlm : lo <? m + 1 = true).
  { pose proof (fin_range m p0 rest Hok _ HL) as X. cbn [fst] in X. lia. }
  assert (Hcol : forall s, In s pts -> snd s = sj /\ lo <= fst s <= up).
  { intros s Hs. pose proof (fin_left m p0 rest Hok s Hs) as L. pose proof (fin_right m p0 rest Hok s Hs) as Rr.
    rewrite Eej in Rr. assert (Es : snd s = sj) by (unfold sj; lia). split; [exact Es|].
    pose proof (build_lower_le m pts s Hs) as G1. pose proof (build_upper_ge pts s Hs) as G2.
    rewrite Es in G1, G2. unfold lo, up. lia. }
  assert (Eout : hull_free m pts = if negb (lo =? up) then [(lo, sj); (up, sj)] else [(lo, sj)]).
  { unfold hull_free, pts. cbv zeta. rewrite Eej. fold pts. fold sj. rewrite cols_up_single, cols_up_empty.
    cbn [rev fold_left]. unfold lower_emit. fold lo. rewrite !Hlm. cbn [prune]. fold up.
    destruct (negb (lo =? up)); reflexivity. }
  rewrite Eout. destruct (negb (lo =? up)) eqn:EN.
  - constructor.
    + intros x [Hx|[Hx|[]]]; subst x; assumption.
    + constructor; [intros [H|[]]; inversion H; lia | constructor; [intros [] | constructor]].
    + discriminate.
    + discriminate.
    + intros a b E s Hs. inversion E. subst a b. destruct (Hcol s Hs) as [Es Hr].
      destruct s as [si sj']. unfold on_segment, cross, dot. cbn [fst snd] in *. subst sj'. split; [ring|]. nia.
    + cbn. lia.
  - constructor.
    + intros x [Hx|[]]; subst x; assumption.
    + constructor; [intros [] | constructor].
    + discriminate.
    + intros a E s Hs. inversion E. subst a. destruct (Hcol s Hs) as [Es Hr].
      destruct s as [si sj']. cbn [fst snd] in *. f_equal; lia.
    + discriminate.
    + cbn. lia.
Qed.

(* ---------------------------------------------------------------- HullLabelCorrect *)
(* For every label the kernel may see (0 <= i <= max_i, rows in buffer order) and every slack >= 0 the
   polygon emitted by the kernel meets the full specification: vertices are pixels, no repeated vertex,
   every cyclic triple strictly convex in one sense, every pixel inside or on. *)
Theorem hull_label_correct : HullLabelCorrect.
Proof.
  intros m pts slack Hok Hs. rewrite (guard_irrelevant m pts slack Hok Hs).
  destruct pts as [|p0 rest].
  - cbn. constructor; auto; try discriminate.
    + intros x [].
    + constructor.
    + cbn. lia.
  - destruct (Z_lt_le_dec (snd p0) (snd (last (p0 :: rest) p0))) as [Hw|Hn].
    + apply wide_correct; assumption.
    + apply narrow_correct; [exact Hok|].
      pose proof (fin_right m p0 rest Hok p0 (fin_p0 p0 rest)). lia.
Qed.

(* clause (c), complete, for the kernel as written (with the guard, any slack >= 0), every label with at
   least two columns: the output is the reverse of a stack all of whose edges, and the closing edge,
   have every pixel on the inner side *)
Theorem hull_label_contains_all : forall m p0 rest slack, label_ok m (p0 :: rest) -> 0 <= slack ->
  snd p0 < snd (last (p0 :: rest) p0) ->
  exists FS, hull_label m (p0 :: rest) slack = rev FS /\ FS <> [] /\
    forall s, In s (p0 :: rest) -> edges_ok FS s /\ forall d, 0 <= cross (hd d FS) (last FS d) s.
Proof.
  intros m p0 rest slack Hok Hs Hwide. exists (final_stack m p0 rest).
  split; [rewrite (guard_irrelevant m (p0 :: rest) slack Hok Hs); apply final_stack_out|].
  apply (hull_free_edges m p0 rest Hok Hwide).
Qed.

Example hull_label_contains_all_ex :
  label_ok 3 [(0,0);(2,0);(1,1);(3,1);(0,2);(2,3)] /\ 0 < 3 /\
  hull_label 3 [(0,0);(2,0);(1,1);(3,1);(0,2);(2,3)] 0 = rev [(2,0);(3,1);(2,3);(0,2);(0,0)].
Proof.
  split; [split; [intros s H; cbn in H; repeat (destruct H as [H|H]; [subst s; cbn; lia|]); contradiction
                 | repeat constructor; cbn; lia]|].
  split; [lia | vm_compute; reflexivity].
Qed.

(* the batch theorems with HullNoOverflow discharged *)
From Centro Require Import Spec.HullSpec Proofs.HullImage.
Theorem convex_hull_ijv_correct :
  forall ijv indexes, NoDup indexes -> (forall x, In x ijv -> 0 <= r_i x) ->
  let res := fst (convex_hull_ijv ijv indexes) in
  BatchSpec ijv indexes (rows_of res) (counts_of res).
Proof. exact (convex_hull_ijv_correct_partial hull_label_correct hull_no_overflow). Qed.
Theorem convex_hull_correct :
  forall im indexes, NoDup indexes ->
  match convex_hull im indexes with
  | HEmpty2 => indexes = []
  | HBlank n => n = length indexes /\ forall l, pts_of (all_ijv im) l = []
  | HRows r => BatchSpec (all_ijv im) indexes (rows_of (fst r)) (counts_of (fst r))
  end.
Proof. exact (convex_hull_correct_partial hull_label_correct hull_no_overflow). Qed.
