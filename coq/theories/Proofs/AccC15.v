(* C15 — all_connected_components: the arrays handed to the kernel (sorted symmetrised edge
   list, bincount, exclusive cumsum) enumerate for every vertex exactly its neighbours in the
   undirected edge list; with Proofs/DfsC15.v this gives the partition theorem on edge lists. *)
From Coq Require Import ZArith NArith List Bool Lia Sorted Permutation RelationClasses.
From Centro Require Import Base.GraphC15 Model.LabelGraph Proofs.DfsC15.
Import ListNotations.
Open Scope N_scope.

(* ---------------------------------------------------------------- maps from lists *)
Lemma mof_list_below l : forall start m k, k < start -> mgetd (mof_list start l m) k = mgetd m k.
Proof.
  induction l as [|x r IH]; intros start m k H; cbn [mof_list]; [reflexivity|].
  rewrite IH by lia. apply mgetd_set_other. lia.
Qed.
Lemma mof_list_nth l : forall start m w, (w < length l)%nat ->
  mgetd (mof_list start l m) (start + N.of_nat w) = nth w l 0.
Proof.
  induction l as [|x r IH]; intros start m w H; cbn [length] in H; [lia|]. cbn [mof_list].
  destruct w as [|w].
  - rewrite N.add_0_r. rewrite mof_list_below by lia. apply mgetd_set_same.
  - replace (start + N.of_nat (S w)) with (N.succ start + N.of_nat w) by lia.
    rewrite IH by lia. reflexivity.
Qed.
Lemma mof_list_above l : forall start m k, start + N.of_nat (length l) <= k ->
  mgetd (mof_list start l m) k = mgetd m k.
Proof.
  induction l as [|x r IH]; intros start m k H; cbn [mof_list]; [reflexivity|]. cbn [length] in H.
  rewrite IH by lia. apply mgetd_set_other. lia.
Qed.
Lemma mgetd_empty k : mgetd mempty k = 0.
Proof. unfold mgetd. rewrite mget_empty. reflexivity. Qed.
(* reading the array made from a list: entry k, 0 past the end *)
Lemma mof_list_get l k : mgetd (mof_list 0 l mempty) k = nth (N.to_nat k) l 0.
Proof.
  destruct (N.ltb_spec k (N.of_nat (length l))) as [L|L].
  - replace k with (0 + N.of_nat (N.to_nat k)) at 1 by lia. apply mof_list_nth. lia.
  - rewrite mof_list_above by lia. rewrite mgetd_empty. symmetry. apply nth_overflow. lia.
Qed.

Lemma nth_map_nseq {A} (f : N -> A) d : forall len start w, (w < len)%nat ->
  nth w (map f (nseq start len)) d = f (start + N.of_nat w).
Proof.
  induction len as [|len IH]; intros start w H; [lia|]. cbn [nseq map].
  destruct w as [|w]; cbn [nth]; [f_equal; lia|]. rewrite IH by lia. f_equal. lia.
Qed.

(* ---------------------------------------------------------------- counting *)
Definition cnteq (l : list N) (u : N) : nat := length (filter (fun x => x =? u) l).
Definition cntlt (l : list N) (u : N) : nat := length (filter (fun x => x <? u) l).
Lemma cntlt_succ l u : cntlt l (u + 1) = (cntlt l u + cnteq l u)%nat.
Proof.
  unfold cntlt, cnteq. induction l as [|x r IH]; cbn [filter length]; [reflexivity|].
  destruct (N.ltb_spec x (u + 1)), (N.ltb_spec x u), (N.eqb_spec x u); cbn [length]; lia.
Qed.
Lemma cntlt_0 l : cntlt l 0 = 0%nat.
Proof.
  unfold cntlt. induction l as [|x r IH]; cbn [filter length]; [reflexivity|].
  destruct (N.ltb_spec x 0); [lia|exact IH].
Qed.

Lemma list_maxN_ge l : forall x, In x l -> x <= list_maxN l.
Proof.
  induction l as [|a r IH]; intros x H; [destruct H|]. cbn [list_maxN].
  destruct H as [->|H]; [lia|]. specialize (IH x H). lia.
Qed.
Lemma list_maxN_in l : l <> [] -> In (list_maxN l) l.
Proof.
  induction l as [|a r IH]; intros H; [congruence|]. cbn [list_maxN].
  destruct r as [|b r']; [left; cbn; lia|].
  destruct (N.max_spec a (list_maxN (b :: r'))) as [[_ E]|[_ E]]; rewrite E.
  - right. apply IH. discriminate.
  - left. reflexivity.
Qed.
Lemma cnteq_zero l u : (forall x, In x l -> x <> u) -> cnteq l u = 0%nat.
Proof.
  unfold cnteq. induction l as [|x r IH]; intros H; cbn [filter length]; [reflexivity|].
  destruct (N.eqb_spec x u) as [E|_]; [exfalso; apply (H x); [left; auto|exact E]|].
  apply IH. intros y Hy. apply H. right; auto.
Qed.

(* np.bincount *)
Lemma bincount_fold l : forall m v,
  mgetd (fold_left (fun m a => mset m a (mgetd m a + 1)) l m) v = mgetd m v + N.of_nat (cnteq l v).
Proof.
  unfold cnteq. induction l as [|a r IH]; intros m v; cbn [fold_left filter length]; [lia|].
  rewrite IH. destruct (N.eqb_spec a v) as [->|Ne].
  - rewrite mgetd_set_same. cbn [length]. lia.
  - rewrite mgetd_set_other by congruence. lia.
Qed.
Lemma bincount_length l : length (bincountN l) = N.to_nat (N.succ (list_maxN l)).
Proof. unfold bincountN. rewrite map_length, nseq_length. reflexivity. Qed.
Lemma bincount_nth l w : nth w (bincountN l) 0 = N.of_nat (cnteq l (N.of_nat w)).
Proof.
  destruct (Nat.ltb_spec w (length (bincountN l))) as [L|L].
  - rewrite bincount_length in L. unfold bincountN. rewrite nth_map_nseq by exact L.
    rewrite bincount_fold, mgetd_empty. rewrite !N.add_0_l. reflexivity.
  - rewrite nth_overflow by exact L. rewrite bincount_length in L.
    rewrite cnteq_zero; [reflexivity|]. intros x Hx. pose proof (list_maxN_ge l x Hx). lia.
Qed.

(* np.cumsum(counts) - counts over bincount = number of smaller entries *)
Lemma excl_cumsum_nth l : forall cs s base,
  (forall w, (w < length cs)%nat -> nth w cs 0 = N.of_nat (cnteq l (base + N.of_nat w))) ->
  s = N.of_nat (cntlt l base) ->
  forall k, (k < length cs)%nat -> nth k (excl_cumsumN s cs) 0 = N.of_nat (cntlt l (base + N.of_nat k)).
Proof.
  induction cs as [|c cs IH]; intros s base Hn Hs k Hk; cbn [length] in Hk; [lia|].
  cbn [excl_cumsumN]. destruct k as [|k]; cbn [nth].
  - rewrite N.add_0_r. exact Hs.
  - replace (base + N.of_nat (S k)) with ((base + 1) + N.of_nat k) by lia. apply IH.
    + intros w Hw. specialize (Hn (S w) ltac:(cbn [length]; lia)). cbn [nth] in Hn. rewrite Hn. f_equal. f_equal. lia.
    + specialize (Hn 0%nat ltac:(cbn [length]; lia)). cbn [nth] in Hn. rewrite N.add_0_r in Hn.
      rewrite Hn, Hs, cntlt_succ. lia.
    + lia.
Qed.
Lemma excl_cumsum_length cs : forall s, length (excl_cumsumN s cs) = length cs.
Proof. induction cs; intros; cbn [excl_cumsumN length]; auto. Qed.

(* ---------------------------------------------------------------- sorted lists split into blocks *)
Lemma filter_filter_eq (l : list (N * N)) u :
  length (filter (fun p => fst p <? u + 1) (filter (fun p => negb (fst p <? u)) l)) =
  length (filter (fun p => fst p =? u) l).
Proof.
  induction l as [|a r IH]; cbn [filter]; [reflexivity|].
  destruct (N.ltb_spec (fst a) u), (N.eqb_spec (fst a) u); cbn [negb filter length]; try lia.
  - destruct (N.ltb_spec (fst a) (u + 1)); [cbn [length]; lia|lia].
  - destruct (N.ltb_spec (fst a) (u + 1)); [lia|exact IH].
Qed.

Section Blocks.
Variable e : list (N * N).
Hypothesis e_sorted : StronglySorted (fun p q => fst p <= fst q) e.

Lemma filter_all {A} (f : A -> bool) l : (forall x, In x l -> f x = true) -> filter f l = l.
Proof.
  induction l as [|a r IH]; intros H; cbn [filter]; [reflexivity|].
  rewrite (H a (or_introl eq_refl)). f_equal. apply IH. intros; apply H; right; auto.
Qed.
Lemma filter_none {A} (f : A -> bool) l : (forall x, In x l -> f x = false) -> filter f l = [].
Proof.
  induction l as [|a r IH]; intros H; cbn [filter]; [reflexivity|].
  rewrite (H a (or_introl eq_refl)). apply IH. intros; apply H; right; auto.
Qed.

Lemma sorted_split_lt (l : list (N * N)) u : StronglySorted (fun p q => fst p <= fst q) l ->
  l = filter (fun p => fst p <? u) l ++ filter (fun p => negb (fst p <? u)) l.
Proof.
  induction 1 as [|a r SS IH Fa]; [reflexivity|]. rewrite Forall_forall in Fa. cbn [filter].
  destruct (N.ltb_spec (fst a) u) as [L|L]; cbn [negb app].
  - f_equal. exact IH.
  - rewrite (filter_none (fun p => fst p <? u) r), (filter_all (fun p => negb (fst p <? u)) r); [reflexivity| |].
    + intros x Hx. specialize (Fa x Hx). destruct (N.ltb_spec (fst x) u); [lia|reflexivity].
    + intros x Hx. specialize (Fa x Hx). destruct (N.ltb_spec (fst x) u); [lia|reflexivity].
Qed.
Lemma filter_sorted (f : N * N -> bool) (l : list (N * N)) :
  StronglySorted (fun p q => fst p <= fst q) l -> StronglySorted (fun p q => fst p <= fst q) (filter f l).
Proof.
  induction 1 as [|a r SS IH Fa]; cbn [filter]; [constructor|].
  destruct (f a); [|exact IH]. constructor; [exact IH|].
  rewrite Forall_forall in *. intros x Hx. apply filter_In in Hx. apply Fa. tauto.
Qed.

Definition blockA (u : N) := filter (fun p => fst p <? u) e.
Definition blockB (u : N) := filter (fun p => fst p <? u + 1) (filter (fun p => negb (fst p <? u)) e).
Definition blockC (u : N) := filter (fun p => negb (fst p <? u + 1)) (filter (fun p => negb (fst p <? u)) e).
Lemma blocks_split u : e = blockA u ++ blockB u ++ blockC u.
Proof.
  unfold blockA, blockB, blockC. rewrite <- sorted_split_lt; [apply sorted_split_lt; exact e_sorted|].
  apply filter_sorted. exact e_sorted.
Qed.
Lemma blockB_in u p : In p (blockB u) <-> In p e /\ fst p = u.
Proof.
  unfold blockB. rewrite !filter_In.
  destruct (N.ltb_spec (fst p) (u + 1)), (N.ltb_spec (fst p) u); cbn [negb]; intuition (try lia; try discriminate).
Qed.
Lemma length_filter_fst (f : N -> bool) (l : list (N * N)) :
  length (filter (fun p => f (fst p)) l) = length (filter f (map fst l)).
Proof. induction l as [|a r IH]; cbn [filter map length]; [reflexivity|]. destruct (f (fst a)); cbn [length]; lia. Qed.
Lemma blockA_length u : length (blockA u) = cntlt (map fst e) u.
Proof. unfold blockA, cntlt. apply (length_filter_fst (fun x => x <? u)). Qed.
Lemma blockB_length u : length (blockB u) = cnteq (map fst e) u.
Proof.
  unfold blockB, cnteq. rewrite <- (length_filter_fst (fun x => x =? u)). apply filter_filter_eq.
Qed.

(* entry k of vertex u's block of the j array *)
Lemma block_nth u k : (k < cnteq (map fst e) u)%nat ->
  nth (cntlt (map fst e) u + k) (map snd e) 0 = nth k (map snd (blockB u)) 0.
Proof.
  intros H. rewrite <- blockA_length.
  replace (map snd e) with (map snd (blockA u) ++ map snd (blockB u) ++ map snd (blockC u))
    by (rewrite <- !map_app, <- blocks_split; reflexivity).
  rewrite <- (map_length snd (blockA u)). rewrite app_nth2_plus.
  apply app_nth1. rewrite map_length, blockB_length. exact H.
Qed.

(* the k-th neighbour slots of u enumerate exactly the v with (u, v) in the list *)
Lemma block_edges u v :
  (exists k, (k < cnteq (map fst e) u)%nat /\ nth (cntlt (map fst e) u + k) (map snd e) 0 = v) <-> In (u, v) e.
Proof.
  split.
  - intros [k [Hk E]]. rewrite block_nth in E by exact Hk.
    assert (Hin : In v (map snd (blockB u))).
    { rewrite <- E. apply nth_In. rewrite map_length, blockB_length. exact Hk. }
    apply in_map_iff in Hin. destruct Hin as [[a b] [Eb Hp]]. cbn [snd] in Eb. subst b.
    apply blockB_in in Hp. cbn [fst] in Hp. destruct Hp as [Hp ->]. exact Hp.
  - intros H. assert (Hb : In (u, v) (blockB u)) by (apply blockB_in; split; auto).
    assert (Hv : In v (map snd (blockB u))) by (apply in_map_iff; exists (u, v); auto).
    destruct (In_nth _ _ 0 Hv) as [k [Hk E]]. rewrite map_length, blockB_length in Hk.
    exists k. split; [exact Hk|]. rewrite block_nth by exact Hk. exact E.
Qed.
End Blocks.

(* ---------------------------------------------------------------- the sorted symmetrised edge list *)
Lemma npair_leb_fst p q : NPairOrder.leb p q = true -> fst p <= fst q.
Proof.
  unfold NPairOrder.leb. destruct (N.ltb_spec (fst p) (fst q)), (N.eqb_spec (fst p) (fst q)); cbn; intros; try lia; discriminate.
Qed.
Lemma npair_leb_trans : Transitive (fun p q => is_true (NPairOrder.leb p q)).
Proof.
  intros [a1 a2] [b1 b2] [c1 c2]. unfold is_true, NPairOrder.leb. cbn [fst snd].
  destruct (N.ltb_spec a1 b1), (N.eqb_spec a1 b1), (N.leb_spec a2 b2),
           (N.ltb_spec b1 c1), (N.eqb_spec b1 c1), (N.leb_spec b2 c2),
           (N.ltb_spec a1 c1), (N.eqb_spec a1 c1), (N.leb_spec a2 c2); cbn; intros; try lia; try discriminate; auto.
Qed.
Lemma ss_impl {A} (R S : A -> A -> Prop) l : (forall a b, R a b -> S a b) -> StronglySorted R l -> StronglySorted S l.
Proof.
  intros H. induction 1 as [|a r SS IH Fa]; constructor; auto.
  rewrite Forall_forall in *. intros x Hx. apply H. apply Fa. exact Hx.
Qed.
Lemma acc_edges_sorted i j : StronglySorted (fun p q => fst p <= fst q) (acc_edges i j).
Proof.
  unfold acc_edges. eapply ss_impl; [|apply NPairSort.StronglySorted_sort; exact npair_leb_trans].
  intros a b H. apply npair_leb_fst. exact H.
Qed.
Lemma acc_edges_in i j p : In p (acc_edges i j) <-> In p (combine (i ++ j) (j ++ i)).
Proof.
  unfold acc_edges. split; intros H.
  - eapply Permutation_in; [apply Permutation_sym; apply NPairSort.Permuted_sort|exact H].
  - eapply Permutation_in; [apply NPairSort.Permuted_sort|exact H].
Qed.
Lemma combine_app {A B} (a c : list A) (b d : list B) : length a = length b ->
  combine (a ++ c) (b ++ d) = combine a b ++ combine c d.
Proof.
  revert b. induction a as [|x a IH]; intros [|y b] H; cbn [length] in H; try discriminate; [reflexivity|].
  cbn [app combine]. f_equal. apply IH. lia.
Qed.
Lemma in_combine_swap {A B} (a : list A) (b : list B) x y : In (x, y) (combine a b) <-> In (y, x) (combine b a).
Proof.
  revert b. induction a as [|p a IH]; intros [|q b]; cbn [combine In]; try tauto.
  rewrite IH. split; intros [E|H]; auto; left; inversion E; reflexivity.
Qed.

(* undirected edges of the caller's list *)
Definition uedge (es : list (N * N)) (u v : N) : Prop := In (u, v) es \/ In (v, u) es.
Inductive uconn (es : list (N * N)) : N -> N -> Prop :=
| uc_refl u : uconn es u u
| uc_step u v w : uedge es u v -> uconn es v w -> uconn es u w.

Lemma sym_edges_in i j u v : length i = length j ->
  (In (u, v) (combine (i ++ j) (j ++ i)) <-> uedge (combine i j) u v).
Proof.
  intros L. rewrite combine_app by exact L. rewrite in_app_iff. unfold uedge.
  rewrite (in_combine_swap j i u v). tauto.
Qed.

Lemma sumw_counts cnt cs : forall base,
  (forall w, (w < length cs)%nat -> cnt (base + N.of_nat w) = nth w cs 0) ->
  sumw (fun v => 2 * cnt v + 1) (nseq base (length cs)) = 2 * fold_right N.add 0 cs + N.of_nat (length cs).
Proof.
  induction cs as [|c cs IH]; intros base H; cbn [length nseq sumw fold_right]; [reflexivity|].
  rewrite (IH (N.succ base)).
  - specialize (H 0%nat ltac:(cbn [length]; lia)). cbn [nth] in H. rewrite N.add_0_r in H. rewrite H. lia.
  - intros w Hw. specialize (H (S w) ltac:(cbn [length]; lia)). cbn [nth] in H. rewrite <- H. f_equal. lia.
Qed.

Lemma opt_all_some (f : N -> option N) (l : list N) :
  (forall x, In x l -> exists k, f x = Some k) ->
  exists r, opt_all (map f l) = Some r /\ length r = length l /\
    forall w, (w < length l)%nat -> f (nth w l 0) = Some (nth w r 0).
Proof.
  induction l as [|a l IH]; intros H.
  - exists []. cbn. split; [reflexivity|]. split; [reflexivity|]. intros; lia.
  - destruct (H a (or_introl eq_refl)) as [k Ek].
    destruct (IH (fun x Hx => H x (or_intror Hx))) as [r [Er [Lr Nr]]].
    exists (k :: r). cbn [map opt_all]. rewrite Ek, Er. split; [reflexivity|]. split; [cbn [length]; lia|].
    intros [|w] Hw; cbn [nth]; [exact Ek|]. apply Nr. cbn [length] in Hw. lia.
Qed.
Lemma nth_nseq len : forall start w, (w < len)%nat -> nth w (nseq start len) 0 = start + N.of_nat w.
Proof.
  induction len as [|len IH]; intros start w H; [lia|]. cbn [nseq]. destruct w as [|w]; cbn [nth]; [lia|].
  rewrite IH by lia. lia.
Qed.

(* all_connected_components(i, j): for every edge list (self-loops, duplicates, isolated
   vertices, any order) the model returns; there is one label per vertex 0..max; two vertices
   carry the same label exactly when they are connected in the undirected edge list; the labels
   are 0..c-1, all used *)
Theorem all_connected_components_spec (i j : list N) : length i = length j -> i <> [] ->
  let n := S (N.to_nat (list_maxN (i ++ j))) in
  exists labels c, all_connected_components i j = Some labels /\ length labels = n /\
    (forall u w, (u < n)%nat -> (w < n)%nat ->
       (nth u labels 0 = nth w labels 0 <-> uconn (combine i j) (N.of_nat u) (N.of_nat w))) /\
    (forall v, (v < n)%nat -> nth v labels 0 < c) /\
    (forall k, k < c -> exists v, (v < n)%nat /\ nth v labels 0 = k).
Proof.
  intros L NE n. unfold all_connected_components. destruct i as [|i0 i']; [congruence|].
  set (i := i0 :: i') in *.
  set (e := acc_edges i j).
  pose proof (acc_edges_sorted i j) as ES. fold e in ES.
  assert (EIN : forall u v, In (u, v) e <-> uedge (combine i j) u v).
  { intros u v. unfold e. rewrite acc_edges_in. apply sym_edges_in. exact L. }
  set (firsts := map fst e).
  set (counts := bincountN firsts).
  set (cm := mof_list 0 counts mempty).
  set (im := mof_list 0 (excl_cumsumN 0 counts) mempty).
  set (jm := mof_list 0 (map snd e) mempty).
  set (cnt := mgetd cm).
  set (nbr := fun v k => mgetd jm (mgetd im v + k)).
  (* the vertices are the entries of i and j *)
  assert (FIN : forall x, In x firsts <-> In x (i ++ j)).
  { intros x. unfold firsts. rewrite in_map_iff. split.
    - intros [[a b] [E H]]. cbn [fst] in E. subst a. apply EIN in H.
      destruct H as [H|H]; [apply in_combine_l in H|apply in_combine_r in H]; apply in_app_iff; auto.
    - intros H. apply in_app_iff in H. destruct H as [H|H].
      + destruct (In_nth _ _ 0 H) as [k [Hk Ek]].
        exists (x, nth k j 0). split; [reflexivity|]. apply EIN. left.
        rewrite <- Ek. rewrite <- (combine_nth i j k 0 0 L). apply nth_In. rewrite combine_length. lia.
      + destruct (In_nth _ _ 0 H) as [k [Hk Ek]].
        exists (x, nth k i 0). split; [reflexivity|]. apply EIN. right.
        rewrite <- Ek. rewrite <- (combine_nth i j k 0 0 L). apply nth_In. rewrite combine_length. lia. }
  assert (MAXEQ : list_maxN firsts = list_maxN (i ++ j)).
  { assert (N1 : firsts <> []).
    { intros E0. assert (H : In i0 firsts) by (apply FIN; left; reflexivity). rewrite E0 in H. destruct H. }
    assert (N2 : i ++ j <> []) by (unfold i; discriminate).
    pose proof (list_maxN_in firsts N1) as A. apply FIN in A. apply list_maxN_ge in A.
    pose proof (list_maxN_in (i ++ j) N2) as B. apply FIN in B. apply list_maxN_ge in B. lia. }
  assert (LC : length counts = n).
  { unfold counts. rewrite bincount_length, MAXEQ. unfold n. lia. }
  assert (CNT : forall u, cnt u = N.of_nat (cnteq firsts u)).
  { intros u. unfold cnt, cm. rewrite mof_list_get. unfold counts. rewrite bincount_nth. f_equal. f_equal. lia. }
  assert (IDX : forall u, u < N.of_nat n -> mgetd im u = N.of_nat (cntlt firsts u)).
  { intros u Hu. unfold im. rewrite mof_list_get.
    rewrite (excl_cumsum_nth firsts counts 0 0).
    - f_equal. f_equal. lia.
    - intros w _. unfold counts. rewrite bincount_nth. f_equal.
    - rewrite cntlt_0. reflexivity.
    - rewrite LC. lia. }
  assert (EDGE : forall u v, u < N.of_nat n -> (edge cnt nbr u v <-> In (u, v) e)).
  { intros u v Hu. rewrite <- (block_edges e ES u v). fold firsts. unfold edge, nbr. split.
    - intros [k [Hk E]]. rewrite CNT in Hk. exists (N.to_nat k). split; [lia|].
      rewrite IDX in E by exact Hu. unfold jm in E. rewrite mof_list_get in E. rewrite <- E. f_equal. lia.
    - intros [k [Hk E]]. exists (N.of_nat k). split; [rewrite CNT; lia|].
      rewrite IDX by exact Hu. unfold jm. rewrite mof_list_get. rewrite <- E. f_equal. lia. }
  assert (NOEDGE : forall u v, N.of_nat n <= u -> ~ edge cnt nbr u v).
  { intros u v Hu [k [Hk _]]. rewrite CNT in Hk. rewrite cnteq_zero in Hk; [lia|].
    intros x Hx. pose proof (list_maxN_ge firsts x Hx). rewrite MAXEQ in H. unfold n in Hu. lia. }
  assert (VLT : forall u v, In (u, v) e -> u < N.of_nat n /\ v < N.of_nat n).
  { intros u v H. assert (Hu : In u firsts) by (apply in_map_iff; exists (u, v); auto).
    assert (Hv : In v firsts).
    { apply EIN in H. assert (H' : In (v, u) e) by (apply EIN; unfold uedge in *; tauto).
      apply in_map_iff. exists (v, u); auto. }
    apply list_maxN_ge in Hu. apply list_maxN_ge in Hv. rewrite MAXEQ in *. unfold n. lia. }
  assert (SYM : forall u v, edge cnt nbr u v -> edge cnt nbr v u).
  { intros u v H. destruct (N.ltb_spec u (N.of_nat n)) as [Hu|Hu]; [|exfalso; eapply NOEDGE; eauto].
    apply EDGE in H; [|exact Hu]. pose proof (VLT u v H) as [_ Hv].
    apply EDGE; [exact Hv|]. apply EIN. apply EIN in H. unfold uedge in *. tauto. }
  assert (CL : forall u v, u < N.of_nat n -> edge cnt nbr u v -> v < N.of_nat n).
  { intros u v Hu H. apply EDGE in H; [|exact Hu]. apply (VLT u v H). }
  assert (FUEL : sumw (fun v => 2 * cnt v + 1) (nseq 0 (length counts)) + 1 <=
                 N.pos (N.succ_pos (2 * fold_right N.add 0 counts + N.of_nat (length counts)))).
  { rewrite N.succ_pos_spec. rewrite (sumw_counts cnt counts 0); [lia|].
    intros w Hw. unfold cnt, cm. rewrite mof_list_get. f_equal. lia. }
  rewrite LC in FUEL.
  destruct (dfs_all_spec cnt nbr n _ SYM CL FUEL) as [lb [vi [c [ED [LAB [PART USED]]]]]].
  fold e firsts counts. fold cm im jm. fold cnt. fold nbr. rewrite LC. rewrite ED.
  destruct (opt_all_some (mget lb) (nseq 0 n)) as [labels [EL [LL NL]]].
  { intros x Hx. apply nseq_in in Hx. destruct (LAB x ltac:(lia)) as [k [Hk _]]. exists k. exact Hk. }
  rewrite nseq_length in LL, NL.
  assert (GET : forall v, (v < n)%nat -> mget lb (N.of_nat v) = Some (nth v labels 0)).
  { intros v Hv. specialize (NL v Hv). rewrite nth_nseq in NL by exact Hv. rewrite N.add_0_l in NL. exact NL. }
  (* connectivity in the arrays = connectivity in the caller's undirected list, below n *)
  assert (C1 : forall u w, conn cnt nbr u w -> uconn (combine i j) u w).
  { intros u w H. induction H as [u|u v w He Hc IH]; [constructor|].
    destruct (N.ltb_spec u (N.of_nat n)) as [Hu|Hu]; [|exfalso; eapply NOEDGE; eauto].
    econstructor; [|exact IH]. apply EIN. apply EDGE; auto. }
  assert (C2 : forall u w, uconn (combine i j) u w -> conn cnt nbr u w).
  { intros u w H. induction H as [u|u v w He Hc IH]; [constructor|].
    apply EIN in He. pose proof (VLT u v He) as [Hu _]. econstructor; [|exact IH]. apply EDGE; auto. }
  exists labels, c. split; [exact EL|]. split; [exact LL|]. split; [|split].
  - intros u w Hu Hw. pose proof (PART _ _ _ _ (GET u Hu) (GET w Hw)) as P. split.
    + intros E. apply C1. apply P. exact E.
    + intros E. apply P. apply C2. exact E.
  - intros v Hv. destruct (LAB (N.of_nat v) ltac:(lia)) as [k [Hk Hc]]. rewrite (GET v Hv) in Hk.
    inversion Hk; subst. exact Hc.
  - intros k Hk. destruct (USED k Hk) as [v [Hv Ev]]. exists (N.to_nat v). split; [lia|].
    rewrite <- (N2Nat.id v) in Ev. rewrite GET in Ev by lia. inversion Ev. reflexivity.
Qed.

Example acc_example : all_connected_components [4; 0; 2; 2] [4; 1; 2; 0] = Some [0; 0; 0; 1; 2].
Proof. vm_compute. reflexivity. Qed.
