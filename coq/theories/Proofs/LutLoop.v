(* C06 — the plain path as a whole: one pass of the loop body is lut_step for every image shape
   (dense kernel or slicing path, with or without border masks); the counted loop is lut_iter and
   the unbounded loop is lut_fix. *)
From Coq Require Import ZArith List Bool Lia ZifyBool.
From Centro Require Import Base.Sx Base.LutBits Spec.LutRule Model.Lut Proofs.LutPlain Proofs.LutDense.
Import ListNotations.
Open Scope Z_scope.

Theorem plain_index_correct b X p q :
  0 <= p < gH X -> 0 <= q < gW X -> plain_index b X p q = enc (nbits b X p q).
Proof.
  intros Hp Hq. rewrite nbits_gbits. unfold plain_index.
  set (H := gH X) in *. set (W := gW X) in *.
  assert (E0 : (if (H <? 3) || (W <? 3) then small_index H W (rd false X) else tli H W (rd false X)) p q
               = enc (gbits false H W (rd false X) p q)).
  { destruct ((H <? 3) || (W <? 3)) eqn:S.
    - apply small_index_gather; assumption.
    - apply tli_gather; lia. }
  destruct b; [|exact E0].
  rewrite <- (border_or_gather H W (rd false X) p q Hp Hq).
  apply border_or_ext. exact E0.
Qed.

Theorem plain_step_correct T b X : plain_step T b X = lut_step T b X.
Proof.
  unfold plain_step, lut_step. apply tab_ext. intros p q Hp Hq.
  destruct X as [|r X']; [cbn in Hp; lia|].
  rewrite plain_index_correct; [reflexivity| |]; unfold gH, gW; cbn [hd length] in *; lia.
Qed.

Lemma list_eqb_true {A} (e : A -> A -> bool) :
  (forall a b, e a b = true -> a = b) -> forall l1 l2, list_eqb e l1 l2 = true -> l1 = l2.
Proof.
  intros He. induction l1 as [|a l1 IH]; intros [|c l2] E; cbn in E; try discriminate; [reflexivity|].
  apply andb_true_iff in E. destruct E as [E1 E2]. f_equal; [apply He, E1|apply IH, E2].
Qed.

Lemma grid_eqb_true X Y : grid_eqb X Y = true -> X = Y.
Proof. apply list_eqb_true. apply list_eqb_true. intros a b. apply Bool.eqb_prop. Qed.

Lemma list_eqb_refl {A} (e : A -> A -> bool) : (forall a, e a a = true) -> forall l, list_eqb e l l = true.
Proof. intros He. induction l as [|a l IH]; cbn; [reflexivity|]. rewrite He, IH. reflexivity. Qed.

Lemma grid_eqb_refl X : grid_eqb X X = true.
Proof. apply list_eqb_refl. apply list_eqb_refl. intros []; reflexivity. Qed.

(* the counted loop with its early exit applies the rule k times *)
Theorem plain_k_correct k : forall T b X, plain_k k T b X = lut_iter k T b X.
Proof.
  induction k as [|k IH]; intros T b X; [reflexivity|].
  cbn [plain_k]. unfold lut_iter. cbn [iter]. rewrite plain_step_correct.
  destruct (grid_eqb (lut_step T b X) X) eqn:E.
  - apply grid_eqb_true in E. rewrite E. symmetry. apply iter_fixed. exact E.
  - apply IH.
Qed.

(* the unbounded loop is the partial fixed-point search of the specification *)
Theorem plain_none_correct fuel : forall T b X, plain_none fuel T b X = lut_fix fuel T b X.
Proof.
  induction fuel as [|f IH]; intros T b X; [reflexivity|].
  cbn [plain_none lut_fix]. rewrite plain_step_correct.
  destruct (grid_eqb (lut_step T b X) X); [reflexivity|apply IH].
Qed.

(* what lut_fix returns: the first image of the orbit that the rule leaves unchanged *)
Theorem lut_fix_spec fuel : forall T b X Y, lut_fix fuel T b X = Some Y ->
  exists n, (n < fuel)%nat /\ Y = lut_iter n T b X /\ lut_step T b Y = Y /\
            forall m, (m < n)%nat -> lut_step T b (lut_iter m T b X) <> lut_iter m T b X.
Proof.
  induction fuel as [|f IH]; intros T b X Y E; [discriminate|].
  cbn [lut_fix] in E. destruct (grid_eqb (lut_step T b X) X) eqn:G.
  - injection E as <-. exists 0%nat. repeat split; [lia|apply grid_eqb_true, G|intros m Hm; lia].
  - destruct (IH T b _ Y E) as [n [Hn [EY [FY Hmin]]]]. exists (S n). repeat split; [lia|exact EY|exact FY|].
    intros [|m] Hm.
    + change (lut_step T b X <> X). intros C. rewrite C, grid_eqb_refl in G. discriminate.
    + apply (Hmin m). lia.
Qed.

Lemma lut_fix_complete fuel : forall T b X n, (n < fuel)%nat -> lut_step T b (lut_iter n T b X) = lut_iter n T b X ->
  exists Y, lut_fix fuel T b X = Some Y.
Proof.
  induction fuel as [|f IH]; intros T b X n Hn Fx; [lia|].
  cbn [lut_fix]. destruct (grid_eqb (lut_step T b X) X) eqn:G; [eexists; reflexivity|].
  destruct n as [|n].
  - change (lut_step T b X = X) in Fx. rewrite Fx, grid_eqb_refl in G. discriminate.
  - apply (IH T b _ n); [lia|exact Fx].
Qed.

(* the harness' evaluator of the rule is the rule *)
Lemma lut_step_fast_eq T b X : lut_step_fast T b X = lut_step T b X.
Proof. reflexivity. Qed.

Theorem spec_entry_is_rule k T b X :
  iter k (lut_step_fast T b) X = lut_iter k T b X /\ forall fuel, lut_fix_fast fuel T b X = lut_fix fuel T b X.
Proof.
  split.
  - revert X. induction k as [|k IH]; intros X; [reflexivity|]. cbn [iter]. rewrite lut_step_fast_eq. apply IH.
  - intros fuel. revert X. induction fuel as [|f IH]; intros X; [reflexivity|].
    cbn [lut_fix_fast lut_fix]. rewrite lut_step_fast_eq. destruct (grid_eqb (lut_step T b X) X); [reflexivity|apply IH].
Qed.
