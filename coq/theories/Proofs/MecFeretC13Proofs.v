(* C13 — minimum_enclosing_circle / feret_diameter: what C02's and C14's theorems give for the
   composed models. *)
From Coq Require Import ZArith List Bool Lia.
From Centro Require Import Base.VecC13 Model.Hull Proofs.HullBatch Proofs.HullTop Model.Circle Model.CircleVec
  Model.Feret Proofs.CircleVecProofs Proofs.CircleVecStep Model.MecFeretC13.
Import ListNotations.
Open Scope Z_scope.

Lemma nth_map_rows {B} (f : list pt -> B) : forall (rows : list (Z * list pt)) k,
  nth k (map (fun row => f (snd row)) rows) (f []) = f (snd (nth k rows (0, []))).
Proof. induction rows as [|a t IH]; intros [|k]; cbn [map nth]; try reflexivity. apply IH. Qed.

(* position r of the per-object MEC batch is Chrystal's iteration on the hull the kernel computes from
   label indexes[r]'s own rows (and the buffer slack): other labels, and the other entries and the
   order of the request list, do not enter *)
Theorem mec_own_rows ijv indexes r :
  NoDup indexes -> (r < length indexes)%nat ->
  exists slack,
    nth r (mec_rows (fst (convex_hull_ijv ijv indexes))) (chrystal []) =
    chrystal (hull_label (zmax_list (map r_i (lexsort ijv)))
                         (map r_pt (sel (nth r indexes 0) (lexsort ijv))) slack).
Proof.
  intros ND Hr. destruct (hull_ijv_request ijv indexes r ND Hr) as [slack E]. exists slack.
  unfold mec_rows. rewrite (nth_map_rows chrystal), E. reflexivity.
Qed.

Theorem feret_own_rows ijv indexes r :
  NoDup indexes -> (r < length indexes)%nat ->
  exists slack,
    nth r (feret_rows (fst (convex_hull_ijv ijv indexes))) (sweep []) =
    sweep (hull_label (zmax_list (map r_i (lexsort ijv)))
                      (map r_pt (sel (nth r indexes 0) (lexsort ijv))) slack).
Proof.
  intros ND Hr. destruct (hull_ijv_request ijv indexes r ND Hr) as [slack E]. exists slack.
  unfold feret_rows. rewrite (nth_map_rows sweep), E. reflexivity.
Qed.

(* the vectorised bookkeeping: m whole passes of the loop keep two global states in agreement on
   object k's own entries, whatever the other objects' entries are (C14's vstep_independent lifted
   over passes), as long as every object's S0 / S1 stay among its own rows in both runs *)
Theorem mec_vec_passes_independent rows app n k : forall m st st',
  (0 <= k < Z.of_nat n) -> samelen st st' -> agree app k st st' ->
  (forall j k', (j < m)%nat -> 0 <= k' < Z.of_nat n -> owner app (vsteps rows app n j st) k') ->
  (forall j k', (j < m)%nat -> 0 <= k' < Z.of_nat n -> owner app (vsteps rows app n j st') k') ->
  agree app k (vsteps rows app n m st) (vsteps rows app n m st').
Proof.
  induction m as [|m IH]; intros st st' Rk SL Ag Ow Ow'; cbn [vsteps]; [exact Ag|].
  apply IH; auto.
  - eapply samelen_trans; [rewrite vstep_pass; apply pass_samelen|].
    eapply samelen_trans; [exact SL|]. apply samelen_sym. rewrite vstep_pass. apply pass_samelen.
  - apply vstep_independent; auto.
    + intros k' Hk'. apply (Ow O k'); [lia|exact Hk'].
    + intros k' Hk'. apply (Ow' O k'); [lia|exact Hk'].
  - intros j k' Hj Hk'. apply (Ow (S j) k'); [lia|exact Hk'].
  - intros j k' Hj Hk'. apply (Ow' (S j) k'); [lia|exact Hk'].
Qed.

Example mec_feret_example :
  mec_rows_vec [(7, [(0, 0); (0, 4); (3, 4); (3, 0)]); (2, [(5, 5)])]
  = mec_rows [(7, [(0, 0); (0, 4); (3, 4); (3, 0)]); (2, [(5, 5)])] /\ NoDup [7; 2].
Proof. split; [vm_compute; reflexivity|]. repeat constructor; cbn; intuition discriminate. Qed.
