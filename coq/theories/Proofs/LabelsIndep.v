(* C05 - skeletonize_labels over the colouring model: labels do not influence each other.

   Model of cpmorphology.skeletonize_labels (4213-4227): [lab] is the label image (0 = background),
   [col] the colour color_labels gives to every pixel's label.  For every colour i the binary image
   [colour_mask i] = (colors == i) is skeletonized (sequential loop, any guard, any order [ord i]
   - in the code: the EDT/tiebreak order of THAT colour image) and the surviving pixels get their
   labels back.  The only facts used about color_labels: pixels of one label have one colour, and
   two 8-adjacent pixels with different non-zero labels have different colours ([proper]).

   [labels_independent]: the pixels of label l in the result are exactly what the same loop, with
   the same order, leaves of the image (lab == l) ALONE - the other labels of the same colour never
   enter a neighbourhood of l.  [labels_topo]: hence TopoEq (lab == l) (result == l) for every
   label, on the current table. *)
From Coq Require Import ZArith NArith List Bool Lia.
From Centro Require Import Base.Topo Base.Skel Base.TopoPar Base.TopoSweep Gen.TablesC05.
From Centro Require Import Proofs.TopoSwSkel.
Import ListNotations.
Open Scope Z_scope.

Section Labels.
Variables (lab col : px -> Z).
Variable keep : list bool -> bool.
Variable guard : px -> bool.
Variable ord : Z -> list px.

Definition label_img (l : Z) : img := fun p => lab p =? l.
Definition colour_mask (i : Z) : img := fun p => negb (lab p =? 0) && (col p =? i).
Definition labels_result : px -> Z :=
  fun p => if skel keep guard (ord (col p)) (colour_mask (col p)) p then lab p else 0.

Definition proper : Prop :=
  (forall p q, lab p = lab q -> col p = col q) /\
  (forall p q, adj8 p q -> lab p <> 0 -> lab q <> 0 -> lab p <> lab q -> col p <> col q).

Lemma adj8_nb p b : (b < 9)%nat -> b <> 4%nat -> adj8 p (nb p b).
Proof.
  intros L N. rewrite <- (nb_center p) at 1. apply padj8_sound.
  do 9 (destruct b as [|b]; [try reflexivity; exfalso; apply N; reflexivity|]). lia.
Qed.

(* skel only removes *)
Lemma skel_step_sub X p q : skel_step keep guard X p q = true -> X q = true.
Proof.
  unfold skel_step. destruct (guard p && X p && negb (keep (pat X p))); [|auto].
  unfold remove. destruct (px_eqb q p); [discriminate|auto].
Qed.

Section OneLabel.
Variable l : Z.
Hypothesis Hl : l <> 0.
Hypothesis HP : proper.
Variable i : Z.
Hypothesis Hi : forall p, lab p = l -> col p = i.

Let C := label_img l.
Let X0 := colour_mask i.

(* every set neighbour (in the colour image) of a pixel of label l has label l *)
Lemma closure p b : C p = true -> (b < 9)%nat -> X0 (nb p b) = true -> C (nb p b) = true.
Proof.
  unfold C, X0, label_img, colour_mask. intros Cp Lb Xn.
  apply Z.eqb_eq in Cp. apply andb_true_iff in Xn as [N0 Ci]. apply negb_true_iff, Z.eqb_neq in N0. apply Z.eqb_eq in Ci.
  apply Z.eqb_eq. destruct (Z.eq_dec (lab (nb p b)) l) as [E|NE]; [exact E|]. exfalso.
  destruct (Nat.eq_dec b 4) as [->|N4]; [rewrite nb_center in NE; contradiction|].
  destruct HP as [_ HP2]. apply (HP2 p (nb p b)); [apply adj8_nb; assumption|lia|exact N0|lia|].
  rewrite Ci. apply Hi. exact Cp.
Qed.

(* invariant: D is the restriction of Y to label l, Y is below the colour image *)
Lemma restrict_step Y D p :
  (forall q, D q = Y q && C q) -> (forall q, Y q = true -> X0 q = true) ->
  (forall q, skel_step keep guard D p q = skel_step keep guard Y p q && C q) /\
  (forall q, skel_step keep guard Y p q = true -> X0 q = true).
Proof.
  intros HD HY. split; [|intros q V; apply HY; eapply skel_step_sub; exact V].
  intros q. destruct (C p) eqn:Cp.
  - assert (EP : pat D p = pat Y p).
    { unfold pat. apply map_ext_in. intros b Hb. apply in_seq in Hb. rewrite HD.
      destruct (Y (nb p b)) eqn:V; [|reflexivity]. cbn [andb]. apply closure; [exact Cp|lia|]. apply HY. exact V. }
    unfold skel_step. rewrite EP, (HD p), Cp, andb_true_r.
    destruct (guard p && Y p && negb (keep (pat Y p))); [|apply HD].
    unfold remove. destruct (px_eqb q p); [reflexivity|apply HD].
  - unfold skel_step at 1. rewrite (HD p), Cp, andb_false_r, andb_false_r. cbn [andb].
    rewrite HD. unfold skel_step. destruct (guard p && Y p && negb (keep (pat Y p))); [|reflexivity].
    unfold remove. destruct (px_eqb_spec q p) as [->|N]; [rewrite Cp, andb_false_r; reflexivity|reflexivity].
Qed.

Lemma restrict_skel : forall order Y D,
  (forall q, D q = Y q && C q) -> (forall q, Y q = true -> X0 q = true) ->
  forall q, skel keep guard order D q = skel keep guard order Y q && C q.
Proof.
  induction order as [|p r IH]; intros Y D HD HY q; cbn [skel fold_left]; [apply HD|].
  destruct (restrict_step Y D p HD HY) as [S1 S2]. apply IH; assumption.
Qed.

Lemma label_in_colour q : C q = X0 q && C q.
Proof.
  unfold C, X0, label_img, colour_mask. destruct (lab q =? l) eqn:E; [|rewrite andb_false_r; reflexivity].
  apply Z.eqb_eq in E. rewrite andb_true_r. rewrite (Hi q E), Z.eqb_refl, andb_true_r.
  symmetry. apply negb_true_iff, Z.eqb_neq. lia.
Qed.

Theorem labels_independent_gen : forall q,
  (labels_result q =? l) = skel keep guard (ord i) (label_img l) q.
Proof.
  intros q. pose proof (restrict_skel (ord i) X0 C label_in_colour (fun _ V => V) q) as R. fold C. rewrite R.
  unfold labels_result. destruct (lab q =? l) eqn:E.
  - apply Z.eqb_eq in E. rewrite (Hi q E). fold X0. unfold C, label_img. rewrite E, Z.eqb_refl, andb_true_r.
    destruct (skel keep guard (ord i) X0 q); [apply Z.eqb_refl|apply Z.eqb_neq; lia].
  - unfold C, label_img. rewrite E, andb_false_r.
    destruct (skel keep guard (ord (col q)) (colour_mask (col q)) q); [exact E|apply Z.eqb_neq; lia].
Qed.
End OneLabel.
End Labels.

Theorem labels_independent : forall lab col keep guard ord l, l <> 0 -> proper lab col ->
  forall i, (forall p, lab p = l -> col p = i) ->
  forall q, (labels_result lab col keep guard ord q =? l) = skel keep guard (ord i) (label_img lab l) q.
Proof. intros. apply labels_independent_gen; assumption. Qed.

(* every label keeps its own topology (current skeletonize table, every guard, every per-colour order) *)
Theorem labels_topo : forall lab col guard ord l, l <> 0 -> proper lab col ->
  forall i, (forall p, lab p = l -> col p = i) ->
  TopoEq (label_img lab l) (fun q => labels_result lab col (keepN skel_tab) guard ord q =? l).
Proof.
  intros lab col guard ord l Hl HP i Hi.
  apply TopoEq_ext with (Y := skel (keepN skel_tab) guard (ord i) (label_img lab l)).
  - intros q. symmetry. apply labels_independent; assumption.
  - apply skeletonize_topo. exact skel_tab_simple.
Qed.

(* the hypotheses on a non-trivial input: two touching labels 1 | 2 side by side, coloured 1 and 2 *)
Example labels_hyp_example :
  let lab := fun p : px => if (0 <=? fst p) && (fst p <? 3) && (0 <=? snd p) && (snd p <? 4)
                           then (if snd p <? 2 then 1 else 2) else 0 in
  proper lab lab /\ (forall p, lab p = 1 -> lab p = 1).
Proof.
  cbv zeta. split; [|auto]. split; [auto|]. intros p q _ _ _ N. exact N.
Qed.
