(* C18 — rank_order without bin limit: the ranks are the positions in the strictly increasing
   list of distinct values, for ANY index permutation that sorts the image. *)
From Coq Require Import ZArith List Bool Arith Lia Sorted Permutation.
From Centro Require Import Base.SortC18 Model.VecC18 Model.RankC18 Spec.SpecC18
  Proofs.VecC18Lemmas Proofs.RankIsoC18.
Import ListNotations.
Local Open Scope nat_scope.

Lemma adj_diff_cons x y r : adj_diff (x :: y :: r) = negb (x =? y)%Z :: adj_diff (y :: r).
Proof. reflexivity. Qed.
Lemma adj_diff_length x rest : length (adj_diff (x :: rest)) = length rest.
Proof.
  revert x. induction rest as [|y r IH]; intros x; [reflexivity|].
  rewrite adj_diff_cons. cbn [length]. rewrite IH. reflexivity.
Qed.

(* the two arrays computed from the sorted pixels *)
Definition cvals (x : Z) (rest : list Z) : list Z := compress (adj_diff (x :: rest)) rest.
Definition cranks (acc : nat) (x : Z) (rest : list Z) : list nat :=
  ncumsum_from acc (map b2n (adj_diff (x :: rest))).

Lemma cvals_cons x y r : cvals x (y :: r) = if (x =? y)%Z then cvals y r else y :: cvals y r.
Proof. unfold cvals. cbn [adj_diff compress]. destruct (x =? y)%Z; reflexivity. Qed.
Lemma cranks_cons acc x y r :
  cranks acc x (y :: r) = (acc + b2n (negb (x =? y)%Z)) :: cranks (acc + b2n (negb (x =? y)%Z)) y r.
Proof. unfold cranks. cbn [adj_diff map ncumsum_from]. reflexivity. Qed.

Lemma sorted_char x rest : StronglySorted Z.le (x :: rest) ->
  StronglySorted Z.lt (x :: cvals x rest) /\
  (forall y, In y (x :: cvals x rest) <-> In y (x :: rest)) /\
  (forall acc k, k < length rest ->
     nth k (cranks acc x rest) 0 = acc + index_of (nth k rest 0%Z) (x :: cvals x rest)).
Proof.
  revert x. induction rest as [|y r IH]; intros x HS.
  - unfold cvals, cranks. cbn. split; [repeat constructor|]. split; [tauto|]. intros; lia.
  - inversion HS as [|? ? S' F]; subst. specialize (IH y S') as (IS & II & IR).
    assert (x <= y)%Z as Hxy. { rewrite Forall_forall in F. apply F. left; reflexivity. }
    rewrite cvals_cons. destruct (Z.eqb_spec x y) as [E|N].
    + subst y. split; [exact IS|]. split.
      * intros z. rewrite II. cbn [In]. tauto.
      * intros acc k Hk. rewrite cranks_cons. rewrite Z.eqb_refl. cbn [negb b2n]. rewrite Nat.add_0_r.
        destruct k as [|k]; cbn [nth].
        -- cbn [index_of]. rewrite Z.eqb_refl. lia.
        -- apply IR. cbn [length] in Hk. lia.
    + assert (x < y)%Z as Hlt by lia. split.
      * constructor; [exact IS|]. rewrite Forall_forall. intros z Hz.
        inversion IS as [|? ? _ Fy]; subst. destruct Hz as [<-|Hz]; [exact Hlt|].
        rewrite Forall_forall in Fy. specialize (Fy z Hz). lia.
      * split.
        -- intros z. cbn [In]. specialize (II z). cbn [In] in II. tauto.
        -- intros acc k Hk. rewrite cranks_cons. destruct (Z.eqb_spec x y) as [|_]; [contradiction|].
           cbn [negb b2n]. destruct k as [|k]; cbn [nth].
           ++ cbn [index_of]. destruct (Z.eqb_spec y x); [lia|]. rewrite Z.eqb_refl. lia.
           ++ cbn [length] in Hk. rewrite IR by lia.
              remember (nth k r 0%Z) as z eqn:Ez.
              assert (In z r) as Hz. { subst z. apply nth_In. lia. }
              assert (y <= z)%Z. { inversion S' as [|? ? _ Fy]; subst. rewrite Forall_forall in Fy. apply Fy; auto. }
              change (index_of z (x :: y :: cvals y r)) with (if (z =? x)%Z then 0 else S (index_of z (y :: cvals y r))).
              destruct (Z.eqb_spec z x); lia.
Qed.

(* the model's output in closed form: int_image = positions of the pixels in original_values *)
Theorem rank_order_with_char so image :
  image <> [] -> Permutation so (seq 0 (length image)) ->
  StronglySorted Z.le (map (getz image) so) ->
  let '(r, v) := rank_order_with so image in
  StronglySorted Z.lt v /\ (forall x, In x v <-> In x image) /\ length r = length image /\
  (forall i, i < length image -> getn r i = index_of (getz image i) v).
Proof.
  intros NE P HS. unfold rank_order_with.
  set (flat := map (getz image) so) in *.
  assert (length so = length image) as Lso. { rewrite (Permutation_length P), seq_length. reflexivity. }
  assert (length flat = length image) as Lf. { unfold flat. rewrite map_length. exact Lso. }
  destruct flat as [|x rest] eqn:Ef. { destruct image; [congruence|cbn [length] in Lf; lia]. }
  cbn [hd tl]. fold (cvals x rest).
  destruct (sorted_char x rest HS) as (SS & II & IR).
  split; [exact SS|]. split.
  { intros z. rewrite II, <- Ef. unfold flat. rewrite in_map_iff. split.
    - intros (k & <- & Hk). apply nth_In. eapply perm_seq_lt; eauto.
    - intros Hz. destruct (In_nth image z 0%Z Hz) as (i & Hi & Ei).
      destruct (perm_seq_hit so _ i P Hi) as (k & Hk & Ek). exists i. split; [exact Ei|].
      rewrite <- Ek. apply nth_In. exact Hk. }
  split. { rewrite scatter_length, repeat_length. exact Lso. }
  intros i Hi. destruct (perm_seq_hit so _ i P Hi) as (k & Hk & Ek).
  unfold getn. rewrite <- Ek at 1.
  rewrite (scatter_get so _ _ 0 0 k).
  - assert (getz image i = nth k (x :: rest) 0%Z) as Ev.
    { rewrite <- Ef. unfold flat. rewrite <- Ek.
      rewrite (nth_indep _ 0%Z (getz image 0)) by (rewrite map_length; exact Hk).
      rewrite map_nth. reflexivity. }
    rewrite Ev. fold (cranks 0 x rest). destruct k as [|k]; cbn [nth].
    + cbn [index_of]. rewrite Z.eqb_refl. reflexivity.
    + change (ncumsum (map b2n (adj_diff (x :: rest)))) with (cranks 0 x rest). rewrite IR; [reflexivity|]. cbn [length] in Lf. lia.
  - eapply perm_seq_NoDup; eauto.
  - cbn [length]. unfold ncumsum. rewrite ncumsum_from_length, map_length.
    pose proof (adj_diff_length x rest) as La.
    rewrite La. cbn [length] in Lf. lia.
  - intros j Hj. rewrite repeat_length. rewrite Lso. eapply perm_seq_lt; eauto.
  - exact Hk.
Qed.

Lemma char_to_iso image r v :
  StronglySorted Z.lt v -> (forall x, In x v <-> In x image) -> length r = length image ->
  (forall i, i < length image -> getn r i = index_of (getz image i) v) ->
  rank_iso_spec image r v.
Proof.
  intros SS II HL HR. unfold rank_iso_spec.
  assert (forall i, i < length image -> In (getz image i) v) as Hin.
  { intros i Hi. apply II. apply nth_In. exact Hi. }
  split; [exact HL|]. split; [exact SS|]. split; [|split; [|exact II]].
  - intros i Hi. rewrite (HR i Hi). split.
    + apply index_lt_length. auto.
    + apply index_nth. auto.
  - intros i j Hi Hj. rewrite (HR i Hi), (HR j Hj). apply rank_iso; auto.
Qed.

(* rank_order_iso, for every index permutation that sorts the image (NumPy's default argsort is
   not stable; the result does not depend on how ties are ordered) *)
Theorem rank_order_iso_with so image r v :
  image <> [] -> Permutation so (seq 0 (length image)) ->
  StronglySorted Z.le (map (getz image) so) ->
  rank_order_with so image = (r, v) -> rank_iso_spec image r v.
Proof.
  intros NE P HS E. pose proof (rank_order_with_char so image NE P HS) as C.
  rewrite E in C. destruct C as (SS & II & HL & HR). apply char_to_iso; auto.
Qed.

Theorem rank_order_iso image r v : image <> [] -> rank_order image = (r, v) -> rank_iso_spec image r v.
Proof.
  intros NE E.
  exact (rank_order_iso_with (argsort image) image r v NE (argsort_perm image) (argsort_sorted image) E).
Qed.

(* two different admissible sort orders give the same result *)
Corollary rank_order_with_unique so1 so2 image :
  image <> [] ->
  Permutation so1 (seq 0 (length image)) -> StronglySorted Z.le (map (getz image) so1) ->
  Permutation so2 (seq 0 (length image)) -> StronglySorted Z.le (map (getz image) so2) ->
  snd (rank_order_with so1 image) = snd (rank_order_with so2 image) ->
  rank_order_with so1 image = rank_order_with so2 image.
Proof.
  intros NE P1 S1 P2 S2 EV.
  pose proof (rank_order_with_char so1 image NE P1 S1) as C1.
  pose proof (rank_order_with_char so2 image NE P2 S2) as C2.
  destruct (rank_order_with so1 image) as [r1 v1], (rank_order_with so2 image) as [r2 v2].
  cbn [snd] in EV. subst v2. f_equal.
  destruct C1 as (_ & _ & L1 & R1), C2 as (_ & _ & L2 & R2).
  apply (nth_ext _ _ 0 0); [lia|]. intros i Hi. unfold getn in *. rewrite R1, R2 by lia. reflexivity.
Qed.

Example rank_order_ex :
  rank_order [30; -10; 30; 5; -10]%Z = ([2; 0; 2; 1; 0], [-10; 5; 30]%Z).
Proof. vm_compute. reflexivity. Qed.
(* an unstable but admissible sort order (ties 4,1 and 2,0 swapped) *)
Example rank_order_with_ex :
  let image := [30; -10; 30; 5; -10]%Z in let so := [4; 1; 3; 2; 0] in
  Permutation so (seq 0 (length image)) /\ StronglySorted Z.le (map (getz image) so) /\
  rank_order_with so image = ([2; 0; 2; 1; 0], [-10; 5; 30]%Z).
Proof.
  cbn zeta. split; [|split; [|vm_compute; reflexivity]].
  - cbn [length seq]. apply Permutation_sym.
    apply (perm_trans (l' := [4; 0; 1; 2; 3])).
    + change [4;0;1;2;3] with ([4] ++ [0;1;2;3]). change [0;1;2;3;4] with ([0;1;2;3] ++ [4]). apply Permutation_app_comm.
    + apply perm_skip.
      apply (perm_trans (l' := [1; 0; 2; 3])); [apply perm_swap|]. apply perm_skip.
      apply (perm_trans (l' := [0; 3; 2])).
      * apply perm_skip. apply perm_swap.
      * apply (perm_trans (l' := [3; 0; 2])); [apply perm_swap|]. apply perm_skip. apply perm_swap.
  - unfold getz. cbn [map nth]. repeat constructor; lia.
Qed.
