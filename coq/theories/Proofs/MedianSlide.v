(* C07 — the sliding invariant, layer A: exact histograms of point sets of the real image.
   [cnt e S q] counts the valid (in image, unmasked) pixels in the set S whose value satisfies q;
   q = (=? v) is a fine bin, q = (/16 =? i) a coarse bin, q = true the pixel count.
   column step : hist oct(row,c) = hist oct(row,c-1) + hist TR + hist ED + hist BR - hist TL - hist TE - hist BL
   row step    : hist P(row,c)   = hist P(row-1,c±1) - [(-) pixel] + [(+) pixel]   for the five pieces,
   with the model's stride coordinates.  All for every image, mask, radius geometry, position. *)
From Coq Require Import ZArith List Bool Lia ZifyBool.
From Centro Require Import Base.Sx Model.Median Spec.MedianSpec Proofs.MedianCheck Proofs.MedianHist Proofs.MedianGeom.
Import ListNotations.
Open Scope Z_scope.

Definition countb {A} (p : A -> bool) (l : list A) : Z := Z.of_nat (length (filter p l)).

Lemma countb_nil {A} (p : A -> bool) : countb p [] = 0.
Proof. reflexivity. Qed.
Lemma countb_cons {A} (p : A -> bool) a l : countb p (a :: l) = (if p a then 1 else 0) + countb p l.
Proof. unfold countb. cbn [filter]. destruct (p a); cbn [length]; lia. Qed.
Lemma countb_app {A} (p : A -> bool) l1 l2 : countb p (l1 ++ l2) = countb p l1 + countb p l2.
Proof. unfold countb. rewrite filter_app, app_length. lia. Qed.
Lemma countb_nonneg {A} (p : A -> bool) l : 0 <= countb p l.
Proof. unfold countb. lia. Qed.
Lemma countb_ext {A} (p q : A -> bool) l : (forall x, In x l -> p x = q x) -> countb p l = countb q l.
Proof. intros H. unfold countb. rewrite (filter_ext_in p q l H). reflexivity. Qed.

(* a = (b ∖ t) ∪ ld with ld fresh and t inside b: counts add up exactly *)
Lemma countb_slide {A} (a b ld t : A -> bool) (l : list A) :
  (forall p, In p l -> a p = (b p && negb (t p)) || ld p) ->
  (forall p, In p l -> ld p = true -> b p = false) ->
  (forall p, In p l -> t p = true -> b p = true) ->
  countb a l = countb b l + countb ld l - countb t l.
Proof.
  induction l as [|x l IH]; intros H1 H2 H3; [reflexivity|].
  rewrite !countb_cons. rewrite IH by (intros; auto using in_cons).
  specialize (H1 x (or_introl eq_refl)). specialize (H2 x (or_introl eq_refl)). specialize (H3 x (or_introl eq_refl)).
  destruct (a x), (b x), (ld x), (t x); cbn [negb andb orb] in *; try congruence; try lia;
    try (specialize (H2 eq_refl); congruence); try (specialize (H3 eq_refl); congruence).
Qed.

Lemma countb_or3 {A} (a b c : A -> bool) (l : list A) :
  (forall p, In p l -> a p && b p = false) -> (forall p, In p l -> a p && c p = false) ->
  (forall p, In p l -> b p && c p = false) ->
  countb (fun p => a p || b p || c p) l = countb a l + countb b l + countb c l.
Proof.
  induction l as [|x l IH]; intros H1 H2 H3; [reflexivity|].
  rewrite !countb_cons. rewrite IH by (intros; auto using in_cons).
  specialize (H1 x (or_introl eq_refl)). specialize (H2 x (or_introl eq_refl)). specialize (H3 x (or_introl eq_refl)).
  destruct (a x), (b x), (c x); cbn [negb andb orb] in *; try congruence; lia.
Qed.

Lemma countb_false {A} (p : A -> bool) l : (forall x, In x l -> p x = false) -> countb p l = 0.
Proof.
  induction l as [|x l IH]; intros H; [reflexivity|]. rewrite countb_cons, IH by (intros; auto using in_cons).
  rewrite (H x (or_introl eq_refl)). reflexivity.
Qed.

Lemma countb_le {A} (p q : A -> bool) l : (forall x, In x l -> p x = true -> q x = true) -> countb p l <= countb q l.
Proof.
  induction l as [|x l IH]; intros H; [reflexivity|]. rewrite !countb_cons.
  specialize (IH (fun y Hy => H y (or_intror Hy))). specialize (H x (or_introl eq_refl)).
  destruct (p x); [rewrite (H eq_refl)|destruct (q x)]; lia.
Qed.

(* ------------------------------------------------------------------ counting pixels of the image *)

Section Img.
  Variable e : env.

  (* pixel p = (y, x) of the raster *)
  Definition pixq (S : Z -> Z -> bool) (q : Z -> bool) (p : Z * Z) : bool :=
    in_img e (snd p) (fst p) && S (snd p) (fst p) && q (dat e (fst p) (snd p)).
  Definition cnt (S : Z -> Z -> bool) (q : Z -> bool) : Z :=
    countb (pixq S q) (coords (e_rows e) (e_cols e)).

  Lemma cnt_nonneg S q : 0 <= cnt S q.
  Proof. apply countb_nonneg. Qed.

  Lemma cnt_le_size S q : cnt S q <= cnt S (fun _ => true).
  Proof. apply countb_le. intros p _. unfold pixq. rewrite !andb_true_iff. tauto. Qed.

  (* a set without any in-image point has an empty histogram *)
  Lemma cnt_outside S q : (forall x y, 0 <= x < e_cols e -> 0 <= y < e_rows e -> S x y = false) -> cnt S q = 0.
  Proof.
    intros H. apply countb_false. intros [y x] Hin. apply coords_In in Hin. unfold pixq. cbn [fst snd].
    rewrite (H x y) by lia. rewrite andb_false_r. reflexivity.
  Qed.

  Lemma cnt_ext S S' q : (forall x y, 0 <= x < e_cols e -> 0 <= y < e_rows e -> S x y = S' x y) -> cnt S q = cnt S' q.
  Proof.
    intros H. apply countb_ext. intros [y x] Hin. apply coords_In in Hin. unfold pixq. cbn [fst snd].
    rewrite (H x y) by lia. reflexivity.
  Qed.

  (* one point *)
  Definition pt (x0 y0 : Z) (x y : Z) : bool := (x =? x0) && (y =? y0).

  Lemma countb_row_point (f : Z -> bool) x0 : forall n lo,
    countb (fun x => (x =? x0) && f x) (zrange_n lo n) =
    if (lo <=? x0) && (x0 <? lo + Z.of_nat n) && f x0 then 1 else 0.
  Proof.
    induction n as [|n IH]; intros lo; cbn [zrange_n].
    - rewrite countb_nil. destruct (lo <=? x0) eqn:E1, (x0 <? lo + Z.of_nat 0) eqn:E2; cbn [andb]; try reflexivity; lia.
    - rewrite countb_cons, IH. destruct (lo =? x0) eqn:E0.
      + assert (lo = x0) by lia. subst lo. destruct (f x0); cbn [andb];
          destruct (x0 <=? x0) eqn:E1, (x0 + 1 <=? x0) eqn:E2, (x0 <? x0 + 1 + Z.of_nat n) eqn:E3,
            (x0 <? x0 + Z.of_nat (S n)) eqn:E4; cbn [andb]; lia.
      + cbn [andb]. destruct (lo <=? x0) eqn:E1, (lo + 1 <=? x0) eqn:E2, (x0 <? lo + 1 + Z.of_nat n) eqn:E3,
          (x0 <? lo + Z.of_nat (S n)) eqn:E4; cbn [andb]; lia.
  Qed.

  Lemma countb_map {A B} (g : A -> B) (p : B -> bool) l : countb p (map g l) = countb (fun a => p (g a)) l.
  Proof. induction l as [|a l IH]; [reflexivity|]. cbn [map]. rewrite !countb_cons, IH. reflexivity. Qed.

  Lemma countb_flat_point (g : Z -> Z -> bool) x0 y0 cols : forall n lo,
    countb (fun p : Z * Z => (snd p =? x0) && (fst p =? y0) && g (fst p) (snd p))
           (flat_map (fun y => map (fun x => (y, x)) (zrange 0 cols)) (zrange_n lo n)) =
    if (lo <=? y0) && (y0 <? lo + Z.of_nat n) && (0 <=? x0) && (x0 <? cols) && g y0 x0 then 1 else 0.
  Proof.
    induction n as [|n IH]; intros lo; cbn [zrange_n flat_map].
    - rewrite countb_nil. destruct (lo <=? y0) eqn:E1, (y0 <? lo + Z.of_nat 0) eqn:E2; cbn [andb]; try reflexivity; lia.
    - rewrite countb_app, IH, countb_map. cbn [fst snd].
      rewrite (countb_ext _ (fun x => (x =? x0) && ((lo =? y0) && g lo x))) by (intros; cbn; ring_simplify; destruct (x =? x0), (lo =? y0); reflexivity).
      unfold zrange. rewrite countb_row_point. replace (0 + Z.of_nat (Z.to_nat (cols - 0))) with (Z.max 0 cols) by lia.
      destruct (lo =? y0) eqn:E0.
      + assert (lo = y0) by lia. subst lo.
        destruct (0 <=? x0) eqn:A1, (x0 <? Z.max 0 cols) eqn:A2, (x0 <? cols) eqn:A3, (g y0 x0); cbn [andb];
          destruct (y0 <=? y0) eqn:E1, (y0 + 1 <=? y0) eqn:E2, (y0 <? y0 + 1 + Z.of_nat n) eqn:E3,
            (y0 <? y0 + Z.of_nat (S n)) eqn:E4; cbn [andb]; lia.
      + rewrite !andb_false_r. cbn [andb].
        destruct (lo <=? y0) eqn:E1, (lo + 1 <=? y0) eqn:E2, (y0 <? lo + 1 + Z.of_nat n) eqn:E3,
          (y0 <? lo + Z.of_nat (S n)) eqn:E4; cbn [andb]; try lia;
          destruct (0 <=? x0), (x0 <? cols), (g y0 x0); cbn [andb]; lia.
  Qed.

  Lemma cnt_point x0 y0 q : cnt (pt x0 y0) q = if in_img e x0 y0 && q (dat e y0 x0) then 1 else 0.
  Proof.
    unfold cnt, coords. change (zrange 0 (e_rows e)) with (zrange_n 0 (Z.to_nat (e_rows e - 0))).
    pose (g := fun y x : Z => in_img e x y && q (dat e y x)).
    rewrite (countb_ext _ (fun p : Z * Z => (snd p =? x0) && (fst p =? y0) && g (fst p) (snd p))).
    2:{ intros [y x] _. unfold pixq, pt, g. cbn [fst snd]. destruct (x =? x0), (y =? y0), (in_img e x y); reflexivity. }
    rewrite (countb_flat_point g). unfold g.
    unfold in_img. destruct (0 <=? y0) eqn:A1, (y0 <? 0 + Z.of_nat (Z.to_nat (e_rows e - 0))) eqn:A2,
      (y0 <? e_rows e) eqn:A3, (0 <=? x0) eqn:A4, (x0 <? e_cols e) eqn:A5; cbn [andb]; try reflexivity; try lia.
  Qed.

  (* ---------------------------------------------------------------- the sets, as boolean predicates
     of absolute image coordinates (x, y), around position (c, row) *)
  Definition R := e_R e.
  Definition a2 := e_a2 e.
  Definition Soct (c row x y : Z) : bool := octb R a2 (y - row) (x - c).
  Definition bTR (dx dy : Z) : bool := (a2 <=? dx) && (dx <? R) && (dy =? dx - a2 - R).
  Definition bED (dx dy : Z) : bool := (dx =? R) && (- a2 <=? dy) && (dy <=? a2).
  Definition bBR (dx dy : Z) : bool := (a2 <=? dx) && (dx <? R) && (dy =? R + a2 - dx).
  Definition bTL (dx dy : Z) : bool := (- R <=? dx) && (dx <=? - a2 - 1) && (dy =? - R - a2 - 1 - dx).
  Definition bTE (dx dy : Z) : bool := (dx =? - R - 1) && (- a2 <=? dy) && (dy <=? a2).
  Definition bBL (dx dy : Z) : bool := (- R <=? dx) && (dx <=? - a2 - 1) && (dy =? dx + R + a2 + 1).
  Definition at_ (b : Z -> Z -> bool) (c row x y : Z) : bool := b (x - c) (y - row).

  Lemma bTR_iff dx dy : bTR dx dy = true <-> in_TR R a2 dx dy. Proof. unfold bTR, in_TR. lia. Qed.
  Lemma bED_iff dx dy : bED dx dy = true <-> in_ED R a2 dx dy. Proof. unfold bED, in_ED. lia. Qed.
  Lemma bBR_iff dx dy : bBR dx dy = true <-> in_BR R a2 dx dy. Proof. unfold bBR, in_BR. lia. Qed.
  Lemma bTL_iff dx dy : bTL dx dy = true <-> in_TL R a2 dx dy. Proof. unfold bTL, in_TL. lia. Qed.
  Lemma bTE_iff dx dy : bTE dx dy = true <-> in_TE R a2 dx dy. Proof. unfold bTE, in_TE. lia. Qed.
  Lemma bBL_iff dx dy : bBL dx dy = true <-> in_BL R a2 dx dy. Proof. unfold bBL, in_BL. lia. Qed.

  Hypothesis Ha : 1 <= a2.
  Hypothesis HR : a2 < R.

  (* ---------------------------------------------------------------- column step, exact histograms *)
  Theorem hist_col_step (c row : Z) (q : Z -> bool) :
    cnt (Soct c row) q =
    cnt (Soct (c - 1) row) q
    + cnt (at_ bTR c row) q + cnt (at_ bED c row) q + cnt (at_ bBR c row) q
    - cnt (at_ bTL c row) q - cnt (at_ bTE c row) q - cnt (at_ bBL c row) q.
  Proof.
    unfold cnt.
    set (L := coords (e_rows e) (e_cols e)).
    set (ld := fun p => pixq (at_ bTR c row) q p || pixq (at_ bED c row) q p || pixq (at_ bBR c row) q p).
    set (tr := fun p => pixq (at_ bTL c row) q p || pixq (at_ bTE c row) q p || pixq (at_ bBL c row) q p).
    assert (E : countb (pixq (Soct c row) q) L = countb (pixq (Soct (c - 1) row) q) L + countb ld L - countb tr L).
    { apply countb_slide; intros [y x] _; unfold ld, tr, pixq, at_, Soct, octb, bTR, bED, bBR, bTL, bTE, bBL; cbn [fst snd];
        destruct (in_img e x y); destruct (q (dat e y x)); cbn [andb orb]; try reflexivity; try discriminate;
        rewrite ?andb_true_r, ?andb_false_r; cbn [orb]; try discriminate; lia. }
    rewrite E. unfold ld, tr.
    rewrite !countb_or3; try lia;
      intros [y x] _; unfold pixq, at_, bTR, bED, bBR, bTL, bTE, bBL; cbn [fst snd];
      destruct (in_img e x y); destruct (q (dat e y x)); cbn [andb]; try reflexivity;
      rewrite ?andb_true_r; lia.
  Qed.

  (* before the first sweep column the window has no pixel of the image *)
  Theorem hist_col_start (row : Z) (q : Z -> bool) : cnt (Soct (- R - 1) row) q = 0.
  Proof. apply cnt_outside. intros x y Hx Hy. unfold Soct, octb. lia. Qed.

  (* ---------------------------------------------------------------- row step of a piece *)
  Definition pixv (sc : Z * Z) (c row : Z) (q : Z -> bool) : Z :=
    if in_img e (c + fst sc) (row + snd sc) && q (dat e (row + snd sc) (c + fst sc)) then 1 else 0.

  Lemma piece_step (b : Z -> Z -> bool) (c row c' : Z) (lastc newc : Z * Z) (q : Z -> bool) :
    (forall x y, at_ b c row x y =
                 (at_ b c' (row - 1) x y && negb (pt (c + fst lastc) (row + snd lastc) x y))
                 || pt (c + fst newc) (row + snd newc) x y) ->
    (forall x y, pt (c + fst newc) (row + snd newc) x y = true -> at_ b c' (row - 1) x y = false) ->
    (forall x y, pt (c + fst lastc) (row + snd lastc) x y = true -> at_ b c' (row - 1) x y = true) ->
    cnt (at_ b c row) q = cnt (at_ b c' (row - 1)) q - pixv lastc c row q + pixv newc c row q.
  Proof.
    intros H1 H2 H3. unfold pixv. rewrite <- !cnt_point. unfold cnt.
    set (L := coords (e_rows e) (e_cols e)).
    assert (E : countb (pixq (at_ b c row) q) L =
                countb (pixq (at_ b c' (row - 1)) q) L + countb (pixq (pt (c + fst newc) (row + snd newc)) q) L
                - countb (pixq (pt (c + fst lastc) (row + snd lastc)) q) L).
    { apply countb_slide; intros [y x] _; unfold pixq; cbn [fst snd].
      - rewrite H1. destruct (in_img e x y), (q (dat e y x)), (at_ b c' (row - 1) x y),
          (pt (c + fst lastc) (row + snd lastc) x y), (pt (c + fst newc) (row + snd newc) x y); reflexivity.
      - intros E. destruct (pt (c + fst newc) (row + snd newc) x y) eqn:P; [|rewrite andb_false_r in E; discriminate].
        rewrite (H2 x y P). rewrite andb_false_r. reflexivity.
      - intros E. destruct (pt (c + fst lastc) (row + snd lastc) x y) eqn:P; [|rewrite andb_false_r in E; discriminate].
        rewrite (H3 x y P). rewrite andb_true_r in *. destruct (in_img e x y), (q (dat e y x)); cbn in *; congruence. }
    lia.
  Qed.

  Theorem hist_row_step_TL c row q :
    cnt (at_ bTL c row) q = cnt (at_ bTL (c + 1) (row - 1)) q - pixv (sc_last_tl e) c row q + pixv (sc_tl e) c row q.
  Proof.
    apply piece_step; intros x y; unfold at_, pt, bTL, sc_last_tl, sc_tl; fold R a2; cbn [fst snd]; lia.
  Qed.
  Theorem hist_row_step_BR c row q :
    cnt (at_ bBR c row) q = cnt (at_ bBR (c + 1) (row - 1)) q - pixv (sc_last_br e) c row q + pixv (sc_br e) c row q.
  Proof.
    apply piece_step; intros x y; unfold at_, pt, bBR, sc_last_br, sc_br; fold R a2; cbn [fst snd]; lia.
  Qed.
  Theorem hist_row_step_TR c row q :
    cnt (at_ bTR c row) q = cnt (at_ bTR (c - 1) (row - 1)) q - pixv (sc_last_tr e) c row q + pixv (sc_tr e) c row q.
  Proof.
    apply piece_step; intros x y; unfold at_, pt, bTR, sc_last_tr, sc_tr; fold R a2; cbn [fst snd]; lia.
  Qed.
  Theorem hist_row_step_BL c row q :
    cnt (at_ bBL c row) q = cnt (at_ bBL (c - 1) (row - 1)) q - pixv (sc_last_bl e) c row q + pixv (sc_bl e) c row q.
  Proof.
    apply piece_step; intros x y; unfold at_, pt, bBL, sc_last_bl, sc_bl; fold R a2; cbn [fst snd]; lia.
  Qed.
  Theorem hist_row_step_ED c row q :
    cnt (at_ bED c row) q = cnt (at_ bED c (row - 1)) q - pixv (sc_last_le e) c row q + pixv (sc_le e) c row q.
  Proof.
    apply piece_step; intros x y; unfold at_, pt, bED, sc_last_le, sc_le; fold R a2; cbn [fst snd]; lia.
  Qed.

  (* the trailing edge of column c is the edge piece of column c - 2R - 1 *)
  Lemma TE_is_ED c row q : cnt (at_ bTE c row) q = cnt (at_ bED (c - 2 * R - 1) row) q.
  Proof. apply cnt_ext. intros x y _ _. unfold at_, bTE, bED. lia. Qed.

  (* what the column guards of deaccumulate skip is empty *)
  Lemma TL_empty c row q : c <= a2 -> cnt (at_ bTL c row) q = 0.
  Proof. intros H. apply cnt_outside. intros x y Hx Hy. unfold at_, bTL. lia. Qed.
  Lemma BL_empty c row q : c <= a2 -> cnt (at_ bBL c row) q = 0.
  Proof. intros H. apply cnt_outside. intros x y Hx Hy. unfold at_, bBL. lia. Qed.
  Lemma TE_empty c row q : c <= R -> cnt (at_ bTE c row) q = 0.
  Proof. intros H. apply cnt_outside. intros x y Hx Hy. unfold at_, bTE. lia. Qed.

  (* above the image every piece is empty: the state the zero-initialised buffer stands for *)
  Lemma pieces_empty_above c q :
    cnt (at_ bTL c (- R - 1)) q = 0 /\ cnt (at_ bTR c (- R - 1)) q = 0 /\ cnt (at_ bED c (- R - 1)) q = 0 /\
    cnt (at_ bBL c (- R - 1)) q = 0 /\ cnt (at_ bBR c (- R - 1)) q = 0.
  Proof.
    repeat split; apply cnt_outside; intros x y Hx Hy; unfold at_, bTL, bTR, bED, bBL, bBR; lia.
  Qed.

  (* the pieces entering from the sides are empty: what row_init clears *)
  Lemma pieces_empty_sides row q :
    cnt (at_ bTL (e_cols e + R) row) q = 0 /\ cnt (at_ bBR (e_cols e + R) row) q = 0 /\
    cnt (at_ bTR (- R - 1) row) q = 0 /\ cnt (at_ bBL (- R - 1) row) q = 0.
  Proof.
    repeat split; apply cnt_outside; intros x y Hx Hy; unfold at_, bTL, bTR, bBL, bBR; lia.
  Qed.
End Img.
