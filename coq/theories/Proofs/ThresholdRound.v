(* C11 — the bracket hypotheses of local_in_band hold for the implementation's arithmetic:
   for every finite binary64 g >= 0,  fmul g 0.7 <= g <= fmul g 1.5   (fmul = exact product rounded to
   nearest-even binary64, Base.ThresholdNum).  No general monotonicity of rounding is needed: a value x
   below (above) a representable G rounds to at most (at least) G, because G is a multiple of the quantum
   used for x — or x lies in a higher binade whose lower end is itself representable. *)
From Coq Require Import ZArith QArith Qpower Lia Lqa.
From Coq Require Import List.
From Centro Require Import Base.Sx Base.ThresholdNum Model.ThresholdLang Gen.ThresholdC11 Spec.ThresholdSpec
  Proofs.ThresholdClamp.
Open Scope Q_scope.

Definition P2 (k : Z) : Q := (2 # 1) ^ k.

Lemma P2_pos k : 0 < P2 k.
Proof. apply Qpower_0_lt. reflexivity. Qed.
Lemma P2_plus a b : P2 (a + b) == P2 a * P2 b.
Proof. apply Qpower_plus. discriminate. Qed.
Lemma P2_Z k : (0 <= k)%Z -> inject_Z (2 ^ k) == P2 k.
Proof. intros H. apply (Zpower_Qpower 2 k H). Qed.
Lemma P2_mono a b : (a <= b)%Z -> P2 a <= P2 b.
Proof. intros H. apply Qpower_le_compat_l; [exact H|discriminate]. Qed.
Lemma P2_inv k : P2 k * P2 (- k) == 1.
Proof. rewrite <- P2_plus. replace (k + - k)%Z with 0%Z by ring. reflexivity. Qed.
Lemma inj_pos z : (0 < z)%Z -> 0 < inject_Z z.
Proof. intros H. unfold Qlt. cbn. lia. Qed.
Lemma pow2_pos k : (0 <= k)%Z -> (0 < 2 ^ k)%Z.
Proof. intros H. apply Z.pow_pos_nonneg; lia. Qed.

(* ------------------------------------------------------------------ nearest integer *)
Lemma rne_le n d N : (0 < d)%Z -> (n <= N * d)%Z -> (round_half_even n d <= N)%Z.
Proof.
  intros Hd H. unfold round_half_even.
  pose proof (Z.div_mod n d ltac:(lia)) as E. pose proof (Z.mod_pos_bound n d Hd) as B.
  set (q := (n / d)%Z) in *. set (r := (n mod d)%Z) in *.
  destruct (2 * r ?= d)%Z eqn:C.
  - apply Z.compare_eq in C. destruct (Z.even q); nia.
  - nia.
  - apply Z.compare_gt_iff in C. nia.
Qed.
Lemma rne_ge n d N : (0 < d)%Z -> (N * d <= n)%Z -> (N <= round_half_even n d)%Z.
Proof.
  intros Hd H. unfold round_half_even.
  pose proof (Z.div_mod n d ltac:(lia)) as E. pose proof (Z.mod_pos_bound n d Hd) as B.
  set (q := (n / d)%Z) in *. set (r := (n mod d)%Z) in *.
  assert (N <= q)%Z by nia.
  destruct (2 * r ?= d)%Z; [destruct (Z.even q)| |]; lia.
Qed.

(* ------------------------------------------------------------------ value of round_pos *)
Section Format.
  Variables prec emin : Z.
  Hypothesis prec_pos : (1 <= prec)%Z.
  Definition qexp (n d : Z) : Z := Z.max (flog2 n d - (prec - 1)) emin.
  Definition qint (n d : Z) : Z :=
    let e := qexp n d in
    if (0 <=? e)%Z then round_half_even n (d * 2 ^ e) else round_half_even (n * 2 ^ (- e)) d.

  Lemma round_pos_val n d : round_pos prec emin n d == inject_Z (qint n d) * P2 (qexp n d).
  Proof.
    unfold round_pos, qint. fold (qexp n d). set (e := qexp n d).
    destruct (Z.leb_spec 0 e) as [He|He].
    - rewrite <- (P2_Z e He). rewrite <- inject_Z_mult. reflexivity.
    - rewrite Qmake_Qdiv. rewrite Z2Pos.id by (apply pow2_pos; lia).
      rewrite (P2_Z (- e)) by lia. unfold Qdiv.
      assert (H : / P2 (- e) == P2 e).
      { pose proof (P2_inv e) as I. pose proof (P2_pos (- e)) as Pp. field_simplify_eq; [|lra].
        rewrite <- I. ring. }
      rewrite H. reflexivity.
  Qed.

  (* x = n/d against a multiple N * 2^e of its own quantum *)
  Lemma qint_le n d N : (0 < d)%Z ->
    inject_Z n <= inject_Z N * P2 (qexp n d) * inject_Z d -> (qint n d <= N)%Z.
  Proof.
    intros Hd H. unfold qint. set (e := qexp n d) in *.
    pose proof (inj_pos d Hd) as Dp.
    destruct (Z.leb_spec 0 e) as [He|He].
    - apply rne_le; [pose proof (pow2_pos e He); nia|].
      rewrite Zle_Qle. rewrite !inject_Z_mult, (P2_Z e He). lra.
    - apply rne_le; [exact Hd|].
      rewrite Zle_Qle. rewrite !inject_Z_mult, (P2_Z (- e)) by lia.
      pose proof (P2_inv e) as I. pose proof (P2_pos (- e)) as Pp.
      assert (inject_Z n * P2 (- e) <= inject_Z N * P2 e * inject_Z d * P2 (- e)) by nra.
      assert (inject_Z N * P2 e * inject_Z d * P2 (- e) == inject_Z N * inject_Z d) by (rewrite <- (Qmult_1_r (inject_Z N * inject_Z d)), <- I; ring).
      lra.
  Qed.
  Lemma qint_ge n d N : (0 < d)%Z ->
    inject_Z N * P2 (qexp n d) * inject_Z d <= inject_Z n -> (N <= qint n d)%Z.
  Proof.
    intros Hd H. unfold qint. set (e := qexp n d) in *.
    pose proof (inj_pos d Hd) as Dp.
    destruct (Z.leb_spec 0 e) as [He|He].
    - apply rne_ge; [pose proof (pow2_pos e He); nia|].
      rewrite Zle_Qle. rewrite !inject_Z_mult, (P2_Z e He). lra.
    - apply rne_ge; [exact Hd|].
      rewrite Zle_Qle. rewrite !inject_Z_mult, (P2_Z (- e)) by lia.
      pose proof (P2_inv e) as I. pose proof (P2_pos (- e)) as Pp.
      assert (inject_Z N * P2 e * inject_Z d * P2 (- e) <= inject_Z n * P2 (- e)) by nra.
      assert (inject_Z N * P2 e * inject_Z d * P2 (- e) == inject_Z N * inject_Z d) by (rewrite <- (Qmult_1_r (inject_Z N * inject_Z d)), <- I; ring).
      lra.
  Qed.

  (* lower end of the binade: d * 2^(flog2 n d) <= n *)
  Lemma flog2_lower n d : (0 < n)%Z -> (0 < d)%Z -> inject_Z d * P2 (flog2 n d) <= inject_Z n.
  Proof.
    intros Hn Hd. unfold flog2. set (k := (Z.log2 n - Z.log2 d)%Z).
    pose proof (inj_pos d Hd) as Dp.
    destruct (ge_pow2 n d k) eqn:T.
    - unfold ge_pow2 in T. destruct (Z.leb_spec 0 k) as [Hk|Hk].
      + apply Z.leb_le in T. rewrite Zle_Qle, inject_Z_mult, (P2_Z k Hk) in T. exact T.
      + apply Z.leb_le in T. rewrite Zle_Qle, inject_Z_mult, (P2_Z (- k)) in T by lia.
        pose proof (P2_inv k) as I. pose proof (P2_pos k) as Pk.
        assert (inject_Z d * P2 k <= inject_Z n * P2 (- k) * P2 k) by nra.
        assert (inject_Z n * P2 (- k) * P2 k == inject_Z n) by (rewrite <- (Qmult_1_r (inject_Z n)) at 2; rewrite <- I; ring).
        lra.
    - (* 2^(log2 n) <= n and d < 2^(log2 d + 1) *)
      pose proof (Z.log2_spec n Hn) as [Ln _]. pose proof (Z.log2_spec d Hd) as [_ Ld].
      pose proof (Z.log2_nonneg n) as An. pose proof (Z.log2_nonneg d) as Ad.
      rewrite Zle_Qle, (P2_Z _ An) in Ln.
      rewrite Zlt_Qlt, (P2_Z (Z.succ (Z.log2 d))) in Ld by lia.
      replace (k - 1)%Z with (Z.log2 n + - Z.succ (Z.log2 d))%Z by (unfold k; lia).
      rewrite P2_plus.
      pose proof (P2_inv (Z.succ (Z.log2 d))) as I.
      pose proof (P2_pos (Z.log2 n)) as P1. pose proof (P2_pos (- Z.succ (Z.log2 d))) as P3.
      pose proof (P2_pos (Z.succ (Z.log2 d))) as P4.
      (* d * 2^(-(ld+1)) < 1 *)
      assert (inject_Z d * P2 (- Z.succ (Z.log2 d)) <= 1).
      { rewrite <- I. nra. }
      nra.
  Qed.

  (* a representable value: m * 2^E with emin <= E, 0 <= m < 2^prec *)
  Definition representable (G : Q) : Prop :=
    exists m E, (emin <= E)%Z /\ (0 <= m < 2 ^ prec)%Z /\ G == inject_Z m * P2 E.

  Lemma m_lt m : (0 <= m < 2 ^ prec)%Z -> inject_Z m < P2 prec.
  Proof. intros [_ H]. rewrite <- (P2_Z prec) by lia. rewrite <- Zlt_Qlt. exact H. Qed.

  Theorem round_pos_le n d G : (0 < n)%Z -> (0 < d)%Z -> representable G ->
    inject_Z n <= G * inject_Z d -> round_pos prec emin n d <= G.
  Proof.
    intros Hn Hd (m & E & HE & Hm & HG) Hx. rewrite round_pos_val.
    pose proof (inj_pos d Hd) as Dp. pose proof (P2_pos (qexp n d)) as Pe.
    destruct (Z_le_gt_dec (qexp n d) E) as [C|C].
    - set (N := (m * 2 ^ (E - qexp n d))%Z).
      assert (HN : inject_Z N * P2 (qexp n d) == G).
      { unfold N. rewrite inject_Z_mult, (P2_Z (E - qexp n d)) by lia. rewrite HG.
        rewrite <- Qmult_assoc, <- P2_plus. replace (E - qexp n d + qexp n d)%Z with E by ring. reflexivity. }
      assert (qint n d <= N)%Z by (apply qint_le; [exact Hd|rewrite HN; exact Hx]).
      rewrite <- HN. apply Qmult_le_compat_r; [rewrite <- Zle_Qle; assumption|lra].
    - exfalso. (* x would lie in a binade above G *)
      assert (Ef : (qexp n d = flog2 n d - (prec - 1))%Z) by (unfold qexp in *; lia).
      pose proof (flog2_lower n d Hn Hd) as L.
      pose proof (m_lt m Hm) as Mlt. pose proof (P2_pos E) as PE.
      assert (P2 (prec + E) <= P2 (flog2 n d)) by (apply P2_mono; lia).
      rewrite P2_plus in H.
      assert (A1 : inject_Z m * P2 E < P2 prec * P2 E) by (apply Qmult_lt_compat_r; assumption).
      assert (A2 : G < P2 (flog2 n d)) by (rewrite HG; lra).
      assert (A3 : G * inject_Z d < P2 (flog2 n d) * inject_Z d) by (apply Qmult_lt_compat_r; assumption).
      lra.
  Qed.

  Theorem round_pos_ge n d G : (0 < n)%Z -> (0 < d)%Z -> representable G ->
    G * inject_Z d <= inject_Z n -> G <= round_pos prec emin n d.
  Proof.
    intros Hn Hd (m & E & HE & Hm & HG) Hx. rewrite round_pos_val.
    pose proof (inj_pos d Hd) as Dp. pose proof (P2_pos (qexp n d)) as Pe.
    destruct (Z_le_gt_dec (qexp n d) E) as [C|C].
    - set (N := (m * 2 ^ (E - qexp n d))%Z).
      assert (HN : inject_Z N * P2 (qexp n d) == G).
      { unfold N. rewrite inject_Z_mult, (P2_Z (E - qexp n d)) by lia. rewrite HG.
        rewrite <- Qmult_assoc, <- P2_plus. replace (E - qexp n d + qexp n d)%Z with E by ring. reflexivity. }
      assert (N <= qint n d)%Z by (apply qint_ge; [exact Hd|rewrite HN; exact Hx]).
      rewrite <- HN. apply Qmult_le_compat_r; [rewrite <- Zle_Qle; assumption|lra].
    - (* x is in a higher binade: it rounds to at least the binade's lower end 2^(flog2 x) > G *)
      assert (Ef : (qexp n d = flog2 n d - (prec - 1))%Z) by (unfold qexp in *; lia).
      pose proof (flog2_lower n d Hn Hd) as L.
      set (N := (2 ^ (prec - 1))%Z).
      assert (HN : inject_Z N * P2 (qexp n d) == P2 (flog2 n d)).
      { unfold N. rewrite (P2_Z (prec - 1)) by lia. rewrite <- P2_plus.
        replace (prec - 1 + qexp n d)%Z with (flog2 n d) by lia. reflexivity. }
      assert (N <= qint n d)%Z by (apply qint_ge; [exact Hd|rewrite HN; lra]).
      pose proof (m_lt m Hm) as Mlt. pose proof (P2_pos E) as PE.
      assert (P2 (prec + E) <= P2 (flog2 n d)) by (apply P2_mono; lia).
      rewrite P2_plus in H0.
      assert (inject_Z N * P2 (qexp n d) <= inject_Z (qint n d) * P2 (qexp n d)).
      { apply Qmult_le_compat_r; [rewrite <- Zle_Qle; assumption|lra]. }
      assert (A1 : inject_Z m * P2 E < P2 prec * P2 E) by (apply Qmult_lt_compat_r; assumption).
      rewrite HG. lra.
  Qed.
  (* the same for round_bin on a positive rational *)
  Lemma pos_num q : 0 < q -> exists n, Qnum q = Z.pos n.
  Proof. destruct q as [[|n|n] d]; unfold Qlt; cbn; intros H; try lia. exists n. reflexivity. Qed.
  Lemma q_num_den q : inject_Z (Qnum q) == q * inject_Z (Z.pos (Qden q)).
  Proof. destruct q as [n d]. cbn [Qnum Qden]. rewrite (Qmake_Qdiv n d). field. discriminate. Qed.
  Theorem round_bin_le q G : 0 < q -> representable G -> q <= G -> round_bin prec emin q <= G.
  Proof.
    intros Hq HG Hle. destruct (pos_num q Hq) as [n En]. unfold round_bin. rewrite En.
    apply round_pos_le; [reflexivity|reflexivity|exact HG|].
    rewrite <- En, q_num_den. apply Qmult_le_compat_r; [exact Hle|discriminate].
  Qed.
  Theorem round_bin_ge q G : 0 < q -> representable G -> G <= q -> G <= round_bin prec emin q.
  Proof.
    intros Hq HG Hle. destruct (pos_num q Hq) as [n En]. unfold round_bin. rewrite En.
    apply round_pos_ge; [reflexivity|reflexivity|exact HG|].
    rewrite <- En, q_num_den. apply Qmult_le_compat_r; [exact Hle|discriminate].
  Qed.
End Format.

(* ------------------------------------------------------------------ binary64 and the band constants *)
Definition binary64 (g : Q) : Prop := representable 53 (-1074) g.

Theorem fmul_band_bracket_lemma g :
  0 <= g -> binary64 g -> fmul g band_lo <= g /\ g <= fmul g band_hi.
Proof.
  intros Hg Hrep. destruct (Qlt_le_dec 0 g) as [Hpos|Hz].
  - unfold fmul, round64. split.
    + apply round_bin_le; [lia|unfold band_lo; nra|exact Hrep|unfold band_lo; lra].
    + apply round_bin_ge; [lia|unfold band_hi; nra|exact Hrep|unfold band_hi; lra].
  - assert (E : Qnum g = 0%Z).
    { destruct g as [n d]. unfold Qle in *. cbn in *. lia. }
    destruct g as [n d]. cbn in E. subst n.
    unfold fmul, round64, round_bin. cbn. unfold Qle. cbn. lia.
Qed.

(* S3 for the implementation's own arithmetic: binary64 scalar products, any array product, any monotone
   conversion of stored scalars to the array's dtype; the only thing asked of g is that it is a binary64 *)
Theorem local_in_band_binary64_lemma amul cast inp lo hi l g :
  (forall a b, a <= b -> cast a <= cast b) ->
  0 <= lo -> lo <= hi ->
  run fmul amul cast inp get_threshold_prog (Some lo) (Some hi) = Some (l, VNum g) ->
  binary64 g ->
  match l with
  | VNum t => lo <= t /\ t <= hi
  | VArr ts => forall i t, nth_error ts i = Some t -> unlabelled inp i = false ->
                           in_range_cast cast lo hi t /\ in_band_cast fmul cast g t
  | VNone => False
  end.
Proof.
  intros Hc H0 Hr H Hb.
  assert (Hg : lo <= g).
  { destruct (global_in_range_lemma fmul amul cast inp (Some lo) (Some hi) l (VNum g)) as [g' [E [R _]]]; auto.
    - intros x y Ea Eb. inversion Ea; inversion Eb; subst; exact Hr.
    - inversion E. subst. apply R. reflexivity. }
  destruct (fmul_band_bracket_lemma g) as [B1 B2]; [lra|exact Hb|].
  apply (local_in_band_lemma fmul amul cast inp lo hi l g Hc Hr H B1 B2).
Qed.

(* the hypotheses are satisfiable: g = 0.3 as a double (5404319552844595 * 2^-54), not a trivial case:
   g * 0.7 and g * 1.5 both need rounding *)
Example ex_binary64 :
  let g := Qmake 5404319552844595 18014398509481984 in
  binary64 g /\ 0 <= g /\ fmul g band_lo == Qmake 7566047373982433 36028797018963968 /\ fmul g band_hi == Qmake 2026619832316723 4503599627370496.
Proof.
  cbn zeta. split.
  - exists 5404319552844595%Z, (-54)%Z. split; [lia|]. split; [lia|]. vm_compute. reflexivity.
  - split; [discriminate|]. split; vm_compute; reflexivity.
Qed.
