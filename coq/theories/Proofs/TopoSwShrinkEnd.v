(* C05 - the local half of "binary_shrink reduces every hole-free object to a single pixel",
   run by the kernel on the REGENERATED four shrink tables (512 patterns):
   a set centre pixel is kept by all four tables  <->  its pattern is NOT an end pattern, where
   [end_pattern]: the ring of the eight neighbours (a cycle NW,N,NE,E,SE,S,SW,W) contains exactly
   one run of set pixels and the four edge neighbours N,E,S,W are not all set. *)
From Coq Require Import ZArith NArith List Bool.
From Centro Require Import Base.Topo Base.Skel Base.TopoPar Base.TopoSweep Gen.TablesC05.
Import ListNotations.

Definition ring_of (bits : list bool) : list bool :=
  map (bit bits) [0; 1; 2; 5; 8; 7; 6; 3]%nat.
(* number of positions where a run starts, cyclically *)
Fixpoint run_starts (prev : bool) (l : list bool) : nat :=
  match l with
  | [] => O
  | x :: r => ((if x && negb prev then 1 else 0) + run_starts x r)%nat
  end.
Definition ring_runs (bits : list bool) : nat :=
  let r := ring_of bits in run_starts (last r false) r.
Definition end_pattern (bits : list bool) : bool :=
  bit bits 4 && Nat.eqb (ring_runs bits) 1 &&
  negb (bit bits 1 && bit bits 3 && bit bits 5 && bit bits 7).
Definition shrink_keeps_all (bits : list bool) : bool :=
  keepN shrink_ulr bits && keepN shrink_urb bits && keepN shrink_lrl bits && keepN shrink_llt bits.

Lemma shrink_end_sweep :
  forall_bits 9 (fun bits => implb (bit bits 4) (Bool.eqb (shrink_keeps_all bits) (negb (end_pattern bits)))) = true.
Proof. vm_compute. reflexivity. Qed.

Lemma shrink_end_deleted : forall bits, length bits = 9%nat -> bit bits 4 = true ->
  shrink_keeps_all bits = negb (end_pattern bits).
Proof.
  intros bits L B. pose proof (forall_bits_spec 9 _ shrink_end_sweep bits L) as H. cbn beta in H.
  rewrite B in H. cbn [implb] in H. apply eqb_prop. exact H.
Qed.
