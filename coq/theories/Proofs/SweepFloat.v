(* C14 — the sweep's float decision `dc <= dn` agrees with the exact integer decision of the model.
   dc = fl(n1 / den), dn = fl(n2 / den) with the SAME denominator; n1, n2 (squared cross products) and
   den (a squared length) are integers that the double arithmetic of the code represents exactly as
   long as they are below 2^53.  The rounding operator is abstract: any function that is monotone
   and has relative error at most 2^-53 (round-to-nearest binary64 division without underflow is
   one).  Then for numerators below 2^52 the float comparison IS the integer comparison. *)
From Coq Require Import ZArith QArith Lqa Lia.
Open Scope Q_scope.

Section Rounding.
  Variable rnd : Q -> Q.
  Definition eps : Q := 1 # 9007199254740992.          (* 2^-53 *)
  Hypothesis rnd_mono : forall x y, x <= y -> rnd x <= rnd y.
  Hypothesis rnd_err : forall x, 0 <= x -> x * (1 - eps) <= rnd x /\ rnd x <= x * (1 + eps).

  Lemma div_le (a b d : Q) : 0 < d -> a <= b -> a / d <= b / d.
  Proof.
    intros D L. unfold Qdiv. apply Qmult_le_compat_r; [exact L|]. apply Qlt_le_weak. apply Qinv_lt_0_compat. exact D.
  Qed.

  Theorem float_compare_exact (n1 n2 den : Z) :
    (0 <= n1 < 4503599627370496)%Z -> (0 <= n2 < 4503599627370496)%Z -> (0 < den)%Z ->
    (rnd (inject_Z n1 / inject_Z den) <= rnd (inject_Z n2 / inject_Z den) <-> (n1 <= n2)%Z).
  Proof.
    intros B1 B2 D.
    assert (Dq : 0 < inject_Z den) by (change 0 with (inject_Z 0); rewrite <- Zlt_Qlt; exact D).
    split.
    - (* the rounded values are ordered: the integers cannot be in the opposite strict order *)
      intro H. destruct (Z_le_gt_dec n1 n2) as [OK|Bad]; [exact OK|exfalso].
      assert (G : inject_Z n2 + 1 <= inject_Z n1).
      { change 1 with (inject_Z 1). rewrite <- inject_Z_plus, <- Zle_Qle. lia. }
      set (x1 := inject_Z n1 / inject_Z den) in *. set (x2 := inject_Z n2 / inject_Z den) in *.
      assert (P1 : 0 <= x1).
      { unfold x1. apply Qle_shift_div_l; [exact Dq|]. rewrite Qmult_0_l. change 0 with (inject_Z 0). rewrite <- Zle_Qle. lia. }
      assert (P2 : 0 <= x2).
      { unfold x2. apply Qle_shift_div_l; [exact Dq|]. rewrite Qmult_0_l. change 0 with (inject_Z 0). rewrite <- Zle_Qle. lia. }
      destruct (rnd_err x1 P1) as [L1 _]. destruct (rnd_err x2 P2) as [_ U2].
      (* x1 (1 - eps) <= rnd x1 <= rnd x2 <= x2 (1 + eps), times den: n1 (1 - eps) <= n2 (1 + eps) *)
      assert (K : x1 * (1 - eps) <= x2 * (1 + eps)) by lra.
      assert (K2 : inject_Z n1 * (1 - eps) <= inject_Z n2 * (1 + eps)).
      { assert (E1 : inject_Z n1 == x1 * inject_Z den) by (unfold x1; field; lra).
        assert (E2 : inject_Z n2 == x2 * inject_Z den) by (unfold x2; field; lra).
        rewrite E1, E2. nra. }
      assert (Hi : inject_Z n1 < 4503599627370496).
      { change 4503599627370496 with (inject_Z 4503599627370496). rewrite <- Zlt_Qlt. lia. }
      assert (Lo : 0 <= inject_Z n2) by (change 0 with (inject_Z 0); rewrite <- Zle_Qle; lia).
      unfold eps in K2. lra.
    - intro L. apply rnd_mono. apply div_le; [exact Dq|]. rewrite <- Zle_Qle. exact L.
  Qed.
End Rounding.

(* the hypotheses are satisfiable: exact arithmetic is such an operator *)
Example rounding_model_nonempty :
  (forall x y : Q, x <= y -> (fun q => q) x <= (fun q => q) y) /\
  (forall x : Q, 0 <= x -> x * (1 - eps) <= (fun q => q) x /\ (fun q => q) x <= x * (1 + eps)).
Proof. split; [intros x y H; exact H|]. intros x H. unfold eps. split; nra. Qed.
