(* C01 — scaling link: the tracker's costs are rationals q (Proofs.LapjvTrackCost), the assignment problem of
   tracker_identity has integer costs z = q * s for a positive scale s.  Sign facts transfer, so the cost
   structure proved over Q gives the hypotheses of tracker_identity. *)
From Coq Require Import ZArith QArith Lqa List Lia.
From Centro Require Import Base.Sx Model.Lapjv Spec.Lapjv Proofs.LapjvCert Proofs.LapjvTrack Proofs.LapjvTrackCost.
Import ListNotations.

Lemma scaled_zero z q s : (0 < s)%Z -> inject_Z z == q * inject_Z s -> q == 0 -> z = 0%Z.
Proof.
  intros Hs E Hq. rewrite Hq in E. assert (H : inject_Z z == 0) by (rewrite E; ring).
  unfold Qeq in H. cbn in H. lia.
Qed.
Lemma scaled_nonneg z q s : (0 < s)%Z -> inject_Z z == q * inject_Z s -> 0 <= q -> (0 <= z)%Z.
Proof.
  intros Hs E Hq. assert (Hs' : 0 < inject_Z s) by (unfold Qlt; cbn; lia).
  assert (H : 0 <= inject_Z z) by (rewrite E; apply Qmult_le_0_compat; lra).
  unfold Qle in H. cbn in H. lia.
Qed.
Lemma scaled_pos z q s : (0 < s)%Z -> inject_Z z == q * inject_Z s -> 0 < q -> (0 < z)%Z.
Proof.
  intros Hs E Hq. assert (Hs' : 0 < inject_Z s) by (unfold Qlt; cbn; lia).
  assert (H : 0 < inject_Z z) by (rewrite E; apply Qmult_lt_0_compat; lra).
  unfold Qlt in H. cbn in H. lia.
Qed.

Theorem tracker_identity_scaled n m tri (s : Z) (qc : nat -> nat -> Q) :
  (m <= n)%nat -> (0 < s)%Z ->
  (forall t, In t tri -> inject_Z (t_c t) == qc (t_i t) (t_j t) * inject_Z s) ->
  (forall i, (i < n)%nat -> cost tri i i <> None) ->
  (forall i j, 0 <= qc i j) ->
  (forall i, (i < n)%nat -> qc i i == 0) ->
  (forall i j, (i < m)%nat -> j <> i -> 0 < qc i j) ->
  forall x, Optimal n tri x -> forall i, (i < m)%nat -> col x i = i.
Proof.
  intros Hmn Hs Hsc Hd Hnn Hz Hp.
  apply (tracker_identity n m tri Hmn).
  - intros t Hin. eapply scaled_nonneg; eauto.
  - intros i Hi. specialize (Hd i Hi). destruct (cost tri i i) as [z|] eqn:E; [|congruence].
    destruct (cost_in _ _ _ _ E) as [t [Hin [Ei [Ej Ec]]]]. f_equal.
    apply (scaled_zero z (qc i i) s Hs); [|apply Hz; auto]. rewrite <- Ec. rewrite (Hsc t Hin), Ei, Ej. reflexivity.
  - intros i j c Hi Hj E. destruct (cost_in _ _ _ _ E) as [t [Hin [Ei [Ej Ec]]]].
    apply (scaled_pos c (qc i j) s Hs); [|apply Hp; auto]. rewrite <- Ec. rewrite (Hsc t Hin), Ei, Ej. reflexivity.
Qed.

(* with the match cost of LapjvTrackCost on the object block: identical frames whose detections differ
   pairwise in centroid or area *)
Theorem match_cost_block (P : Type) (dist : P -> P -> Q) (scale weight : Q) (cen : nat -> P) (area : nat -> Q) :
  (forall p q, 0 <= dist p q) -> (forall p, dist p p == 0) -> (forall p q, dist p q == 0 -> p = q) ->
  0 < scale -> 0 < weight -> (forall i, 0 < area i) ->
  (forall i j, i <> j -> cen i <> cen j \/ ~ area i == area j) ->
  let qc := fun i j => match_cost P dist scale weight (cen i) (area i) (cen j) (area j) in
  (forall i j, 0 <= qc i j) /\ (forall i, qc i i == 0) /\ (forall i j, j <> i -> 0 < qc i j).
Proof.
  intros Dn Ds Dz Hsc Hw Ha Hd. cbn zeta. split; [|split].
  - intros i j. apply match_cost_nonneg; auto.
  - intros i. apply match_cost_self; auto.
  - intros i j Hne. apply match_cost_pos; auto.
Qed.
