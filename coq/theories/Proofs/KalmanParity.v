(* C09 — parity (inversion count, as the model of filter.parity) is the sign of the permutation:
   +1 on the identity, flipped by every adjacent transposition (these two facts determine the sign
   on all permutations); and the cycle-counting algorithm that filter.parity is written as
   agrees with it on every permutation of up to 5 elements (kernel sweep). *)
From Coq Require Import ZArith List Bool Lia Arith QArith Qcanon.
From Centro Require Import Model.Kalman.
Import ListNotations.
Open Scope nat_scope.

Definition cnt_lt (a : nat) (l : list nat) : nat := length (filter (fun b => Nat.ltb b a) l).

Lemma inversions_cons a l : inversions (a :: l) = cnt_lt a l + inversions l.
Proof. reflexivity. Qed.

Lemma cnt_lt_app a l1 l2 : cnt_lt a (l1 ++ l2) = cnt_lt a l1 + cnt_lt a l2.
Proof. unfold cnt_lt. rewrite filter_app, app_length. reflexivity. Qed.

Lemma cnt_lt_ge a : forall n s, a <= s -> cnt_lt a (seq s n) = 0.
Proof.
  induction n as [|n IH]; intros s H; [reflexivity|]. cbn [seq]. unfold cnt_lt in *. cbn [filter].
  destruct (Nat.ltb_spec s a); [lia|]. apply IH. lia.
Qed.

Lemma inversions_seq : forall n s, inversions (seq s n) = 0.
Proof.
  induction n as [|n IH]; intros s; [reflexivity|]. cbn [seq]. rewrite inversions_cons, IH, cnt_lt_ge by lia. reflexivity.
Qed.

(* the identity permutation is even *)
Theorem parity_identity n : parity (seq 0 n) = 1%Qc.
Proof. unfold parity. rewrite inversions_seq. reflexivity. Qed.

Lemma inversions_swap l1 a b l2 : a < b ->
  inversions (l1 ++ b :: a :: l2) = S (inversions (l1 ++ a :: b :: l2)).
Proof.
  intros H. induction l1 as [|c l1 IH].
  - cbn [app]. rewrite !inversions_cons. unfold cnt_lt. cbn [filter].
    destruct (Nat.ltb_spec a b); [|lia]. destruct (Nat.ltb_spec b a); [lia|]. cbn [length]. lia.
  - cbn [app]. rewrite !inversions_cons, IH. f_equal.
    rewrite !cnt_lt_app. f_equal. unfold cnt_lt. cbn [filter].
    destruct (Nat.ltb a c), (Nat.ltb b c); cbn [length]; lia.
Qed.

Lemma sign_of_flip n : sign_of (Nat.even (S n)) = (- sign_of (Nat.even n))%Qc.
Proof.
  rewrite Nat.even_succ, <- Nat.negb_even. destruct (Nat.even n); cbn [negb sign_of]; [reflexivity|].
  apply Qc_is_canon. reflexivity.
Qed.

(* an adjacent transposition flips the sign *)
Theorem parity_adjacent_swap l1 a b l2 : a <> b ->
  parity (l1 ++ b :: a :: l2) = (- parity (l1 ++ a :: b :: l2))%Qc.
Proof.
  intros H. unfold parity. destruct (Nat.lt_ge_cases a b) as [L|L].
  - rewrite inversions_swap by exact L. apply sign_of_flip.
  - assert (L' : b < a) by lia. rewrite (inversions_swap l1 b a l2 L'). rewrite sign_of_flip.
    destruct (sign_of (Nat.even (inversions (l1 ++ b :: a :: l2)))) eqn:E. ring.
Qed.

(* ---- filter.parity as written: cycle lengths of order = lexsort((x,)) *)
Definition rank_of (l : list nat) (v : nat) : nat := cnt_lt v l.
Fixpoint index_where (f : nat -> bool) (l : list nat) (i : nat) : nat :=
  match l with [] => i | a :: t => if f a then i else index_where f t (S i) end.
(* order[k] = position of the k-th smallest element *)
Definition argsort (l : list nat) : list nat :=
  map (fun k => index_where (fun v => Nat.eqb (rank_of l v) k) l 0) (seq 0 (length l)).
Fixpoint set_true (hit : list bool) (i : nat) : list bool :=
  match hit, i with [] , _ => [] | _ :: t, O => true :: t | h :: t, S i' => h :: set_true t i' end.
(* while i != j: hit[i] = True; i = order[i]; cycle += 1 *)
Fixpoint walk (fuel : nat) (order : list nat) (j i : nat) (hit : list bool) (cycle : nat) : list bool * nat :=
  match fuel with
  | O => (hit, cycle)
  | S f => if Nat.eqb i j then (hit, cycle) else walk f order j (nth i order 0) (set_true hit i) (S cycle)
  end.
Fixpoint outer (order : list nat) (js : list nat) (hit : list bool) (p : nat) : nat :=
  match js with
  | [] => p
  | j :: t => if nth j hit false then outer order t hit p
              else let '(hit', cycle) := walk (length order) order j (nth j order 0) hit 1 in
                   outer order t hit' (p + (cycle - 1))
  end.
Definition parity_cycles (x : list nat) : Qc :=
  let order := argsort x in
  sign_of (Nat.even (outer order (seq 0 (length x)) (repeat false (length x)) 0)).

Definition qc_eqb (a b : Qc) : bool := Qeq_bool (this a) (this b).
Lemma qc_eqb_true a b : qc_eqb a b = true -> a = b.
Proof. unfold qc_eqb. intros H. apply Qc_is_canon. apply Qeq_bool_eq. exact H. Qed.

Definition sweep (n : nat) : bool :=
  forallb (fun p => qc_eqb (parity_cycles p) (parity p)) (permutations (seq 0 n)).

Theorem parity_cycles_inversions n p : n <= 5 -> In p (permutations (seq 0 n)) -> parity_cycles p = parity p.
Proof.
  intros Hn Hp.
  assert (S : sweep n = true).
  { destruct n as [|[|[|[|[|[|n]]]]]]; try lia; vm_compute; reflexivity. }
  unfold sweep in S. rewrite forallb_forall in S. apply qc_eqb_true. apply S. exact Hp.
Qed.

Example parity_ex : parity [2; 0; 1] = 1%Qc /\ parity_cycles [2; 0; 1] = 1%Qc /\ parity [0; 2; 1] = (- (1))%Qc.
Proof. repeat split; apply Qc_is_canon; vm_compute; reflexivity. Qed.
