(* C10 — wrapped_run_simulation and C10_no_wrap_below_bound: if every int operation on the exact path of
   the FastEMD program has a representable result (okp, the ghost check recorded by the exact run),
   then executing the program with the as-written int32 semantics (wrap32 after every operation)
   gives exactly the result of the exact execution.  Generic over programs: by induction on the
   program, each operation's wrap is the identity on a representable result. *)
From Coq Require Import ZArith List Bool Lia ZifyBool.
From Centro Require Import Base.Sx Base.EmdBase Model.Emd Model.EmdMcf Model.EmdAsIs Model.EmdW Model.EmdP Proofs.EmdWrap2.
Import ListNotations.
Open Scope Z_scope.

Theorem wrapped_run_simulation {A} (p : prog A) : okp p = true -> run wrap32 p = run idz p.
Proof.
  induction p as [a|z k IH]; cbn [okp run]; [reflexivity|].
  intros H. apply andb_prop in H. destruct H as [R K].
  unfold in_range in R. apply andb_prop in R. destruct R as [R1 R2].
  rewrite (wrap32_id z) by lia. unfold idz at 2. apply IH. exact K.
Qed.

Theorem no_wrap_below_bound p q c pen ft gd :
  no_wrap_b p q c pen ft gd = true ->
  emd_int32_as_written p q c pen ft gd = emd_int32_exact p q c pen ft gd.
Proof. apply wrapped_run_simulation. Qed.

(* the program formulation computes what the section formulation (Model/EmdW.v) computes: on the F25
   witnesses, as written and exact; and the hypothesis is false exactly where they differ *)
Example prog_agrees_with_section :
  emd_int32_as_written [1; 2] [1; 1] [[1; 1]; [two30; two30 + 1]] (Some 0) 2 false
    = emd_hat_int32_w wrap32 [1; 2] [1; 1] [[1; 1]; [two30; two30 + 1]] (Some 0) 2 false /\
  emd_int32_exact [1; 2] [1; 1] [[1; 1]; [two30; two30 + 1]] (Some 0) 2 false
    = emd_hat_int32_w exactw [1; 2] [1; 1] [[1; 1]; [two30; two30 + 1]] (Some 0) 2 false /\
  no_wrap_b [1; 2] [1; 1] [[1; 1]; [two30; two30 + 1]] (Some 0) 2 false = false /\
  (* one unit less: an intermediate still leaves int32, but harmlessly - the hypothesis is sufficient, not necessary *)
  no_wrap_b [1; 2] [1; 1] [[1; 1]; [two30 - 1; two30]] (Some 0) 2 false = false /\
  emd_int32_as_written [1; 2] [1; 1] [[1; 1]; [two30 - 1; two30]] (Some 0) 2 false = emd_int32_exact [1; 2] [1; 1] [[1; 1]; [two30 - 1; two30]] (Some 0) 2 false /\
  emd_int32_as_written [1] [two30; two30] [[0; 1]] (Some 0) 2 false = (0, 2147483647, [[1; 0]]) /\
  no_wrap_b [1] [two30; two30] [[0; 1]] (Some 0) 2 false = false /\
  no_wrap_b [3; 1; 2] [2; 2; 2] [[0; 9; 9]; [9; 0; 9]; [1; 9; 0]] None 2 false = true /\
  emd_int32_exact [3; 1; 2] [2; 2; 2] [[0; 9; 9]; [9; 0; 9]; [1; 9; 0]] None 2 false = (0, 9, [[2; 1; 0]; [0; 1; 0]; [0; 0; 2]]).
Proof. repeat split; vm_compute; reflexivity. Qed.
