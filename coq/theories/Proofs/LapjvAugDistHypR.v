(* C01 — the reference variant (true infinity in augment): aug_dist_inv and "returns => optimal". *)
From Coq Require Import ZArith List Bool Lia ZifyBool Arith.
From Centro Require Import Base.Sx Model.Lapjv Spec.Lapjv Proofs.LapjvCert Proofs.LapjvPhases Proofs.LapjvArr Proofs.LapjvRows
  Proofs.LapjvRt Proofs.LapjvHall Proofs.LapjvArrExt Proofs.LapjvExtModel Proofs.LapjvAugMarks Proofs.LapjvAugFlip
  Proofs.LapjvAugPred Proofs.LapjvAugRows Proofs.LapjvAugPrice Proofs.LapjvPerm Proofs.LapjvFixedPerm Proofs.LapjvAugStamps
  Proofs.LapjvAugOpt Proofs.LapjvAugDist Proofs.LapjvAugDistR Proofs.LapjvRefPerm Proofs.LapjvGrid.
Import ListNotations.
Open Scope Z_scope.

(* the value of umin at a loop head with an empty scan is never read *)
Lemma aug_loop_umin_irrelevant r n inf rows y v d p dn o td rd um um' : forall fuel,
  aug_loop fuel r n inf rows y v (mkAug d p dn o td [] rd um) = aug_loop fuel r n inf rows y v (mkAug d p dn o td [] rd um').
Proof. intros [|f]; cbn [aug_loop g_scan g_d g_pred g_done g_ontodo g_todo g_ready]; reflexivity. Qed.

Section HypR.
Variables (n : nat) (rows : list (list (nat * ext))).
Hypothesis Rfin : forall i j c, In (j, c) (row rows i) -> (j < n)%nat /\ exists z, c = Fin z.
Hypothesis Rnodup : forall i, NoDup (map fst (row rows i)).

Theorem aug_dist_invR : DistHyp n rows PInf.
Proof.
  intros s r d o p g' j1 HS HI Hr Fr Hd Ho EI EL.
  pose proof HS as [Lx [Ly [Ld [Lo [Lp PI]]]]]. pose proof HI as [_ [_ [FV _]]].
  pose proof (aug_init_row_dist r n (m_v s) FV (rowget rows r) (repeat PInf n) (m_ontodo s) (m_pred s)
                (Rnodup r) (fun j c H => Rfin r j c H) ltac:(apply repeat_length) Lo Lp) as AD.
  pose proof (aug_init_row_marks r n rows (m_v s) (fun i j c H => proj1 (Rfin i j c H)) (rowget rows r) (repeat PInf n)
                (m_ontodo s) (m_pred s) (fun j c H => proj1 (Rfin r j c H)) Lo) as AM.
  rewrite EI in AD, AM. destruct AD as [Ld' [Lp' [In' Out']]]. destruct AM as [Lo' _].
  assert (Cols : forall j, In j (map fst (rowget rows r)) -> exists z, In (j, Fin z) (row rows r)).
  { intros j Hj. apply in_map_iff in Hj as [[j' c] [<- Hin]]. destruct (Rfin r j' c Hin) as [_ [z ->]]. exists z. exact Hin. }
  assert (OutD : forall j, (j < n)%nat -> ~ In j (map fst (rowget rows r)) -> gete d j = PInf).
  { intros j Hj Nj. destruct (Out' j Nj) as [E _]. rewrite E. unfold gete.
    rewrite (nth_indep _ NaN PInf) by (rewrite repeat_length; auto). apply nth_repeat. }
  rewrite (aug_loop_umin_irrelevant r n PInf rows (m_y s) (m_v s) d p (m_done s) o (map fst (rowget rows r)) [] PInf (Fin 0)) in EL.
  set (g0 := mkAug d p (m_done s) o (map fst (rowget rows r)) [] [] (Fin 0)) in *.
  assert (RowFin : forall j, In j (map fst (rowget rows r)) -> fin (g_d g0) j).
  { intros j Hj. destruct (Cols j Hj) as [z Hz]. destruct (In' j z Hz) as [E _]. unfold fin, g0. cbn [g_d]. eauto. }
  assert (K0 : LapjvAugDistR.K r n rows (m_y s) (m_v s) g0 0).
  { constructor; unfold g0; cbn [g_d g_pred g_done g_ontodo g_todo g_scan g_ready g_umin app].
    - unfold Marks. cbn [g_done g_ontodo g_todo g_scan g_ready app].
      refine (conj Ld (conj Lo' (conj (Rnodup r) (conj _ (conj (NoDup_nil _) _))))).
      + intros j Hj. destruct (Cols j Hj) as [z Hz]. split; [apply (Rfin r j _ Hz)|apply (In' j z Hz)].
      + intros j [].
    - reflexivity.
    - intros j [].
    - intros j [].
    - intros H. contradiction.
    - exact Ld'.
    - intros j Hj. destruct (in_dec Nat.eq_dec j (map fst (rowget rows r))) as [Hin|Nin]; [left; apply (RowFin j Hin)|right; apply OutD; auto].
    - exact Lp'.
    - intros j Hj Nt _. apply OutD; auto.
    - intros j Hj E. destruct (in_dec Nat.eq_dec j (map fst (rowget rows r))) as [Hin|Nin]; auto.
      exfalso. destruct (Out' j Nin) as [_ [Eo _]]. rewrite Eo in E. apply (Ho j E).
    - intros j Hj E. exfalso. apply (Hd j E).
    - intros j Hj. rewrite app_nil_r in Hj. destruct (Cols j Hj) as [z Hz]. destruct (In' j z Hz) as [E1 [E2 _]].
      left. split; auto. exists z. split; auto. unfold dz. rewrite E1. reflexivity.
    - intros j Hj. rewrite app_nil_r in Hj. apply (RowFin j Hj).
    - intros j []. }
  assert (F0 : LapjvAugDistR.Fd r rows (m_v s) (g_d g0)).
  { intros j c Hc. unfold g0. cbn [g_d]. destruct (In' j c Hc) as [E _]. split; [eexists; eauto|]. unfold dz. rewrite E. lia. }
  assert (G0 : LapjvAugDistR.Gd n rows (m_y s) (m_v s) (g_d g0) (g_ready g0)) by (intros jh j c ch []).
  exact (aug_loop_distR r n rows (m_x s) (m_y s) (m_v s) Rfin Rnodup HI FV (S (S n)) g0 0 g' j1 K0 F0 G0 EL).
Qed.
End HypR.

(* phases 1-3 establish Inv (finite prices) when every row has >= 2 candidates OR no augmenting row reduction pass is run *)
Lemma phases123_inv_k n tri :
  (forall t, In t tri -> (t_i t < n)%nat /\ (t_j t < n)%nat) ->
  NoDup (map fst tri) ->
  (forall j, (j < n)%nat -> exists t, In t tri /\ t_j t = j) ->
  forall epsr fuel k x y v ii,
  (k = 0%nat \/ forall i, (i < n)%nat -> (2 <= length (filter (fun t => (t_i t =? i)%nat) tri))%nat) ->
  0 <= epsr ->
  let rows := rows_of n tri in
  let mi := min_i n tri in
  let x0 := x_init n mi in
  let y0 := y_init n x0 in
  let uv := reduction_transfer Fixed n rows (jflat_of rows) x0 (one_rows n mi) (repeat (Fin 0) n) (v_init n tri) in
  match free_rows n mi with
  | [] => Some (x0, y0, snd uv, free_rows n mi)
  | _ => arr_passes k fuel (Fin 0) (Fin epsr) n rows (x0, y0, snd uv, free_rows n mi)
  end = Some (x, y, v, ii) ->
  Inv n rows x y v /\ Pending n y ii.
Proof.
  intros Hrange Hpairs Hcols epsr fuel k x y v ii [Ek|Hc2] Her.
  - rewrite Ek. cbn zeta. destruct (phase12_inv n tri Hrange Hcols) as [HI HP]. cbn [arr_passes].
    destruct (free_rows n (min_i n tri)) eqn:EF; intros E; injection E as <- <- <- <-; split; auto.
  - apply (phases123_inv n tri Hrange Hpairs Hcols Hc2 epsr fuel k x y v ii Her).
Qed.

Theorem lapjv_ref_fixed_optimal_gen n tri :
  (forall t, In t tri -> (t_i t < n)%nat /\ (t_j t < n)%nat) ->
  NoDup (map fst tri) ->
  (forall j, (j < n)%nat -> exists t, In t tri /\ t_j t = j) ->
  has_PM n tri ->
  forall epsr k x y u v,
  (k = 0%nat \/ forall i, (i < n)%nat -> (2 <= length (filter (fun t => (t_i t =? i)%nat) tri))%nat) ->
  0 <= epsr ->
  lapjv_ref Fixed 0 epsr k n tri = Some (x, y, u, v) -> Optimal n tri x.
Proof.
  intros Hrange Hpairs Hcols HPM epsr k x y u v Hc2 Her E.
  assert (DH : DistHyp n (rows_of n tri) PInf) by (apply aug_dist_invR; [apply (rows_fin n tri Hrange)|apply (rows_nodup n tri Hpairs)]).
  destruct (lapjv_ref_fixed_pm n tri Hrange Hpairs Hcols HPM epsr k x y u v Her E) as [PMx Inv'].
  (* the final state satisfies Inv *)
  assert (FI : exists vf, Inv n (rows_of n tri) x y vf).
  { unfold lapjv_ref in E.
    pose proof (fun x y v ii => phases123_inv_k n tri Hrange Hpairs Hcols epsr (arr_fuel n tri) k x y v ii Hc2) as P123. cbn zeta in P123.
    destruct (reduction_transfer Fixed n (rows_of n tri) (jflat_of (rows_of n tri)) (x_init n (min_i n tri))
                (one_rows n (min_i n tri)) (repeat (Fin 0) n) (v_init n tri)) as [u1 v1]. cbn [snd] in P123.
    destruct (match free_rows n (min_i n tri) with
              | [] => Some (x_init n (min_i n tri), y_init n (x_init n (min_i n tri)), v1, free_rows n (min_i n tri))
              | _ => arr_passes k (arr_fuel n tri) (Fin 0) (Fin epsr) n (rows_of n tri)
                       (x_init n (min_i n tri), y_init n (x_init n (min_i n tri)), v1, free_rows n (min_i n tri))
              end) as [[[[x2 y2] v2] ii]|] eqn:EA; [|discriminate].
    destruct (P123 x2 y2 v2 ii Her eq_refl) as [HI HP].
    set (s0 := mkMain x2 y2 v2 (repeat (Fin 0) n) (repeat 1%nat n) (repeat n n) (repeat n n)) in *.
    destruct (fold_left (aug_row n PInf (rows_of n tri)) ii (Some s0)) as [s|] eqn:EFold; [|discriminate].
    destruct (final_u (rows_of n tri) (m_x s) (m_v s)) as [uf|]; [|discriminate].
    injection E as Ex Ey Eu Ev. exists (m_v s). rewrite <- Ex, <- Ey.
    assert (S0 : St n s0).
    { destruct HI as [Lx2 [Ly2 [_ SL]]]. unfold St, s0. cbn [m_x m_y m_done m_ontodo m_pred].
      rewrite !repeat_length. refine (conj Lx2 (conj Ly2 (conj eq_refl (conj eq_refl (conj eq_refl _))))).
      intros j i Hj _ Ey' Ne. destruct (SL j i Hj Ey' Ne) as [A [B _]]. split; auto. }
    apply (aug_rows_inv n (rows_of n tri) PInf (rows_fin n tri Hrange) (rows_nodup n tri Hpairs) DH ii s0 s S0); auto.
    intros j i Hi. unfold s0. cbn [m_done m_ontodo]. unfold getn. rewrite !nth_repeat.
    destruct (proj2 HP i Hi) as [Hlt _]. split; lia. }
  destruct FI as [vf [Lx [Ly [FV SL]]]].
  split; [exact PMx|]. intros sigma PMs.
  apply (cert_optimal_abs n tri (fun i => costz tri i (col x i) - vz vf (col x i)) (vz vf) x PMx); auto.
  - (* dual feasibility from Slack *)
    intros i j z Ec. destruct (cost_in _ _ _ _ Ec) as [t [Hin [Ei [Ej Ecz]]]].
    assert (Hi : (i < n)%nat) by (rewrite <- Ei; apply Hrange; auto).
    destruct Inv' as [_ [_ [F1 _]]]. destruct (F1 i Hi) as [Hx Hy].
    assert (Gx : getn y (col x i) n = i).
    { unfold getn. rewrite (nth_indep _ n 0%nat) by lia. exact Hy. }
    destruct (SL (col x i) i Hx Gx ltac:(lia)) as [_ [_ [c0 [Hc0 Hmin]]]].
    pose proof (in_row_of_tri n tri Hrange t Hin) as Hrow. rewrite Ei, Ej, Ecz in Hrow.
    specialize (Hmin j z Hrow).
    assert (Ec0 : costz tri i (col x i) = c0).
    { unfold costz. rewrite (cost_unique tri Hpairs i (col x i) c0); auto.
      apply (row_in_tri n tri). exact Hc0. }
    rewrite Ec0. lia.
  - intros i Hi. lia.
Qed.

Theorem lapjv_ref_fixed_optimal n tri :
  (forall t, In t tri -> (t_i t < n)%nat /\ (t_j t < n)%nat) ->
  NoDup (map fst tri) ->
  (forall j, (j < n)%nat -> exists t, In t tri /\ t_j t = j) ->
  has_PM n tri ->
  (forall i, (i < n)%nat -> (2 <= length (filter (fun t => (t_i t =? i)%nat) tri))%nat) ->
  forall epsr k x y u v, 0 <= epsr ->
  lapjv_ref Fixed 0 epsr k n tri = Some (x, y, u, v) -> Optimal n tri x.
Proof.
  intros Hrange Hpairs Hcols HPM Hc2 epsr k x y u v Her E.
  apply (lapjv_ref_fixed_optimal_gen n tri Hrange Hpairs Hcols HPM epsr k x y u v (or_intror Hc2) Her E).
Qed.

Corollary lapjv_ref_fixed_optimal_grid n tri g eps epsr k x y u v :
  (forall t, In t tri -> (t_i t < n)%nat /\ (t_j t < n)%nat) ->
  NoDup (map fst tri) ->
  (forall j, (j < n)%nat -> exists t, In t tri /\ t_j t = j) ->
  has_PM n tri ->
  (forall i, (i < n)%nat -> (2 <= length (filter (fun t => (t_i t =? i)%nat) tri))%nat) ->
  0 <= eps < g -> 0 <= epsr < g -> (forall t, In t tri -> (g | t_c t)) ->
  lapjv_ref Fixed eps epsr k n tri = Some (x, y, u, v) -> Optimal n tri x.
Proof.
  intros Hrange Hpairs Hcols HPM Hc2 He Her Hg E.
  rewrite (eps_irrelevant_on_grid_ref g Fixed eps epsr k n tri He Her Hg) in E.
  apply (lapjv_ref_fixed_optimal n tri Hrange Hpairs Hcols HPM Hc2 0 k x y u v); [lia|exact E].
Qed.
