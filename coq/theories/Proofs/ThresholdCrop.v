(* C11 — crop-first non-interference.  An H x W array is a function of (row, column); [crop] is
   NumPy's image[mask] (row-major list of the selected pixels).  A method of shape G (crop image mask)
   — G an arbitrary function, Section variable — cannot distinguish two images that agree on the mask;
   the statement is lifted through the block loop of get_adaptive_threshold (block = image[i0:i1, j0:j1]
   with mask[i0:i1, j0:j1]) and the object loop of get_per_object_threshold (values = image[extent] with
   (labels[extent] == i) & mask[extent]).  That every method HAS this shape is the regenerated premise
   access_crop_first (Gen.ThresholdC11.threshold_access). *)
From Coq Require Import ZArith List Bool Lia.
Import ListNotations.

Section Crop.
  Variable A : Type.            (* pixel values *)
  Variable T : Type.            (* whatever a global method returns *)
  Variable G : list A -> T.     (* the numerical body of a method, applied to the cropped data *)

  Definition image := nat -> nat -> A.
  Definition bmask := nat -> nat -> bool.

  (* image[mask] for an H x W image *)
  Definition crop (H W : nat) (img : image) (mask : bmask) : list A :=
    flat_map (fun r => flat_map (fun c => if mask r c then [img r c] else []) (seq 0 W)) (seq 0 H).
  Definition agree (H W : nat) (mask : bmask) (a b : image) : Prop :=
    forall r c, r < H -> c < W -> mask r c = true -> a r c = b r c.
  (* x[r0:r0+h, c0:c0+w] *)
  Definition shift {X} (r0 c0 : nat) (x : nat -> nat -> X) : nat -> nat -> X := fun r c => x (r0 + r) (c0 + c).

  Lemma flat_map_ext_in {X Y} (f g : X -> list Y) l :
    (forall x, In x l -> f x = g x) -> flat_map f l = flat_map g l.
  Proof.
    induction l as [|x l IH]; intros Hfg; cbn; [reflexivity|].
    rewrite (Hfg x (or_introl eq_refl)), IH; [reflexivity|]. intros y Hy. apply Hfg. right. exact Hy.
  Qed.

  Lemma crop_agree H W mask a b : agree H W mask a b -> crop H W a mask = crop H W b mask.
  Proof.
    intros Hag. unfold crop. apply flat_map_ext_in. intros r Hr. apply flat_map_ext_in. intros c Hc.
    apply in_seq in Hr. apply in_seq in Hc.
    destruct (mask r c) eqn:Em; [|reflexivity]. rewrite (Hag r c); [reflexivity|lia|lia|exact Em].
  Qed.

  Theorem crop_first_noninterference_lemma H W mask a b :
    agree H W mask a b -> G (crop H W a mask) = G (crop H W b mask).
  Proof. intros Hag. rewrite (crop_agree H W mask a b Hag). reflexivity. Qed.

  Lemma agree_shift H W mask a b r0 c0 h w :
    r0 + h <= H -> c0 + w <= W -> agree H W mask a b ->
    agree h w (shift r0 c0 mask) (shift r0 c0 a) (shift r0 c0 b).
  Proof. intros Hh Hw Hag r c Hr Hc Hm. unfold shift in *. apply Hag; [lia|lia|exact Hm]. Qed.

  Lemma agree_submask H W (m m' : bmask) a b :
    (forall r c, m' r c = true -> m r c = true) -> agree H W m a b -> agree H W m' a b.
  Proof. intros Hs Hag r c Hr Hc Hm. apply Hag; auto. Qed.

  (* get_adaptive_threshold: one call of the global method per block (r0, c0, h, w) *)
  Definition block := (nat * nat * nat * nat)%type.
  Definition block_threshold (img : image) (mask : bmask) (blk : block) : T :=
    let '(r0, c0, h, w) := blk in G (crop h w (shift r0 c0 img) (shift r0 c0 mask)).
  Definition in_bounds (H W : nat) (blk : block) : Prop :=
    let '(r0, c0, h, w) := blk in r0 + h <= H /\ c0 + w <= W.

  Theorem adaptive_noninterference_lemma H W mask a b (blocks : list block) :
    agree H W mask a b -> Forall (in_bounds H W) blocks ->
    map (block_threshold a mask) blocks = map (block_threshold b mask) blocks.
  Proof.
    intros Hag Hb. apply map_ext_in. intros [[[r0 c0] h] w] Hin.
    rewrite Forall_forall in Hb. specialize (Hb _ Hin). cbn in Hb. destruct Hb as [Hh Hw].
    cbn. apply (crop_first_noninterference_lemma h w). apply (agree_shift H W); assumption.
  Qed.

  (* get_per_object_threshold: for object i with extent blk, the mask is (labels[extent] == i) & mask[extent] *)
  Definition object_mask (labels : nat -> nat -> Z) (mask : bmask) (i : Z) : bmask :=
    fun r c => andb (mask r c) (Z.eqb (labels r c) i).
  Definition object_threshold (labels : nat -> nat -> Z) (img : image) (mask : bmask) (ob : Z * block) : T :=
    let '(i, (r0, c0, h, w)) := ob in
    G (crop h w (shift r0 c0 img) (object_mask (shift r0 c0 labels) (shift r0 c0 mask) i)).

  (* only the object's own (unmasked) pixels matter *)
  Theorem per_object_noninterference_lemma H W labels mask a b i blk :
    in_bounds H W blk -> agree H W (object_mask labels mask i) a b ->
    object_threshold labels a mask (i, blk) = object_threshold labels b mask (i, blk).
  Proof.
    destruct blk as [[[r0 c0] h] w]. intros [Hh Hw] Hag. cbn.
    apply (crop_first_noninterference_lemma h w).
    apply (agree_shift H W (object_mask labels mask i) a b r0 c0 h w Hh Hw Hag).
  Qed.

  (* hence the whole per-object pass cannot distinguish images agreeing on the mask *)
  Theorem per_object_loop_noninterference_lemma H W labels mask a b (objs : list (Z * block)) :
    agree H W mask a b -> Forall (fun ob => in_bounds H W (snd ob)) objs ->
    map (object_threshold labels a mask) objs = map (object_threshold labels b mask) objs.
  Proof.
    intros Hag Hb. apply map_ext_in. intros [i blk] Hin.
    rewrite Forall_forall in Hb. specialize (Hb _ Hin). cbn in Hb.
    apply (per_object_noninterference_lemma H W); [exact Hb|].
    apply (agree_submask H W mask); [|exact Hag].
    intros r c Hm. unfold object_mask in Hm. apply andb_true_iff in Hm. tauto.
  Qed.
End Crop.

(* the hypotheses are satisfiable on a non-trivial input: two 2x3 images that differ exactly on the two
   masked-out pixels, a block inside the image, an object *)
Definition ex_mask : nat -> nat -> bool := fun r c => negb (Nat.eqb c 1).
Definition ex_a : nat -> nat -> Z := fun r c => Z.of_nat (3 * r + c).
Definition ex_b : nat -> nat -> Z := fun r c => if Nat.eqb c 1 then 99%Z else Z.of_nat (3 * r + c).
Example ex_agree : agree Z 2 3 ex_mask ex_a ex_b /\ ex_a 0 1 <> ex_b 0 1 /\
  crop Z 2 3 ex_a ex_mask = [0; 2; 3; 5]%Z /\ in_bounds 2 3 (0, 1, 2, 2).
Proof.
  repeat split.
  - intros r c Hr Hc Hm. unfold ex_mask, ex_b, ex_a in *. destruct (Nat.eqb c 1); [discriminate|reflexivity].
  - cbv. discriminate.
  - cbv. lia.
  - cbv. lia.
Qed.
