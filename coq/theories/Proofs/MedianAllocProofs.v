(* C07 / finding F23 — the 32-bit allocation size of allocate_histograms: exact below
   stripe_length 1573248, wrapped (and far too small) from there on. *)
From Coq Require Import ZArith List Bool Lia ZifyBool.
From Centro Require Import Base.Sx Gen.MedianConstC07 Model.Median Model.MedianAlloc.
Import ListNotations.
Open Scope Z_scope.
Ltac Zify.zify_post_hook ::= Z.to_euclidean_division_equations.

(* the regenerated constants are the ones the statements below are about (fails at once otherwise) *)
Lemma gen_alloc_consts :
  gen_sz_histogram = 2720 /\ gen_sz_pixelcount = 10 /\ gen_sz_histograms = 824 /\ gen_memsize_bits = 32.
Proof. repeat split; reflexivity. Qed.

Definition alloc_threshold : Z := 1573248.

Lemma alloc_unfold columns radius : 0 <= columns -> 0 <= radius -> columns + 2 * radius + 1 < M32 ->
  alloc_stripe columns radius = columns + 2 * radius + 1 /\
  alloc_exact columns radius = (columns + 2 * radius + 1) * 2730 + 856 /\
  alloc_need_max columns radius = (columns + 2 * radius + 1) * 2730 + 855.
Proof.
  intros Hc Hr Hlt. unfold alloc_exact, alloc_need_max, alloc_stripe, gen_sz_histogram, gen_sz_pixelcount, gen_sz_histograms, M32 in *.
  rewrite Z.mod_small by lia. lia.
Qed.

(* below the threshold nothing wraps and the block covers every byte the kernel can touch *)
Theorem alloc_size_exact_below columns radius : 0 <= columns -> 0 <= radius ->
  columns + 2 * radius + 1 < alloc_threshold ->
  alloc_size_asis columns radius = alloc_exact columns radius /\
  alloc_wraps columns radius = false /\
  alloc_need_max columns radius <= alloc_size_asis columns radius.
Proof.
  intros Hc Hr Hlt. unfold alloc_threshold in Hlt.
  destruct (alloc_unfold columns radius Hc Hr ltac:(unfold M32; lia)) as (E1 & E2 & E3).
  assert (E : alloc_size_asis columns radius = alloc_exact columns radius).
  { unfold alloc_size_asis, gen_memsize_bits. rewrite E2. apply Z.mod_small. change (2 ^ 32) with 4294967296. lia. }
  split; [exact E|]. split; [unfold alloc_wraps; rewrite E; apply Z.ltb_irrefl|]. rewrite E, E2, E3. lia.
Qed.

(* the threshold is sharp: from stripe_length 1573248 on the size wraps and malloc gets at least
   4 GiB less than the layout extends to *)
Theorem alloc_size_short_above columns radius : 0 <= columns -> 0 <= radius ->
  alloc_threshold <= columns + 2 * radius + 1 < M32 ->
  alloc_wraps columns radius = true /\ alloc_size_asis columns radius + M32 <= alloc_exact columns radius.
Proof.
  intros Hc Hr Hge. unfold alloc_threshold in Hge.
  destruct (alloc_unfold columns radius Hc Hr ltac:(lia)) as (E1 & E2 & E3).
  unfold alloc_wraps, alloc_size_asis, gen_memsize_bits. rewrite E2. change (2 ^ 32) with 4294967296. unfold M32 in *.
  split; lia.
Qed.

(* the tester's call: 1 x 1573243, radius 2.  malloc is asked for 600 bytes; the very first
   update_current_location of the model (row -2, column -2) writes edge histogram slot
   leading_edge_colidx(-2) = 8, which ends more than 15 MB into the block. *)
Theorem alloc_size_wrap_refuted :
  exists columns radius, 1 <= columns /\ 2 <= radius /\
    let e := env_of_shape 1 columns radius 50 in
    let o := lead_ix e (- e_sweep e) in
    alloc_wraps columns radius = true /\ alloc_size_asis columns radius = 600 /\
    e_SL e = alloc_threshold /\ 0 <= o < e_SL e /\
    alloc_size_asis columns radius < gen_sz_histograms + e_SL e * gen_sz_pixelcount /\
    alloc_size_asis columns radius < slot_end columns radius o.
Proof.
  exists 1573243, 2. split; [lia|]. split; [lia|]. vm_compute. repeat split; congruence.
Qed.

Example alloc_size_exact_below_ex :
  alloc_size_asis 1573242 2 = 4294965166 /\ alloc_wraps 1573242 2 = false /\ alloc_size_asis 64 30 = 342106.
Proof. vm_compute. repeat split; reflexivity. Qed.
