(* C19 — _all_connected_components: the explicit stack never exceeds its n entries (a vertex is
   labelled in the iteration right after it is pushed, so the stack never holds a vertex twice), and
   no read of j / indexes / counts / label / v_idx leaves its array; every fuel, every graph
   satisfying kernel_pre_acc. *)
From Coq Require Import ZArith List Bool Lia ZifyBool.
From Centro Require Import Base.ArrC19 Model.GraphC19.
Import ListNotations.
Open Scope Z_scope.

Definition sel (a : list Z) (i : Z) : Z := match rd a i with Some v => v | None => 0 end.

Lemma rd_sel : forall a i, 0 <= i < zlen a -> rd a i = Some (sel a i).
Proof. intros a i Hi. unfold sel. destruct (rd_ok _ a i Hi) as [v E]. rewrite E. reflexivity. Qed.

Lemma sel_upd_same : forall a i v, 0 <= i < zlen a -> sel (upd a (Z.to_nat i) v) i = v.
Proof. intros. unfold sel. rewrite rd_upd_same; auto. Qed.

Lemma sel_upd_other : forall a i j v, 0 <= i -> 0 <= j -> i <> j -> sel (upd a (Z.to_nat i) v) j = sel a j.
Proof. intros. unfold sel. rewrite rd_upd_other; auto. Qed.

(* pigeonhole: a duplicate-free list of vertices below n has at most n entries *)
Lemma nodup_bound : forall (l : list Z) n, 0 <= n -> NoDup l -> Forall (fun v => 0 <= v < n) l -> zlen l <= n.
Proof.
  intros l n Hn0 Hnd Hr.
  assert (Hincl : incl (map Z.to_nat l) (seq 0 (Z.to_nat n))).
  { intros x Hx. apply in_map_iff in Hx. destruct Hx as [v [<- Hv]]. rewrite Forall_forall in Hr.
    apply Hr in Hv. apply in_seq. lia. }
  assert (Hnd' : NoDup (map Z.to_nat l)).
  { rewrite Forall_forall in Hr. clear Hincl. induction l as [|a t IH]; [constructor|].
    inversion Hnd; subst. cbn [map]. constructor.
    - intros Hin. apply in_map_iff in Hin. destruct Hin as [b [Eb Hb]].
      assert (0 <= a < n) by (apply Hr; left; reflexivity).
      assert (0 <= b < n) by (apply Hr; right; assumption).
      assert (a = b) by lia. subst. contradiction.
    - apply IH; auto. intros x Hx. apply Hr. right. assumption. }
  pose proof (NoDup_incl_length Hnd' Hincl) as L. rewrite map_length, seq_length in L.
  unfold zlen. lia.
Qed.

Section Graph.
Variables (n : Z) (jarr indexes counts : list Z).
Hypothesis Hpre : kernel_pre_acc n jarr indexes counts = true.

Lemma pre_n : 0 <= n. Proof. pose proof Hpre as Hp. unfold kernel_pre_acc in Hp. lia. Qed.
Lemma pre_li : zlen indexes = n. Proof. pose proof Hpre as Hp. unfold kernel_pre_acc in Hp. lia. Qed.
Lemma pre_lc : zlen counts = n. Proof. pose proof Hpre as Hp. unfold kernel_pre_acc in Hp. lia. Qed.
Lemma pre_j : forall v, In v jarr -> 0 <= v < n.
Proof.
  intros v Hv. pose proof Hpre as Hp. unfold kernel_pre_acc in Hp.
  apply andb_prop in Hp. destruct Hp as [H1 _]. apply andb_prop in H1. destruct H1 as [_ Hj].
  apply (forallb_In _ _ _ _ Hj) in Hv. apply inb_true in Hv. exact Hv.
Qed.
Lemma pre_seg : forall v, 0 <= v < n ->
  0 <= sel indexes v /\ 0 <= sel counts v /\ sel indexes v + sel counts v <= zlen jarr.
Proof.
  intros v Hv. pose proof Hpre as Hp. unfold kernel_pre_acc in Hp. apply andb_prop in Hp. destruct Hp as [_ Hs].
  assert (Hin : In v (zrange 0 n)) by (apply In_zrange; lia).
  apply (forallb_In _ _ _ _ Hs) in Hin.
  rewrite (rd_sel indexes v) in Hin by (rewrite pre_li; lia).
  rewrite (rd_sel counts v) in Hin by (rewrite pre_lc; lia). lia.
Qed.

(* facts about label / v_idx that hold between any two iterations, whatever the stack *)
Record GInv (lab vix : list Z) : Prop := mkG {
  g_ll : zlen lab = n;
  g_lv : zlen vix = n;
  g_e : forall v, 0 <= v < n -> sel vix v <> UNDEF -> sel lab v <> UNDEF;
  g_f : forall v, 0 <= v < n -> sel vix v = UNDEF \/ (0 <= sel vix v <= sel counts v) }.

Record Inv (s : cc) : Prop := mkI {
  i_g : GInv (label s) (vidx s);
  i_b : Forall (fun v => 0 <= v < n) (stk s);
  i_c : NoDup (stk s);
  i_d : forall v, In v (tl (stk s)) -> sel (label s) v <> UNDEF;
  i_cur : 0 <= cur s }.

Lemma cc_step_ok : forall s, Inv s -> exists s', cc_step n jarr indexes counts s = Some s' /\ Inv s'.
Proof.
  intros s I. destruct I as [[Hll Hlv He Hf] Hb Hc Hd Hcur]. unfold cc_step.
  destruct (stk s) as [|vv rest] eqn:ES.
  - exists s. split; [reflexivity|]. constructor; try constructor; auto; rewrite ?ES; auto.
  - assert (Rvv : 0 <= vv < n) by (inversion Hb; assumption).
    rewrite (rd_sel (vidx s) vv) by lia. cbn [bind].
    (* state after the optional initialisation of vv *)
    assert (S1 : exists s1,
      (if sel (vidx s) vv =? UNDEF
       then do l' <- wr (label s) vv (cur s); do v' <- wr (vidx s) vv 0; Some (mkcc l' v' (vv :: rest) (cur s))
       else Some s) = Some s1 /\ GInv (label s1) (vidx s1) /\ stk s1 = vv :: rest /\ cur s1 = cur s /\
      sel (label s1) vv <> UNDEF /\ 0 <= sel (vidx s1) vv <= sel counts vv /\
      (forall v, sel (label s) v <> UNDEF -> sel (label s1) v <> UNDEF)).
    { destruct (sel (vidx s) vv =? UNDEF) eqn:Eu.
      - destruct (wr_ok _ (label s) vv (cur s) ltac:(lia)) as [l' [El Ll]]. rewrite El. cbn [bind].
        destruct (wr_ok _ (vidx s) vv 0 ltac:(lia)) as [v' [Ev Lv]]. rewrite Ev. cbn [bind].
        apply wr_some in El. destruct El as (_ & -> & _). apply wr_some in Ev. destruct Ev as (_ & -> & _).
        eexists; split; [reflexivity|]. cbn [label vidx stk cur].
        assert (Lsame : sel (upd (label s) (Z.to_nat vv) (cur s)) vv = cur s) by (apply sel_upd_same; lia).
        assert (Vsame : sel (upd (vidx s) (Z.to_nat vv) 0) vv = 0) by (apply sel_upd_same; lia).
        assert (Lkeep : forall v, sel (label s) v <> UNDEF -> sel (upd (label s) (Z.to_nat vv) (cur s)) v <> UNDEF).
        { intros v Hv. destruct (Z.eq_dec v vv) as [->|Hne]; [rewrite Lsame; unfold UNDEF; lia|].
          destruct (Z_lt_le_dec v 0).
          - unfold sel, rd in *. rewrite zlen_upd. replace (inb v (zlen (label s))) with false in *
              by (symmetry; unfold inb; lia). exact Hv.
          - rewrite sel_upd_other; auto; lia. }
        pose proof (pre_seg vv Rvv) as Pseg.
        repeat split; auto.
        + rewrite zlen_upd; assumption.
        + rewrite zlen_upd; assumption.
        + intros v Hv Hne. destruct (Z.eq_dec v vv) as [->|Hd']; [rewrite Lsame; unfold UNDEF; lia|].
          rewrite sel_upd_other in Hne by lia. apply Lkeep. apply He; assumption.
        + intros v Hv. destruct (Z.eq_dec v vv) as [->|Hd']; [right; rewrite Vsame; lia|].
          rewrite sel_upd_other by lia. apply Hf; assumption.
        + rewrite Lsame. unfold UNDEF. lia.
        + rewrite Vsame. lia.
        + rewrite Vsame. lia.
      - exists s. split; [reflexivity|]. repeat split; auto.
        + apply He; [assumption|]. unfold UNDEF in *. lia.
        + destruct (Hf vv Rvv) as [A|A]; [unfold UNDEF in *; lia|lia].
        + destruct (Hf vv Rvv) as [A|A]; [unfold UNDEF in *; lia|lia]. }
    destruct S1 as [s1 (E1 & [Gll Glv Ge Gf] & Sk & Cu & Lvv & Vvv & Lkeep)]. rewrite E1. cbn [bind].
    rewrite (rd_sel (vidx s1) vv) by lia. cbn [bind].
    rewrite (rd_sel counts vv) by (rewrite pre_lc; lia). cbn [bind].
    pose proof (pre_seg vv Rvv) as (Pi & Pc & Ps).
    assert (AllLab : forall v, In v (stk s) -> sel (label s1) v <> UNDEF).
    { intros v Hv. rewrite ES in Hv. destruct Hv as [<-|Hv]; [assumption|]. apply Lkeep. apply Hd. cbn [tl]. exact Hv. }
    destruct (sel (vidx s1) vv <? sel counts vv) eqn:Elt.
    + rewrite (rd_sel indexes vv) by (rewrite pre_li; lia). cbn [bind].
      destruct (rd_ok _ jarr (sel indexes vv + sel (vidx s1) vv) ltac:(lia)) as [v1 Ev1]. rewrite Ev1. cbn [bind].
      apply rd_some in Ev1. destruct Ev1 as [_ Iv1]. apply pre_j in Iv1.
      destruct (wr_ok _ (vidx s1) vv (sel (vidx s1) vv + 1) ltac:(lia)) as [v2 [Ev2 Lv2]]. rewrite Ev2. cbn [bind].
      apply wr_some in Ev2. destruct Ev2 as (_ & -> & _).
      rewrite (rd_sel (label s1) v1) by lia. cbn [bind].
      assert (G2 : GInv (label s1) (upd (vidx s1) (Z.to_nat vv) (sel (vidx s1) vv + 1))).
      { constructor; auto.
        - rewrite zlen_upd; assumption.
        - intros v Hv Hne. destruct (Z.eq_dec v vv) as [->|Hd']; [assumption|].
          rewrite sel_upd_other in Hne by lia. apply Ge; assumption.
        - intros v Hv. destruct (Z.eq_dec v vv) as [->|Hd']; [right; rewrite sel_upd_same by lia; lia|].
          rewrite sel_upd_other by lia. apply Gf; assumption. }
      destruct (sel (label s1) v1 =? UNDEF) eqn:El1.
      * assert (Nin : ~ In v1 (stk s)) by (intros Hin; apply AllLab in Hin; lia).
        assert (Nd : NoDup (v1 :: stk s)) by (constructor; [assumption|rewrite ES; assumption]).
        assert (Fr : Forall (fun v => 0 <= v < n) (v1 :: stk s)) by (constructor; [assumption|rewrite ES; assumption]).
        pose proof (nodup_bound _ n pre_n Nd Fr) as Bd. unfold zlen in Bd. cbn [length] in Bd.
        rewrite Sk. replace (zlen (vv :: rest) <? n) with true by (rewrite <- ES; unfold zlen; lia).
        eexists; split; [reflexivity|]. constructor; cbn [label vidx stk cur]; rewrite <- ?ES; auto; try lia.
      * eexists; split; [reflexivity|]. constructor; cbn [label vidx stk cur]; auto; try lia.
        -- rewrite Sk. assumption.
        -- rewrite Sk. assumption.
        -- intros v Hv. rewrite Sk in Hv. apply AllLab. rewrite ES. right. exact Hv.
    + eexists; split; [reflexivity|]. constructor; cbn [label vidx stk cur]; try lia.
      * constructor; auto.
      * inversion Hb; assumption.
      * inversion Hc; assumption.
      * intros v Hv. apply AllLab. rewrite ES. right. destruct rest; [destruct Hv|]. right. exact Hv.
Qed.

Lemma cc_run_ok : forall fuel s, Inv s -> exists s', cc_run fuel n jarr indexes counts s = Some s' /\ Inv s'.
Proof.
  induction fuel as [|f IH]; intros s I; cbn [cc_run]; [eauto|].
  destruct (cc_step_ok s I) as [s' [E I']].
  destruct (stk s) eqn:ES; [eauto|]. rewrite E. cbn [bind]. apply IH. exact I'.
Qed.

Lemma cc_root_ok : forall fuel s v, GInv (label s) (vidx s) -> 0 <= cur s -> 0 <= v < n ->
  exists s', cc_root fuel n jarr indexes counts s v = Some s' /\ GInv (label s') (vidx s') /\ 0 <= cur s'.
Proof.
  intros fuel s v G Hcur Hv. unfold cc_root. rewrite (rd_sel (label s) v) by (rewrite (g_ll _ _ G); lia).
  cbn [bind]. destruct (sel (label s) v =? UNDEF); [|eauto].
  replace (0 <? n) with true by lia.
  destruct (cc_run_ok fuel (mkcc (label s) (vidx s) [v] (cur s))) as [s' [E I']].
  - constructor; cbn [label vidx stk cur tl].
    + exact G.
    + repeat constructor; lia.
    + constructor; [intros []|constructor].
    + intros x [].
    + exact Hcur.
  - rewrite E. cbn [bind]. eexists; split; [reflexivity|]. cbn [label vidx cur].
    split; [apply (i_g _ I')|]. pose proof (i_cur _ I'). lia.
Qed.

End Graph.

Lemma zlen_repeat' : forall A (x : A) k, zlen (repeat x k) = Z.of_nat k.
Proof. intros. unfold zlen. now rewrite repeat_length. Qed.

Lemma sel_repeat : forall x k i, 0 <= i < Z.of_nat k -> sel (repeat x k) i = x.
Proof.
  intros x k i Hi. unfold sel. destruct (rd_ok _ (repeat x k) i) as [v E]; [rewrite zlen_repeat'; lia|].
  rewrite E. apply rd_some in E. destruct E as [_ Hin]. apply repeat_spec in Hin. assumption.
Qed.

(* the whole kernel: every fuel (= any number of inner iterations per root) *)
Theorem acc_safe : forall fuel n jarr indexes counts,
  kernel_pre_acc n jarr indexes counts = true ->
  all_connected_components fuel n jarr indexes counts <> None.
Proof.
  intros fuel n jarr indexes counts Hp. unfold all_connected_components.
  pose proof (pre_n n jarr indexes counts Hp) as Hn.
  destruct (foldM_inv _ _ (fun s => GInv n counts (label s) (vidx s) /\ 0 <= cur s) (fun v => 0 <= v < n)
              (cc_root fuel n jarr indexes counts) (zrange 0 n)
              (mkcc (repeat UNDEF (Z.to_nat n)) (repeat UNDEF (Z.to_nat n)) [] 0)) as [r [E _]].
  - cbn [label vidx cur]. split; [|lia]. constructor.
    + rewrite zlen_repeat'. lia.
    + rewrite zlen_repeat'. lia.
    + intros v Hv Hne. rewrite sel_repeat in Hne by lia. congruence.
    + intros v Hv. left. apply sel_repeat. lia.
  - apply Forall_forall. intros v Hv. apply In_zrange in Hv. lia.
  - intros s v [G C] Hv. destruct (cc_root_ok n jarr indexes counts Hp fuel s v G C Hv) as [s' (E' & G' & C')].
    exists s'. auto.
  - rewrite E. discriminate.
Qed.

(* a path 0-1-2 plus the isolated vertex 3 (symmetric edge list sorted by i then j) *)
Example acc_pre_example :
  kernel_pre_acc 4 [1; 0; 2; 1] [0; 1; 3; 4] [1; 2; 1; 0] = true /\
  match all_connected_components 30 4 [1; 0; 2; 1] [0; 1; 3; 4] [1; 2; 1; 0] with
  | Some s => label s = [0; 0; 0; 1]
  | None => False
  end.
Proof. vm_compute. split; reflexivity. Qed.
