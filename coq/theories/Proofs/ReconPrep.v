(* C04 — the Python wrapper's set-up (padding, stride table, lexsort order, linked list,
   rank_order) establishes the loop invariant, for every accepted input with footprint
   dimensions >= 3: layer by layer. *)
From Coq Require Import ZArith List Bool Lia ZifyBool FMapPositive Permutation Sorted.
From Centro Require Import Base.Sx Base.ReconSort Model.VecC18 Model.RankC18 Spec.SpecC18 Proofs.RankC18Proofs.
From Centro Require Import Model.Recon Spec.ReconSpec Spec.ReconInv Proofs.ReconSound Proofs.ReconLoop.
Import ListNotations.
Open Scope Z_scope.

(* ------------------------------------------------------------------ layer 0: of_list *)
Lemma get_of_list_from l : forall s a i, 0 <= s ->
  get (of_list_from s l a) i =
  if (s <=? i) && (i <? s + zlen l) then Some (nth (Z.to_nat (i - s)) l 0) else get a i.
Proof.
  unfold zlen. induction l as [|v l IH]; intros s a i Hs; cbn [of_list_from length].
  - destruct ((s <=? i) && (i <? s + Z.of_nat 0)) eqn:E; [lia|reflexivity].
  - rewrite IH by lia.
    destruct ((s + 1 <=? i) && (i <? s + 1 + Z.of_nat (length l))) eqn:E1.
    + destruct ((s <=? i) && (i <? s + Z.of_nat (S (length l)))) eqn:E2; [|lia].
      replace (Z.to_nat (i - s)) with (S (Z.to_nat (i - (s + 1)))) by lia. reflexivity.
    + destruct (Z.eq_dec i s) as [->|Hn].
      * rewrite get_put_same by lia.
        destruct ((s <=? s) && (s <? s + Z.of_nat (S (length l)))) eqn:E2; [|lia].
        replace (s - s) with 0 by lia. reflexivity.
      * rewrite get_put_other by lia.
        destruct ((s <=? i) && (i <? s + Z.of_nat (S (length l)))) eqn:E2; [lia|reflexivity].
Qed.

Lemma get_empty i : get (PositiveMap.empty Z) i = None.
Proof. unfold get. destruct (i <? 0); [reflexivity|]. apply PositiveMap.gempty. Qed.

Lemma sel_of_list l i : 0 <= i < zlen l -> sel (of_list l) i = nth (Z.to_nat i) l 0.
Proof.
  intros Hi. unfold sel, of_list. rewrite get_of_list_from by lia.
  destruct ((0 <=? i) && (i <? 0 + zlen l)) eqn:E; [|lia]. f_equal. f_equal. lia.
Qed.

Lemma inrange_of_list l : inrange (of_list l) (zlen l).
Proof.
  intros i Hi. unfold of_list. rewrite get_of_list_from by lia.
  destruct ((0 <=? i) && (i <? 0 + zlen l)) eqn:E; [discriminate|lia].
Qed.

(* ------------------------------------------------------------------ layer 1: link_pairs *)
Lemma in_removelast_cons {A} (a : A) (l : list A) (x : A) : In x (removelast l) -> In x l.
Proof.
  induction l as [|b l IH]; cbn [removelast]; [tauto|]. destruct l as [|c l]; [cbn; tauto|].
  cbn [In]. intros [->|Hx]; [left; reflexivity|right; apply IH; exact Hx].
Qed.

Lemma link_pairs_spec l : forall pn, NoDup l -> (forall x, In x l -> 0 <= x) ->
  let r := link_pairs l pn in
  (forall x, ~ In x (tl l) -> sel (fst r) x = sel (fst pn) x) /\
  (forall x, In x (tl l) -> In (sel (fst r) x) l) /\
  (forall x, ~ In x (removelast l) -> sel (snd r) x = sel (snd pn) x) /\
  (forall x, In x (removelast l) -> In (sel (snd r) x) l) /\
  (forall m, inrange (fst pn) m -> inrange (fst r) m) /\
  (forall m, inrange (snd pn) m -> inrange (snd r) m).
Proof.
  induction l as [|a l IH]; intros pn ND Pos.
  - cbn. repeat split; try tauto.
  - destruct l as [|b t].
    + cbn. repeat split; try tauto.
    + cbn [link_pairs].
      assert (NDt : NoDup (b :: t)) by (inversion ND; assumption).
      assert (Hab : ~ In a (b :: t)) by (inversion ND; assumption).
      assert (Hbt : ~ In b t) by (inversion NDt; assumption).
      assert (Pa : 0 <= a) by (apply Pos; left; reflexivity).
      assert (Pb : 0 <= b) by (apply Pos; right; left; reflexivity).
      specialize (IH (put (fst pn) b a, put (snd pn) a b) NDt (fun x Hx => Pos x (or_intror Hx))).
      cbv zeta in IH. cbn [fst snd] in IH.
      set (r := link_pairs (b :: t) (put (fst pn) b a, put (snd pn) a b)) in *.
      destruct IH as (I1 & I2 & I3 & I4 & I5 & I6). cbv zeta. cbn [tl].
      split; [|split; [|split; [|split; [|split]]]].
      * intros x Hx. rewrite I1 by (cbn [tl]; intros K; apply Hx; right; exact K).
        rewrite sel_put by lia. destruct (x =? b) eqn:E; [|reflexivity].
        exfalso. apply Hx. left. lia.
      * intros x [<-|Hx].
        -- rewrite I1 by (cbn [tl]; exact Hbt). rewrite sel_put by lia.
           destruct (b =? b) eqn:E; [left; reflexivity|lia].
        -- right. apply I2. cbn [tl]. exact Hx.
      * intros x Hx. change (removelast (a :: b :: t)) with (a :: removelast (b :: t)) in Hx.
        rewrite I3 by (intros K; apply Hx; right; exact K).
        rewrite sel_put by lia. destruct (x =? a) eqn:E; [|reflexivity].
        exfalso. apply Hx. left. lia.
      * intros x Hx. change (removelast (a :: b :: t)) with (a :: removelast (b :: t)) in Hx.
        destruct Hx as [<-|Hx].
        -- rewrite I3 by (intros K; apply Hab; eapply in_removelast_cons; [exact a|exact K]).
           rewrite sel_put by lia. destruct (a =? a) eqn:E; [right; left; reflexivity|lia].
        -- right. apply I4. exact Hx.
      * intros m Hm. apply I5. apply inrange_put; [exact Hm|lia].
      * intros m Hm. apply I6. apply inrange_put; [exact Hm|lia].
Qed.

Lemma in_removelast_not_last (l : list Z) x d : In x l -> x <> last l d -> In x (removelast l).
Proof.
  intros Hx Hn. destruct l as [|a l]; [destruct Hx|].
  rewrite (app_removelast_last d (l := a :: l)) in Hx by discriminate.
  apply in_app_or in Hx. destruct Hx as [Hx|[<-|[]]]; [exact Hx|congruence].
Qed.

Lemma sel_repeat_m1 n i : 0 <= i < Z.of_nat n -> sel (of_list (repeat (-1) n)) i = -1.
Proof.
  intros Hi. rewrite sel_of_list by (unfold zlen; rewrite repeat_length; lia).
  rewrite nth_indep with (d' := -1) by (rewrite repeat_length; lia). apply nth_repeat.
Qed.

(* ------------------------------------------------------------------ layer 2: the lexsort order *)
Definition dleb (x y : Z * Z) : Prop := is_true (DescOrder.leb x y).

Lemma dleb_trans : Relations_1.Transitive dleb.
Proof.
  intros [a i] [b j] [c k]. unfold dleb, is_true, DescOrder.leb; cbn [fst snd].
  destruct (b <? a) eqn:E1; destruct (a <? b) eqn:E2; destruct (c <? b) eqn:E3; destruct (b <? c) eqn:E4;
  destruct (c <? a) eqn:E5; destruct (a <? c) eqn:E6; intros; try reflexivity; try discriminate; lia.
Qed.

Lemma ss_last_rel {A} (R : A -> A -> Prop) l d : StronglySorted R l ->
  forall x, In x l -> x = last l d \/ R x (last l d).
Proof.
  induction 1 as [|a l SS IH Hall]; intros x Hx; [destruct Hx|].
  destruct l as [|b t].
  - cbn in *. destruct Hx as [<-|[]]. left; reflexivity.
  - change (last (a :: b :: t) d) with (last (b :: t) d).
    destruct Hx as [<-|Hx]; [|apply IH; exact Hx].
    right. rewrite Forall_forall in Hall. apply Hall.
    destruct (exists_last (l := b :: t) ltac:(discriminate)) as (l' & z & E). rewrite E.
    rewrite last_last. apply in_or_app. right. left. reflexivity.
Qed.

Lemma combine_zseq_in (values : list Z) : forall s v i, In (v, i) (combine values (zseq s (length values))) ->
  s <= i < s + zlen values /\ v = nth (Z.to_nat (i - s)) values 0.
Proof.
  unfold zlen. induction values as [|a values IH]; intros s v i Hin; cbn [length zseq combine] in Hin; [destruct Hin|].
  destruct Hin as [E|Hin].
  - inversion E; subst. cbn [length]. split; [lia|]. replace (i - i) with 0 by lia. reflexivity.
  - destruct (IH (s + 1) v i Hin) as [R N]. cbn [length]. split; [lia|].
    replace (Z.to_nat (i - s)) with (S (Z.to_nat (i - (s + 1)))) by lia. exact N.
Qed.

Lemma map_snd_combine_zseq (values : list Z) : forall s,
  map snd (combine values (zseq s (length values))) = zseq s (length values).
Proof.
  induction values as [|a values IH]; intros s; cbn [length zseq combine map snd]; [reflexivity|].
  rewrite IH. reflexivity.
Qed.

Lemma in_combine_zseq (values : list Z) : forall s i, s <= i < s + zlen values ->
  In (nth (Z.to_nat (i - s)) values 0, i) (combine values (zseq s (length values))).
Proof.
  unfold zlen. induction values as [|a values IH]; intros s i Hi; cbn [length] in *; [lia|].
  cbn [zseq combine]. destruct (Z.eq_dec i s) as [->|Hn].
  - left. replace (s - s) with 0 by lia. reflexivity.
  - right. replace (Z.to_nat (i - s)) with (S (Z.to_nat (i - (s + 1)))) by lia. apply IH. lia.
Qed.

Lemma nodup_zseq n : forall s, NoDup (zseq s n).
Proof.
  induction n as [|n IH]; intros s; cbn [zseq]; constructor; [|apply IH].
  intros Hin. apply in_zseq in Hin. lia.
Qed.

Section Order.
Variable values : list Z.
Let n := zlen values.
Let val (i : Z) := nth (Z.to_nat i) values 0.
Let sp := DescSort.sort (combine values (zrange n)).
Let order := map snd sp.

Lemma sp_perm : Permutation (combine values (zrange n)) sp.
Proof. apply DescSort.Permuted_sort. Qed.

Lemma sp_sorted : StronglySorted dleb sp.
Proof. apply DescSort.StronglySorted_sort. exact dleb_trans. Qed.

Lemma zrange_n : zrange n = zseq 0 (length values).
Proof. unfold zrange, n, zlen. rewrite Nat2Z.id. reflexivity. Qed.

Lemma sp_in v i : In (v, i) sp -> 0 <= i < n /\ v = val i.
Proof.
  intros Hin. apply (Permutation_in _ (Permutation_sym sp_perm)) in Hin. rewrite zrange_n in Hin.
  apply combine_zseq_in in Hin. unfold val, n. replace (i - 0) with i in Hin by lia. lia.
Qed.

Lemma sp_has i : 0 <= i < n -> In (val i, i) sp.
Proof.
  intros Hi. apply (Permutation_in _ sp_perm). rewrite zrange_n.
  assert (Q := in_combine_zseq values 0 i ltac:(unfold n in Hi; lia)). replace (i - 0) with i in Q by lia. exact Q.
Qed.

Lemma order_perm : Permutation (zrange n) order.
Proof.
  assert (E : map snd (combine values (zrange n)) = zrange n)
    by (rewrite zrange_n; apply map_snd_combine_zseq).
  apply (Permutation_trans (l' := map snd (combine values (zrange n)))).
  - rewrite E. apply Permutation_refl.
  - apply Permutation_map. exact sp_perm.
Qed.

Lemma order_nodup : NoDup order.
Proof. apply (Permutation_NoDup order_perm). apply nodup_zseq. Qed.

Lemma order_in x : In x order <-> 0 <= x < n.
Proof.
  split; intros Hx.
  - apply (Permutation_in _ (Permutation_sym order_perm)) in Hx. apply in_zrange in Hx. exact Hx.
  - apply (Permutation_in _ order_perm). apply in_zrange. exact Hx.
Qed.

(* the head of the order carries a maximal value *)
Lemma order_head_max h rest : order = h :: rest -> forall j, 0 <= j < n -> val j <= val h.
Proof.
  unfold order. intros E j Hj. destruct sp as [|[v h'] sp'] eqn:Esp; [discriminate|].
  cbn [map snd] in E. inversion E; subst h' rest.
  assert (SS := sp_sorted). rewrite Esp in SS. inversion SS as [|? ? _ Hall]; subst.
  assert (Hh : In (v, h) sp) by (rewrite Esp; left; reflexivity).
  destruct (sp_in v h Hh) as [_ ->].
  assert (Hin := sp_has j Hj). rewrite Esp in Hin. destruct Hin as [E1|Hin].
  - inversion E1. lia.
  - rewrite Forall_forall in Hall. specialize (Hall _ Hin).
    unfold dleb, is_true, DescOrder.leb in Hall; cbn [fst snd] in Hall.
    destruct (val j <? val h) eqn:A; [lia|]. destruct (val h <? val j) eqn:B; [discriminate|lia].
Qed.

(* if the last cell carries a minimal value it is the last of the order *)
Lemma order_last : 1 <= n -> (forall j, 0 <= j < n -> val (n - 1) <= val j) -> last order (-1) = n - 1.
Proof.
  intros Hn Hmin. unfold order.
  assert (Hin := sp_has (n - 1) ltac:(lia)).
  destruct (ss_last_rel dleb sp (0, -1) sp_sorted _ Hin) as [E|R].
  - destruct sp as [|p sp'] eqn:Esp; [destruct Hin|].
    rewrite <- Esp in *. 
    assert (L : last (map snd sp) (-1) = snd (last sp (0, -1))).
    { clear. induction sp as [|a l IH]; [reflexivity|]. destruct l as [|b t]; [reflexivity|].
      change (last (map snd (a :: b :: t)) (-1)) with (last (map snd (b :: t)) (-1)).
      change (last (a :: b :: t) (0, -1)) with (last (b :: t) (0, -1)). exact IH. }
    rewrite L, <- E. reflexivity.
  - assert (L : last (map snd sp) (-1) = snd (last sp (0, -1))).
    { clear. induction sp as [|a l IH]; [reflexivity|]. destruct l as [|b t]; [reflexivity|].
      change (last (map snd (a :: b :: t)) (-1)) with (last (map snd (b :: t)) (-1)).
      change (last (a :: b :: t) (0, -1)) with (last (b :: t) (0, -1)). exact IH. }
    rewrite L.
    assert (Hl : In (last sp (0, -1)) sp).
    { destruct sp as [|p sp'] eqn:Esp; [destruct Hin|]. rewrite <- Esp.
      destruct (exists_last (l := sp) ltac:(rewrite Esp; discriminate)) as (l' & z & Ez). rewrite Ez.
      rewrite last_last. apply in_or_app. right. left. reflexivity. }
    destruct (last sp (0, -1)) as [w j] eqn:El. destruct (sp_in w j Hl) as [Hj ->]. cbn [snd].
    unfold dleb, is_true, DescOrder.leb in R; cbn [fst snd] in R. specialize (Hmin j Hj).
    destruct (val j <? val (n - 1)) eqn:A; [lia|]. destruct (val (n - 1) <? val j) eqn:B; [discriminate|lia].
Qed.
End Order.

(* ------------------------------------------------------------------ layer 3: rank_order (C18) *)
Lemma ss_lt_nth (v : list Z) : StronglySorted Z.lt v ->
  forall a b, (a < b < length v)%nat -> nth a v 0 < nth b v 0.
Proof.
  induction 1 as [|x v SS IH Hall]; intros a b Hab; cbn [length] in Hab; [lia|].
  destruct b as [|b]; [lia|]. destruct a as [|a]; cbn [nth].
  - rewrite Forall_forall in Hall. apply Hall. apply nth_In. lia.
  - apply IH. lia.
Qed.

Section Rank.
Variable values : list Z.
Hypothesis NE : values <> [].
Let n := zlen values.
Let val (i : Z) := nth (Z.to_nat i) values 0.
Let r := fst (RankC18.rank_order values).
Let v := snd (RankC18.rank_order values).
Let rk (i : Z) := Z.of_nat (getn r (Z.to_nat i)).

Lemma rank_spec : rank_iso_spec values r v.
Proof. apply rank_order_iso; [exact NE|]. unfold r, v. destruct (RankC18.rank_order values); reflexivity. Qed.

Lemma rk_range i : 0 <= i < n -> 0 <= rk i < zlen v.
Proof.
  intros Hi. destruct rank_spec as (_ & _ & H3 & _). unfold n, zlen in Hi.
  destruct (H3 (Z.to_nat i) ltac:(lia)) as [Q _]. unfold rk, zlen. lia.
Qed.

Lemma rk_mono i j : 0 <= i < n -> 0 <= j < n -> val i <= val j -> rk i <= rk j.
Proof.
  intros Hi Hj Hv. destruct rank_spec as (_ & _ & _ & H4 & _). unfold n, zlen in Hi, Hj.
  assert (Q := H4 (Z.to_nat j) (Z.to_nat i) ltac:(lia) ltac:(lia)). unfold getz in Q. unfold val in Hv.
  unfold rk. destruct (Nat.lt_ge_cases (getn r (Z.to_nat j)) (getn r (Z.to_nat i))) as [L|L]; [|lia].
  apply Q in L. lia.
Qed.

Lemma rk_min_zero i : 0 <= i < n -> (forall j, 0 <= j < n -> val i <= val j) -> rk i = 0.
Proof.
  intros Hi Hmin. destruct rank_spec as (_ & SS & H3 & H4 & H5). unfold n, zlen in Hi.
  destruct (H3 (Z.to_nat i) ltac:(lia)) as [Q _].
  assert (Hv0 : In (nth 0 v 0) v) by (apply nth_In; lia).
  apply H5 in Hv0. destruct (In_nth _ _ 0 Hv0) as (j & Hj & Ej).
  destruct (H3 j Hj) as [Qj Ej2]. unfold getz in Ej2.
  assert (Rj : getn r j = 0%nat).
  { destruct (getn r j) as [|k] eqn:Ek; [reflexivity|].
    assert (L := ss_lt_nth v SS 0%nat (S k) ltac:(lia)). rewrite Ej2, Ej in L. lia. }
  assert (M := rk_mono i (Z.of_nat j) ltac:(unfold n, zlen; lia) ltac:(unfold n, zlen; lia)
                 (Hmin (Z.of_nat j) ltac:(unfold n, zlen; lia))).
  unfold rk in M. rewrite Nat2Z.id, Rj in M. unfold rk. lia.
Qed.

Lemma sel_ranks i : 0 <= i < n -> sel (of_list (map Z.of_nat r)) i = rk i.
Proof.
  intros Hi. destruct rank_spec as (HL & _). unfold n, zlen in Hi.
  rewrite sel_of_list by (unfold zlen; rewrite map_length; lia).
  unfold rk, getn. rewrite nth_indep with (d' := Z.of_nat 0%nat) by (rewrite map_length; lia).
  apply map_nth.
Qed.

Lemma ranks_len : zlen (map Z.of_nat r) = n.
Proof. destruct rank_spec as (HL & _). unfold zlen, n. rewrite map_length. unfold zlen. lia. Qed.
End Rank.

(* ------------------------------------------------------------------ layer 4: merge sort + link_pairs +
   rank_order establish Inv, for ANY flat value list with rank-0 padding and image <= mask *)
Definition vorder (values : list Z) : list Z :=
  map snd (DescSort.sort (combine values (zrange (zlen values)))).
Definition setup_state (values : list Z) : st :=
  let m1 := of_list (repeat (-1) (Z.to_nat (zlen values))) in
  let pn := link_pairs (vorder values) (m1, m1) in
  mkst (fst (rank_order values)) (fst pn) (snd pn) 0.

Theorem setup_inv g strides values mn :
  geom_ok g -> zlen values = 2 * gS g ->
  let val := fun i => nth (Z.to_nat i) values 0 in
  (forall i, 0 <= i < gS g -> interior_b g i = false -> val i = mn /\ val (i + gS g) = mn) ->
  (forall j, 0 <= j < 2 * gS g -> mn <= val j) ->
  (forall i, 0 <= i < gS g -> val i <= val (i + gS g)) ->
  let s := setup_state values in
  let K := zlen (snd (rank_order values)) in
  Inv g K strides (vals s) s /\ -1 <= hd (-1) (vorder values) < 2 * gS g /\
  inrange (of_list (snd (rank_order values))) K /\ drops s = 0.
Proof.
  intros G Hlen val Hpad Hmn Hle s K.
  destruct (last_not_interior g G) as [Hlast HS1].
  assert (NE : values <> []) by (intros ->; assert (zlen (@nil Z) = 0) by reflexivity; lia).
  set (n := 2 * gS g) in *. assert (Hn : n = 2 * gS g) by reflexivity.
  set (order := vorder values).
  assert (Oin : forall x, In x order <-> 0 <= x < n) by (intros x; unfold order, vorder; rewrite order_in; lia).
  assert (OND : NoDup order) by apply order_nodup.
  assert (Opos : forall x, In x order -> 0 <= x) by (intros x Hx; apply Oin in Hx; lia).
  set (m1 := of_list (repeat (-1) (Z.to_nat (zlen values)))).
  assert (Rm1 : inrange m1 n).
  { unfold m1. rewrite Hlen. fold n.
    assert (Q := inrange_of_list (repeat (-1) (Z.to_nat n))). unfold zlen in Q. rewrite repeat_length in Q.
    rewrite Z2Nat.id in Q by lia. exact Q. }
  assert (Sm1 : forall i, 0 <= i < n -> sel m1 i = -1) by (intros i Hi; unfold m1; apply sel_repeat_m1; lia).
  destruct (link_pairs_spec order (m1, m1) OND Opos) as (L1 & L2 & L3 & L4 & L5 & L6).
  cbv zeta in L1, L2, L3, L4, L5, L6. cbn [fst snd] in L1, L2, L3, L4, L5, L6.
  set (pn := link_pairs order (m1, m1)) in *.
  assert (Evals : vals s = of_list (map Z.of_nat (fst (RankC18.rank_order values)))) by reflexivity.
  assert (Eprv : prv s = fst pn) by reflexivity. assert (Enxt : nxt s = snd pn) by reflexivity.
  set (rk := fun i => Z.of_nat (getn (fst (RankC18.rank_order values)) (Z.to_nat i))).
  assert (Srk : forall i, 0 <= i < n -> sel (vals s) i = rk i)
    by (intros i Hi; rewrite Evals; apply sel_ranks; [exact NE|lia]).
  assert (Rrange : forall i, 0 <= i < n -> 0 <= rk i < K) by (intros i Hi; apply rk_range; [exact NE|lia]).
  assert (Rmono : forall i j, 0 <= i < n -> 0 <= j < n -> val i <= val j -> rk i <= rk j)
    by (intros i j Hi Hj; apply rk_mono; [exact NE|lia|lia]).
  assert (Rzero : forall i, 0 <= i < n -> val i = mn -> rk i = 0).
  { intros i Hi E. apply rk_min_zero; [exact NE|lia|]. intros j Hj. fold (val i). fold (val j).
    rewrite E. apply Hmn. lia. }
  (* head and last of the order *)
  destruct order as [|h rest] eqn:Eo; [exfalso; assert (Q := proj2 (Oin 0) ltac:(lia)); destruct Q|].
  assert (Hh : 0 <= h < n) by (apply Oin; left; reflexivity).
  assert (Hmax : forall j, 0 <= j < n -> val j <= val h).
  { intros j Hj. apply (order_head_max values h rest); [exact Eo|lia]. }
  assert (Hlst : last (h :: rest) (-1) = n - 1).
  { rewrite <- Eo. unfold order, vorder.
    rewrite (order_last values ltac:(lia)); [lia|].
    intros j Hj. rewrite Hlen. fold n.
    destruct (Hpad (gS g - 1) ltac:(lia) Hlast) as [_ E]. unfold val in E.
    replace (n - 1) with (gS g - 1 + gS g) by lia. rewrite E. apply Hmn. lia. }
  split; [|split; [cbn [hd]; lia|split; [apply inrange_of_list|reflexivity]]].
  constructor.
  - rewrite Evals. assert (Q := inrange_of_list (map Z.of_nat (fst (RankC18.rank_order values)))).
    rewrite (ranks_len values NE) in Q. rewrite Hlen in Q. exact Q.
  - rewrite Eprv. apply L5. exact Rm1.
  - rewrite Enxt. apply L6. exact Rm1.
  - intros i Hi. rewrite Eprv. destruct (in_dec Z.eq_dec i (tl (h :: rest))) as [Y|N].
    + apply L2 in Y. apply Oin in Y. lia.
    + rewrite (L1 i N), Sm1 by lia. lia.
  - intros i Hi. rewrite Enxt. destruct (in_dec Z.eq_dec i (removelast (h :: rest))) as [Y|N].
    + apply L4 in Y. apply Oin in Y. lia.
    + rewrite (L3 i N), Sm1 by lia. lia.
  - intros i Hi. rewrite Enxt.
    assert (Y : In i (removelast (h :: rest))).
    { apply in_removelast_not_last with (d := -1); [apply Oin; lia|rewrite Hlst; lia]. }
    apply L4 in Y. apply Oin in Y. lia.
  - intros x y Hx Hy. rewrite Eprv. intros Hm.
    assert (x = h).
    { destruct (in_dec Z.eq_dec x (tl (h :: rest))) as [Y|N].
      - apply L2 in Y. apply Oin in Y. lia.
      - assert (Q := proj2 (Oin x) Hx). destruct Q as [Q|Q]; [lia|]. cbn [tl] in N. contradiction. }
    subst x. rewrite !Srk by lia. apply Rmono; [lia|lia|]. apply Hmax. lia.
  - intros i Hi Hb. destruct (Hpad i Hi Hb) as [E1 E2]. rewrite !Srk by lia.
    split; apply Rzero; try lia; assumption.
  - intros i Hi. rewrite Srk by exact Hi. apply Rrange; exact Hi.
  - intros i Hi. rewrite !Srk by lia. split; [lia|]. apply Rmono; [lia|lia|]. apply Hle. exact Hi.
  - intros i Hi. reflexivity.
  - intros dec U _ [HU _] i Hi Hib. apply HU; assumption.
Qed.

(* ------------------------------------------------------------------ layer 5: the run of a set-up
   state that satisfies the invariant (Prop-level twin of run_prep_safe) *)
Theorem run_prep_safe_prop p :
  let g := prep_geom p in
  geom_ok g -> p_S p = gS g -> p_PW p = gPW g -> Forall (stride_ok g) (p_strides p) ->
  -1 <= p_cur p < 2 * gS g -> drops (p_st p) = 0 ->
  Inv g (p_K p) (p_strides p) (vals (p_st p)) (p_st p) -> inrange (p_vmap p) (p_K p) ->
  match run_prep p with
  | Ok (out, d) => d = 0 /\ zlen out = p_H p
  | OutOfFuel => True
  | Oob => False
  | Rejected => False
  end.
Proof.
  intros g G ES EPW Hst Hcur Hd I Rm. unfold run_prep.
  assert (L := loop_safe g (p_K p) (vals (p_st p)) (p_strides p) G Hst
                 (Datatypes.S (Z.to_nat (2 * p_S p))) (p_cur p) (p_st p) I Hcur).
  rewrite ES. rewrite ES in L.
  destruct (loop (Datatypes.S (Z.to_nat (2 * gS g))) (gS g) (p_strides p) (p_cur p) (p_st p)) as [s'| | |];
    cbn [bind]; try exact L.
  destruct L as [I' D'].
  destruct (finish_ok p s' (p_K p) (p_strides p) (vals (p_st p)) G EPW I' Rm) as (out & E & Len).
  rewrite E. cbn [bind]. split; [lia|]. exact Len.
Qed.

Lemma padded_plane_length H W p0 p1 fill g : 0 <= H + 2 * p0 -> 0 <= W + 2 * p1 ->
  zlen (padded_plane H W p0 p1 fill g) = (H + 2 * p0) * (W + 2 * p1).
Proof.
  intros HH HW. unfold padded_plane, zlen, zrange.
  set (f := fun r : Z => map _ (zseq 0 (Z.to_nat (W + 2 * p1)))).
  assert (Q : forall n s, Z.of_nat (length (flat_map f (zseq s n))) = Z.of_nat n * (W + 2 * p1)).
  { induction n as [|n IH]; intros s; cbn [zseq flat_map]; [reflexivity|].
    rewrite app_length, Nat2Z.inj_add, IH. unfold f at 1. rewrite map_length, length_zseq.
    rewrite Nat2Z.inj_succ, Z2Nat.id by lia. ring. }
  rewrite Q. rewrite Z2Nat.id by lia. reflexivity.
Qed.

(* the flat value list the wrapper builds *)
Definition prep_values (image mask : list (list Z)) (fp : list (list bool)) : list Z :=
  let H := zlen image in
  let W := width image in
  let p0 := zlen fp / 2 in
  let p1 := width fp / 2 in
  let mn := img_min image in
  padded_plane H W p0 p1 mn image ++ padded_plane H W p0 p1 mn mask.

(* Merge sort, link_pairs and rank_order establish the invariant and the whole model is memory
   safe and never drops a node, for every input whose padded value list has the three
   value-level properties (padding = minimum in both planes, image plane <= mask plane). *)
Theorem prepare_safe_from_values image mask fp offs :
  let p := prepare_offs image mask fp offs in
  let g := prep_geom p in
  let values := prep_values image mask fp in
  let val := fun i => nth (Z.to_nat i) values 0 in
  geom_ok g -> Forall (stride_ok g) (p_strides p) ->
  (forall i, 0 <= i < gS g -> interior_b g i = false ->
     val i = img_min image /\ val (i + gS g) = img_min image) ->
  (forall j, 0 <= j < 2 * gS g -> img_min image <= val j) ->
  (forall i, 0 <= i < gS g -> val i <= val (i + gS g)) ->
  match run_prep p with
  | Ok (out, d) => d = 0 /\ zlen out = zlen image
  | OutOfFuel => True
  | Oob => False
  | Rejected => False
  end.
Proof.
  intros p g values val G Hst Hpad Hmn Hle.
  assert (GG := G). destruct GG as (HH & HW & H0 & H1).
  assert (Hlen : zlen values = 2 * gS g).
  { assert (ZA : forall a b : list Z, zlen (a ++ b) = zlen a + zlen b)
      by (intros a b; unfold zlen; rewrite app_length; lia).
    unfold values, prep_values. rewrite ZA.
    unfold g, prep_geom, p, prepare_offs in HH, HW, H0, H1. cbn [p_H p_W p_p0 p_p1 gH gW gp0 gp1] in HH, HW, H0, H1.
    rewrite !padded_plane_length by lia. unfold g, gS, gPH, gPW, prep_geom, p, prepare_offs.
    cbn [p_H p_W p_p0 p_p1 gH gW gp0 gp1]. lia. }
  destruct (setup_inv g (p_strides p) values (img_min image) G Hlen Hpad Hmn Hle) as (I & Hc & Rm & Hd).
  assert (E2S : 2 * p_S p = zlen values) by (rewrite Hlen; reflexivity).
  assert (Est : p_st p = setup_state values).
  { unfold p, prepare_offs, setup_state, vorder. cbn [p_st]. fold values.
    change (2 * ((zlen image + 2 * (zlen fp / 2)) * (width image + 2 * (width fp / 2)))) with (2 * p_S p).
    rewrite E2S. reflexivity. }
  assert (Q := run_prep_safe_prop p G eq_refl eq_refl Hst).
  rewrite Est in Q. 
  assert (Ecur : p_cur p = hd (-1) (vorder values)).
  { unfold p, prepare_offs, vorder. cbn [p_cur]. fold values.
    change (2 * ((zlen image + 2 * (zlen fp / 2)) * (width image + 2 * (width fp / 2)))) with (2 * p_S p).
    rewrite E2S. reflexivity. }
  rewrite Ecur in Q. specialize (Q Hc Hd I Rm). exact Q.
Qed.

(* ------------------------------------------------------------------ layer 6: the padded planes *)
Lemma nth_flat_rows (f : Z -> Z -> Z) w : 0 < w -> forall h s k, 0 <= k < Z.of_nat h * w ->
  nth (Z.to_nat k) (flat_map (fun r => map (f r) (zrange w)) (zseq s h)) 0 = f (s + k / w) (k mod w).
Proof.
  intros Hw. induction h as [|h IH]; intros s k Hk; [lia|]. cbn [zseq flat_map].
  assert (Lrow : length (map (f s) (zrange w)) = Z.to_nat w)
    by (rewrite map_length; unfold zrange; apply length_zseq).
  destruct (Z_lt_ge_dec k w) as [Lt|Ge].
  - rewrite app_nth1 by lia. rewrite nth_map_zrange by lia.
    rewrite Z.div_small, Z.mod_small by lia. f_equal. lia.
  - rewrite app_nth2 by lia. rewrite Lrow.
    replace (Z.to_nat k - Z.to_nat w)%nat with (Z.to_nat (k - w)) by lia.
    rewrite IH by lia.
    assert (E1 : (k - w) / w = k / w - 1).
    { replace (k - w) with (k + (-1) * w) by lia. rewrite Z.div_add by lia. lia. }
    assert (E2 : (k - w) mod w = k mod w).
    { replace (k - w) with (k + (-1) * w) by lia. apply Z.mod_add. lia. }
    rewrite E1, E2. f_equal. lia.
Qed.

Lemma nth_padded_plane H W p0 p1 fill gimg i : 1 <= H -> 1 <= W -> 0 <= p0 -> 0 <= p1 ->
  let g := mkgeom H W p0 p1 in
  0 <= i < gS g ->
  nth (Z.to_nat i) (padded_plane H W p0 p1 fill gimg) 0 =
  if interior_b g i then img_get gimg (i / gPW g - p0) (i mod gPW g - p1) else fill.
Proof.
  intros HH HW H0 H1 g Hi. unfold padded_plane.
  unfold gS, gPH, gPW in Hi. cbn [gH gW gp0 gp1] in Hi.
  assert (Hk : 0 <= i < Z.of_nat (Z.to_nat (H + 2 * p0)) * (W + 2 * p1))
    by (rewrite Z2Nat.id by lia; exact Hi).
  unfold zrange at 2.
  rewrite (nth_flat_rows (fun r c => if (p0 <=? r) && (r <? p0 + H) && (p1 <=? c) && (c <? p1 + W)
                                     then img_get gimg (r - p0) (c - p1) else fill) (W + 2 * p1) ltac:(lia)
             (Z.to_nat (H + 2 * p0)) 0 i Hk).
  cbv beta. unfold g, interior_b, gPW. cbn [gH gW gp0 gp1]. replace (0 + i / (W + 2 * p1)) with (i / (W + 2 * p1)) by lia.
  set (q := i / (W + 2 * p1)). set (m := i mod (W + 2 * p1)).
  destruct ((p0 <=? q) && (q <? p0 + H) && (p1 <=? m) && (m <? p1 + W)) eqn:A;
  destruct ((0 <=? q - p0) && (q - p0 <? H) && (0 <=? m - p1) && (m - p1 <? W)) eqn:B; try reflexivity; lia.
Qed.

(* the premises of setup_inv / prepare_safe_from_values in finite (boolean) form, on the padded
   value list of a concrete instance: they are satisfiable on a non-trivial input *)
Definition values_facts_b (g : geom) (values : list Z) (mn : Z) : bool :=
  let val := fun i => nth (Z.to_nat i) values 0 in
  (zlen values =? 2 * gS g) &&
  forallb (fun i => (interior_b g i || ((val i =? mn) && (val (i + gS g) =? mn))) &&
                    (val i <=? val (i + gS g))) (zrange (gS g)) &&
  forallb (fun j => mn <=? val j) (zrange (2 * gS g)).
Example values_facts_example :
  values_facts_b (prep_geom (prepare ex_seed ex_mask ex_fp)) (prep_values ex_seed ex_mask ex_fp) (img_min ex_seed) = true.
Proof. vm_compute. reflexivity. Qed.

(* ------------------------------------------------------------------ layer 7: the value-level facts
   of the padded list, for every accepted input *)
Lemma fold_min_le l : forall x, fold_left Z.min l x <= x /\ forall y, In y l -> fold_left Z.min l x <= y.
Proof.
  induction l as [|a l IH]; intros x; cbn [fold_left In]; [split; [lia|tauto]|].
  destruct (IH (Z.min x a)) as [A B]. split; [lia|]. intros y [<-|Hy]; [lia|apply B; exact Hy].
Qed.

Lemma img_min_le (g : list (list Z)) y : In y (concat g) -> img_min g <= y.
Proof.
  unfold img_min. destruct (concat g) as [|x l]; [intros []|]. destruct (fold_min_le l x) as [A B].
  intros [<-|Hy]; [exact A|apply B; exact Hy].
Qed.

Lemma rect_row {A} (g : list (list A)) w r : rect g w = true -> 0 <= r < zlen g ->
  zlen (nth (Z.to_nat r) g []) = w.
Proof.
  unfold rect. rewrite forallb_forall. intros HR Hr. unfold zlen in Hr.
  specialize (HR (nth (Z.to_nat r) g []) ltac:(apply nth_In; lia)). lia.
Qed.

Lemma img_get_in (g : list (list Z)) w r c : rect g w = true -> 0 <= r < zlen g -> 0 <= c < w ->
  In (img_get g r c) (concat g).
Proof.
  intros HR Hr Hc. assert (L := rect_row g w r HR Hr). unfold zlen in L, Hr.
  unfold img_get. destruct ((r <? 0) || (c <? 0)) eqn:E; [lia|].
  apply in_concat. exists (nth (Z.to_nat r) g []). split; apply nth_In; lia.
Qed.

Lemma all_le_get a b w r c : all_le a b = true -> zlen b = zlen a -> rect a w = true -> rect b w = true ->
  0 <= r < zlen a -> 0 <= c < w -> img_get a r c <= img_get b r c.
Proof.
  intros HA HL Ra Rb Hr Hc. unfold all_le in HA. rewrite forallb_forall in HA.
  assert (La := rect_row a w r Ra Hr). assert (Lb := rect_row b w r Rb ltac:(lia)).
  unfold zlen in *.
  specialize (HA (nth (Z.to_nat r) a [], nth (Z.to_nat r) b [])).
  assert (Hin : In (nth (Z.to_nat r) a [], nth (Z.to_nat r) b []) (combine a b)).
  { rewrite <- combine_nth by lia. apply nth_In. rewrite combine_length. lia. }
  specialize (HA Hin). cbn [fst snd] in HA. rewrite forallb_forall in HA.
  set (ra := nth (Z.to_nat r) a []) in *. set (rb := nth (Z.to_nat r) b []) in *.
  specialize (HA (nth (Z.to_nat c) ra 0, nth (Z.to_nat c) rb 0)).
  assert (Hin2 : In (nth (Z.to_nat c) ra 0, nth (Z.to_nat c) rb 0) (combine ra rb)).
  { rewrite <- combine_nth by lia. apply nth_In. rewrite combine_length. lia. }
  specialize (HA Hin2). cbn [fst snd] in HA.
  unfold img_get. destruct ((r <? 0) || (c <? 0)) eqn:E; [lia|]. fold ra rb. lia.
Qed.

Lemma interior_b_range g i : interior_b g i = true ->
  0 <= i / gPW g - gp0 g < gH g /\ 0 <= i mod gPW g - gp1 g < gW g.
Proof. unfold interior_b. intros Hb. lia. Qed.

Theorem padded_values_facts image mask fp :
  accepted_common image mask fp = true -> 1 <= zlen fp / 2 -> 1 <= width fp / 2 ->
  let g := mkgeom (zlen image) (width image) (zlen fp / 2) (width fp / 2) in
  let values := prep_values image mask fp in
  let val := fun i => nth (Z.to_nat i) values 0 in
  geom_ok g /\
  (forall i, 0 <= i < gS g -> interior_b g i = false ->
     val i = img_min image /\ val (i + gS g) = img_min image) /\
  (forall j, 0 <= j < 2 * gS g -> img_min image <= val j) /\
  (forall i, 0 <= i < gS g -> val i <= val (i + gS g)).
Proof.
  intros Hacc P0 P1 g values val. unfold accepted_common in Hacc. cbv zeta in Hacc.
  apply andb_prop in Hacc; destruct Hacc as [Hacc Rf].
  apply andb_prop in Hacc; destruct Hacc as [Hacc Hle].
  apply andb_prop in Hacc; destruct Hacc as [Hacc Rm].
  apply andb_prop in Hacc; destruct Hacc as [Hacc Lm].
  apply andb_prop in Hacc; destruct Hacc as [Hacc Ri].
  apply andb_prop in Hacc; destruct Hacc as [HH HW].
  set (H := zlen image) in *. set (W := width image) in *.
  set (p0 := zlen fp / 2) in *. set (p1 := width fp / 2) in *. set (mn := img_min image).
  assert (G : geom_ok g) by (unfold geom_ok, g; cbn [gH gW gp0 gp1]; lia).
  set (A := padded_plane H W p0 p1 mn image). set (B := padded_plane H W p0 p1 mn mask).
  assert (LA : zlen A = gS g) by (unfold A; rewrite padded_plane_length by lia; reflexivity).
  assert (LB : zlen B = gS g) by (unfold B; rewrite padded_plane_length by lia; reflexivity).
  assert (V1 : forall i, 0 <= i < gS g -> val i = nth (Z.to_nat i) A 0).
  { intros i Hi. unfold val, values, prep_values. fold H W p0 p1 mn A B. apply app_nth1. unfold zlen in LA. lia. }
  assert (V2 : forall i, 0 <= i < gS g -> val (i + gS g) = nth (Z.to_nat i) B 0).
  { intros i Hi. unfold val, values, prep_values. fold H W p0 p1 mn A B. rewrite app_nth2 by (unfold zlen in LA; lia).
    f_equal. unfold zlen in LA. lia. }
  assert (NA : forall i, 0 <= i < gS g -> nth (Z.to_nat i) A 0 =
            if interior_b g i then img_get image (i / gPW g - p0) (i mod gPW g - p1) else mn)
    by (intros i Hi; apply nth_padded_plane; try lia; exact Hi).
  assert (NB : forall i, 0 <= i < gS g -> nth (Z.to_nat i) B 0 =
            if interior_b g i then img_get mask (i / gPW g - p0) (i mod gPW g - p1) else mn)
    by (intros i Hi; apply nth_padded_plane; try lia; exact Hi).
  assert (Int : forall i, interior_b g i = true ->
            0 <= i / gPW g - p0 < H /\ 0 <= i mod gPW g - p1 < W)
    by (intros i Hb; exact (interior_b_range g i Hb)).
  assert (Cell : forall i, 0 <= i < gS g -> interior_b g i = true ->
            mn <= nth (Z.to_nat i) A 0 /\ nth (Z.to_nat i) A 0 <= nth (Z.to_nat i) B 0).
  { intros i Hi Hb. rewrite (NA i Hi), (NB i Hi), Hb. destruct (Int i Hb) as [Hr Hc]. split.
    - apply img_min_le. apply (img_get_in image W); [exact Ri|exact Hr|exact Hc].
    - apply (all_le_get image mask W); try assumption; lia. }
  split; [exact G|]. split; [|split].
  - intros i Hi Hb. rewrite (V1 i Hi), (V2 i Hi), (NA i Hi), (NB i Hi), Hb. split; reflexivity.
  - intros j Hj. destruct (Z_lt_ge_dec j (gS g)) as [Lt|Ge].
    + rewrite (V1 j ltac:(lia)). destruct (interior_b g j) eqn:Hb.
      * apply Cell; [lia|exact Hb].
      * rewrite (NA j ltac:(lia)), Hb. lia.
    + replace j with (j - gS g + gS g) by lia. rewrite (V2 (j - gS g) ltac:(lia)).
      destruct (interior_b g (j - gS g)) eqn:Hb.
      * destruct (Cell (j - gS g) ltac:(lia) Hb). lia.
      * rewrite (NB (j - gS g) ltac:(lia)), Hb. lia.
  - intros i Hi. rewrite (V1 i Hi), (V2 i Hi). destruct (interior_b g i) eqn:Hb.
    + apply Cell; assumption.
    + rewrite (NA i Hi), (NB i Hi), Hb. lia.
Qed.

(* ------------------------------------------------------------------ layer 8: unconditional safety *)
Theorem model_safe_full image mask fp :
  accepted image mask fp = true -> 3 <= zlen fp -> 3 <= width fp ->
  match grey_reconstruction image mask fp with
  | Ok (out, d) => d = 0 /\ zlen out = zlen image
  | OutOfFuel => True
  | Oob => False
  | Rejected => False
  end.
Proof.
  intros Hacc F0 F1. unfold grey_reconstruction. rewrite Hacc. cbn [negb].
  unfold accepted in Hacc.
  apply andb_prop in Hacc; destruct Hacc as [Hacc O1].
  apply andb_prop in Hacc; destruct Hacc as [Hc O0].
  assert (P0 : 1 <= zlen fp / 2) by (apply Z.div_le_lower_bound; lia).
  assert (P1 : 1 <= width fp / 2) by (apply Z.div_le_lower_bound; lia).
  destruct (padded_values_facts image mask fp Hc P0 P1) as (G & Hpad & Hmn & Hle).
  exact (prepare_safe_from_values image mask fp (fp_offsets fp) G
           (prepare_strides_ok image mask fp O0 O1) Hpad Hmn Hle).
Qed.
