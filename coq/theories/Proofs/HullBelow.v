(* C02 — clause (c) for the lower pass (monotone-chain argument): after EMIT of a point to the
   right of the stack, every pixel that was on the inner side of all chain edges still is, and so
   are the pixels above the new point. *)
From Coq Require Import ZArith List Bool Lia ZifyBool Sorted.
From Centro Require Import Base.Sx Model.Hull Proofs.HullEmit.
Import ListNotations.
Open Scope Z_scope.

(* ---------------------------------------------------------------- four orientation lemmas *)
Lemma below_L1 a b p s : snd a < snd b -> snd b < snd p -> snd a < snd s -> snd s <= snd b ->
  cross a b p <= 0 -> 0 <= cross a b s -> 0 <= cross a p s.
Proof.
  destruct a as [ai aj], b as [bi bj], p as [pi pj], s as [si sj]. unfold cross. cbn [fst snd]. intros.
  assert (E : (bj - aj) * ((pj - aj) * (si - pi) - (sj - pj) * (pi - ai)) = (pj - aj) * ((bj - aj) * (si - bi) - (sj - bj) * (bi - ai)) + (sj - aj) * (- ((bj - aj) * (pi - bi) - (pj - bj) * (bi - ai)))) by ring.
  nia.
Qed.
Lemma below_L2 x y z p : snd x < snd y -> snd y < snd z -> snd z < snd p ->
  0 < cross x y z -> 0 < cross y z p -> 0 < cross x y p.
Proof.
  destruct x as [xi xj], y as [yi yj], z as [zi zj], p as [pi pj]. unfold cross. cbn [fst snd]. intros.
  assert (E : (zj - yj) * ((yj - xj) * (pi - yi) - (pj - yj) * (yi - xi)) = (pj - yj) * ((yj - xj) * (zi - yi) - (zj - yj) * (yi - xi)) + (yj - xj) * ((zj - yj) * (pi - zi) - (pj - zj) * (zi - yi))) by ring.
  nia.
Qed.
Lemma below_L3 a b p s : snd a < snd b -> snd b < snd p -> snd s <= snd b ->
  0 < cross a b p -> 0 <= cross a b s -> 0 <= cross b p s.
Proof.
  destruct a as [ai aj], b as [bi bj], p as [pi pj], s as [si sj]. unfold cross. cbn [fst snd]. intros.
  assert (E : (bj - aj) * ((pj - bj) * (si - pi) - (sj - pj) * (pi - bi)) = (pj - bj) * ((bj - aj) * (si - bi) - (sj - bj) * (bi - ai)) + (bj - sj) * ((bj - aj) * (pi - bi) - (pj - bj) * (bi - ai))) by ring.
  nia.
Qed.
Lemma below_L4 a b p s : snd a < snd b -> snd b < snd p -> snd b < snd s -> snd s <= snd p ->
  cross a b p <= 0 -> 0 <= cross b p s -> 0 <= cross a p s.
Proof.
  destruct a as [ai aj], b as [bi bj], p as [pi pj], s as [si sj]. unfold cross. cbn [fst snd]. intros.
  assert (E : (pj - bj) * ((pj - aj) * (si - pi) - (sj - pj) * (pi - ai)) = (pj - aj) * ((pj - bj) * (si - pi) - (sj - pj) * (pi - bi)) + (pj - sj) * (- ((bj - aj) * (pi - bi) - (pj - bj) * (bi - ai)))) by ring.
  nia.
Qed.

(* ---------------------------------------------------------------- stacks *)
(* top first; columns strictly decreasing towards the bottom *)
Definition jdesc (st : list pt) : Prop := StronglySorted (fun a b => snd b < snd a) st.
(* s on the inner side of (or on) every edge a -> b of the chain *)
Fixpoint edges_ok (st : list pt) (s : pt) : Prop :=
  match st with
  | b :: ((a :: _) as rest) => 0 <= cross a b s /\ edges_ok rest s
  | _ => True
  end.
Fixpoint edges_pos (st : list pt) (p : pt) : Prop :=
  match st with
  | b :: ((a :: _) as rest) => 0 < cross a b p /\ edges_pos rest p
  | _ => True
  end.
Definition bottom_ok (st : list pt) (s : pt) : Prop :=
  forall d, snd (last st d) <= snd s /\ (snd s = snd (last st d) -> fst (last st d) <= fst s).

Lemma jdesc_tail x st : jdesc (x :: st) -> jdesc st.
Proof. intros H. inversion H. assumption. Qed.
Lemma jdesc_head2 b a st : jdesc (b :: a :: st) -> snd a < snd b.
Proof. intros H. inversion H as [|? ? _ F]. inversion F. assumption. Qed.
Lemma edges_ok_tail x st s : edges_ok (x :: st) s -> edges_ok st s.
Proof. destruct st as [|a r]; cbn; tauto. Qed.

Lemma CONVEX_right a b p : snd b < snd p -> (CONVEX a b p = true <-> 0 < cross a b p).
Proof.
  intros H. unfold CONVEX. destruct (0 <? cross a b p) eqn:E1; [split; [lia | auto]|].
  destruct (cross a b p <? 0) eqn:E2; [split; [discriminate | lia]|].
  split; [|lia]. intros H2. apply andb_prop in H2. lia.
Qed.

Lemma prune_suffix st p : exists pre, st = pre ++ prune st p.
Proof.
  induction st as [|b rest IH]; [exists []; reflexivity|].
  destruct rest as [|a r]; [exists []; reflexivity|].
  cbn [prune]. destruct (CONVEX a b p); [exists []; reflexivity|].
  destruct IH as [pre E]. exists (b :: pre). cbn [app]. f_equal. exact E.
Qed.

Lemma edges_ok_suffix pre : forall st s, edges_ok (pre ++ st) s -> edges_ok st s.
Proof.
  induction pre as [|x pre IH]; intros st s H; [exact H|].
  apply IH. eapply edges_ok_tail. exact H.
Qed.
Lemma jdesc_suffix pre : forall st, jdesc (pre ++ st) -> jdesc st.
Proof. induction pre as [|x pre IH]; intros st H; [exact H|]. apply IH. eapply jdesc_tail. exact H. Qed.

Lemma prune_nonempty st p : st <> [] -> prune st p <> [].
Proof.
  induction st as [|b rest IH]; intros H; [contradiction|].
  destruct rest as [|a r]; [cbn; discriminate|]. cbn [prune].
  destruct (CONVEX a b p); [discriminate|]. apply IH. discriminate.
Qed.
Lemma prune_last st p d : last (prune st p) d = last st d.
Proof.
  induction st as [|b rest IH]; [reflexivity|].
  destruct rest as [|a r]; [reflexivity|].
  replace (prune (b :: a :: r) p) with (if CONVEX a b p then b :: a :: r else prune (a :: r) p) by reflexivity.
  destruct (CONVEX a b p); [reflexivity|]. rewrite IH. reflexivity.
Qed.

Lemma prune_hd_le st p : jdesc st -> snd (hd p (prune st p)) <= snd (hd p st).
Proof.
  induction st as [|b rest IH]; intros HJ; [cbn; lia|].
  destruct rest as [|a r]; [cbn; lia|].
  replace (prune (b :: a :: r) p) with (if CONVEX a b p then b :: a :: r else prune (a :: r) p) by reflexivity.
  destruct (CONVEX a b p); [cbn; lia|].
  specialize (IH (jdesc_tail _ _ HJ)). pose proof (jdesc_head2 _ _ _ HJ). cbn [hd] in IH |- *. lia.
Qed.

(* the new edge: every pixel left of p that respected the old chain is on its inner side *)
Lemma new_edge_ok p s : forall st, st <> [] -> jdesc st -> snd (hd p st) < snd p ->
  edges_ok st s -> bottom_ok st s -> snd s <= snd p ->
  (snd s <= snd (hd p st) \/ 0 <= cross (hd p st) p s) ->
  0 <= cross (hd p (prune st p)) p s.
Proof.
  induction st as [|b rest IH]; intros Hne HJ Hp HE HB Hsp Hor; [contradiction|].
  destruct rest as [|a r].
  - cbn [prune hd] in *. destruct Hor as [Hor|Hor]; [|exact Hor].
    destruct (HB p) as [B1 B2]. cbn [last] in B1, B2.
    assert (Es : snd s = snd b) by lia. specialize (B2 Es).
    destruct b as [bi bj], p as [pi pj], s as [si sj]. unfold cross. cbn [fst snd] in *. nia.
  - cbn [prune]. cbn [hd] in Hp, Hor. pose proof (jdesc_head2 _ _ _ HJ) as Hab.
    destruct HE as [HE1 HE2].
    destruct (CONVEX a b p) eqn:EC.
    + cbn [hd]. apply CONVEX_right in EC; [|exact Hp].
      destruct Hor as [Hor|Hor]; [|exact Hor]. eapply below_L3; eauto.
    + assert (Hle : cross a b p <= 0).
      { destruct (Z_lt_le_dec 0 (cross a b p)) as [G|G]; [|exact G].
        apply (CONVEX_right a b p Hp) in G. rewrite G in EC. discriminate. }
      apply IH.
      * discriminate.
      * eapply jdesc_tail; exact HJ.
      * cbn [hd]. lia.
      * exact HE2.
      * intros d. specialize (HB d). cbn [last] in HB |- *. exact HB.
      * exact Hsp.
      * cbn [hd]. destruct (Z_le_gt_dec (snd s) (snd a)) as [G|G]; [left; exact G|]. right.
        destruct (Z_le_gt_dec (snd s) (snd b)) as [G2|G2].
        -- eapply below_L1; eauto. lia.
        -- destruct Hor as [Hor|Hor]; [lia|]. eapply below_L4; eauto. lia.
Qed.

(* p lies strictly inside every edge of a strictly convex chain that it extends convexly *)
Fixpoint strict_ok (st : list pt) : Prop :=
  match st with
  | c :: ((b :: a :: _) as rest) => 0 < cross a b c /\ strict_ok rest
  | _ => True
  end.
Lemma strict_ok_tail x st : strict_ok (x :: st) -> strict_ok st.
Proof. destruct st as [|b [|a r]]; cbn; tauto. Qed.
Lemma strict_ok_head c b a r : strict_ok (c :: b :: a :: r) -> 0 < cross a b c.
Proof. cbn. tauto. Qed.
Lemma chain_strict st : jdesc st -> chain_ok st -> strict_ok st.
Proof.
  induction st as [|c rest IH]; intros HJ HC; [exact Logic.I|].
  destruct rest as [|b [|a r]]; try exact Logic.I.
  cbn [strict_ok]. cbn [chain_ok] in HC. destruct HC as [H1 H2]. split.
  - apply CONVEX_right; [|exact H1]. apply (jdesc_head2 c b _ HJ).
  - apply IH; [eapply jdesc_tail; exact HJ | exact H2].
Qed.
Lemma right_of_chain p : forall st, jdesc st -> strict_ok st -> snd (hd p st) < snd p ->
  (match st with b :: a :: _ => 0 < cross a b p | _ => True end) -> edges_pos st p.
Proof.
  induction st as [|b rest IH]; intros HJ HS Hp H0; [exact Logic.I|].
  destruct rest as [|a r]; [exact Logic.I|]. cbn [edges_pos]. split; [exact H0|].
  pose proof (jdesc_head2 _ _ _ HJ) as Hab. cbn [hd] in Hp.
  apply IH.
  - eapply jdesc_tail; exact HJ.
  - eapply strict_ok_tail; exact HS.
  - cbn [hd]. lia.
  - destruct r as [|a' r']; [exact Logic.I|]. apply strict_ok_head in HS.
    assert (Ha : snd a' < snd a) by (apply (jdesc_head2 a a' r'); eapply jdesc_tail; exact HJ).
    eapply (below_L2 a' a b p); eauto; try lia.
Qed.
Lemma edges_pos_above st p k : 0 <= k -> jdesc st -> edges_pos st p -> edges_ok st (fst p + k, snd p).
Proof.
  intros Hk. induction st as [|b rest IH]; intros HJ HP; [exact Logic.I|].
  destruct rest as [|a r]; [exact Logic.I|]. cbn [edges_pos] in HP. cbn [edges_ok]. destruct HP as [P1 P2].
  pose proof (jdesc_head2 _ _ _ HJ) as Hab. split.
  - destruct a as [ai aj], b as [bi bj], p as [pi pj]. unfold cross in *. cbn [fst snd] in *. nia.
  - apply IH; [eapply jdesc_tail; exact HJ | exact P2].
Qed.

(* ---------------------------------------------------------------- one EMIT of the lower pass *)
(* [p] lies to the right of the stack.  A pixel s that is not right of p, not left of/below the
   bottom vertex and on the inner side of every chain edge is on the inner side of every edge of
   the new chain; so is every pixel above p in p's column. *)
Theorem emit_below_step : forall st p s, st <> [] -> jdesc st -> chain_ok st -> snd (hd p st) < snd p ->
  (  (snd s <= snd (hd p st) /\ edges_ok st s /\ bottom_ok st s)
   \/ (snd s = snd p /\ fst p <= fst s)) ->
  edges_ok (p :: prune st p) s /\ jdesc (p :: prune st p) /\ chain_ok (p :: prune st p).
Proof.
  intros st p s Hne HJ HC Hp Hs.
  destruct (prune_suffix st p) as [pre Epre].
  assert (HJ' : jdesc (prune st p)) by (apply (jdesc_suffix pre); rewrite <- Epre; exact HJ).
  assert (Hne' : prune st p <> []) by (apply prune_nonempty; exact Hne).
  pose proof (prune_hd_le st p HJ) as Hhd.
  assert (HJn : jdesc (p :: prune st p)).
  { constructor; [exact HJ'|]. rewrite Forall_forall. intros x Hx.
    destruct (prune st p) as [|h tl] eqn:EPR; [contradiction|]. cbn [hd] in Hhd.
    destruct Hx as [Hx|Hx]; [subst; lia|].
    inversion HJ' as [|? ? _ F]. subst. rewrite Forall_forall in F. specialize (F x Hx). lia. }
  split; [|split; [exact HJn | apply prune_ok; exact HC]].
  destruct (prune st p) as [|t tl] eqn:EPR; [contradiction|]. cbn [hd] in Hhd.
  assert (Hnew_strict : match t :: tl with b :: a :: _ => 0 < cross a b p | _ => True end).
  { destruct tl as [|a tl']; [exact Logic.I|].
    pose proof (proj2 (prune_ok st p HC)) as HC2. rewrite EPR in HC2. cbn [chain_ok] in HC2.
    apply CONVEX_right; [lia | tauto]. }
  destruct Hs as [[Hs1 [Hs2 Hs3]]|[Hs1 Hs2]].
  - (* a pixel to the left *)
    assert (HE' : edges_ok (t :: tl) s) by (apply (edges_ok_suffix pre); rewrite <- Epre; exact Hs2).
    pose proof (new_edge_ok p s st Hne HJ Hp Hs2 Hs3 ltac:(lia) (or_introl Hs1)) as N.
    rewrite EPR in N. cbn [hd] in N. exact (conj N HE').
  - (* a pixel above p *)
    replace s with (fst p + (fst s - fst p), snd p) by (destruct s; cbn [fst snd] in *; f_equal; lia).
    assert (G1 : 0 <= cross t p (fst p + (fst s - fst p), snd p)).
    { destruct t as [ti tj], p as [pi pj]. unfold cross. cbn [fst snd] in *. nia. }
    assert (G2 : edges_ok (t :: tl) (fst p + (fst s - fst p), snd p)).
    { apply edges_pos_above; [lia | exact HJ' |].
      apply right_of_chain; [exact HJ' | | cbn [hd]; lia | exact Hnew_strict].
      apply chain_strict; [exact HJ'|]. pose proof (proj1 (prune_ok st p HC)) as X. rewrite EPR in X. exact X. }
    exact (conj G1 G2).
Qed.

Example emit_below_step_ex :
  let st := [(2,2);(0,1);(1,0)] in
  jdesc st /\ chain_ok st /\ prune st (0,3) = [(0,1);(1,0)] /\ edges_ok st (3,1) /\ bottom_ok st (3,1)
  /\ edges_ok ((0,3) :: prune st (0,3)) (3,1).
Proof.
  cbv zeta. split; [repeat constructor; cbn; lia|]. split; [vm_compute; auto|].
  split; [vm_compute; reflexivity|]. split; [vm_compute; split; [discriminate | split; [discriminate | exact Logic.I]]|].
  split; [intros d; vm_compute; split; [discriminate | intros H; discriminate]|].
  vm_compute. split; [discriminate | split; [discriminate | exact Logic.I]].
Qed.

(* ---------------------------------------------------------------- the whole lower pass *)
Lemma lower_mono pts : forall e,
  (forall k, fold_left lower_step pts e k <= e k) /\
  (forall q, In q pts -> fold_left lower_step pts e (snd q) <= fst q).
Proof.
  induction pts as [|p pts IH]; intros e; cbn [fold_left].
  - split; [intros; lia | intros q []].
  - destruct (IH (lower_step e p)) as [M1 M2].
    assert (S1 : forall k, lower_step e p k <= e k).
    { intros k. unfold lower_step. destruct (fst p <? e (snd p)) eqn:E; [|lia].
      unfold upd. destruct (k =? snd p) eqn:K; [|lia]. assert (k = snd p) by lia. subst. lia. }
    assert (S2 : lower_step e p (snd p) <= fst p).
    { unfold lower_step. destruct (fst p <? e (snd p)) eqn:E; [|lia].
      unfold upd. rewrite Z.eqb_refl. lia. }
    split.
    + intros k. specialize (M1 k). specialize (S1 k). lia.
    + intros q [Hq|Hq]; [subst q; specialize (M1 (snd p)); lia | auto].
Qed.
Lemma build_lower_le m pts q : In q pts -> build_lower m pts (snd q) <= fst q.
Proof. intros H. apply (proj2 (lower_mono pts (fun _ => m + 1))). exact H. Qed.

Lemma jdesc_last_le st d : st <> [] -> jdesc st -> snd (last st d) <= snd (hd d st).
Proof.
  induction st as [|x st IH]; intros Hne HJ; [contradiction|].
  destruct st as [|y st']; [cbn; lia|].
  specialize (IH ltac:(discriminate) (jdesc_tail _ _ HJ)). pose proof (jdesc_head2 _ _ _ HJ).
  change (last (x :: y :: st') d) with (last (y :: st') d). cbn [hd] in *. lia.
Qed.
Lemma last_cons_ne {A} (x : A) l d : l <> [] -> last (x :: l) d = last l d.
Proof. destruct l; [contradiction | reflexivity]. Qed.

Section LowerPass.
  Variables (m : Z) (pts : list pt) (sj : Z).
  Hypothesis Hleft : forall s, In s pts -> sj <= snd s.
  Hypothesis Hmax : forall s, In s pts -> fst s <= m.
  Let lower := build_lower m pts.

  Definition lp_inv (J : Z) (st : list pt) : Prop :=
    st <> [] /\ jdesc st /\ chain_ok st /\ (forall d, snd (hd d st) < J) /\
    forall s, In s pts -> snd s < J ->
      (forall d, snd s <= snd (hd d st)) /\ edges_ok st s /\ bottom_ok st s.

  Lemma lp_step J st : lp_inv J st -> lp_inv (J + 1) (lower_emit m lower st J).
  Proof.
    intros [Hne [HJ [HC [Hhd Hall]]]]. unfold lower_emit.
    destruct (lower J <? m + 1) eqn:E.
    - set (p := (lower J, J)).
      assert (Hp : snd (hd p st) < snd p) by (cbn [snd]; apply Hhd).
      assert (Hpr : prune st p <> []) by (apply prune_nonempty; exact Hne).
      assert (Step : forall s, (snd s <= snd (hd p st) /\ edges_ok st s /\ bottom_ok st s) \/ (snd s = snd p /\ fst p <= fst s) ->
                     edges_ok (p :: prune st p) s /\ jdesc (p :: prune st p) /\ chain_ok (p :: prune st p))
        by (intros s Hs; apply emit_below_step; auto).
      assert (Hbot : forall d, last (p :: prune st p) d = last st d).
      { intros d. rewrite last_cons_ne by exact Hpr. apply prune_last. }
      destruct (Step p (or_intror (conj eq_refl (Z.le_refl _)))) as [_ [J' C']].
      split; [discriminate|]. split; [exact J'|]. split; [exact C'|]. split; [intros d; cbn [hd]; unfold p; cbn [snd]; lia|].
      intros s Hs HsJ. split; [intros d; cbn [hd]; unfold p; cbn [snd]; lia|].
      destruct (Z_lt_le_dec (snd s) J) as [G|G].
      + destruct (Hall s Hs G) as [A1 [A2 A3]].
        split; [apply Step; left; auto|].
        intros d. rewrite Hbot. apply A3.
      + assert (Es : snd s = J) by lia.
        split.
        * apply Step. right. split; [exact Es|]. unfold p. cbn [fst]. unfold lower. rewrite <- Es. apply build_lower_le. exact Hs.
        * intros d. rewrite Hbot. pose proof (jdesc_last_le st d Hne HJ) as L. specialize (Hhd d). split; lia.
    - split; [exact Hne|]. split; [exact HJ|]. split; [exact HC|].
      split; [intros d; specialize (Hhd d); lia|].
      intros s Hs HsJ. apply Hall; [exact Hs|].
      destruct (Z_lt_le_dec (snd s) J) as [G|G]; [exact G|]. exfalso.
      assert (Es : snd s = J) by lia. pose proof (build_lower_le m pts s Hs) as L. rewrite Es in L.
      fold lower in L. specialize (Hmax s Hs). lia.
  Qed.

  Lemma lp_fold : forall n J st, lp_inv J st ->
    lp_inv (J + Z.of_nat n) (fold_left (lower_emit m lower) (map (fun k => J + Z.of_nat k) (seq 0 n)) st).
  Proof.
    induction n as [|n IH]; intros J st H.
    - cbn. replace (J + 0) with J by lia. exact H.
    - cbn [seq]. rewrite <- seq_shift. cbn [map fold_left]. rewrite map_map.
      replace (J + Z.of_nat 0) with J by lia.
      rewrite (map_ext (fun k => J + Z.of_nat (S k)) (fun k => (J + 1) + Z.of_nat k)) by (intros; lia).
      replace (J + Z.of_nat (S n)) with ((J + 1) + Z.of_nat n) by lia.
      apply IH. apply lp_step. exact H.
  Qed.

  Lemma lp_first p0 : In p0 pts -> snd p0 = sj -> lp_inv (sj + 1) (lower_emit m lower [] sj).
  Proof.
    intros Hp0 Ej. unfold lower_emit.
    pose proof (build_lower_le m pts p0 Hp0) as L. rewrite Ej in L. fold lower in L. pose proof (Hmax p0 Hp0).
    destruct (lower sj <? m + 1) eqn:E; [|lia]. cbn [prune].
    split; [discriminate|]. split; [repeat constructor|]. split; [exact Logic.I|].
    split; [intros d; cbn [hd snd]; lia|].
    intros s Hs HsJ. pose proof (Hleft s Hs). split; [intros d; cbn [hd snd]; lia|]. split; [exact Logic.I|].
    intros d. cbn [last snd fst]. split; [lia|]. intros Es.
    pose proof (build_lower_le m pts s Hs) as L2. rewrite Es in L2. exact L2.
  Qed.
End LowerPass.

(* (c) for the lower chain, all inputs: after the first EMIT loop every pixel of the label (in
   columns start_j..end_j) lies on the inner side of, or on, every edge of the chain *)
Theorem lower_pass_contains : forall m pts p0 e, In p0 pts ->
  (forall s, In s pts -> snd p0 <= snd s) -> (forall s, In s pts -> fst s <= m) -> snd p0 <= e ->
  let st1 := fold_left (lower_emit m (build_lower m pts)) (cols_up (snd p0) e) [] in
  jdesc st1 /\ chain_ok st1 /\ forall s, In s pts -> snd s <= e -> edges_ok st1 s.
Proof.
  intros m pts p0 e Hp0 Hleft Hmax He st1. unfold st1, cols_up.
  assert (En : Z.to_nat (e - snd p0 + 1) = S (Z.to_nat (e - snd p0))) by lia. rewrite En.
  cbn [seq]. rewrite <- seq_shift. cbn [map fold_left]. rewrite map_map.
  replace (snd p0 + Z.of_nat 0) with (snd p0) by lia.
  rewrite (map_ext (fun k => snd p0 + Z.of_nat (S k)) (fun k => (snd p0 + 1) + Z.of_nat k)) by (intros; lia).
  pose proof (lp_fold m pts Hmax (Z.to_nat (e - snd p0)) (snd p0 + 1) _
                (lp_first m pts (snd p0) Hleft Hmax p0 Hp0 eq_refl)) as [_ [HJ [HC [_ Hall]]]].
  split; [exact HJ|]. split; [exact HC|].
  intros s Hs Hse. apply Hall; [exact Hs | lia].
Qed.

Example lower_pass_contains_ex :
  let pts := [(0,0);(2,0);(1,1);(3,1);(0,2);(2,3)] in
  fold_left (lower_emit 3 (build_lower 3 pts)) (cols_up 0 3) [] = [(2,3);(0,2);(0,0)]
  /\ edges_ok [(2,3);(0,2);(0,0)] (3,1).
Proof. vm_compute. split; [reflexivity | split; [discriminate | split; [discriminate | exact Logic.I]]]. Qed.
