(* C01 — phase 4, the price update (_lapjv.pyx:442-445) and the new assignment: the mathematical core of the
   Jonker-Volgenant augmentation on the array model, finite prices.
   Given the Dijkstra facts [DistInv] about (d, pred, ready, umin, exit column j1) of one free row r:
     H1  ready columns have d <= umin;                H2  all other columns have d >= umin;
     H3  d[j] <= reduced cost of (r, j);              H4  d[j] <= d[jh] + rc(i, j) - rc(i, jh) for i = y[jh], jh in ready;
     H5  for j in ready or j = j1 the pred link is tight (equality in H3 / H4);   H6  d[j1] = umin, j1 not in ready;
   the updated prices v' = aug_prices d umin ready v together with ANY assignment (x', y') whose pairs are old pairs or
   pred pairs at ready columns / j1 satisfy Slack again: every assigned row sits on a listed column of minimal reduced cost. *)
From Coq Require Import ZArith List Bool Lia ZifyBool Arith.
From Centro Require Import Base.Sx Model.Lapjv Spec.Lapjv Proofs.LapjvPhases Proofs.LapjvArr Proofs.LapjvAugFlip.
Import ListNotations.
Open Scope Z_scope.

Section Price.
Variables (n : nat) (rows : list (list (nat * ext))).

Definition dz (d : list ext) (j : nat) : Z := match gete d j with Fin z => z | _ => 0 end.

(* ---------------------------------------------------------------- aug_prices *)

Lemma aug_prices_spec d mu : forall ready v,
  FinV n v -> NoDup ready -> (forall j, In j ready -> (j < n)%nat /\ exists z, gete d j = Fin z) ->
  FinV n (aug_prices d (Fin mu) ready v) /\
  (forall j, In j ready -> vz (aug_prices d (Fin mu) ready v) j = vz v j + dz d j - mu) /\
  (forall j, ~ In j ready -> vz (aug_prices d (Fin mu) ready v) j = vz v j).
Proof.
  induction ready as [|j rr IH]; intros v FV ND HR; cbn [aug_prices].
  - split; auto. split; [intros ? []|auto].
  - inversion ND as [|? ? Nin ND']; subst.
    destruct (HR j (or_introl eq_refl)) as [Hj [zd Hd]]. destruct (proj2 FV j Hj) as [zv Hv].
    set (v1 := upd v j (eadd (gete v j) (esub (gete d j) (Fin mu)))).
    assert (Hv1j : gete v1 j = Fin (zv + (zd + - mu))).
    { unfold v1. rewrite gete_upd, Nat.eqb_refl, (proj1 FV). replace (j <? n)%nat with true by (symmetry; apply Nat.ltb_lt; auto).
      cbn [andb]. rewrite Hv, Hd. reflexivity. }
    assert (Hv1o : forall k, k <> j -> gete v1 k = gete v k).
    { intros k Hk. unfold v1. rewrite gete_upd. destruct (Nat.eqb_spec k j); [contradiction|]. reflexivity. }
    assert (FV1 : FinV n v1).
    { split; [unfold v1; rewrite upd_length; apply FV|]. intros k Hk. destruct (Nat.eq_dec k j) as [->|NE]; [eauto|].
      rewrite Hv1o by auto. apply FV; auto. }
    destruct (IH v1 FV1 ND' (fun k H => HR k (or_intror H))) as [A [B C]].
    split; auto. split.
    + intros k [<-|Hk].
      * rewrite (C j Nin). rewrite (vz_fin _ _ _ Hv1j), (vz_fin _ _ _ Hv). unfold dz. rewrite Hd. lia.
      * rewrite (B k Hk). unfold vz. rewrite Hv1o; auto. intros E. subst. contradiction.
    + intros k Hk. rewrite C by (intros H; apply Hk; right; auto). unfold vz. rewrite Hv1o; auto.
      intros E. apply Hk. left. auto.
Qed.

(* ---------------------------------------------------------------- the Dijkstra facts *)

Variables (r : nat) (x y : list nat) (v : list ext) (d : list ext) (pred ready : list nat) (mu : Z) (j1 : nat).

Definition rcz (c : Z) (j : nat) : Z := c - vz v j.

Record DistInv : Prop := mkDist
  { h1 : forall j, In j ready -> dz d j <= mu;
    (* d may still be +inf on columns never reached (reference variant with a true infinity): the facts speak about finite d *)
    h2 : forall j, (j < n)%nat -> ~ In j ready -> (exists z, gete d j = Fin z) -> mu <= dz d j;
    h3 : forall j c, In (j, Fin c) (row rows r) -> (exists z, gete d j = Fin z) /\ dz d j <= rcz c j;
    (* a row popped last may be only partially scanned when the loop exits from inside its scan; then d[jh] = umin *)
    h4 : forall jh j c ch, In jh ready -> In (j, Fin c) (row rows (getn y jh n)) -> In (jh, Fin ch) (row rows (getn y jh n)) ->
           dz d jh = mu \/ ((exists z, gete d j = Fin z) /\ dz d j <= dz d jh + rcz c j - rcz ch jh);
    h5 : forall j, In j ready \/ j = j1 ->
           (getn pred j n = r /\ exists c, In (j, Fin c) (row rows r) /\ dz d j = rcz c j) \/
           (exists jh c ch, In jh ready /\ getn pred j n = getn y jh n /\
              In (j, Fin c) (row rows (getn y jh n)) /\ In (jh, Fin ch) (row rows (getn y jh n)) /\
              dz d j = dz d jh + rcz c j - rcz ch jh);
    h6 : dz d j1 = mu /\ ~ In j1 ready }.

Hypothesis Rfin : forall i j c, In (j, c) (row rows i) -> (j < n)%nat /\ exists z, c = Fin z.
Hypothesis Rnodup : forall i, NoDup (map fst (row rows i)).

Lemma row_cost_unique i j c1 c2 : In (j, c1) (row rows i) -> In (j, c2) (row rows i) -> c1 = c2.
Proof.
  intros H1 H2. pose proof (Rnodup i) as ND. induction (row rows i) as [|[a b] l IH]; [destruct H1|].
  cbn [map fst] in ND. inversion ND as [|? ? Nin ND']; subst.
  destruct H1 as [E1|H1], H2 as [E2|H2].
  - congruence.
  - inversion E1; subst. exfalso. apply Nin. apply (in_map fst) in H2. exact H2.
  - inversion E2; subst. exfalso. apply Nin. apply (in_map fst) in H1. exact H1.
  - auto.
Qed.

Theorem aug_price_slack x' y' :
  Inv n rows x y v -> (r < n)%nat -> DistInv ->
  NoDup ready -> (forall j, In j ready -> (j < n)%nat /\ (exists z, gete d j = Fin z) /\ getn y j n <> n) ->
  PIh n x' y' None -> length x' = n -> length y' = n ->
  (forall j i, (j < n)%nat -> getn y' j n = i -> i <> n ->
     getn y j n = i \/ (getn pred j n = i /\ (In j ready \/ j = j1))) ->
  Inv n rows x' y' (aug_prices d (Fin mu) ready v).
Proof.
  intros [Lx [Ly [FV SL]]] Hr [H1 H2 H3 H4 H5 [H6 H6']] ND HR PI' Lx' Ly' Src.
  destruct (aug_prices_spec d mu ready v FV ND (fun j H => conj (proj1 (HR j H)) (proj1 (proj2 (HR j H))))) as [FV' [Vr Vo]].
  set (v' := aug_prices d (Fin mu) ready v) in *.
  refine (conj Lx' (conj Ly' (conj FV' _))).
  (* new reduced costs *)
  assert (RC : forall j c, (In j ready -> c - vz v' j = rcz c j - dz d j + mu) /\ (~ In j ready -> c - vz v' j = rcz c j)).
  { intros j c. split; intros H; unfold rcz; [rewrite Vr by auto|rewrite Vo by auto]; lia. }
  assert (Up : forall j c, rcz c j <= c - vz v' j).
  { intros j c. destruct (in_dec Nat.eq_dec j ready) as [Hin|Hnin].
    - rewrite (proj1 (RC j c) Hin). specialize (H1 j Hin). lia.
    - rewrite (proj2 (RC j c) Hnin). lia. }
  (* a tree row i = y[jh] with base B = rc(i, jh) - d[jh] + mu is minimal everywhere *)
  assert (Tree : forall jh ch j' c', In jh ready -> In (jh, Fin ch) (row rows (getn y jh n)) ->
            In (j', Fin c') (row rows (getn y jh n)) -> rcz ch jh - dz d jh + mu <= c' - vz v' j').
  { intros jh ch j' c' Hjh Hch Hc'. destruct (Rfin _ _ _ Hc') as [Hj' _].
    destruct (H4 jh j' c' ch Hjh Hc' Hch) as [Emu|H4'].
    - (* partially scanned row: its column keeps its price, old Slack suffices *)
      destruct (HR jh Hjh) as [Hjhn [_ Ny]].
      destruct (SL jh _ Hjhn eq_refl Ny) as [_ [_ [c0 [Hc0 Hmin]]]].
      assert (c0 = ch) by (assert (Fin c0 = Fin ch) by (eapply row_cost_unique; eauto); congruence). subst c0.
      specialize (Hmin j' c' Hc'). pose proof (Up j' c'). unfold rcz in *. lia.
    - destruct H4' as [Fd' H4'']. destruct (in_dec Nat.eq_dec j' ready) as [Hin|Hnin].
      + rewrite (proj1 (RC j' c') Hin). lia.
      + rewrite (proj2 (RC j' c') Hnin). specialize (H2 j' Hj' Hnin Fd'). lia. }
  assert (Root : forall j' c', In (j', Fin c') (row rows r) -> mu <= c' - vz v' j').
  { intros j' c' Hc'. destruct (Rfin _ _ _ Hc') as [Hj' _]. destruct (H3 j' c' Hc') as [Fd' H3'].
    destruct (in_dec Nat.eq_dec j' ready) as [Hin|Hnin].
    - rewrite (proj1 (RC j' c') Hin). lia.
    - rewrite (proj2 (RC j' c') Hnin). specialize (H2 j' Hj' Hnin Fd'). lia. }
  intros j i Hj Ey Ne. destruct (PI' j i Hj ltac:(discriminate) Ey Ne) as [Hi Hx']. split; auto. split; auto.
  destruct (Src j i Hj Ey Ne) as [Old|[Pr Where]].
  - (* an old pair *)
    destruct (SL j i Hj Old Ne) as [_ [_ [c [Hc Hmin]]]]. exists c. split; auto. intros j' c' Hc'.
    destruct (in_dec Nat.eq_dec j ready) as [Hin|Hnin].
    + rewrite (proj1 (RC j c) Hin). rewrite <- Old in Hc, Hc'. apply (Tree j c j' c'); auto.
    + rewrite (proj2 (RC j c) Hnin). specialize (Hmin j' c' Hc'). pose proof (Up j' c'). unfold rcz in *. lia.
  - (* a pred pair *)
    destruct (H5 j Where) as [[Er [c [Hc Ed]]]|[jh [c [ch [Hjh [Ep [Hc [Hch Ed]]]]]]]].
    + assert (Ei : i = r) by congruence. rewrite Ei. exists c. split; [exact Hc|]. intros j' c' Hc'.
      assert (Base : c - vz v' j = mu).
      { destruct Where as [Hin | ->].
        - rewrite (proj1 (RC j c) Hin). lia.
        - rewrite (proj2 (RC j1 c) H6'). lia. }
      rewrite Base. apply Root; auto.
    + assert (Ei : i = getn y jh n) by congruence. rewrite Ei. exists c. split; [exact Hc|]. intros j' c' Hc'.
      assert (Base : c - vz v' j = rcz ch jh - dz d jh + mu).
      { destruct Where as [Hin | ->].
        - rewrite (proj1 (RC j c) Hin). lia.
        - rewrite (proj2 (RC j1 c) H6'). lia. }
      rewrite Base. apply (Tree jh ch j' c'); auto.
Qed.
End Price.
