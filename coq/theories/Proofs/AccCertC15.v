(* C15 — soundness of the certificate checker Spec.LabelGraph.acc_cert_ok: when it accepts, the
   labels are exactly the partition of 0..max into the connected components of the undirected
   edge list (no bound on the size of the graph). *)
From Coq Require Import ZArith NArith List Bool Lia.
From Centro Require Import Base.GraphC15 Model.LabelGraph Spec.LabelGraph Proofs.DfsC15 Proofs.AccC15.
Import ListNotations.
Open Scope N_scope.

Lemma uedge_sym es u v : uedge es u v -> uedge es v u.
Proof. unfold uedge. tauto. Qed.
Lemma uconn_trans es u v w : uconn es u v -> uconn es v w -> uconn es u w.
Proof. induction 1; auto. intros. econstructor; eauto. Qed.
Lemma uconn_sym es u v : uconn es u v -> uconn es v u.
Proof.
  induction 1; [constructor|]. eapply uconn_trans; [eassumption|].
  econstructor; [apply uedge_sym; eassumption|constructor].
Qed.

Theorem acc_cert_sound (i j labels par eidx dep rep : list N) :
  acc_cert_ok i j labels par eidx dep rep = true -> i <> [] ->
  let n := S (N.to_nat (list_maxN (i ++ j))) in
  length i = length j /\ length labels = n /\
  forall u w, (u < n)%nat -> (w < n)%nat ->
    (nth u labels 0 = nth w labels 0 <-> uconn (combine i j) (N.of_nat u) (N.of_nat w)).
Proof.
  intros OK NE n. unfold acc_cert_ok in OK. destruct i as [|i0 i']; [congruence|].
  set (i := i0 :: i') in *.
  set (lm := mof_list 0 labels mempty) in *. set (pm := mof_list 0 par mempty) in *.
  set (em := mof_list 0 eidx mempty) in *. set (dm := mof_list 0 dep mempty) in *.
  set (rm := mof_list 0 rep mempty) in *. set (im := mof_list 0 i mempty) in *.
  set (jm := mof_list 0 j mempty) in *.
  apply andb_true_iff in OK. destruct OK as [OK VS]. apply andb_true_iff in OK. destruct OK as [OK ES].
  apply andb_true_iff in OK. destruct OK as [LIJ LN].
  apply Nat.eqb_eq in LIJ. apply Nat.eqb_eq in LN. fold n in LN.
  rewrite forallb_forall in ES, VS.
  set (es := combine i j).
  set (lab := fun v => mgetd lm v).
  assert (LAB : forall v, lab (N.of_nat v) = nth v labels 0).
  { intros v. unfold lab, lm. rewrite mof_list_get. rewrite Nat2N.id. reflexivity. }
  assert (EDGE : forall a b, uedge es a b -> lab a = lab b).
  { intros a b [H|H]; specialize (ES _ H); cbn [fst snd] in ES; apply N.eqb_eq in ES; unfold lab; congruence. }
  assert (FWD : forall a b, uconn es a b -> lab a = lab b).
  { intros a b H. induction H as [|a b c E _ IH]; [reflexivity|]. rewrite (EDGE a b E). exact IH. }
  (* every vertex hangs below a root *)
  assert (ROOT : forall d v, v < N.of_nat (length labels) -> mgetd dm v < N.of_nat d ->
            exists r, r < N.of_nat (length labels) /\ mgetd pm r = r /\ uconn es v r).
  { induction d as [|d IH]; intros v Hv Hd; [lia|].
    assert (Hin : In v (nseq 0 (length labels))) by (apply nseq_in; lia).
    specialize (VS v Hin). cbv zeta in VS.
    destruct (N.eqb_spec (mgetd pm v) v) as [E|Ne].
    - exists v. split; [exact Hv|]. split; [exact E|constructor].
    - apply andb_true_iff in VS. destruct VS as [VS1 VS2]. apply andb_true_iff in VS1. destruct VS1 as [P1 P2].
      apply andb_true_iff in VS2. destruct VS2 as [K1 K2].
      apply N.ltb_lt in P1. apply N.ltb_lt in P2. apply N.ltb_lt in K1.
      set (p := mgetd pm v) in *. set (k := mgetd em v) in *.
      assert (UE : uedge es v p).
      { assert (IK : In (nth (N.to_nat k) i 0, nth (N.to_nat k) j 0) es).
        { unfold es. rewrite <- (combine_nth i j (N.to_nat k) 0 0 LIJ). apply nth_In. rewrite combine_length. lia. }
        unfold im, jm in K2. rewrite !mof_list_get in K2.
        apply orb_true_iff in K2. destruct K2 as [K2|K2]; apply andb_true_iff in K2; destruct K2 as [A B];
          apply N.eqb_eq in A; apply N.eqb_eq in B; rewrite A, B in IK; [left|right]; exact IK. }
      destruct (IH p P1 ltac:(lia)) as [r [Hr [Er Cr]]].
      exists r. split; [exact Hr|]. split; [exact Er|]. econstructor; [exact UE|exact Cr]. }
  split; [exact LIJ|]. split; [exact LN|].
  intros u w Hu Hw. rewrite <- !LAB. split.
  - intros E.
    destruct (ROOT (S (N.to_nat (mgetd dm (N.of_nat u)))) (N.of_nat u) ltac:(lia) ltac:(lia)) as [ru [Hru [Pru Cu]]].
    destruct (ROOT (S (N.to_nat (mgetd dm (N.of_nat w)))) (N.of_nat w) ltac:(lia) ltac:(lia)) as [rw [Hrw [Prw Cw]]].
    assert (Ru : mgetd rm (lab ru) = ru).
    { assert (Hin : In ru (nseq 0 (length labels))) by (apply nseq_in; lia).
      specialize (VS ru Hin). cbv zeta in VS. rewrite Pru, N.eqb_refl in VS. apply N.eqb_eq in VS. exact VS. }
    assert (Rw : mgetd rm (lab rw) = rw).
    { assert (Hin : In rw (nseq 0 (length labels))) by (apply nseq_in; lia).
      specialize (VS rw Hin). cbv zeta in VS. rewrite Prw, N.eqb_refl in VS. apply N.eqb_eq in VS. exact VS. }
    assert (ru = rw).
    { rewrite <- Ru, <- Rw. f_equal. rewrite <- (FWD _ _ Cu), <- (FWD _ _ Cw). exact E. }
    subst rw. eapply uconn_trans; [exact Cu|apply uconn_sym; exact Cw].
  - apply FWD.
Qed.

(* the checker accepts a correct labelling with its certificate: 0 - 1, 2 isolated, 3 - 4 *)
Example acc_cert_example :
  acc_cert_ok [1; 4] [0; 3] [0; 0; 1; 2; 2] [0; 0; 2; 3; 3] [0; 0; 0; 0; 1] [0; 1; 0; 0; 1] [0; 2; 3] = true /\
  acc_cert_ok [1; 4] [0; 3] [0; 0; 1; 2; 1] [0; 0; 2; 3; 3] [0; 0; 0; 0; 1] [0; 1; 0; 0; 1] [0; 2; 3] = false.
Proof. vm_compute. split; reflexivity. Qed.
