(* C19 — index safety of table_lookup_index, skeletonize_loop and index_lookup (Model.MorphC19):
   kernel_pre_K args = true  ->  model_K args <> None, for ALL array contents. *)
From Coq Require Import ZArith List Bool Lia ZifyBool.
From Centro Require Import Base.ArrC19 Model.MorphC19.
Import ListNotations.
Open Scope Z_scope.

(* ================================================================== table_lookup_index *)
Definition acc_ok (H W : Z) (a : acc) : Prop :=
  match a with Flat k => 0 <= k < H * W | At i j => 0 <= i < H /\ 0 <= j < W end.

Lemma resolve_ok : forall H W a, acc_ok H W a -> exists k, resolve H W a = Some k /\ 0 <= k < H * W.
Proof.
  intros H W [k|i j] Ha; cbn [resolve acc_ok] in *.
  - replace (inb k (H * W)) with true by (symmetry; apply inb_true; lia). eauto.
  - destruct Ha as [Hi Hj].
    replace (inb i H) with true by (symmetry; apply inb_true; lia).
    replace (inb j W) with true by (symmetry; apply inb_true; lia).
    cbn [andb]. eexists; split; [reflexivity|]. nia.
Qed.

Definition item_ok (H W : Z) (it : item) : Prop :=
  acc_ok H W (fst it) /\ Forall (fun aw => acc_ok H W (fst aw)) (snd it).

Lemma addA_ok : forall H W idx aw, zlen idx = H * W -> acc_ok H W (fst aw) ->
  exists idx', addA H W idx aw = Some idx' /\ zlen idx' = H * W.
Proof.
  intros H W idx aw Hl Ha. unfold addA.
  destruct (resolve_ok H W _ Ha) as [k [Ek Hk]]. rewrite Ek. cbn [bind].
  destruct (rd_ok _ idx k ltac:(lia)) as [x Ex]. rewrite Ex. cbn [bind].
  destruct (wr_ok _ idx k (x + snd aw) ltac:(lia)) as [i' [E' L']]. exists i'. split; [assumption|lia].
Qed.

Lemma run_item_ok : forall H W image idx it, zlen image = H * W -> zlen idx = H * W ->
  item_ok H W it -> exists idx', run_item H W image idx it = Some idx' /\ zlen idx' = H * W.
Proof.
  intros H W image idx it Hi Hl [Ht Hu]. unfold run_item, rdA.
  destruct (resolve_ok H W _ Ht) as [k [Ek Hk]]. rewrite Ek. cbn [bind].
  destruct (rd_ok _ image k ltac:(lia)) as [v Ev]. rewrite Ev. cbn [bind].
  destruct (v =? 0); [eauto|].
  apply (foldM_inv _ _ (fun i => zlen i = H * W) (fun aw => acc_ok H W (fst aw))); auto.
  intros s x Hs Hx. apply addA_ok; assumption.
Qed.

Lemma tli_items_ok : forall H W, 3 <= H -> 3 <= W -> Forall (item_ok H W) (tli_items H W W).
Proof.
  intros H W HH HW. unfold tli_items. rewrite !Forall_app. repeat split.
  - unfold tli_interior. apply Forall_forall. intros it Hin.
    apply in_flat_map in Hin. destruct Hin as [i [Hi Hin]]. apply in_map_iff in Hin.
    destruct Hin as [j [E Hj]]. apply In_zrange in Hi. apply In_zrange in Hj. subst it.
    split; cbn [fst snd acc_ok]; [nia|]. repeat constructor; cbn [fst acc_ok]; nia.
  - unfold tli_corners. repeat constructor; cbn [fst snd acc_ok]; lia.
  - unfold tli_rows. apply Forall_forall. intros it Hin.
    apply in_flat_map in Hin. destruct Hin as [j [Hj Hin]]. apply In_zrange in Hj.
    cbn [In] in Hin. destruct Hin as [E|[E|[]]]; subst it;
      (split; cbn [fst snd acc_ok]; [lia|]; repeat constructor; cbn [fst acc_ok]; lia).
  - unfold tli_cols. apply Forall_forall. intros it Hin.
    apply in_flat_map in Hin. destruct Hin as [i [Hi Hin]]. apply In_zrange in Hi.
    cbn [In] in Hin. destruct Hin as [E|[E|[]]]; subst it;
      (split; cbn [fst snd acc_ok]; [lia|]; repeat constructor; cbn [fst acc_ok]; lia).
Qed.

Lemma zlen_repeat : forall A (x : A) n, zlen (repeat x n) = Z.of_nat n.
Proof. intros. unfold zlen. now rewrite repeat_length. Qed.

Theorem tli_safe : forall H W s image,
  kernel_pre_tli H W s (zlen image) = true -> table_lookup_index H W s image <> None.
Proof.
  intros H W s image Hp. unfold kernel_pre_tli in Hp.
  assert (HH : 3 <= H) by lia. assert (HW : 3 <= W) by lia.
  assert (Hs : s = W) by lia. assert (Hl : zlen image = H * W) by lia. subst s.
  unfold table_lookup_index.
  replace ((3 <=? H) && (3 <=? W)) with true by lia.
  destruct (foldM_inv _ _ (fun i => zlen i = H * W) (item_ok H W) (run_item H W image)
              (tli_items H W W) (repeat 0 (Z.to_nat (H * W)))) as [r [E _]].
  - rewrite zlen_repeat. nia.
  - apply tli_items_ok; assumption.
  - intros s x Hs Hx. apply run_item_ok; assumption.
  - rewrite E. discriminate.
Qed.

Example tli_pre_example :
  kernel_pre_tli 3 4 4 (zlen [1;0;1;1; 0;1;1;0; 1;1;0;1]) = true /\
  table_lookup_index 3 4 4 [1;0;1;1; 0;1;1;0; 1;1;0;1]
  = Some [272; 424; 240; 88; 418; 245; 350; 139; 52; 30; 43; 17].
Proof. vm_compute. split; reflexivity. Qed.

(* the precondition is needed: on a 2-row image the edge code itself leaves the buffer *)
Example tli_pre_needed : table_lookup_index 3 4 5 [1;1;1;1; 1;1;1;1; 1;1;1;1] = None.
Proof. vm_compute. reflexivity. Qed.

(* ================================================================== skeletonize_loop *)
Lemma grd_ok : forall c res H W i j, zlen res = H * W ->
  (c = true -> 0 <= i < H /\ 0 <= j < W) -> exists v, grd c res H W i j = Some v.
Proof.
  intros c res H W i j Hl Hc. unfold grd. destruct c; [|eauto].
  destruct (Hc eq_refl). apply rd2_ok; assumption.
Qed.

Lemma bit_range : forall v, 0 <= bit v <= 1.
Proof. intros. unfold bit. destruct (v =? 0); lia. Qed.

Lemma skel_step_ok : forall H W table iarr jarr res oi,
  zlen res = H * W -> 512 <= zlen table ->
  forallb (fun i => inb i H) iarr = true -> forallb (fun j => inb j W) jarr = true ->
  0 <= oi < zlen iarr -> 0 <= oi < zlen jarr ->
  exists res', skel_step H W table iarr jarr res oi = Some res' /\ zlen res' = H * W.
Proof.
  intros H W table iarr jarr res oi Hl Ht Hi Hj Ho1 Ho2. unfold skel_step.
  destruct (rd_ok _ iarr oi Ho1) as [ii Eii]. rewrite Eii. cbn [bind].
  destruct (rd_ok _ jarr oi Ho2) as [jj Ejj]. rewrite Ejj. cbn [bind].
  apply rd_some in Eii. destruct Eii as [_ Iii]. apply (forallb_In _ _ _ _ Hi) in Iii.
  apply rd_some in Ejj. destruct Ejj as [_ Ijj]. apply (forallb_In _ _ _ _ Hj) in Ijj.
  apply inb_true in Iii. apply inb_true in Ijj.
  destruct (0 <? ii) eqn:E0; [|eauto].
  destruct (grd_ok (0 <? jj) res H W (ii - 1) (jj - 1) Hl ltac:(lia)) as [a1 E1]. rewrite E1. cbn [bind].
  destruct (rd2_ok _ res H W (ii - 1) jj Hl ltac:(lia) ltac:(lia)) as [a2 E2]. rewrite E2. cbn [bind].
  destruct (grd_ok (jj <? W - 1) res H W (ii - 1) (jj + 1) Hl ltac:(lia)) as [a3 E3]. rewrite E3. cbn [bind].
  destruct (grd_ok (0 <? jj) res H W ii (jj - 1) Hl ltac:(lia)) as [a4 E4]. rewrite E4. cbn [bind].
  destruct (grd_ok (jj <? W - 1) res H W ii (jj + 1) Hl ltac:(lia)) as [a6 E6]. rewrite E6. cbn [bind].
  destruct (grd_ok ((ii <? H - 1) && (0 <? jj)) res H W (ii + 1) (jj - 1) Hl ltac:(lia)) as [a7 E7].
  rewrite E7. cbn [bind].
  destruct (grd_ok (ii <? H - 1) res H W (ii + 1) jj Hl ltac:(lia)) as [a8 E8]. rewrite E8. cbn [bind].
  destruct (grd_ok ((ii <? H - 1) && (jj <? W - 1)) res H W (ii + 1) (jj + 1) Hl ltac:(lia)) as [a9 E9].
  rewrite E9. cbn [bind].
  pose proof (bit_range a1). pose proof (bit_range a2). pose proof (bit_range a3).
  pose proof (bit_range a4). pose proof (bit_range a6). pose proof (bit_range a7).
  pose proof (bit_range a8). pose proof (bit_range a9).
  match goal with |- context [rd table ?k] => destruct (rd_ok _ table k ltac:(lia)) as [t Et]; rewrite Et end.
  cbn [bind].
  destruct (wr2_ok _ res H W ii jj t Hl ltac:(lia) ltac:(lia)) as [r' [Er Lr]]. exists r'. split; [assumption|lia].
Qed.

Theorem skel_safe : forall H W res iarr jarr order table,
  kernel_pre_skel H W (zlen res) iarr jarr order (zlen table) = true ->
  skeletonize_loop H W res iarr jarr order table <> None.
Proof.
  intros H W res iarr jarr order table Hp. unfold kernel_pre_skel in Hp.
  apply andb_prop in Hp. destruct Hp as [Hp Ht]. apply andb_prop in Hp. destruct Hp as [Hp Ho].
  apply andb_prop in Hp. destruct Hp as [Hp Hj]. apply andb_prop in Hp. destruct Hp as [Hl Hi].
  unfold skeletonize_loop.
  destruct (foldM_inv _ _ (fun r => zlen r = H * W)
              (fun o => 0 <= o < zlen iarr /\ 0 <= o < zlen jarr)
              (skel_step H W table iarr jarr) order res) as [r [E _]].
  - lia.
  - apply Forall_forall. intros o Hin. apply (forallb_In _ _ _ _ Ho) in Hin.
    apply andb_prop in Hin. destruct Hin as [A B]. apply inb_true in A. apply inb_true in B. tauto.
  - intros s x Hs [Hx1 Hx2]. apply skel_step_ok; auto. lia.
  - rewrite E. discriminate.
Qed.

Example skel_pre_example :
  let table := repeat 0 512 in
  kernel_pre_skel 2 2 4 [0;1;1] [1;0;1] [2;0;1] (zlen table) = true /\
  skeletonize_loop 2 2 [0;1;1;1] [0;1;1] [1;0;1] [2;0;1] table = Some [0;1;0;0].
Proof. vm_compute. split; reflexivity. Qed.

(* ================================================================== index_lookup *)
Definition pt_ok (H W : Z) (p : Z * Z) : Prop := 1 <= fst p <= H - 2 /\ 1 <= snd p <= W - 2.

(* the "negative wrap" remark in prepare_for_index_lookup: under the precondition no index below
   0 is ever formed — the smallest row/column index read is fst p - 1 >= 0 *)
Lemma il_no_negative_index : forall H W p, pt_ok H W p -> 0 <= fst p - 1 /\ 0 <= snd p - 1.
Proof. unfold pt_ok. intros. lia. Qed.

Lemma eqw_range : forall a b w, 0 <= w -> 0 <= eqw a b w <= w.
Proof. intros. unfold eqw. destruct (a =? b); lia. Qed.

Lemma il_index_ok : forall H W img i j, zlen img = H * W -> 1 <= i <= H - 2 -> 1 <= j <= W - 2 ->
  exists k, il_index H W img i j = Some k /\ 16 <= k <= 511.
Proof.
  intros H W img i j Hl Hi Hj. unfold il_index.
  destruct (rd2_ok _ img H W i j Hl ltac:(lia) ltac:(lia)) as [c Ec]. rewrite Ec. cbn [bind].
  destruct (rd2_ok _ img H W (i - 1) (j - 1) Hl ltac:(lia) ltac:(lia)) as [a1 E1]. rewrite E1. cbn [bind].
  destruct (rd2_ok _ img H W (i - 1) j Hl ltac:(lia) ltac:(lia)) as [a2 E2]. rewrite E2. cbn [bind].
  destruct (rd2_ok _ img H W (i - 1) (j + 1) Hl ltac:(lia) ltac:(lia)) as [a3 E3]. rewrite E3. cbn [bind].
  destruct (rd2_ok _ img H W i (j - 1) Hl ltac:(lia) ltac:(lia)) as [a4 E4]. rewrite E4. cbn [bind].
  destruct (rd2_ok _ img H W i (j + 1) Hl ltac:(lia) ltac:(lia)) as [a6 E6]. rewrite E6. cbn [bind].
  destruct (rd2_ok _ img H W (i + 1) (j - 1) Hl ltac:(lia) ltac:(lia)) as [a7 E7]. rewrite E7. cbn [bind].
  destruct (rd2_ok _ img H W (i + 1) j Hl ltac:(lia) ltac:(lia)) as [a8 E8]. rewrite E8. cbn [bind].
  destruct (rd2_ok _ img H W (i + 1) (j + 1) Hl ltac:(lia) ltac:(lia)) as [a9 E9]. rewrite E9. cbn [bind].
  eexists; split; [reflexivity|].
  pose proof (eqw_range a1 c 1). pose proof (eqw_range a2 c 2). pose proof (eqw_range a3 c 4).
  pose proof (eqw_range a4 c 8). pose proof (eqw_range a6 c 32). pose proof (eqw_range a7 c 64).
  pose proof (eqw_range a8 c 128). pose proof (eqw_range a9 c 256). lia.
Qed.

(* a marked list: every entry is an original in-range point or its row-negated copy *)
Definition mk_ok (H W : Z) (p : Z * Z) : Prop :=
  pt_ok H W p \/ pt_ok H W (- fst p, snd p).

Lemma il_mark_ok : forall H W table img pts, zlen img = H * W -> 512 <= zlen table ->
  Forall (pt_ok H W) pts ->
  exists m, il_mark H W table img pts = Some m /\ Forall (mk_ok H W) m /\ length m = length pts.
Proof.
  intros H W table img pts Hl Ht. induction pts as [|[i j] t IH]; intros Hp.
  - exists []. repeat split; constructor.
  - inversion Hp as [|? ? Hh Htl]; subst. destruct Hh as [Hi Hj]. cbn [fst snd] in Hi, Hj.
    cbn [il_mark]. destruct (il_index_ok H W img i j Hl Hi Hj) as [k [Ek Hk]]. rewrite Ek. cbn [bind].
    destruct (rd_ok _ table k ltac:(lia)) as [tv Etv]. rewrite Etv. cbn [bind].
    destruct (IH Htl) as [m [Em [Hm Lm]]]. rewrite Em. cbn [bind].
    eexists; split; [reflexivity|]. split; [|cbn [length]; lia].
    constructor; [|assumption]. destruct (tv =? 0).
    + right. unfold pt_ok. cbn [fst snd]. lia.
    + left. unfold pt_ok. cbn [fst snd]. lia.
Qed.

Lemma il_clear_ok : forall H W img m, zlen img = H * W -> Forall (mk_ok H W) m ->
  exists img', foldM (il_clear1 H W) m img = Some img' /\ zlen img' = H * W.
Proof.
  intros H W img m Hl Hm.
  apply (foldM_inv _ _ (fun a => zlen a = H * W) (mk_ok H W)); auto.
  intros s [i j] Hs Hx. unfold il_clear1. cbn [fst snd].
  destruct (i <? 0) eqn:E; [|eauto].
  destruct Hx as [[A B]|[A B]]; cbn [fst snd] in A, B; [lia|].
  destruct (wr2_ok _ s H W (- i) j 0 Hs ltac:(lia) ltac:(lia)) as [s' [E' L']].
  exists s'. split; [assumption|lia].
Qed.

Lemma filter_keep_ok : forall H W m, Forall (mk_ok H W) m ->
  Forall (pt_ok H W) (filter (fun p => 0 <=? fst p) m).
Proof.
  intros H W m Hm. apply Forall_forall. intros p Hin. apply filter_In in Hin.
  destruct Hin as [Hin Hf]. rewrite Forall_forall in Hm. destruct (Hm p Hin) as [A|[A B]]; [assumption|].
  cbn [fst snd] in A. lia.
Qed.

Lemma il_pass_ok : forall H W table img pts, zlen img = H * W -> 512 <= zlen table ->
  Forall (pt_ok H W) pts ->
  exists r, il_pass H W table img pts = Some r /\ zlen (fst r) = H * W /\ Forall (pt_ok H W) (snd r).
Proof.
  intros H W table img pts Hl Ht Hp. unfold il_pass.
  destruct (il_mark_ok H W table img pts Hl Ht Hp) as [m [Em [Hm _]]]. rewrite Em. cbn [bind].
  destruct (il_clear_ok H W img m Hl Hm) as [img' [Ec Lc]]. rewrite Ec. cbn [bind].
  eexists; split; [reflexivity|]. cbn [fst snd]. split; [assumption|]. apply filter_keep_ok; assumption.
Qed.

Lemma index_lookup_ok : forall iters H W table img pts, zlen img = H * W -> 512 <= zlen table ->
  Forall (pt_ok H W) pts -> exists r, index_lookup iters H W table img pts = Some r.
Proof.
  induction iters as [|n IH]; intros H W table img pts Hl Ht Hp.
  - cbn [index_lookup]. eauto.
  - cbn [index_lookup]. destruct (il_pass_ok H W table img pts Hl Ht Hp) as [r [E [Lr Pr]]].
    rewrite E. cbn [bind]. destruct (length (snd r) =? length pts)%nat; [eauto|].
    apply IH; assumption.
Qed.

(* for every number of iterations (iterations=None is len(index_i)), table and image content *)
Theorem il_safe : forall iters H W table img pts,
  kernel_pre_il H W (zlen img) (zlen table) pts = true ->
  index_lookup iters H W table img pts <> None.
Proof.
  intros iters H W table img pts Hp. unfold kernel_pre_il in Hp.
  apply andb_prop in Hp. destruct Hp as [Hp Hpts]. apply andb_prop in Hp. destruct Hp as [Hl Ht].
  destruct (index_lookup_ok iters H W table img pts ltac:(lia) ltac:(lia)) as [r E].
  - apply Forall_forall. intros p Hin. apply (forallb_In _ _ _ _ Hpts) in Hin. unfold pt_ok. lia.
  - rewrite E. discriminate.
Qed.

(* under the precondition every row/column index the kernel forms is >= 0 *)
Theorem il_never_negative : forall H W imglen tablelen pts,
  kernel_pre_il H W imglen tablelen pts = true ->
  Forall (fun p => 0 <= fst p - 1 /\ 0 <= snd p - 1) pts.
Proof.
  intros H W imglen tablelen pts Hp. unfold kernel_pre_il in Hp.
  apply andb_prop in Hp. destruct Hp as [_ Hpts].
  apply Forall_forall. intros p Hin. apply (forallb_In _ _ _ _ Hpts) in Hin. lia.
Qed.

Example il_pre_example :
  let table := repeat 1 256 ++ repeat 0 256 in
  let img := [0;0;0;0;0; 0;7;7;7;0; 0;7;7;7;0; 0;7;7;7;0; 0;0;0;0;0] in
  kernel_pre_il 5 5 (zlen img) (zlen table) [(1,1);(2,2);(3,3)] = true /\
  index_lookup 3 5 5 table img [(1,1);(2,2);(3,3)]
  = Some ([0;0;0;0;0; 0;0;7;7;0; 0;7;0;7;0; 0;7;7;7;0; 0;0;0;0;0], [(3,3)]).
Proof. vm_compute. split; reflexivity. Qed.

(* a point on the border row of an un-padded image: the accessor (no wrap) reports the access *)
Example il_pre_needed : index_lookup 1 3 3 (repeat 1 512) [1;1;1;1;1;1;1;1;1] [(0,1)] = None.
Proof. vm_compute. reflexivity. Qed.
