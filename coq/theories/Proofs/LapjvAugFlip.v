(* C01 / C19-facing — phase 4, the path flipping loop (_lapjv.pyx:446-451):
     while True: i1 = pred[j1]; y[j1] = i1; j1, x[i1] = x[i1], j1; if i1 == i: break
   [aug_flip_chain]: if the predecessor links from the exit column j1 form a chain of distinct rows < n that ends
   in the free row r (each next column being the one the previous row is assigned to), the loop terminates within
   as many iterations as the chain is long, every index it uses is < n, x and y keep their length, rows outside the
   chain keep their x, and the first row of the chain ends up assigned to the exit column.
   (That the Dijkstra loop produces such a chain is the missing phase-4 invariant on pred.) *)
From Coq Require Import ZArith List Bool Lia Arith.
From Centro Require Import Base.Sx Model.Lapjv Spec.Lapjv Proofs.LapjvPhases Proofs.LapjvArr.
Import ListNotations.

Section Flip.
Variables (r n : nat) (pred : list nat).

(* rows i_0 .. i_m reached from column j1: pred[j_k] = i_k, j_{k+1} = x[i_k], i_m = r *)
Fixpoint chain_ok (x : list nat) (j1 : nat) (chain : list nat) : Prop :=
  match chain with
  | [] => False
  | i :: rest =>
      (j1 < n)%nat /\ getn pred j1 n = i /\ (i < n)%nat /\
      match rest with
      | [] => i = r
      | _ => i <> r /\ chain_ok x (getn x i n) rest
      end
  end.

Lemma chain_ok_ext x x' : forall chain j1,
  (forall i, In i chain -> getn x' i n = getn x i n) -> chain_ok x j1 chain -> chain_ok x' j1 chain.
Proof.
  induction chain as [|i rest IH]; intros j1 E; cbn [chain_ok]; auto.
  intros [A [B [C D]]]. split; auto. split; auto. split; auto.
  destruct rest as [|i2 rest2]; auto. destruct D as [D1 D2]. split; auto.
  rewrite (E i (or_introl eq_refl)). apply IH; auto. intros k Hk. apply E. right. exact Hk.
Qed.

Theorem aug_flip_chain : forall chain j1 x y fuel,
  NoDup chain -> length x = n -> length y = n -> chain_ok x j1 chain -> (length chain <= fuel)%nat ->
  exists x' y', aug_flip fuel r pred j1 x y n = Some (x', y') /\ length x' = n /\ length y' = n /\
    (forall i, ~ In i chain -> getn x' i n = getn x i n) /\
    getn x' (hd r chain) n = j1.
Proof.
  induction chain as [|i rest IH]; intros j1 x y fuel ND Lx Ly OK Hf; [destruct OK|].
  cbn [chain_ok] in OK. destruct OK as [Hj [Hp [Hi D]]].
  destruct fuel as [|f]; [cbn in Hf; lia|]. cbn [aug_flip]. rewrite Hp.
  inversion ND as [|? ? Nin ND']; subst.
  assert (Xi : getn (upd x (getn pred j1 n) j1) (getn pred j1 n) n = j1).
  { rewrite getn_upd, Nat.eqb_refl, Lx. replace (getn pred j1 n <? n)%nat with true by (symmetry; apply Nat.ltb_lt; auto). reflexivity. }
  assert (Yj : getn (upd y j1 (getn pred j1 n)) j1 n = getn pred j1 n).
  { rewrite getn_upd, Nat.eqb_refl, Ly. replace (j1 <? n)%nat with true by (symmetry; apply Nat.ltb_lt; auto). reflexivity. }
  destruct rest as [|i2 rest2].
  - replace (getn pred j1 n =? r)%nat with true by (symmetry; apply Nat.eqb_eq; exact D). eexists _, _. split; [reflexivity|].
    split; [rewrite upd_length; auto|]. split; [rewrite upd_length; auto|]. split; [|exact Xi].
    intros k Hk. rewrite getn_upd. destruct (Nat.eqb_spec k (getn pred j1 n)) as [->|NE]; [exfalso; apply Hk; left; auto|reflexivity].
  - destruct D as [Nr OK']. destruct (Nat.eqb_spec (getn pred j1 n) r) as [E|_]; [contradiction|].
    set (i := getn pred j1 n) in *.
    assert (OK2 : chain_ok (upd x i j1) (getn x i n) (i2 :: rest2)).
    { apply (chain_ok_ext x); auto. intros k Hk. rewrite getn_upd.
      destruct (Nat.eqb_spec k i) as [->|NE]; [contradiction|reflexivity]. }
    destruct (IH (getn x i n) (upd x i j1) (upd y j1 i) f ND' ltac:(rewrite upd_length; auto) ltac:(rewrite upd_length; auto) OK2
                ltac:(cbn [length] in *; lia)) as [x' [y' [E [Lx' [Ly' [Out Hx]]]]]].
    exists x', y'. split; [exact E|]. split; auto. split; auto. split.
    + intros k Hk. rewrite Out by (intros H; apply Hk; right; auto). rewrite getn_upd.
      destruct (Nat.eqb_spec k i) as [->|NE]; [exfalso; apply Hk; left; auto|reflexivity].
    + cbn [hd]. rewrite Out by exact Nin. exact Xi.
Qed.
End Flip.

(* a chain of two rows: exit column 2 was reached from row 1 (assigned to column 0), which was reached from the free row 0 *)
Example chain_example : chain_ok 0 3 [0; 9; 1]%nat [3; 0; 1]%nat 2 [1; 0]%nat /\ NoDup [1; 0]%nat.
Proof.
  split; [cbn; repeat split; auto; lia|]. repeat constructor; cbn; intuition discriminate.
Qed.

(* ---------------------------------------------------------------- x / y stay partial inverses along the flip chain *)

Section FlipInv.
Variables (r n : nat) (pred : list nat).

(* y determines x on assigned columns, except possibly at the column in transit *)
Definition PIh (x y : list nat) (hole : option nat) : Prop :=
  forall j i, (j < n)%nat -> Some j <> hole -> getn y j n = i -> i <> n -> (i < n)%nat /\ getn x i n = j.

Theorem aug_flip_inverse : forall chain j1 x y fuel,
  NoDup chain -> length x = n -> length y = n -> chain_ok r n pred x j1 chain -> (length chain <= fuel)%nat ->
  PIh x y (Some j1) -> free n y r ->
  exists x' y', aug_flip fuel r pred j1 x y n = Some (x', y') /\ length x' = n /\ length y' = n /\
    PIh x' y' None /\ (exists j, (j < n)%nat /\ getn y' j n = r) /\
    getn y' j1 n <> n /\ (forall j, getn y j n <> n -> getn y' j n <> n) /\
    (forall j, getn y' j n = getn y j n \/ In (getn y' j n) chain) /\
    (forall j, getn y' j n = getn y j n \/
               (getn y' j n = getn pred j n /\ (j = j1 \/ exists i, In i chain /\ i <> r /\ j = getn x i n))).
Proof.
  induction chain as [|i rest IH]; intros j1 x y fuel ND Lx Ly OK Hf PI Fr; [destruct OK|].
  cbn [chain_ok] in OK. destruct OK as [Hj [Hp [Hi D]]].
  destruct fuel as [|f]; [cbn in Hf; lia|]. cbn [aug_flip]. rewrite Hp.
  inversion ND as [|? ? Nin ND']; subst.
  set (i := getn pred j1 n) in *.
  assert (Xi : forall k, getn (upd x i j1) k n = if (k =? i)%nat then j1 else getn x k n).
  { intros k. rewrite getn_upd, Lx. replace (i <? n)%nat with true by (symmetry; apply Nat.ltb_lt; auto). rewrite andb_true_r. reflexivity. }
  assert (Yj : forall k, getn (upd y j1 i) k n = if (k =? j1)%nat then i else getn y k n).
  { intros k. rewrite getn_upd, Ly. replace (j1 <? n)%nat with true by (symmetry; apply Nat.ltb_lt; auto). rewrite andb_true_r. reflexivity. }
  assert (Step : forall hole', (forall j, (j < n)%nat -> Some j <> hole' -> j <> j1 -> getn y j n = i -> i = n) ->
            PIh (upd x i j1) (upd y j1 i) hole').
  { intros hole' Hh j i0 Hj0 Nh Ey Ne. rewrite Yj in Ey. rewrite Xi.
    destruct (Nat.eqb_spec j j1) as [->|NEj].
    - subst i0. split; auto. rewrite Nat.eqb_refl. reflexivity.
    - destruct (PI j i0 Hj0 ltac:(congruence) Ey Ne) as [A B]. split; auto.
      destruct (Nat.eqb_spec i0 i) as [Ei|_]; [|exact B]. exfalso. apply Ne. rewrite Ei. apply (Hh j); auto. congruence. }
  destruct rest as [|i2 rest2].
  - (* last link: i = r, the free row *)
    replace (i =? r)%nat with true by (symmetry; apply Nat.eqb_eq; exact D).
    eexists _, _. split; [reflexivity|]. split; [rewrite upd_length; auto|]. split; [rewrite upd_length; auto|].
    split; [|split; [|split; [|split; [|split]]]].
    + apply Step. intros j Hj0 _ _ Ey. exfalso. apply (Fr j Hj0). rewrite Ey. exact D.
    + exists j1. split; auto. rewrite Yj, Nat.eqb_refl. exact D.
    + rewrite Yj, Nat.eqb_refl. lia.
    + intros j Hn. rewrite Yj. destruct (j =? j1)%nat; [lia|exact Hn].
    + intros j. rewrite Yj. destruct (j =? j1)%nat; [right; left; reflexivity|left; reflexivity].
    + intros j. rewrite Yj. destruct (Nat.eqb_spec j j1) as [->|NE]; [right; split; [reflexivity|left; reflexivity]|left; reflexivity].
  - destruct D as [Nr OK']. destruct (Nat.eqb_spec i r) as [E|_]; [contradiction|].
    assert (OK2 : chain_ok r n pred (upd x i j1) (getn x i n) (i2 :: rest2)).
    { apply (chain_ok_ext r n pred x); auto. intros k Hk. rewrite Xi.
      destruct (Nat.eqb_spec k i) as [->|NE]; [contradiction|reflexivity]. }
    assert (PI2 : PIh (upd x i j1) (upd y j1 i) (Some (getn x i n))).
    { apply Step. intros j Hj0 Nh NEj Ey. destruct (Nat.eq_dec i n) as [|Ne]; auto. exfalso.
      destruct (PI j i Hj0 ltac:(congruence) Ey Ne) as [_ B]. apply Nh. rewrite B. reflexivity. }
    assert (Fr2 : free n (upd y j1 i) r).
    { intros j Hj0. rewrite Yj. destruct (j =? j1)%nat; [exact Nr|apply Fr; auto]. }
    destruct (IH (getn x i n) (upd x i j1) (upd y j1 i) f ND' ltac:(rewrite upd_length; auto) ltac:(rewrite upd_length; auto) OK2
                ltac:(cbn [length] in *; lia) PI2 Fr2) as [x' [y' [E [Lx' [Ly' [PI' [Hr [_ [Keep [Src Src2]]]]]]]]]].
    exists x', y'. split; [exact E|]. split; auto. split; auto. split; auto. split; auto. split; [|split; [|split]].
    + apply Keep. rewrite Yj, Nat.eqb_refl. lia.
    + intros j Hn. apply Keep. rewrite Yj. destruct (j =? j1)%nat; [lia|exact Hn].
    + intros j. destruct (Src j) as [H|H]; [|right; right; exact H].
      rewrite H, Yj. destruct (j =? j1)%nat; [right; left; reflexivity|left; reflexivity].
    + intros j. destruct (Src2 j) as [H|[H1 [H2|[i' [Hi' [Ni' Ej]]]]]].
      * rewrite H, Yj. destruct (Nat.eqb_spec j j1) as [->|NE]; [right; split; [reflexivity|left; reflexivity]|left; reflexivity].
      * right. split; [exact H1|]. right. exists i. split; [left; reflexivity|]. split; [exact Nr|exact H2].
      * right. split; [exact H1|]. right. exists i'. split; [right; exact Hi'|]. split; [exact Ni'|].
        rewrite Ej, Xi. destruct (Nat.eqb_spec i' i) as [->|NE]; [contradiction|reflexivity].
Qed.
End FlipInv.
