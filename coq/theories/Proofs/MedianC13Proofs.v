(* C13 — median_of_labels: per-object independence, renumbering and request order, from b18's
   median_of_labels_correct (Proofs/MedianC18Proofs.v: the as-written model with include mask,
   anti-index table, lexsort, bincount(minlength) and cumulative offsets equals, label by label,
   the median of the values carrying that label). *)
From Coq Require Import ZArith List Bool Lia PeanoNat FinFun.
From Centro Require Import Model.VecC18 Model.MedianC18 Spec.SpecC18 Proofs.MedianC18Proofs.
Import ListNotations.

(* the values of object l are untouched: same entry, whatever else changed (other objects' pixels,
   labels, values, the image size, the two request lists, which
   may repeat labels: C18's median_of_labels_correct_all needs no NoDup) *)
Theorem median_independent (image : list Z) labels idxs image' labels' idxs' k k' l :
  length image = length labels -> length image' = length labels' ->
  sel image labels l = sel image' labels' l ->
  nth_error idxs k = Some l -> nth_error idxs' k' = Some l ->
  nth_error (median_of_labels image labels idxs) k = nth_error (median_of_labels image' labels' idxs') k'.
Proof.
  intros L L' Hs Hk Hk'. rewrite !median_of_labels_correct_all by assumption.
  unfold median_ref. rewrite !nth_error_map, Hk, Hk'. cbn [option_map]. rewrite Hs. reflexivity.
Qed.

Lemma sel_relabel (f : nat -> nat) (image : list Z) : forall labels l,
  (forall a b, f a = f b -> a = b) -> sel image (map f labels) (f l) = sel image labels l.
Proof.
  intros labels l Inj. unfold sel. revert labels.
  induction image as [|v r IH]; intros [|a t]; cbn [map combine filter]; try reflexivity.
  cbn [snd]. destruct (Nat.eqb_spec (f a) (f l)) as [E|N], (Nat.eqb_spec a l) as [E'|N']; cbn [map fst].
  - rewrite IH. reflexivity.
  - apply Inj in E. contradiction.
  - subst. contradiction.
  - apply IH.
Qed.

Theorem median_relabel (f : nat -> nat) (image : list Z) labels idxs :
  (forall a b, f a = f b -> a = b) -> length image = length labels ->
  median_of_labels image (map f labels) (map f idxs) = median_of_labels image labels idxs.
Proof.
  intros Inj L. rewrite !median_of_labels_correct_all; auto.
  - unfold median_ref. rewrite map_map. apply map_ext. intros l. rewrite sel_relabel by exact Inj. reflexivity.
  - rewrite map_length. exact L.
Qed.

Theorem median_request (image : list Z) labels idxs :
  length image = length labels ->
  median_of_labels image labels idxs = flat_map (fun l => median_of_labels image labels [l]) idxs.
Proof.
  intros L. rewrite median_of_labels_correct_all by assumption. unfold median_ref.
  induction idxs as [|i r IH]; cbn [map flat_map]; [reflexivity|].
  rewrite (median_of_labels_correct_all image labels [i] L).
  unfold median_ref. cbn [map app]. rewrite IH. reflexivity.
Qed.

Example median_independent_example :
  sel [2; 8; 4; 6; 10]%Z [1; 3; 1; 3; 3] 1 = sel [2; 0; 4; 7]%Z [1; 9; 1; 0] 1
  /\ median_of_labels [2; 8; 4; 6; 10]%Z [1; 3; 1; 3; 3] [3; 1] = [Some 8; Some 3]%Z
  /\ median_of_labels [2; 0; 4; 7]%Z [1; 9; 1; 0] [1] = [Some 3]%Z.
Proof. repeat split; vm_compute; reflexivity. Qed.
