(* C17 — regional_maximum with ties not allowed: exactly one marked pixel in every 8-connected
   component of the ties-allowed set.
   (1) the certificate checker run on the implementation's output is sound;
   (2) the model (scind.label / maximum_position as Section variables) has the property
       relative to "label numbers the 8-components" and "maximum_position returns one position
       inside each label". *)
From Coq Require Import ZArith List Bool Lia ZifyBool.
From Centro Require Import Base.LocalMaxGrid Model.LocalMax Spec.LocalMaxSpec
  Proofs.LocalMaxIlm Proofs.LocalMaxReg.
Import ListNotations.
Open Scope Z_scope.

(* ---------------------------------------------------------------- connectivity *)

Lemma conn8_left U p q : conn8 U p q -> U (fst p) (snd p) = true.
Proof. induction 1; auto. Qed.

Lemma conn8_right U p q : conn8 U p q -> U (fst q) (snd q) = true.
Proof. destruct 1; auto. Qed.

Lemma conn8_trans U p q r : conn8 U p q -> conn8 U q r -> conn8 U p r.
Proof.
  intros A B. revert A. induction B as [q Hq | q r s Hqr IH Hadj Hs]; intros A; [exact A|].
  eapply conn_step; [apply IH; exact A | exact Hadj | exact Hs].
Qed.

Lemma adj8_sym p q : adj8 p q -> adj8 q p.
Proof. unfold adj8. lia. Qed.

Lemma conn8_sym U p q : conn8 U p q -> conn8 U q p.
Proof.
  induction 1 as [p Hp | p q r Hpq IH Hadj Hr].
  - now apply conn_refl.
  - apply conn8_trans with q; [|exact IH].
    apply conn_step with r; [now apply conn_refl | now apply adj8_sym | now apply conn8_right in Hpq].
Qed.

Lemma adj8_nb p q : adj8 p q ->
  p = q \/ exists d, In d nb8 /\ q = (fst p + fst d, snd p + snd d).
Proof.
  destruct p as [py px], q as [qy qx]. unfold adj8. cbn [fst snd]. intros [A B].
  assert (Hy : qy = py + -1 \/ qy = py + 0 \/ qy = py + 1) by lia.
  assert (Hx : qx = px + -1 \/ qx = px + 0 \/ qx = px + 1) by lia.
  destruct Hy as [-> | [-> | ->]], Hx as [-> | [-> | ->]];
    try (left; f_equal; lia);
    right; eexists (_, _); (split; [|cbn [fst snd]; reflexivity]); unfold nb8; cbn [In]; auto 12.
Qed.

Lemma nb8_adj p d : In d nb8 -> adj8 p (fst p + fst d, snd p + snd d).
Proof.
  unfold nb8, adj8. cbn [In fst snd]. intros H.
  repeat (destruct H as [<-|H]; [cbn [fst snd]; lia|]). contradiction.
Qed.

Lemma In_cells h w p : In p (cells h w) <-> 0 <= fst p < Z.of_nat h /\ 0 <= snd p < Z.of_nat w.
Proof.
  unfold cells. rewrite in_flat_map. split.
  - intros (y & Hy & H). apply in_map_iff in H. destruct H as (x & <- & Hx).
    apply In_zrange in Hy, Hx. cbn [fst snd]. lia.
  - destruct p as [y x]. cbn [fst snd]. intros [Hy Hx]. exists y. split; [now apply In_zrange|].
    apply in_map_iff. exists x. split; [reflexivity | now apply In_zrange].
Qed.

Lemma pair_eqb_eq p q : pair_eqb p q = true <-> p = q.
Proof.
  destruct p, q. unfold pair_eqb. cbn [fst snd]. rewrite andb_true_iff, !Z.eqb_eq.
  split; [intros [-> ->]; reflexivity | intros E; inversion E; auto].
Qed.

(* ---------------------------------------------------------------- from "sel" facts to the property *)

Lemma one_per_component_of_sel U Lb n out sel :
  labelling_ok U Lb n ->
  (forall y x, out y x = true -> U y x = true /\ pnth sel (Lb y x) = (y, x)) ->
  (forall k, 1 <= k <= n -> out (fst (pnth sel k)) (snd (pnth sel k)) = true
                            /\ Lb (fst (pnth sel k)) (snd (pnth sel k)) = k) ->
  one_per_component U out.
Proof.
  intros (R & C & _) S1 S2. split.
  - intros y x O. now apply S1.
  - intros p Hp. set (k := Lb (fst p) (snd p)). pose proof (R _ _ Hp) as Hk. fold k in Hk.
    destruct (S2 k Hk) as [Oq Lq]. set (q := pnth sel k) in *.
    destruct (S1 _ _ Oq) as [Uq _].
    exists q. split; [split; [exact Oq|]|].
    + apply C; auto.
    + intros q' Oq' Cq'. destruct q' as [y' x']. cbn [fst snd] in *.
      destruct (S1 _ _ Oq') as [Uq' Eq'].
      assert (E : Lb (fst p) (snd p) = Lb y' x').
      { apply (C p (y', x')); auto. }
      rewrite <- E in Eq'. fold k in Eq'. now rewrite <- Eq'.
Qed.

(* ---------------------------------------------------------------- certificate soundness *)

Section Cert.
  Variables (h w : nat) (U : Z -> Z -> bool) (Lb D : Z -> Z -> Z) (roots : list (Z * Z)) (n : Z).
  Hypothesis U_in : forall y x, U y x = true -> 0 <= y < Z.of_nat h /\ 0 <= x < Z.of_nat w.
  Hypothesis Lb_out : forall y x, ~ (0 <= y < Z.of_nat h /\ 0 <= x < Z.of_nat w) -> Lb y x = 0.
  Hypothesis CC : cert_check h w U Lb D roots n = true.

  Lemma cert_cell y x : U y x = true ->
    1 <= Lb y x <= n /\ 0 <= D y x /\
    (forall d, In d nb8 -> U (y + fst d) (x + snd d) = true -> Lb (y + fst d) (x + snd d) = Lb y x) /\
    (D y x = 0 -> pnth roots (Lb y x) = (y, x)) /\
    (D y x <> 0 -> exists d, In d nb8 /\ U (y + fst d) (x + snd d) = true
                             /\ Lb (y + fst d) (x + snd d) = Lb y x /\ D (y + fst d) (x + snd d) = D y x - 1).
  Proof.
    intros Hu. unfold cert_check in CC. rewrite forallb_forall in CC.
    specialize (CC (y, x)). cbn [fst snd] in CC. rewrite Hu in CC.
    assert (I : In (y, x) (cells h w)) by (apply In_cells; cbn [fst snd]; auto).
    specialize (CC I). rewrite !andb_true_iff in CC. destruct CC as [[[[A1 A2] A3] A4] A5].
    split; [lia|]. split; [lia|]. split; [|split].
    - intros d Hd Ud. rewrite forallb_forall in A4. specialize (A4 d Hd). rewrite Ud in A4.
      cbn [implb] in A4. lia.
    - intros D0. replace (D y x =? 0) with true in A5 by lia. now apply pair_eqb_eq.
    - intros D0. replace (D y x =? 0) with false in A5 by lia. apply existsb_exists in A5.
      destruct A5 as (d & Hd & A5). rewrite !andb_true_iff in A5. exists d. repeat split; try tauto; lia.
  Qed.

  Lemma cert_bg y x : 0 < Lb y x -> U y x = true.
  Proof.
    intros P. destruct (U y x) eqn:Hu; [reflexivity|]. exfalso.
    assert (I : 0 <= y < Z.of_nat h /\ 0 <= x < Z.of_nat w).
    { destruct (Z_le_dec 0 y), (Z_lt_dec y (Z.of_nat h)), (Z_le_dec 0 x), (Z_lt_dec x (Z.of_nat w));
        try (rewrite Lb_out in P by lia; lia). lia. }
    unfold cert_check in CC. rewrite forallb_forall in CC.
    specialize (CC (y, x)). cbn [fst snd] in CC. rewrite Hu in CC.
    assert (I' : In (y, x) (cells h w)) by (apply In_cells; cbn [fst snd]; auto).
    specialize (CC I'). lia.
  Qed.

  Lemma same_label p q : conn8 U p q -> Lb (fst p) (snd p) = Lb (fst q) (snd q).
  Proof.
    induction 1 as [p Hp | p q r Hpq IH Hadj Hr]; [reflexivity|].
    rewrite IH. apply conn8_right in Hpq. destruct (adj8_nb _ _ Hadj) as [->|(d & Hd & ->)]; [reflexivity|].
    cbn [fst snd] in *. symmetry. destruct (cert_cell _ _ Hpq) as (_ & _ & N & _). now apply N.
  Qed.

  Lemma to_root : forall (m : nat) y x, U y x = true -> D y x = Z.of_nat m ->
    conn8 U (y, x) (pnth roots (Lb y x)).
  Proof.
    induction m as [|m IH]; intros y x Hu Hd; destruct (cert_cell _ _ Hu) as (_ & _ & _ & R0 & R1).
    - rewrite R0 by lia. now apply conn_refl.
    - destruct R1 as (d & Hd' & Ud & Ld & Dd); [lia|].
      rewrite <- Ld. apply conn8_trans with (y + fst d, x + snd d).
      + apply conn_step with (y, x); [now apply conn_refl | apply (nb8_adj (y, x) d Hd') | exact Ud].
      + apply IH; [exact Ud | lia].
  Qed.

  Lemma cert_sound : labelling_ok U Lb n.
  Proof.
    split; [|split].
    - intros y x Hu. now destruct (cert_cell _ _ Hu) as (A & _).
    - intros [py px] [qy qx] Hp Hq. cbn [fst snd] in *. split.
      + intros E.
        destruct (cert_cell _ _ Hp) as (_ & Dp & _). destruct (cert_cell _ _ Hq) as (_ & Dq & _).
        pose proof (to_root (Z.to_nat (D py px)) py px Hp ltac:(lia)) as Cp.
        pose proof (to_root (Z.to_nat (D qy qx)) qy qx Hq ltac:(lia)) as Cq.
        rewrite <- E in Cq. eapply conn8_trans; [exact Cp | now apply conn8_sym].
      + intros C. now apply same_label in C.
    - exact cert_bg.
  Qed.
End Cert.

Lemma get2_true_in {h w} (g : list (list bool)) y x :
  wf h w g -> get2 false g y x = true -> 0 <= y < Z.of_nat h /\ 0 <= x < Z.of_nat w.
Proof.
  intros Hw E.
  destruct (Z_le_dec 0 y), (Z_lt_dec y (Z.of_nat h)), (Z_le_dec 0 x), (Z_lt_dec x (Z.of_nat w));
    try (rewrite (get2_out false h w g) in E by (auto; lia); discriminate). lia.
Qed.

Lemma sel_check_facts h w U out Lb sel n : sel_check h w U out Lb sel n = true ->
  (forall y x, 0 <= y < Z.of_nat h -> 0 <= x < Z.of_nat w -> out y x = true ->
               U y x = true /\ pnth sel (Lb y x) = (y, x)) /\
  (forall k, 1 <= k <= n -> out (fst (pnth sel k)) (snd (pnth sel k)) = true
                            /\ Lb (fst (pnth sel k)) (snd (pnth sel k)) = k).
Proof.
  unfold sel_check. rewrite andb_true_iff, !forallb_forall. intros [A B]. split.
  - intros y x Hy Hx O. specialize (A (y, x)). cbn [fst snd] in A. rewrite O in A. cbn [implb] in A.
    assert (I : In (y, x) (cells h w)) by (apply In_cells; cbn [fst snd]; auto).
    specialize (A I). rewrite andb_true_iff, pair_eqb_eq in A. exact A.
  - intros k Hk. specialize (B k). rewrite andb_true_iff, Z.eqb_eq in B. apply B.
    apply in_map_iff. exists (k - 1). split; [lia|]. apply In_zrange. lia.
Qed.

(* the checker run on the implementation's ties-not-ok output *)
Theorem noties_check_sound image mask st out Lg Dg roots sel n :
  noties_check image mask st out Lg Dg roots sel n = true ->
  let h := length image in
  let w := length (hd [] image) in
  wf h w out /\
  one_per_component (fun y x => (0 <=? y) && (y <? Z.of_nat h) && (0 <=? x) && (x <? Z.of_nat w)
                                && reg_max_b image mask st y x)
                    (get2 false out).
Proof.
  intros C h w. unfold noties_check in C. cbv zeta in C. fold h w in C.
  rewrite !andb_true_iff in C. destruct C as [[[Wo Wl] CC] SC].
  apply wfb_wf in Wo, Wl. split; [exact Wo|].
  set (U := get2 false (tab h w (reg_max_b image mask st))) in *.
  assert (U_in : forall y x, U y x = true -> 0 <= y < Z.of_nat h /\ 0 <= x < Z.of_nat w).
  { intros y x. apply (get2_true_in _ y x (tab_wf h w _)). }
  assert (Lb_out : forall y x, ~ (0 <= y < Z.of_nat h /\ 0 <= x < Z.of_nat w) -> get2 0 Lg y x = 0).
  { intros y x. now apply get2_out. }
  pose proof (cert_sound h w U (get2 0 Lg) (get2 0 Dg) roots n U_in Lb_out CC) as LO.
  destruct (sel_check_facts _ _ _ _ _ _ _ SC) as [S1 S2].
  assert (OPC : one_per_component U (get2 false out)).
  { apply (one_per_component_of_sel U (get2 0 Lg) n (get2 false out) sel LO); [|exact S2].
    intros y x O. destruct (get2_true_in out y x Wo O) as [Hy Hx]. now apply S1. }
  (* U is the restriction of reg_max_b to the grid *)
  assert (EU : forall y x, U y x = (0 <=? y) && (y <? Z.of_nat h) && (0 <=? x) && (x <? Z.of_nat w)
                                   && reg_max_b image mask st y x).
  { intros y x. unfold U.
    destruct ((0 <=? y) && (y <? Z.of_nat h) && (0 <=? x) && (x <? Z.of_nat w)) eqn:IN.
    - rewrite get2_tab by lia. reflexivity.
    - rewrite (get2_out false h w) by (try apply tab_wf; lia). reflexivity. }
  destruct OPC as [O1 O2]. split.
  - intros y x O. rewrite <- EU. now apply O1.
  - intros p Hp. rewrite <- EU in Hp. destruct (O2 p Hp) as (q & [Oq Cq] & Uq).
    assert (CE : forall a b, conn8 U a b ->
               conn8 (fun y x => (0 <=? y) && (y <? Z.of_nat h) && (0 <=? x) && (x <? Z.of_nat w)
                                 && reg_max_b image mask st y x) a b).
    { induction 1 as [a Ha | a b c Hab IH Hadj Hc].
      - apply conn_refl. now rewrite <- EU.
      - eapply conn_step; [exact IH | exact Hadj | now rewrite <- EU]. }
    assert (CE' : forall a b,
               conn8 (fun y x => (0 <=? y) && (y <? Z.of_nat h) && (0 <=? x) && (x <? Z.of_nat w)
                                 && reg_max_b image mask st y x) a b -> conn8 U a b).
    { induction 1 as [a Ha | a b c Hab IH Hadj Hc].
      - apply conn_refl. now rewrite EU.
      - eapply conn_step; [exact IH | exact Hadj | now rewrite EU]. }
    exists q. split; [split; auto|]. intros q' Oq' Cq'. apply Uq; auto.
Qed.

(* ---------------------------------------------------------------- the model, relative to label / maximum_position *)

Lemma no_true_get2 (g : list (list bool)) y x :
  existsb (existsb (fun b => b)) g = false -> get2 false g y x = false.
Proof.
  intros E. destruct (get2 false g y x) eqn:G; [|reflexivity]. exfalso.
  unfold get2 in G. destruct ((0 <=? y) && (0 <=? x)); [|discriminate].
  set (row := nth (Z.to_nat y) g []) in *.
  destruct (nth_in_or_default (Z.to_nat x) row false) as [I|I]; [|congruence].
  destruct (nth_in_or_default (Z.to_nat y) g []) as [J|J].
  - assert (existsb (existsb (fun b => b)) g = true); [|congruence].
    apply existsb_exists. exists row. split; [exact J|]. apply existsb_exists. exists true. split; [|reflexivity].
    now rewrite <- G.
  - fold row in J. rewrite J in I. contradiction.
Qed.

Section NoTiesModel.
  Variable label : list (list bool) -> list (list Z) * Z.
  Variable ro_distance : list (list bool) -> list (list Z).
  Variable maximum_position : list (list Z) -> list (list Z) -> list Z -> list (Z * Z).

  Theorem one_per_plateau image mask st result labels count :
    let h := length image in
    let w := length (hd [] image) in
    regional_maximum_ties image mask st = Some result ->
    label result = (labels, count) ->
    (* scind.label numbers the 8-components of the ties-allowed set with 1..count *)
    labelling_ok (get2 false result) (get2 0 labels) count ->
    (* maximum_position returns one position per listed label, inside that label *)
    let positions := maximum_position (ro_distance result) labels
                       (map (fun k => k + 1) (zrange (Z.to_nat count))) in
    zlen positions = Z.max 0 count ->
    (forall k, 1 <= k <= count ->
       0 <= fst (pnth positions k) < Z.of_nat h /\ 0 <= snd (pnth positions k) < Z.of_nat w /\
       get2 0 labels (fst (pnth positions k)) (snd (pnth positions k)) = k) ->
    exists out, regional_maximum label ro_distance maximum_position image mask st false = Some out /\
                wf h w out /\ one_per_component (get2 false result) (get2 false out).
  Proof.
    intros h w ET EL LO positions LP MP.
    pose proof (regional_maximum_ties_Some _ _ _ _ ET) as ER. fold h w in ER.
    unfold regional_maximum. rewrite ET.
    destruct (negb (existsb (existsb (fun b => b)) result)) eqn:ANY.
    - exists result. split; [reflexivity|]. split; [rewrite ER; apply tab_wf|].
      apply negb_true_iff in ANY. split.
      + intros y x O. exact O.
      + intros p Hp. rewrite no_true_get2 in Hp by assumption. discriminate.
    - rewrite EL. fold positions. unfold shape2. cbn [fst snd]. fold h w. unfold scatter_true.
      assert (PR : forall p, In p positions ->
                   exists k, 1 <= k <= count /\ p = pnth positions k).
      { intros p Hp. apply In_nth with (d := (-1, -1)) in Hp. destruct Hp as (i & Hi & <-).
        exists (Z.of_nat i + 1). unfold zlen in LP. split; [lia|]. unfold pnth. f_equal. lia. }
      assert (RNG : forallb (fun p => (0 <=? fst p) && (fst p <? Z.of_nat h) && (0 <=? snd p) && (snd p <? Z.of_nat w))
                            positions = true).
      { apply forallb_forall. intros p Hp. destruct (PR p Hp) as (k & Hk & ->).
        destruct (MP k Hk) as (A & B & _). lia. }
      rewrite RNG. eexists. split; [reflexivity|]. split; [apply tab_wf|].
      set (out := tab h w (fun y x => existsb (fun p => (fst p =? y) && (snd p =? x)) positions)).
      apply (one_per_component_of_sel _ (get2 0 labels) count _ positions LO).
      + intros y x O. destruct (get2_true_in out y x (tab_wf h w _) O) as [Hy Hx].
        unfold out in O. rewrite get2_tab in O by assumption. apply existsb_exists in O.
        destruct O as (p & Hp & E). destruct (PR p Hp) as (k & Hk & ->).
        destruct (MP k Hk) as (A & B & Lk).
        assert (Ep : pnth positions k = (y, x)).
        { destruct (pnth positions k) as [a b]. cbn [fst snd] in *. f_equal; lia. }
        rewrite Ep in Lk. cbn [fst snd] in Lk. rewrite Lk. split; [|exact Ep].
        destruct LO as (_ & _ & BG). apply BG. lia.
      + intros k Hk. destruct (MP k Hk) as (A & B & Lk). split; [|exact Lk].
        unfold out. rewrite get2_tab by assumption. apply existsb_exists.
        exists (pnth positions k). split; [|now rewrite !Z.eqb_refl].
        unfold pnth. apply nth_In. unfold zlen in LP. lia.
  Qed.
End NoTiesModel.

(* the hypotheses are satisfiable: the executable instances on an image with two plateaus that
   touch diagonally (one component) and a separate one *)
Definition ex_image : list (list Z) :=
  [[0; 0; 0; 0; 0; 0; 0]; [0; 2; 2; 0; 0; 0; 0]; [0; 2; 2; 0; 0; 5; 0]; [0; 0; 0; 2; 2; 0; 0];
   [0; 0; 0; 2; 0; 0; 0]; [0; 0; 0; 0; 0; 0; 0]].
Definition ex_st : list (list bool) := [[true; true; true]; [true; true; true]; [true; true; true]].
Definition ex_result : list (list bool) :=
  match regional_maximum_ties ex_image None ex_st with Some r => r | None => [] end.
Definition ex_depth : list (list Z) :=
  [[0; 0; 0; 0; 0; 0; 0]; [0; 0; 1; 0; 0; 0; 0]; [0; 1; 1; 0; 0; 0; 0]; [0; 0; 0; 2; 0; 0; 0];
   [0; 0; 0; 3; 0; 0; 0]; [0; 0; 0; 0; 0; 0; 0]].

(* the tie set has three components: the 2x2 plateau with the two pixels hanging on its corner,
   the single pixel of value 5, and the zero pixel (4, 1) all of whose neighbours are zero *)
Example one_per_plateau_example :
  regional_maximum_ties ex_image None ex_st = Some ex_result /\
  snd (label_inst ex_result) = 3 /\
  labelling_ok (get2 false ex_result) (get2 0 (fst (label_inst ex_result))) 3 /\
  (let positions := maximum_position_inst (ro_distance_inst ex_result) (fst (label_inst ex_result)) [1; 2; 3] in
   zlen positions = 3 /\
   forall k, 1 <= k <= 3 ->
     0 <= fst (pnth positions k) < 6 /\ 0 <= snd (pnth positions k) < 7 /\
     get2 0 (fst (label_inst ex_result)) (fst (pnth positions k)) (snd (pnth positions k)) = k) /\
  regional_maximum label_inst ro_distance_inst maximum_position_inst ex_image None ex_st false
  = Some [[false; false; false; false; false; false; false]; [false; true; false; false; false; false; false];
          [false; false; false; false; false; true; false]; [false; false; false; false; false; false; false];
          [false; true; false; false; false; false; false]; [false; false; false; false; false; false; false]].
Proof.
  split; [vm_compute; reflexivity|]. split; [vm_compute; reflexivity|]. split; [|split].
  - apply (cert_sound 6 7 _ _ (get2 0 ex_depth) [(1, 1); (2, 5); (4, 1)] 3).
    + intros y x. apply (get2_true_in ex_result y x). apply wfb_wf. vm_compute. reflexivity.
    + intros y x. apply get2_out. apply wfb_wf. vm_compute. reflexivity.
    + vm_compute. reflexivity.
  - split; [vm_compute; reflexivity|]. intros k Hk.
    assert (K : k = 1 \/ k = 2 \/ k = 3) by lia. destruct K as [-> | [-> | ->]]; vm_compute; intuition congruence.
  - vm_compute. reflexivity.
Qed.
