(* C18 — counting lemmas for the bin-merging loop of rank_order: ranks as "number of kept
   levels not above the pixel, minus one". *)
From Coq Require Import ZArith List Bool Arith Lia Sorted Permutation.
From Centro Require Import Base.SortC18 Model.VecC18 Model.RankC18 Proofs.VecC18Lemmas Proofs.RankIsoC18.
Import ListNotations.
Local Open Scope nat_scope.

(* number of levels of v that are <= x *)
Definition cnt (v : list Z) (x : Z) : nat := length (filter (fun y => (y <=? x)%Z) v).

Lemma cnt_cons a v x : cnt (a :: v) x = (if (a <=? x)%Z then 1 else 0) + cnt v x.
Proof. unfold cnt. cbn [filter]. destruct (a <=? x)%Z; reflexivity. Qed.

Lemma cnt_le_length v x : cnt v x <= length v.
Proof. unfold cnt. induction v as [|a v IH]; cbn [filter length]; [lia|]. destruct (a <=? x)%Z; cbn [length]; lia. Qed.

Lemma cnt_above v x : (forall y, In y v -> (x < y)%Z) -> cnt v x = 0.
Proof.
  induction v as [|a v IH]; intros H; [reflexivity|]. rewrite cnt_cons, IH.
  - destruct (Z.leb_spec a x); [|reflexivity]. specialize (H a (or_introl eq_refl)). lia.
  - intros y Hy. apply H. right; exact Hy.
Qed.

Lemma cnt_all v x : (forall y, In y v -> (y <= x)%Z) -> cnt v x = length v.
Proof.
  induction v as [|a v IH]; intros H; [reflexivity|]. rewrite cnt_cons, IH.
  - destruct (Z.leb_spec a x); [reflexivity|]. specialize (H a (or_introl eq_refl)). lia.
  - intros y Hy. apply H. right; exact Hy.
Qed.

Lemma cnt_mono v x y : (x <= y)%Z -> cnt v x <= cnt v y.
Proof.
  intros H. induction v as [|a v IH]; [reflexivity|]. rewrite !cnt_cons.
  destruct (Z.leb_spec a x), (Z.leb_spec a y); lia.
Qed.

Lemma sorted_lt_head a v y : StronglySorted Z.lt (a :: v) -> In y v -> (a < y)%Z.
Proof. intros HS Hy. inversion HS as [|? ? _ F]; subst. rewrite Forall_forall in F. auto. Qed.

Lemma sorted_lt_tail a v : StronglySorted Z.lt (a :: v) -> StronglySorted Z.lt v.
Proof. intros HS. inversion HS; auto. Qed.

(* the levels below position cnt are <= x, the levels from cnt on are > x *)
Lemma cnt_split v x : StronglySorted Z.lt v ->
  (forall k, k < cnt v x -> (nth k v 0 <= x)%Z) /\
  (forall k, cnt v x <= k < length v -> (x < nth k v 0)%Z).
Proof.
  induction v as [|a v IH]; intros HS.
  - split; intros k Hk; cbn in Hk; lia.
  - specialize (IH (sorted_lt_tail _ _ HS)) as (IA & IB). rewrite cnt_cons.
    destruct (Z.leb_spec a x) as [Hax|Hax].
    + split; intros [|k] Hk; cbn [nth length] in *; try lia.
      * apply IA. lia.
      * apply IB. lia.
    + assert (cnt v x = 0) as E.
      { apply cnt_above. intros y Hy. pose proof (sorted_lt_head _ _ _ HS Hy). lia. }
      rewrite E in *. split; intros [|k] Hk; cbn [nth length] in *; try lia.
      apply IB. lia.
Qed.

Lemma sorted_lt_nth v i j : StronglySorted Z.lt v -> i < j < length v -> (nth i v 0 < nth j v 0)%Z.
Proof.
  intros HS. revert i j. induction HS as [|a v HS IH F]; intros i j H; cbn [length] in H; [lia|].
  destruct j as [|j]; [lia|]. destruct i as [|i]; cbn [nth].
  - rewrite Forall_forall in F. apply F. apply nth_In. lia.
  - apply IH. lia.
Qed.

(* the rank of a level of v is its position *)
Lemma index_of_cnt v x : StronglySorted Z.lt v -> In x v -> index_of x v = cnt v x - 1 /\ 1 <= cnt v x.
Proof.
  induction v as [|a v IH]; intros HS Hx; [destruct Hx|]. rewrite cnt_cons. cbn [index_of].
  destruct Hx as [->|Hx].
  - rewrite Z.eqb_refl. destruct (Z.leb_spec x x); [|lia].
    rewrite cnt_above; [lia|]. intros y Hy. apply (sorted_lt_head _ _ _ HS Hy).
  - pose proof (sorted_lt_head _ _ _ HS Hx). destruct (Z.eqb_spec x a); [lia|].
    destruct (Z.leb_spec a x); [|lia]. destruct (IH (sorted_lt_tail _ _ HS) Hx). lia.
Qed.

(* deleting levels: the count among the kept levels is the number of kept flags in front *)
Lemma compress_count v : StronglySorted Z.lt v -> forall keep x, length keep = length v ->
  cnt (compress keep v) x = nsum (map b2n (firstn (cnt v x) keep)).
Proof.
  induction v as [|a v IH]; intros HS keep x HL.
  - destruct keep; reflexivity.
  - destruct keep as [|b keep]; [discriminate|]. cbn [length] in HL.
    specialize (IH (sorted_lt_tail _ _ HS) keep x ltac:(lia)). rewrite cnt_cons. cbn [compress].
    destruct (Z.leb_spec a x) as [Hax|Hax].
    + cbn [Nat.add firstn map nsum fold_right]. destruct b; cbn [b2n]; [rewrite cnt_cons|]; rewrite IH.
      * destruct (Z.leb_spec a x); [reflexivity|lia].
      * reflexivity.
    + assert (cnt v x = 0) as E.
      { apply cnt_above. intros y Hy. pose proof (sorted_lt_head _ _ _ HS Hy). lia. }
      rewrite E in *. cbn [Nat.add firstn map nsum fold_right] in *.
      destruct b; [rewrite cnt_cons|]; rewrite IH; [|reflexivity].
      destruct (Z.leb_spec a x); [lia|reflexivity].
Qed.

Lemma nsum_b2n_le m : nsum (map b2n m) <= length m.
Proof. induction m as [|b m IH]; cbn [map nsum fold_right length]; [lia|]. fold (nsum (map b2n m)). destruct b; cbn [b2n]; lia. Qed.

Lemma nsum_b2n_lt m k : nth k m true = false -> nsum (map b2n m) < length m.
Proof.
  revert k; induction m as [|b m IH]; intros k H.
  - destruct k; discriminate.
  - cbn [map nsum fold_right length]. fold (nsum (map b2n m)). destruct k as [|k]; cbn [nth] in H.
    + subst b. cbn [b2n]. pose proof (nsum_b2n_le m). lia.
    + specialize (IH k H). destruct b; cbn [b2n]; lia.
Qed.

Lemma map_seq_nth {A} (f : nat -> A) n i d : i < n -> nth i (map f (seq 0 n)) d = f i.
Proof.
  intros H. rewrite (nth_indep _ d (f 0)) by (rewrite map_length, seq_length; exact H).
  rewrite map_nth, seq_nth by exact H. reflexivity.
Qed.

(* a true flag at c >= 1 and a false flag at the end: some true flag is followed by a false one *)
Lemma last_true (D : nat -> bool) n c : c <= n -> D c = true -> D (S n) = false ->
  exists c', c <= c' <= n /\ D c' = true /\ D (S c') = false.
Proof.
  intros Hc. remember (n - c) as d eqn:Ed. revert c Hc Ed. induction d as [|d IH]; intros c Hc Ed T F.
  - assert (c = n) by lia. subst c. exists n. repeat split; auto.
  - destruct (D (S c)) eqn:E.
    + destruct (IH (S c) ltac:(lia) ltac:(lia) E F) as (c' & H1 & H2 & H3). exists c'. repeat split; auto; lia.
    + exists c. repeat split; auto.
Qed.

Lemma list_max_ge l x : In x l -> x <= list_max l.
Proof.
  intros H. pose proof (list_max_le l (list_max l)) as [A _]. specialize (A (le_n _)).
  rewrite Forall_forall in A. auto.
Qed.
