(* C14 — the geometry behind Chrystal's iteration, over Z and without angles.
   For a chord (A, B) and a point P let d(P) = (A-P).(B-P) and c(P) = signed area of (A, B, P);
   d/|c| is the cotangent of the angle A-P-B.  The circles through A and B form the pencil
   d(P) - lambda c(P) = 0, so "P inside the circle through A, B, V" is the polynomial inequality
   c(V) (c(V) d(P) - d(V) c(P)) <= 0 (inscribed-angle theorem in disguise). *)
From Coq Require Import ZArith List Bool Lia ZifyBool.
From Centro Require Import Base.Sx Model.Circle Spec.ChrystalHyp.
Import ListNotations.
Open Scope Z_scope.

Definition IC (a b v p : cpt) : Z := ccross a b v * dot3 a b p - dot3 a b v * ccross a b p.
Definition inK (a b v p : cpt) : Prop := ccross a b v * IC a b v p <= 0.
Definition Aof (a b p : cpt) : Z := dist2 a p * dist2 b p.

Lemma lagrange a b p : Aof a b p = dot3 a b p * dot3 a b p + ccross a b p * ccross a b p.
Proof. unfold Aof, dist2, dot3, ccross. ring. Qed.

Lemma IC_swap_chord a b v p : IC a v b p = - IC a b v p.
Proof. unfold IC, dot3, ccross. ring. Qed.
Lemma ccross_swap a b v : ccross a v b = - ccross a b v.
Proof. unfold ccross. ring. Qed.
Lemma inK_chord a b v p : inK a v b p <-> inK a b v p.
Proof. unfold inK. rewrite IC_swap_chord, ccross_swap. lia. Qed.

Lemma IC_flip a b v p : IC b a v p = - IC a b v p.
Proof. unfold IC, dot3, ccross. ring. Qed.
Lemma ccross_flip a b p : ccross b a p = - ccross a b p.
Proof. unfold ccross. ring. Qed.
Lemma dot3_flip a b p : dot3 b a p = dot3 a b p.
Proof. unfold dot3. ring. Qed.
Lemma inK_flip a b v p : inK b a v p <-> inK a b v p.
Proof. unfold inK. rewrite IC_flip, ccross_flip. lia. Qed.

Lemma circ_D_ccross a b v : circ_D a b v = - 2 * ccross a b v.
Proof. unfold circ_D, ccross. ring. Qed.

(* power of the point P with respect to the model's circumcircle *)
Lemma circum_power a b v p :
  (fst p * circ_D a b v - circ_Ny a b v) * (fst p * circ_D a b v - circ_Ny a b v) +
  (snd p * circ_D a b v - circ_Nx a b v) * (snd p * circ_D a b v - circ_Nx a b v) - circ_Rn a b v
  = 4 * (ccross a b v * IC a b v p).
Proof. unfold circ_Rn, circ_D, circ_Nx, circ_Ny, sq, IC, ccross, dot3. ring. Qed.

Lemma diam_power a b p :
  (fst p * 2 - (fst a + fst b)) * (fst p * 2 - (fst a + fst b)) +
  (snd p * 2 - (snd a + snd b)) * (snd p * 2 - (snd a + snd b)) - dist2 a b = 4 * dot3 a b p.
Proof. unfold dist2, dot3. ring. Qed.

(* the chord grows when an obtuse end point is replaced *)
Lemma chord_grows a b v : dot3 a v b < 0 -> dist2 a b < dist2 a v.
Proof.
  intro H. assert (E : dist2 a v = dist2 a b + dist2 b v - 2 * dot3 a v b) by (unfold dist2, dot3; ring).
  assert (0 <= dist2 b v).
  { unfold dist2. pose proof (Z.square_nonneg (fst b - fst v)). pose proof (Z.square_nonneg (snd b - snd v)). lia. }
  lia.
Qed.

(* ---------------------------------------------------------------- cosine order = cotangent order *)
Lemma sq_le_le x y : 0 <= x -> 0 <= y -> x * x <= y * y -> x <= y.
Proof. intros; nia. Qed.

(* not (cos P > cos V)  ==>  cot P <= cot V, both points off the chord's line *)
Lemma cos_to_cot d1 c1 d2 c2 :
  c1 <> 0 -> c2 <> 0 ->
  sgnsq d1 (d2 * d2 + c2 * c2) <= sgnsq d2 (d1 * d1 + c1 * c1) ->
  d1 * Z.abs c2 <= d2 * Z.abs c1.
Proof.
  intros N1 N2 H. unfold sgnsq in H.
  assert (P1 : 0 < c1 * c1) by nia. assert (P2 : 0 < c2 * c2) by nia.
  assert (A1 : 0 < Z.abs c1) by lia. assert (A2 : 0 < Z.abs c2) by lia.
  assert (S1 : Z.abs c1 * Z.abs c1 = c1 * c1) by nia. assert (S2 : Z.abs c2 * Z.abs c2 = c2 * c2) by nia.
  destruct (Z_lt_le_dec 0 d1) as [D1|D1]; destruct (Z_lt_le_dec 0 d2) as [D2|D2].
  - (* both positive *)
    assert (Z.sgn d1 = 1) by lia. assert (Z.sgn d2 = 1) by lia.
    assert (E : d1 * d1 * (c2 * c2) <= d2 * d2 * (c1 * c1)) by nia.
    apply sq_le_le; [nia|nia|].
    replace (d1 * Z.abs c2 * (d1 * Z.abs c2)) with (d1 * d1 * (Z.abs c2 * Z.abs c2)) by ring.
    replace (d2 * Z.abs c1 * (d2 * Z.abs c1)) with (d2 * d2 * (Z.abs c1 * Z.abs c1)) by ring.
    rewrite S1, S2. exact E.
  - (* d1 > 0 >= d2 : impossible *)
    exfalso. assert (Z.sgn d1 = 1) by lia. assert (Z.sgn d2 * (d2 * d2) <= 0) by nia.
    assert (0 < d1 * d1) by nia. assert (0 < d2 * d2 + c2 * c2) by nia.
    assert (0 < 1 * (d1 * d1) * (d2 * d2 + c2 * c2)) by nia.
    assert (Z.sgn d2 * (d2 * d2) * (d1 * d1 + c1 * c1) <= 0) by nia. nia.
  - (* d1 <= 0 < d2 *)
    assert (d1 * Z.abs c2 <= 0) by nia. assert (0 <= d2 * Z.abs c1) by nia. lia.
  - (* both non-positive *)
    destruct (Z.eq_dec d1 0) as [Z1|Z1]; destruct (Z.eq_dec d2 0) as [Z2|Z2].
    + subst. lia.
    + exfalso. subst d1. assert (Z.sgn d2 = -1) by lia. cbn [Z.sgn] in H. nia.
    + subst d2. assert (d1 * Z.abs c2 <= 0) by nia. lia.
    + assert (Z.sgn d1 = -1) by lia. assert (Z.sgn d2 = -1) by lia.
      assert (E : d2 * d2 * (c1 * c1) <= d1 * d1 * (c2 * c2)) by nia.
      assert (L : (- d2) * Z.abs c1 <= (- d1) * Z.abs c2).
      { apply sq_le_le; [nia|nia|].
        replace (- d2 * Z.abs c1 * (- d2 * Z.abs c1)) with (d2 * d2 * (Z.abs c1 * Z.abs c1)) by ring.
        replace (- d1 * Z.abs c2 * (- d1 * Z.abs c2)) with (d1 * d1 * (Z.abs c2 * Z.abs c2)) by ring.
        rewrite S1, S2. exact E. }
      lia.
Qed.

(* ---------------------------------------------------------------- points on the side of the maximiser *)
(* P on V's side of the chord with cot P <= cot V lies inside the circle through A, B, V *)
Lemma same_side_inside a b v p :
  0 < ccross a b v * ccross a b p ->
  dot3 a b p * Z.abs (ccross a b v) <= dot3 a b v * Z.abs (ccross a b p) ->
  inK a b v p.
Proof.
  intros Side Cot. unfold inK, IC.
  set (cv := ccross a b v) in *. set (cp := ccross a b p) in *.
  set (dv := dot3 a b v) in *. set (dp := dot3 a b p) in *.
  destruct (Z_lt_le_dec 0 cv) as [Pv|Nv].
  - assert (0 < cp) by nia. assert (Z.abs cv = cv) by lia. assert (Z.abs cp = cp) by lia.
    assert (cv * dp - dv * cp <= 0) by lia. nia.
  - assert (cv < 0) by nia. assert (cp < 0) by nia. assert (Z.abs cv = - cv) by lia. assert (Z.abs cp = - cp) by lia.
    assert (0 <= cv * dp - dv * cp) by lia. nia.
Qed.

(* ---------------------------------------------------------------- the replacement step *)
(* All points inside K = circle(A, B, V); the angle at B of triangle A B V is obtuse.  For the new
   chord (A, V): a point seen under an acute angle (d' > 0) lies strictly on the side away from B. *)
Lemma acute_is_far a b v p :
  ccross a v b <> 0 -> dot3 a v b < 0 -> inK a v b p -> 0 < dot3 a v p -> ccross a v b * ccross a v p <= 0.
Proof.
  intros Nb Ob In Ac. unfold inK, IC in In.
  set (cb := ccross a v b) in *. set (cp := ccross a v p) in *.
  set (db := dot3 a v b) in *. set (dp := dot3 a v p) in *.
  destruct (Z_lt_le_dec 0 (cb * cp)) as [Same|Other]; [|exact Other].
  exfalso.
  (* cb^2 dp <= db (cb cp) < 0 but cb^2 dp > 0 *)
  assert (0 < cb * cb) by nia.
  assert (E : cb * (cb * dp - db * cp) = cb * cb * dp - db * (cb * cp)) by ring.
  assert (0 < cb * cb * dp) by nia. assert (db * (cb * cp) < 0) by nia. lia.
Qed.

(* V' on the far side, inside K, acute; P on B's side, inside K: then P is inside circle(A, V, V') *)
Lemma near_side_inside a b v v' p :
  dot3 a v b < 0 -> inK a v b p -> inK a v b v' -> 0 < dot3 a v v' ->
  ccross a v b * ccross a v v' < 0 -> 0 < ccross a v b * ccross a v p ->
  inK a v v' p.
Proof.
  unfold inK, IC. intros Ob InP InV Ac Far Near.
  set (cb := ccross a v b) in *. set (cp := ccross a v p) in *. set (cv := ccross a v v') in *.
  set (db := dot3 a v b) in *. set (dp := dot3 a v p) in *. set (dv := dot3 a v v') in *.
  (* normalise to cb > 0 by flipping all signed areas *)
  assert (G : forall b0 p0 v0 : Z, 0 < b0 -> 0 < p0 -> v0 < 0 ->
            b0 * (b0 * dp - db * p0) <= 0 -> b0 * (b0 * dv - db * v0) <= 0 -> v0 * (v0 * dp - dv * p0) <= 0).
  { intros b0 p0 v0 Hb Hp Hv I1 I2.
    assert (J1 : b0 * dp <= db * p0) by nia. assert (J2 : b0 * dv <= db * v0) by nia.
    (* with w = - v0 > 0 :  w dp <= - dv p0 *)
    assert (K1 : b0 * (- v0) * dp <= db * p0 * (- v0)) by nia.
    assert (K2 : b0 * dv * p0 <= db * v0 * p0) by nia.
    assert (K3 : b0 * ((- v0) * dp + dv * p0) <= 0) by nia.
    assert (K4 : (- v0) * dp + dv * p0 <= 0) by nia.
    nia. }
  destruct (Z_lt_le_dec 0 cb) as [Pb|Nb].
  - apply (G cb cp cv); try assumption; nia.
  - assert (cb < 0) by nia.
    replace (cv * (cv * dp - dv * cp)) with ((- cv) * ((- cv) * dp - dv * (- cp))) by ring.
    apply (G (- cb) (- cp) (- cv)); nia.
Qed.
