(* C10 — read_back book-keeping.  (1) read_back is a list of cell updates: every entry of the x lists
   either is skipped or adds +/- its flow to one cell (rb_target mirrors the code); hence every
   in-range cell of the result is the cell of F0 plus the sum of the contributions aimed at it.
   (2) Regrouped by node pairs, and with x_caps_consistent: the amount read back into a cell is the
   NET CAPACITY FLOW between the node pairs that are mapped to that cell. *)
From Coq Require Import ZArith List Bool Lia ZifyBool.
From Centro Require Import Base.Sx Base.EmdBase Model.Emd Model.EmdMcf
  Proofs.EmdDuality Proofs.EmdDijkstra Proofs.EmdMcfCert Proofs.EmdMetric Proofs.EmdConserve Proofs.EmdRun Proofs.EmdXCaps.
Import ListNotations.
Open Scope Z_scope.

Definition inr (F : list (list Z)) (i j : nat) : bool := (i <? length F)%nat && (j <? length (nth i F []))%nat.

Lemma mz_upd2 F a b g i j :
  mz (upd2 F a b g) i j = if (a =? i)%nat && (b =? j)%nat && inr F i j then g (mz F i j) else mz F i j.
Proof.
  unfold mz, upd2, inr. rewrite (nth_upd_local _ []).
  destruct (a =? i)%nat eqn:EA; cbn [andb]; [|reflexivity]. apply Nat.eqb_eq in EA. subst a.
  destruct (i <? length F)%nat eqn:EI; cbn [andb]; [|rewrite andb_false_r; reflexivity].
  rewrite (nth_upd_local _ 0). destruct (b =? j)%nat eqn:EB; cbn [andb]; [|reflexivity]. apply Nat.eqb_eq in EB. subst b. reflexivity.
Qed.

Lemma inr_upd2 F a b g i j : inr (upd2 F a b g) i j = inr F i j.
Proof.
  unfold inr, upd2. rewrite upd_length_local, (nth_upd_local _ []).
  destruct ((a =? i)%nat && (a <? length F)%nat); [rewrite upd_length_local|]; reflexivity.
Qed.

Definition apply_op {A} (tgt : A -> option (nat * nat * Z)) (F : list (list Z)) (o : A) : list (list Z) :=
  match tgt o with None => F | Some (a, b, s) => upd2 F a b (fun y => y + s) end.
Definition op_contrib {A} (tgt : A -> option (nat * nat * Z)) (i j : nat) (o : A) : Z :=
  match tgt o with Some (a, b, s) => if (a =? i)%nat && (b =? j)%nat then s else 0 | None => 0 end.

Lemma fold_ops_cell {A} (tgt : A -> option (nat * nat * Z)) i j : forall l F, inr F i j = true ->
  mz (fold_left (apply_op tgt) l F) i j = mz F i j + zsum (map (op_contrib tgt i j) l).
Proof.
  induction l as [|o l IH]; intros F H; cbn [fold_left map zsum]; [lia|].
  unfold apply_op at 2, op_contrib at 1. destruct (tgt o) as [[[a b] s]|].
  - rewrite IH by (rewrite inr_upd2; auto). rewrite mz_upd2, H, andb_true_r.
    destruct ((a =? i)%nat && (b =? j)%nat); lia.
  - rewrite IH by auto. lia.
Qed.

(* the cell an entry of x[nf] is added to, with its sign *)
Definition rb_target (r : reduced) (p : nat * (nat * Z * Z)) : option (nat * nat * Z) :=
  let nf := fst p in let en := snd p in
  let N := r_N r in
  let newT := (length (r_old r) - 2)%nat in
  let to := fst (fst en) in
  let flow := snd en in
  if (nf =? newT)%nat || (to =? newT)%nat then None else
  let rev := (to <? nf)%nat in
  let i := if rev then nn (r_old r) to else nn (r_old r) nf in
  let jn := if rev then nn (r_old r) nf else nn (r_old r) to in
  if flow =? 0 then None else
  if (jn <? N)%nat then None else
  let j := (jn - N)%nat in
  let '(i, j) := if r_swap r then (j, i) else (i, j) in
  Some (i, j, if rev then - flow else flow).

Definition entries (x : list (list (nat * Z * Z))) : list (nat * (nat * Z * Z)) :=
  flat_map (fun fx => map (fun en => (fst fx, en)) (snd fx)) (combine (seq 0 (length x)) x).

Lemma read_back_ops r x F0 : read_back r x F0 = fold_left (apply_op (rb_target r)) (entries x) F0.
Proof.
  unfold read_back, entries. generalize (combine (seq 0 (length x)) x) as L. intros L. revert F0.
  induction L as [|fx L IH]; intros F0; cbn [fold_left flat_map]; [reflexivity|].
  rewrite fold_left_app, <- IH. f_equal. cbv zeta.
  generalize (snd fx) as row. intros row. revert F0.
  induction row as [|en row IHr]; intros F0; cbn [fold_left map]; [reflexivity|].
  rewrite <- IHr. f_equal. unfold apply_op, rb_target. cbn [fst snd]. cbv zeta.
  destruct ((fst fx =? length (r_old r) - 2)%nat || (fst (fst en) =? length (r_old r) - 2)%nat); [reflexivity|].
  destruct (snd en =? 0); [reflexivity|].
  destruct (fst (fst en) <? fst fx)%nat;
    match goal with |- context [if (?a <? r_N r)%nat then _ else _] => destruct (a <? r_N r)%nat end; try reflexivity;
    destruct (r_swap r); reflexivity.
Qed.

(* closed form of read_back, cell by cell *)
Theorem read_back_cells r x F0 i j : inr F0 i j = true ->
  mz (read_back r x F0) i j = mz F0 i j + zsum (map (op_contrib (rb_target r) i j) (entries x)).
Proof. intros H. rewrite read_back_ops. apply fold_ops_cell. exact H. Qed.

(* ---------------------------------------------------------------- regrouped by node pairs *)
Lemma zsum_flat_map {A B} (f : B -> Z) (g : A -> list B) : forall L,
  zsum (map f (flat_map g L)) = zsum (map (fun a => zsum (map f (g a))) L).
Proof. induction L as [|a L IH]; cbn [flat_map map zsum]; [reflexivity|]. rewrite map_app, zsum_app, IH. reflexivity. Qed.

Lemma combine_seq_nth {A} (d : A) (G : nat -> A -> Z) : forall (x : list A) s,
  map (fun fx => G (fst fx) (snd fx)) (combine (seq s (length x)) x) =
  map (fun u => G u (nth (u - s) x d)) (seq s (length x)).
Proof.
  induction x as [|a x IH]; intros s; cbn [length seq combine map]; [reflexivity|].
  rewrite Nat.sub_diag. cbn [nth]. f_equal. rewrite IH. apply map_ext_in. intros u Hu. apply in_seq in Hu.
  replace (u - s)%nat with (S (u - S s)) by lia. reflexivity.
Qed.

Lemma entries_sum (f : nat * (nat * Z * Z) -> Z) x :
  zsum (map f (entries x)) = zsum (map (fun u => zsum (map (fun en => f (u, en)) (nth u x []))) (seq 0 (length x))).
Proof.
  unfold entries. rewrite zsum_flat_map.
  rewrite (zsum_map_ext _ (fun fx => (fun u row => zsum (map (fun en => f (u, en)) row)) (fst fx) (snd fx)))
    by (intros fx _; rewrite map_map; reflexivity).
  rewrite (combine_seq_nth [] (fun u row => zsum (map (fun en => f (u, en)) row)) x 0).
  apply zsum_map_ext. intros u _. rewrite Nat.sub_0_r. reflexivity.
Qed.

Lemma weighted_total nv (w : nat -> Z) (l : list (nat * Z * Z)) : (forall en, In en l -> (fst (fst en) < nv)%nat) ->
  zsum (map (fun en => w (fst (fst en)) * snd en) l) = zsum (map (fun t => w t * capto t l) (seq 0 nv)).
Proof.
  intros H. unfold capto.
  rewrite (zsum_map_ext (fun t => w t * zsum (map (fun en : nat * Z * Z => if (fst (fst en) =? t)%nat then snd en else 0) l))
                        (fun t => zsum (map (fun en : nat * Z * Z => w t * (if (fst (fst en) =? t)%nat then snd en else 0)) l)))
    by (intros t _; symmetry; apply zsum_map_scale).
  rewrite (zsum_swap (fun t (en : nat * Z * Z) => w t * (if (fst (fst en) =? t)%nat then snd en else 0)) (seq 0 nv) l).
  apply zsum_map_ext. intros en Hen.
  rewrite (zsum_map_ext _ (fun t => (w t * snd en) * ind (fst (fst en)) t)) by (intros t _; unfold ind; destruct (fst (fst en) =? t)%nat; lia).
  rewrite (zsum_pick (fun t => w t * snd en)) by (specialize (H en Hen); lia). reflexivity.
Qed.

Section Pairs.
Variable r : reduced.
Variables i j : nat.

(* 1 iff the node pair u < v (new names) is read back into cell (i, j) *)
Definition sel (u v : nat) : Z :=
  if (u =? length (r_old r) - 2)%nat || (v =? length (r_old r) - 2)%nat then 0 else
  if (nn (r_old r) v <? r_N r)%nat then 0 else
  let '(a, b) := if r_swap r then ((nn (r_old r) v - r_N r)%nat, nn (r_old r) u)
                 else (nn (r_old r) u, (nn (r_old r) v - r_N r)%nat) in
  if (a =? i)%nat && (b =? j)%nat then 1 else 0.
Definition coef (nf t : nat) : Z := if (t <? nf)%nat then - sel t nf else sel nf t.

Lemma contrib_coef p : op_contrib (rb_target r) i j p = coef (fst p) (fst (fst (snd p))) * snd (snd p).
Proof.
  destruct p as [nf [[t cs] fl]]. unfold op_contrib, rb_target, coef, sel. cbn [fst snd]. cbv zeta.
  destruct (nf =? length (r_old r) - 2)%nat; destruct (t =? length (r_old r) - 2)%nat; cbn [orb];
    try (destruct (t <? nf)%nat; lia).
  destruct (Z.eqb_spec fl 0) as [->|NZ]; [lia|].
  destruct (t <? nf)%nat.
  - destruct (nn (r_old r) nf <? r_N r)%nat; [lia|]. destruct (r_swap r); destruct (_ && _); lia.
  - destruct (nn (r_old r) t <? r_N r)%nat; [lia|]. destruct (r_swap r); destruct (_ && _); lia.
Qed.

Lemma regroup nv (X : nat -> nat -> Z) : (forall u, X u u = 0) ->
  zsum (map (fun u => zsum (map (fun v => coef u v * X u v) (seq 0 nv))) (seq 0 nv)) =
  zsum (map (fun u => zsum (map (fun v => if (u <? v)%nat then sel u v * (X u v - X v u) else 0) (seq 0 nv))) (seq 0 nv)).
Proof.
  intros D.
  transitivity (zsum (map (fun u => zsum (map (fun v => if (u <? v)%nat then sel u v * X u v else 0) (seq 0 nv))) (seq 0 nv))
              - zsum (map (fun u => zsum (map (fun v => if (u <? v)%nat then sel u v * X v u else 0) (seq 0 nv))) (seq 0 nv))).
  - rewrite (zsum_swap (fun u v => if (u <? v)%nat then sel u v * X v u else 0) (seq 0 nv) (seq 0 nv)).
    rewrite <- zsum_map_sub. apply zsum_map_ext. intros u _. rewrite <- zsum_map_sub. apply zsum_map_ext. intros v _.
    unfold coef. destruct (Nat.lt_total u v) as [L|[E|L]].
    + replace (u <? v)%nat with true by (symmetry; apply Nat.ltb_lt; auto).
      replace (v <? u)%nat with false by (symmetry; apply Nat.ltb_ge; lia). lia.
    + subst v. rewrite Nat.ltb_irrefl, D. lia.
    + replace (u <? v)%nat with false by (symmetry; apply Nat.ltb_ge; lia).
      replace (v <? u)%nat with true by (symmetry; apply Nat.ltb_lt; auto). lia.
  - rewrite <- zsum_map_sub. apply zsum_map_ext. intros u _. rewrite <- zsum_map_sub. apply zsum_map_ext. intros v _.
    destruct (u <? v)%nat; lia.
Qed.
End Pairs.

(* read_back_net_capacity: at Done of the flagged run with the flag clear, what read_back adds to an
   in-range cell (i, j) is the net CAPACITY flow (the flow that is proved of minimum cost) of the node
   pairs u < v that the code maps to that cell *)
Theorem read_back_net_capacity nv c e st fl r F0 i j : length c = nv -> length e = nv ->
  (forall l tc, In l c -> In tc l -> (fst tc < nv)%nat /\ 0 <= snd tc) ->
  mcf_iter_f ssp_levels (mcf_init e c) false = (MDone st, fl) -> fl = false ->
  inr F0 i j = true ->
  mz (read_back r (m_x st) F0) i j = mz F0 i j +
    zsum (map (fun u => zsum (map (fun v =>
       if (u <? v)%nat then sel r i j u v * (capto u (nth v (m_rb st) []) - capto v (nth u (m_rb st) [])) else 0)
       (seq 0 nv))) (seq 0 nv)).
Proof.
  intros LC LE GC H F IN.
  destruct (x_caps_consistent nv c LC e st fl LE GC H F) as [XC XD].
  pose proof (iter_skel ssp_levels (mcf_init e c) false) as SK. rewrite H in SK. cbn [fst] in SK.
  destruct (skel_facts nv c e (m_x st) LC LE GC SK) as [LX TG].
  rewrite (read_back_cells r (m_x st) F0 i j IN). f_equal.
  rewrite entries_sum, LX.
  rewrite (zsum_map_ext _ (fun u => zsum (map (fun v => coef r i j u v * capto v (nth u (m_x st) [])) (seq 0 nv)))).
  - rewrite (regroup r i j nv (fun u v => capto v (nth u (m_x st) [])) XD).
    apply zsum_map_ext. intros u _. apply zsum_map_ext. intros v _. destruct (u <? v)%nat; [|reflexivity]. rewrite XC. reflexivity.
  - intros u _. rewrite <- (weighted_total nv (coef r i j u) (nth u (m_x st) []) (TG u)).
    apply zsum_map_ext. intros en _. rewrite contrib_coef. reflexivity.
Qed.
