(* C03: optimality of the main loop with a strictly order-reflecting key (Full64), for all inputs:
   layer 1  popped keys are non-decreasing (kstar below every row key),
   layer 2  a finalised pixel is never changed,
   layer 3  relaxation invariant: every finalised pixel has relaxed all its mask neighbours,
   hence at termination no edge is relaxable and every reported distance is the minimum over all
   mask paths (in the code's own arithmetic: step + accumulated, binary64), attained by a path
   from a seed carrying the reported label.  The four facts about binary64 used (comparison =
   order of bit patterns, x <= s + x, monotonicity of s + _, -1 is not a non-negative double) are
   section hypotheses here and are discharged in Proofs/PropFloatFacts.v. *)
From Coq Require Import ZArith List Bool Lia ZifyBool Permutation.
From Coq Require PrimFloat.
From Centro Require Import Base.PropFloat Model.PropHeap Model.Propagate Spec.PropCheck Proofs.PropKey
     Proofs.PropHeapInv Proofs.PropHeapKey Proofs.PropGrid Proofs.PropDijkstra Proofs.PropLabels Proofs.PropFuel.
Import ListNotations.
Open Scope Z_scope.
Ltac Zify.zify_post_hook ::= Z.to_euclidean_division_equations.

Definition bitsD (x : float) : Z := bits_of_float x.
Definition okF (x : float) : Prop := ok64 (bits_of_float x).
Definition mkrow (key : keymode) (b l : Z) (v : Z * Z) : row := [most_sig b; least_sig key b; l; fst v; snd v].

Lemma okF_zero : okF PrimFloat.zero.
Proof. unfold okF, ok64. vm_compute. split; discriminate. Qed.
Lemma bits_zero : bitsD PrimFloat.zero = 0.
Proof. vm_compute. reflexivity. Qed.
Lemma not_okF_neg_one : ~ okF neg_one.
Proof. unfold okF, ok64. vm_compute. intros [_ H]. apply H. reflexivity. Qed.

Lemma pair_eq_dec : forall a b : Z * Z, {a = b} + {a <> b}.
Proof. decide equality; apply Z.eq_dec. Qed.
Lemma wf5_mkrow : forall k b l v, wf5 (mkrow k b l v).
Proof. reflexivity. Qed.
Lemma mkrow_pixel : forall k k' a b l l' v v', mkrow k a l v = mkrow k' b l' v' -> v = v'.
Proof. intros k k' a b l l' [v1 v2] [w1 w2] H. unfold mkrow in H. cbn [fst snd] in H. inversion H. reflexivity. Qed.

Section Opt.
Variable image : list (list float).
Variable mask : list (list bool).
Variables m n : Z.
Variable weight : float.
Variable labels : list (list Z).
Variable key : keymode.             (* layout of the heap key *)
Variable EV : Z -> Prop.             (* class of bit patterns on which the key reflects order *)
Definition M : nat := (Z.to_nat m * Z.to_nat n)%nat.

Notation labv := (labv labels).
Notation maskv := (maskv mask).
Notation stepF := (stepF image m n weight).
Notation inr := (inr m n).

Hypothesis F_ltb : forall x y, okF x -> okF y -> (PrimFloat.ltb x y = true <-> bitsD x < bitsD y).
Hypothesis F_eqb : forall x, okF x -> PrimFloat.eqb x neg_one = false.
Hypothesis F_add : forall s x, okF s -> okF x -> okF (PrimFloat.add s x) /\ bitsD x <= bitsD (PrimFloat.add s x).
Hypothesis F_mono : forall s x y, okF s -> okF x -> okF y -> bitsD x <= bitsD y ->
  bitsD (PrimFloat.add s x) <= bitsD (PrimFloat.add s y).
Hypothesis W_ok : forall u v, inr u -> inr v -> adj8 u v -> okF (stepF u v).
Hypothesis L_nonneg : forall v, inr v -> 0 <= labv v.
Hypothesis Hshape : shape labels m n.
Hypothesis K_le : forall a b l l' v v', ok64 a -> ok64 b -> EV a -> EV b ->
  (le_key (mkrow key a l v) (mkrow key b l' v') <-> a <= b).
Hypothesis E0 : EV 0.

(* x = cost of a mask path from a masked seed labelled l to v *)
Inductive reachL : Z * Z -> float -> Z -> nat -> Prop :=
| rl_seed : forall s, inr s -> 0 < labv s -> maskv s -> reachL s PrimFloat.zero (labv s) O
| rl_step : forall u v x l k, reachL u x l k -> adj8 u v -> inr v -> maskv v ->
                              reachL v (PrimFloat.add (stepF u v) x) l (S k).

(* the key reflects order on the cost of every path of at most m*n steps *)
Hypothesis H_E : forall v x l k, reachL v x l k -> (k <= M)%nat -> EV (bitsD x).

Lemma reachL_facts : forall v x l k, reachL v x l k -> inr v /\ maskv v /\ okF x /\ 0 < l.
Proof.
  induction 1 as [s Hi Hl Hm | u v x l k H IH Ha Hi Hm].
  - split; [exact Hi|]. split; [exact Hm|]. split; [apply okF_zero | exact Hl].
  - destruct IH as [Hu [_ [Hx Hl]]]. split; [exact Hi|]. split; [exact Hm|]. split; [|exact Hl].
    apply F_add; [apply W_ok; assumption | exact Hx].
Qed.

Notation Dv dist v := (get2 PrimFloat.zero dist (fst v) (snd v)).
Notation Lv lab v := (get2 0 lab (fst v) (snd v)).

(* c = number of pixels not yet finalised: a row pushed now has a witness path of at most M - c steps *)
Definition rowOK (kstar : Z) (c : nat) (dist : list (list float)) (r : row) : Prop :=
  exists b l v x k, r = mkrow key b l v /\ ok64 b /\ 0 < l /\ inr v /\ maskv v /\
                    okF (Dv dist v) /\ bitsD (Dv dist v) <= b /\ kstar <= b /\ bitsD x = b /\
                    reachL v x l k /\ (k + c <= M)%nat.

Definition nbr_ok (dist : list (list float)) (u w : Z * Z) : Prop :=
  okF (Dv dist w) /\ bitsD (Dv dist w) <= bitsD (PrimFloat.add (stepF u w) (Dv dist u)).

Definition fin_ok (kstar : Z) (c : nat) (lab : list (list Z)) (dist : list (list float)) (u : Z * Z) : Prop :=
  maskv u /\ okF (Dv dist u) /\ bitsD (Dv dist u) <= kstar /\
  (exists x k, bitsD x = bitsD (Dv dist u) /\ reachL u x (Lv lab u) k /\ (S k + c <= M)%nat).

Record INV (kstar : Z) (lab : list (list Z)) (dist : list (list float)) (hp : heap) : Prop := {
  i_k0 : 0 <= kstar;
  i_shl : shape lab m n;
  i_shd : shape dist m n;
  i_lab : forall v, inr v -> 0 <= Lv lab v;
  i_b1 : forall v, inr v -> Dv dist v = neg_one \/ okF (Dv dist v);
  i_bs : forall v, inr v -> 0 < labv v -> Dv dist v = PrimFloat.zero;
  i_even : forall v, inr v -> okF (Dv dist v) -> EV (bitsD (Dv dist v));
  i_rows : Forall (rowOK kstar (count0 lab) dist) (rows hp);
  i_pend : forall v, inr v -> maskv v -> Lv lab v = 0 -> okF (Dv dist v) ->
                     exists l, In (mkrow key (bitsD (Dv dist v)) l v) (rows hp);
  i_fin : forall u, inr u -> Lv lab u <> 0 -> fin_ok kstar (count0 lab) lab dist u;
  i_nbr : forall u w, inr u -> Lv lab u <> 0 -> adj8 u w -> inr w -> maskv w -> nbr_ok dist u w;
  i_heap : weak_inv (rows hp)
}.

Lemma rowOK_wf5 : forall k c dist l, Forall (rowOK k c dist) l -> Forall wf5 l.
Proof.
  intros k c dist l H. apply Forall_forall. intros r Hr.
  destruct (proj1 (Forall_forall _ _) H r Hr) as [b [l0 [v [x [k0 [-> _]]]]]]. apply wf5_mkrow.
Qed.
Lemma rowOK_E : forall k c dist b l v, rowOK k c dist (mkrow key b l v) -> ok64 b ->
  exists b', mkrow key b l v = mkrow key b' l v /\ EV b' /\ ok64 b' /\ k <= b'.
Proof.
  intros k c dist b l v (b' & l' & v' & x & k0 & Eq & Hb & _ & _ & _ & _ & _ & Hk & Hbx & Hr & Hc) _.
  exists b'. assert (Hv : v = v') by (eapply mkrow_pixel; exact Eq).
  assert (Hl : l = l') by (unfold mkrow in Eq; inversion Eq; reflexivity). subst v' l'.
  split; [exact Eq|]. split; [rewrite <- Hbx; apply (H_E _ _ _ _ Hr); lia|]. split; assumption.
Qed.

(* ---------- one relaxation ---------- *)
Section Relax.
Variable kstar : Z.
Variable lab1 : list (list Z).
Variable u : Z * Z.
Variable d0 : float.
Variable l : Z.
Variable c : nat.                   (* count0 lab1 *)
Hypothesis Hk0 : 0 <= kstar.
Hypothesis Hshl : shape lab1 m n.
Hypothesis Hlab1 : forall v, inr v -> 0 <= Lv lab1 v.
Hypothesis Hu : inr u.
Hypothesis Hul : Lv lab1 u = l.
Hypothesis Hl : 0 < l.
Hypothesis Hd0 : okF d0.
Hypothesis Hkd : bitsD d0 = kstar.
Hypothesis Hux : exists x k, bitsD x = bitsD d0 /\ reachL u x l k /\ (S k + c <= M)%nat.

Record PRE (P : Z * Z -> Prop) (dist : list (list float)) (hp : heap) : Prop := {
  p_shd : shape dist m n;
  p_b1 : forall v, inr v -> Dv dist v = neg_one \/ okF (Dv dist v);
  p_bs : forall v, inr v -> 0 < labv v -> Dv dist v = PrimFloat.zero;
  p_even : forall v, inr v -> okF (Dv dist v) -> EV (bitsD (Dv dist v));
  p_rows : Forall (rowOK kstar c dist) (rows hp);
  p_pend : forall v, inr v -> maskv v -> Lv lab1 v = 0 -> okF (Dv dist v) ->
                     exists l', In (mkrow key (bitsD (Dv dist v)) l' v) (rows hp);
  p_fin : forall u', inr u' -> Lv lab1 u' <> 0 -> fin_ok kstar c lab1 dist u';
  p_nbr : forall u' w, inr u' -> Lv lab1 u' <> 0 -> u' <> u -> adj8 u' w -> inr w -> maskv w -> nbr_ok dist u' w;
  p_u : Dv dist u = d0;
  p_dn : forall o, P o -> inr (fst u + fst o, snd u + snd o) -> maskv (fst u + fst o, snd u + snd o) ->
                   nbr_ok dist u (fst u + fst o, snd u + snd o);
  p_heap : weak_inv (rows hp)
}.

Lemma PRE_weaken : forall (P Q : Z * Z -> Prop) dist hp, (forall o, Q o -> P o) -> PRE P dist hp -> PRE Q dist hp.
Proof. intros P Q dist hp H [A B C C' D E' F G I J K]. constructor; auto. Qed.

Lemma eqb_neg_one : PrimFloat.eqb neg_one neg_one = true.
Proof. vm_compute. reflexivity. Qed.

Lemma relax_opt : forall P dist hp o, In o offsets8 -> PRE P dist hp ->
  PRE (fun o' => o' = o \/ P o')
      (fst (relax key image mask m n weight lab1 l (fst u) (snd u) d0 (dist, hp) o))
      (snd (relax key image mask m n weight lab1 l (fst u) (snd u) d0 (dist, hp) o)).
Proof.
  intros P dist hp o Ho HP. destruct HP as [Hshd Hb1 Hbs Heven Hrows Hpend Hfin Hnbr Hpu Hdn Hheap].
  unfold relax. cbn [fst snd].
  set (i2 := fst u + fst o). set (j2 := snd u + snd o). set (w := (i2, j2)).
  assert (Hadj : adj8 u w) by (exists o; split; [exact Ho | reflexivity]).
  (* the state is unchanged: only the clause for o has to be added *)
  assert (Keep : (inr w -> maskv w -> nbr_ok dist u w) -> PRE (fun o' => o' = o \/ P o') dist hp).
  { intros Hc. constructor; try assumption. intros o' [->|Ho']; [exact Hc | apply Hdn; exact Ho']. }
  destruct ((i2 <? 0) || (i2 >=? m) || (j2 <? 0) || (j2 >=? n)) eqn:Hb; cbn [fst snd].
  { apply Keep. intros [Hi Hj]. unfold w in Hi, Hj. cbn [fst snd] in Hi, Hj. exfalso. lia. }
  assert (Hw : inr w) by (unfold PropDijkstra.inr, w; cbn [fst snd]; lia).
  assert (Hstep : okF (stepF u w)) by (apply W_ok; assumption).
  destruct (F_add (stepF u w) d0 Hstep Hd0) as [Hdok Hdge].
  destruct (0 <? get2 0 lab1 i2 j2) eqn:Hlw; cbn [fst snd].
  { apply Keep. intros _ _. assert (Hne : Lv lab1 w <> 0) by (unfold w; cbn [fst snd]; lia).
    destruct (Hfin w Hw Hne) as [_ [Hok [Hle _]]]. split; [exact Hok|]. rewrite Hpu. unfold bitsD in *. lia. }
  destruct (get2 false mask i2 j2) eqn:Hm; cbn [negb fst snd].
  2:{ apply Keep. intros _ Hmw. unfold PropDijkstra.maskv, w in Hmw. cbn [fst snd] in Hmw. congruence. }
  assert (Hmw : maskv w) by exact Hm.
  assert (Hlw0 : Lv lab1 w = 0) by (pose proof (Hlab1 w Hw) as H0; unfold w in *; cbn [fst snd] in *; lia).
  assert (Hwu : w <> u) by (intros E; rewrite E in Hlw0; lia).
  change (step_cost image (fst u) (snd u) i2 j2 m n weight) with (stepF u w).
  set (d := PrimFloat.add (stepF u w) d0) in *.
  set (cur := get2 PrimFloat.zero dist i2 j2).
  assert (Hcur : cur = Dv dist w) by reflexivity.
  destruct (PrimFloat.eqb cur neg_one || PrimFloat.ltb d cur) eqn:Hc; cbn [fst snd].
  2:{ apply Keep. intros _ _. apply orb_false_elim in Hc. destruct Hc as [Hc1 Hc2].
      destruct (Hb1 w Hw) as [E|Hok]; [rewrite <- Hcur in E; rewrite E, eqb_neg_one in Hc1; discriminate|].
      split; [exact Hok|]. rewrite Hpu. fold d. rewrite <- Hcur in *.
      destruct (F_ltb d cur Hdok Hok) as [_ H2]. unfold bitsD in *.
      destruct (Z_lt_le_dec (bits_of_float d) (bits_of_float cur)) as [Hlt|Hle]; [|exact Hle].
      rewrite (H2 Hlt) in Hc2. discriminate. }
  (* the distance of w is lowered to d and a row is pushed *)
  assert (Hlow : okF cur -> bitsD d < bitsD cur).
  { intros Hok. rewrite (F_eqb cur Hok) in Hc. cbn [orb] in Hc. apply (F_ltb d cur Hdok Hok). exact Hc. }
  assert (Hnoseed : ~ 0 < labv w).
  { intros Hs. assert (E : cur = PrimFloat.zero) by (rewrite Hcur; apply Hbs; assumption).
    assert (Hok : okF cur) by (rewrite E; apply okF_zero). pose proof (Hlow Hok) as H.
    rewrite E, bits_zero in H. destruct Hdok as [H0 _]. unfold bitsD in H. lia. }
  set (dist' := set2 dist i2 j2 d).
  assert (Gsame : Dv dist' w = d) by (unfold dist', w; cbn [fst snd]; apply (get2_set2_same m n); assumption).
  assert (Goth : forall v, inr v -> v <> w -> Dv dist' v = Dv dist v).
  { intros [a b] Hv Hne. unfold dist'. cbn [fst snd]. apply (get2_set2_other m n); try assumption.
    intros E. apply Hne. symmetry. exact E. }
  assert (Gle : forall v, inr v -> okF (Dv dist v) -> okF (Dv dist' v) /\ bitsD (Dv dist' v) <= bitsD (Dv dist v)).
  { intros v Hv Hok. destruct (pair_eq_dec v w) as [->|Hne].
    - rewrite Gsame. split; [exact Hdok|]. rewrite <- Hcur in *. pose proof (Hlow Hok). lia.
    - rewrite (Goth v Hv Hne). split; [exact Hok | lia]. }
  destruct Hux as [xu [ku [Hxu [Hru Hku]]]]. destruct (reachL_facts _ _ _ _ Hru) as [_ [Hmu [Hxok _]]].
  assert (Hbx : bitsD (PrimFloat.add (stepF u w) xu) = bitsD d).
  { unfold d. pose proof (F_mono (stepF u w) xu d0 Hstep Hxok Hd0). pose proof (F_mono (stepF u w) d0 xu Hstep Hd0 Hxok). lia. }
  assert (Hrw : reachL w (PrimFloat.add (stepF u w) xu) l (S ku)) by (apply rl_step with (u := u); assumption).
  assert (HEd : EV (bitsD d)) by (rewrite <- Hbx; apply (H_E _ _ _ _ Hrw); lia).
  assert (Hnew : rowOK kstar c dist' (mkrow key (bitsD d) l w)).
  { exists (bitsD d), l, w, (PrimFloat.add (stepF u w) xu), (S ku). rewrite Gsame.
    repeat (split; try assumption); try (unfold bitsD in *; lia); try exact Hdok. }
  assert (Hold : forall r, rowOK kstar c dist r -> rowOK kstar c dist' r).
  { intros r [b [l0 [v [x [k0 [Eq [Hb0 [Hl0 [Hv [Hmv [Hok [Hle [Hkb [Hbx' [Hr Hcc]]]]]]]]]]]]]]].
    destruct (Gle v Hv Hok) as [Hok' Hle']. exists b, l0, v, x, k0. repeat (split; try assumption). lia. }
  pose proof (heap_multiset_push hp (mkrow key (bitsD d) l w)) as Hperm.
  constructor.
  - apply set2_shape; [exact Hshd | destruct Hw; assumption].
  - intros v Hv. destruct (pair_eq_dec v w) as [->|Hne]; [right; rewrite Gsame; exact Hdok|].
    rewrite (Goth v Hv Hne). apply Hb1. exact Hv.
  - intros v Hv Hs. destruct (pair_eq_dec v w) as [->|Hne]; [contradiction|]. rewrite (Goth v Hv Hne). apply Hbs; assumption.
  - intros v Hv Hok. destruct (pair_eq_dec v w) as [->|Hne]; [rewrite Gsame; exact HEd|].
    rewrite (Goth v Hv Hne) in *. apply Heven; assumption.
  - eapply Permutation_Forall; [apply Permutation_sym; exact Hperm|]. constructor; [exact Hnew|].
    apply Forall_forall. intros r Hr. apply Hold. exact (proj1 (Forall_forall _ _) Hrows r Hr).
  - intros v Hv Hmv Hlv Hok. destruct (pair_eq_dec v w) as [->|Hne].
    + exists l. rewrite Gsame. eapply Permutation_in; [apply Permutation_sym; exact Hperm|]. left. reflexivity.
    + rewrite (Goth v Hv Hne) in *. destruct (Hpend v Hv Hmv Hlv Hok) as [l' Hin]. exists l'.
      eapply Permutation_in; [apply Permutation_sym; exact Hperm|]. right. exact Hin.
  - intros u' Hu' Hne. assert (Hd : u' <> w) by (intros ->; contradiction).
    destruct (Hfin u' Hu' Hne) as [A [B [C D]]]. unfold fin_ok. rewrite (Goth u' Hu' Hd). auto.
  - intros u' w' Hu' Hne Hneu Hadj' Hw' Hmw'. assert (Hd : u' <> w) by (intros ->; contradiction).
    destruct (Hnbr u' w' Hu' Hne Hneu Hadj' Hw' Hmw') as [A B]. unfold nbr_ok. rewrite (Goth u' Hu' Hd).
    destruct (Gle w' Hw' A) as [A' B']. split; [exact A' | lia].
  - rewrite (Goth u Hu (fun E => Hwu (eq_sym E))). exact Hpu.
  - intros o' Ho' Hw' Hmw'. unfold nbr_ok. rewrite (Goth u Hu (fun E => Hwu (eq_sym E))), Hpu.
    destruct Ho' as [->|Ho'].
    + fold i2 j2 w. rewrite Gsame. split; [exact Hdok | unfold d; lia].
    + destruct (Hdn o' Ho' Hw' Hmw') as [A B]. rewrite Hpu in B.
      destruct (Gle _ Hw' A) as [A' B']. split; [exact A' | lia].
  - apply (heap_weak_inv_push hp (mkrow key (bitsD d) l w)); [eapply rowOK_wf5; exact Hrows | apply wf5_mkrow | exact Hheap].
Qed.

Lemma relax_fold_opt : forall offs P dist hp, incl offs offsets8 -> PRE P dist hp ->
  PRE (fun o' => In o' offs \/ P o')
      (fst (fold_left (relax key image mask m n weight lab1 l (fst u) (snd u) d0) offs (dist, hp)))
      (snd (fold_left (relax key image mask m n weight lab1 l (fst u) (snd u) d0) offs (dist, hp))).
Proof.
  induction offs as [|o r IH]; intros P dist hp Hi HP; cbn [fold_left].
  - cbn [fst snd]. eapply PRE_weaken; [|exact HP]. intros o [[]|H]; exact H.
  - pose proof (relax_opt P dist hp o (Hi o (or_introl eq_refl)) HP) as H1.
    destruct (relax key image mask m n weight lab1 l (fst u) (snd u) d0 (dist, hp) o) as [dist1 hp1] eqn:E.
    cbn [fst snd] in H1.
    pose proof (IH _ dist1 hp1 (fun x Hx => Hi x (or_intror Hx)) H1) as H2.
    eapply PRE_weaken; [|exact H2]. cbn beta. intros o' [[->|H]|H]; auto.
Qed.
End Relax.

(* ---------- the loop ---------- *)
Lemma in_pop : forall (h : heap) e hp1 r, Permutation (rows h) (e :: rows hp1) ->
  (In r (rows hp1) -> In r (rows h)) /\ (In r (rows h) -> r = e \/ In r (rows hp1)).
Proof.
  intros h e hp1 r HP. split.
  - intros H. eapply Permutation_in; [apply Permutation_sym; exact HP|]. right. exact H.
  - intros H. pose proof (Permutation_in _ HP H) as [E|E]; [left; symmetry; exact E | right; exact E].
Qed.

Lemma rowOK_mono : forall k k' c c' dist r, k' <= k -> (c' <= c)%nat -> rowOK k c dist r -> rowOK k' c' dist r.
Proof.
  intros k k' c c' dist r Hk Hc (b & l & v & x & k0 & Eq & Hb & Hl & Hv & Hm & Hok & Hle & Hkb & Hbx & Hr & Hcc).
  exists b, l, v, x, k0. repeat (split; try assumption); lia.
Qed.

Lemma loop_opt : forall fuel st st' kstar,
  INV kstar (s_lab st) (s_dist st) (s_hp st) ->
  loop key image mask m n weight fuel st = (st', true) ->
  exists k', INV k' (s_lab st') (s_dist st') (s_hp st') /\ rows (s_hp st') = [].
Proof.
  induction fuel as [|f IH]; intros st st' kstar HI HL; cbn [loop] in HL; [discriminate|].
  destruct (rows (s_hp st)) as [|r0 rest] eqn:Hrows.
  - inversion HL. subst st'. exists kstar. split; [exact HI | exact Hrows].
  - assert (Hne : rows (s_hp st) <> []) by (rewrite Hrows; discriminate).
    destruct HI as [Hk0 Hshl Hshd Hlab Hb1 Hbs Heven Hrw Hpend Hfin Hnbr Hheap].
    pose proof (heap_multiset_pop (s_hp st) Hne) as HP.
    destruct (heap_weak_inv_pop (s_hp st) (rowOK_wf5 _ _ _ _ Hrw) Hheap Hne) as [Hheap1 [_ Hmin]].
    destruct (heappop (s_hp st)) as [e hp1] eqn:Hpop. cbn [fst snd] in HP, Hheap1, Hmin.
    set (c := count0 (s_lab st)) in *.
    assert (HF : Forall (rowOK kstar c (s_dist st)) (e :: rows hp1)) by (eapply Permutation_Forall; eassumption).
    inversion HF as [|? ? He Hrest]. subst.
    destruct He as (b & l & v & x & kx & Ee & Hb & Hl & Hv & Hmv & Hok & Hle & Hkb & Hbx & Hr & Hcx).
    assert (HEb : EV b) by (rewrite <- Hbx; apply (H_E _ _ _ _ Hr); lia).
    subst e. unfold mkrow in HL. cbn [nth] in HL. fold (mkrow key b l v) in *.
    destruct (get2 0 (s_lab st) (fst v) (snd v) =? 0) eqn:Hz.
    + (* v is finalised now *)
      assert (Hlv0 : Lv (s_lab st) v = 0) by lia.
      destruct (Hpend v Hv Hmv Hlv0 Hok) as [l' Hin'].
      assert (Hbe : b = bitsD (Dv (s_dist st) v)).
      { pose proof (Hmin _ Hin') as Hm. apply (K_le b _ l l' v v Hb Hok HEb (Heven v Hv Hok)) in Hm. unfold bitsD in *. lia. }
      set (lab1 := set2 (s_lab st) (fst v) (snd v) l) in *.
      set (d0 := Dv (s_dist st) v) in *.
      assert (Gs : Lv lab1 v = l) by (unfold lab1; apply (get2_set2_same m n); [exact Hshl | destruct v; exact Hv]).
      assert (Go : forall a, PropDijkstra.inr m n a -> a <> v -> Lv lab1 a = Lv (s_lab st) a).
      { intros [a1 a2] Ha Hne'. unfold lab1. clear - Ha Hne' Hv Hshl. destruct v as [v1 v2]. cbn [fst snd] in *.
        apply (get2_set2_other m n); try assumption. intros E. apply Hne'. symmetry. exact E. }
      (* one pixel less to finalise *)
      assert (Hc1 : (count0 lab1 + 1 = c)%nat).
      { unfold lab1, set2, c. pose proof (shape_row m n Z (s_lab st) (fst v) Hshl (proj1 Hv)) as Hrl.
        destruct Hshl as [Hs1 Hs2]. destruct Hv as [Hv1 Hv2].
        apply count0_upd; [lia|]. apply zeros_upd; [lia | | lia]. unfold get2 in Hlv0. exact Hlv0. }
      set (c1 := count0 lab1) in *.
      assert (HPRE : PRE b lab1 v d0 c1 (fun _ => False) (s_dist st) hp1).
      { constructor; try assumption.
        - apply Forall_forall. intros r Hr'. pose proof (proj1 (Forall_forall _ _) Hrest r Hr') as Hro.
          destruct Hro as (b' & l0 & v' & x' & k' & E' & Hb' & Hl' & Hv' & Hmv' & Hok' & Hle' & Hkb' & Hbx' & Hr'' & Hc').
          exists b', l0, v', x', k'. repeat (split; try assumption); [|lia].
          pose proof (Hmin r (proj1 (in_pop _ _ _ r HP) Hr')) as Hm. rewrite E' in Hm.
          assert (HEb' : EV b') by (rewrite <- Hbx'; apply (H_E _ _ _ _ Hr''); lia).
          apply (K_le b b' l l0 v v' Hb Hb' HEb HEb') in Hm. exact Hm.
        - intros a Ha Hma Hla Hoka. assert (Hav : a <> v) by (intros ->; lia).
          rewrite (Go a Ha Hav) in Hla. destruct (Hpend a Ha Hma Hla Hoka) as [la Hina]. exists la.
          destruct (proj2 (in_pop _ _ _ _ HP) Hina) as [E|E]; [|exact E].
          exfalso. apply mkrow_pixel in E. contradiction.
        - intros a Ha Hla. destruct (pair_eq_dec a v) as [->|Hav].
          + unfold fin_ok. rewrite Gs. split; [exact Hmv|]. split; [exact Hok|]. split; [unfold bitsD, d0 in *; lia|].
            exists x, kx. split; [unfold bitsD, d0 in *; lia|]. split; [exact Hr | lia].
          + rewrite (Go a Ha Hav) in Hla. destruct (Hfin a Ha Hla) as [A [B [C [y [ky [D [F G]]]]]]].
            unfold fin_ok. rewrite (Go a Ha Hav). split; [exact A|]. split; [exact B|]. split; [lia|].
            exists y, ky. split; [exact D|]. split; [exact F | lia].
        - intros a w Ha Hla Hav. rewrite (Go a Ha Hav) in Hla. apply Hnbr; assumption.
        - reflexivity.
        - intros o [].
      }
      assert (Hux : exists x0 k0, bitsD x0 = bitsD d0 /\ reachL v x0 l k0 /\ (S k0 + c1 <= M)%nat).
      { exists x, kx. split; [unfold bitsD, d0 in *; lia|]. split; [exact Hr | lia]. }
      assert (Hlab1 : forall a, PropDijkstra.inr m n a -> 0 <= Lv lab1 a).
      { intros a Ha. destruct (pair_eq_dec a v) as [->|Hav]; [rewrite Gs; lia | rewrite (Go a Ha Hav); apply Hlab; exact Ha]. }
      assert (Hshl1 : shape lab1 m n) by (apply set2_shape; [exact Hshl | destruct Hv; assumption]).
      pose proof (relax_fold_opt b lab1 v d0 l c1 Hlab1 Hv Gs Hl Hok (eq_sym Hbe) Hux offsets8 _ _ _ (incl_refl _) HPRE) as HF2.
      destruct (fold_left (relax key image mask m n weight lab1 l (fst v) (snd v) d0) offsets8 (s_dist st, hp1))
        as [dist1 hp2] eqn:Hfold.
      cbn [fst snd] in HF2. destruct HF2 as [A1 A2 A3 A3' A4 A5 A6 A7 A8 A9 A10].
      apply (IH (mkst lab1 dist1 hp2) st' b); [|exact HL]. cbn [s_lab s_dist s_hp].
      constructor; try assumption.
      * destruct Hb; lia.
      * intros a w Ha Hla Hadj Hw Hmw. destruct (pair_eq_dec a v) as [->|Hav]; [|apply A7; assumption].
        destruct Hadj as [o [Ho ->]]. apply A9; [left; exact Ho | exact Hw | exact Hmw].
    + (* stale row of an already finalised pixel: dropped *)
      assert (Hlvn : Lv (s_lab st) v <> 0) by lia.
      apply (IH (mkst (s_lab st) (s_dist st) hp1) st' kstar); [|exact HL]. cbn [s_lab s_dist s_hp].
      constructor; try assumption.
      intros a Ha Hma Hla Hoka. destruct (Hpend a Ha Hma Hla Hoka) as [la Hina]. exists la.
      destruct (proj2 (in_pop _ _ _ _ HP) Hina) as [E|E]; [|exact E].
      exfalso. apply mkrow_pixel in E. subst a. contradiction.
Qed.

(* ---------- initial state ---------- *)
Lemma init_INV :
  let dist0 := map (map (fun l : Z => if 0 <? l then PrimFloat.zero else neg_one)) labels in
  let lab0 := map (map (fun _ : Z => 0)) labels in
  let kb := bits_of_float PrimFloat.zero in
  let pq := flat_map (fun ij : Z * Z =>
                        let l := get2 0 labels (fst ij) (snd ij) in
                        if negb (l =? 0) && get2 false mask (fst ij) (snd ij)
                        then [[most_sig kb; least_sig key kb; l; fst ij; snd ij]] else [])
                     (coords m n) in
  INV 0 lab0 dist0 (heap_from_rows pq).
Proof.
  intros dist0 lab0 kb pq.
  assert (GD : forall v, inr v -> Dv dist0 v = if 0 <? labv v then PrimFloat.zero else neg_one).
  { intros [a b] Hv. unfold dist0, PropDijkstra.labv. cbn [fst snd].
    exact (get2_map2 m n _ _ (fun l : Z => if 0 <? l then PrimFloat.zero else neg_one) labels a b 0 PrimFloat.zero Hshape Hv). }
  assert (GL : forall v, inr v -> Lv lab0 v = 0).
  { intros [a b] Hv. unfold lab0. cbn [fst snd]. exact (get2_map2 m n _ _ (fun _ : Z => 0) labels a b 0 0 Hshape Hv). }
  assert (Hpq : forall r, In r pq <-> exists v, inr v /\ labv v <> 0 /\ maskv v /\ r = mkrow key 0 (labv v) v).
  { intros r. unfold pq. rewrite in_flat_map. split.
    - intros [[a b] [Hc Hr]]. apply coords_In in Hc. cbn [fst snd] in Hr.
      destruct (negb (get2 0 labels a b =? 0) && get2 false mask a b) eqn:E; [|destruct Hr].
      destruct Hr as [<-|[]]. apply andb_prop in E. destruct E as [E1 E2].
      exists (a, b). split; [unfold PropDijkstra.inr; cbn [fst snd]; lia|]. split; [unfold PropDijkstra.labv; cbn [fst snd]; lia|].
      split; [exact E2|]. reflexivity.
    - intros [[a b] [Hv [Hl [Hm ->]]]]. exists (a, b). split; [apply coords_In; destruct Hv; cbn [fst snd] in *; lia|].
      cbn [fst snd]. unfold PropDijkstra.labv, PropDijkstra.maskv in *. cbn [fst snd] in *.
      rewrite Hm. replace (negb (get2 0 labels a b =? 0)) with true by lia. left. reflexivity. }
  assert (Hc0 : count0 lab0 = M) by (unfold lab0, M; apply count0_zero_map; exact Hshape).
  constructor.
  - lia.
  - apply map2_shape. exact Hshape.
  - apply map2_shape. exact Hshape.
  - intros v Hv. rewrite (GL v Hv). lia.
  - intros v Hv. rewrite (GD v Hv). destruct (0 <? labv v); [right; apply okF_zero | left; reflexivity].
  - intros v Hv Hs. rewrite (GD v Hv). replace (0 <? labv v) with true by lia. reflexivity.
  - intros v Hv Hok. rewrite (GD v Hv) in *. destruct (0 <? labv v); [rewrite bits_zero; exact E0 | exfalso; exact (not_okF_neg_one Hok)].
  - unfold heap_from_rows. cbn [rows]. apply Forall_forall. intros r Hr. apply Hpq in Hr.
    destruct Hr as [v [Hv [Hl [Hm ->]]]]. pose proof (L_nonneg v Hv) as H0.
    assert (Hpos : 0 < labv v) by lia.
    assert (ED : Dv dist0 v = PrimFloat.zero) by (rewrite (GD v Hv); replace (0 <? labv v) with true by lia; reflexivity).
    exists 0, (labv v), v, PrimFloat.zero, O. rewrite ED, bits_zero.
    repeat (split; try assumption); try lia; try apply okF_zero; try (unfold ok64, bits_inf; lia); try exact bits_zero.
    apply rl_seed; assumption.
  - intros v Hv Hm _ Hok. rewrite (GD v Hv) in *. destruct (0 <? labv v) eqn:E; [|exfalso; apply not_okF_neg_one; exact Hok].
    exists (labv v). rewrite bits_zero. unfold heap_from_rows. cbn [rows]. apply Hpq. exists v.
    repeat (split; try assumption). lia.
  - intros u Hu Hne. rewrite (GL u Hu) in Hne. contradiction.
  - intros u w Hu Hne. rewrite (GL u Hu) in Hne. contradiction.
  - unfold heap_from_rows. cbn [rows]. apply (heap_weak_inv_init pq (0, 0)). intros r Hr. apply Hpq in Hr.
    destruct Hr as [v [_ [_ [_ ->]]]]. destruct key; reflexivity.
Qed.

(* ---------- the theorem ---------- *)
Theorem dijkstra_optimal_sec : forall lo d,
  propagate key image labels mask m n weight = Some (lo, d) ->
  forall v, inr v -> labv v = 0 ->
    (forall x l k, reachL v x l k -> okF (Dv d v) /\ bitsD (Dv d v) <= bitsD x) /\
    (okF (Dv d v) -> exists x k, bitsD x = bitsD (Dv d v) /\ reachL v x (get2 0 lo (fst v) (snd v)) k) /\
    (Dv d v = neg_one \/ okF (Dv d v)).
Proof.
  intros lo d HP v Hv Hl0. pose proof HP as HP0. unfold propagate in HP.
  match type of HP with context [loop _ _ _ _ _ _ ?fuel ?st0] =>
    destruct (loop key image mask m n weight fuel st0) as [st ok] eqn:HL; set (S0 := st0) in * end.
  destruct ok; [|discriminate]. inversion HP. subst lo d. clear HP.
  pose proof init_INV as HI0. cbv zeta in HI0.
  destruct (loop_opt _ S0 st 0 HI0 HL) as [k [HI Hempty]].
  destruct HI as [Hk0 Hshl Hshd Hlab Hb1 Hbs Heven Hrw Hpend Hfin Hnbr Hheap].
  (* every masked pixel with a distance is finalised *)
  assert (Hdone : forall a, inr a -> maskv a -> okF (Dv (s_dist st) a) -> Lv (s_lab st) a <> 0).
  { intros a Ha Hma Hoka Ez. destruct (Hpend a Ha Hma Ez Hoka) as [l' Hin]. rewrite Hempty in Hin. destruct Hin. }
  (* potential: no relaxable edge at termination *)
  assert (Hpot : forall a x l k0, reachL a x l k0 -> okF (Dv (s_dist st) a) /\ bitsD (Dv (s_dist st) a) <= bitsD x).
  { induction 1 as [s Hi Hls Hm | a b x l k0 H IH Hadj Hi Hm].
    - rewrite (Hbs s Hi Hls). split; [apply okF_zero | lia].
    - destruct IH as [Hoka Hlea]. destruct (reachL_facts _ _ _ _ H) as [Ha [Hma [Hxok _]]].
      pose proof (Hdone a Ha Hma Hoka) as Hfa.
      destruct (Hnbr a b Ha Hfa Hadj Hi Hm) as [Hokb Hleb]. split; [exact Hokb|].
      pose proof (F_mono (stepF a b) (Dv (s_dist st) a) x (W_ok a b Ha Hi Hadj) Hoka Hxok Hlea). lia. }
  split; [exact (Hpot v)|]. split; [|apply Hb1; exact Hv].
  intros Hok. cbn [fst snd].
  rewrite (get2_zip m n (fun p => if 0 <? snd p then snd p else fst p) (s_lab st) labels (fst v) (snd v) Hshl Hshape)
    by (destruct v; exact Hv).
  cbn [fst snd]. unfold PropDijkstra.labv in Hl0. rewrite Hl0. change (0 <? 0) with false. cbv iota.
  (* v has a distance: it is masked (an unmasked non-seed pixel is never written) *)
  destruct (Lv (s_lab st) v =? 0) eqn:Ez.
  - exfalso. assert (Ez0 : Lv (s_lab st) v = 0) by lia.
    (* dist ok but never finalised: impossible for masked pixels; unmasked pixels keep -1 by dijkstra_sound *)
    pose proof (dijkstra_sound key image labels mask m n weight _ _ Hshape L_nonneg HP0 v Hv) as DS. cbv zeta in DS.
    destruct DS as [D1|[[_ D2]|D3]].
    + rewrite D1 in Hok. exact (not_okF_neg_one Hok).
    + unfold PropDijkstra.labv in D2. lia.
    + assert (Hmv : maskv v).
      { inversion D3 as [s Hi Hls Hm | a b x H Hadj Hi Hm]; subst; [unfold PropDijkstra.labv in Hls; lia | exact Hm]. }
      exact (Hdone v Hv Hmv Hok Ez0).
  - assert (Hne : Lv (s_lab st) v <> 0) by lia. destruct (Hfin v Hv Hne) as [_ [_ [_ [x [kx [Hx1 [Hx2 _]]]]]]]. exists x, kx. split; assumption.
Qed.
End Opt.
