(* C14 — the Chrystal model never reports a circle that is too large: whatever circle
   [chrystal h] returns, every circle enclosing the hull points h has at least its radius.
   (The returned circle passes through two diametral points of h, or through three points of h
   whose triangle has no obtuse angle, and that is a minimality certificate.)  Hence the model's
   circle is the minimum enclosing circle as soon as it encloses h. *)
From Coq Require Import ZArith QArith List Bool Lia Lqa ZifyBool.
From Centro Require Import Base.Sx Model.Circle Spec.MecSpec Proofs.MecProofs.
Import ListNotations.

(* ---------------------------------------------------------------- algebra over Q *)
Open Scope Q_scope.

Lemma sq_pos (D : Q) : ~ D == 0 -> 0 < D * D.
Proof.
  intro N. destruct (Qlt_le_dec D 0) as [L|L].
  - setoid_replace (D * D) with ((- D) * (- D)) by ring. apply Qmult_lt_0_compat; lra.
  - assert (0 < D) by (destruct (Qlt_le_dec 0 D) as [G|G]; [exact G|exfalso; apply N; lra]).
    apply Qmult_lt_0_compat; assumption.
Qed.

Lemma diam_alg (y0 x0 y1 x1 : Q) ex ey rho :
  d2 y0 x0 ex ey <= rho -> d2 y1 x1 ex ey <= rho ->
  d2 y0 x0 y1 x1 / 4 <= rho.
Proof.
  intros B0 B1.
  eapply (mec_certificate_alg y0 x0 y1 x1 y0 x0 1 1 0 ((y0 + y1) / 2) ((x0 + x1) / 2)); try lra.
  - field.
  - field.
  - intros _. unfold d2. field.
  - intros _. unfold d2. field.
  - exact B0.
  - exact B1.
  - exact B0.
Qed.

Definition qD (y0 x0 y1 x1 yv xv : Q) : Q := 2 * (x0 * (y1 - yv) + x1 * (yv - y0) + xv * (y0 - y1)).
Definition qs (y x : Q) : Q := y * y + x * x.
Definition qNx (y0 x0 y1 x1 yv xv : Q) : Q :=
  qs y0 x0 * (y1 - yv) + qs y1 x1 * (yv - y0) + qs yv xv * (y0 - y1).
Definition qNy (y0 x0 y1 x1 yv xv : Q) : Q :=
  qs y0 x0 * (xv - x1) + qs y1 x1 * (x0 - xv) + qs yv xv * (x1 - x0).
Definition qdot (ay ax b_y bx cy cx : Q) : Q := (ay - cy) * (b_y - cy) + (ax - cx) * (bx - cx).

Lemma circum_alg (y0 x0 y1 x1 yv xv : Q) :
  let D := qD y0 x0 y1 x1 yv xv in
  let Nx := qNx y0 x0 y1 x1 yv xv in
  let Ny := qNy y0 x0 y1 x1 yv xv in
  ~ D == 0 ->
  0 <= qdot y1 x1 yv xv y0 x0 -> 0 <= qdot y0 x0 yv xv y1 x1 -> 0 <= qdot y0 x0 y1 x1 yv xv ->
  forall ex ey rho,
    d2 y0 x0 ex ey <= rho -> d2 y1 x1 ex ey <= rho -> d2 yv xv ex ey <= rho ->
    ((y0 * D - Ny) * (y0 * D - Ny) + (x0 * D - Nx) * (x0 * D - Nx)) / (D * D) <= rho.
Proof.
  intros D Nx Ny ND A0 A1 AV ex ey rho B0 B1 BV.
  pose proof (sq_pos D ND) as DD.
  eapply (mec_certificate_alg y0 x0 y1 x1 yv xv
            (d2 y1 x1 yv xv * qdot y1 x1 yv xv y0 x0)
            (d2 y0 x0 yv xv * qdot y0 x0 yv xv y1 x1)
            (d2 y0 x0 y1 x1 * qdot y0 x0 y1 x1 yv xv)
            (Ny / D) (Nx / D)).
  - apply Qmult_le_0_compat; [apply d2_nonneg|exact A0].
  - apply Qmult_le_0_compat; [apply d2_nonneg|exact A1].
  - apply Qmult_le_0_compat; [apply d2_nonneg|exact AV].
  - assert (E : d2 y1 x1 yv xv * qdot y1 x1 yv xv y0 x0 + d2 y0 x0 yv xv * qdot y0 x0 yv xv y1 x1 +
                d2 y0 x0 y1 x1 * qdot y0 x0 y1 x1 yv xv == (1 # 2) * (D * D)).
    { unfold D, qD, d2, qdot. ring. }
    rewrite E. lra.
  - unfold Ny, qNy, qs, d2, qdot. fold D. unfold D, qD. field; intro Z0; apply ND; unfold D, qD; lra.
  - unfold Nx, qNx, qs, d2, qdot. fold D. unfold D, qD. field; intro Z0; apply ND; unfold D, qD; lra.
  - intros _. unfold d2, Ny, Nx, qNy, qNx, qs, D, qD. field; intro Z0; apply ND; unfold D, qD; lra.
  - intros _. unfold d2, Ny, Nx, qNy, qNx, qs, D, qD. field; intro Z0; apply ND; unfold D, qD; lra.
  - intros _. unfold d2, Ny, Nx, qNy, qNx, qs, D, qD. field; intro Z0; apply ND; unfold D, qD; lra.
  - exact B0.
  - exact B1.
  - exact BV.
Qed.

(* ---------------------------------------------------------------- from Z to Q *)

Ltac push_inj :=
  unfold Z.sub;
  repeat (rewrite inject_Z_plus || rewrite inject_Z_mult || rewrite inject_Z_opp).

Definition iy (p : cpt) : Q := inject_Z (fst p).
Definition ix (p : cpt) : Q := inject_Z (snd p).

Lemma inj_dist2 a b : inject_Z (dist2 a b) == d2 (iy a) (ix a) (iy b) (ix b).
Proof. unfold dist2, d2, iy, ix. push_inj. ring. Qed.

Lemma inj_dot3 a b c : inject_Z (dot3 a b c) == qdot (iy a) (ix a) (iy b) (ix b) (iy c) (ix c).
Proof. unfold dot3, qdot, iy, ix. push_inj. ring. Qed.

Lemma inj_D a b c : inject_Z (circ_D a b c) == qD (iy a) (ix a) (iy b) (ix b) (iy c) (ix c).
Proof. unfold circ_D, qD, iy, ix. push_inj. change (inject_Z 2) with 2. ring. Qed.

Lemma inj_Nx a b c : inject_Z (circ_Nx a b c) == qNx (iy a) (ix a) (iy b) (ix b) (iy c) (ix c).
Proof. unfold circ_Nx, qNx, qs, sq, iy, ix. push_inj. ring. Qed.

Lemma inj_Ny a b c : inject_Z (circ_Ny a b c) == qNy (iy a) (ix a) (iy b) (ix b) (iy c) (ix c).
Proof. unfold circ_Ny, qNy, qs, sq, iy, ix. push_inj. ring. Qed.

Lemma inj_Rn a b c :
  inject_Z (circ_Rn a b c) ==
  (iy a * inject_Z (circ_D a b c) - inject_Z (circ_Ny a b c)) * (iy a * inject_Z (circ_D a b c) - inject_Z (circ_Ny a b c)) +
  (ix a * inject_Z (circ_D a b c) - inject_Z (circ_Nx a b c)) * (ix a * inject_Z (circ_D a b c) - inject_Z (circ_Nx a b c)).
Proof. unfold circ_Rn, iy, ix. cbv zeta. push_inj. ring. Qed.

(* "never too large": d <> 0 and every circle enclosing h has squared radius >= rn/d^2 *)
Definition LowerBound (h : list cpt) (d rn : Z) : Prop :=
  d <> 0%Z /\ forall ex ey rho, Encloses h ex ey rho -> inject_Z rn / inject_Z (d * d) <= rho.

Lemma diam_LB h P0 P1 ny nx d rn :
  In P0 h -> In P1 h -> diam P0 P1 = CCircle ny nx d rn -> LowerBound h d rn.
Proof.
  intros I0 I1 E. unfold diam in E. inversion E; subst. split; [discriminate|].
  intros ex ey rho En.
  change (inject_Z (2 * 2)) with 4. rewrite inj_dist2.
  apply (diam_alg _ _ _ _ ex ey rho).
  - exact (En P0 I0).
  - exact (En P1 I1).
Qed.

Lemma circum_LB h P0 P1 V ny nx d rn :
  In P0 h -> In P1 h -> In V h ->
  (0 <= dot3 P1 V P0)%Z -> (0 <= dot3 P0 V P1)%Z -> (0 <= dot3 P0 P1 V)%Z ->
  circum P0 P1 V = CCircle ny nx d rn -> LowerBound h d rn.
Proof.
  intros I0 I1 IV A0 A1 AV E. unfold circum in E.
  destruct (circ_D P0 P1 V =? 0)%Z eqn:ED; [discriminate|].
  inversion E; subst. apply Z.eqb_neq in ED. split; [exact ED|].
  intros ex ey rho En.
  rewrite inj_Rn, inject_Z_mult, inj_D, inj_Ny, inj_Nx.
  apply (circum_alg (iy P0) (ix P0) (iy P1) (ix P1) (iy V) (ix V)) with (ex := ex) (ey := ey).
  - rewrite <- inj_D. intro Z0. apply ED.
    unfold Qeq, inject_Z in Z0. cbn [Qnum Qden] in Z0. lia.
  - rewrite <- inj_dot3. change 0 with (inject_Z 0). rewrite <- Zle_Qle. exact A0.
  - rewrite <- inj_dot3. change 0 with (inject_Z 0). rewrite <- Zle_Qle. exact A1.
  - rewrite <- inj_dot3. change 0 with (inject_Z 0). rewrite <- Zle_Qle. exact AV.
  - exact (En P0 I0).
  - exact (En P1 I1).
  - exact (En V IV).
Qed.

(* ---------------------------------------------------------------- the scan and the loop *)
Open Scope Z_scope.

Lemma best_vertex_good (h0 : list cpt) s0 s1 S0 S1 :
  forall h k best,
    (forall i, (i < length h)%nat -> nth (k + i) h0 (0, 0) = nth i h (0, 0)) ->
    (k + length h = length h0)%nat ->
    (forall j d A, best = Some (j, d, A) -> (j < length h0)%nat /\ d = dot3 S0 S1 (nth j h0 (0, 0))) ->
    forall j d A, best_vertex h k s0 s1 S0 S1 best = Some (j, d, A) ->
                  (j < length h0)%nat /\ d = dot3 S0 S1 (nth j h0 (0, 0)).
Proof.
  induction h as [|v t IH]; intros k best Nth Len Good j d A E.
  - cbn [best_vertex] in E. eapply Good; eassumption.
  - cbn [best_vertex] in E. cbn [length] in Len.
    eapply (IH (S k)); [| |  |exact E].
    + intros i Hi. specialize (Nth (S i)). cbn [length nth] in Nth.
      replace (S k + i)%nat with (k + S i)%nat by lia. apply Nth. lia.
    + lia.
    + intros j' d' A' E'.
      assert (Hv : v = nth k h0 (0, 0)).
      { specialize (Nth O). cbn [length nth] in Nth. rewrite Nat.add_0_r in Nth. symmetry. apply Nth. lia. }
      destruct ((k =? s0)%nat || (k =? s1)%nat) eqn:Sk; [eapply Good; exact E'|].
      destruct best as [[[bj bd] bA]|].
      * destruct (cos_gt (dot3 S0 S1 v) (dist2 S0 v * dist2 S1 v) bd bA) eqn:C.
        -- inversion E'; subst. split; [lia|reflexivity].
        -- eapply Good; exact E'.
      * inversion E'; subst. split; [lia|reflexivity].
Qed.

Lemma chrystal_loop_LB (h : list cpt) : forall fuel s0 s1 ny nx d rn,
  (s0 < length h)%nat -> (s1 < length h)%nat ->
  chrystal_loop fuel h s0 s1 = CCircle ny nx d rn -> LowerBound h d rn.
Proof.
  induction fuel as [|f IH]; intros s0 s1 ny nx d rn L0 L1 E; [discriminate|].
  cbn [chrystal_loop] in E.
  set (S0 := nth s0 h (0, 0)) in *. set (S1 := nth s1 h (0, 0)) in *.
  assert (I0 : In S0 h) by (apply nth_In; exact L0).
  assert (I1 : In S1 h) by (apply nth_In; exact L1).
  revert E.
  destruct (best_vertex h 0 s0 s1 S0 S1 None) as [[[k dv] A]|] eqn:B.
  - assert (G : (k < length h)%nat /\ dv = dot3 S0 S1 (nth k h (0, 0))).
    { eapply (best_vertex_good h s0 s1 S0 S1 h 0%nat None); [| | |exact B].
      - intros i _. reflexivity.
      - reflexivity.
      - intros; discriminate. }
    destruct G as [Lk Ed].
    destruct (dv <=? 0) eqn:Dv; [intro E; eapply (diam_LB h S0 S1); eassumption|].
    set (V := nth k h (0, 0)) in *.
    assert (IV : In V h) by (apply nth_In; exact Lk).
    destruct ((0 <=? dot3 S1 V S0) && (0 <=? dot3 S0 V S1)) eqn:C2.
    + intro E. eapply (circum_LB h S0 S1 V); try eassumption; lia.
    + destruct (dot3 S1 V S0 <? 0) eqn:Ob; intro E.
      * eapply IH; [exact Lk|exact L1|exact E].
      * eapply IH; [exact L0|exact Lk|exact E].
  - intro E. eapply (diam_LB h S0 S1); eassumption.
Qed.

Theorem chrystal_lower_bound h ny nx d rn :
  chrystal h = CCircle ny nx d rn ->
  d <> 0 /\
  forall ex ey rho, Encloses h ex ey rho -> (inject_Z rn / inject_Z (d * d) <= rho)%Q.
Proof.
  unfold chrystal. intro E.
  destruct h as [|p [|q [|r t]]].
  - discriminate.
  - inversion E; subst. split; [discriminate|]. intros ex ey rho En.
    change (inject_Z 0 / inject_Z (1 * 1))%Q with (0 / 1)%Q.
    pose proof (En p (or_introl eq_refl)) as B. unfold d2q in B.
    pose proof (d2_nonneg (inject_Z (fst p)) (inject_Z (snd p)) ex ey) as N.
    setoid_replace (0 / 1)%Q with 0%Q by reflexivity. lra.
  - eapply (diam_LB [p; q] p q); [left; reflexivity|right; left; reflexivity|exact E].
  - eapply chrystal_loop_LB; [| |exact E]; cbn [length]; lia.
Qed.

(* hence: if the model's circle encloses the hull points it IS their minimum enclosing circle *)
Theorem chrystal_mec h ny nx d rn :
  chrystal h = CCircle ny nx d rn ->
  Encloses h (inject_Z ny / inject_Z d) (inject_Z nx / inject_Z d) (inject_Z rn / inject_Z (d * d)) ->
  MEC h (inject_Z ny / inject_Z d) (inject_Z nx / inject_Z d) (inject_Z rn / inject_Z (d * d)).
Proof.
  intros E En. split; [exact En|]. apply (chrystal_lower_bound h ny nx d rn E).
Qed.

(* the premise is reached through the loop (replacement steps, then case 2) on a non-trivial
   input: five points, the circle through (0,0), (0,6), (5,3): centre (8/5, 3), radius 17/5 *)
Example chrystal_example :
  chrystal [(0,0); (1,4); (0,6); (5,3); (2,3)] = CCircle 96 180 60 41616.
Proof. vm_compute. reflexivity. Qed.
