(* C10 — lemmas about the executable model (Model/Emd.v). *)
From Coq Require Import ZArith List Bool Lia ZifyBool.
From Centro Require Import Base.Sx Base.EmdBase Spec.Emd Model.Emd Proofs.EmdDuality.
Import ListNotations.
Open Scope Z_scope.

(* ---------------------------------------------------------------- the reduced graph is balanced *)
Lemma filter_split_sum (f : nat -> Z) (s : nat -> bool) l :
  zsum (map f (filter (fun v => negb (f v =? 0) && s v) l)) +
  zsum (map f (filter (fun v => negb (f v =? 0) && negb (s v)) l)) = zsum (map f l).
Proof.
  induction l as [|a l IH]; cbn [filter map zsum]; [lia|].
  destruct (f a =? 0) eqn:E0; destruct (s a) eqn:Es; cbn [negb andb map zsum]; lia.
Qed.

Lemma balance (f : nat -> Z) (s : nat -> bool) l t :
  zsum (map f (filter (fun v => negb (f v =? 0) && s v) l) ++
        [t + zsum (map f (filter (fun v => negb (f v =? 0) && negb (s v)) l)); 0]) = zsum (map f l) + t.
Proof. rewrite zsum_app. cbn [zsum]. pose proof (filter_split_sum f s l). lia. Qed.

Lemma map_nz_seq l : forall k, (k <= length l)%nat -> map (nz l) (seq 0 k) = firstn k l.
Proof.
  induction l as [|a l IH]; intros k Hk.
  - cbn [length] in Hk. assert (k = O) by lia. subst. reflexivity.
  - destruct k as [|k]; [reflexivity|].
    cbn [seq map firstn]. f_equal. rewrite <- seq_shift, map_map. cbn [length] in Hk.
    rewrite <- IH by lia. apply map_ext. intros x. reflexivity.
Qed.

Lemma zsum_map_opp l : zsum (map Z.opp l) = - zsum l.
Proof. induction l; cbn [map zsum]; lia. Qed.

Lemma nz_app_r (l1 l2 : list Z) i : (length l1 <= i)%nat -> nz (l1 ++ l2) i = nz l2 (i - length l1).
Proof. intros H. unfold nz. apply app_nth2. lia. Qed.

(* the code's "assert(DEBUG_sum_bb==0)": supplies and demands of the graph handed to
   min_cost_flow cancel, for every input of the wrapper's shape *)
Theorem reduce_balanced Pc Qc Cc emp :
  length Pc = length Qc -> zsum (r_bb (reduce Pc Qc Cc emp)) = 0.
Proof.
  intros HL. unfold reduce. cbv zeta. cbn [r_bb].
  set (N := length Pc).
  set (swap := zsum Pc <? zsum Qc).
  set (P := if swap then Qc else Pc). set (Q := if swap then Pc else Qc).
  set (diff := if swap then zsum Qc - zsum Pc else zsum Pc - zsum Qc).
  set (b := P ++ map Z.opp Q ++ [- diff; 0]).
  assert (LP : length P = N) by (unfold P; destruct swap; unfold N; lia).
  assert (LQ : length Q = N) by (unfold Q; destruct swap; unfold N; lia).
  etransitivity; [apply balance|].
  assert (Eb : zsum (map (nz b) (seq 0 (2 * N))) = zsum P - zsum Q).
  { rewrite map_nz_seq by (unfold b; rewrite !app_length, map_length; cbn [length]; lia).
    unfold b. rewrite firstn_app, firstn_all2 by lia.
    replace (2 * N - length P)%nat with (length (map Z.opp Q)) by (rewrite map_length; lia).
    rewrite firstn_app, firstn_all, Nat.sub_diag. cbn [firstn]. rewrite !zsum_app, zsum_map_opp. cbn [zsum]. lia. }
  assert (ET : nz b (2 * N) = - diff).
  { unfold b. rewrite nz_app_r by lia. rewrite nz_app_r by (rewrite map_length; lia).
    rewrite map_length. replace (2 * N - length P - length Q)%nat with O by lia. reflexivity. }
  assert (ED : diff = zsum P - zsum Q).
  { unfold diff, P, Q. destruct swap; lia. }
  lia.
Qed.

(* ---------------------------------------------------------------- metric pre-flow bookkeeping *)
Lemma preflow_spec P Q : length P = length Q ->
  let pf := preflow P Q in
  length pf = length P /\
  forall i, (i < length P)%nat ->
    let t := nth i pf (0, 0, 0) in
    snd t = Z.min (nz P i) (nz Q i) /\
    fst (fst t) = nz P i - snd t /\ snd (fst t) = nz Q i - snd t.
Proof.
  intros HL. cbv zeta. split.
  - unfold preflow. rewrite map_length, combine_length. lia.
  - revert Q HL. induction P as [|p P IH]; intros Q HL i Hi; [cbn [length] in Hi; lia|].
    destruct Q as [|q Q]; [discriminate|].
    destruct i as [|i].
    + unfold preflow, nz. cbn [combine map nth fst snd]. destruct (p <? q) eqn:E; cbn [fst snd]; lia.
    + cbn [length] in *. specialize (IH Q ltac:(lia) i ltac:(lia)). exact IH.
Qed.
