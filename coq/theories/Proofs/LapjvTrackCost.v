(* C01 — the tracker's match cost (neighmovetrack.py:315-323 calculate_basic_cost, and the same shape in
   calculate_localised_cost) over Q with the Euclidean distance abstracted as a Section variable
   (sqrt is not modelled): zero on identical detections, non-negative, strictly positive as soon as
   centroid or area differ.  These are the hypotheses of tracker_identity on the object block. *)
From Coq Require Import QArith Qfield Lqa Qabs.
Open Scope Q_scope.

Section Cost.
Variable P : Type.                          (* centroids *)
Variable dist : P -> P -> Q.                (* euclidean_dist: sqrt((x1-x2)^2 + (y1-y2)^2) *)
Hypothesis dist_nonneg : forall p q, 0 <= dist p q.
Hypothesis dist_self : forall p, dist p p == 0.
Hypothesis dist_zero : forall p q, dist p q == 0 -> p = q.
Variables scale weight : Q.                 (* avgCellDiameter / 35, area_weight *)
Hypothesis scale_pos : 0 < scale.
Hypothesis weight_pos : 0 < weight.

(* 1 - min(a1, a2) / max(a1, a2) *)
Definition area_change (a1 a2 : Q) : Q := if Qle_bool a1 a2 then 1 - a1 / a2 else 1 - a2 / a1.
Definition match_cost (p1 : P) (a1 : Q) (p2 : P) (a2 : Q) : Q :=
  dist p1 p2 / scale + weight * area_change a1 a2.

Lemma ratio_le_1 a b : 0 < a -> a <= b -> a / b <= 1.
Proof. intros Ha Hab. apply Qle_shift_div_r; lra. Qed.
Lemma ratio_lt_1 a b : 0 < a -> a < b -> a / b < 1.
Proof. intros Ha Hab. apply Qlt_shift_div_r; lra. Qed.

Lemma area_change_nonneg a1 a2 : 0 < a1 -> 0 < a2 -> 0 <= area_change a1 a2.
Proof.
  intros H1 H2. unfold area_change. destruct (Qle_bool a1 a2) eqn:E.
  - apply Qle_bool_iff in E. pose proof (ratio_le_1 a1 a2 H1 E). lra.
  - assert (a2 <= a1). { destruct (Qlt_le_dec a2 a1); [lra|]. apply Qle_bool_iff in q. congruence. }
    pose proof (ratio_le_1 a2 a1 H2 H). lra.
Qed.
Lemma area_change_self a : 0 < a -> area_change a a == 0.
Proof.
  intros H. unfold area_change. destruct (Qle_bool a a); field; lra.
Qed.
Lemma area_change_pos a1 a2 : 0 < a1 -> 0 < a2 -> ~ a1 == a2 -> 0 < area_change a1 a2.
Proof.
  intros H1 H2 N. unfold area_change. destruct (Qle_bool a1 a2) eqn:E.
  - apply Qle_bool_iff in E. assert (a1 < a2) by (destruct (Qlt_le_dec a1 a2); [auto|exfalso; apply N; lra]).
    pose proof (ratio_lt_1 a1 a2 H1 H). lra.
  - assert (a2 < a1). { destruct (Qlt_le_dec a2 a1); [auto|]. apply Qle_bool_iff in q. congruence. }
    pose proof (ratio_lt_1 a2 a1 H2 H). lra.
Qed.

Lemma dist_scaled_nonneg p q : 0 <= dist p q / scale.
Proof. apply Qle_shift_div_l; [exact scale_pos|]. pose proof (dist_nonneg p q). lra. Qed.

Theorem match_cost_self p a : 0 < a -> match_cost p a p a == 0.
Proof.
  intros H. unfold match_cost. rewrite (area_change_self a H), (dist_self p). field. lra.
Qed.

Theorem match_cost_nonneg p1 a1 p2 a2 : 0 < a1 -> 0 < a2 -> 0 <= match_cost p1 a1 p2 a2.
Proof.
  intros H1 H2. unfold match_cost. pose proof (dist_scaled_nonneg p1 p2). pose proof (area_change_nonneg a1 a2 H1 H2).
  assert (0 <= weight * area_change a1 a2) by (apply Qmult_le_0_compat; lra). lra.
Qed.

Theorem match_cost_pos p1 a1 p2 a2 : 0 < a1 -> 0 < a2 -> (p1 <> p2 \/ ~ a1 == a2) -> 0 < match_cost p1 a1 p2 a2.
Proof.
  intros H1 H2 D. unfold match_cost. pose proof (dist_scaled_nonneg p1 p2) as Dn.
  pose proof (area_change_nonneg a1 a2 H1 H2) as An.
  assert (Wn : 0 <= weight * area_change a1 a2) by (apply Qmult_le_0_compat; lra).
  destruct D as [D|D].
  - assert (0 < dist p1 p2).
    { pose proof (dist_nonneg p1 p2). destruct (Qlt_le_dec 0 (dist p1 p2)); auto. exfalso. apply D, dist_zero. lra. }
    assert (0 < dist p1 p2 / scale) by (apply Qlt_shift_div_l; lra). lra.
  - pose proof (area_change_pos a1 a2 H1 H2 D). assert (0 < weight * area_change a1 a2) by (apply Qmult_lt_0_compat; lra). lra.
Qed.
End Cost.

(* the hypotheses are satisfiable: P = Q (points on a line), dist = |p - q| *)
Example cost_example :
  let d := fun p q : Q => Qabs (p - q) in
  match_cost Q d 1 30 0 4 0 4 == 0 /\ 0 < match_cost Q d 1 30 0 4 3 4.
Proof. cbn zeta. split; vm_compute; reflexivity. Qed.
