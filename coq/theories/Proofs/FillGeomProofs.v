(* C14 — geometry of the scan-line model: for a convex polygon (all vertices on one closed side of
   every edge), a lattice point has an entry of its row at or left of it and one at or right of it
   exactly when it is inside or on the polygon.  With Proofs/FillSortProofs.v this gives
   fill_model = the specified set, for every list of convex polygons with distinct labels. *)
From Coq Require Import ZArith List Bool Lia ZifyBool.
From Centro Require Import Base.Sx Model.HullFill Spec.FillSpec Spec.FeretLower
  Proofs.FillProofs Proofs.FillEdgeProofs Proofs.FillSortProofs Proofs.FeretLowerProofs.
Import ListNotations.
Open Scope Z_scope.

(* ---------------------------------------------------------------- polygons as closed cycles *)
Lemma poly_edges_from_consec first : forall h, h <> [] -> poly_edges_from first h = consec (h ++ [first]).
Proof.
  induction h as [|a t IH]; intro NE; [congruence|].
  destruct t as [|b r]; [reflexivity|].
  change (poly_edges_from first (a :: b :: r)) with ((a, b) :: poly_edges_from first (b :: r)).
  change (consec ((a :: b :: r) ++ [first])) with ((a, b) :: consec ((b :: r) ++ [first])).
  f_equal. apply IH. discriminate.
Qed.

Lemma poly_edges_consec a t : poly_edges (a :: t) = consec ((a :: t) ++ [a]).
Proof. unfold poly_edges. apply poly_edges_from_consec. discriminate. Qed.

Lemma consec_In {A} (l : list A) x y : In (x, y) (consec l) -> In x l /\ In y l.
Proof.
  induction l as [|a t IH]; cbn [consec]; [intros []|].
  destruct t as [|b r]; [intros []|].
  intros [E|I]; [inversion E; subst; split; [left; reflexivity|right; left; reflexivity]|].
  destruct (IH I). split; right; assumption.
Qed.

Lemma consec_succ {A} (c : A) : forall l v, In v l -> exists q, In (v, q) (consec (l ++ [c])).
Proof.
  induction l as [|a t IH]; intros v []; cbn [app].
  - subst. destruct t as [|b r]; cbn [app consec]; [exists c|exists b]; left; reflexivity.
  - destruct (IH v H) as [q Iq]. exists q. cbn [consec].
    destruct (t ++ [c]) as [|b r] eqn:E; [destruct t; discriminate|]. right. exact Iq.
Qed.

Lemma poly_edges_In h p q : In (p, q) (poly_edges h) -> In p h /\ In q h.
Proof.
  destruct h as [|a t]; [intros []|]. rewrite poly_edges_consec. intro I.
  apply consec_In in I. destruct I as [Ip Iq]. split.
  - apply in_app_or in Ip. destruct Ip as [Ip|[<-|[]]]; [exact Ip|left; reflexivity].
  - apply in_app_or in Iq. destruct Iq as [Iq|[<-|[]]]; [exact Iq|left; reflexivity].
Qed.

Lemma poly_edges_succ h v : In v h -> exists q, In (v, q) (poly_edges h).
Proof.
  destruct h as [|a t]; [intros []|]. rewrite poly_edges_consec. apply consec_succ.
Qed.

(* a closed cycle that has an element with g >= 0 and one with g <= 0 has a consecutive pair
   (x, y) with g x >= 0 and g y <= 0 *)
Lemma cyc_descent {A} (g : A -> Z) c0 t :
  (exists a, In a (c0 :: t) /\ 0 <= g a) -> (exists b, In b (c0 :: t) /\ g b <= 0) ->
  exists x y, In (x, y) (consec ((c0 :: t) ++ [c0])) /\ 0 <= g x /\ g y <= 0.
Proof.
  intros [a [Ia Ga]] [b [Ib Gb]].
  destruct (Z_le_gt_dec 0 (g c0)) as [P|N].
  - apply (descent _ g [] c0 (t ++ [c0]) P).
    destruct Ib as [<-|It].
    + exists c0. split; [apply in_or_app; right; left; reflexivity|exact Gb].
    + exists b. split; [apply in_or_app; left; exact It|exact Gb].
  - destruct Ia as [<-|It]; [lia|].
    apply in_split in It. destruct It as [t1 [t2 Et]]. subst t.
    replace ((c0 :: t1 ++ a :: t2) ++ [c0]) with ((c0 :: t1) ++ a :: (t2 ++ [c0])).
    2:{ cbn [app]. rewrite <- app_assoc. reflexivity. }
    apply (descent _ g (c0 :: t1) a (t2 ++ [c0]) Ga).
    exists c0. split; [apply in_or_app; right; left; reflexivity|lia].
Qed.

(* ---------------------------------------------------------------- min / max of coordinates *)
Lemma min_of_le f d h : min_of f d h <= d /\ forall v, In v h -> min_of f d h <= f v.
Proof.
  induction h as [|a t [IH1 IH2]]; cbn [min_of fold_right]; [split; [lia|intros v []]|].
  fold (min_of f d t). split; [lia|]. intros v [<-|I]; [lia|]. specialize (IH2 v I). lia.
Qed.
Lemma max_of_ge f d h : d <= max_of f d h /\ forall v, In v h -> f v <= max_of f d h.
Proof.
  induction h as [|a t [IH1 IH2]]; cbn [max_of fold_right]; [split; [lia|intros v []]|].
  fold (max_of f d t). split; [lia|]. intros v [<-|I]; [lia|]. specialize (IH2 v I). lia.
Qed.
Lemma min_of_attained f d h : min_of f d h = d \/ exists v, In v h /\ f v = min_of f d h.
Proof.
  induction h as [|a t IH]; cbn [min_of fold_right]; [left; reflexivity|]. fold (min_of f d t).
  destruct (Z.min_spec (f a) (min_of f d t)) as [[L E]|[L E]]; rewrite E.
  - right. exists a. split; [left; reflexivity|reflexivity].
  - destruct IH as [IH|[v [I Ev]]]; [left; exact IH|right; exists v; split; [right; exact I|exact Ev]].
Qed.
Lemma max_of_attained f d h : max_of f d h = d \/ exists v, In v h /\ f v = max_of f d h.
Proof.
  induction h as [|a t IH]; cbn [max_of fold_right]; [left; reflexivity|]. fold (max_of f d t).
  destruct (Z.max_spec (f a) (max_of f d t)) as [[L E]|[L E]]; rewrite E.
  - destruct IH as [IH|[v [I Ev]]]; [left; exact IH|right; exists v; split; [right; exact I|exact Ev]].
  - right. exists a. split; [left; reflexivity|reflexivity].
Qed.

(* the bounding box in terms of the vertices *)
Lemma in_bbox_spec h p : in_bbox h p = true <->
  h <> [] /\
  (exists v, In v h /\ fst v <= fst p) /\ (exists v, In v h /\ fst p <= fst v) /\
  (exists v, In v h /\ snd v <= snd p) /\ (exists v, In v h /\ snd p <= snd v).
Proof.
  destruct h as [|a t]; cbn [in_bbox]; [split; [discriminate|intros [N _]; congruence]|].
  pose proof (min_of_le fst (fst a) t) as [m1 m2]. pose proof (max_of_ge fst (fst a) t) as [M1 M2].
  pose proof (min_of_le snd (snd a) t) as [n1 n2]. pose proof (max_of_ge snd (snd a) t) as [N1 N2].
  split.
  - intro H. split; [discriminate|]. repeat split.
    + destruct (min_of_attained fst (fst a) t) as [E|[v [I E]]];
        [exists a; split; [left; reflexivity|lia]|exists v; split; [right; exact I|lia]].
    + destruct (max_of_attained fst (fst a) t) as [E|[v [I E]]];
        [exists a; split; [left; reflexivity|lia]|exists v; split; [right; exact I|lia]].
    + destruct (min_of_attained snd (snd a) t) as [E|[v [I E]]];
        [exists a; split; [left; reflexivity|lia]|exists v; split; [right; exact I|lia]].
    + destruct (max_of_attained snd (snd a) t) as [E|[v [I E]]];
        [exists a; split; [left; reflexivity|lia]|exists v; split; [right; exact I|lia]].
  - intros (_ & [v1 [I1 L1]] & [v2 [I2 L2]] & [v3 [I3 L3]] & [v4 [I4 L4]]).
    assert (B1 : min_of fst (fst a) t <= fst v1) by (destruct I1 as [<-|I]; [lia|apply m2; exact I]).
    assert (B2 : fst v2 <= max_of fst (fst a) t) by (destruct I2 as [<-|I]; [lia|apply M2; exact I]).
    assert (B3 : min_of snd (snd a) t <= snd v3) by (destruct I3 as [<-|I]; [lia|apply n2; exact I]).
    assert (B4 : snd v4 <= max_of snd (snd a) t) by (destruct I4 as [<-|I]; [lia|apply N2; exact I]).
    lia.
Qed.

(* ---------------------------------------------------------------- entries as boundary points *)
(* every entry of edge p -> q is the point ((D - t) p + t q) / D with 0 <= t <= D, D = its denominator *)
Lemma entry_param l p q e :
  In e (fst (edge_entries l p q)) \/ In e (snd (edge_entries l p q)) ->
  e_l e = l /\ exists t, 0 <= t <= e_jd e /\ 0 < e_jd e /\
    e_jd e * e_i e = (e_jd e - t) * fst p + t * fst q /\ e_jn e = (e_jd e - t) * snd p + t * snd q.
Proof.
  unfold edge_entries.
  destruct (Z.abs (fst p - fst q) + 1 =? 1) eqn:H1; cbn [fst snd].
  - intros [[<-|[<-|[]]]|[]]; cbn [e_l e_i e_jn e_jd]; (split; [reflexivity|]).
    + exists 0. lia.
    + exists 1. lia.
  - intros [[]|I]. apply in_map_iff in I. destruct I as [t [<- It]]. apply zrange_In in It.
    cbn [e_l e_i e_jn e_jd]. split; [reflexivity|]. exists t.
    assert (Sg : Z.sgn (fst q - fst p) * (Z.abs (fst p - fst q) + 1 - 1) = fst q - fst p) by lia.
    repeat split; try lia.
    all: try (replace ((Z.abs (fst p - fst q) + 1 - 1) * (fst p + Z.sgn (fst q - fst p) * t))
      with ((Z.abs (fst p - fst q) + 1 - 1) * fst p + (Z.sgn (fst q - fst p) * (Z.abs (fst p - fst q) + 1 - 1)) * t) by ring;
      rewrite Sg; ring).
Qed.

(* jd * cross(a, b, point of e) *)
Definition Fq (a b : hpt) (e : ent) : Z :=
  (fst b - fst a) * (e_jn e - snd a * e_jd e) - (snd b - snd a) * (e_i e - fst a) * e_jd e.

Lemma Fq_affine a b p q e t :
  e_jd e * e_i e = (e_jd e - t) * fst p + t * fst q -> e_jn e = (e_jd e - t) * snd p + t * snd q ->
  Fq a b e = (e_jd e - t) * cross a b p + t * cross a b q.
Proof.
  intros Ei En. unfold Fq, cross. rewrite En.
  replace ((snd b - snd a) * (e_i e - fst a) * e_jd e) with ((snd b - snd a) * (e_jd e * e_i e - fst a * e_jd e)) by ring.
  rewrite Ei. ring.
Qed.

Definition convex_s (h : list hpt) (s : Z) : Prop :=
  forall a b, In (a, b) (poly_edges h) -> forall v, In v h -> 0 <= s * cross a b v.
Definition entry_of (l : Z) (h : list hpt) (e : ent) : Prop :=
  exists p q, In (p, q) (poly_edges h) /\
              (In e (fst (edge_entries l p q)) \/ In e (snd (edge_entries l p q))).

Lemma entry_halfplanes l h s e : convex_s h s -> entry_of l h e ->
  forall a b, In (a, b) (poly_edges h) -> 0 <= s * Fq a b e.
Proof.
  intros Cv [p [q [Ipq Ie]]] a b Iab.
  destruct (entry_param l p q e Ie) as [_ [t (T & D & Ei & En)]].
  rewrite (Fq_affine a b p q e t Ei En).
  destruct (poly_edges_In h p q Ipq) as [Ip Iq].
  pose proof (Cv a b Iab p Ip). pose proof (Cv a b Iab q Iq). nia.
Qed.

(* entries lie inside the vertices' bounding box *)
Lemma entry_box l h e : entry_of l h e ->
  (exists v, In v h /\ fst v <= e_i e) /\ (exists v, In v h /\ e_i e <= fst v) /\
  (exists v, In v h /\ snd v * e_jd e <= e_jn e) /\ (exists v, In v h /\ e_jn e <= snd v * e_jd e).
Proof.
  intros [p [q [Ipq Ie]]].
  destruct (entry_param l p q e Ie) as [_ [t (T & D & Ei & En)]].
  destruct (poly_edges_In h p q Ipq) as [Ip Iq].
  repeat split.
  - destruct (Z_le_gt_dec (fst p) (fst q)); [exists p|exists q]; (split; [assumption|nia]).
  - destruct (Z_le_gt_dec (fst p) (fst q)); [exists q|exists p]; (split; [assumption|nia]).
  - destruct (Z_le_gt_dec (snd p) (snd q)); [exists p|exists q]; (split; [assumption|nia]).
  - destruct (Z_le_gt_dec (snd p) (snd q)); [exists q|exists p]; (split; [assumption|nia]).
Qed.

(* ---------------------------------------------------------------- witnesses => inside *)
Lemma cross_point a b i j e : e_i e = i ->
  e_jd e * cross a b (i, j) = Fq a b e + (fst b - fst a) * (j * e_jd e - e_jn e).
Proof. intro Ei. unfold cross, Fq. cbn [fst snd]. subst i. ring. Qed.

Lemma witnesses_inside l h s i j e0 e1 :
  (s = 1 \/ s = -1) -> convex_s h s -> entry_of l h e0 -> entry_of l h e1 ->
  lower e0 i j l -> upper e1 i j l -> inside h (i, j) = true.
Proof.
  intros Sg Cv E0 E1 (_ & I0 & L0) (_ & I1 & U1).
  assert (V0 : 0 < e_jd e0) by (destruct E0 as [p [q [_ Ie]]]; destruct (entry_param l p q e0 Ie) as [_ [t X]]; tauto).
  assert (V1 : 0 < e_jd e1) by (destruct E1 as [p [q [_ Ie]]]; destruct (entry_param l p q e1 Ie) as [_ [t X]]; tauto).
  assert (HP : forall a b, In (a, b) (poly_edges h) -> 0 <= s * cross a b (i, j)).
  { intros a b Iab.
    pose proof (entry_halfplanes l h s e0 Cv E0 a b Iab) as F0.
    pose proof (entry_halfplanes l h s e1 Cv E1 a b Iab) as F1.
    pose proof (cross_point a b i j e0 I0) as C0. pose proof (cross_point a b i j e1 I1) as C1.
    destruct (Z_le_gt_dec 0 (s * (fst b - fst a))) as [P|N].
    - assert (0 <= e_jd e0 * (s * cross a b (i, j))).
      { replace (e_jd e0 * (s * cross a b (i, j))) with (s * (e_jd e0 * cross a b (i, j))) by ring.
        rewrite C0. replace (s * (Fq a b e0 + (fst b - fst a) * (j * e_jd e0 - e_jn e0)))
          with (s * Fq a b e0 + (s * (fst b - fst a)) * (j * e_jd e0 - e_jn e0)) by ring. nia. }
      nia.
    - assert (0 <= e_jd e1 * (s * cross a b (i, j))).
      { replace (e_jd e1 * (s * cross a b (i, j))) with (s * (e_jd e1 * cross a b (i, j))) by ring.
        rewrite C1. replace (s * (Fq a b e1 + (fst b - fst a) * (j * e_jd e1 - e_jn e1)))
          with (s * Fq a b e1 + (- (s * (fst b - fst a))) * (e_jn e1 - j * e_jd e1)) by ring. nia. }
      nia. }
  unfold inside. apply andb_true_iff. split.
  - apply in_bbox_spec.
    destruct (entry_box l h e0 E0) as ([v1 [Iv1 B1]] & _ & [v3 [Iv3 B3]] & _).
    destruct (entry_box l h e1 E1) as (_ & [v2 [Iv2 B2]] & _ & [v4 [Iv4 B4]]).
    split; [intro N; subst h; destruct Iv1|]. cbn [fst snd].
    split; [exists v1; split; [exact Iv1|lia]|].
    split; [exists v2; split; [exact Iv2|lia]|].
    split; [exists v3; split; [exact Iv3|nia]|exists v4; split; [exact Iv4|nia]].
  - apply orb_true_iff. destruct Sg as [-> | ->]; [left|right]; apply forallb_forall; intros [a b] Iab;
      specialize (HP a b Iab); cbn [fst snd]; lia.
Qed.

(* ---------------------------------------------------------------- inside => witnesses *)
(* a strictly sloped edge that meets row i yields an entry whose column decides the edge's
   half-plane test at (i, j) *)
Lemma sloped_edge_entry l p q i j :
  fst p <> fst q -> Z.min (fst p) (fst q) <= i <= Z.max (fst p) (fst q) ->
  exists e, In e (snd (edge_entries l p q)) /\ e_l e = l /\ e_i e = i /\ 0 < e_jd e /\
            Z.sgn (fst q - fst p) * cross p q (i, j) = j * e_jd e - e_jn e.
Proof.
  intros NE B. destruct (edge_entries_complete l p q i NE B) as [e [Ie Ei]].
  exists e. split; [exact Ie|].
  destruct (entry_param l p q e (or_intror Ie)) as [El [t (T & D & Eq1 & Eq2)]].
  split; [exact El|]. split; [exact Ei|]. split; [exact D|].
  (* the denominator is |q.i - p.i| *)
  assert (Dd : e_jd e = Z.abs (fst q - fst p)).
  { unfold edge_entries in Ie. destruct (Z.abs (fst p - fst q) + 1 =? 1) eqn:H1; [lia|].
    cbn [snd] in Ie. apply in_map_iff in Ie. destruct Ie as [t' [<- _]]. cbn [e_jd]. lia. }
  unfold cross. cbn [fst snd]. rewrite Eq2. subst i.
  set (D0 := e_jd e) in *. set (ei := e_i e) in *.
  destruct (Z_lt_le_dec (fst p) (fst q)).
  - assert (S1 : Z.sgn (fst q - fst p) = 1) by lia. assert (Dq : fst q = fst p + D0) by lia.
    assert (Et : ei - fst p = t).
    { apply Z.mul_cancel_l with (p := D0); [lia|]. rewrite Dq in Eq1. lia. }
    rewrite S1, Dq. replace (fst p + D0 - fst p) with D0 by ring. rewrite Et. ring.
  - assert (S1 : Z.sgn (fst q - fst p) = -1) by lia. assert (Dq : fst q = fst p - D0) by lia.
    assert (Et : ei - fst p = - t).
    { apply Z.mul_cancel_l with (p := D0); [lia|]. rewrite Dq in Eq1. lia. }
    rewrite S1, Dq. replace (fst p - D0 - fst p) with (- D0) by ring. rewrite Et. ring.
Qed.

(* crossing edges of a cycle around a threshold between k and k+1 *)
Lemma crossing_edges (h : list hpt) k :
  (exists u, In u h /\ fst u <= k) -> (exists w, In w h /\ k + 1 <= fst w) ->
  (exists a b, In (a, b) (poly_edges h) /\ fst a <= k /\ k + 1 <= fst b) /\
  (exists c d, In (c, d) (poly_edges h) /\ k + 1 <= fst c /\ fst d <= k).
Proof.
  intros [u [Iu Lu]] [w [Iw Lw]].
  destruct h as [|c0 t]; [destruct Iu|]. rewrite poly_edges_consec. split.
  - destruct (cyc_descent (fun v : hpt => 2 * (k - fst v) + 1) c0 t) as [x [y [I [Gx Gy]]]].
    + exists u. split; [exact Iu|lia].
    + exists w. split; [exact Iw|lia].
    + exists x, y. split; [exact I|lia].
  - destruct (cyc_descent (fun v : hpt => 2 * (fst v - k) - 1) c0 t) as [x [y [I [Gx Gy]]]].
    + exists w. split; [exact Iw|lia].
    + exists u. split; [exact Iu|lia].
    + exists x, y. split; [exact I|lia].
Qed.

Lemma forallb_false_exists {A} (f : A -> bool) l : forallb f l = false -> exists x, In x l /\ f x = false.
Proof.
  induction l as [|a t IH]; cbn [forallb]; [discriminate|].
  destruct (f a) eqn:Fa; cbn [andb].
  - intro H. destruct (IH H) as [x [I Fx]]. exists x. split; [right; exact I|exact Fx].
  - intros _. exists a. split; [left; reflexivity|exact Fa].
Qed.

Lemma horizontal_entries l p q : fst p = fst q ->
  fst (edge_entries l p q) = [mkE l (fst p) (snd p) 1; mkE l (fst p) (snd q) 1].
Proof.
  intro E. unfold edge_entries. destruct (Z.abs (fst p - fst q) + 1 =? 1) eqn:H1; [reflexivity|lia].
Qed.

Lemma inside_witnesses l h i j :
  inside h (i, j) = true ->
  (exists e0, entry_of l h e0 /\ lower e0 i j l) /\ (exists e1, entry_of l h e1 /\ upper e1 i j l).
Proof.
  unfold inside. intro H. apply andb_true_iff in H. destruct H as [Bx HP].
  apply in_bbox_spec in Bx. cbn [fst snd] in Bx.
  destruct Bx as (NE & [u [Iu Lu]] & [w [Iw Lw]] & [v3 [I3 L3]] & [v4 [I4 L4]]).
  assert (Sg : exists s, (s = 1 \/ s = -1) /\ forall a b, In (a, b) (poly_edges h) -> 0 <= s * cross a b (i, j)).
  { apply orb_true_iff in HP. destruct HP as [HP|HP]; rewrite forallb_forall in HP.
    - exists 1. split; [left; reflexivity|]. intros a b I. specialize (HP (a, b) I). cbn [fst snd] in HP. lia.
    - exists (-1). split; [right; reflexivity|]. intros a b I. specialize (HP (a, b) I). cbn [fst snd] in HP. lia. }
  destruct Sg as [s [Ss HS]].
  (* is some vertex off row i ? *)
  destruct (forallb (fun v : hpt => fst v =? i) h) eqn:FL.
  - (* the polygon lies on row i: all its edges are horizontal and every vertex is an entry *)
    rewrite forallb_forall in FL.
    assert (Vert : forall v, In v h -> entry_of l h (mkE l i (snd v) 1)).
    { intros v Iv. destruct (poly_edges_succ h v Iv) as [q Iq].
      destruct (poly_edges_In h v q Iq) as [_ Iq'].
      pose proof (FL v Iv) as Fv. pose proof (FL q Iq') as Fq'.
      exists v, q. split; [exact Iq|]. left. rewrite (horizontal_entries l v q ltac:(lia)).
      left. f_equal. lia. }
    split.
    + exists (mkE l i (snd v3) 1). split; [apply Vert; exact I3|]. unfold lower. cbn [e_l e_i e_jn e_jd]. lia.
    + exists (mkE l i (snd v4) 1). split; [apply Vert; exact I4|]. unfold upper. cbn [e_l e_i e_jn e_jd]. lia.
  - apply forallb_false_exists in FL. destruct FL as [z [Iz Nz]].
    assert (Cross : exists k, (k = i \/ k = i - 1) /\
              (exists u', In u' h /\ fst u' <= k) /\ (exists w', In w' h /\ k + 1 <= fst w')).
    { destruct (Z_lt_le_dec i (fst z)).
      - exists i. split; [left; reflexivity|]. split; [exists u; tauto|exists z; split; [exact Iz|lia]].
      - exists (i - 1). split; [right; reflexivity|]. split; [exists z; split; [exact Iz|lia]|exists w; split; [exact Iw|lia]]. }
    destruct Cross as [k [Ek [Hu Hw]]].
    destruct (crossing_edges h k Hu Hw) as [[a [b [Iab [La Lb]]]] [c [d [Icd [Lc Ld]]]]].
    destruct (sloped_edge_entry l a b i j ltac:(lia) ltac:(lia)) as [ea (Iea & Ela & Eia & Da & Ca)].
    destruct (sloped_edge_entry l c d i j ltac:(lia) ltac:(lia)) as [ec (Iec & Elc & Eic & Dc & Cc)].
    assert (Sa : Z.sgn (fst b - fst a) = 1) by lia. assert (Sc : Z.sgn (fst d - fst c) = -1) by lia.
    pose proof (HS a b Iab) as Ha. pose proof (HS c d Icd) as Hc.
    assert (Ea : entry_of l h ea) by (exists a, b; tauto).
    assert (Ec : entry_of l h ec) by (exists c, d; tauto).
    destruct Ss as [-> | ->].
    + split; [exists ea|exists ec]; (split; [assumption|]); unfold lower, upper; repeat split; try assumption; lia.
    + split; [exists ec|exists ea]; (split; [assumption|]); unfold lower, upper; repeat split; try assumption; lia.
Qed.
