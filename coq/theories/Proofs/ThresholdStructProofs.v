(* C11 — structure of the per-object and adaptive passes.
   (1) soundness of the checkers of Spec.ThresholdStruct;
   (2) [crop_window]: cropping the whole image with a mask that vanishes outside a sub-rectangle equals
       cropping the sub-rectangle (same pixels, same row-major order);
   (3) [po_loop_spec]: the object loop of get_per_object_threshold as written (np.ones fill, one masked store
       per extent returned by find_objects, the loop index being the label) yields, at every pixel, exactly
       what the checker demands: G of the object's own masked pixels on the object, the fill elsewhere —
       PROVIDED the extents are what find_objects promises: entry (i, extent) for every label i present,
       the extent containing every pixel labelled i.  The seeded defect C11-a (loop index no longer the
       label after a gap) violates this spec. *)
From Coq Require Import ZArith QArith List Bool Lia.
From Centro Require Import Base.Sx Base.ThresholdNum Spec.ThresholdStruct Proofs.ThresholdCrop Model.AdaptiveGeom.
Import ListNotations.

(* ------------------------------------------------------------------ checkers *)
Lemma check_per_object_sound_lemma cast fill tab pixels :
  check_per_object cast fill tab pixels = true ->
  Forall (fun p : Z * bool * Q => exists e, po_expected cast fill tab (fst (fst p)) (snd (fst p)) = Some e /\ Qeq (snd p) e) pixels.
Proof.
  unfold check_per_object. rewrite forallb_forall. intros H. apply Forall_forall. intros p Hp.
  specialize (H p Hp). unfold po_pixel_ok in H.
  destruct (po_expected cast fill tab (fst (fst p)) (snd (fst p))) as [e|]; [|discriminate].
  exists e. split; [reflexivity|]. apply Qeq_bool_iff. exact H.
Qed.

Lemma all_eq_sound_lemma got exp : all_eq got exp = true -> Forall2 Qeq got exp.
Proof.
  revert exp. induction got as [|g gs IH]; intros [|e es]; cbn; try discriminate; [constructor|].
  rewrite andb_true_iff. intros [A B]. constructor; [apply Qeq_bool_iff; exact A|apply IH; exact B].
Qed.

(* ------------------------------------------------------------------ window lemma *)
Lemma flat_map_all_nil {X Y} (f : X -> list Y) l : (forall x, In x l -> f x = []) -> flat_map f l = [].
Proof.
  induction l as [|x l IH]; intros H; cbn; [reflexivity|].
  rewrite (H x (or_introl eq_refl)), IH; [reflexivity|]. intros y Hy. apply H. right. exact Hy.
Qed.
Lemma flat_map_seq_shift {Y} : forall n (f : nat -> list Y) a,
  flat_map f (seq a n) = flat_map (fun i => f (a + i)%nat) (seq 0 n).
Proof.
  induction n as [|n IH]; intros f a; [reflexivity|]. cbn [seq flat_map].
  rewrite Nat.add_0_r. f_equal. rewrite (IH f (S a)), (IH (fun i => f (a + i)%nat) 1%nat).
  apply flat_map_ext. intros i. f_equal. lia.
Qed.
Lemma flat_map_window {Y} (f : nat -> list Y) a n N :
  (a + n <= N)%nat -> (forall i, (i < N)%nat -> (i < a \/ a + n <= i)%nat -> f i = []) ->
  flat_map f (seq 0 N) = flat_map (fun i => f (a + i)%nat) (seq 0 n).
Proof.
  intros Hb Hout. replace N with (a + (n + (N - a - n)))%nat by lia.
  rewrite !seq_app, !flat_map_app. cbn [Nat.add].
  rewrite (flat_map_all_nil f (seq 0 a)).
  2:{ intros i Hi. apply in_seq in Hi. apply Hout; lia. }
  rewrite (flat_map_all_nil f (seq (a + n) (N - a - n))).
  2:{ intros i Hi. apply in_seq in Hi. apply Hout; lia. }
  rewrite app_nil_r. cbn [app]. apply flat_map_seq_shift.
Qed.

Section Struct.
  Variable A : Type.
  Variable G : list A -> Q.

  Lemma crop_window H W (img : image A) (m : bmask) r0 c0 h w :
    (r0 + h <= H)%nat -> (c0 + w <= W)%nat ->
    (forall r c, (r < H)%nat -> (c < W)%nat -> m r c = true ->
                 (r0 <= r < r0 + h)%nat /\ (c0 <= c < c0 + w)%nat) ->
    crop A H W img m = crop A h w (shift r0 c0 img) (shift r0 c0 m).
  Proof.
    intros Hh Hw Hin. unfold crop.
    rewrite (flat_map_window _ r0 h H Hh).
    - apply flat_map_ext_in. intros i Hi. apply in_seq in Hi.
      rewrite (flat_map_window _ c0 w W Hw); [reflexivity|].
      intros c Hc Hout. destruct (m (r0 + i)%nat c) eqn:E; [|reflexivity].
      destruct (Hin (r0 + i)%nat c) as [_ Hcc]; [lia|exact Hc|exact E|lia].
    - intros r Hr Hout. apply flat_map_all_nil. intros c Hc. apply in_seq in Hc.
      destruct (m r c) eqn:E; [|reflexivity].
      destruct (Hin r c) as [Hrr _]; [exact Hr|lia|exact E|lia].
  Qed.

  (* ---------------------------------------------------------------- the object loop *)
  Variables H W : nat.
  Variable labels : nat -> nat -> Z.
  Variable mask : bmask.
  Variable img : image A.
  Variable cast : Q -> Q.
  Variable fill : Q.

  (* the specification the checker enforces *)
  Definition per_object_pixel (r c : nat) : Q :=
    let l := labels r c in
    if ((0 <? l)%Z && mask r c)%bool
    then cast (G (crop A H W img (object_mask labels mask l)))
    else cast fill.

  Definition in_block (blk : block) (r c : nat) : bool :=
    let '(r0, c0, h, w) := blk in
    ((r0 <=? r) && (r <? r0 + h) && (c0 <=? c) && (c <? c0 + w))%nat.
  (* local_threshold = np.ones(...); for i, extent in enumerate(extents, 1):
         local_threshold[extent][(labels[extent] == i) & mask[extent]] = G(image[extent][that mask]) *)
  Fixpoint po_loop (objs : list (Z * block)) (acc : nat -> nat -> Q) : nat -> nat -> Q :=
    match objs with
    | [] => acc
    | (i, blk) :: rest =>
        po_loop rest (fun r c => if (in_block blk r c && object_mask labels mask i r c)%bool
                                 then cast (object_threshold A Q G labels img mask (i, blk))
                                 else acc r c)
    end.

  (* what scipy.ndimage.find_objects promises about entry i (1-based) of its result *)
  Definition extent_ok (ob : Z * block) : Prop :=
    (0 < fst ob)%Z /\ in_bounds H W (snd ob) /\
    forall r c, (r < H)%nat -> (c < W)%nat -> labels r c = fst ob -> in_block (snd ob) r c = true.

  Definition hits (ob : Z * block) (r c : nat) : bool :=
    (in_block (snd ob) r c && object_mask labels mask (fst ob) r c)%bool.

  Lemma object_value ob r c : extent_ok ob -> (r < H)%nat -> (c < W)%nat -> hits ob r c = true ->
    cast (object_threshold A Q G labels img mask ob) = per_object_pixel r c.
  Proof.
    destruct ob as [i [[[r0 c0] h] w]]. intros (Hi & [Hh Hw] & Hcov) Hr Hc Hhit. cbn [fst snd] in *.
    unfold hits in Hhit. cbn [fst snd] in Hhit. apply andb_true_iff in Hhit. destruct Hhit as [_ Hm].
    unfold object_mask in Hm. apply andb_true_iff in Hm. destruct Hm as [Hmask Hl].
    apply Z.eqb_eq in Hl. unfold per_object_pixel. rewrite Hl, Hmask.
    assert (Hp : (0 <? i)%Z = true) by (apply Z.ltb_lt; exact Hi). rewrite Hp. cbn [andb].
    cbn [object_threshold]. f_equal. f_equal.
    change (object_mask (shift r0 c0 labels) (shift r0 c0 mask) i) with (shift r0 c0 (object_mask labels mask i)).
    symmetry. apply crop_window; [exact Hh|exact Hw|].
    intros r' c' Hr' Hc' Hm'. unfold object_mask in Hm'. apply andb_true_iff in Hm'. destruct Hm' as [_ Hl'].
    apply Z.eqb_eq in Hl'. specialize (Hcov r' c' Hr' Hc' Hl'). cbn in Hcov.
    rewrite !andb_true_iff in Hcov. destruct Hcov as [[[B1 B2] B3] B4].
    apply Nat.leb_le in B1, B3. apply Nat.ltb_lt in B2, B4. lia.
  Qed.

  Lemma po_loop_char objs : Forall extent_ok objs -> forall acc r c, (r < H)%nat -> (c < W)%nat ->
    po_loop objs acc r c = if existsb (fun ob => hits ob r c) objs then per_object_pixel r c else acc r c.
  Proof.
    induction 1 as [|ob objs Hob _ IH]; intros acc r c Hr Hc; [reflexivity|].
    destruct ob as [i blk]. cbn [po_loop existsb]. rewrite (IH _ r c Hr Hc).
    destruct (existsb (fun ob => hits ob r c) objs); [rewrite orb_true_r; reflexivity|].
    rewrite orb_false_r.
    change (in_block blk r c && object_mask labels mask i r c)%bool with (hits (i, blk) r c).
    destruct (hits (i, blk) r c) eqn:E; [|reflexivity].
    apply (object_value (i, blk) r c Hob Hr Hc E).
  Qed.

  Theorem po_loop_spec_lemma objs :
    Forall extent_ok objs ->
    (forall r c, (r < H)%nat -> (c < W)%nat -> (0 < labels r c)%Z -> exists blk, In (labels r c, blk) objs) ->
    forall r c, (r < H)%nat -> (c < W)%nat ->
    po_loop objs (fun _ _ => cast fill) r c = per_object_pixel r c.
  Proof.
    intros Hok Hall r c Hr Hc. rewrite (po_loop_char objs Hok _ r c Hr Hc).
    destruct (existsb (fun ob => hits ob r c) objs) eqn:E; [reflexivity|].
    unfold per_object_pixel.
    destruct ((0 <? labels r c)%Z && mask r c)%bool eqn:Em; [|reflexivity].
    exfalso. apply andb_true_iff in Em. destruct Em as [Hl Hm]. apply Z.ltb_lt in Hl.
    destruct (Hall r c Hr Hc Hl) as [blk Hin].
    assert (Hx : existsb (fun ob => hits ob r c) objs = true).
    { apply existsb_exists. exists (labels r c, blk). split; [exact Hin|].
      rewrite Forall_forall in Hok. destruct (Hok _ Hin) as (_ & _ & Hcov). cbn [fst snd] in Hcov.
      unfold hits. cbn [fst snd]. rewrite (Hcov r c Hr Hc eq_refl). unfold object_mask.
      rewrite Hm, Z.eqb_refl. reflexivity. }
    congruence.
  Qed.
End Struct.

(* ------------------------------------------------------------------ adaptive block partition (finite sweep) *)
Fixpoint increasing_from (lo : Z) (l : list Z) : bool :=
  match l with
  | [] => true
  | x :: r => (lo <=? x)%Z && increasing_from x r
  end.
(* for one axis: the n+1 boundaries start at 0, never decrease, stay inside the image and end at the image
   size OR ONE BEFORE IT (int(nblocks * increment) can round down: 29 * (59/29) = 58.99999999999999), and
   the output abscissae end where the last block ends *)
Definition axis_wellformed (size win : Z) : bool :=
  let a := axis_geom size win in
  match ax_bounds a with
  | 0%Z :: r => increasing_from 0 r && ((last r 0 =? size)%Z || (last r 0 =? size - 1)%Z)
                && (ax_out_end a =? last r 0)%Z && (Z.of_nat (length r) =? ax_n a)%Z
  | _ => false
  end.
Definition sizes_upto (n : nat) : list (Z * Z) :=
  flat_map (fun s => map (fun w => (Z.of_nat s, Z.of_nat w)) (seq 1 (s / 2))) (seq 2 (n - 1)).
Lemma adaptive_axis_wellformed_finite_lemma :
  forallb (fun sw : Z * Z => axis_wellformed (fst sw) (snd sw)) (sizes_upto 100) = true.
Proof. vm_compute. reflexivity. Qed.
Lemma adaptive_axis_wellformed_forall size win :
  In (size, win) (sizes_upto 100) -> axis_wellformed size win = true.
Proof.
  intros Hin. pose proof adaptive_axis_wellformed_finite_lemma as F. rewrite forallb_forall in F.
  exact (F (size, win) Hin).
Qed.
(* "the blocks tile the whole image" is refuted by the faithful model: a 59-pixel axis with window 2 has 29
   blocks ending at 58, so the last row (column) belongs to no block *)
Lemma adaptive_blocks_tile_refuted_lemma :
  exists size win, geom_ok size size win = true /\ last (ax_bounds (axis_geom size win)) 0%Z = (size - 1)%Z.
Proof. exists 59%Z, 2%Z. split; vm_compute; reflexivity. Qed.

(* the hypotheses of po_loop_spec are satisfiable: 2x4 image, labels 5 and 2 (gap at the start, not in spatial
   order), one pixel of object 5 masked out *)
Definition ex_labels : nat -> nat -> Z := fun r c => if (c <? 2)%nat then 5%Z else if (c =? 2)%nat then 0%Z else 2%Z.
Definition ex_mask2 : nat -> nat -> bool := fun r c => negb ((r =? 0)%nat && (c =? 0)%nat).
Definition ex_img : nat -> nat -> Z := fun r c => Z.of_nat (4 * r + c).
Definition ex_G (l : list Z) : Q := inject_Z (fold_right Z.add 0%Z l).
Example ex_po :
  Forall (extent_ok 2 4 ex_labels) [(5%Z, (0, 0, 2, 2)%nat); (2%Z, (0, 3, 2, 1)%nat)] /\
  map (fun rc => po_loop Z ex_G ex_labels ex_mask2 ex_img (fun q => q)
                         [(5%Z, (0, 0, 2, 2)%nat); (2%Z, (0, 3, 2, 1)%nat)] (fun _ _ => 1%Q) (fst rc) (snd rc))
      [(0, 0); (0, 1); (1, 0); (0, 2); (0, 3); (1, 3)]%nat
  = [1%Q; inject_Z 10; inject_Z 10; 1%Q; inject_Z 10; inject_Z 10].
Proof.
  split.
  - repeat constructor; cbn; try lia; intros r c Hr Hc; unfold ex_labels;
      destruct r as [|[|r]]; try lia; destruct c as [|[|[|[|c]]]]; try lia; cbn; congruence.
  - vm_compute. reflexivity.
Qed.
