(* C15 — euler_number = components - holes, topologically: C05's development is imported
   (Base/Topo.v simple_removal_topo, Base/Skel.v simple_ok_sound, Proofs/TopoCounts.v) to show that
   the numbers of 8-components and of background 4-components (in the whole plane, declaratively,
   as lists of representatives [comp_reps]) follow the quad count 4 W along every reduction by
   deletions of simple pixels, deletions of isolated points and fillings that are simple. *)
From Coq Require Import ZArith List Bool Lia.
From Centro Require Import Base.Topo Base.Skel Spec.TopoCheck Proofs.TopoCounts.
From Centro Require Import Base.GraphC15 Model.LabelGraph Spec.EulerMovesC15 Proofs.NeighborsC15 Proofs.EulerQuadC15 Proofs.EulerStepC15.
Import ListNotations.
Open Scope Z_scope.

(* the pixel set of label l as an image of the plane *)
Definition X_of (im : image) (l : Z) : Topo.img := fun q => inS im l (fst q) (snd q).

(* ---------------------------------------------------------------- representatives: generic facts *)
Lemma comp_reps_ext (R : px -> px -> Prop) (P Q : px -> Prop) l :
  (forall q, P q <-> Q q) -> comp_reps R P l -> comp_reps R Q l.
Proof.
  intros E [HF [HP HC]]. split; [|split].
  - rewrite Forall_forall in *. intros x Hx. apply E. auto.
  - clear HF HC. induction l as [|a r IH]; cbn [pairwise] in *; [exact I|]. destruct HP as [Ha Hr].
    split; [|apply IH; exact Hr]. rewrite Forall_forall in *. intros b Hb C. apply (Ha b Hb).
    eapply path_mono; [|exact C]. intros x. apply E.
  - intros a Ha. destruct (HC a (proj2 (E a) Ha)) as [r [Hr Pr]]. exists r. split; [exact Hr|].
    eapply path_mono; [|exact Pr]. intros x. apply E.
Qed.

Lemma Forall2_in_r {A} (S : A -> A -> Prop) l l' r' : Forall2 S l l' -> In r' l' -> exists r, In r l /\ S r r'.
Proof.
  intros F2. induction F2 as [|a b l l' Sab F2 IH]; intros Hr; [destruct Hr|].
  destruct Hr as [->|Hr]; [exists a; split; [left; reflexivity|exact Sab]|].
  destruct (IH Hr) as [r [H1 H2]]. exists r. split; [right; exact H1|exact H2].
Qed.

(* two complete irredundant lists of representatives have the same length *)
Lemma comp_reps_le (R : px -> px -> Prop) (P : px -> Prop) l l' : (forall a b, R a b -> R b a) ->
  comp_reps R P l -> comp_reps R P l' -> (length l <= length l')%nat.
Proof.
  intros Sym [HF [HP _]] [_ [_ HC']].
  destruct (Forall2_build P (fun a r => In r l' /\ path R P a r) l HC' HF) as [m F2].
  rewrite <- (Forall2_length' _ _ _ F2).
  apply NoDup_incl_length.
  - clear HF. induction F2 as [|a r l m [Hr Par] F2 IH]; [constructor|]. cbn [pairwise] in HP. destruct HP as [Ha HPr].
    constructor; [|apply IH; exact HPr]. intros Hin.
    destruct (Forall2_in_r _ _ _ r F2 Hin) as [a2 [Ha2 [_ Pa2]]].
    rewrite Forall_forall in Ha. apply (Ha a2 Ha2).
    eapply path_trans; [exact Par|]. apply (path_sym R P Sym). exact Pa2.
  - intros r Hr. destruct (Forall2_in_r _ _ _ r F2 Hr) as [a [_ [H _]]]. exact H.
Qed.
Lemma comp_reps_length (R : px -> px -> Prop) (P : px -> Prop) l l' : (forall a b, R a b -> R b a) ->
  comp_reps R P l -> comp_reps R P l' -> length l = length l'.
Proof. intros S A B. pose proof (comp_reps_le R P l l' S A B). pose proof (comp_reps_le R P l' l S B A). lia. Qed.

(* ---------------------------------------------------------------- simple deletion (imported from C05) *)
Lemma simple_counts X p fgl bgl : SimpleAt X p ->
  comp_reps adj8 (fg X) fgl -> comp_reps adj4 (bg X) bgl ->
  exists fgl', length fgl' = length fgl /\ comp_reps adj8 (fg (Topo.remove X p)) fgl' /\
               comp_reps adj4 (bg (Topo.remove X p)) bgl.
Proof.
  intros S HF HB. pose proof (simple_removal_topo X p S) as T.
  destruct (topo_counts_fg _ _ T fgl HF) as [fgl' [L [CF _]]]. exists fgl'. split; [exact L|]. split; [exact CF|].
  destruct HB as [BF [BP BC]]. split; [|split].
  - rewrite Forall_forall in *. intros x Hx. apply (sub_bg _ _ T). auto.
  - clear BC. induction bgl as [|a r IH]; cbn [pairwise] in *; [exact I|]. destruct BP as [Ha Hr].
    inversion BF as [|? ? Fa Fr]; subst. split; [|apply IH; assumption].
    rewrite Forall_forall in *. intros b Hb C. apply (Ha b Hb). apply (te_bg_iff _ _ T a b Fa (Fr b Hb)). exact C.
  - intros a Ha. destruct (te_bg_surj _ _ T a Ha) as [b [Hb Cab]]. destruct (BC b Hb) as [r [Hr Cbr]].
    exists r. split; [exact Hr|]. eapply path_trans; [exact Cab|].
    rewrite Forall_forall in BF. apply (te_bg_iff _ _ T b r Hb (BF r Hr)). exact Cbr.
Qed.

(* ---------------------------------------------------------------- deletion of an isolated point *)
Section Isolated.
Variables (X : Topo.img) (p : px).
Hypothesis p_fg : fg X p.
Hypothesis iso : forall a, adj8 p a -> bg X a.
Let X' := Topo.remove X p.

Lemma iso_path_from a b : path adj8 (fg X) a b -> a = p -> b = p.
Proof.
  intros H. induction H as [a Ha|a b c Ha Hab Hbc IH]; [auto|]. intros ->. exfalso.
  pose proof (iso b Hab) as Hb. pose proof (path_start _ _ _ _ Hbc) as Fb. unfold fg, bg in *. congruence.
Qed.
Lemma iso_path_keep a b : path adj8 (fg X) a b -> a <> p -> path adj8 (fg X') a b.
Proof.
  intros H. induction H as [a Ha|a b c Ha Hab Hbc IH]; intros Na.
  - apply path_refl. apply remove_fg. auto.
  - assert (Nb : b <> p).
    { intros ->. pose proof (iso a (adj8_sym _ _ Hab)) as Ba. unfold fg, bg in *. congruence. }
    eapply path_step; [apply remove_fg; auto|exact Hab|apply IH; exact Nb].
Qed.
Lemma iso_path_back a b : path adj8 (fg X') a b -> path adj8 (fg X) a b.
Proof. apply path_mono. intros x Hx. apply remove_fg in Hx. tauto. Qed.

Lemma iso_pairwise m : Forall (fun q => q <> p) m -> pairwise (fun a b => ~ path adj8 (fg X') a b) m ->
  pairwise (fun a b => ~ path adj8 (fg X) a b) m.
Proof.
  induction m as [|a r IH]; intros Fm Pm; cbn [pairwise] in *; [exact I|]. inversion Fm; subst. destruct Pm as [Pa Pr].
  split; [|apply IH; assumption]. rewrite Forall_forall in *. intros b Hb Q. apply (Pa b Hb). apply iso_path_keep; assumption.
Qed.

Lemma iso_fg_counts l : comp_reps adj8 (fg X) l ->
  exists l', length l = S (length l') /\ comp_reps adj8 (fg X') l'.
Proof.
  intros C. pose proof C as [HF [HP HC]].
  set (l' := filter (fun q => negb (px_eqb q p)) l).
  assert (IN : forall q, In q l' <-> In q l /\ q <> p).
  { intros q. unfold l'. rewrite filter_In. destruct (px_eqb_spec q p); cbn; intuition congruence. }
  assert (C' : comp_reps adj8 (fg X') l').
  { split; [|split].
    - apply Forall_forall. intros q Hq. apply IN in Hq. destruct Hq as [Hq Nq]. apply remove_fg.
      rewrite Forall_forall in HF. auto.
    - clear HF HC IN C. unfold l'. induction l as [|a r IH]; cbn [filter pairwise] in *; [exact I|].
      destruct HP as [Ha Hr]. destruct (px_eqb a p); cbn [negb]; [apply IH; exact Hr|].
      cbn [pairwise]. split; [|apply IH; exact Hr].
      apply Forall_forall. intros b Hb. apply filter_In in Hb. destruct Hb as [Hb _]. rewrite Forall_forall in Ha.
      intros P. apply (Ha b Hb). apply iso_path_back. exact P.
    - intros a Ha. apply remove_fg in Ha. destruct Ha as [Ha Na]. destruct (HC a Ha) as [r [Hr Pr]].
      exists r. split; [|apply iso_path_keep; assumption]. apply IN. split; [exact Hr|].
      intros ->. apply Na. apply (iso_path_from p a); [|reflexivity].
      apply (path_sym adj8 (fg X) adj8_sym). exact Pr. }
  exists l'. split; [|exact C'].
  assert (C2 : comp_reps adj8 (fg X) (p :: l')).
  { destruct C' as [F' [P' K']]. split; [|split].
    - constructor; [exact p_fg|]. rewrite Forall_forall in *. intros q Hq. specialize (F' q Hq). apply remove_fg in F'. tauto.
    - cbn [pairwise]. split.
      + apply Forall_forall. intros b Hb Pb. apply IN in Hb. destruct Hb as [_ Nb]. apply Nb. apply (iso_path_from p b Pb eq_refl).
      + apply iso_pairwise; [|exact P']. apply Forall_forall. intros q Hq. apply IN in Hq. tauto.
    - intros a Ha. destruct (px_eqb_spec a p) as [->|Na].
      + exists p. split; [left; reflexivity|apply path_refl; exact p_fg].
      + destruct (K' a) as [r [Hr Pr]]; [apply remove_fg; auto|]. exists r. split; [right; exact Hr|apply iso_path_back; exact Pr]. }
  exact (comp_reps_length adj8 (fg X) l (p :: l') adj8_sym C C2).
Qed.

(* the eight neighbours of p form a background ring: any two 4-neighbours are 4-connected in it *)
Lemma iso_pat : pat X p = [false; false; false; false; true; false; false; false; false].
Proof.
  assert (B : forall b, (b < 9)%nat -> b <> 4%nat -> X (nb p b) = false).
  { intros b Hb Nb. apply iso. destruct p as [py px0]. unfold adj8, nb, off. cbn [fst snd].
    do 9 (destruct b as [|b]; [try congruence; cbn; repeat split; try lia; intros E; inversion E; lia|]). lia. }
  unfold pat. cbn [seq map].
  rewrite (B 0%nat), (B 1%nat), (B 2%nat), (B 3%nat), (B 5%nat), (B 6%nat), (B 7%nat), (B 8%nat) by (try lia; congruence).
  rewrite nb_center. unfold fg in p_fg. rewrite p_fg. reflexivity.
Qed.
Lemma iso_ring a b : adj4 p a -> adj4 p b -> bg X a -> bg X b -> path adj4 (bg X) a b.
Proof.
  intros Ha Hb _ _. destruct (adj4_is_nb p a Ha) as [ka [Hka ->]]. destruct (adj4_is_nb p b Hb) as [kb [Hkb ->]].
  apply (connected_by_sound adj4 (bg X) p padj4 (bgok (pat X p))).
  - intros u v. apply padj4_sound.
  - intros c Hc. apply bgok_iff in Hc. destruct Hc as [L Bc]. unfold bg. rewrite <- (pat_nth X p c L). exact Bc.
  - rewrite iso_pat. cbn [In] in Hka, Hkb.
    destruct Hka as [<-|[<-|[<-|[<-|[]]]]]; destruct Hkb as [<-|[<-|[<-|[<-|[]]]]]; vm_compute; reflexivity.
Qed.

Lemma iso_bg_reroute : forall a c, path adj4 (bg X') a c -> c <> p ->
  (a <> p -> path adj4 (bg X) a c) /\
  (a = p -> forall a0, adj4 a0 p -> bg X a0 -> path adj4 (bg X) a0 c).
Proof.
  intros a c H; induction H as [a Ha | a b c Ha Hab Hbc IH]; intros Hc.
  - split; [intros Hap; apply path_refl; apply remove_bg in Ha; tauto | intros ->; contradiction].
  - specialize (IH Hc) as [IH1 IH2]. split.
    + intros Hap. apply remove_bg in Ha as [Ha|Ha]; [|contradiction].
      destruct (px_eqb_spec b p) as [->|Hbp].
      * apply IH2; [reflexivity|exact Hab|exact Ha].
      * eapply path_step; [exact Ha | exact Hab | apply IH1; exact Hbp].
    + intros -> a0 Ha0 Hba0.
      assert (Hbp : b <> p) by (apply adj4_neq in Hab; congruence).
      assert (Hbb : bg X b).
      { apply path_start in Hbc. apply remove_bg in Hbc as [?|?]; [auto|contradiction]. }
      eapply path_trans; [|apply IH1; exact Hbp].
      apply iso_ring; auto using adj4_sym.
Qed.

(* the background classes do not change: the same representatives serve *)
Lemma iso_bg_counts l : comp_reps adj4 (bg X) l -> comp_reps adj4 (bg X') l.
Proof.
  intros [HF [HP HC]]. split; [|split].
  - rewrite Forall_forall in *. intros q Hq. apply remove_bg. left. auto.
  - clear HC. induction l as [|a r IH]; cbn [pairwise] in *; [exact I|]. destruct HP as [Ha Hr]. inversion HF; subst.
    split; [|apply IH; assumption]. rewrite Forall_forall in *. intros b Hb P. apply (Ha b Hb).
    assert (Nb : b <> p) by (intros ->; specialize (H2 p Hb); unfold fg, bg in *; congruence).
    assert (Na : a <> p) by (intros ->; unfold fg, bg in *; congruence).
    apply (proj1 (iso_bg_reroute a b P Nb) Na).
  - intros a Ha. apply remove_bg in Ha. destruct Ha as [Ha| ->].
    + destruct (HC a Ha) as [r [Hr Pr]]. exists r. split; [exact Hr|]. eapply path_mono; [|exact Pr].
      intros x Hx. apply remove_bg. left. exact Hx.
    + set (nn := nb p 1).
      assert (An : adj4 p nn) by (rewrite <- (nb_center p) at 1; apply (padj4_sound p 4 1); reflexivity).
      assert (Bn : bg X nn) by (apply iso; rewrite <- (nb_center p) at 1; apply (padj8_sound p 4 1); reflexivity).
      destruct (HC nn Bn) as [r [Hr Pr]]. exists r. split; [exact Hr|].
      eapply path_step; [apply remove_bg; right; reflexivity|exact An|].
      eapply path_mono; [|exact Pr]. intros x Hx. apply remove_bg. left. exact Hx.
Qed.
End Isolated.

(* ---------------------------------------------------------------- the two moves, abstractly *)
(* adding to a set Small a point p that has no R-neighbour in it: one more class *)
Section AddIsolated.
Variable R : px -> px -> Prop.
Hypothesis R_sym : forall a b, R a b -> R b a.
Variables (Small Big : px -> Prop) (p : px).
Hypothesis big_iff : forall z, Big z <-> Small z \/ z = p.
Hypothesis p_new : ~ Small p.
Hypothesis p_alone : forall a, R p a -> ~ Small a.

Lemma ai_from a b : path R Big a b -> a = p -> b = p.
Proof.
  intros H. induction H as [a Ha|a b c Ha Hab Hbc IH]; [auto|]. intros ->.
  pose proof (path_start _ _ _ _ Hbc) as Fb. apply big_iff in Fb. destruct Fb as [Fb| ->]; [|apply IH; reflexivity].
  exfalso. exact (p_alone b Hab Fb).
Qed.
Lemma ai_keep a b : path R Big a b -> a <> p -> path R Small a b.
Proof.
  intros H. induction H as [a Ha|a b c Ha Hab Hbc IH]; intros Na.
  - apply path_refl. apply big_iff in Ha. tauto.
  - assert (Sa : Small a) by (apply big_iff in Ha; tauto).
    assert (Nb : b <> p) by (intros ->; exact (p_alone a (R_sym _ _ Hab) Sa)).
    eapply path_step; [exact Sa|exact Hab|apply IH; exact Nb].
Qed.
Lemma ai_back a b : path R Small a b -> path R Big a b.
Proof. apply path_mono. intros x Hx. apply big_iff. left. exact Hx. Qed.

Lemma ai_counts l : comp_reps R Big l -> exists l', length l = S (length l') /\ comp_reps R Small l'.
Proof.
  intros C. pose proof C as [HF [HP HC]].
  set (l' := filter (fun z => negb (Topo.px_eqb z p)) l).
  assert (IN : forall z, In z l' <-> In z l /\ z <> p).
  { intros z. unfold l'. rewrite filter_In. destruct (px_eqb_spec z p); cbn; intuition congruence. }
  assert (C' : comp_reps R Small l').
  { split; [|split].
    - apply Forall_forall. intros z Hz. apply IN in Hz. destruct Hz as [Hz Nz].
      rewrite Forall_forall in HF. specialize (HF z Hz). apply big_iff in HF. tauto.
    - clear HF HC IN C. unfold l'. induction l as [|a r IH]; cbn [filter pairwise] in *; [exact I|].
      destruct HP as [Ha Hr]. destruct (Topo.px_eqb a p); cbn [negb]; [apply IH; exact Hr|].
      cbn [pairwise]. split; [|apply IH; exact Hr].
      apply Forall_forall. intros b Hb. apply filter_In in Hb. destruct Hb as [Hb _]. rewrite Forall_forall in Ha.
      intros P. apply (Ha b Hb). apply ai_back. exact P.
    - intros a Ha. assert (Na : a <> p) by (intros ->; contradiction).
      destruct (HC a) as [r [Hr Pr]]; [apply big_iff; left; exact Ha|].
      exists r. split; [|apply ai_keep; assumption]. apply IN. split; [exact Hr|].
      intros ->. apply Na. apply (ai_from p a); [|reflexivity]. apply (path_sym R Big R_sym). exact Pr. }
  exists l'. split; [|exact C'].
  assert (C2 : comp_reps R Big (p :: l')).
  { destruct C' as [F' [P' K']]. split; [|split].
    - constructor; [apply big_iff; right; reflexivity|]. rewrite Forall_forall in *. intros z Hz. apply big_iff. left. auto.
    - cbn [pairwise]. split.
      + apply Forall_forall. intros b Hb Pb. apply IN in Hb. destruct Hb as [_ Nb]. apply Nb. apply (ai_from p b Pb eq_refl).
      + assert (Fm : Forall (fun z => z <> p) l') by (apply Forall_forall; intros z Hz; apply IN in Hz; tauto).
        clear K' F' IN C HC HP HF. induction l' as [|a r IH]; cbn [pairwise] in *; [exact I|]. inversion Fm; subst. destruct P' as [Pa Pr].
        split; [|apply IH; assumption]. rewrite Forall_forall in *. intros b Hb Q. apply (Pa b Hb). apply ai_keep; assumption.
    - intros a Ha. destruct (px_eqb_spec a p) as [->|Na].
      + exists p. split; [left; reflexivity|apply path_refl; exact Ha].
      + destruct (K' a) as [r [Hr Pr]]; [apply big_iff in Ha; tauto|]. exists r. split; [right; exact Hr|apply ai_back; exact Pr]. }
  exact (comp_reps_length R Big l (p :: l') R_sym C C2).
Qed.
End AddIsolated.

(* adding to Small a point p whose R-neighbours in Small exist and are pairwise connected in Small:
   the same representatives serve *)
Section AddAttached.
Variable R : px -> px -> Prop.
Hypothesis R_sym : forall a b, R a b -> R b a.
Hypothesis R_irr : forall a b, R a b -> a <> b.
Variables (Small Big : px -> Prop) (p : px).
Hypothesis big_iff : forall z, Big z <-> Small z \/ z = p.
Hypothesis p_new : ~ Small p.
Hypothesis ring : forall a b, R p a -> R p b -> Small a -> Small b -> path R Small a b.
Hypothesis has_nb : exists a, R p a /\ Small a.

Lemma aa_reroute : forall a c, path R Big a c -> c <> p ->
  (a <> p -> path R Small a c) /\ (a = p -> forall a0, R a0 p -> Small a0 -> path R Small a0 c).
Proof.
  intros a c H; induction H as [a Ha | a b c Ha Hab Hbc IH]; intros Hc.
  - split; [intros Hap; apply path_refl; apply big_iff in Ha; tauto | intros ->; contradiction].
  - specialize (IH Hc) as [IH1 IH2]. split.
    + intros Hap. assert (Sa : Small a) by (apply big_iff in Ha; tauto).
      destruct (px_eqb_spec b p) as [->|Hbp].
      * apply IH2; [reflexivity|exact Hab|exact Sa].
      * eapply path_step; [exact Sa | exact Hab | apply IH1; exact Hbp].
    + intros -> a0 Ha0 Sa0.
      assert (Hbp : b <> p) by (apply R_irr in Hab; congruence).
      assert (Sb : Small b) by (apply path_start in Hbc; apply big_iff in Hbc; tauto).
      eapply path_trans; [|apply IH1; exact Hbp]. apply ring; auto.
Qed.
Lemma aa_counts l : comp_reps R Small l -> comp_reps R Big l.
Proof.
  intros [HF [HP HC]]. split; [|split].
  - rewrite Forall_forall in *. intros z Hz. apply big_iff. left. auto.
  - clear HC. induction l as [|a r IH]; cbn [pairwise] in *; [exact I|]. destruct HP as [Ha Hr]. inversion HF; subst.
    split; [|apply IH; assumption]. rewrite Forall_forall in *. intros b Hb P. apply (Ha b Hb).
    assert (Nb : b <> p) by (intros ->; exact (p_new (H2 p Hb))).
    assert (Na : a <> p) by (intros ->; contradiction).
    apply (proj1 (aa_reroute a b P Nb) Na).
  - intros a Ha. apply big_iff in Ha. destruct Ha as [Ha| ->].
    + destruct (HC a Ha) as [r [Hr Pr]]. exists r. split; [exact Hr|]. eapply path_mono; [|exact Pr].
      intros x Hx. apply big_iff. left. exact Hx.
    + destruct has_nb as [n [Rn Sn]]. destruct (HC n Sn) as [r [Hr Pr]]. exists r. split; [exact Hr|].
      eapply path_step; [apply big_iff; right; reflexivity|exact Rn|].
      eapply path_mono; [|exact Pr]. intros x Hx. apply big_iff. left. exact Hx.
Qed.
End AddAttached.

(* ---------------------------------------------------------------- filling a one-pixel hole *)
(* q is in X, its four 4-neighbours are in X: removing q opens a one-pixel hole *)
Section Hole.
Variables (X : Topo.img) (q : px).
Hypothesis q_fg : fg X q.
Hypothesis nb4 : forall a, adj4 q a -> fg X a.
Let X' := Topo.remove X q.

(* the background of X' has one more class than that of X: the hole {q} *)
Lemma hole_bg_counts l' : comp_reps adj4 (bg X') l' -> exists l, length l' = S (length l) /\ comp_reps adj4 (bg X) l.
Proof.
  apply (ai_counts adj4 adj4_sym (bg X) (bg X') q).
  - intros z. apply remove_bg.
  - unfold bg, fg in *. congruence.
  - intros a Ha Ba. specialize (nb4 a Ha). unfold bg, fg in *. congruence.
Qed.

(* Finite: with the four 4-neighbours set, all set neighbours are 8-connected without the centre *)
Lemma hole_ring_check : forall d0 d2 d6 d8 : bool,
  let bits := [d0; true; d2; true; true; true; d6; true; d8] in
  forallb (fun a => forallb (fun b => negb (fgok bits a) || negb (fgok bits b) || connected_by padj8 (fgok bits) a b)
                            (seq 0 9)) (seq 0 9) = true.
Proof. intros d0 d2 d6 d8. destruct d0, d2, d6, d8; vm_compute; reflexivity. Qed.

Lemma hole_pat : pat X q = [X (nb q 0); true; X (nb q 2); true; true; true; X (nb q 6); true; X (nb q 8)].
Proof.
  assert (B : forall b, In b [1; 3; 5; 7]%nat -> X (nb q b) = true).
  { intros b Hb. apply nb4. rewrite <- (nb_center q) at 1. apply padj4_sound.
    cbn [In] in Hb. destruct Hb as [<-|[<-|[<-|[<-|[]]]]]; reflexivity. }
  unfold pat. cbn [seq map]. rewrite (B 1%nat), (B 3%nat), (B 5%nat), (B 7%nat) by (cbn; tauto).
  rewrite nb_center. unfold fg in q_fg. rewrite q_fg. reflexivity.
Qed.
Lemma hole_ring a b : adj8 q a -> adj8 q b -> fg X' a -> fg X' b -> path adj8 (fg X') a b.
Proof.
  intros Ha Hb Fa Fb. destruct (adj8_is_nb q a Ha) as [ka [La [Na ->]]]. destruct (adj8_is_nb q b Hb) as [kb [Lb [Nb ->]]].
  apply remove_fg in Fa. apply remove_fg in Fb. destruct Fa as [Fa _]. destruct Fb as [Fb _].
  assert (Oa : fgok (pat X q) ka = true) by (apply fgok_iff; repeat split; auto; unfold bit; rewrite pat_nth by exact La; exact Fa).
  assert (Ob : fgok (pat X q) kb = true) by (apply fgok_iff; repeat split; auto; unfold bit; rewrite pat_nth by exact Lb; exact Fb).
  apply (connected_by_sound adj8 (fg X') q padj8 (fgok (pat X q))).
  - intros u v. apply padj8_sound.
  - intros c Hc. apply fgok_iff in Hc. destruct Hc as [L [Bc Nc]]. apply remove_fg. split.
    + unfold fg. rewrite <- (pat_nth X q c L). exact Bc.
    + intros E. apply Nc. eapply nb_is_center; eauto.
  - pose proof (hole_ring_check (X (nb q 0)) (X (nb q 2)) (X (nb q 6)) (X (nb q 8))) as CK. cbv zeta in CK.
    rewrite <- hole_pat in CK. rewrite forallb_forall in CK. specialize (CK ka ltac:(apply in_seq; lia)).
    rewrite forallb_forall in CK. specialize (CK kb ltac:(apply in_seq; lia)). rewrite Oa, Ob in CK. exact CK.
Qed.

(* the 8-components do not change: the same representatives serve *)
Lemma hole_fg_counts l : comp_reps adj8 (fg X') l -> comp_reps adj8 (fg X) l.
Proof.
  assert (IRR : forall a b, adj8 a b -> a <> b) by (intros a b [H _]; exact H).
  assert (BI : forall z, fg X z <-> fg X' z \/ z = q).
  { intros z. split.
    - intros Hz. destruct (px_eqb_spec z q) as [->|N]; [right; reflexivity|left; apply remove_fg; auto].
    - intros [Hz| ->]; [apply remove_fg in Hz; tauto|exact q_fg]. }
  assert (PN : ~ fg X' q) by (intros H; apply remove_fg in H; tauto).
  assert (HN : exists a, adj8 q a /\ fg X' a).
  { exists (nb q 1). assert (A4 : adj4 q (nb q 1)) by (rewrite <- (nb_center q) at 1; apply padj4_sound; reflexivity).
    split; [rewrite <- (nb_center q) at 1; apply padj8_sound; reflexivity|]. apply remove_fg. split; [apply nb4; exact A4|].
    apply adj4_neq in A4. congruence. }
  exact (aa_counts adj8 adj8_sym IRR (fg X') (fg X) q BI PN hole_ring HN l).
Qed.
End Hole.

(* ---------------------------------------------------------------- image operations in the plane *)
Lemma X_of_remove im l y x : l <> 0 -> get2 im y x = l ->
  forall q, X_of (remove_px im y x) l q = Topo.remove (X_of im l) (y, x) q.
Proof.
  intros Hl P q. unfold X_of, Topo.remove, Topo.px_eqb. cbn [fst snd]. apply inS_removed; assumption.
Qed.
Lemma fg_ext (X Y : Topo.img) : (forall q, X q = Y q) -> forall q, fg X q <-> fg Y q.
Proof. intros E q. unfold fg. rewrite E. tauto. Qed.
Lemma bg_ext (X Y : Topo.img) : (forall q, X q = Y q) -> forall q, bg X q <-> bg Y q.
Proof. intros E q. unfold bg. rewrite E. tauto. Qed.

(* Finite-256: the (8,4)-simple predicate of Proofs/EulerStepC15.v is C05's simple_ok on the pattern
   with the centre set *)
Lemma simple8_is_simple_ok : forall n00 n01 n02 n10 n12 n20 n21 n22,
  simple8 n00 n01 n02 n10 n12 n20 n21 n22 = simple_ok [n00; n01; n02; n10; true; n12; n20; n21; n22].
Proof.
  intros n00 n01 n02 n10 n12 n20 n21 n22.
  destruct n00, n01, n02, n10, n12, n20, n21, n22; vm_compute; reflexivity.
Qed.

Lemma pat_X_of im l y x : inS im l y x = true ->
  pat (X_of im l) (y, x) =
  [nb_bit im l y x (-1) (-1); nb_bit im l y x (-1) 0; nb_bit im l y x (-1) 1; nb_bit im l y x 0 (-1); true;
   nb_bit im l y x 0 1; nb_bit im l y x 1 (-1); nb_bit im l y x 1 0; nb_bit im l y x 1 1].
Proof.
  intros C. unfold pat, X_of, nb, off, nb_bit. cbn [seq map fst snd Nat.div Nat.modulo Nat.divmod Z.of_nat Z.sub Z.add Z.opp Z.pos_sub Pos.of_succ_nat Pos.succ].
  rewrite !Z.add_0_r. rewrite C. reflexivity.
Qed.
Lemma simple_at_SimpleAt im l y x : get2 im y x = l -> simple_at im l y x = true -> SimpleAt (X_of im l) (y, x).
Proof.
  intros P S. apply simple_ok_sound. rewrite pat_X_of by (unfold inS; rewrite P; apply Z.eqb_refl).
  rewrite <- simple8_is_simple_ok. exact S.
Qed.
Lemma isolated_at_iso im l y x : isolated_at im l y x = true -> forall a, adj8 (y, x) a -> bg (X_of im l) a.
Proof.
  unfold isolated_at, isolated8, nb_bit. intros H a Ha. apply negb_true_iff in H.
  repeat (apply orb_false_iff in H; destruct H as [H ?]).
  destruct (adj8_is_nb (y, x) a Ha) as [b [Hb [Nb ->]]]. unfold bg, X_of, nb, off.
  do 9 (destruct b as [|b]; [try congruence;
    cbn [fst snd Nat.div Nat.modulo Nat.divmod Z.of_nat Z.sub Z.add Z.opp Z.pos_sub Pos.of_succ_nat Pos.succ]; assumption|]). lia.
Qed.

(* ---------------------------------------------------------------- writing a pixel inside the image *)
Lemma set_px_get_inside (im : image) y x v y' x' : rect im ->
  0 <= y < Z.of_nat (img_h im) -> 0 <= x < Z.of_nat (img_w im) ->
  get2 (set_px im y x v) y' x' = if (y' =? y) && (x' =? x) then v else get2 im y' x'.
Proof.
  intros R Hy Hx. unfold set_px, get2, get2d in *.
  destruct (Z.ltb_spec y 0) as [?|_]; [lia|]. destruct (Z.ltb_spec x 0) as [?|_]; [lia|]. cbn [orb].
  destruct (nth_error im (Z.to_nat y)) as [row|] eqn:Er; [|apply nth_error_None in Er; unfold img_h in Hy; lia].
  assert (Lr : length row = img_w im).
  { unfold rect in R. rewrite Forall_forall in R. apply R. eapply nth_error_In; eauto. }
  destruct (nth_error row (Z.to_nat x)) as [v0|] eqn:Ev; [|apply nth_error_None in Ev; lia].
  destruct (Z.eqb_spec y' y) as [->|Ny]; cbn [andb].
  - destruct (Z.ltb_spec y 0); [lia|]. cbn [orb].
    rewrite nth_error_upd_same, Er. cbn [option_map].
    destruct (Z.eqb_spec x' x) as [->|Nx].
    + destruct (Z.ltb_spec x 0); [lia|]. rewrite nth_error_upd_same, Ev. reflexivity.
    + destruct (Z.ltb_spec x' 0); [reflexivity|]. rewrite nth_error_upd_other by lia. reflexivity.
  - destruct (Z.ltb_spec y' 0); cbn [orb]; [reflexivity|].
    rewrite nth_error_upd_other by lia. reflexivity.
Qed.

Lemma euler4_ext (im1 im2 : image) l : rect im1 -> rect im2 -> l <> 0 ->
  img_h im1 = img_h im2 -> img_w im1 = img_w im2 -> (forall y x, inS im1 l y x = inS im2 l y x) ->
  euler4 im1 l = euler4 im2 l.
Proof.
  intros R1 R2 Hl Eh Ew E. rewrite (euler4_qval im1 l R1 Hl), (euler4_qval im2 l R2 Hl), !quad_sum_sum2.
  rewrite Eh, Ew. unfold sum2. apply sum1_ext. intros y _. apply sum1_ext. intros x _. rewrite !E. reflexivity.
Qed.

(* ---------------------------------------------------------------- reversed simple deletion = simple filling *)
Lemma simple_counts_rev X p fgl bgl' : SimpleAt X p ->
  comp_reps adj8 (fg (Topo.remove X p)) fgl -> comp_reps adj4 (bg (Topo.remove X p)) bgl' ->
  exists bgl, length bgl = length bgl' /\ comp_reps adj8 (fg X) fgl /\ comp_reps adj4 (bg X) bgl.
Proof.
  intros S HF HB. pose proof (simple_removal_topo X p S) as T.
  destruct (topo_counts_bg _ _ T bgl' HB) as [bgl [L [CB _]]]. exists bgl. split; [exact L|]. split; [|exact CB].
  destruct HF as [FF [FP FC]]. split; [|split].
  - rewrite Forall_forall in *. intros x Hx. apply (te_sub _ _ T). auto.
  - clear FC. induction fgl as [|a r IH]; cbn [pairwise] in *; [exact I|]. destruct FP as [Ha Hr].
    inversion FF as [|? ? Fa Fr]; subst. split; [|apply IH; assumption].
    rewrite Forall_forall in *. intros b Hb C. apply (Ha b Hb). apply (te_fg_iff _ _ T a b Fa (Fr b Hb)). exact C.
  - intros a Ha. destruct (te_fg_surj _ _ T a Ha) as [b [Hb Cab]]. destruct (FC b Hb) as [r [Hr Cbr]].
    exists r. split; [exact Hr|]. eapply path_trans; [exact Cab|].
    rewrite Forall_forall in FF. apply (te_fg_iff _ _ T b r Hb (FF r Hr)). exact Cbr.
Qed.

(* Finite (16 patterns): closing a one-pixel hole raises the quad count by 4 *)
Lemma hole_delta_four : forall d0 d2 d6 d8 : bool, qdelta d0 true d2 true true d6 true d8 = 4.
Proof. intros d0 d2 d6 d8. destruct d0, d2, d6, d8; vm_compute; reflexivity. Qed.

(* the quad side of the two filling moves *)
Lemma removed_filled_inS im l y x : rect im -> l <> 0 ->
  0 <= y < Z.of_nat (img_h im) -> 0 <= x < Z.of_nat (img_w im) -> get2 im y x <> l ->
  get2 (set_px im y x l) y x = l /\
  euler4 (remove_px (set_px im y x l) y x) l = euler4 im l /\
  (forall dy dx, (dy, dx) <> (0, 0) -> inS (set_px im y x l) l (y + dy) (x + dx) = nb_bit im l y x dy dx).
Proof.
  intros R Hl Hy Hx NP. set (im2 := set_px im y x l).
  assert (R2 : rect im2) by (apply set_px_rect; exact R).
  assert (G2 : forall y' x', get2 im2 y' x' = if (y' =? y) && (x' =? x) then l else get2 im y' x')
    by (intros; apply set_px_get_inside; assumption).
  assert (P2 : get2 im2 y x = l) by (rewrite G2, !Z.eqb_refl; reflexivity).
  split; [exact P2|]. split.
  - apply euler4_ext; auto.
    + apply set_px_rect. exact R2.
    + unfold remove_px, im2. rewrite !set_px_h. reflexivity.
    + unfold remove_px, im2. rewrite !set_px_w. reflexivity.
    + intros y' x'. rewrite (inS_removed im2 l y x Hl P2). unfold inS. rewrite G2.
      destruct ((y' =? y) && (x' =? x)) eqn:Eq; [|reflexivity].
      apply andb_true_iff in Eq. destruct Eq as [A B]. apply Z.eqb_eq in A. apply Z.eqb_eq in B. subst y' x'.
      symmetry. apply Z.eqb_neq. exact NP.
  - intros dy dx N. unfold nb_bit, inS. fold im2. rewrite G2.
    destruct ((y + dy =? y) && (x + dx =? x)) eqn:Eq; [|reflexivity].
    apply andb_true_iff in Eq. destruct Eq as [A B]. apply Z.eqb_eq in A. apply Z.eqb_eq in B.
    exfalso. apply N. f_equal; lia.
Qed.
Lemma fill_keeps_euler4 im l y x : rect im -> l <> 0 ->
  0 <= y < Z.of_nat (img_h im) -> 0 <= x < Z.of_nat (img_w im) -> get2 im y x <> l ->
  simple_at (set_px im y x l) l y x = true -> euler4 (set_px im y x l) l = euler4 im l.
Proof.
  intros R Hl Hy Hx NP S. destruct (removed_filled_inS im l y x R Hl Hy Hx NP) as [P2 [E _]].
  rewrite <- E. symmetry. apply euler_simple_deletion; auto. apply set_px_rect. exact R.
Qed.
Lemma hole_raises_euler4 im l y x : rect im -> l <> 0 ->
  0 <= y < Z.of_nat (img_h im) -> 0 <= x < Z.of_nat (img_w im) -> get2 im y x <> l ->
  hole4_at im l y x = true -> euler4 (set_px im y x l) l = euler4 im l + 4.
Proof.
  intros R Hl Hy Hx NP S. destruct (removed_filled_inS im l y x R Hl Hy Hx NP) as [P2 [E NB]].
  rewrite (euler_removal_step (set_px im y x l) l y x (set_px_rect im y x l R) Hl P2).
  rewrite !NB by (intros E0; inversion E0). unfold hole4_at in S.
  repeat (apply andb_true_iff in S; destruct S as [S ?]). rewrite H, H0, H1, S. rewrite hole_delta_four. rewrite E. reflexivity.
Qed.

(* ---------------------------------------------------------------- reductions with fillings *)
(* [Reduces2 l im k]: the pixel set of l is emptied by deleting simple pixels, filling pixels that are
   simple once filled (the reverse of a simple deletion), deleting isolated points (k counts them)
   and closing one-pixel holes (k counts them negatively) *)
Inductive Reduces2 (l : Z) : image -> Z -> Prop :=
| r2_empty im : (forall y x, get2 im y x <> l) -> Reduces2 l im 0
| r2_simple im y x k : get2 im y x = l -> simple_at im l y x = true ->
    Reduces2 l (remove_px im y x) k -> Reduces2 l im k
| r2_point im y x k : get2 im y x = l -> isolated_at im l y x = true ->
    Reduces2 l (remove_px im y x) k -> Reduces2 l im (k + 1)
| r2_fill im y x k : 0 <= y < Z.of_nat (img_h im) -> 0 <= x < Z.of_nat (img_w im) -> get2 im y x <> l ->
    simple_at (set_px im y x l) l y x = true ->
    Reduces2 l (set_px im y x l) k -> Reduces2 l im k
| r2_hole im y x k : 0 <= y < Z.of_nat (img_h im) -> 0 <= x < Z.of_nat (img_w im) -> get2 im y x <> l ->
    hole4_at im l y x = true ->
    Reduces2 l (set_px im y x l) k -> Reduces2 l im (k - 1).

Lemma Reduces_Reduces2 l im k : Reduces l im k -> Reduces2 l im k.
Proof. induction 1; [apply r2_empty|eapply r2_simple|eapply r2_point]; eauto. Qed.

Definition topo_count (fgl bgl : list px) : Z := Z.of_nat (length fgl) - (Z.of_nat (length bgl) - 1).

(* 4 W = 4 (components - holes), components and holes counted declaratively in the whole plane: for
   EVERY complete irredundant list of representatives of the 8-components of the label's pixel set
   and of the 4-components of its complement *)
Theorem euler_reducible_topological (l : Z) : l <> 0 -> forall im k, Reduces2 l im k -> rect im ->
  forall fgl bgl, comp_reps adj8 (fg (X_of im l)) fgl -> comp_reps adj4 (bg (X_of im l)) bgl ->
  euler4 im l = 4 * topo_count fgl bgl /\ topo_count fgl bgl = k.
Proof.
  intros Hl im k H.
  induction H as [im E|im y x k P S _ IH|im y x k P S _ IH|im y x k Hy Hx NP S _ IH|im y x k Hy Hx NP S _ IH];
    intros R fgl bgl CF CB.
  - (* empty *)
    assert (X0 : forall q, X_of im l q = false) by (intros q; unfold X_of, inS; apply Z.eqb_neq; apply E).
    assert (fgl = []).
    { destruct fgl as [|a r]; [reflexivity|]. destruct CF as [F _]. inversion F as [|? ? Fa _]; subst.
      unfold fg in Fa. rewrite X0 in Fa. discriminate. }
    assert (length bgl = 1%nat).
    { apply (comp_reps_length adj4 (bg (X_of im l)) bgl [(0, 0)] adj4_sym CB).
      apply (comp_reps_ext adj4 (bg (fun _ => false))); [|exact comp_reps_bg_example].
      intros q. unfold bg. rewrite X0. tauto. }
    subst fgl. unfold topo_count. rewrite H0. cbn [length]. rewrite euler4_empty by auto. lia.
  - (* simple deletion *)
    pose proof (simple_at_SimpleAt im l y x P S) as SA.
    destruct (simple_counts _ _ fgl bgl SA CF CB) as [fgl' [L [CF' CB']]].
    assert (EX : forall q, Topo.remove (X_of im l) (y, x) q = X_of (remove_px im y x) l q)
      by (intros q; symmetry; apply X_of_remove; assumption).
    destruct (IH (set_px_rect im y x 0 R) fgl' bgl
                (comp_reps_ext _ _ _ _ (fg_ext _ _ EX) CF') (comp_reps_ext _ _ _ _ (bg_ext _ _ EX) CB')) as [E1 E2].
    rewrite <- (euler_simple_deletion im l y x R Hl P S). unfold topo_count in *. rewrite L in *. split; [exact E1|exact E2].
  - (* isolated point *)
    assert (PF : fg (X_of im l) (y, x)) by (unfold fg, X_of, inS; cbn [fst snd]; rewrite P; apply Z.eqb_refl).
    pose proof (isolated_at_iso im l y x S) as ISO.
    destruct (iso_fg_counts _ _ PF ISO fgl CF) as [fgl' [L CF']].
    pose proof (iso_bg_counts _ _ PF ISO bgl CB) as CB'.
    assert (EX : forall q, Topo.remove (X_of im l) (y, x) q = X_of (remove_px im y x) l q)
      by (intros q; symmetry; apply X_of_remove; assumption).
    destruct (IH (set_px_rect im y x 0 R) fgl' bgl
                (comp_reps_ext _ _ _ _ (fg_ext _ _ EX) CF') (comp_reps_ext _ _ _ _ (bg_ext _ _ EX) CB')) as [E1 E2].
    rewrite (euler_removal_step im l y x R Hl P). unfold isolated_at, nb_bit in S.
    rewrite (isolated_delta_four _ _ _ _ _ _ _ _ S). unfold topo_count in *. rewrite L. split; lia.
  - (* filling: the filled image loses the pixel again by a simple deletion *)
    set (im2 := set_px im y x l) in *.
    assert (R2 : rect im2) by (apply set_px_rect; exact R).
    assert (G2 : forall y' x', get2 im2 y' x' = if (y' =? y) && (x' =? x) then l else get2 im y' x')
      by (intros; apply set_px_get_inside; assumption).
    assert (P2 : get2 im2 y x = l) by (rewrite G2, !Z.eqb_refl; reflexivity).
    pose proof (simple_at_SimpleAt im2 l y x P2 S) as SA.
    assert (EX : forall q, X_of im l q = Topo.remove (X_of im2 l) (y, x) q).
    { intros [qy qx]. unfold X_of, Topo.remove, Topo.px_eqb, inS. cbn [fst snd]. rewrite G2.
      destruct ((qy =? y) && (qx =? x)) eqn:Eq; [|reflexivity].
      apply andb_true_iff in Eq. destruct Eq as [A B]. apply Z.eqb_eq in A. apply Z.eqb_eq in B. subst qy qx. apply Z.eqb_neq. exact NP. }
    destruct (simple_counts_rev _ _ fgl bgl SA (comp_reps_ext _ _ _ _ (fg_ext _ _ EX) CF)
                (comp_reps_ext _ _ _ _ (bg_ext _ _ EX) CB)) as [bgl2 [L [CF2 CB2]]].
    destruct (IH R2 fgl bgl2 CF2 CB2) as [E1 E2].
    assert (EE : euler4 im l = euler4 im2 l).
    { rewrite <- (euler_simple_deletion im2 l y x R2 Hl P2 S).
      apply euler4_ext; auto.
      - apply set_px_rect. exact R2.
      - unfold remove_px, im2. rewrite !set_px_h. reflexivity.
      - unfold remove_px, im2. rewrite !set_px_w. reflexivity.
      - intros y' x'. rewrite (inS_removed im2 l y x Hl P2). unfold inS. rewrite G2.
        destruct ((y' =? y) && (x' =? x)) eqn:Eq; [|reflexivity].
        apply andb_true_iff in Eq. destruct Eq as [A B]. apply Z.eqb_eq in A. apply Z.eqb_eq in B. subst y' x'. apply Z.eqb_neq. exact NP. }
    rewrite EE. unfold topo_count in *. rewrite <- L. split; [exact E1|exact E2].
  - (* closing a one-pixel hole *)
    set (im2 := set_px im y x l) in *.
    assert (R2 : rect im2) by (apply set_px_rect; exact R).
    assert (G2 : forall y' x', get2 im2 y' x' = if (y' =? y) && (x' =? x) then l else get2 im y' x')
      by (intros; apply set_px_get_inside; assumption).
    assert (P2 : get2 im2 y x = l) by (rewrite G2, !Z.eqb_refl; reflexivity).
    assert (NB : forall dy dx, (dy, dx) <> (0, 0) -> inS im2 l (y + dy) (x + dx) = nb_bit im l y x dy dx).
    { intros dy dx N. unfold nb_bit, inS. rewrite G2.
      destruct ((y + dy =? y) && (x + dx =? x)) eqn:Eq; [|reflexivity].
      apply andb_true_iff in Eq. destruct Eq as [A B]. apply Z.eqb_eq in A. apply Z.eqb_eq in B.
      exfalso. apply N. f_equal; lia. }
    unfold hole4_at in S. repeat (apply andb_true_iff in S; destruct S as [S ?]).
    assert (EX : forall q, X_of im l q = Topo.remove (X_of im2 l) (y, x) q).
    { intros [qy qx]. unfold X_of, Topo.remove, Topo.px_eqb, inS. cbn [fst snd]. rewrite G2.
      destruct ((qy =? y) && (qx =? x)) eqn:Eq; [|reflexivity].
      apply andb_true_iff in Eq. destruct Eq as [A B]. apply Z.eqb_eq in A. apply Z.eqb_eq in B. subst qy qx. apply Z.eqb_neq. exact NP. }
    assert (QF : fg (X_of im2 l) (y, x)) by (unfold fg, X_of, inS; cbn [fst snd]; rewrite P2; apply Z.eqb_refl).
    assert (N4 : forall a, adj4 (y, x) a -> fg (X_of im2 l) a).
    { intros a Ha. destruct (adj4_is_nb (y, x) a Ha) as [b [Hb ->]]. unfold fg, X_of, nb, off.
      cbn [In] in Hb. destruct Hb as [<-|[<-|[<-|[<-|[]]]]];
        cbn [fst snd Nat.div Nat.modulo Nat.divmod Z.of_nat Z.sub Z.add Z.opp Z.pos_sub Pos.of_succ_nat Pos.succ];
        rewrite NB by (intros E0; inversion E0); assumption. }
    pose proof (hole_fg_counts _ _ QF N4 fgl (comp_reps_ext _ _ _ _ (fg_ext _ _ EX) CF)) as CF2.
    destruct (hole_bg_counts _ _ QF N4 bgl (comp_reps_ext _ _ _ _ (bg_ext _ _ EX) CB)) as [bgl2 [L CB2]].
    destruct (IH R2 fgl bgl2 CF2 CB2) as [E1 E2].
    assert (EE : euler4 im2 l = euler4 im l + 4).
    { rewrite (euler_removal_step im2 l y x R2 Hl P2). rewrite !NB by (intros E0; inversion E0).
      rewrite H, H0, H1, S. rewrite hole_delta_four. f_equal.
      apply euler4_ext; auto.
      - apply set_px_rect. exact R2.
      - unfold remove_px, im2. rewrite !set_px_h. reflexivity.
      - unfold remove_px, im2. rewrite !set_px_w. reflexivity.
      - intros y' x'. rewrite (inS_removed im2 l y x Hl P2). unfold inS. rewrite G2.
        destruct ((y' =? y) && (x' =? x)) eqn:Eq; [|reflexivity].
        apply andb_true_iff in Eq. destruct Eq as [A B]. apply Z.eqb_eq in A. apply Z.eqb_eq in B. subst y' x'.
        symmetry. apply Z.eqb_neq. exact NP. }
    unfold topo_count in *. rewrite L. split; lia.
Qed.

(* the hypotheses are satisfiable, and images with holes are covered: the 4-pixel diamond ring (one
   8-component, one hole) is reduced with k = 0: close the hole, peel the four arms, delete the point *)
Example ring_reduces : Reduces2 1 [[0; 1; 0]; [1; 0; 1]; [0; 1; 0]] 0 /\ euler4 [[0; 1; 0]; [1; 0; 1]; [0; 1; 0]] 1 = 0.
Proof.
  split; [|vm_compute; reflexivity].
  refine (r2_hole 1 [[0; 1; 0]; [1; 0; 1]; [0; 1; 0]] 1 1 1 _ _ _ _ _);
    [cbn; lia|cbn; lia|vm_compute; discriminate|vm_compute; reflexivity|].
  apply (r2_simple 1 _ 0 1 1); [reflexivity|vm_compute; reflexivity|].
  apply (r2_simple 1 _ 2 1 1); [reflexivity|vm_compute; reflexivity|].
  apply (r2_simple 1 _ 1 0 1); [reflexivity|vm_compute; reflexivity|].
  apply (r2_simple 1 _ 1 2 1); [reflexivity|vm_compute; reflexivity|].
  refine (r2_point 1 _ 1 1 0 _ _ _); [reflexivity|vm_compute; reflexivity|].
  apply r2_empty. intros y x.
  match goal with |- get2 ?im _ _ <> _ => set (im0 := im) end. vm_compute in im0.
  destruct (get2_in_or_zero im0 y x) as [E|E]; [rewrite E; discriminate|].
  unfold im0 in *. cbn [concat app In] in E. intros G. rewrite G in E. intuition discriminate.
Qed.
Example comp_reps_empty_example :
  comp_reps adj8 (fg (X_of [[0]] 1)) [] /\ comp_reps adj4 (bg (X_of [[0]] 1)) [(0, 0)].
Proof.
  assert (X0 : forall q, X_of [[0]] 1 q = false).
  { intros [qy qx]. unfold X_of, inS. cbn [fst snd]. apply Z.eqb_neq.
    destruct (get2_in_or_zero [[0]] qy qx) as [E|E]; [rewrite E; discriminate|]. cbn in E. intuition lia. }
  split.
  - split; [constructor|split; [exact I|]]. intros a Ha. unfold fg in Ha. rewrite X0 in Ha. discriminate.
  - apply (comp_reps_ext adj4 (bg (fun _ => false))); [|exact comp_reps_bg_example]. intros q. unfold bg. rewrite X0. tauto.
Qed.
