(* C10 — C10_artificial_cost_wrap_refuted: kernel-evaluated witness of finding F21.  For
   p = [1;0], q = [0;1], c = [[0;5];[2147483647;0]] (max(C) = 2^31-1, in a cell between EMPTY bins) the
   exact model returns the transportation optimum 5 (certified), while on the AS-WRITTEN graph
   (artificial arcs of cost wrap32(maxC+1) = -2^31) the line-level solver, after 2^6 augmentations,
   has not finished, has raised the companion flag (a hop through the artificial node) and has not
   moved any supply — the C++ spins forever.  With 2^31-2 in place of 2^31-1 both agree. *)
From Coq Require Import ZArith List Bool Lia.
From Centro Require Import Base.Sx Base.EmdBase Spec.Emd Model.Emd Model.EmdMcf Model.EmdCert Model.EmdAsIs.
Import ListNotations.
Open Scope Z_scope.

Definition f21_p : list Z := [1; 0].
Definition f21_q : list Z := [0; 1].
Definition f21_c : list (list Z) := [[0; 5]; [2147483647; 0]].
Definition f21_c_ok : list (list Z) := [[0; 5]; [2147483646; 0]].

Theorem artificial_cost_wrap_refuted :
  max_entry f21_c = 2147483647 /\ wrap32 (max_entry f21_c + 1) = -2147483648 /\
  emd_certified f21_p f21_q f21_c None 2 false = Some (5, [[0; 1]; [0; 0]]) /\
  asis_probe f21_p f21_q f21_c None = (false, true, true) /\
  asis_probe f21_p f21_q f21_c_ok None = (true, false, false) /\
  emd_certified f21_p f21_q f21_c_ok None 2 false = Some (5, [[0; 1]; [0; 0]]).
Proof. repeat split; vm_compute; reflexivity. Qed.

(* The open lemma, stated formally (NOT proved): on the inputs of the stated domain with
   max(C) <= 2^31-2 — where the as-written artificial cost equals the exact one — the flagged run of
   the line-level model on the graph of emd_hat_impl.hpp ends with the companion flag clear. *)
Definition artificial_node_unused_statement : Prop :=
  forall Pc Qc Cc emp, length Pc = length Qc ->
    (forall x, In x Pc -> 0 <= x) -> (forall x, In x Qc -> 0 <= x) ->
    (forall r x, In r Cc -> In x r -> 0 <= x) -> max_entry Cc <= 2147483646 ->
    let r := reduce Pc Qc Cc emp in
    exists res, min_cost_flow_ll_f (r_bb r) (r_cc r) = Some (res, false).

(* for max(C) <= 2^31-2 the as-written artificial cost is the exact one *)
Lemma wrap32_small z : 0 <= z <= 2147483646 -> wrap32 (z + 1) = z + 1.
Proof.
  intros H. unfold wrap32. rewrite Z.mod_small by lia. lia.
Qed.
