(* C10 — C10_artificial_cost_wrap_refuted: kernel-evaluated witness of finding F21.  For
   p = [1;0], q = [0;1], c = [[0;5];[2147483647;0]] (max(C) = 2^31-1, in a cell between EMPTY bins) the
   exact model returns the transportation optimum 5 (certified), while on the AS-WRITTEN graph
   (artificial arcs of cost wrap32(maxC+1) = -2^31) the line-level solver, after 2^6 augmentations,
   has not finished, has raised the companion flag (a hop through the artificial node) and has not
   moved any supply — the C++ spins forever.  With 2^31-2 in place of 2^31-1 both agree. *)
From Coq Require Import ZArith List Bool Lia.
From Centro Require Import Base.Sx Base.EmdBase Spec.Emd Model.Emd Model.EmdMcf Model.EmdCert Model.EmdAsIs.
Import ListNotations.
Open Scope Z_scope.

Definition f21_p : list Z := [1; 0].
Definition f21_q : list Z := [0; 1].
Definition f21_c : list (list Z) := [[0; 5]; [2147483647; 0]].
Definition f21_c_ok : list (list Z) := [[0; 5]; [2147483646; 0]].

Theorem artificial_cost_wrap_refuted :
  max_entry f21_c = 2147483647 /\ wrap32 (max_entry f21_c + 1) = -2147483648 /\
  emd_certified f21_p f21_q f21_c None 2 false = Some (5, [[0; 1]; [0; 0]]) /\
  asis_probe f21_p f21_q f21_c None = (false, true, true) /\
  asis_probe f21_p f21_q f21_c_ok None = (true, false, false) /\
  emd_certified f21_p f21_q f21_c_ok None 2 false = Some (5, [[0; 1]; [0; 0]]).
Proof. repeat split; vm_compute; reflexivity. Qed.
