(* C15 — euler_number under deletion of one pixel: the change of 4 W is a function of the 3x3
   neighbourhood (Full, every image); it is 0 for an (8,4)-simple pixel and 4 for an isolated
   pixel (Finite, all 256 neighbourhoods); hence 4 W = 4 k for every image that is reduced to the
   empty set by simple deletions and k deletions of isolated points (euler_reducible, Full). *)
From Coq Require Import ZArith List Bool Lia ZifyBool.
From Centro Require Import Base.GraphC15 Model.LabelGraph Spec.LabelGraph Spec.EulerMovesC15 Proofs.NeighborsC15 Proofs.EulerQuadC15.
Import ListNotations.
Open Scope Z_scope.

(* ---------------------------------------------------------------- writing one pixel *)
Lemma upd_nth_length {A} (f : A -> A) l : forall k, length (upd_nth k f l) = length l.
Proof. induction l as [|a r IH]; intros [|k]; cbn [upd_nth length]; auto. Qed.
Lemma nth_error_upd_same {A} (f : A -> A) l : forall k, nth_error (upd_nth k f l) k = option_map f (nth_error l k).
Proof. induction l as [|a r IH]; intros [|k]; cbn [upd_nth nth_error option_map]; auto. Qed.
Lemma nth_error_upd_other {A} (f : A -> A) l : forall k i, i <> k -> nth_error (upd_nth k f l) i = nth_error l i.
Proof. induction l as [|a r IH]; intros [|k] [|i] H; cbn [upd_nth nth_error]; auto; congruence. Qed.

(* reading the image after a write inside the image *)
Lemma set_px_get_in (img : image) y x v y' x' : get2 img y x <> 0 ->
  get2 (set_px img y x v) y' x' = if (y' =? y) && (x' =? x) then v else get2 img y' x'.
Proof.
  intros IN. unfold set_px, get2, get2d in *.
  destruct (Z.ltb_spec y 0) as [Hy|Hy]; cbn [orb] in *; [congruence|].
  destruct (Z.ltb_spec x 0) as [Hx|Hx]; cbn [orb] in *; [congruence|].
  destruct (nth_error img (Z.to_nat y)) as [row|] eqn:Er; [|congruence].
  destruct (nth_error row (Z.to_nat x)) as [v0|] eqn:Ev; [|congruence].
  destruct (Z.eqb_spec y' y) as [->|Ny]; cbn [andb].
  - destruct (Z.ltb_spec y 0); [lia|]. cbn [orb].
    rewrite nth_error_upd_same, Er. cbn [option_map].
    destruct (Z.eqb_spec x' x) as [->|Nx].
    + destruct (Z.ltb_spec x 0); [lia|]. rewrite nth_error_upd_same, Ev. reflexivity.
    + destruct (Z.ltb_spec x' 0); [reflexivity|]. rewrite nth_error_upd_other by lia. reflexivity.
  - destruct (Z.ltb_spec y' 0); cbn [orb]; [reflexivity|].
    rewrite nth_error_upd_other by lia. reflexivity.
Qed.
Lemma set_px_h img y x v : img_h (set_px img y x v) = img_h img.
Proof. unfold set_px, img_h. destruct ((y <? 0) || (x <? 0)); [reflexivity|apply upd_nth_length]. Qed.
Lemma set_px_w img y x v : img_w (set_px img y x v) = img_w img.
Proof.
  unfold set_px, img_w. destruct ((y <? 0) || (x <? 0)); [reflexivity|].
  destruct img as [|r0 img]; [destruct (Z.to_nat y); reflexivity|]. destruct (Z.to_nat y); cbn [upd_nth hd]; [apply upd_nth_length|reflexivity].
Qed.
Lemma set_px_rect img y x v : rect img -> rect (set_px img y x v).
Proof.
  intros R. unfold rect. rewrite set_px_w. unfold rect in R. unfold set_px.
  destruct ((y <? 0) || (x <? 0)); [exact R|]. generalize (Z.to_nat y) as k. revert R. generalize (img_w img) as w.
  induction img as [|r img IH]; intros w R k; [destruct k; constructor|]. inversion R; subst.
  destruct k; cbn [upd_nth]; constructor; auto. rewrite upd_nth_length. reflexivity.
Qed.

(* ---------------------------------------------------------------- the local change of the quad count *)
Definition qval (a b c d : bool) : Z := isQ1 a b c d - isQ3 a b c d - 2 * isQD a b c d.
(* neighbourhood bits n00 n01 n02 / n10 . n12 / n20 n21 n22 of a pixel that is in the set *)
Definition qdelta (n00 n01 n02 n10 n12 n20 n21 n22 : bool) : Z :=
  (qval n00 n01 n10 true - qval n00 n01 n10 false) + (qval n01 n02 true n12 - qval n01 n02 false n12) +
  (qval n10 true n20 n21 - qval n10 false n20 n21) + (qval true n12 n21 n22 - qval false n12 n21 n22).

Lemma sum1_sub3 n : forall lo f g k,
  sum1 lo n (fun t => f t - g t - 2 * k t) = sum1 lo n f - sum1 lo n g - 2 * sum1 lo n k.
Proof. induction n as [|n IH]; intros lo f g k; cbn [sum1]; [lia|]. rewrite IH. lia. Qed.
Lemma sum2_sub3 h w f g k :
  sum2 h w (fun y x => f y x - g y x - 2 * k y x) = sum2 h w f - sum2 h w g - 2 * sum2 h w k.
Proof.
  unfold sum2. rewrite <- sum1_sub3. apply sum1_ext. intros y _. apply sum1_sub3.
Qed.
Lemma sum1_sub n : forall lo f g, sum1 lo n (fun t => f t - g t) = sum1 lo n f - sum1 lo n g.
Proof. induction n as [|n IH]; intros lo f g; cbn [sum1]; [lia|]. rewrite IH. lia. Qed.

Lemma euler4_qval (img : image) l : rect img -> l <> 0 -> euler4 img l = quad_sum img l qval.
Proof.
  intros R Hl. rewrite (quad_counts_spec img l R Hl). rewrite !quad_sum_sum2. unfold qval.
  symmetry. apply (sum2_sub3 _ _
    (fun y x => isQ1 (inS img l (y - 1) (x - 1)) (inS img l (y - 1) x) (inS img l y (x - 1)) (inS img l y x))
    (fun y x => isQ3 (inS img l (y - 1) (x - 1)) (inS img l (y - 1) x) (inS img l y (x - 1)) (inS img l y x))
    (fun y x => isQD (inS img l (y - 1) (x - 1)) (inS img l (y - 1) x) (inS img l y (x - 1)) (inS img l y x))).
Qed.

(* a function that vanishes outside the 2x2 block at (y, x), summed over a box containing it *)
Lemma sum2_block (h w : nat) (D : Z -> Z -> Z) y x :
  0 <= y -> y + 2 <= Z.of_nat h -> 0 <= x -> x + 2 <= Z.of_nat w ->
  (forall y' x', ~ (y <= y' <= y + 1 /\ x <= x' <= x + 1) -> D y' x' = 0) ->
  sum2 h w D = D y x + D y (x + 1) + D (y + 1) x + D (y + 1) (x + 1).
Proof.
  intros Hy1 Hy2 Hx1 Hx2 Z0. unfold sum2.
  rewrite (sum1_support 0 h y 2); [|lia|lia|].
  2:{ intros y' _ Hn. apply sum1_zero. intros x' _. apply Z0. lia. }
  cbn [sum1].
  rewrite (sum1_support 0 w x 2 (fun x' => D y x')); [|lia|lia|intros x' _ Hn; apply Z0; lia].
  rewrite (sum1_support 0 w x 2 (fun x' => D (y + 1) x')); [|lia|lia|intros x' _ Hn; apply Z0; lia].
  cbn [sum1]. lia.
Qed.

Section Step.
Variable img : image.
Variable l : Z.
Variables y x : Z.
Hypothesis R : rect img.
Hypothesis l_nz : l <> 0.
Hypothesis px_in : get2 img y x = l.

Let img' := remove_px img y x.
Let b (dy dx : Z) : bool := inS img l (y + dy) (x + dx).

Lemma inS_removed y' x' : inS img' l y' x' = if (y' =? y) && (x' =? x) then false else inS img l y' x'.
Proof.
  unfold inS, img', remove_px. rewrite set_px_get_in by (rewrite px_in; exact l_nz).
  destruct ((y' =? y) && (x' =? x)); [|reflexivity]. destruct (Z.eqb_spec 0 l); [congruence|reflexivity].
Qed.

(* deleting a pixel of the set changes 4 W by the local term of its eight neighbours *)
Theorem euler_removal_step :
  euler4 img l = euler4 img' l +
    qdelta (b (-1) (-1)) (b (-1) 0) (b (-1) 1) (b 0 (-1)) (b 0 1) (b 1 (-1)) (b 1 0) (b 1 1).
Proof.
  assert (R' : rect img') by (apply set_px_rect; exact R).
  rewrite (euler4_qval img l R l_nz), (euler4_qval img' l R' l_nz). rewrite !quad_sum_sum2.
  unfold img', remove_px. rewrite set_px_h, set_px_w. fold (remove_px img y x). fold img'.
  set (F := fun y' x' => qval (inS img l (y' - 1) (x' - 1)) (inS img l (y' - 1) x') (inS img l y' (x' - 1)) (inS img l y' x')).
  set (F' := fun y' x' => qval (inS img' l (y' - 1) (x' - 1)) (inS img' l (y' - 1) x') (inS img' l y' (x' - 1)) (inS img' l y' x')).
  destruct (get2_inside img y x R ltac:(rewrite px_in; exact l_nz)) as [Hy Hx].
  assert (E : sum2 (img_h img + 1) (img_w img + 1) F - sum2 (img_h img + 1) (img_w img + 1) F' =
              sum2 (img_h img + 1) (img_w img + 1) (fun y' x' => F y' x' - F' y' x')).
  { unfold sum2. rewrite <- sum1_sub. apply sum1_ext. intros y' _. rewrite <- sum1_sub. reflexivity. }
  rewrite (sum2_block _ _ (fun y' x' => F y' x' - F' y' x') y x) in E; [|lia|lia|lia|lia|].
  2:{ intros y' x' Hn. unfold F, F'. rewrite !inS_removed.
      repeat match goal with |- context [(?u =? ?v) && (?s =? ?t)] =>
        replace ((u =? v) && (s =? t)) with false by (symmetry; apply andb_false_iff; lia) end. lia. }
  assert (P : inS img l y x = true) by (unfold inS; rewrite px_in; apply Z.eqb_refl).
  unfold F, F' in E. rewrite !inS_removed in E.
  repeat match type of E with context [(?u =? ?v) && (?s =? ?t)] =>
    first [ replace ((u =? v) && (s =? t)) with false in E by (symmetry; apply andb_false_iff; lia)
          | replace ((u =? v) && (s =? t)) with true in E by (symmetry; apply andb_true_iff; lia) ] end.
  unfold qdelta, b.
  replace (y + 1 - 1) with y in E by lia. replace (x + 1 - 1) with x in E by lia.
  replace (y + -1) with (y - 1) by lia. replace (x + -1) with (x - 1) by lia.
  rewrite !Z.add_0_r. rewrite P in E. unfold F, F'. lia.
Qed.
End Step.

(* ---------------------------------------------------------------- simple and isolated pixels (3x3) *)
Ltac all8 := intros n00 n01 n02 n10 n12 n20 n21 n22;
  destruct n00, n01, n02, n10, n12, n20, n21, n22; vm_compute; first [reflexivity | discriminate | tauto].

(* Finite (all 256 neighbourhoods): a simple pixel does not change the quad count *)
Lemma simple_delta_zero : forall n00 n01 n02 n10 n12 n20 n21 n22,
  simple8 n00 n01 n02 n10 n12 n20 n21 n22 = true -> qdelta n00 n01 n02 n10 n12 n20 n21 n22 = 0.
Proof. all8. Qed.
Lemma isolated_delta_four : forall n00 n01 n02 n10 n12 n20 n21 n22,
  isolated8 n00 n01 n02 n10 n12 n20 n21 n22 = true -> qdelta n00 n01 n02 n10 n12 n20 n21 n22 = 4.
Proof. all8. Qed.
(* Finite sanity of the notion: on the 3x3 image itself deleting a simple centre changes neither
   the number of 8-components nor the number of holes, an isolated centre is one component *)
Definition img3 (n00 n01 n02 n10 c n12 n20 n21 n22 : bool) : image :=
  [[b2z n00; b2z n01; b2z n02]; [b2z n10; b2z c; b2z n12]; [b2z n20; b2z n21; b2z n22]].
Lemma simple_local_topology : forall n00 n01 n02 n10 n12 n20 n21 n22,
  simple8 n00 n01 n02 n10 n12 n20 n21 n22 = true ->
  n_components adj8 (pixels_of (img3 n00 n01 n02 n10 true n12 n20 n21 n22) 1) =
  n_components adj8 (pixels_of (img3 n00 n01 n02 n10 false n12 n20 n21 n22) 1) /\
  n_components adj4 (complement_of (img3 n00 n01 n02 n10 true n12 n20 n21 n22) 1) =
  n_components adj4 (complement_of (img3 n00 n01 n02 n10 false n12 n20 n21 n22) 1).
Proof. all8. Qed.

Lemma get2_in_or_zero (img : image) y x : get2 img y x = 0 \/ In (get2 img y x) (concat img).
Proof.
  unfold get2, get2d. destruct ((y <? 0) || (x <? 0)); [left; reflexivity|].
  destruct (nth_error img (Z.to_nat y)) as [row|] eqn:Er; [|left; reflexivity].
  destruct (nth_error row (Z.to_nat x)) as [v|] eqn:Ev; [|left; reflexivity].
  right. apply in_concat. exists row. split; eapply nth_error_In; eauto.
Qed.

(* ---------------------------------------------------------------- reduction sequences *)
(* [Reduces l img k]: the pixel set of l is emptied by deleting simple pixels and, k times, an
   isolated point *)
Inductive Reduces (l : Z) : image -> Z -> Prop :=
| red_empty img : (forall y x, get2 img y x <> l) -> Reduces l img 0
| red_simple img y x k : get2 img y x = l -> simple_at img l y x = true ->
    Reduces l (remove_px img y x) k -> Reduces l img k
| red_point img y x k : get2 img y x = l -> isolated_at img l y x = true ->
    Reduces l (remove_px img y x) k -> Reduces l img (k + 1).

Lemma euler4_empty (img : image) l : rect img -> l <> 0 -> (forall y x, get2 img y x <> l) -> euler4 img l = 0.
Proof.
  intros R Hl E. rewrite (euler4_qval img l R Hl), quad_sum_sum2.
  unfold sum2. apply sum1_zero. intros y _. apply sum1_zero. intros x _.
  assert (F : forall y x, inS img l y x = false) by (intros; unfold inS; apply Z.eqb_neq; apply E).
  rewrite !F. reflexivity.
Qed.

(* 4 W = 4 * (number of isolated points deleted) for every image whose label-l set is reducible
   to the empty set by simple deletions and deletions of isolated points; every image, every size *)
Theorem euler_reducible (l : Z) : l <> 0 -> forall img k, Reduces l img k -> rect img -> euler4 img l = 4 * k.
Proof.
  intros Hl img k H. induction H as [img E|img y x k P S _ IH|img y x k P S _ IH]; intros R.
  - rewrite euler4_empty by auto. lia.
  - rewrite (euler_removal_step img l y x R Hl P). unfold simple_at, nb_bit in S.
    rewrite (simple_delta_zero _ _ _ _ _ _ _ _ S). rewrite IH by (apply set_px_rect; exact R). lia.
  - rewrite (euler_removal_step img l y x R Hl P). unfold isolated_at, nb_bit in S.
    rewrite (isolated_delta_four _ _ _ _ _ _ _ _ S). rewrite IH by (apply set_px_rect; exact R). lia.
Qed.

(* a non-trivial reducible image: an L-shaped object and a separate point, label 2 *)
Example reduces_example : Reduces 2 [[2; 0; 0; 2]; [2; 2; 0; 0]] 2 /\ euler4 [[2; 0; 0; 2]; [2; 2; 0; 0]] 2 = 8.
Proof.
  split; [|vm_compute; reflexivity].
  apply (red_point 2 _ 0 3 1); [reflexivity|vm_compute; reflexivity|].
  apply (red_simple 2 _ 0 0 1); [reflexivity|vm_compute; reflexivity|].
  apply (red_simple 2 _ 1 0 1); [reflexivity|vm_compute; reflexivity|].
  apply (red_point 2 _ 1 1 0); [reflexivity|vm_compute; reflexivity|].
  apply red_empty. intros y x.
  match goal with |- get2 ?im _ _ <> _ => set (im0 := im) end. vm_compute in im0.
  destruct (get2_in_or_zero im0 y x) as [E|E]; [rewrite E; discriminate|].
  unfold im0 in *. cbn [concat app In] in E. intros G. rewrite G in E. intuition discriminate.
Qed.

(* Finite-256 lemma lifted to every image: deleting an (8,4)-simple pixel of the label leaves 4 W unchanged *)
Theorem euler_simple_deletion (img : image) (l y x : Z) : rect img -> l <> 0 -> get2 img y x = l ->
  simple_at img l y x = true -> euler4 (remove_px img y x) l = euler4 img l.
Proof.
  intros R Hl P S. rewrite (euler_removal_step img l y x R Hl P). unfold simple_at, nb_bit in S.
  rewrite (simple_delta_zero _ _ _ _ _ _ _ _ S). lia.
Qed.

(* the unrestricted equality, conditional on the three facts about components - holes that are not
   proved here (the first is C05's simple_removal_topo) *)
Theorem euler_is_components_minus_holes_partial (l : Z) : l <> 0 ->
  (forall img y x, rect img -> get2 img y x = l -> simple_at img l y x = true ->
     euler_spec (remove_px img y x) l = euler_spec img l) ->
  (forall img y x, rect img -> get2 img y x = l -> isolated_at img l y x = true ->
     euler_spec (remove_px img y x) l = euler_spec img l - 1) ->
  (forall img, rect img -> (forall y x, get2 img y x <> l) -> euler_spec img l = 0) ->
  forall img k, Reduces l img k -> rect img -> euler4 img l = 4 * euler_spec img l.
Proof.
  intros Hl T1 T2 T3 img k H R. rewrite (euler_reducible l Hl img k H R). f_equal.
  induction H as [img E|img y x k P S _ IH|img y x k P S _ IH].
  - symmetry. apply T3; auto.
  - rewrite <- (T1 img y x R P S). apply IH. apply set_px_rect; exact R.
  - specialize (IH (set_px_rect img y x 0 R)). pose proof (T2 img y x R P S). unfold remove_px in *. lia.
Qed.
