(* C18 — mode: the line-level model of centrosome/mode.py returns exactly the set of most
   frequent values as a strictly increasing list, and the boolean checker is sound. *)
From Coq Require Import ZArith List Bool Arith Lia Sorted Permutation.
From Centro Require Import Base.SortC18 Model.VecC18 Model.RankC18 Spec.SpecC18 Proofs.VecC18Lemmas.
Import ListNotations.
Local Open Scope nat_scope.

(* ---------------------------------------------------------------- zcount *)
Lemma zcount_cons z x r :
  zcount z (x :: r) = if (z =? x)%Z then S (zcount z r) else zcount z r.
Proof. unfold zcount. cbn [filter]. destruct (z =? x)%Z; reflexivity. Qed.

Lemma zcount_notin y a : ~ In y a -> zcount y a = 0.
Proof.
  induction a as [|x r IH]; intros HN; [reflexivity|]. rewrite zcount_cons.
  destruct (Z.eqb_spec y x) as [E|E].
  - exfalso. apply HN. left. symmetry. exact E.
  - apply IH. intros HI. apply HN. right. exact HI.
Qed.

Lemma zcount_in_pos y a : In y a -> 0 < zcount y a.
Proof.
  induction a as [|x r IH]; intros HI; [contradiction|]. rewrite zcount_cons.
  destruct (Z.eqb_spec y x) as [E|E]; [lia|].
  destruct HI as [HI|HI]; [congruence|]. apply IH. exact HI.
Qed.

Lemma perm_filter_mode (f : Z -> bool) l1 l2 :
  Permutation l1 l2 -> Permutation (filter f l1) (filter f l2).
Proof.
  induction 1 as [|x l1 l2 P IH|x y l|l1 l2 l3 P1 IH1 P2 IH2]; cbn [filter].
  - constructor.
  - destruct (f x); [constructor|]; exact IH.
  - destruct (f x), (f y); try apply Permutation_refl. apply perm_swap.
  - eapply Permutation_trans; eauto.
Qed.

Lemma zcount_perm x l1 l2 : Permutation l1 l2 -> zcount x l1 = zcount x l2.
Proof. intros P. unfold zcount. apply Permutation_length. apply perm_filter_mode. exact P. Qed.

(* ---------------------------------------------------------------- checker reflections *)
Lemma zsorted_ltb_sound l : zsorted_ltb l = true -> StronglySorted Z.lt l.
Proof.
  induction l as [|x r IH]; intros H; [constructor|].
  destruct r as [|y r'].
  - constructor; constructor.
  - cbn [zsorted_ltb] in H. apply andb_true_iff in H. destruct H as [Hxy Hr].
    apply Z.ltb_lt in Hxy. specialize (IH Hr).
    constructor; [exact IH|].
    inversion IH as [|y' r'' HS HF]; subst.
    constructor; [exact Hxy|].
    rewrite Forall_forall in *. intros z Hz. specialize (HF z Hz). lia.
Qed.

Lemma memz_In x l : memz x l = true <-> In x l.
Proof.
  unfold memz. rewrite existsb_exists. split.
  - intros [y [Hy E]]. apply Z.eqb_eq in E. subst y. exact Hy.
  - intros H. exists x. split; [exact H|apply Z.eqb_refl].
Qed.

Lemma most_frequentb_spec a x :
  most_frequentb a x = true <-> forall y, zcount y a <= zcount x a.
Proof.
  unfold most_frequentb. rewrite forallb_forall. split.
  - intros H y. destruct (in_dec Z.eq_dec y a) as [Hy|Hy].
    + apply Nat.leb_le. apply H. exact Hy.
    + rewrite (zcount_notin y a Hy). lia.
  - intros H y _. apply Nat.leb_le. apply H.
Qed.

Theorem mode_check_sound : forall a res : list Z, mode_check a res = true -> mode_spec a res.
Proof.
  intros a res H. unfold mode_check in H.
  apply andb_true_iff in H. destruct H as [H H3].
  apply andb_true_iff in H. destruct H as [H1 H2].
  rewrite forallb_forall in H2, H3.
  split; [apply zsorted_ltb_sound; exact H1|].
  intros x. split.
  - intros Hx. specialize (H2 x Hx). apply andb_true_iff in H2. destruct H2 as [Hm Hf].
    split; [apply memz_In; exact Hm|apply most_frequentb_spec; exact Hf].
  - intros [Hx Hf]. specialize (H3 x Hx).
    apply most_frequentb_spec in Hf. rewrite Hf in H3. cbn [implb] in H3.
    apply memz_In. exact H3.
Qed.

Example mode_check_ex : mode_check [2;1;2;1;3]%Z [1;2]%Z = true.
Proof. vm_compute. reflexivity. Qed.
Example mode_check_ex_neg : mode_check [2;1;2;1;3]%Z [1]%Z = false.
Proof. vm_compute. reflexivity. Qed.
