(* C18 — mode: the line-level model of centrosome/mode.py returns exactly the set of most
   frequent values as a strictly increasing list, and the boolean checker is sound. *)
From Coq Require Import ZArith List Bool Arith Lia Sorted Permutation.
From Centro Require Import Base.SortC18 Model.VecC18 Model.RankC18 Spec.SpecC18 Proofs.VecC18Lemmas.
Import ListNotations.
Local Open Scope nat_scope.

(* ---------------------------------------------------------------- zcount *)
Lemma zcount_cons z x r :
  zcount z (x :: r) = if (z =? x)%Z then S (zcount z r) else zcount z r.
Proof. unfold zcount. cbn [filter]. destruct (z =? x)%Z; reflexivity. Qed.

Lemma zcount_notin y a : ~ In y a -> zcount y a = 0.
Proof.
  induction a as [|x r IH]; intros HN; [reflexivity|]. rewrite zcount_cons.
  destruct (Z.eqb_spec y x) as [E|E].
  - exfalso. apply HN. left. symmetry. exact E.
  - apply IH. intros HI. apply HN. right. exact HI.
Qed.

Lemma zcount_in_pos y a : In y a -> 0 < zcount y a.
Proof.
  induction a as [|x r IH]; intros HI; [contradiction|]. rewrite zcount_cons.
  destruct (Z.eqb_spec y x) as [E|E]; [lia|].
  destruct HI as [HI|HI]; [congruence|]. apply IH. exact HI.
Qed.

Lemma perm_filter_mode (f : Z -> bool) l1 l2 :
  Permutation l1 l2 -> Permutation (filter f l1) (filter f l2).
Proof.
  induction 1 as [|x l1 l2 P IH|x y l|l1 l2 l3 P1 IH1 P2 IH2]; cbn [filter].
  - constructor.
  - destruct (f x); [constructor|]; exact IH.
  - destruct (f x), (f y); try apply Permutation_refl. apply perm_swap.
  - eapply Permutation_trans; eauto.
Qed.

Lemma zcount_perm x l1 l2 : Permutation l1 l2 -> zcount x l1 = zcount x l2.
Proof. intros P. unfold zcount. apply Permutation_length. apply perm_filter_mode. exact P. Qed.

(* ---------------------------------------------------------------- checker reflections *)
Lemma zsorted_ltb_sound l : zsorted_ltb l = true -> StronglySorted Z.lt l.
Proof.
  induction l as [|x r IH]; intros H; [constructor|].
  destruct r as [|y r'].
  - constructor; constructor.
  - cbn [zsorted_ltb] in H. apply andb_true_iff in H. destruct H as [Hxy Hr].
    apply Z.ltb_lt in Hxy. specialize (IH Hr).
    constructor; [exact IH|].
    inversion IH as [|y' r'' HS HF]; subst.
    constructor; [exact Hxy|].
    rewrite Forall_forall in *. intros z Hz. specialize (HF z Hz). lia.
Qed.

Lemma memz_In x l : memz x l = true <-> In x l.
Proof.
  unfold memz. rewrite existsb_exists. split.
  - intros [y [Hy E]]. apply Z.eqb_eq in E. subst y. exact Hy.
  - intros H. exists x. split; [exact H|apply Z.eqb_refl].
Qed.

Lemma most_frequentb_spec a x :
  most_frequentb a x = true <-> forall y, zcount y a <= zcount x a.
Proof.
  unfold most_frequentb. rewrite forallb_forall. split.
  - intros H y. destruct (in_dec Z.eq_dec y a) as [Hy|Hy].
    + apply Nat.leb_le. apply H. exact Hy.
    + rewrite (zcount_notin y a Hy). lia.
  - intros H y _. apply Nat.leb_le. apply H.
Qed.

Theorem mode_check_sound : forall a res : list Z, mode_check a res = true -> mode_spec a res.
Proof.
  intros a res H. unfold mode_check in H.
  apply andb_true_iff in H. destruct H as [H H3].
  apply andb_true_iff in H. destruct H as [H1 H2].
  rewrite forallb_forall in H2, H3.
  split; [apply zsorted_ltb_sound; exact H1|].
  intros x. split.
  - intros Hx. specialize (H2 x Hx). apply andb_true_iff in H2. destruct H2 as [Hm Hf].
    split; [apply memz_In; exact Hm|apply most_frequentb_spec; exact Hf].
  - intros [Hx Hf]. specialize (H3 x Hx).
    apply most_frequentb_spec in Hf. rewrite Hf in H3. cbn [implb] in H3.
    apply memz_In. exact H3.
Qed.

Example mode_check_ex : mode_check [2;1;2;1;3]%Z [1;2]%Z = true.
Proof. vm_compute. reflexivity. Qed.
Example mode_check_ex_neg : mode_check [2;1;2;1;3]%Z [1]%Z = false.
Proof. vm_compute. reflexivity. Qed.

(* ---------------------------------------------------------------- run-length encoding *)
Fixpoint rle (l : list Z) : list (Z * nat) :=
  match l with
  | [] => []
  | x :: r =>
      match rle r with
      | [] => [(x, 1)]
      | p :: t => if (x =? fst p)%Z then (x, S (snd p)) :: t else (x, 1) :: p :: t
      end
  end.

(* start offsets of the runs, the first run starting at k *)
Fixpoint starts (k : nat) (rl : list (Z * nat)) : list nat :=
  match rl with
  | [] => []
  | p :: t => k :: starts (k + snd p) t
  end.

(* np.where(m)[0] with the positions counted from s *)
Definition wt (s : nat) (m : list bool) : list nat := compress m (seq s (length m)).

Lemma rle_cons x r :
  rle (x :: r) = match rle r with
                 | [] => [(x, 1)]
                 | p :: t => if (x =? fst p)%Z then (x, S (snd p)) :: t else (x, 1) :: p :: t
                 end.
Proof. reflexivity. Qed.

Lemma rle_shape x r : exists n t, rle (x :: r) = (x, n) :: t.
Proof.
  rewrite rle_cons. destruct (rle r) as [|p t].
  - exists 1, []. reflexivity.
  - destruct (x =? fst p)%Z; eauto.
Qed.

Lemma wt_cons s b m : wt s (b :: m) = if b then s :: wt (S s) m else wt (S s) m.
Proof. unfold wt. cbn [length seq compress]. reflexivity. Qed.

Lemma adj_diff_cons2 x y r : adj_diff (x :: y :: r) = negb (x =? y)%Z :: adj_diff (y :: r).
Proof. reflexivity. Qed.

Lemma starts_rle l : forall k, l <> [] -> k :: map S (wt k (adj_diff l)) = starts k (rle l).
Proof.
  induction l as [|x r IH]; intros k HN; [congruence|].
  destruct r as [|y r'].
  - reflexivity.
  - destruct (rle_shape y r') as (n & t & E).
    assert (map S (wt (S k) (adj_diff (y :: r'))) = starts (S k + n) t) as IH'.
    { specialize (IH (S k) ltac:(discriminate)). rewrite E in IH. cbn [starts snd] in IH.
      injection IH as IH. exact IH. }
    rewrite rle_cons, E, adj_diff_cons2, wt_cons. cbn [fst snd].
    destruct (x =? y)%Z; cbn [negb starts map snd].
    + f_equal. rewrite IH'. f_equal. lia.
    + f_equal. replace (k + 1) with (S k) by lia. f_equal. exact IH'.
Qed.

Lemma rle_len l : nsum (map snd (rle l)) = length l.
Proof.
  induction l as [|x r IH]; [reflexivity|]. rewrite rle_cons. cbn [length]. rewrite <- IH.
  destruct (rle r) as [|p t]; [reflexivity|].
  destruct (x =? fst p)%Z; unfold nsum; cbn [map snd fold_right]; lia.
Qed.

Lemma counts_rle rl : forall k,
  map2 Nat.sub (tl (starts k rl ++ [k + nsum (map snd rl)])) (starts k rl) = map snd rl.
Proof.
  induction rl as [|p t IH]; intros k; [reflexivity|].
  cbn [starts app tl map]. specialize (IH (k + snd p)).
  replace (k + nsum (snd p :: map snd t)) with (k + snd p + nsum (map snd t))
    by (unfold nsum; cbn [fold_right]; lia).
  destruct t as [|q t'].
  - cbn [starts app map2 map nsum fold_right]. f_equal. lia.
  - cbn [starts app map2] in *. f_equal; [lia|]. exact IH.
Qed.

Lemma starts_ge rl : forall k, Forall (fun i => k <= i) (starts k rl).
Proof.
  induction rl as [|p t IH]; intros k; cbn [starts]; constructor; [lia|].
  eapply Forall_impl; [|apply (IH (k + snd p))]. cbn beta. intros i Hi. lia.
Qed.

Lemma getz_shift x r k k' rl : S k <= k' ->
  map (fun i => getz (x :: r) (i - k)) (starts k' rl) = map (fun i => getz r (i - S k)) (starts k' rl).
Proof.
  intros Hk. apply map_ext_in. intros i Hi.
  pose proof (starts_ge rl k') as F. rewrite Forall_forall in F. specialize (F i Hi).
  replace (i - k) with (S (i - S k)) by lia. reflexivity.
Qed.

Lemma values_rle l : forall k,
  map (fun i => getz l (i - k)) (starts k (rle l)) = map fst (rle l).
Proof.
  induction l as [|x r IH]; intros k; [reflexivity|].
  rewrite rle_cons. specialize (IH (S k)).
  destruct (rle r) as [|p t].
  - cbn [starts map fst]. rewrite Nat.sub_diag. reflexivity.
  - destruct (x =? fst p)%Z.
    + cbn [starts map fst snd] in *. rewrite Nat.sub_diag.
      f_equal. injection IH as _ IH. rewrite <- IH.
      replace (k + S (snd p)) with (S k + snd p) by lia. apply getz_shift. lia.
    + cbn [starts map fst snd]. rewrite Nat.sub_diag.
      f_equal. replace (k + 1) with (S k) by lia.
      change (fst p :: map fst t) with (map fst (p :: t)). rewrite <- IH.
      apply (getz_shift x r k (S k) (p :: t)). lia.
Qed.

Lemma map_compress {A B} (g : A -> B) m l : map g (compress m l) = compress m (map g l).
Proof.
  revert l; induction m as [|b m IH]; intros [|y l]; cbn [compress map]; try reflexivity.
  destruct b; cbn [map]; rewrite IH; reflexivity.
Qed.

(* the body of [mode] after the sort *)
Definition mode_of_sorted (aa : list Z) : list Z :=
  let indices := 0 :: map S (where_true (adj_diff aa)) ++ [length aa] in
  let counts := map2 Nat.sub (tl indices) (removelast indices) in
  let best_indices := compress (map (Nat.eqb (list_max counts)) counts) (removelast indices) in
  map (getz aa) best_indices.

(* model = functional version *)
Lemma mode_of_sorted_eq l : l <> [] ->
  mode_of_sorted l =
  compress (map (Nat.eqb (list_max (map snd (rle l)))) (map snd (rle l))) (map fst (rle l)).
Proof.
  intros HN. unfold mode_of_sorted.
  change (0 :: map S (where_true (adj_diff l)) ++ [length l])
    with ((0 :: map S (wt 0 (adj_diff l))) ++ [length l]).
  rewrite (starts_rle l 0 HN). rewrite removelast_last.
  rewrite <- (rle_len l) at 1 2.
  change (nsum (map snd (rle l))) with (0 + nsum (map snd (rle l))).
  rewrite counts_rle. rewrite map_compress. f_equal.
  rewrite <- (values_rle l 0). apply map_ext. intros i. rewrite Nat.sub_0_r. reflexivity.
Qed.

(* ---------------------------------------------------------------- runs of a sorted list *)
Lemma rle_fst_In l x : In x (map fst (rle l)) <-> In x l.
Proof.
  induction l as [|x0 r IH]; [reflexivity|]. rewrite rle_cons.
  destruct (rle r) as [|p t].
  - cbn [map fst In] in *. tauto.
  - destruct (Z.eqb_spec x0 (fst p)) as [E|E]; cbn [map fst In] in *.
    + rewrite <- IH. rewrite <- E. tauto.
    + rewrite <- IH. tauto.
Qed.

Lemma rle_sorted l : StronglySorted Z.le l -> StronglySorted Z.lt (map fst (rle l)).
Proof.
  intros HS. induction HS as [|x r HS IH F]; [constructor|].
  rewrite rle_cons. pose proof (rle_fst_In r) as HI.
  destruct (rle r) as [|p t].
  - cbn [map fst]. constructor; constructor.
  - cbn [map fst] in IH, HI.
    destruct (Z.eqb_spec x (fst p)) as [E|E]; cbn [map fst].
    + rewrite E. exact IH.
    + constructor; [exact IH|].
      rewrite Forall_forall in F.
      assert (x < fst p)%Z as Hlt.
      { assert (x <= fst p)%Z by (apply F; apply HI; left; reflexivity). lia. }
      constructor; [exact Hlt|].
      inversion IH as [|p' t' HS' HF]; subst. rewrite Forall_forall in *.
      intros z Hz. specialize (HF z Hz). lia.
Qed.

Lemma rle_count l : StronglySorted Z.le l ->
  forall z m, In (z, m) (rle l) -> m = zcount z l.
Proof.
  intros HS. induction HS as [|x r HS IH F]; intros z m Hin; [contradiction|].
  pose proof (rle_sorted (x :: r) (SSorted_cons x HS F)) as SL.
  pose proof (rle_fst_In r) as HI.
  rewrite rle_cons in SL, Hin. rewrite zcount_cons.
  destruct (rle r) as [|[y n] t].
  - destruct Hin as [Hin|[]]. injection Hin as <- <-. rewrite Z.eqb_refl.
    rewrite zcount_notin; [reflexivity|]. intros Hx. apply HI in Hx. exact Hx.
  - cbn [fst snd] in *.
    assert (forall z' m', In (z', m') t -> (x < z')%Z) as Htail.
    { intros z' m' Hz'. destruct (x =? y)%Z; cbn [map fst] in SL;
        inversion SL as [|x' t' HS' HF]; subst; rewrite Forall_forall in HF; apply HF.
      - apply in_map_iff. exists (z', m'). split; [reflexivity|exact Hz'].
      - right. apply in_map_iff. exists (z', m'). split; [reflexivity|exact Hz']. }
    destruct (Z.eqb_spec x y) as [E|E].
    + destruct Hin as [Hin|Hin].
      * injection Hin as <- <-. rewrite Z.eqb_refl. f_equal. apply IH. left. rewrite E. reflexivity.
      * pose proof (Htail z m Hin) as Hlt.
        destruct (Z.eqb_spec z x) as [E'|E']; [lia|]. apply IH. right. exact Hin.
    + cbn [map fst] in SL. inversion SL as [|x' t' HS' HF]; subst.
      inversion HF as [|y' t'' Hxy HF']; subst.
      destruct Hin as [Hin|Hin].
      * injection Hin as <- <-. rewrite Z.eqb_refl.
        rewrite zcount_notin; [reflexivity|]. intros Hx. apply HI in Hx.
        rewrite Forall_forall in HF. specialize (HF x Hx). lia.
      * assert (x < z)%Z as Hlt.
        { destruct Hin as [Hin|Hin]; [injection Hin as <- <-; exact Hxy|exact (Htail z m Hin)]. }
        destruct (Z.eqb_spec z x) as [E'|E']; [lia|]. apply IH. exact Hin.
Qed.

(* ---------------------------------------------------------------- selection of the best runs *)
Lemma compress_fs_in (f : nat -> bool) (rl : list (Z * nat)) (x : Z) :
  In x (compress (map f (map snd rl)) (map fst rl)) <-> exists n, In (x, n) rl /\ f n = true.
Proof.
  induction rl as [|[v c] t IH]; cbn [map fst snd compress].
  - split; [intros []|intros [n [[] _]]].
  - destruct (f c) eqn:Ef; cbn [In]; rewrite IH; split.
    + intros [E|[n [Hn Hf]]]; [exists c; split; [left; congruence|exact Ef]|exists n; split; [right; exact Hn|exact Hf]].
    + intros [n [[E|Hn] Hf]]; [left; congruence|right; exists n; split; assumption].
    + intros [n [Hn Hf]]. exists n; split; [right; exact Hn|exact Hf].
    + intros [n [[E|Hn] Hf]]; [congruence|exists n; split; assumption].
Qed.

Lemma list_max_In l : l <> [] -> In (list_max l) l.
Proof.
  induction l as [|a r IH]; intros HN; [congruence|].
  change (list_max (a :: r)) with (Nat.max a (list_max r)).
  destruct r as [|b r'].
  - left. cbn. lia.
  - specialize (IH ltac:(discriminate)).
    destruct (Nat.max_spec a (list_max (b :: r'))) as [[_ E]|[_ E]]; rewrite E.
    + right. exact IH.
    + left. reflexivity.
Qed.

Lemma list_max_ge l k : In k l -> k <= list_max l.
Proof.
  intros Hk. pose proof (proj1 (list_max_le l (list_max l)) (le_n _)) as F.
  rewrite Forall_forall in F. apply F. exact Hk.
Qed.

Lemma mode_fun_spec l : StronglySorted Z.le l -> l <> [] ->
  mode_spec l (compress (map (Nat.eqb (list_max (map snd (rle l)))) (map snd (rle l)))
                        (map fst (rle l))).
Proof.
  intros HS HN. split.
  - apply compress_sorted. apply rle_sorted. exact HS.
  - intros x. rewrite compress_fs_in. split.
    + intros [n [Hin Hf]]. apply Nat.eqb_eq in Hf.
      pose proof (rle_count l HS x n Hin) as En.
      split.
      * apply rle_fst_In. apply in_map_iff. exists (x, n). split; [reflexivity|exact Hin].
      * intros y. destruct (in_dec Z.eq_dec y l) as [Hy|Hy].
        -- apply rle_fst_In in Hy. apply in_map_iff in Hy. destruct Hy as [[y' c] [Ey Hyc]].
           cbn [fst] in Ey. subst y'.
           rewrite <- (rle_count l HS y c Hyc). rewrite <- En, <- Hf.
           apply list_max_ge. apply in_map_iff. exists (y, c). split; [reflexivity|exact Hyc].
        -- rewrite (zcount_notin y l Hy). lia.
    + intros [Hx Hmax].
      apply rle_fst_In in Hx. apply in_map_iff in Hx. destruct Hx as [[x' c] [Ex Hxc]].
      cbn [fst] in Ex. subst x'. exists c. split; [exact Hxc|]. apply Nat.eqb_eq.
      pose proof (rle_count l HS x c Hxc) as Ec.
      assert (map snd (rle l) <> []) as HN'.
      { destruct l as [|x0 r]; [congruence|]. destruct (rle_shape x0 r) as (n & t & E).
        rewrite E. discriminate. }
      pose proof (list_max_In _ HN') as HM. apply in_map_iff in HM.
      destruct HM as [[y m] [Em Hym]]. cbn [snd] in Em.
      pose proof (rle_count l HS y m Hym) as Ey.
      assert (c <= list_max (map snd (rle l))) as Hle.
      { apply list_max_ge. apply in_map_iff. exists (x, c). split; [reflexivity|exact Hxc]. }
      specialize (Hmax y). lia.
Qed.

Lemma mode_spec_perm a aa res : Permutation a aa -> mode_spec aa res -> mode_spec a res.
Proof.
  intros P [HS HI]. split; [exact HS|]. intros x. rewrite HI. split.
  - intros [Hx Hm]. split.
    + eapply Permutation_in; [symmetry; exact P|exact Hx].
    + intros y. rewrite (zcount_perm y a aa P), (zcount_perm x a aa P). apply Hm.
  - intros [Hx Hm]. split.
    + eapply Permutation_in; [exact P|exact Hx].
    + intros y. rewrite <- (zcount_perm y a aa P), <- (zcount_perm x a aa P). apply Hm.
Qed.

Theorem mode_correct : forall a : list Z, mode_spec a (mode a).
Proof.
  intros [|x a'].
  - split; [constructor|]. intros y. cbn [mode In]. tauto.
  - change (mode (x :: a')) with (mode_of_sorted (zsort (x :: a'))).
    pose proof (zsort_perm (x :: a')) as P.
    assert (zsort (x :: a') <> []) as HN.
    { intros E. rewrite E in P. apply Permutation_sym, Permutation_nil in P. discriminate. }
    rewrite (mode_of_sorted_eq _ HN).
    apply (mode_spec_perm _ _ _ P). apply mode_fun_spec; [apply zsort_sorted|exact HN].
Qed.

Example mode_ex : mode [2;1;2;1;3]%Z = [1;2]%Z.
Proof. vm_compute. reflexivity. Qed.
Example mode_ex2 : mode [5;-3;5;7;-3;5;7;7;0]%Z = [5;7]%Z.
Proof. vm_compute. reflexivity. Qed.

Print Assumptions mode_correct.
Print Assumptions mode_check_sound.
