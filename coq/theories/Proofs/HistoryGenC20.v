(* C20 - the premises of the general theorems, discharged by the kernel on the GENERATED table of
   effect signatures (Gen/EffectsC20.v).  A source edit that caches an argument-dependent table,
   accumulates state in a module global or a mutable default, drops a seed, draws from the global
   generator unseeded, reads a lazily filled table before filling it, or writes into a parameter
   changes the generated list and breaks [gen_sigs_okb] / [gen_inplace_okb]. *)
From Coq Require Import ZArith List Bool.
From Centro Require Import Model.HistoryC20 Spec.HistoryC20 Proofs.HistoryC20 Gen.EffectsC20.
Import ListNotations.
Open Scope Z_scope.

Lemma gen_sigs_okb : sigs_okb sigs = true.
Proof. vm_compute. reflexivity. Qed.

Lemma gen_inplace_okb : inplace_okb sigs = true.
Proof. vm_compute. reflexivity. Qed.

Lemma gen_ids_okb : ids_okb sigs = true.
Proof. vm_compute. reflexivity. Qed.

Lemma gen_sigs_ok : sigs_ok sigs.
Proof. exact (sigs_okb_sound sigs gen_sigs_okb). Qed.

Lemma gen_inplace_ok : inplace_ok sigs.
Proof. exact (inplace_okb_sound sigs gen_inplace_okb). Qed.

Section Inst.
Variables (args val res rstate : Type).
Variable const : Z -> val.
Variable argval : Z -> args -> Z -> val.
Variable accval : Z -> args -> Z -> option val -> val.
Variable mval : Z -> args -> val.
Variable key_eqb : args -> args -> bool.
Variable body : Z -> args -> list (option val) -> @rsrc rstate -> res.
Variable rng_next : Z -> args -> @rsrc rstate -> rstate -> rstate.
Hypothesis key_sound : forall a b, key_eqb a b = true -> a = b.
Hypothesis key_refl : forall a, key_eqb a a = true.

Lemma gen_cache_inv : forall r0 h,
  (forall g v, cache (run args val res rstate sigs const argval accval mval key_eqb body rng_next r0 h) g = Some v ->
               v = const g) /\
  (forall g k v, memo (run args val res rstate sigs const argval accval mval key_eqb body rng_next r0 h) g k = Some v ->
                 v = mval g k).
Proof. exact (cache_inv args val res rstate sigs const argval accval mval key_eqb body rng_next key_sound gen_sigs_ok). Qed.

Lemma gen_history_independent : forall r0 r0' h c,
  result_after args val res rstate sigs const argval accval mval key_eqb body rng_next r0 h c =
  result_after args val res rstate sigs const argval accval mval key_eqb body rng_next r0' [] c.
Proof.
  exact (history_independent args val res rstate sigs const argval accval mval key_eqb body rng_next key_sound key_refl
                             gen_sigs_ok).
Qed.

Lemma gen_rng_leak_free : forall (w : world args val rstate) r t c,
  fst (step args val res rstate sigs const argval accval mval key_eqb body rng_next w c) =
  fst (step args val res rstate sigs const argval accval mval key_eqb body rng_next (mk_world (cache w) (memo w) r t) c).
Proof. exact (rng_leak_free args val res rstate sigs const argval accval mval key_eqb body rng_next gen_sigs_ok). Qed.
End Inst.
