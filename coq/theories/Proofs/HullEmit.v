(* C02 — invariants of the EMIT macro and of the three emission passes of hull_label. *)
From Coq Require Import ZArith List Bool Lia ZifyBool.
From Centro Require Import Base.Sx Model.Hull.
Import ListNotations.
Open Scope Z_scope.

(* loop invariant of EMIT: every consecutive triple on the stack (top first) is CONVEX *)
Fixpoint chain_ok (st : list pt) : Prop :=
  match st with
  | c :: ((b :: a :: _) as rest) => CONVEX a b c = true /\ chain_ok rest
  | _ => True
  end.

Lemma chain_ok_tail x st : chain_ok (x :: st) -> chain_ok st.
Proof. destruct st as [|b [|a r]]; cbn; tauto. Qed.

Lemma prune_ok st p : chain_ok st -> chain_ok (prune st p) /\ chain_ok (p :: prune st p).
Proof.
  induction st as [|b rest IH]; intros H; [cbn; auto|].
  destruct rest as [|a r]; [cbn; auto|].
  cbn [prune]. destruct (CONVEX a b p) eqn:E.
  - split; auto. cbn [chain_ok]. split; auto.
  - apply IH. eapply chain_ok_tail; eauto.
Qed.

Lemma prune_subset st p x : In x (prune st p) -> In x st.
Proof.
  induction st as [|b rest IH]; cbn [prune]; auto. destruct rest as [|a r]; auto.
  destruct (CONVEX a b p); auto. intros H. right. apply IH; auto.
Qed.

(* chain_ok in decomposition form (stack order: top first, so the triple reads c, b, a) *)
Lemma chain_ok_decomp st : chain_ok st ->
  forall l1 l2 a b c, st = l1 ++ c :: b :: a :: l2 -> CONVEX a b c = true.
Proof.
  intros H l1. revert st H. induction l1 as [|x l1 IH]; intros st H l2 a b c E; subst st.
  - cbn in H. tauto.
  - apply (IH (l1 ++ c :: b :: a :: l2)) with (l2 := l2); auto. eapply chain_ok_tail. exact H.
Qed.

(* ---------------------------------------------------------------- envelopes *)

Lemma upper_inv all pts : incl pts all -> forall e,
  (forall j, e j = -1 \/ In (e j, j) all) ->
  forall j, fold_left upper_step pts e j = -1 \/ In (fold_left upper_step pts e j, j) all.
Proof.
  induction pts as [|p pts IH]; intros Hincl e He j; cbn [fold_left]; auto.
  apply IH. { intros x Hx. apply Hincl. right. exact Hx. }
  intros k. unfold upper_step. destruct (e (snd p) <? fst p) eqn:E; auto.
  unfold upd. destruct (k =? snd p) eqn:K; auto.
  right. assert (k = snd p) by lia. subst k. rewrite <- surjective_pairing. apply Hincl. left. reflexivity.
Qed.

Lemma lower_inv s all pts : incl pts all -> forall e,
  (forall j, e j = s \/ In (e j, j) all) ->
  forall j, fold_left lower_step pts e j = s \/ In (fold_left lower_step pts e j, j) all.
Proof.
  induction pts as [|p pts IH]; intros Hincl e He j; cbn [fold_left]; auto.
  apply IH. { intros x Hx. apply Hincl. right. exact Hx. }
  intros k. unfold lower_step. destruct (fst p <? e (snd p)) eqn:E; auto.
  unfold upd. destruct (k =? snd p) eqn:K; auto.
  right. assert (k = snd p) by lia. subst k. rewrite <- surjective_pairing. apply Hincl. left. reflexivity.
Qed.

Lemma build_upper_in pts j : build_upper pts j = -1 \/ In (build_upper pts j, j) pts.
Proof. apply upper_inv; [apply incl_refl | auto]. Qed.
Lemma build_lower_in m pts j : build_lower m pts j = m + 1 \/ In (build_lower m pts j, j) pts.
Proof. apply lower_inv; [apply incl_refl | auto]. Qed.

Lemma upper_mono pts : forall e,
  (forall k, e k <= fold_left upper_step pts e k) /\
  (forall q, In q pts -> fst q <= fold_left upper_step pts e (snd q)).
Proof.
  induction pts as [|p pts IH]; intros e; cbn [fold_left].
  - split; [intros; lia | intros q []].
  - destruct (IH (upper_step e p)) as [M1 M2].
    assert (S1 : forall k, e k <= upper_step e p k).
    { intros k. unfold upper_step. destruct (e (snd p) <? fst p) eqn:E; [|lia].
      unfold upd. destruct (k =? snd p) eqn:K; [|lia]. assert (k = snd p) by lia. subst. lia. }
    assert (S2 : fst p <= upper_step e p (snd p)).
    { unfold upper_step. destruct (e (snd p) <? fst p) eqn:E; [|lia].
      unfold upd. rewrite Z.eqb_refl. lia. }
    split.
    + intros k. specialize (M1 k). specialize (S1 k). lia.
    + intros q [Hq|Hq]; [subst q; specialize (M1 (snd p)); lia | auto].
Qed.

Lemma build_upper_ge pts q : In q pts -> fst q <= build_upper pts (snd q).
Proof. intros H. apply (proj2 (upper_mono pts (fun _ => -1))). exact H. Qed.

(* ---------------------------------------------------------------- the three passes *)

Lemma prune_incl st p all : incl st all -> incl (prune st p) all.
Proof. intros H x Hx. apply H. eapply prune_subset; eauto. Qed.

Lemma lower_pass_inv m pts cols : forall st,
  incl st pts -> chain_ok st ->
  incl (fold_left (lower_emit m (build_lower m pts)) cols st) pts /\
  chain_ok (fold_left (lower_emit m (build_lower m pts)) cols st).
Proof.
  induction cols as [|j cols IH]; intros st Hi Hc; cbn [fold_left]; auto.
  apply IH.
  - unfold lower_emit. destruct (build_lower m pts j <? m + 1) eqn:E; auto.
    intros x [Hx|Hx]; [|eapply prune_incl; eauto].
    subst x. destruct (build_lower_in m pts j) as [B|B]; [lia|exact B].
  - unfold lower_emit. destruct (build_lower m pts j <? m + 1) eqn:E; auto.
    apply prune_ok; auto.
Qed.

Lemma upper_pass_inv pts cap cols : forall st,
  incl st pts -> chain_ok st ->
  incl (fold_left (upper_emit (build_upper pts) cap) cols st) pts /\
  chain_ok (fold_left (upper_emit (build_upper pts) cap) cols st).
Proof.
  induction cols as [|j cols IH]; intros st Hi Hc; cbn [fold_left]; auto.
  apply IH.
  - unfold upper_emit. destruct (-1 <? build_upper pts j) eqn:E; auto.
    destruct (zlen (prune st (build_upper pts j, j)) <? cap); [|eapply prune_incl; eauto].
    intros x [Hx|Hx]; [|eapply prune_incl; eauto].
    subst x. destruct (build_upper_in pts j) as [B|B]; [lia|exact B].
  - unfold upper_emit. destruct (-1 <? build_upper pts j) eqn:E; auto.
    destruct (zlen (prune st (build_upper pts j, j)) <? cap); apply prune_ok; auto.
Qed.

(* the body of hull_label with the pixel list kept abstract *)
Definition hull_body (m : Z) (pts : list pt) (p0 : pt) (slack : Z) : list pt :=
  let start_j := snd p0 in
  let end_j := snd (last pts p0) in
  let lower := build_lower m pts in
  let upper := build_upper pts in
  let cap := slack + zlen pts in
  let need_last := negb (lower start_j =? upper start_j) in
  let st1 := fold_left (lower_emit m lower) (cols_up start_j end_j) [] in
  let st2 := fold_left (upper_emit upper cap) (rev (cols_up (start_j + 1) end_j)) st1 in
  let st3 := prune st2 (upper start_j, start_j) in
  rev (if need_last then (upper start_j, start_j) :: st3 else st3).
Lemma hull_label_cons m p0 rest slack :
  hull_label m (p0 :: rest) slack = hull_body m (p0 :: rest) p0 slack.
Proof. reflexivity. Qed.

Lemma hull_body_stack m pts p0 slack :
  In p0 pts -> (forall q, In q pts -> 0 <= fst q) ->
  exists st, hull_body m pts p0 slack = rev st /\ incl st pts /\ chain_ok st.
Proof.
  intros Hp0 Hnn. unfold hull_body. cbv zeta.
    set (lower := build_lower m pts). set (upper := build_upper pts).
    set (sj := snd p0).
    set (st1 := fold_left (lower_emit m lower) (cols_up sj (snd (last pts p0))) []).
    set (st2 := fold_left (upper_emit upper (slack + zlen pts)) (rev (cols_up (sj + 1) (snd (last pts p0)))) st1).
    destruct (lower_pass_inv m pts (cols_up sj (snd (last pts p0))) []) as [I1 C1];
      [intros x [] | exact Logic.I | ].
    fold lower in I1, C1. fold st1 in I1, C1.
    destruct (upper_pass_inv pts (slack + zlen pts) (rev (cols_up (sj + 1) (snd (last pts p0)))) st1 I1 C1) as [I2 C2].
    fold upper in I2, C2. fold st2 in I2, C2.
    assert (Hup : In (upper sj, sj) pts).
    { destruct (build_upper_in pts sj) as [B|B]; [|exact B].
      pose proof (build_upper_ge pts p0 Hp0) as G. specialize (Hnn p0 Hp0). fold sj in G. fold upper in B. unfold upper in B. lia. }
    eexists. split; [reflexivity|].
    destruct (negb (lower sj =? upper sj)).
    + split.
      * intros x [Hx|Hx]; [subst x; exact Hup | eapply prune_incl; eauto].
      * apply prune_ok; auto.
    + split; [apply prune_incl; auto | apply prune_ok; auto].
Qed.

Lemma hull_label_stack m pts slack :
  (forall q, In q pts -> 0 <= fst q) ->
  exists st, hull_label m pts slack = rev st /\ incl st pts /\ chain_ok st.
Proof.
  intros Hnn. destruct pts as [|p0 rest].
  - exists []. cbn. repeat split; auto. intros x [].
  - rewrite hull_label_cons. apply hull_body_stack; auto. left. reflexivity.
Qed.

(* (a) every emitted vertex is a pixel of the label *)
Theorem vertices_subset m pts slack p :
  (forall q, In q pts -> 0 <= fst q) -> In p (hull_label m pts slack) -> In p pts.
Proof.
  intros Hnn Hp. destruct (hull_label_stack m pts slack Hnn) as [st [E [Hi _]]].
  rewrite E in Hp. apply Hi. apply in_rev. exact Hp.
Qed.

(* loop invariant through all three passes, read on the output: every consecutive triple of the
   emitted polygon satisfies CONVEX (strict turn, or the U-turn tie rule) *)
Theorem emit_chain_convex m pts slack :
  (forall q, In q pts -> 0 <= fst q) ->
  forall l1 l2 a b c, hull_label m pts slack = l1 ++ a :: b :: c :: l2 -> CONVEX a b c = true.
Proof.
  intros Hnn l1 l2 a b c E. destruct (hull_label_stack m pts slack Hnn) as [st [E' [_ Hc]]].
  apply (chain_ok_decomp st Hc (rev l2) (rev l1)).
  rewrite E' in E. apply (f_equal (@rev pt)) in E. rewrite rev_involutive in E. rewrite E.
  rewrite rev_app_distr. cbn [rev]. repeat rewrite <- app_assoc. reflexivity.
Qed.

Example vertices_subset_ex :
  let pts := [(0,0);(1,0);(2,0);(0,1);(2,1);(0,2);(1,2);(2,2)] in
  (forall q, In q pts -> 0 <= fst q) /\ hull_label 2 pts 0 = [(0,0);(0,2);(2,2);(2,0)].
Proof. split; [cbn; intros q H; repeat (destruct H as [H|H]; [subst q; cbn; lia|]); contradiction | vm_compute; reflexivity]. Qed.

Example chain_ok_ex : chain_ok [(2,2);(0,2);(0,0)] /\ prune [(2,2);(0,2);(0,0)] (1,1) = [(2,2);(0,2);(0,0)]
                      /\ prune [(0,2);(0,1);(0,0)] (0,3) = [(0,0)].
Proof. vm_compute. repeat split; reflexivity. Qed.
