(* C02 — invariants of the EMIT macro and of the three emission passes of hull_label. *)
From Coq Require Import ZArith List Bool Lia ZifyBool.
From Centro Require Import Base.Sx Model.Hull.
Import ListNotations.
Open Scope Z_scope.

(* loop invariant of EMIT: every consecutive triple on the stack (top first) is CONVEX *)
Fixpoint chain_ok (st : list pt) : Prop :=
  match st with
  | c :: ((b :: a :: _) as rest) => CONVEX a b c = true /\ chain_ok rest
  | _ => True
  end.

Lemma chain_ok_tail x st : chain_ok (x :: st) -> chain_ok st.
Proof. destruct st as [|b [|a r]]; cbn; tauto. Qed.

Lemma prune_ok st p : chain_ok st -> chain_ok (prune st p) /\ chain_ok (p :: prune st p).
Proof.
  induction st as [|b rest IH]; intros H; [cbn; auto|].
  destruct rest as [|a r]; [cbn; auto|].
  cbn [prune]. destruct (CONVEX a b p) eqn:E.
  - split; auto. cbn [chain_ok]. split; auto.
  - apply IH. eapply chain_ok_tail; eauto.
Qed.

Lemma prune_subset st p x : In x (prune st p) -> In x st.
Proof.
  induction st as [|b rest IH]; cbn [prune]; auto. destruct rest as [|a r]; auto.
  destruct (CONVEX a b p); auto. intros H. right. apply IH; auto.
Qed.
