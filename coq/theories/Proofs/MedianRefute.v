(* C07 — kernel-evaluated facts about the line-level model: the as-is code is refuted at radius 1
   (finding F2) while the Fixed variant meets the specification on the same input; a finite sweep
   of the Fixed variant over every mask of a small image; an inhabitant of the hypotheses of
   find_median_model_rank. *)
From Coq Require Import ZArith List Bool Lia.
From Centro Require Import Base.Sx Model.Median Spec.MedianSpec Proofs.MedianCheck Proofs.MedianHist.
Import ListNotations.
Open Scope Z_scope.

Definition f2_data : list (list Z) := [[1; 8; 4]; [11; 7; 3]; [10; 6; 2]].
Definition f2_mask : list (list bool) := [[true; true; true]; [true; true; true]; [true; true; true]].

Lemma f2_asis : kernel AsIs f2_data f2_mask 1 50 = [[7; 6; 6]; [4; 4; 4]; [3; 4; 4]].
Proof. vm_compute. reflexivity. Qed.
Lemma f2_fixed : kernel Fixed f2_data f2_mask 1 50 = [[6; 6; 4]; [6; 6; 6]; [6; 6; 6]].
Proof. vm_compute. reflexivity. Qed.

(* "the median filter meets the specification for every input" is false for the code as written *)
Theorem median_asis_refuted :
  exists data mask radius percent,
    1 <= radius /\ 0 <= percent <= 100 /\
    ~ MedianSpec data mask radius percent (kernel AsIs data mask radius percent) /\
    MedianSpec data mask radius percent (kernel Fixed data mask radius percent).
Proof.
  exists f2_data, f2_mask, 1, 50. split; [lia|]. split; [lia|]. split.
  - intros H. apply check_median_iff in H. rewrite f2_asis in H. vm_compute in H. discriminate.
  - apply check_median_iff. rewrite f2_fixed. vm_compute. reflexivity.
Qed.

(* ------------------------------------------------------------------ finite sweep (Fixed variant) *)

Fixpoint all_masks (n : nat) : list (list bool) :=
  match n with
  | O => [[]]
  | S m => flat_map (fun r => [true :: r; false :: r]) (all_masks m)
  end.
Definition rows_of (w : nat) (l : list bool) : list (list bool) :=
  [firstn w l; firstn w (skipn w l); firstn w (skipn (w + w) l)].

Definition sweep_data : list (list Z) := [[17; 250; 3]; [96; 17; 31]; [0; 200; 96]].
Definition sweep_ok (radius percent : Z) (m : list bool) : bool :=
  let mask := rows_of 3 m in
  check_median sweep_data mask radius percent (kernel Fixed sweep_data mask radius percent).

(* every one of the 512 masks of a 3x3 image, radius 1 (the bumped one) and 2, three percentiles *)
Theorem sliding_fixed_finite :
  forall m, In m (all_masks 9) -> forall radius percent, In (radius, percent) [(1, 50); (2, 0); (2, 100)] ->
  let mask := rows_of 3 m in
  MedianSpec sweep_data mask radius percent (kernel Fixed sweep_data mask radius percent).
Proof.
  assert (H : forallb (fun m => forallb (fun rp => sweep_ok (fst rp) (snd rp) m) [(1, 50); (2, 0); (2, 100)])
                      (all_masks 9) = true) by (vm_compute; reflexivity).
  intros m Hm radius percent Hrp mask. rewrite forallb_forall in H. specialize (H m Hm).
  rewrite forallb_forall in H. specialize (H _ Hrp). apply check_median_iff. exact H.
Qed.

(* ------------------------------------------------------------------ find_median_model_rank's
   hypotheses hold in a reachable-looking state: the accumulator holds the histogram of the window
   [3; 200; 17; 3; 90] and bin block 0 is already up to date *)
Definition ex_vals : list Z := [3; 200; 17; 3; 90].
Definition ex_env : env := mk_env Fixed [[3; 200; 17; 3; 90]] [[true; true; true; true; true]] 3 50.
Definition ex_st : st := mkSt [] (mkPiece (coarse_of (hist_of ex_vals)) (hist_of ex_vals)) 5 (repeat 0 16) 0 0.

Example find_median_model_rank_ex :
  RankOf ex_vals (rank_pos 5 50) (snd (find_median ex_env ex_st)) /\ snd (find_median ex_env ex_st) = 17.
Proof.
  split; [|vm_compute; reflexivity].
  apply (find_median_model_rank ex_env ex_st ex_vals).
  - repeat (constructor; [lia|]). constructor.
  - discriminate.
  - cbn; lia.
  - cbn; lia.
  - reflexivity.
  - reflexivity.
  - vm_compute. reflexivity.
Qed.
