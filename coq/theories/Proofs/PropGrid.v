(* C03: the grid instances of the checker are sound: unconditionally over Z, and over binary64
   bit patterns under the one hypothesis that float addition of non-negatives is monotone. *)
From Coq Require Import ZArith List Bool Lia ZifyBool.
From Centro Require Import Base.PropFloat Model.Propagate Spec.PropSpec Spec.PropCheck Proofs.PropPotential.
Import ListNotations.
Open Scope Z_scope.

Lemma coords_In : forall m n i j, In (i, j) (coords m n) <-> 0 <= i < m /\ 0 <= j < n.
Proof.
  intros m n i j. unfold coords. rewrite in_flat_map. split.
  - intros [a [Ha Hb]]. apply in_map_iff in Hb. destruct Hb as [b [Hb Hb2]].
    apply in_seq in Ha. apply in_seq in Hb2. inversion Hb. subst i j. lia.
  - intros [Hi Hj]. exists (Z.to_nat i). split; [apply in_seq; lia|].
    apply in_map_iff. exists (Z.to_nat j). split; [f_equal; lia | apply in_seq; lia].
Qed.

Lemma eqP_eq : forall a b : pix, eqP a b = true -> a = b.
Proof. intros [a1 a2] [b1 b2] H. unfold eqP in H. cbn [fst snd] in H. f_equal; lia. Qed.

Lemma gnbrs_verts : forall m n v u, In v (coords m n) -> In u (gnbrs m n v) -> In u (coords m n).
Proof.
  intros m n v [i j] _ Hu. unfold gnbrs in Hu. apply filter_In in Hu. destruct Hu as [_ Hr].
  unfold inrange in Hr. cbn [fst snd] in Hr. apply coords_In. lia.
Qed.

(* every neighbour is at Chebyshev distance 1 (8-connectivity) *)
Lemma gnbrs_adjacent : forall m n v u, In u (gnbrs m n v) ->
  Z.max (Z.abs (fst u - fst v)) (Z.abs (snd u - snd v)) = 1.
Proof.
  intros m n [i j] u Hu. unfold gnbrs in Hu. apply filter_In in Hu. destruct Hu as [Hu _].
  apply in_map_iff in Hu. destruct Hu as [o [Ho Hin]]. subst u. cbn [fst snd].
  unfold offsets8 in Hin. cbn [In] in Hin.
  repeat (destruct Hin as [Hin|Hin]; [subst o; cbn [fst snd]; lia|]). destruct Hin.
Qed.
(* ... and every in-range pixel at Chebyshev distance 1 is a neighbour *)
Lemma gnbrs_complete : forall m n v u, In u (coords m n) ->
  Z.max (Z.abs (fst u - fst v)) (Z.abs (snd u - snd v)) = 1 -> In u (gnbrs m n v).
Proof.
  intros m n [i j] [a b] Hu Hd. apply coords_In in Hu. cbn [fst snd] in Hd.
  unfold gnbrs. apply filter_In. split.
  - apply in_map_iff. exists (a - i, b - j). cbn [fst snd]. split; [f_equal; lia|].
    unfold offsets8. cbn [In].
    assert (Ha : a - i = -1 \/ a - i = 0 \/ a - i = 1) by lia.
    assert (Hb : b - j = -1 \/ b - j = 0 \/ b - j = 1) by lia.
    destruct Ha as [Ha|[Ha|Ha]], Hb as [Hb|[Hb|Hb]]; rewrite Ha, Hb; try tauto. exfalso; lia.
  - unfold inrange. cbn [fst snd]. lia.
Qed.

Lemma gnbrs_iff : forall m n v u, In v (coords m n) ->
  (In u (gnbrs m n v) <-> In u (coords m n) /\ Z.max (Z.abs (fst u - fst v)) (Z.abs (snd u - snd v)) = 1).
Proof.
  intros m n v u Hv. split.
  - intros H. split; [eapply gnbrs_verts; eassumption | eapply gnbrs_adjacent; exact H].
  - intros [H1 H2]. apply gnbrs_complete; assumption.
Qed.

(* ---------- Z instance ---------- *)
Lemma fold_abs_nonneg : forall (f : Z * Z -> Z) l acc, 0 <= acc ->
  0 <= fold_left (fun a o => a + Z.abs (f o)) l acc.
Proof. induction l as [|x r IH]; intros acc H; cbn [fold_left]; [exact H | apply IH; lia]. Qed.

Lemma w_Z_nonneg : forall image m n u v, 0 <= w_Z image m n u v.
Proof. intros. unfold w_Z. apply (fold_abs_nonneg (fun o => _ - _)). lia. Qed.

Lemma laws_Z : algebra_laws Z Z.le Z.leb Z.eqb (fun k => 0 <=? k) Z.add 0 (fun k => 0 <= k).
Proof. unfold algebra_laws. repeat split; intros; lia. Qed.

Theorem prop_check_Z_sound : forall m n image labels mask lo dist hint,
  prop_check_Z m n image labels mask lo dist hint = true -> Spec_Z m n image labels mask lo dist.
Proof.
  intros m n image labels mask lo dist hint H. unfold Spec_Z.
  eapply prop_check_sound_gen with (ok := fun k => 0 <= k) (hint := hint).
  - exact laws_Z.
  - exact eqP_eq.
  - apply gnbrs_verts.
  - intros u v. apply w_Z_nonneg.
  - exact H.
Qed.

(* ---------- binary64 instance ---------- *)
Lemma sat64_ok : forall b, ok64 (sat64 b).
Proof.
  intros b. unfold sat64, ok64. destruct (okb64 b) eqn:E.
  - unfold okb64 in E. lia.
  - unfold bits_inf. lia.
Qed.

Definition b64_add_monotone : Prop :=
  forall a b c, ok64 a -> ok64 b -> ok64 c -> a <= b -> plus64 a c <= plus64 b c.

Lemma laws_b64 : b64_add_monotone -> algebra_laws Z Z.le Z.leb Z.eqb okb64 plus64 0 ok64.
Proof.
  intros Hm. unfold algebra_laws. repeat split; try (intros; lia).
  - unfold okb64 in H. lia.
  - unfold okb64, bits_inf in *. lia.
  - unfold bits_inf. lia.
  - apply sat64_ok.
  - apply sat64_ok.
  - intros a [H _]. exact H.
  - exact Hm.
Qed.

Theorem prop_check_b64_sound : b64_add_monotone ->
  forall m n image labels mask weight lo dist hint,
  prop_check_b64 m n image labels mask weight lo dist hint = true ->
  Spec_b64 m n image labels mask weight lo dist.
Proof.
  intros Hm m n image labels mask weight lo dist hint H. unfold Spec_b64.
  eapply prop_check_sound_gen with (ok := ok64) (hint := hint).
  - exact (laws_b64 Hm).
  - exact eqP_eq.
  - apply gnbrs_verts.
  - intros u v. apply sat64_ok.
  - exact H.
Qed.

(* The hypotheses are satisfiable on non-trivial inputs. *)
(* (1) Z: a 2x3 integer image, seeds 1 and 2 at the two ends, the output of the real code *)
Example prop_check_Z_example :
  prop_check_Z 2 3 [[0;1;5];[0;2;5]] [[1;0;0];[0;0;2]] [[true;true;true];[true;true;true]]
               [[1;1;2];[1;2;2]] [[0;15;1];[1;15;0]]
               [(((0,1),(0,0)),1); (((1,0),(0,0)),1); (((0,2),(1,2)),2); (((1,1),(1,2)),2)] = true.
Proof. vm_compute. reflexivity. Qed.

(* (2) binary64: the same scene as bit patterns, weight 0, output of the real code *)
Example prop_check_b64_example :
  prop_check_b64 2 3 (map (map float_of_bits) [[0;4607182418800017408;4617315517961601024];[0;4611686018427387904;4617315517961601024]]) [[1;0;0];[0;0;2]] [[true;true;true];[true;true;true]]
                 (float_of_bits 0) [[1;1;2];[1;2;2]] [[0;4624633867356078080;4607182418800017408];[4607182418800017408;4624633867356078080;0]]
                 [(((0,1),(0,0)),1); (((1,0),(0,0)),1); (((0,2),(1,2)),2); (((1,1),(1,2)),2)] = true.
Proof. vm_compute. reflexivity. Qed.
