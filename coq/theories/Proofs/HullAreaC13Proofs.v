(* C13 — convex hull area: position r of the batch carries a function of label indexes[r]'s own
   rows only (and of the kernel's buffer slack), by C02's reorder_correct. *)
From Coq Require Import ZArith QArith List Bool Lia.
From Centro Require Import Model.Hull Proofs.HullBatch Proofs.HullTop Model.HullAreaC13.
Import ListNotations.
Open Scope Z_scope.

Theorem hull_area_own_rows ijv indexes r :
  NoDup indexes -> (r < length indexes)%nat ->
  exists slack,
    nth r (hull_areas_rows (fst (convex_hull_ijv ijv indexes))) (0, 0%Q) =
    hull_area_obj (hull_label (zmax_list (map r_i (lexsort ijv)))
                              (map r_pt (sel (nth r indexes 0) (lexsort ijv))) slack).
Proof.
  intros ND Hr. destruct (hull_ijv_request ijv indexes r ND Hr) as [slack E]. exists slack.
  unfold hull_areas_rows.
  assert (G : forall (rows : list (Z * list pt)) k,
             nth k (map (fun row => hull_area_obj (snd row)) rows) (0, 0%Q)
             = hull_area_obj (snd (nth k rows (0, [])))).
  { induction rows as [|a t IH]; intros [|k]; cbn [map nth]; try reflexivity. apply IH. }
  rewrite G, E. reflexivity.
Qed.

Example hull_area_example :
  hull_area_obj [(0, 0); (0, 2); (2, 2); (2, 0)] = (0, 9%Q) /\ NoDup [3; 1].
Proof. split; [vm_compute; reflexivity|]. repeat constructor; cbn; intuition discriminate. Qed.
