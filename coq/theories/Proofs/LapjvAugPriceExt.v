(* C01 — phase 4, the price update with prices in Fin | -inf (inputs with single-candidate rows): the core lemma of
   Proofs.LapjvAugPrice lifted from Inv to InvE.  Augment never touches a -inf column: such a column is never in `ready`
   (its d is +inf), keeps its price, stays assigned, and its row keeps listing only -inf columns.  The Dijkstra facts are
   needed for finite-priced columns only. *)
From Coq Require Import ZArith List Bool Lia ZifyBool Arith.
From Centro Require Import Base.Sx Model.Lapjv Spec.Lapjv Proofs.LapjvPhases Proofs.LapjvArr Proofs.LapjvArrExt
  Proofs.LapjvAugFlip Proofs.LapjvAugPrice.
Import ListNotations.
Open Scope Z_scope.

Section PriceExt.
Variables (n : nat) (rows : list (list (nat * ext))).
Hypothesis Rfin : forall i j c, In (j, c) (row rows i) -> (j < n)%nat /\ exists z, c = Fin z.
Hypothesis Rnodup : forall i, NoDup (map fst (row rows i)).

Lemma aug_prices_spec_ext d mu : forall ready v,
  PV n v -> NoDup ready ->
  (forall j, In j ready -> (j < n)%nat /\ finp v j /\ exists z, gete d j = Fin z) ->
  PV n (aug_prices d (Fin mu) ready v) /\
  (forall j, In j ready -> finp (aug_prices d (Fin mu) ready v) j /\ vz (aug_prices d (Fin mu) ready v) j = vz v j + dz d j - mu) /\
  (forall j, ~ In j ready -> gete (aug_prices d (Fin mu) ready v) j = gete v j).
Proof.
  induction ready as [|j rr IH]; intros v PVv ND HR; cbn [aug_prices].
  - split; auto. split; [intros ? []|auto].
  - apply NoDup_cons_iff in ND as [Nin ND'].
    destruct (HR j (or_introl eq_refl)) as [Hj [[zv Hv] [zd Hd]]].
    set (v1 := upd v j (eadd (gete v j) (esub (gete d j) (Fin mu)))).
    assert (Hv1j : gete v1 j = Fin (zv + (zd + - mu))).
    { unfold v1. rewrite gete_upd, Nat.eqb_refl, (proj1 PVv). replace (j <? n)%nat with true by (symmetry; apply Nat.ltb_lt; auto).
      cbn [andb]. rewrite Hv, Hd. reflexivity. }
    assert (Hv1o : forall k, k <> j -> gete v1 k = gete v k).
    { intros k Hk. unfold v1. rewrite gete_upd. destruct (Nat.eqb_spec k j); [contradiction|]. reflexivity. }
    assert (PV1 : PV n v1).
    { split; [unfold v1; rewrite upd_length; apply PVv|]. intros k Hk. destruct (Nat.eq_dec k j) as [->|NE]; [left; eexists; eauto|].
      unfold finp. rewrite Hv1o by auto. apply PVv; auto. }
    assert (HR1 : forall k, In k rr -> (k < n)%nat /\ finp v1 k /\ exists z, gete d k = Fin z).
    { intros k Hk. destruct (HR k (or_intror Hk)) as [A [B C]]. split; auto. split; auto.
      unfold finp. rewrite Hv1o; auto. intros E; subst; contradiction. }
    destruct (IH v1 PV1 ND' HR1) as [A [B C]].
    split; auto. split.
    + intros k [<-|Hk].
      * split; [unfold finp; rewrite (C j Nin); eauto|]. unfold vz at 1. rewrite (C j Nin), Hv1j.
        rewrite (vz_fin _ _ _ Hv). unfold dz. rewrite Hd. lia.
      * destruct (B k Hk) as [B1 B2]. split; auto. rewrite B2. unfold vz. rewrite Hv1o; auto. intros E; subst; contradiction.
    + intros k Hk. rewrite C by (intros H; apply Hk; right; auto). apply Hv1o. intros E. apply Hk. left. auto.
Qed.

Variables (r : nat) (x y : list nat) (v : list ext) (d : list ext) (pred ready : list nat) (mu : Z) (j1 : nat).

Record DistInvE : Prop := mkDistE
  { e1 : forall j, In j ready -> dz d j <= mu;
    (* d may still be +inf on columns never reached (reference variant): the facts speak about finite d *)
    e2 : forall j, (j < n)%nat -> finp v j -> ~ In j ready -> (exists z, gete d j = Fin z) -> mu <= dz d j;
    e3 : forall j c, In (j, Fin c) (row rows r) -> finp v j -> (exists z, gete d j = Fin z) /\ dz d j <= c - vz v j;
    e4 : forall jh j c ch, In jh ready -> In (j, Fin c) (row rows (getn y jh n)) -> In (jh, Fin ch) (row rows (getn y jh n)) ->
           finp v j -> dz d jh = mu \/ ((exists z, gete d j = Fin z) /\ dz d j <= dz d jh + (c - vz v j) - (ch - vz v jh));
    e5 : forall j, In j ready \/ j = j1 ->
           (getn pred j n = r /\ exists c, In (j, Fin c) (row rows r) /\ dz d j = c - vz v j) \/
           (exists jh c ch, In jh ready /\ getn pred j n = getn y jh n /\
              In (j, Fin c) (row rows (getn y jh n)) /\ In (jh, Fin ch) (row rows (getn y jh n)) /\
              dz d j = dz d jh + (c - vz v j) - (ch - vz v jh));
    e6 : dz d j1 = mu /\ ~ In j1 ready /\ finp v j1 }.

Theorem aug_price_slack_ext x' y' :
  InvE n rows x y v -> (r < n)%nat -> DistInvE ->
  NoDup ready -> (forall j, In j ready -> (j < n)%nat /\ finp v j /\ (exists z, gete d j = Fin z) /\ getn y j n <> n) ->
  PIh n x' y' None -> length x' = n -> length y' = n ->
  (forall j i, (j < n)%nat -> getn y' j n = i -> i <> n ->
     getn y j n = i \/ (getn pred j n = i /\ (In j ready \/ j = j1))) ->
  (forall j, getn y j n <> n -> getn y' j n <> n) ->
  InvE n rows x' y' (aug_prices d (Fin mu) ready v).
Proof.
  intros [Lx [Ly [PVv [SL NY]]]] Hr [H1 H2 H3 H4 H5 [H6 [H6' H6'']]] ND HR PI' Lx' Ly' Src Keep.
  destruct (aug_prices_spec_ext d mu ready v PVv ND
              (fun j H => conj (proj1 (HR j H)) (conj (proj1 (proj2 (HR j H))) (proj1 (proj2 (proj2 (HR j H)))))))
    as [PV' [Vr Vo]].
  set (v' := aug_prices d (Fin mu) ready v) in *.
  assert (Live : forall j, finp v' j <-> finp v j).
  { intros j. destruct (in_dec Nat.eq_dec j ready) as [Hin|Hnin].
    - split; intros _; [apply (HR j Hin)|apply (Vr j Hin)].
    - unfold finp. rewrite (Vo j Hnin). tauto. }
  assert (Dead : forall j, gete v' j = NInf <-> gete v j = NInf).
  { intros j. destruct (in_dec Nat.eq_dec j ready) as [Hin|Hnin].
    - destruct (Vr j Hin) as [[z Hz] _]. destruct (proj1 (proj2 (HR j Hin))) as [z0 Hz0]. split; intros E; congruence.
    - rewrite (Vo j Hnin). tauto. }
  refine (conj Lx' (conj Ly' (conj PV' (conj _ _)))).
  2:{ intros j Hj E. apply Keep. apply NY; auto. apply Dead. exact E. }
  assert (RC : forall j c, (In j ready -> c - vz v' j = (c - vz v j) - dz d j + mu) /\ (~ In j ready -> c - vz v' j = c - vz v j)).
  { intros j c. split; intros H; [rewrite (proj2 (Vr j H))|unfold vz; rewrite (Vo j H)]; lia. }
  assert (Up : forall j c, c - vz v j <= c - vz v' j).
  { intros j c. destruct (in_dec Nat.eq_dec j ready) as [Hin|Hnin].
    - rewrite (proj1 (RC j c) Hin). specialize (H1 j Hin). lia.
    - rewrite (proj2 (RC j c) Hnin). lia. }
  assert (Tree : forall jh ch j' c', In jh ready -> In (jh, Fin ch) (row rows (getn y jh n)) ->
            In (j', Fin c') (row rows (getn y jh n)) -> finp v j' -> (ch - vz v jh) - dz d jh + mu <= c' - vz v' j').
  { intros jh ch j' c' Hjh Hch Hc' Fj'. destruct (Rfin _ _ _ Hc') as [Hj' _].
    destruct (H4 jh j' c' ch Hjh Hc' Hch Fj') as [Emu|[Fd' H4']].
    - destruct (HR jh Hjh) as [Hjhn [Fjh [_ Ny]]].
      destruct (SL jh _ Hjhn eq_refl Ny) as [_ [_ [c0 [Hc0 [Hmin _]]]]].
      assert (c0 = ch) by (assert (Fin c0 = Fin ch) by (eapply (row_cost_unique rows Rnodup); eauto); congruence). subst c0.
      specialize (Hmin j' c' Hc' Fjh Fj'). pose proof (Up j' c'). lia.
    - destruct (in_dec Nat.eq_dec j' ready) as [Hin|Hnin].
      + rewrite (proj1 (RC j' c') Hin). lia.
      + rewrite (proj2 (RC j' c') Hnin). specialize (H2 j' Hj' Fj' Hnin Fd'). lia. }
  assert (Root : forall j' c', In (j', Fin c') (row rows r) -> finp v j' -> mu <= c' - vz v' j').
  { intros j' c' Hc' Fj'. destruct (Rfin _ _ _ Hc') as [Hj' _]. destruct (H3 j' c' Hc' Fj') as [Fd' H3'].
    destruct (in_dec Nat.eq_dec j' ready) as [Hin|Hnin].
    - rewrite (proj1 (RC j' c') Hin). lia.
    - rewrite (proj2 (RC j' c') Hnin). specialize (H2 j' Hj' Fj' Hnin Fd'). lia. }
  intros j i Hj Ey Ne. destruct (PI' j i Hj ltac:(discriminate) Ey Ne) as [Hi Hx']. split; auto. split; auto.
  destruct (Src j i Hj Ey Ne) as [Old|[Pr Where]].
  - (* an old pair *)
    destruct (SL j i Hj Old Ne) as [_ [_ [c [Hc [Hmin Hall]]]]]. exists c. split; auto. split.
    + intros j' c' Hc' Fj Fj'. apply Live in Fj. apply Live in Fj'.
      destruct (in_dec Nat.eq_dec j ready) as [Hin|Hnin].
      * rewrite (proj1 (RC j c) Hin). rewrite <- Old in Hc, Hc'. apply (Tree j c j' c'); auto.
      * rewrite (proj2 (RC j c) Hnin). specialize (Hmin j' c' Hc' Fj Fj'). pose proof (Up j' c'). lia.
    + intros E j' c' Hc'. apply Dead. apply (Hall (proj1 (Dead j) E) j' c' Hc').
  - (* a pred pair: its column is in ready or is j1, hence finite-priced *)
    assert (Fj : finp v j) by (destruct Where as [Hin | ->]; [apply (HR j Hin)|exact H6'']).
    destruct (H5 j Where) as [[Er [c [Hc Ed]]]|[jh [c [ch [Hjh [Ep [Hc [Hch Ed]]]]]]]].
    + assert (Ei : i = r) by congruence. rewrite Ei. exists c. split; [exact Hc|]. split.
      * intros j' c' Hc' _ Fj'. apply Live in Fj'.
        assert (Base : c - vz v' j = mu).
        { destruct Where as [Hin | ->].
          - rewrite (proj1 (RC j c) Hin). lia.
          - rewrite (proj2 (RC j1 c) H6'). lia. }
        rewrite Base. apply Root; auto.
      * intros E. exfalso. apply Dead in E. destruct Fj as [z Hz]. congruence.
    + assert (Ei : i = getn y jh n) by congruence. rewrite Ei. exists c. split; [exact Hc|]. split.
      * intros j' c' Hc' _ Fj'. apply Live in Fj'.
        assert (Base : c - vz v' j = (ch - vz v jh) - dz d jh + mu).
        { destruct Where as [Hin | ->].
          - rewrite (proj1 (RC j c) Hin). lia.
          - rewrite (proj2 (RC j1 c) H6'). lia. }
        rewrite Base. apply (Tree jh ch j' c'); auto.
      * intros E. exfalso. apply Dead in E. destruct Fj as [z Hz]. congruence.
Qed.
End PriceExt.
