(* C05: the pruned 4x5-window sweep (Base/TopoSweep.v) run by the kernel on the REGENERATED table
   [thin_tab1] (Gen/TablesC05.v).  A changed table bit re-runs this file; if the table then deletes a
   pixel that is not simple after its raster-earlier neighbours are gone, the lemma fails. *)
From Coq Require Import ZArith NArith List Bool.
From Centro Require Import Base.Topo Base.Skel Base.TopoPar Base.TopoSweep Base.TopoGrid Gen.TablesC05.

Lemma sweep_thin_tab1 : sweep (keepN thin_tab1) = true.
Proof. vm_compute. reflexivity. Qed.

Lemma admissible_thin_tab1 : admissible (keepN thin_tab1).
Proof. unfold admissible. apply sweep_sound. exact sweep_thin_tab1. Qed.
