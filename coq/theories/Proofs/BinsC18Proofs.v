(* C18 — the bin-merging loop of rank_order, for every admissible argsort of the histogram. *)
From Coq Require Import ZArith List Bool Arith Lia Sorted Permutation.
From Centro Require Import Base.SortC18 Model.VecC18 Model.RankC18 Spec.SpecC18
  Proofs.VecC18Lemmas Proofs.RankIsoC18 Proofs.RankC18Proofs Proofs.BinsC18Lemmas.
Import ListNotations.
Local Open Scope nat_scope.

(* loop invariant: the levels are a strictly increasing selection of input values that keeps the
   minimum, and each pixel's rank is the number of levels not above it, minus one *)
Definition Inv (image : list Z) (st : bstate) : Prop :=
  let '(ii, ov, mrd) := st in
  ov <> [] /\ mrd = length ov - 1 /\ StronglySorted Z.lt ov /\ incl ov image /\
  length ii = length image /\
  forall i, i < length image -> 1 <= cnt ov (getz image i) /\ getn ii i = cnt ov (getz image i) - 1.

Lemma inv_list_max image ii ov :
  image <> [] -> ov <> [] -> StronglySorted Z.lt ov -> incl ov image -> length ii = length image ->
  (forall i, i < length image -> 1 <= cnt ov (getz image i) /\ getn ii i = cnt ov (getz image i) - 1) ->
  list_max ii = length ov - 1.
Proof.
  intros NE NO HS HI HL HR. apply Nat.le_antisymm.
  - apply list_max_le. rewrite Forall_forall. intros x Hx.
    destruct (In_nth ii x 0 Hx) as (i & Hi & <-). destruct (HR i ltac:(lia)) as (_ & E).
    unfold getn in E. rewrite E. pose proof (cnt_le_length ov (getz image i)). lia.
  - set (top := nth (length ov - 1) ov 0%Z).
    assert (length ov >= 1) as HL1. { destruct ov; [congruence|cbn [length]; lia]. }
    assert (In top ov) as Ht. { apply nth_In. lia. }
    destruct (In_nth image top 0%Z (HI _ Ht)) as (i & Hi & Ei).
    destruct (HR i Hi) as (_ & E). unfold getz in E. rewrite Ei in E.
    assert (cnt ov top = length ov) as EC.
    { apply cnt_all. intros y Hy. destruct (In_nth ov y 0%Z Hy) as (k & Hk & <-).
      destruct (Nat.eq_dec k (length ov - 1)) as [->|N]; [unfold top; lia|].
      pose proof (sorted_lt_nth ov k (length ov - 1) HS ltac:(lia)). unfold top. lia. }
    rewrite EC in E. rewrite <- E. apply list_max_ge. unfold getn. apply nth_In. lia.
Qed.

Lemma td_mask_length mrd nbins order : length (td_mask_of mrd nbins order) = mrd + 1.
Proof.
  unfold td_mask_of.
  set (td0 := map _ (seq 0 (mrd + 1))). assert (length td0 = mrd + 1) as E by (unfold td0; rewrite map_length, seq_length; reflexivity).
  destruct td0; cbn [length] in *; lia.
Qed.

Lemma td_mask_head mrd nbins order : nth 0 (td_mask_of mrd nbins order) false = false.
Proof. unfold td_mask_of. destruct (map _ (seq 0 (mrd + 1))); reflexivity. Qed.

(* one merging step keeps the invariant, whatever order the argsort returned *)
Lemma step_inv image nbins order st : Inv image st -> Inv image (bin_step nbins order st).
Proof.
  destruct st as [[ii ov] mrd]. intros (NO & EM & HS & HI & HL & HR). unfold bin_step.
  set (td := td_mask_of mrd nbins order). set (keep := map negb td).
  assert (length keep = length ov) as LK.
  { unfold keep, td. rewrite map_length, td_mask_length. destruct ov; [congruence|cbn [length] in *; lia]. }
  assert (exists a r k', ov = a :: r /\ keep = true :: k') as (a & r & k' & Eo & Ek).
  { destruct ov as [|a r]; [congruence|]. destruct keep as [|b k'] eqn:E; [discriminate|].
    exists a, r, k'. split; [reflexivity|]. f_equal.
    assert (nth 0 keep false = b) as Hb by (rewrite E; reflexivity).
    unfold keep in Hb. rewrite <- Hb.
    change false with (negb true) at 1. rewrite map_nth.
    pose proof (td_mask_head mrd nbins order) as H0. fold td in H0.
    rewrite (nth_indep td true false) by (unfold td; rewrite td_mask_length; lia). rewrite H0. reflexivity. }
  set (ov' := compress keep ov).
  assert (ov' <> []) as NO'. { unfold ov'. rewrite Eo, Ek. cbn [compress]. discriminate. }
  cbn beta iota. split; [exact NO'|]. split; [reflexivity|]. split; [apply compress_sorted; exact HS|].
  split. { intros y Hy. apply HI. eapply compress_In; exact Hy. }
  split. { rewrite map_length. exact HL. }
  intros i Hi. destruct (HR i Hi) as (H1 & E). set (x := getz image i) in *.
  assert (cnt ov' x = nsum (map b2n (firstn (cnt ov x) keep))) as EC by (apply compress_count; auto).
  split.
  - rewrite EC. destruct (cnt ov x) as [|c]; [lia|]. rewrite Ek. cbn [firstn map nsum fold_right b2n]. lia.
  - unfold getn at 1. rewrite (nth_indep _ 0 (getn (map (fun c => c - 1) (ncumsum (map b2n keep))) 0)) by (rewrite map_length; lia).
    rewrite map_nth. fold (getn ii i). rewrite E. unfold getn.
    pose proof (cnt_le_length ov x) as HC.
    rewrite (nth_indep _ 0 (0 - 1)) by (unfold ncumsum; rewrite map_length, ncumsum_from_length, map_length; lia).
    rewrite (map_nth (fun c => c - 1)). unfold ncumsum.
    rewrite ncumsum_from_nth by (rewrite map_length; lia).
    replace (S (cnt ov x - 1)) with (cnt ov x) by lia. rewrite firstn_map, EC. lia.
Qed.

Lemma inv_spec image nbins ii ov mrd :
  Inv image (ii, ov, mrd) -> mrd < nbins -> bins_spec image nbins ii ov.
Proof.
  intros (NO & EM & HS & HI & HL & HR) Hm. unfold bins_spec.
  assert (length ov >= 1) as HL1. { destruct ov; [congruence|cbn [length]; lia]. }
  split; [exact HL|]. split; [exact NO|]. split; [lia|]. split; [exact HS|]. split; [exact HI|]. split.
  - intros i Hi. destruct (HR i Hi) as (H1 & E). set (x := getz image i) in *.
    destruct (cnt_split ov x HS) as (A & B).
    pose proof (cnt_le_length ov x). rewrite E. unfold getz. repeat split.
    + lia.
    + apply A. lia.
    + intros H2. apply B. lia.
  - intros i j Hi Hj Hle. destruct (HR i Hi) as (_ & ->), (HR j Hj) as (_ & ->).
    pose proof (cnt_mono ov _ _ Hle). lia.
Qed.

(* partial correctness of the loop: any result satisfies the specification *)
Lemma loop_spec image oracle nbins fuel : forall k st r v,
  Inv image st -> bins_loop fuel k oracle nbins st = Some (r, v) -> bins_spec image nbins r v.
Proof.
  induction fuel as [|f IH]; intros k [[ii ov] mrd] r v HI E; cbn [bins_loop] in E.
  - destruct (Nat.ltb_spec mrd nbins); [|discriminate]. injection E as <- <-. eapply inv_spec; eauto.
  - destruct (Nat.ltb_spec mrd nbins). { injection E as <- <-. eapply inv_spec; eauto. }
    destruct (admissible mrd (bincount ii 0) (oracle k (bincount ii 0))); [|discriminate].
    eapply IH; [|exact E]. apply step_inv. exact HI.
Qed.

(* ---------------------------------------------------------------- termination *)
Lemma mem_nat_In i l : mem_nat i l = true <-> In i l.
Proof.
  unfold mem_nat. rewrite existsb_exists. split.
  - intros (x & Hx & E). apply Nat.eqb_eq in E. subst; exact Hx.
  - intros H. exists i. split; [exact H|apply Nat.eqb_refl].
Qed.

Lemma nodupb_NoDup l : nodupb l = true -> NoDup l.
Proof.
  induction l as [|x l IH]; cbn [nodupb]; intros H; [constructor|].
  apply andb_true_iff in H as (A & B). constructor; [|auto].
  intros C. apply mem_nat_In in C. rewrite C in A. discriminate.
Qed.

Lemma firstn_In' {A} n (l : list A) x : In x (firstn n l) -> In x l.
Proof. revert l; induction n as [|n IH]; intros [|a l] H; cbn [firstn In] in *; try tauto. destruct H; auto. Qed.

(* with an admissible order and mrd >= nbins >= 1 at least one level is deleted *)
Lemma step_deletes mrd nbins hist order :
  1 <= nbins -> nbins <= mrd -> admissible mrd hist order = true ->
  exists c, c < mrd + 1 /\ nth c (td_mask_of mrd nbins order) false = true.
Proof.
  intros H1 H2 HA. unfold admissible in HA.
  apply andb_true_iff in HA as (HA & _). apply andb_true_iff in HA as (HA & HN).
  apply andb_true_iff in HA as (HLen & HB). apply Nat.eqb_eq in HLen. apply nodupb_NoDup in HN.
  rewrite forallb_forall in HB.
  destruct order as [|a [|b rest]]; cbn [length] in HLen; try lia.
  set (order := a :: b :: rest) in *.
  set (cand := firstn (mrd + 2 - nbins) order).
  assert (In a cand /\ In b cand) as (Ia & Ib).
  { unfold cand. replace (mrd + 2 - nbins) with (S (S (mrd - nbins))) by lia. unfold order. cbn [firstn In]. auto. }
  assert (a <> b) as Nab. { inversion HN as [|? ? Hn _]; subst. intros ->. apply Hn. left; reflexivity. }
  assert (forall c, In c cand -> c < S mrd) as Hlt.
  { intros c Hc. apply Nat.ltb_lt. apply HB. unfold cand in Hc. eapply firstn_In'; exact Hc. }
  set (D := fun i => mem_nat i cand).
  assert (exists c, 1 <= c <= mrd /\ D c = true) as (c & Hc & Dc).
  { destruct a as [|a'].
    - exists b. split; [specialize (Hlt b Ib); lia|apply mem_nat_In; exact Ib].
    - exists (S a'). split; [specialize (Hlt _ Ia); lia|apply mem_nat_In; exact Ia]. }
  assert (D (S mrd) = false) as DF.
  { destruct (D (S mrd)) eqn:E; [|reflexivity]. apply mem_nat_In in E. specialize (Hlt _ E). lia. }
  destruct (last_true D mrd c ltac:(lia) Dc DF) as (c' & Hc' & T & F).
  exists c'. split; [lia|]. unfold td_mask_of. fold order. fold cand.
  set (to_delete := map (fun i => mem_nat i cand) (seq 0 (mrd + 2))).
  set (td0 := map _ (seq 0 (mrd + 1))).
  assert (nth c' td0 false = true) as E0.
  { unfold td0. rewrite map_seq_nth by lia. unfold to_delete. rewrite !map_seq_nth by lia.
    fold (D c') (D (S c')). rewrite T, F. cbn [negb]. rewrite orb_true_r. reflexivity. }
  destruct td0 as [|t0 r0]; [destruct c'; discriminate|]. destruct c' as [|c'']; [lia|]. exact E0.
Qed.

(* what NumPy guarantees of np.argsort(hist): a permutation of the bin numbers that sorts hist *)
Definition oracle_ok (oracle : nat -> list nat -> list nat) : Prop :=
  forall k hist, hist <> [] -> admissible (length hist - 1) hist (oracle k hist) = true.

Lemma bincount_length ii : ii <> [] -> length (bincount ii 0) = S (list_max ii).
Proof. intros H. unfold bincount. destruct ii; [congruence|]. rewrite map_length, seq_length. lia. Qed.

Lemma loop_total image oracle nbins : image <> [] -> 1 <= nbins -> oracle_ok oracle ->
  forall fuel k st, Inv image st -> length (snd (fst st)) <= fuel ->
  exists r v, bins_loop fuel k oracle nbins st = Some (r, v).
Proof.
  intros NE H1 HO. induction fuel as [|f IH]; intros k [[ii ov] mrd] HI HF; cbn [fst snd] in HF.
  - destruct HI as (NO & _). destruct ov; [congruence|cbn [length] in HF; lia].
  - cbn [bins_loop]. destruct (Nat.ltb_spec mrd nbins) as [|Hge]; [eauto|].
    pose proof HI as (NO & EM & HS & HIn & HL & HR).
    assert (ii <> []) as NI. { destruct ii; [|discriminate]. destruct image; [congruence|discriminate]. }
    assert (list_max ii = mrd) as EMX. { rewrite EM. apply (inv_list_max image); auto. }
    set (hist := bincount ii 0).
    assert (length hist = S mrd) as LH. { unfold hist. rewrite bincount_length, EMX by exact NI. reflexivity. }
    assert (admissible mrd hist (oracle k hist) = true) as HA.
    { replace mrd with (length hist - 1) at 1 by lia. apply HO. destruct hist; [discriminate|congruence]. }
    rewrite HA. apply IH; [apply step_inv; exact HI|].
    unfold bin_step. cbn [fst snd].
    destruct (step_deletes mrd nbins hist _ H1 Hge HA) as (c & Hc & Tc).
    set (td := td_mask_of mrd nbins (oracle k hist)) in *.
    assert (length td = length ov) as LT. { unfold td. rewrite td_mask_length. destruct ov; [congruence|cbn [length] in *; lia]. }
    rewrite compress_length by (rewrite map_length; exact LT).
    assert (nsum (map b2n (map negb td)) < length (map negb td)) as HLt.
    { apply (nsum_b2n_lt _ c). change true with (negb false). rewrite map_nth, Tc. reflexivity. }
    rewrite map_length in HLt. lia.
Qed.

(* ---------------------------------------------------------------- the theorem *)
Lemma initial_inv so image :
  image <> [] -> Permutation so (seq 0 (length image)) -> StronglySorted Z.le (map (getz image) so) ->
  let '(ii, ov) := rank_order_with so image in Inv image (ii, ov, list_max ii) /\ length ov <= length ov.
Proof.
  intros NE P HS. pose proof (rank_order_with_char so image NE P HS) as C.
  destruct (rank_order_with so image) as [ii ov]. destruct C as (SS & II & HL & HR). split; [|lia].
  assert (ov <> []) as NO.
  { destruct image as [|x im]; [congruence|]. assert (In x ov) as H by (apply II; left; reflexivity). destruct ov; [destruct H|discriminate]. }
  assert (incl ov image) as HI by (intros y Hy; apply II; exact Hy).
  assert (forall i, i < length image -> 1 <= cnt ov (getz image i) /\ getn ii i = cnt ov (getz image i) - 1) as HR'.
  { intros i Hi. assert (In (getz image i) ov) as Hin by (apply II; apply nth_In; exact Hi).
    destruct (index_of_cnt ov _ SS Hin) as (E & H1). rewrite (HR i Hi). auto. }
  unfold Inv. repeat split; auto; try (apply HR'; assumption).
  apply (inv_list_max image); auto.
Qed.

Theorem rank_order_bins_correct oracle so image nbins :
  image <> [] -> Permutation so (seq 0 (length image)) -> StronglySorted Z.le (map (getz image) so) ->
  (forall r v, rank_order_bins_with oracle so image nbins = Some (r, v) -> bins_spec image nbins r v) /\
  (1 <= nbins -> oracle_ok oracle -> exists r v, rank_order_bins_with oracle so image nbins = Some (r, v)).
Proof.
  intros NE P HS. pose proof (initial_inv so image NE P HS) as HI. unfold rank_order_bins_with.
  destruct (rank_order_with so image) as [ii ov]. destruct HI as (HI & _). split.
  - intros r v E. eapply loop_spec; eauto.
  - intros H1 HO. apply (loop_total image oracle nbins NE H1 HO); [exact HI|]. cbn [fst snd]. lia.
Qed.

(* ---------------------------------------------------------------- the hypotheses are satisfiable:
   a stable argsort of the histogram is an admissible oracle *)
Lemma NoDup_nodupb l : NoDup l -> nodupb l = true.
Proof.
  induction 1 as [|x l Hx ND IH]; [reflexivity|]. cbn [nodupb]. rewrite IH, andb_true_r.
  destruct (mem_nat x l) eqn:E; [|reflexivity]. apply mem_nat_In in E. contradiction.
Qed.

Lemma sorted_nsortedb l : StronglySorted le l -> nsortedb l = true.
Proof.
  induction 1 as [|x l HS IH F]; [reflexivity|]. destruct l as [|y l]; [reflexivity|].
  change (nsortedb (x :: y :: l)) with ((x <=? y) && nsortedb (y :: l)).
  rewrite IH, andb_true_r. apply Nat.leb_le. rewrite Forall_forall in F. apply F. left; reflexivity.
Qed.

Lemma stable_oracle_ok : oracle_ok stable_oracle.
Proof.
  intros k hist NE. unfold stable_oracle, admissible.
  set (zh := map Z.of_nat hist). set (order := argsort zh).
  assert (length zh = length hist) as LZ by (unfold zh; apply map_length).
  pose proof (argsort_perm zh) as P. fold order in P. rewrite LZ in P.
  assert (length hist >= 1) as L1. { destruct hist; [congruence|cbn [length]; lia]. }
  replace (S (length hist - 1)) with (length hist) by lia.
  rewrite !andb_true_iff. repeat split.
  - apply Nat.eqb_eq. rewrite (Permutation_length P), seq_length. reflexivity.
  - apply forallb_forall. intros j Hj. apply Nat.ltb_lt. eapply perm_seq_lt; eauto.
  - apply NoDup_nodupb. eapply perm_seq_NoDup; eauto.
  - apply sorted_nsortedb. pose proof (argsort_sorted zh) as HS. fold order in HS.
    assert (map (getz zh) order = map Z.of_nat (map (getn hist) order)) as E.
    { rewrite map_map. apply map_ext. intros i. unfold getz, getn, zh. change 0%Z with (Z.of_nat 0). apply map_nth. }
    rewrite E in HS. clear E. induction (map (getn hist) order) as [|x l IH]; [constructor|].
    cbn [map] in HS. inversion HS as [|? ? HS' F]; subst. constructor; [auto|].
    rewrite Forall_forall in *. intros y Hy. specialize (F (Z.of_nat y) (in_map _ _ _ Hy)). lia.
Qed.

Example rank_order_bins_ex :
  rank_order_bins_with stable_oracle (argsort [4;4;5;5;0;0;1;1;2;3;6;7;7;7]%Z) [4;4;5;5;0;0;1;1;2;3;6;7;7;7]%Z 4
  = Some ([0; 0; 1; 1; 0; 0; 0; 0; 0; 0; 1; 2; 2; 2], [0; 5; 7]%Z).
Proof. vm_compute. reflexivity. Qed.

(* nbins = 0 is outside the theorem's hypothesis 1 <= nbins, and rightly so: the model runs out
   of fuel, as the code loops forever (observed: rank_order(np.array([1,2,3]), 0) hangs) *)
Example rank_order_bins_nbins0 :
  rank_order_bins_with stable_oracle (argsort [1;2;3]%Z) [1;2;3]%Z 0 = None.
Proof. vm_compute. reflexivity. Qed.
