(* C18 — Indexes: the address identity.  Position t of the flattened set belongs to the object
   rev_idx[t], its coordinates idx[:,t] lie inside that object's sub-array shape and
   t = fwd_idx[object] + row-major offset of the coordinates. *)
From Coq Require Import ZArith List Bool Arith Lia.
From Centro Require Import Model.VecC18 Model.IndexesC18 Spec.SpecC18
  Proofs.VecC18Lemmas Proofs.MedianC18Proofs Proofs.BlocksC18 Proofs.IndexesC18Proofs.
Import ListNotations.
Local Open Scope nat_scope.

Definition rm_offset (dims coords : list nat) : nat :=
  fold_left (fun acc p => acc * fst p + snd p) (combine dims coords) 0.

(* ---------------------------------------------------------------- row-major offset vs digits *)
Lemma rm_fold_acc dims : forall ds acc, length ds = length dims ->
  fold_left (fun acc p => acc * fst p + snd p) (combine dims ds) acc = acc * lprod dims + rm_offset dims ds.
Proof.
  induction dims as [|c r IH]; intros [|q ds] acc HL; cbn [length] in HL; try lia.
  - unfold rm_offset. cbn [combine fold_left lprod fold_right]. lia.
  - unfold rm_offset. cbn [combine fold_left fst snd].
    rewrite (IH ds (acc * c + q)), (IH ds (0 * c + q)) by lia.
    change (lprod (c :: r)) with (c * lprod r). nia.
Qed.

Lemma rm_offset_cons c r q ds : length ds = length r ->
  rm_offset (c :: r) (q :: ds) = q * lprod r + rm_offset r ds.
Proof.
  intros HL. unfold rm_offset at 1. cbn [combine fold_left fst snd].
  rewrite rm_fold_acc by exact HL. lia.
Qed.

Lemma digits_cons2 c d r u :
  digits (c :: d :: r) u = u / lprod (d :: r) :: digits (d :: r) (u mod lprod (d :: r)).
Proof. reflexivity. Qed.

Lemma digits_length dims : dims <> [] -> forall u, length (digits dims u) = length dims.
Proof.
  induction dims as [|c rest IH]; intros NE u; [congruence|].
  destruct rest as [|d r]; [reflexivity|].
  rewrite digits_cons2. cbn [length]. rewrite IH by discriminate. reflexivity.
Qed.

Lemma lprod_cons c r : lprod (c :: r) = c * lprod r.
Proof. reflexivity. Qed.

Lemma rm_offset_digits dims : dims <> [] -> forall u, u < lprod dims -> rm_offset dims (digits dims u) = u.
Proof.
  induction dims as [|c rest IH]; intros NE u Hu; [congruence|].
  destruct rest as [|d r].
  - unfold rm_offset. cbn [digits combine fold_left fst snd]. lia.
  - rewrite digits_cons2. rewrite lprod_cons in Hu.
    assert (lprod (d :: r) <> 0) as HP by (intros E; rewrite E in Hu; lia).
    rewrite rm_offset_cons by (apply digits_length; discriminate).
    rewrite IH by (try discriminate; apply Nat.mod_upper_bound; exact HP).
    pose proof (Nat.div_mod u (lprod (d :: r)) HP) as HD. lia.
Qed.

Lemma digits_bound dims : dims <> [] -> forall u k, u < lprod dims -> k < length dims ->
  nth k (digits dims u) 0 < nth k dims 0.
Proof.
  induction dims as [|c rest IH]; intros NE u k Hu Hk; [congruence|].
  destruct rest as [|d r].
  - cbn [length] in Hk. assert (k = 0) as -> by lia. cbn [digits nth].
    cbn [lprod fold_right] in Hu. lia.
  - rewrite digits_cons2. rewrite lprod_cons in Hu.
    assert (lprod (d :: r) <> 0) as HP by (intros E; rewrite E in Hu; lia).
    destruct k as [|k']; cbn [nth].
    + apply Nat.div_lt_upper_bound; [exact HP|]. rewrite Nat.mul_comm. exact Hu.
    + apply IH; [discriminate| apply Nat.mod_upper_bound; exact HP |].
      cbn [length] in Hk |- *. lia.
Qed.

(* ---------------------------------------------------------------- locating a position in blocks *)
Lemma concat_locate {A} (B : nat -> list A) m : forall t, t < length (concat (map B (seq 0 m))) ->
  exists o u, o < m /\ u < length (B o) /\
              t = nsum (map (fun o' => length (B o')) (seq 0 o)) + u /\
              forall d, nth t (concat (map B (seq 0 m))) d = nth u (B o) d.
Proof.
  induction m as [|m IH]; intros t Ht.
  - cbn [seq map concat length] in Ht. lia.
  - assert (concat (map B (seq 0 (S m))) = concat (map B (seq 0 m)) ++ B m) as E.
    { rewrite seq_S, map_app, concat_app. cbn [Nat.add map concat]. rewrite app_nil_r. reflexivity. }
    rewrite E in Ht. rewrite app_length in Ht.
    destruct (Nat.lt_ge_cases t (length (concat (map B (seq 0 m))))) as [Hlt|Hge].
    + destruct (IH t Hlt) as (o & u & Ho & Hu & Et & En). exists o, u.
      split; [lia|]. split; [exact Hu|]. split; [exact Et|].
      intros d. rewrite E, app_nth1 by exact Hlt. apply En.
    + exists m, (t - length (concat (map B (seq 0 m)))).
      split; [lia|]. split; [lia|]. split.
      * rewrite <- length_concat_map. lia.
      * intros d. rewrite E. apply app_nth2. lia.
Qed.

Lemma fwd_blocks counts o : rect (length (hd [] counts)) counts -> o < length (hd [] counts) ->
  nsum (firstn o (col_prods (length (hd [] counts)) counts))
  = nsum (map (fun o' => length (blk counts o')) (seq 0 o)).
Proof.
  intros HR Ho. set (m := length (hd [] counts)) in *. set (prods := col_prods m counts).
  pose proof (prods_length counts HR) as LP. fold m in LP. fold prods in LP.
  rewrite <- (map_getn_seq prods), LP. rewrite firstn_map, firstn_seq0 by lia. f_equal.
  apply map_ext_in. intros o' Ho'. apply in_seq in Ho'. symmetry. apply (blk_length counts HR). fold m. lia.
Qed.

(* ---------------------------------------------------------------- the address identity *)
Theorem indexes_address : forall counts : list (list nat),
  counts <> [] -> (forall row, In row counts -> length row = length (hd [] counts)) ->
  let '(len, fwd, rev, idx) := indexes counts in
  forall t, t < len ->
    let o := getn rev t in
    o < length (hd [] counts) /\
    (forall d, d < length counts -> getn (nth d idx []) t < getn (nth d counts []) o) /\
    getn fwd o + rm_offset (column o counts) (map (fun row => getn row t) idx) = t.
Proof.
  intros counts NE HR. rewrite (indexes_rowmajor counts NE HR). unfold indexes_ref.
  cbv beta iota zeta.
  set (m := length (hd [] counts)). set (rs := rows_spec counts). intros t Ht.
  pose proof (rows_spec_blocks counts) as Ers. fold m in Ers. fold rs in Ers.
  destruct (concat_locate (blk counts) m t) as (o & u & Ho & Hu & Et & En).
  { rewrite <- Ers. exact Ht. }
  rewrite <- Ers in En.
  set (dims := column o counts).
  assert (dims <> []) as NC. { unfold dims. destruct counts; [congruence|discriminate]. }
  assert (length dims = length counts) as LD. { unfold dims, column. apply map_length. }
  assert (u < lprod dims) as Hu'. { unfold blk in Hu. rewrite map_length, enum_length in Hu. exact Hu. }
  assert (nth t rs (0, []) = (o, digits dims u)) as Hp.
  { rewrite En. unfold blk. rewrite (nth_map_lt _ _ _ _ []) by (rewrite enum_length; exact Hu').
    f_equal. fold dims. rewrite <- (digits_enum dims NC).
    rewrite (nth_map_lt _ _ _ _ 0) by (rewrite seq_length; exact Hu').
    rewrite seq_nth by exact Hu'. reflexivity. }
  assert (getn (map fst rs) t = o) as Eo.
  { unfold getn. rewrite (nth_map_lt _ _ _ _ (0, [])) by exact Ht. rewrite Hp. reflexivity. }
  rewrite Eo. fold dims.
  assert (forall d, getn (map (fun p : nat * list nat => getn (snd p) d) rs) t = nth d (digits dims u) 0) as Ecell.
  { intros d. unfold getn at 1. rewrite (nth_map_lt _ _ _ _ (0, [])) by exact Ht. rewrite Hp. reflexivity. }
  split; [exact Ho|]. split.
  - intros d Hd. rewrite (nth_map_lt _ _ _ _ 0) by (rewrite seq_length; exact Hd).
    rewrite seq_nth by exact Hd. cbn [Nat.add]. rewrite Ecell.
    replace (getn (nth d counts []) o) with (nth d dims 0).
    + apply digits_bound; [exact NC|exact Hu'|lia].
    + unfold dims, column. apply (nth_map_lt (fun row => getn row o) counts d 0 []). exact Hd.
  - assert (map (fun row => getn row t)
                (map (fun d => map (fun p : nat * list nat => getn (snd p) d) rs) (seq 0 (length counts)))
            = digits dims u) as Ecoords.
    { rewrite map_map.
      transitivity (map (fun d => nth d (digits dims u) 0) (seq 0 (length counts))).
      - apply map_ext. intros d. apply Ecell.
      - rewrite <- LD, <- (digits_length dims NC u). apply map_seq_nth. }
    rewrite Ecoords, (rm_offset_digits dims NC u Hu').
    unfold getn. rewrite (nth_map_lt _ _ _ _ 0) by (rewrite seq_length; exact Ho).
    rewrite seq_nth by exact Ho. cbn [Nat.add].
    unfold rs. rewrite (ref_fwd counts HR o Ho). rewrite (fwd_blocks counts o HR Ho). lia.
Qed.

(* boolean sweep of the three conjuncts over every position t *)
Definition address_check (counts : list (list nat)) : bool :=
  let '(len, fwd, rev, idx) := indexes counts in
  forallb (fun t =>
    let o := getn rev t in
    (o <? length (hd [] counts)) &&
    forallb (fun d => getn (nth d idx []) t <? getn (nth d counts []) o) (seq 0 (length counts)) &&
    (getn fwd o + rm_offset (column o counts) (map (fun row => getn row t) idx) =? t)) (seq 0 len).

Example indexes_address_ex :
  let counts := [[2; 0; 3]; [1; 4; 2]] in
  address_check counts = true /\
  (* position t = 5 : object 2, coordinates (1, 1) inside shape (3, 2), 2 + (1 * 2 + 1) = 5 *)
  (let '(len, fwd, rev, idx) := indexes counts in
   len = 8 /\ getn rev 5 = 2 /\ map (fun row => getn row 5) idx = [1; 1] /\ column 2 counts = [3; 2] /\
   getn fwd 2 = 2 /\ rm_offset [3; 2] [1; 1] = 3).
Proof. vm_compute. repeat split; reflexivity. Qed.

Example indexes_address_sweeps :
  address_check [[2; 0; 3]; [1; 4; 2]; [3; 1; 2]] = true /\ address_check [[2; 0; 3]] = true /\
  address_check [[0; 0]] = true.
Proof. vm_compute. repeat split; reflexivity. Qed.

Print Assumptions indexes_address.
