(* C02 — soundness of the hull checker and extremality of accepted vertices. *)
From Coq Require Import ZArith List Bool Lia ZifyBool.
From Centro Require Import Base.Sx Model.Hull Spec.HullSpec.
Import ListNotations.
Open Scope Z_scope.

Lemma pt_eqb_eq a b : pt_eqb a b = true <-> a = b.
Proof.
  destruct a as [a1 a2], b as [b1 b2]. unfold pt_eqb. cbn [fst snd]. split.
  - intros H. f_equal; lia.
  - intros H. inversion H. subst. lia.
Qed.

Lemma mem_pt_In a l : mem_pt a l = true <-> In a l.
Proof.
  unfold mem_pt. rewrite existsb_exists. split.
  - intros [x [Hx E]]. apply pt_eqb_eq in E. subst. exact Hx.
  - intros H. exists a. split; auto. apply pt_eqb_eq. reflexivity.
Qed.

Lemma nodup_pt_NoDup l : nodup_pt l = true -> NoDup l.
Proof.
  induction l as [|a l IH]; cbn [nodup_pt]; intros H; constructor.
  - intros Hin. apply mem_pt_In in Hin. rewrite Hin in H. discriminate.
  - apply IH. destruct (mem_pt a l); [discriminate | exact H].
Qed.

Lemma all_triples_spec f l : all_triples f l = true ->
  forall l1 l2 a b c, l = l1 ++ a :: b :: c :: l2 -> f a b c = true.
Proof.
  intros H l1. revert l H. induction l1 as [|x l1 IH]; intros l H l2 a b c E; subst l.
  - cbn in H. apply andb_prop in H. tauto.
  - apply (IH (l1 ++ a :: b :: c :: l2)) with (l2 := l2); auto.
    destruct l1 as [|y [|z l1]]; cbn in H |- *; apply andb_prop in H; tauto.
Qed.

Lemma poly_ok_sound sg S V : poly_ok sg S V = true ->
  forall a b c, consecutive V a b c ->
    0 < sg * cross a b c /\ forall s, In s S -> 0 <= sg * cross a b s /\ 0 <= sg * cross b c s.
Proof.
  intros H a b c [l1 [l2 E]]. unfold poly_ok in H.
  pose proof (all_triples_spec _ _ H l1 l2 a b c E) as T. cbn beta in T.
  apply andb_prop in T. destruct T as [T1 T2]. split; [lia|].
  intros s Hs. rewrite forallb_forall in T2. specialize (T2 s Hs). lia.
Qed.

Theorem hull_ok_sound : forall S V, hull_ok S V = true -> HullSpec S V.
Proof.
  intros S V H. unfold hull_ok in H.
  apply andb_prop in H. destruct H as [H H3]. apply andb_prop in H. destruct H as [H1 H2].
  assert (Hsub : incl V S).
  { intros v Hv. rewrite forallb_forall in H1. apply mem_pt_In. apply H1. exact Hv. }
  assert (Hnd : NoDup V) by (apply nodup_pt_NoDup; exact H2).
  destruct V as [|a [|b [|c V']]].
  - constructor; auto; try discriminate.
    + intros _. destruct S; [reflexivity | discriminate].
    + cbn. lia.
  - constructor; auto; try discriminate.
    + intros a' E s Hs. inversion E. subst a'. rewrite forallb_forall in H3.
      apply pt_eqb_eq. apply H3. exact Hs.
    + cbn. lia.
  - constructor; auto; try discriminate.
    + intros a' b' E s Hs. inversion E. subst a' b'. rewrite forallb_forall in H3.
      specialize (H3 s Hs). unfold on_segment. lia.
    + cbn. lia.
  - constructor; auto; try discriminate.
    intros _. apply orb_prop in H3. destruct H3 as [P|P].
    + exists 1. split; [left; reflexivity|]. apply poly_ok_sound. exact P.
    + exists (-1). split; [right; reflexivity|]. apply poly_ok_sound. exact P.
Qed.

Lemma zlen_firstn {A} (l : list A) c : 0 <= c <= zlen l -> zlen (firstn (Z.to_nat c) l) = c.
Proof. unfold zlen. intros H. rewrite firstn_length. lia. Qed.

Theorem batch_ok_sound : forall ijv indexes rows counts,
  batch_ok ijv indexes rows counts = true -> BatchSpec ijv indexes rows counts.
Proof.
  intros ijv indexes. induction indexes as [|l ix IH]; intros rows counts H.
  - destruct counts; [|discriminate]. destruct rows; [constructor | discriminate].
  - destruct counts as [|c cs]; [discriminate|]. cbn [batch_ok] in H.
    apply andb_prop in H. destruct H as [H12 HX]. apply andb_prop in H12. destruct H12 as [H1 H2].
    cbv zeta in HX. apply andb_prop in HX. destruct HX as [H34 H5].
    apply andb_prop in H34. destruct H34 as [H3 H4].
    rewrite <- (firstn_skipn (Z.to_nat c) rows).
    rewrite <- (zlen_firstn rows c) at 3 by lia.
    constructor.
    + intros r Hr. rewrite forallb_forall in H3. specialize (H3 r Hr). lia.
    + apply hull_ok_sound. exact H4.
    + apply IH. exact H5.
Qed.

Example hull_ok_square :
  hull_ok [(0,0);(1,0);(2,0);(0,1);(1,1);(2,1);(0,2);(1,2);(2,2)] [(0,0);(0,2);(2,2);(2,0)] = true
  /\ hull_ok [(0,0);(1,0);(2,0);(0,1);(1,1);(2,1);(0,2);(1,2);(2,2)] [(0,0);(2,0);(2,2);(0,2)] = true
  /\ hull_ok [(0,0);(1,1);(2,2)] [(0,0);(2,2)] = true
  /\ hull_ok [(0,0);(1,0);(2,0);(0,1);(1,1);(2,1);(0,2);(1,2);(2,2)] [(0,0);(0,2);(2,2);(2,1);(2,0)] = false.
Proof. vm_compute. repeat split. Qed.

Example batch_ok_ex :
  batch_ok [((0,0),2);((1,1),1);((0,3),2);((2,0),1);((3,3),2)] [2;7;1]
           [((2,0),0);((2,0),3);((2,3),3);((1,2),0);((1,1),1)] [3;0;2] = true.
Proof. vm_compute. reflexivity. Qed.

(* ---------------------------------------------------------------- extremality *)

Lemma two_lines (A1 B1 A2 B2 di dj : Z) :
  A1 * di - B1 * dj = 0 -> A2 * di - B2 * dj = 0 -> A1 * B2 - A2 * B1 <> 0 -> di = 0 /\ dj = 0.
Proof.
  intros E1 E2 D.
  assert (F1 : di * (A1 * B2 - A2 * B1) = 0).
  { replace (di * (A1 * B2 - A2 * B1)) with (B2 * (A1 * di - B1 * dj) - B1 * (A2 * di - B2 * dj)) by ring.
    rewrite E1, E2. ring. }
  assert (F2 : dj * (A1 * B2 - A2 * B1) = 0).
  { replace (dj * (A1 * B2 - A2 * B1)) with (A2 * (A1 * di - B1 * dj) - A1 * (A2 * di - B2 * dj)) by ring.
    rewrite E1, E2. ring. }
  apply Z.mul_eq_0 in F1. apply Z.mul_eq_0 in F2. lia.
Qed.

Lemma comb_zero (lam mu X1 X2 sg : Z) :
  0 < lam -> 0 < mu -> sg = 1 \/ sg = -1 -> 0 <= sg * X1 -> 0 <= sg * X2 ->
  lam * X1 + mu * X2 = 0 -> X1 = 0 /\ X2 = 0.
Proof. intros L M [S|S] H1 H2 E; subst sg; nia. Qed.

Lemma in_consecutive V v : In v V -> (3 <= length V)%nat -> exists a c, consecutive V a v c.
Proof.
  intros Hin Hlen. apply in_split in Hin. destruct Hin as [l1 [l2 E]]. unfold consecutive, cyc.
  destruct l1 as [|f l1].
  - (* v is the first vertex: predecessor is the last one *)
    cbn [app] in E. destruct l2 as [|x [|y l2]]; try (subst V; cbn in Hlen; lia).
    destruct (exists_last (l := x :: y :: l2)) as [front [z Ez]]; [discriminate|].
    exists z, x, (v :: front), []. subst V. rewrite Ez.
    change (firstn 2 (v :: front ++ [z])) with (v :: firstn 1 (front ++ [z])).
    replace (firstn 1 (front ++ [z])) with [x].
    + cbn [app]. rewrite <- app_assoc. reflexivity.
    + rewrite <- Ez. reflexivity.
  - destruct (exists_last (l := f :: l1)) as [front [a Ea]]; [discriminate|].
    rewrite Ea in E. rewrite <- app_assoc in E. cbn [app] in E.
    destruct l2 as [|c l2].
    + (* v is the last vertex: successor is the first one *)
      assert (Hf : exists g, firstn 2 V = f :: g).
      { subst V. destruct front as [|f' front]; cbn in Ea |- *.
        - inversion Ea. subst. eexists. reflexivity.
        - inversion Ea. subst. eexists. reflexivity. }
      destruct Hf as [g Hg]. exists a, f, front, g. rewrite Hg. subst V.
      rewrite <- app_assoc. reflexivity.
    + exists a, c, front, (l2 ++ firstn 2 V). rewrite E at 1. rewrite <- app_assoc. reflexivity.
Qed.

Theorem vertex_extreme : forall S V v p q lam mu, HullSpec S V -> In v V -> In p S -> In q S ->
  0 < lam -> 0 < mu ->
  (lam + mu) * fst v = lam * fst p + mu * fst q ->
  (lam + mu) * snd v = lam * snd p + mu * snd q -> p = v /\ q = v.
Proof.
  intros S V v p q lam mu HS Hv Hp Hq Hl Hm Ei Ej.
  destruct V as [|a [|b [|c0 V']]].
  - destruct Hv.
  - destruct Hv as [Hv|[]]. subst a. split; eapply (hs_one S _ HS); eauto.
  - (* two vertices: the pixels lie on the segment *)
    pose proof (hs_two S _ HS a b eq_refl p Hp) as [Cp [Dp0 Dp1]].
    pose proof (hs_two S _ HS a b eq_refl q Hq) as [Cq [Dq0 Dq1]].
    assert (Hab : a <> b).
    { pose proof (hs_nodup S _ HS) as ND. inversion ND as [|x l Hn _]. subst. intros E. apply Hn. left. auto. }
    destruct a as [ai aj], b as [bi bj], p as [pi pj], q as [qi qj], v as [vi vj].
    unfold cross, dot in *. cbn [fst snd] in *.
    assert (Hdet : (bj - aj) * (-(bj - aj)) - (bi - ai) * (bi - ai) <> 0).
    { intros Z0. apply Hab.
      assert (X0 : bj - aj = 0) by (pose proof (Z.square_nonneg (bj - aj)); pose proof (Z.square_nonneg (bi - ai)); nia).
      assert (Y0 : bi - ai = 0) by (pose proof (Z.square_nonneg (bj - aj)); pose proof (Z.square_nonneg (bi - ai)); nia).
      f_equal; lia. }
    destruct Hv as [Hv|[Hv|[]]]; inversion Hv; subst vi vj.
    + assert (Zp : (pi - ai) * (bi - ai) + (pj - aj) * (bj - aj) = 0 /\ (qi - ai) * (bi - ai) + (qj - aj) * (bj - aj) = 0).
      { apply (comb_zero lam mu _ _ 1); auto; try lia.
        replace (lam * ((pi - ai) * (bi - ai) + (pj - aj) * (bj - aj)) + mu * ((qi - ai) * (bi - ai) + (qj - aj) * (bj - aj)))
          with ((lam * pi + mu * qi - (lam + mu) * ai) * (bi - ai) + (lam * pj + mu * qj - (lam + mu) * aj) * (bj - aj)) by ring.
        rewrite <- Ei, <- Ej. ring. }
      destruct Zp as [Zp Zq].
      destruct (two_lines (bj - aj) (bi - ai) (bi - ai) (-(bj - aj)) (pi - ai) (pj - aj)) as [P1 P2]; auto; try (ring_simplify; ring_simplify in Cp; lia).
      destruct (two_lines (bj - aj) (bi - ai) (bi - ai) (-(bj - aj)) (qi - ai) (qj - aj)) as [Q1 Q2]; auto; try (ring_simplify; ring_simplify in Cq; lia).
      split; f_equal; lia.
    + assert (Zp : (pi - bi) * (bi - ai) + (pj - bj) * (bj - aj) = 0 /\ (qi - bi) * (bi - ai) + (qj - bj) * (bj - aj) = 0).
      { apply (comb_zero lam mu _ _ (-1)); auto; try lia.
        replace (lam * ((pi - bi) * (bi - ai) + (pj - bj) * (bj - aj)) + mu * ((qi - bi) * (bi - ai) + (qj - bj) * (bj - aj)))
          with ((lam * pi + mu * qi - (lam + mu) * bi) * (bi - ai) + (lam * pj + mu * qj - (lam + mu) * bj) * (bj - aj)) by ring.
        rewrite <- Ei, <- Ej. ring. }
      destruct Zp as [Zp Zq].
      destruct (two_lines (bj - aj) (bi - ai) (bi - ai) (-(bj - aj)) (pi - bi) (pj - bj)) as [P1 P2]; auto; try lia.
      destruct (two_lines (bj - aj) (bi - ai) (bi - ai) (-(bj - aj)) (qi - bi) (qj - bj)) as [Q1 Q2]; auto; try lia.
      split; f_equal; lia.
  - (* a genuine polygon *)
    remember (a :: b :: c0 :: V') as V eqn:EV.
    assert (Hlen : (3 <= length V)%nat) by (subst V; cbn; lia).
    destruct (in_consecutive V v Hv Hlen) as [u [w Hc]].
    destruct (hs_poly S V HS Hlen) as [sg [Hsg Hall]].
    destruct (Hall u v w Hc) as [Hstrict Hin].
    destruct (Hin p Hp) as [Fp Gp]. destruct (Hin q Hq) as [Fq Gq].
    destruct u as [ui uj], w as [wi wj], p as [pi pj], q as [qi qj], v as [vi vj].
    unfold cross in *. cbn [fst snd] in *.
    assert (ZF : (vj - uj) * (pi - vi) - (pj - vj) * (vi - ui) = 0 /\ (vj - uj) * (qi - vi) - (qj - vj) * (vi - ui) = 0).
    { apply (comb_zero lam mu _ _ sg); auto.
      replace (lam * ((vj - uj) * (pi - vi) - (pj - vj) * (vi - ui)) + mu * ((vj - uj) * (qi - vi) - (qj - vj) * (vi - ui)))
        with ((vj - uj) * (lam * pi + mu * qi - (lam + mu) * vi) - (lam * pj + mu * qj - (lam + mu) * vj) * (vi - ui)) by ring.
      rewrite <- Ei, <- Ej. ring. }
    assert (ZG : (wj - vj) * (pi - wi) - (pj - wj) * (wi - vi) = 0 /\ (wj - vj) * (qi - wi) - (qj - wj) * (wi - vi) = 0).
    { apply (comb_zero lam mu _ _ sg); auto.
      replace (lam * ((wj - vj) * (pi - wi) - (pj - wj) * (wi - vi)) + mu * ((wj - vj) * (qi - wi) - (qj - wj) * (wi - vi)))
        with ((wj - vj) * (lam * pi + mu * qi - (lam + mu) * vi) - (lam * pj + mu * qj - (lam + mu) * vj) * (wi - vi)
              + (lam + mu) * ((wj - vj) * (vi - wi) - (vj - wj) * (wi - vi))) by ring.
      rewrite <- Ei, <- Ej. ring. }
    destruct ZF as [ZFp ZFq]. destruct ZG as [ZGp ZGq].
    assert (Hdet : (vj - uj) * (wi - vi) - (wj - vj) * (vi - ui) <> 0) by (destruct Hsg; subst sg; lia).
    destruct (two_lines (vj - uj) (vi - ui) (wj - vj) (wi - vi) (pi - vi) (pj - vj)) as [P1 P2]; [lia | lia | exact Hdet | ].
    destruct (two_lines (vj - uj) (vi - ui) (wj - vj) (wi - vi) (qi - vi) (qj - vj)) as [Q1 Q2]; [lia | lia | exact Hdet | ].
    split; f_equal; lia.
Qed.

(* a pixel with both vertical neighbours in the set (in particular a pixel all of whose eight
   neighbours carry its label: the ones the outline pre-filter drops) is never a vertex *)
Definition interior (S : list pt) (v : pt) : Prop := In (fst v - 1, snd v) S /\ In (fst v + 1, snd v) S.
Theorem interior_not_vertex : forall S V v, HullSpec S V -> In v V -> ~ interior S v.
Proof.
  intros S V v HS Hv [H1 H2].
  destruct (vertex_extreme S V v _ _ 1 1 HS Hv H1 H2) as [E _]; cbn [fst snd]; try lia.
  destruct v as [vi vj]. cbn [fst snd] in E. inversion E. lia.
Qed.

Example vertex_extreme_ex :
  let S := [(0,0);(1,0);(2,0);(0,1);(1,1);(2,1);(0,2);(1,2);(2,2)] in
  let V := [(0,0);(0,2);(2,2);(2,0)] in
  HullSpec S V /\ In (0,2) V /\ In (0,2) S /\ (1 + 2) * fst (0,2) = 1 * fst (0,2) + 2 * fst (0,2)
  /\ ~ interior S (0,2) /\ interior S (1,1) /\ ~ In (1,1) V.
Proof.
  cbv zeta. split; [apply hull_ok_sound; vm_compute; reflexivity|].
  split; [cbn; tauto|]. split; [cbn; tauto|]. split; [reflexivity|].
  split; [|split].
  - intros [H _]. cbn in H. repeat (destruct H as [H|H]; [inversion H|]). exact H.
  - split; cbn; tauto.
  - intros H. cbn in H. repeat (destruct H as [H|H]; [inversion H|]). exact H.
Qed.
