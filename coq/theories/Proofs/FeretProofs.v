(* C14 — the brute-force Feret specification means what it says: [max_d2] is the largest squared
   distance between two points of S; a width accepted by [feret_min_ok] is the width of an actual
   enclosing strip, and no strip resting on an edge of H is narrower. *)
From Coq Require Import ZArith List Bool Lia ZifyBool.
From Centro Require Import Base.Sx Spec.FeretSpec.
Import ListNotations.
Open Scope Z_scope.

Section FoldMax.
  Variable A : Type.
  Variable f : A -> Z.
  Definition fmax (l : list A) : Z := fold_right (fun x m => Z.max (f x) m) 0 l.
  Lemma fmax_ge l x : In x l -> f x <= fmax l.
  Proof.
    induction l as [|y t IH]; cbn [In fmax fold_right]; [tauto|].
    intros [E|I]; [subst; lia|]. specialize (IH I). unfold fmax in IH. lia.
  Qed.
  Lemma fmax_nonneg l : 0 <= fmax l.
  Proof. induction l as [|y t IH]; cbn [fmax fold_right]; [lia|]. unfold fmax in IH. lia. Qed.
  Lemma fmax_attained l : fmax l = 0 \/ exists x, In x l /\ f x = fmax l.
  Proof.
    induction l as [|y t IH]; cbn [fmax fold_right]; [left; reflexivity|].
    fold (fmax t).
    destruct (Z.max_spec (f y) (fmax t)) as [[L E]|[L E]]; rewrite E.
    - destruct IH as [Z0|[x [I Ex]]]; [left; exact Z0|]. right. exists x. split; [right; exact I|exact Ex].
    - right. exists y. split; [left; reflexivity|reflexivity].
  Qed.
End FoldMax.

Lemma max_from_eq p S : max_from p S = fmax _ (sdist2 p) S.
Proof. reflexivity. Qed.
Lemma max_d2_eq S : max_d2 S = fmax _ (fun p => max_from p S) S.
Proof. reflexivity. Qed.

Lemma sdist2_refl p : sdist2 p p = 0.
Proof. unfold sdist2. lia. Qed.

Theorem feret_max_spec S :
  (forall p q, In p S -> In q S -> sdist2 p q <= max_d2 S) /\
  (S <> [] -> exists p q, In p S /\ In q S /\ sdist2 p q = max_d2 S).
Proof.
  split.
  - intros p q Ip Iq. rewrite max_d2_eq.
    pose proof (fmax_ge _ (fun p => max_from p S) S p Ip) as G. cbv beta in G.
    pose proof (fmax_ge _ (sdist2 p) S q Iq) as G2. rewrite <- max_from_eq in G2. lia.
  - intro NE. rewrite max_d2_eq.
    destruct (fmax_attained _ (fun p => max_from p S) S) as [Z0|[p [Ip Ep]]].
    + destruct S as [|a t]; [congruence|]. exists a, a.
      split; [left; reflexivity|]. split; [left; reflexivity|]. rewrite Z0. apply sdist2_refl.
    + cbv beta in Ep. rewrite max_from_eq in Ep.
      destruct (fmax_attained _ (sdist2 p) S) as [Z0|[q [Iq Eq]]].
      * exists p, p. split; [exact Ip|]. split; [exact Ip|]. rewrite sdist2_refl. lia.
      * exists p, q. split; [exact Ip|]. split; [exact Iq|]. lia.
Qed.

(* ------------------------------------------------------------------ minimum *)

(* an enclosing strip: every point of S has lo <= <p,u> <= hi *)
Definition Strip (S : list spt) (u : Z * Z) (lo hi : Z) : Prop :=
  forall p, In p S -> lo <= fst u * fst p + snd u * snd p <= hi.

Lemma reach_eq S a b : reach S a b = fmax _ (fun p => Z.abs (side p a b)) S.
Proof. reflexivity. Qed.

Lemma supports_spec S a b sg : supports S a b sg = true -> forall p, In p S -> 0 <= sg * side p a b.
Proof. unfold supports. intros H p I. rewrite forallb_forall in H. specialize (H p I). lia. Qed.

Lemma edge_sign_spec S a b sg : edge_sign S a b = Some sg ->
  (sg = 1 \/ sg = -1) /\ forall p, In p S -> 0 <= sg * side p a b.
Proof.
  unfold edge_sign. destruct (supports S a b 1) eqn:E1.
  - intro H. inversion H; subst. split; [left; reflexivity|]. apply supports_spec. exact E1.
  - destruct (supports S a b (-1)) eqn:E2; [|discriminate].
    intro H. inversion H; subst. split; [right; reflexivity|]. apply supports_spec. exact E2.
Qed.

(* the strip resting on a supporting edge: normal u, lo = <a,u>, hi = lo + reach *)
Lemma edge_strip S a b sg : (sg = 1 \/ sg = -1) -> (forall p, In p S -> 0 <= sg * side p a b) ->
  let u := (sg * - (snd b - snd a), sg * (fst b - fst a)) in
  let lo := fst u * fst a + snd u * snd a in
  Strip S u lo (lo + reach S a b) /\ fst u * fst u + snd u * snd u = sdist2 a b.
Proof.
  intros Sg Pos u lo. split.
  - intros p I. specialize (Pos p I).
    pose proof (fmax_ge _ (fun p => Z.abs (side p a b)) S p I) as G. cbv beta in G.
    rewrite <- reach_eq in G.
    assert (E : fst u * fst p + snd u * snd p - lo = sg * side p a b).
    { unfold lo, u, side. cbn [fst snd]. ring. }
    destruct Sg; subst sg; lia.
  - unfold u, sdist2. cbn [fst snd]. destruct Sg; subst sg; ring.
Qed.

Lemma mem_pt_In p S : mem_pt p S = true -> In p S.
Proof.
  unfold mem_pt. intro H. apply existsb_exists in H. destruct H as [q [I E]].
  destruct p, q. cbn [fst snd] in E. assert (z = z1 /\ z0 = z2) as [-> ->] by lia. exact I.
Qed.

Theorem feret_min_strip S H a b wn wd :
  feret_min_ok S H a b wn wd = true ->
  0 < wd /\
  (* W = wn/wd is the squared width of an enclosing strip ... *)
  (exists u lo hi, u <> (0, 0) /\ Strip S u lo hi /\
                   (hi - lo) * (hi - lo) * wd = wn * (fst u * fst u + snd u * snd u)) /\
  (* ... and every edge of H joins two points of S, carries an enclosing strip resting on it, and
     that strip is at least as wide *)
  (forall a' b', In (a', b') (edges H) ->
     In a' S /\ In b' S /\
     exists u lo hi, u <> (0, 0) /\ Strip S u lo hi /\ lo = fst u * fst a' + snd u * snd a' /\
                     lo = fst u * fst b' + snd u * snd b' /\
                     wn * (fst u * fst u + snd u * snd u) <= (hi - lo) * (hi - lo) * wd).
Proof.
  unfold feret_min_ok. intro K.
  apply andb_true_iff in K. destruct K as [K Eq].
  apply andb_true_iff in K. destruct K as [K All].
  apply andb_true_iff in K. destruct K as [Wd Ex].
  rewrite forallb_forall in All.
  assert (Edge : forall a' b', In (a', b') (edges H) ->
            In a' S /\ In b' S /\ 0 < sdist2 a' b' /\
            (exists sg, (sg = 1 \/ sg = -1) /\ forall p, In p S -> 0 <= sg * side p a' b') /\
            wn * sdist2 a' b' <= reach S a' b' * reach S a' b' * wd).
  { intros a' b' I. specialize (All _ I). cbn [fst snd] in All.
    apply andb_true_iff in All. destruct All as [All W].
    apply andb_true_iff in All. destruct All as [All Sg].
    apply andb_true_iff in All. destruct All as [All D].
    apply andb_true_iff in All. destruct All as [Ma Mb].
    split; [apply mem_pt_In; exact Ma|]. split; [apply mem_pt_In; exact Mb|].
    split; [lia|]. split; [|lia].
    destruct (edge_sign S a' b') as [sg|] eqn:Es; [|discriminate].
    exists sg. apply edge_sign_spec. exact Es. }
  split; [lia|]. split.
  - apply existsb_exists in Ex. destruct Ex as [[a0 b0] [I E]]. cbn [fst snd] in E.
    assert (a0 = a) by (destruct a0, a; cbn [fst snd] in E; f_equal; lia).
    assert (b0 = b) by (destruct b0, b; cbn [fst snd] in E; f_equal; lia).
    subst a0 b0.
    destruct (Edge a b I) as (_ & _ & D & [sg [Sg Pos]] & _).
    destruct (edge_strip S a b sg Sg Pos) as [St N]. cbv zeta in St, N.
    eexists. eexists. eexists. split; [|split; [exact St|]].
    + intro E0. rewrite E0 in N. cbn [fst snd] in N. lia.
    + rewrite N. ring_simplify. lia.
  - intros a' b' I. destruct (Edge a' b' I) as (Ia & Ib & D & [sg [Sg Pos]] & W).
    split; [exact Ia|]. split; [exact Ib|].
    destruct (edge_strip S a' b' sg Sg Pos) as [St N]. cbv zeta in St, N.
    eexists. eexists. eexists. split; [|split; [exact St|split; [reflexivity|split]]].
    + intro E0. rewrite E0 in N. cbn [fst snd] in N. lia.
    + cbn [fst snd]. ring.
    + rewrite N. ring_simplify. lia.
Qed.

(* satisfiable on a non-trivial input: the 3x4 block of pixels, width^2 = 4 resting on the long edge *)
Example feret_min_ok_example :
  feret_min_ok [(0,0); (0,1); (0,2); (0,3); (1,0); (1,1); (1,2); (1,3); (2,0); (2,1); (2,2); (2,3)]
               [(0,0); (0,3); (2,3); (2,0)] (0,0) (0,3) 4 1 = true.
Proof. vm_compute. reflexivity. Qed.
