(* C08 — facts about the rule-closed set on any region graph (parents of changed regions are
   objects; a changed region touches at most one unchanged object; every changed region of a
   connected image has a parent) and the second worklist walk of fill_labeled_holes_loop
   (Model.FillHoles.step2 / run2): every changed region ends up labelled with an unchanged object
   adjacent to its cluster, whatever the stack order. *)
From Coq Require Import ZArith List Bool Lia ZifyBool.
From Centro Require Import Base.FillZMap Model.FillHoles Spec.FillHoles.
Import ListNotations.
Open Scope Z_scope.

Section Graph.
Variable edges : list (Z * Z).
Variable lcount : Z.
Variable todo0 : list Z.

Notation U := (Unch edges todo0 lcount).
Notation obj := (isobj lcount).
Notation Cl := (Cluster edges todo0 lcount).
Notation Par := (Parent edges todo0 lcount).

(* two background components are never 4-adjacent (they would be one component) *)
Definition no_bg_bg : Prop := forall i j, In (i, j) edges -> obj i = false -> obj j = true.
Definition symmetric : Prop := forall i j, In (i, j) edges -> In (j, i) edges.

Lemma parent_is_object k w : no_bg_bg -> U k -> ~ U w -> In (k, w) edges -> obj k = true.
Proof.
  intros Hbb Uk Nw E. destruct (obj k) eqn:Ok; [reflexivity|].
  exfalso. apply Nw. apply (Unch_obj_bg edges todo0 lcount k w); auto. apply (Hbb k w); auto.
Qed.

Lemma region_parents_le_one w k1 k2 :
  ~ U w -> U k1 -> U k2 -> obj k1 = true -> obj k2 = true -> In (k1, w) edges -> In (k2, w) edges -> k1 = k2.
Proof.
  intros Nw U1 U2 O1 O2 E1 E2. destruct (Z.eq_dec k1 k2) as [E|N]; [exact E|].
  exfalso. apply Nw. apply (Unch_two edges todo0 lcount k1 k2 w); auto.
Qed.

Lemma cluster_trans v w x : Cl v w -> Cl w x -> Cl v x.
Proof.
  intros A B. induction B as [|y x B IH E N]; [exact A|].
  apply (Cl_step edges todo0 lcount v y x); auto.
Qed.

Lemma cluster_changed v w : ~ U v -> Cl v w -> ~ U w.
Proof. intros Nv C. destruct C; auto. Qed.

Lemma cluster_sym v w : symmetric -> ~ U v -> Cl v w -> Cl w v.
Proof.
  intros Hs Nv C. induction C as [|y x C IH E N]; [constructor|].
  apply (cluster_trans x y v); [|exact IH].
  apply (Cl_step edges todo0 lcount x x y); [constructor|apply Hs; exact E|].
  apply (cluster_changed v y); auto.
Qed.

Lemma parent_move v w k : Cl v w -> Par w k -> Par v k.
Proof.
  intros C [Uk [Ok [x [Cx Ex]]]]. split; [auto|split; [auto|]]. exists x. split; [|auto].
  apply (cluster_trans v w x); auto.
Qed.

(* every region is reachable from the border through adjacent regions: the image is connected *)
Inductive Conn : Z -> Prop :=
| Conn_border v : In v todo0 -> Conn v
| Conn_step u v : Conn u -> In (u, v) edges -> Conn v.

Lemma changed_has_parent : symmetric -> no_bg_bg -> (forall v, U v \/ ~ U v) ->
  forall v, Conn v -> U v \/ exists k, Par v k.
Proof.
  intros Hs Hbb Dec v C. induction C as [v Hb|u v C IH E].
  - left. apply Unch_border; auto.
  - destruct (Dec v) as [Uv|Nv]; [left; auto|]. right.
    destruct (Dec u) as [Uu|Nu].
    + exists u. split; [auto|]. split; [apply (parent_is_object u v); auto|].
      exists v. split; [constructor|auto].
    + destruct IH as [Uu|[k Pk]]; [contradiction|]. exists k.
      apply (parent_move v u k); [|exact Pk].
      apply (Cl_step edges todo0 lcount v v u); [constructor|apply Hs; auto|auto].
Qed.

End Graph.

Section Walk2.
Variable adj : Z -> list Z.
Variable edges : list (Z * Z).
Variable lcount : Z.
Variable todo0 : list Z.
Variable nh : zmap bool.
Variable anh0 : zmap Z.
Hypothesis Hadj : forall i j, In j (adj i) <-> In (i, j) edges.
Hypothesis Hsym : symmetric edges.
Hypothesis Hnh : forall v, getb nh v = true <-> Unch edges todo0 lcount v.
(* what the first walk leaves in adjacent_non_hole *)
Hypothesis Hanh_sound : forall v k, getz anh0 v = k -> k <> 0 ->
  isobj lcount k = true /\ Unch edges todo0 lcount k /\ In (k, v) edges.
Hypothesis Hanh_complete : forall k w, Unch edges todo0 lcount k -> isobj lcount k = true ->
  In (k, w) edges -> ~ Unch edges todo0 lcount w -> getz anh0 w <> 0.

Notation U := (Unch edges todo0 lcount).
Notation obj := (isobj lcount).
Notation Cl := (Cluster edges todo0 lcount).
Notation Par := (Parent edges todo0 lcount).
Notation step := (step2 adj nh).

Lemma nh_false v : getb nh v = false <-> ~ U v.
Proof. rewrite <- Hnh. destruct (getb nh v); split; congruence. Qed.

Record Inv2 (proc : Z -> Prop) (s : vst) : Prop := {
  j_par : forall v, getb nh v = false -> getz (v_anh s) v <> 0 -> Par v (getz (v_anh s) v);
  j_nz0 : forall v, getz anh0 v <> 0 -> getz (v_anh s) v <> 0;
  j_todo : forall v, In v (v_todo s) -> getb nh v = false /\ getz (v_anh s) v <> 0;
  j_cur : forall ii rest, v_cur s = Some (ii, rest) ->
            getb nh ii = false /\ getz (v_anh s) ii <> 0 /\
            exists pre, adj ii = pre ++ rest /\ forall jj, In jj pre -> getb nh jj = false -> getz (v_anh s) jj <> 0;
  j_proc : forall ii, proc ii -> forall jj, In jj (adj ii) -> getb nh jj = false -> getz (v_anh s) jj <> 0;
  j_cover : forall v, getb nh v = false -> getz (v_anh s) v <> 0 ->
            In v (v_todo s) \/ proc v \/ exists rest, v_cur s = Some (v, rest)
}.

Lemma inv2_step proc s : Inv2 proc s -> exists proc', Inv2 proc' (step s).
Proof.
  intros I. unfold step2. destruct (v_cur s) as [[ii [|jj rest]]|] eqn:C.
  - (* the scan of ii is complete *)
    destruct (j_cur proc s I ii [] C) as [Nii [Aii [pre [Eadj Hpre]]]]. rewrite app_nil_r in Eadj.
    exists (fun x => proc x \/ x = ii).
    constructor; cbn [v_anh v_todo v_cur]; try apply I.
    + intros; discriminate.
    + intros i0 [Hp| ->] jj Hj Nj; [apply (j_proc proc s I i0); auto|]. apply Hpre; auto. rewrite <- Eadj; auto.
    + intros v Nv Av. destruct (j_cover proc s I v Nv Av) as [H|[H|[r0 H]]]; [left; auto|right; left; left; auto|].
      rewrite C in H. inversion H; subst. right; left; right; reflexivity.
  - destruct (j_cur proc s I ii (jj :: rest) C) as [Nii [Aii [pre [Eadj Hpre]]]].
    assert (Ijj : In jj (adj ii)) by (rewrite Eadj; apply in_or_app; right; left; auto).
    destruct (negb (getb nh jj) && (getz (v_anh s) jj =? 0)) eqn:Cond.
    + (* jj is a changed region without a label: it inherits ii's *)
      apply andb_prop in Cond as [Njj Ajj]. apply negb_true_iff in Njj. apply Z.eqb_eq in Ajj.
      assert (Nij : ii <> jj) by (intros ->; congruence).
      assert (Keep : forall v, getz (v_anh s) v <> 0 -> getz (zset (v_anh s) jj (getz (v_anh s) ii)) v = getz (v_anh s) v).
      { intros v Hv. apply getz_set_other. intros ->. congruence. }
      assert (NZ : forall v, getz (v_anh s) v <> 0 -> getz (zset (v_anh s) jj (getz (v_anh s) ii)) v <> 0).
      { intros v Hv. rewrite Keep; auto. }
      exists proc. constructor; cbn [v_anh v_todo v_cur].
      * intros v Nv Av. destruct (Z.eq_dec v jj) as [->|N].
        -- rewrite getz_set_same. apply (parent_move edges lcount todo0 jj ii).
           ++ apply (Cl_step edges todo0 lcount jj jj ii); [constructor| |apply nh_false; auto].
              apply Hsym. apply Hadj; auto.
           ++ apply (j_par proc s I); auto.
        -- rewrite getz_set_other in Av |- * by auto. apply (j_par proc s I); auto.
      * intros v Hv. apply NZ. apply (j_nz0 proc s I); auto.
      * intros v [<-|Hv]; [split; [auto|rewrite getz_set_same; auto]|].
        destruct (j_todo proc s I v Hv) as [A B]. split; auto.
      * intros i0 r0 E. inversion E; subst i0 r0. split; [auto|]. split; [apply NZ; auto|].
        exists (pre ++ [jj]). split; [rewrite Eadj, <- app_assoc; reflexivity|].
        intros x Hx Nx. apply in_app_or in Hx as [Hx|[<-|[]]]; [apply NZ; auto|rewrite getz_set_same; auto].
      * intros i0 Hp x Hx Nx. apply NZ. apply (j_proc proc s I i0); auto.
      * intros v Nv Av. destruct (Z.eq_dec v jj) as [->|N]; [left; left; auto|].
        rewrite getz_set_other in Av by auto.
        destruct (j_cover proc s I v Nv Av) as [H|[H|[r0 H]]]; [left; right; auto|right; left; auto|].
        rewrite C in H. inversion H; subst. right; right. eauto.
    + exists proc. constructor; cbn [v_anh v_todo v_cur]; try apply I.
      * intros i0 r0 E. inversion E; subst i0 r0. split; [auto|]. split; [auto|].
        exists (pre ++ [jj]). split; [rewrite Eadj, <- app_assoc; reflexivity|].
        intros x Hx Nx. apply in_app_or in Hx as [Hx|[<-|[]]]; [auto|].
        rewrite Nx in Cond. cbn [negb andb] in Cond. apply Z.eqb_neq in Cond. exact Cond.
      * intros v Nv Av. destruct (j_cover proc s I v Nv Av) as [H|[H|[r0 H]]]; [left; auto|right; left; auto|].
        rewrite C in H. inversion H; subst. right; right. eauto.
  - destruct (v_todo s) as [|ii t] eqn:T; [exists proc; exact I|].
    exists proc. constructor; cbn [v_anh v_todo v_cur]; try apply I.
    + intros v Hv. apply (j_todo proc s I). rewrite T. right; auto.
    + intros i0 r0 E. inversion E; subst i0 r0.
      destruct (j_todo proc s I ii) as [A B]; [rewrite T; left; auto|].
      split; [auto|]. split; [auto|]. exists []. split; [reflexivity|intros x []].
    + intros v Nv Av. destruct (j_cover proc s I v Nv Av) as [H|[H|[r0 H]]]; [|right; left; auto|congruence].
      rewrite T in H. destruct H as [<-|H]; [right; right; eauto|left; auto].
Qed.

Lemma inv2_run fuel : forall proc s, Inv2 proc s -> exists proc', Inv2 proc' (run2 adj fuel nh s).
Proof.
  induction fuel as [|f IH]; intros proc s I; cbn [run2]; destruct (finished2 s); eauto.
  destruct (inv2_step proc s I) as [proc' I']. apply (IH proc'); auto.
Qed.

Lemma inv2_init n : (forall v, getz anh0 v <> 0 -> 0 <= v < Z.of_nat n) ->
  Inv2 (fun _ => False) (init2 n nh anh0).
Proof.
  intros Hrange. unfold init2. rewrite frev_rev. constructor; cbn [v_anh v_todo v_cur].
  - intros v Nv Av. destruct (Hanh_sound v _ eq_refl Av) as [Ok [Uk Ek]].
    split; [auto|]. split; [auto|]. exists v. split; [constructor|auto].
  - auto.
  - intros v Hv. apply in_rev in Hv. apply filter_In in Hv as [_ Hv].
    apply andb_prop in Hv as [A B]. apply negb_true_iff in A. apply negb_true_iff in B.
    apply Z.eqb_neq in B. auto.
  - intros; discriminate.
  - intros ii [].
  - intros v Nv Av. left. apply -> in_rev. apply filter_In. split.
    + apply zseq_In. specialize (Hrange v Av). lia.
    + rewrite Nv. cbn [negb andb]. apply negb_true_iff. apply Z.eqb_neq. auto.
Qed.

(* The second walk: at exit every changed region that has a parent at all carries the label of an
   unchanged object adjacent to its cluster. *)
Theorem walk2_labels fuel n : (forall v, getz anh0 v <> 0 -> 0 <= v < Z.of_nat n) ->
  let s := run2 adj fuel nh (init2 n nh anh0) in
  finished2 s = true ->
  forall v, ~ U v -> (exists k, Par v k) -> Par v (getz (v_anh s) v).
Proof.
  intros Hrange s F v Nv [k [Uk [Ok [w [Cw Ew]]]]].
  destruct (inv2_run fuel _ _ (inv2_init n Hrange)) as [proc I]. fold s in I.
  assert (Fin : v_cur s = None /\ v_todo s = []).
  { unfold finished2 in F. destruct (v_cur s); destruct (v_todo s); try discriminate; auto. }
  destruct Fin as [Ec Et].
  assert (P : forall x, getb nh x = false -> getz (v_anh s) x <> 0 -> proc x).
  { intros x Nx Ax. destruct (j_cover proc s I x Nx Ax) as [H|[H|[r0 H]]]; auto; [rewrite Et in H; destruct H|congruence]. }
  apply (j_par proc s I); [apply nh_false; auto|].
  (* w carries a label since the first walk; labels travel back along the cluster path to v *)
  assert (Nw : ~ U w) by (apply (cluster_changed edges lcount todo0 v w); auto).
  assert (Aw : getz (v_anh s) w <> 0) by (apply (j_nz0 proc s I), (Hanh_complete k w); auto).
  clear Ew. induction Cw as [|y x Cy IH E N]; [exact Aw|].
  assert (Ny : ~ U y) by (apply (cluster_changed edges lcount todo0 v y); auto).
  apply IH; [exact Ny|].
  apply (j_proc proc s I x).
  - apply P; [apply nh_false; auto|exact Aw].
  - apply Hadj. apply Hsym. exact E.
  - apply nh_false; exact Ny.
Qed.

(* the property text's case: when the cluster has a single unchanged neighbour, that is the label *)
Corollary walk2_unique fuel n k : (forall v, getz anh0 v <> 0 -> 0 <= v < Z.of_nat n) ->
  let s := run2 adj fuel nh (init2 n nh anh0) in
  finished2 s = true ->
  forall v, ~ U v -> Par v k -> (forall k', Par v k' -> k' = k) -> getz (v_anh s) v = k.
Proof.
  intros Hrange s F v Nv Pk Uniq. apply Uniq. apply (walk2_labels fuel n Hrange F v Nv). exists k; auto.
Qed.

End Walk2.
