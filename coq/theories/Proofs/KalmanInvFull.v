(* C09 — inv_n is a two-sided inverse for EVERY size (no symmetry needed), from det A^T = det A. *)
From Coq Require Import ZArith List Bool Lia Arith QArith Qcanon Permutation Field.
From Centro Require Import Model.Kalman Spec.Kalman Proofs.KalmanArith Proofs.KalmanLists
  Proofs.KalmanAlg Proofs.KalmanAssoc Proofs.KalmanDetBase Proofs.KalmanDetRow Proofs.KalmanDetAlt
  Proofs.KalmanDetTrans Proofs.KalmanAdj Proofs.KalmanSym.
Import ListNotations.
Open Scope Qc_scope.

Section Square.
Variables (A : mat) (n : nat).
Hypothesis Hn : (1 <= n)%nat.
Hypothesis L : length A = n.
Hypothesis HF : Forall (fun row => length row = n) A.

Let Nc : ncols A = n := proj1 (ncols_shape A n Hn L HF).
Let Hne : A <> [] := proj2 (ncols_shape A n Hn L HF).

Lemma mtrans_length : length (mtrans A) = n.
Proof. unfold mtrans. rewrite map_length, seq_length. exact Nc. Qed.
Lemma mtrans_rows : Forall (fun row => length row = n) (mtrans A).
Proof.
  unfold mtrans. apply Forall_forall. intros row Hin. apply in_map_iff in Hin. destruct Hin as [j [<- _]].
  rewrite col_length. exact L.
Qed.
Lemma entry_mtrans a b : (a < n)%nat -> (b < n)%nat -> entry (mtrans A) a b = entry A b a.
Proof.
  intros Ha Hb. unfold entry, mtrans. rewrite (nth_map_lt _ _ _ O) by (rewrite seq_length, Nc; exact Ha).
  rewrite seq_nth by (rewrite Nc; exact Ha). cbn [Nat.add]. unfold col. rewrite (nth_map_lt _ _ _ []) by (rewrite L; exact Hb).
  reflexivity.
Qed.
Theorem det1_mtrans : det1 (mtrans A) = det1 A.
Proof.
  rewrite !det1_ldet, mtrans_length, L. rewrite <- (ldet_transpose n (entry A)). apply ldet_ext.
  intros a b Ha Hb. apply entry_mtrans; assumption.
Qed.
Theorem mtrans_invol : mtrans (mtrans A) = A.
Proof.
  unfold mtrans at 1. rewrite ncols_mtrans by (rewrite Nc; exact Hn).
  transitivity (map (fun j => nth j A []) (seq 0 (length A))); [|apply map_nth_seq_gen].
  apply map_ext_in. intros j Hj. apply in_seq in Hj. apply col_mtrans; [rewrite Nc; exact HF|lia].
Qed.
End Square.

(* a left and a right inverse of the same matrix coincide *)
Lemma left_right_agree (A Lm R : mat) n : (1 <= n)%nat -> length A = n -> Forall (fun row => length row = n) A ->
  Forall (fun row => length row = n) Lm -> length R = n -> Forall (fun row => length row = n) R ->
  mmul Lm A = ident n -> mmul A R = ident n -> Lm = R.
Proof.
  intros Hn LA FA FL LR FR HL HR. destruct (ncols_shape A n Hn LA FA) as [_ Hne].
  destruct (ncols_shape R n Hn LR FR) as [NR _].
  rewrite <- (mmul_ident_r Lm n FL). rewrite <- HR.
  rewrite <- (mmul_assoc Lm A R n Hne); [|rewrite LA; exact FL|exact FA].
  rewrite HL. apply mmul_ident_l; [exact LR|rewrite NR; exact FR].
Qed.

(* inv_n is a left inverse, every size, no symmetry *)
Theorem inv_n_left_inverse (A : mat) n : (1 <= n)%nat -> length A = n ->
  Forall (fun row => length row = n) A -> det1 A <> 0 -> mmul (inv1 A) A = ident n.
Proof.
  intros Hn L HF Hd.
  pose proof (inv_n_right_inverse A n Hn L HF Hd) as HR.
  set (B := mtrans A).
  assert (LB : length B = n) by (apply (mtrans_length A n Hn L HF)).
  assert (FB : Forall (fun row => length row = n) B) by (apply (mtrans_rows A n L)).
  assert (DB : det1 B <> 0) by (unfold B; rewrite (det1_mtrans A n Hn L HF); exact Hd).
  pose proof (inv_n_right_inverse B n Hn LB FB DB) as HB.
  destruct (ncols_shape B n Hn LB FB) as [NB HneB].
  set (RB := inv1 B) in *.
  assert (LRB : length RB = n) by (unfold RB, inv1; rewrite map_length, seq_length; exact LB).
  assert (FRB : Forall (fun row => length row = n) RB) by (unfold RB; rewrite <- LB; apply inv1_rows).
  assert (T : mmul (mtrans RB) A = ident n).
  { pose proof (mtrans_mmul B RB HneB) as T. rewrite NB in T. specialize (T Hn FB).
    rewrite HB, mtrans_ident in T. change (mtrans B) with (mtrans (mtrans A)) in T.
    rewrite (mtrans_invol A n Hn L HF) in T. symmetry. exact T. }
  assert (FL : Forall (fun row => length row = n) (mtrans RB)) by (apply (mtrans_rows RB n LRB)).
  assert (LR : length (inv1 A) = n) by (unfold inv1; rewrite map_length, seq_length; exact L).
  assert (FR : Forall (fun row => length row = n) (inv1 A)) by (rewrite <- L; apply inv1_rows).
  rewrite <- (left_right_agree A (mtrans RB) (inv1 A) n Hn L HF FL LR FR T HR). exact T.
Qed.

(* inv_n_correct, FULL: two-sided inverse for every size *)
Theorem inv_n_correct (A : mat) n : (1 <= n)%nat -> length A = n ->
  Forall (fun row => length row = n) A -> det1 A <> 0 ->
  mmul A (inv1 A) = ident n /\ mmul (inv1 A) A = ident n.
Proof. intros Hn L HF Hd. split; [apply inv_n_right_inverse|apply inv_n_left_inverse]; assumption. Qed.

(* K S = P H^T for every obs_len, from det S <> 0 alone *)
Theorem gain_equation_full H Pp r n :
  let S := innovation_cov H Pp r in
  (1 <= n)%nat -> length S = n -> Forall (fun row => length row = n) S -> det1 S <> 0 ->
  Forall (fun row => length row = n) (mmul Pp (mtrans H)) ->
  mmul (gain H Pp r) S = mmul Pp (mtrans H).
Proof.
  cbn zeta. intros Hn HL HF Hd HM.
  apply (gain_equation_n H Pp r n); try assumption.
  - intro E. rewrite E in HL. cbn [length] in HL. lia.
  - rewrite <- HL. apply inv1_rows.
  - apply inv_n_left_inverse; assumption.
Qed.

(* hypotheses hold on a non-symmetric 5 x 5 matrix *)
Definition ex5 : mat :=
  map (fun i => map (fun j => Q2Qc (inject_Z (Z.of_nat (if Nat.eqb i j then 3 else if Nat.ltb i j then i + j else 0)))) (seq 0 5)) (seq 0 5).
Example inv_n_correct_ex : length ex5 = 5%nat /\ Forall (fun row => length row = 5%nat) ex5 /\ det1 ex5 <> 0 /\ mtrans ex5 <> ex5.
Proof.
  split; [reflexivity|]. split; [vm_compute; repeat constructor|]. split.
  - intro E. apply (f_equal this) in E. vm_compute in E. discriminate.
  - intro E. apply (f_equal (fun m => this (entry m 0 1))) in E. vm_compute in E. discriminate.
Qed.
