(* C10 — the composed chain: int32 code as written (program model, wrap32 after every operation)
   = exact program (no_wrap_below_bound) = line-level model (prog_equals_ll) => minimum-cost flow
   (mcf_model_optimal_if_A_idle), with the premises that are still open listed explicitly. *)
From Coq Require Import ZArith List Bool Lia ZifyBool.
From Centro Require Import Base.Sx Base.EmdBase Spec.Emd Model.Emd Model.EmdCert Model.EmdMcf Model.EmdAsIs Model.EmdP
  Proofs.EmdDuality Proofs.EmdMcfCert Proofs.EmdIndex Proofs.EmdOptimal Proofs.EmdNoWrap Proofs.EmdProgLL Proofs.EmdDist Proofs.EmdModel Proofs.EmdGraphShape.
Import ListNotations.
Open Scope Z_scope.

(* the flagged run is the plain run with a recorded boolean *)
Lemma iter_f_fst : forall k st fl, fst (mcf_iter_f k st fl) = mcf_iter k st.
Proof.
  induction k as [|k IH]; intros st fl; cbn [mcf_iter_f mcf_iter]; [reflexivity|].
  pose proof (IH st fl) as H. destruct (mcf_iter_f k st fl) as [r fl']. cbn [fst] in H. rewrite <- H.
  destruct r; try reflexivity. apply IH.
Qed.

Lemma mcf_ll_f_fst e c : min_cost_flow_ll e c =
  match min_cost_flow_ll_f e c with Some (d, x, _) => Some (d, x) | None => None end.
Proof.
  unfold min_cost_flow_ll, min_cost_flow_ll_f. rewrite <- (iter_f_fst ssp_levels (mcf_init e c) false).
  destruct (mcf_iter_f ssp_levels (mcf_init e c) false) as [r fl]. cbn [fst]. destruct r; reflexivity.
Qed.

Lemma emd_impl_ll_f_fst ft PO QO Pc Qc Cc emp F0 : emd_impl_ll ft PO QO Pc Qc Cc emp F0 =
  match emd_impl_llf ft PO QO Pc Qc Cc emp F0 with Some (d, F, _) => Some (d, F) | None => None end.
Proof.
  unfold emd_impl_ll, emd_impl_llf. cbv zeta. rewrite mcf_ll_f_fst.
  destruct (min_cost_flow_ll_f _ _) as [[[md x] fl]|]; [|reflexivity].
  destruct (ft =? 2); [|reflexivity]. destruct (transform_flow_to_regular _ _ _); reflexivity.
Qed.

Lemma emd_hat_int32_ll_f_fst p q c pen ft gd : emd_hat_int32_ll p q c pen ft gd =
  match emd_hat_int32_llf p q c pen ft gd with Some (d, F, _) => Some (d, F) | None => None end.
Proof.
  unfold emd_hat_int32_ll, emd_hat_int32_llf. cbv zeta.
  destruct (if (length q <? length p)%nat then _ else _) as [[vp vq] vc].
  unfold emd_hat_ll, emd_hat_llf. cbv zeta.
  destruct gd; rewrite emd_impl_ll_f_fst; destruct (emd_impl_llf _ _ _ _ _ _ _ _) as [[[d F] fl]|]; try reflexivity;
    destruct (ft =? 0); reflexivity.
Qed.

Lemma ll_done_of_f e c md x r fl :
  min_cost_flow_ll e c = Some (md, x) -> mcf_iter_f ssp_levels (mcf_init e c) false = (r, fl) ->
  exists st, r = MDone st /\ x = m_x st /\ md = x_dist (m_x st).
Proof.
  intros H RUN. assert (E : mcf_iter ssp_levels (mcf_init e c) = r)
    by (rewrite <- (iter_f_fst ssp_levels (mcf_init e c) false), RUN; reflexivity).
  revert H. unfold min_cost_flow_ll. rewrite E. clear E RUN. intros H.
  destruct r as [st|st|]; try discriminate. exists st. split; [reflexivity|]. split; congruence.
Qed.

(* solver level, no open premise besides the flag: below the bound, what the int32 solver code returns
   is the Done state of the line-level run, and with the flag clear its capacity flow is a
   minimum-cost flow of the graph it was given *)
Theorem mcf_int32_optimal_below_bound e c md x :
  okp (min_cost_flow_p e c) = true ->
  run wrap32 (min_cost_flow_p e c) = (0, md, x) ->
  length c = length e ->
  (forall l tc, In l c -> In tc l -> (fst tc < length e)%nat /\ 0 <= snd tc) ->
  zsum e = 0 ->
  forall r fl, mcf_iter_f ssp_levels (mcf_init e c) false = (r, fl) -> fl = false ->
  exists st, r = MDone st /\ x = m_x st /\ md = x_dist (m_x st) /\
    let sk := sk_of c in
    let f := capflow c (m_rb st) in
    (forall k, In k (idx sk) -> 0 <= f k) /\
    (forall v, (v < length e)%nat -> gout sk f v = nz e v) /\
    forall g, (forall k, In k (idx sk) -> 0 <= g k) -> (forall v, (v < length e)%nat -> gout sk g v = nz e v) ->
              gcost sk f <= gcost sk g.
Proof.
  intros OK RW LC GC SE r fl RUN FL.
  rewrite (wrapped_run_simulation _ OK) in RW. apply run_min_cost_flow in RW.
  destruct (ll_done_of_f _ _ _ _ _ _ RW RUN) as [st [-> [E2 E1]]].
  destruct (mcf_model_optimal_if_A_idle (length e) c e st fl LC GC eq_refl SE RUN FL) as [A [B C]].
  exists st. split; [reflexivity|]. split; [exact E2|]. split; [exact E1|]. cbv zeta.
  split; [exact A|]. split; [exact B|exact C].
Qed.

(* the distance: below the bound and with the flag clear, the number min_cost_flow as written for int
   returns IS the minimum cost of the graph it was given: it is the cost of a feasible flow and no
   feasible flow is cheaper *)
Theorem mcf_int32_returns_min_cost e c md x :
  okp (min_cost_flow_p e c) = true ->
  run wrap32 (min_cost_flow_p e c) = (0, md, x) ->
  length c = length e ->
  (forall l tc, In l c -> In tc l -> (fst tc < length e)%nat /\ 0 <= snd tc) ->
  zsum e = 0 ->
  forall r fl, mcf_iter_f ssp_levels (mcf_init e c) false = (r, fl) -> fl = false ->
  let sk := sk_of c in
  (exists f, (forall k, In k (idx sk) -> 0 <= f k) /\ (forall v, (v < length e)%nat -> gout sk f v = nz e v) /\ md = gcost sk f) /\
  (forall g, (forall k, In k (idx sk) -> 0 <= g k) -> (forall v, (v < length e)%nat -> gout sk g v = nz e v) -> md <= gcost sk g).
Proof.
  intros OK RW LC GC SE r fl RUN FL. cbv zeta.
  destruct (mcf_int32_optimal_below_bound e c md x OK RW LC GC SE r fl RUN FL) as [st [-> [_ [EM [A [B C]]]]]].
  pose proof (dist_is_capflow_cost (length e) c LC GC e st fl eq_refl RUN FL) as D.
  split.
  - exists (capflow c (m_rb st)). split; [exact A|]. split; [exact B|]. rewrite EM. exact D.
  - intros g G1 G2. rewrite EM, D. apply C; auto.
Qed.

(* end to end.  PROVED: below the bound (no_wrap_b, evaluated per case), a finished run of the int32
   code as written returns exactly the distance and flow of the flagged line-level model.
   REMAINING PREMISES, listed: (flag clear) the run's companion flag is false — evaluated per case;
   (read_back_bookkeeping, incl. x_caps_consistent) from a flag-clear answer of the line-level model
   to "d is the earth mover's distance" — OPEN, taken as a premise on this instance. *)
Theorem emd_int32_correct_below_bound_partial p q c pen ft gd d F :
  no_wrap_b p q c pen ft gd = true ->
  emd_int32_as_written p q c pen ft gd = (0, d, F) ->
  (exists fl, emd_hat_int32_llf p q c pen ft gd = Some (d, F, fl)) /\
  forall d' F', emd_hat_int32_llf p q c pen ft gd = Some (d', F', false) ->           (* flag clear *)
    (emd_hat_int32_llf p q c pen ft gd = Some (d', F', false) ->
       emd_spec p q c (penalty_of c pen) d') ->                                        (* read_back_bookkeeping, open *)
    d' = d /\ F' = F /\ emd_spec p q c (penalty_of c pen) d.
Proof.
  intros NW AW. rewrite (no_wrap_below_bound _ _ _ _ _ _ NW) in AW. apply prog_equals_ll in AW.
  rewrite emd_hat_int32_ll_f_fst in AW.
  destruct (emd_hat_int32_llf p q c pen ft gd) as [[[d0 F0] fl0]|] eqn:E; [|discriminate].
  injection AW as <- <-. split; [exists fl0; reflexivity|].
  intros d' F' H RB. injection H as <- <- ->. repeat split; auto.
Qed.

(* ---------------------------------------------------------------- the graph emd_hat_impl hands to the solver is well formed *)
Lemma fold_max_ge (f : nat -> Z) : forall l a, a <= fold_left (fun a j => if a <? f j then f j else a) l a.
Proof. induction l as [|j l IH]; intros a; cbn [fold_left]; [lia|]. etransitivity; [|apply IH]. destruct (a <? f j) eqn:E; lia. Qed.
Lemma fold_max2_ge (f : nat -> nat -> Z) idx0 : forall l a,
  a <= fold_left (fun a i => fold_left (fun a j => if a <? f i j then f i j else a) idx0 a) l a.
Proof. induction l as [|i l IH]; intros a; cbn [fold_left]; [lia|]. etransitivity; [|apply IH]. apply (fold_max_ge (f i)). Qed.

Lemma red_c_nonneg N maxC reg C : 0 <= maxC -> (forall i j, 0 <= C i j) ->
  forall l, In l (red_c N maxC reg C) -> forall tc, In tc l -> 0 <= snd tc.
Proof.
  intros HM HC l Hl tc Htc. unfold red_c in Hl. cbv zeta in Hl.
  apply in_app_or in Hl. destruct Hl as [Hl|Hl].
  - apply in_map_iff in Hl. destruct Hl as [i [<- _]]. apply in_app_or in Htc. destruct Htc as [H|[<-|[<-|[]]]]; cbn [snd]; try lia.
    apply in_map_iff in H. destruct H as [j [<- _]]. cbn [snd]. apply HC.
  - apply in_app_or in Hl. destruct Hl as [Hl|Hl].
    + apply in_map_iff in Hl. destruct Hl as [i [<- _]]. destruct Htc as [<-|[]]. cbn [snd]. lia.
    + apply in_app_or in Hl. destruct Hl as [[<-|[]]|[<-|[]]].
      * apply in_app_or in Htc. destruct Htc as [H|[<-|[]]]; cbn [snd]; try lia.
        apply in_map_iff in H. destruct H as [j [<- _]]. cbn [snd]. lia.
      * apply in_map_iff in Htc. destruct Htc as [i [<- _]]. cbn [snd]. lia.
Qed.

Lemma rename_cc_wf old c0 : (forall l, In l c0 -> forall tc, In tc l -> 0 <= snd tc) ->
  forall l tc, In l (rename_cc old c0) -> In tc l -> (fst tc < length old)%nat /\ 0 <= snd tc.
Proof.
  intros H l tc Hl Htc. unfold rename_cc in Hl. apply in_map_iff in Hl. destruct Hl as [v [<- _]].
  apply in_flat_map in Htc. destruct Htc as [tc0 [H0 Ht]].
  destruct (index_of (fst tc0) old 0) as [t|] eqn:EI; [|destruct Ht]. destruct Ht as [<-|[]]. cbn [fst snd].
  apply index_of_spec in EI. destruct EI as [_ EI]. rewrite Nat.sub_0_r in EI.
  split; [apply nth_error_Some; rewrite EI; discriminate|].
  destruct (nth_in_or_default v c0 []) as [IN|E]; [apply (H _ IN _ H0)|rewrite E in H0; destruct H0].
Qed.

Theorem reduce_wf Pc Qc Cc emp : length Pc = length Qc -> (forall i j, 0 <= mz Cc i j) ->
  let r := reduce Pc Qc Cc emp in
  length (r_cc r) = length (r_bb r) /\
  (forall l tc, In l (r_cc r) -> In tc l -> (fst tc < length (r_bb r))%nat /\ 0 <= snd tc) /\
  zsum (r_bb r) = 0.
Proof.
  intros LPQ HC. cbv zeta. split; [|split]; [| |apply reduce_balanced; exact LPQ].
  - unfold reduce. cbv zeta. cbn [r_cc r_bb]. unfold rename_cc. rewrite !map_length, !app_length, map_length. reflexivity.
  - unfold reduce. cbv zeta. cbn [r_cc r_bb]. intros l tc Hl Htc.
    match type of Hl with In l (rename_cc ?old ?c0) =>
      assert (W : forall l0, In l0 c0 -> forall tc0, In tc0 l0 -> 0 <= snd tc0);
      [|destruct (rename_cc_wf old c0 W l tc Hl Htc) as [A B]] end.
    + apply red_c_nonneg.
      * apply (fold_max2_ge (fun i j => if zsum Pc <? zsum Qc then mz Cc j i else mz Cc i j) (seq 0 (length Pc)) (seq 0 (length Pc)) 0).
      * intros i j. destruct (zsum Pc <? zsum Qc); apply HC.
    + split; [|exact B]. rewrite !app_length, map_length. rewrite app_length in A. cbn [length] in *. exact A.
Qed.

(* ---------------------------------------------------------------- the distance, end to end down to the reduced graph *)
Definition is_mincost (e : list Z) (c : list (list (nat * Z))) (m : Z) : Prop :=
  let sk := sk_of c in
  (exists f, (forall k, In k (idx sk) -> 0 <= f k) /\ (forall v, (v < length e)%nat -> gout sk f v = nz e v) /\ m = gcost sk f) /\
  (forall g, (forall k, In k (idx sk) -> 0 <= g k) -> (forall v, (v < length e)%nat -> gout sk g v = nz e v) -> m <= gcost sk g).

Lemma ll_min_cost e c md x : length c = length e ->
  (forall l tc, In l c -> In tc l -> (fst tc < length e)%nat /\ 0 <= snd tc) -> zsum e = 0 ->
  min_cost_flow_ll_f e c = Some (md, x, false) -> is_mincost e c md.
Proof.
  intros LC GC SE. unfold min_cost_flow_ll_f.
  destruct (mcf_iter_f ssp_levels (mcf_init e c) false) as [r fl] eqn:RUN. destruct r as [st|st|]; try discriminate.
  intros H. injection H as <- _ ->.
  destruct (mcf_model_optimal_if_A_idle (length e) c e st false LC GC eq_refl SE RUN eq_refl) as [A [B C]].
  pose proof (dist_is_capflow_cost (length e) c LC GC e st false eq_refl RUN eq_refl) as D.
  split.
  - exists (capflow c (m_rb st)). split; [exact A|]. split; [exact B|exact D].
  - intros g G1 G2. rewrite D. apply C; auto.
Qed.

Theorem emd_impl_dist ft PO QO Pc Qc Cc emp F0 d F : length Pc = length Qc -> (forall i j, 0 <= mz Cc i j) ->
  emd_impl_llf ft PO QO Pc Qc Cc emp F0 = Some (d, F, false) ->
  let r := reduce Pc Qc Cc emp in
  exists md, is_mincost (r_bb r) (r_cc r) md /\ d = r_pre r + md + r_diff r * r_pen r.
Proof.
  intros LPQ HC. unfold emd_impl_llf. cbv zeta.
  destruct (reduce_wf Pc Qc Cc emp LPQ HC) as [L [G S]]. cbv zeta in L, G, S.
  destruct (min_cost_flow_ll_f (r_bb (reduce Pc Qc Cc emp)) (r_cc (reduce Pc Qc Cc emp))) as [[[md x] fl]|] eqn:EM; [|discriminate].
  intros H.
  assert (E : fl = false /\ d = r_pre (reduce Pc Qc Cc emp) + md + r_diff (reduce Pc Qc Cc emp) * r_pen (reduce Pc Qc Cc emp)).
  { destruct (ft =? 2); [destruct (transform_flow_to_regular _ _ _); [|discriminate]|]; injection H as <- _ <-; auto. }
  destruct E as [-> ->]. exists md. split; [|reflexivity]. apply (ll_min_cost _ _ md x L G S EM).
Qed.

Definition mat_nonneg (M : list (list Z)) : Prop := forall row, In row M -> forall z, In z row -> 0 <= z.
Lemma mz_nonneg M : mat_nonneg M -> forall i j, 0 <= mz M i j.
Proof.
  intros H i j. unfold mz. destruct (nth_in_or_default i M []) as [IN|E].
  - destruct (nth_in_or_default j (nth i M []) 0) as [IN2|E2]; [apply (H _ IN _ IN2)|rewrite E2; lia].
  - rewrite E. destruct j; cbn; lia.
Qed.
Lemma in_firstn_local {A} : forall n (l : list A) x, In x (firstn n l) -> In x l.
Proof. induction n as [|n IH]; intros l x H; [destruct H|]. destruct l as [|a l]; [destruct H|]. cbn [firstn] in H. destruct H as [<-|H]; [left; auto|right; apply IH; auto]. Qed.
Lemma resize_length n l : length (resize n l) = n.
Proof. unfold resize. rewrite app_length, firstn_length, repeat_length. lia. Qed.
Lemma resize_nonneg n l : (forall z, In z l -> 0 <= z) -> forall z, In z (resize n l) -> 0 <= z.
Proof.
  intros H z Hz. unfold resize in Hz. apply in_app_or in Hz. destruct Hz as [Hz|Hz].
  - apply H. eapply in_firstn_local; eauto.
  - apply repeat_spec in Hz. lia.
Qed.

(* the arguments emd_hat_impl's reduction is called with: padded, and after the metric pre-flow if any *)
Definition call_args (p q : list Z) (c : list (list Z)) (gd : bool) : list Z * list Z * list (list Z) :=
  let plen := length p in
  let qlen := length q in
  let '(vp, vq, vc) :=
    if (qlen <? plen)%nat then (p, resize plen q, map (resize plen) c)
    else if (plen <? qlen)%nat then (resize qlen p, q, c ++ repeat (zeros qlen) (qlen - plen))
    else (p, q, c) in
  if gd then let pf := preflow vp vq in (map (fun t => fst (fst t)) pf, map (fun t => snd (fst t)) pf, vc)
  else (vp, vq, vc).

Theorem ll_dist_decomposition p q c pen ft gd d F : mat_nonneg c ->
  emd_hat_int32_llf p q c pen ft gd = Some (d, F, false) ->
  let '(Pc, Qc, Cc) := call_args p q c gd in
  let r := reduce Pc Qc Cc (match pen with Some v => v | None => -1 end) in
  exists md, is_mincost (r_bb r) (r_cc r) md /\ d = r_pre r + md + r_diff r * r_pen r.
Proof.
  intros HC. unfold emd_hat_int32_llf, call_args. cbv zeta.
  destruct (if (length q <? length p)%nat then (p, resize (length p) q, map (resize (length p)) c)
            else if (length p <? length q)%nat then (resize (length q) p, q, c ++ repeat (zeros (length q)) (length q - length p))
            else (p, q, c)) as [[vp vq] vc] eqn:EV.
  assert (W : length vp = length vq /\ mat_nonneg vc).
  { destruct (length q <? length p)%nat eqn:E1; [|destruct (length p <? length q)%nat eqn:E2]; injection EV as <- <- <-.
    - split; [rewrite resize_length; reflexivity|]. intros row Hr z Hz. apply in_map_iff in Hr. destruct Hr as [row0 [<- H0]].
      apply (resize_nonneg _ _ (HC row0 H0) z Hz).
    - split; [rewrite resize_length; reflexivity|]. intros row Hr z Hz. apply in_app_or in Hr. destruct Hr as [Hr|Hr]; [apply (HC row Hr z Hz)|].
      apply repeat_spec in Hr. subst row. unfold zeros in Hz. apply repeat_spec in Hz. lia.
    - split; [|exact HC]. apply Nat.ltb_ge in E1, E2. lia. }
  destruct W as [LV NV]. unfold emd_hat_llf. cbv zeta.
  destruct gd.
  - destruct (emd_impl_llf ft vp vq _ _ vc _ _) as [[[d0 F0] fl0]|] eqn:EI; [|discriminate].
    intros H. assert (E : d0 = d /\ fl0 = false) by (destruct (ft =? 0); injection H as <- _ <-; auto). destruct E as [-> ->].
    assert (LM : length (map (fun t : Z * Z * Z => fst (fst t)) (preflow vp vq)) = length (map (fun t : Z * Z * Z => snd (fst t)) (preflow vp vq)))
      by (rewrite !map_length; reflexivity).
    pose proof (emd_impl_dist _ _ _ _ _ _ _ _ _ _ LM (mz_nonneg vc NV) EI) as X.
    cbv zeta in X. cbv beta iota zeta. exact X.
  - destruct (emd_impl_llf ft vp vq vp vq vc _ _) as [[[d0 F0] fl0]|] eqn:EI; [|discriminate].
    intros H. assert (E : d0 = d /\ fl0 = false) by (destruct (ft =? 0); injection H as <- _ <-; auto). destruct E as [-> ->].
    pose proof (emd_impl_dist _ _ _ _ _ _ _ _ _ _ LV (mz_nonneg vc NV) EI) as X.
    cbv zeta in X. cbv beta iota zeta. exact X.
Qed.

(* composed with the int32 chain *)
Theorem emd_int32_dist_below_bound p q c pen ft gd d F : mat_nonneg c ->
  no_wrap_b p q c pen ft gd = true ->
  emd_int32_as_written p q c pen ft gd = (0, d, F) ->
  exists fl, emd_hat_int32_llf p q c pen ft gd = Some (d, F, fl) /\
    (fl = false ->
     let '(Pc, Qc, Cc) := call_args p q c gd in
     let r := reduce Pc Qc Cc (match pen with Some v => v | None => -1 end) in
     exists md, is_mincost (r_bb r) (r_cc r) md /\ d = r_pre r + md + r_diff r * r_pen r).
Proof.
  intros HC NW AW. destruct (emd_int32_correct_below_bound_partial p q c pen ft gd d F NW AW) as [[fl E] _].
  exists fl. split; [exact E|]. intros ->. apply (ll_dist_decomposition p q c pen ft gd d F HC E).
Qed.

(* the premise that is left: the graph reduction of emd_hat_impl.hpp is value-preserving — a statement
   about `reduce` only (no solver, no int32): pre-flow cost + minimum cost of the reduced graph
   + |sum P - sum Q| * penalty is the earth mover's distance of the original call *)
Definition graph_reduction_correct_on (p q : list Z) (c : list (list Z)) (pen : option Z) (gd : bool) : Prop :=
  let '(Pc, Qc, Cc) := call_args p q c gd in
  let r := reduce Pc Qc Cc (match pen with Some v => v | None => -1 end) in
  forall md, is_mincost (r_bb r) (r_cc r) md ->
  emd_spec p q c (penalty_of c pen) (r_pre r + md + r_diff r * r_pen r).

Theorem emd_int32_correct_below_bound_partial2 p q c pen ft gd d F : mat_nonneg c ->
  no_wrap_b p q c pen ft gd = true ->
  emd_int32_as_written p q c pen ft gd = (0, d, F) ->
  (forall fl, emd_hat_int32_llf p q c pen ft gd = Some (d, F, fl) -> fl = false) ->   (* flag clear, per case *)
  graph_reduction_correct_on p q c pen gd ->                                           (* open *)
  emd_spec p q c (penalty_of c pen) d.
Proof.
  intros HC NW AW FLC GR. destruct (emd_int32_dist_below_bound p q c pen ft gd d F HC NW AW) as [fl [E D]].
  specialize (D (FLC fl E)). unfold graph_reduction_correct_on in GR.
  destruct (call_args p q c gd) as [[Pc Qc] Cc]. cbv zeta in *. destruct D as [md [M ->]]. apply GR. exact M.
Qed.

Theorem emd_int32_is_flagged_ll p q c pen ft gd d F :
  no_wrap_b p q c pen ft gd = true -> emd_int32_as_written p q c pen ft gd = (0, d, F) ->
  exists fl, emd_hat_int32_llf p q c pen ft gd = Some (d, F, fl).
Proof. intros NW AW. destruct (emd_int32_correct_below_bound_partial p q c pen ft gd d F NW AW) as [H _]. exact H. Qed.
