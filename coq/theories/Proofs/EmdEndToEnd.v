(* C10 — the composed chain: int32 code as written (program model, wrap32 after every operation)
   = exact program (no_wrap_below_bound) = line-level model (prog_equals_ll) => minimum-cost flow
   (mcf_model_optimal_if_A_idle), with the premises that are still open listed explicitly. *)
From Coq Require Import ZArith List Bool Lia ZifyBool.
From Centro Require Import Base.Sx Base.EmdBase Spec.Emd Model.Emd Model.EmdCert Model.EmdMcf Model.EmdAsIs Model.EmdP
  Proofs.EmdDuality Proofs.EmdMcfCert Proofs.EmdIndex Proofs.EmdOptimal Proofs.EmdNoWrap Proofs.EmdProgLL Proofs.EmdDist.
Import ListNotations.
Open Scope Z_scope.

(* the flagged run is the plain run with a recorded boolean *)
Lemma iter_f_fst : forall k st fl, fst (mcf_iter_f k st fl) = mcf_iter k st.
Proof.
  induction k as [|k IH]; intros st fl; cbn [mcf_iter_f mcf_iter]; [reflexivity|].
  pose proof (IH st fl) as H. destruct (mcf_iter_f k st fl) as [r fl']. cbn [fst] in H. rewrite <- H.
  destruct r; try reflexivity. apply IH.
Qed.

Lemma mcf_ll_f_fst e c : min_cost_flow_ll e c =
  match min_cost_flow_ll_f e c with Some (d, x, _) => Some (d, x) | None => None end.
Proof.
  unfold min_cost_flow_ll, min_cost_flow_ll_f. rewrite <- (iter_f_fst ssp_levels (mcf_init e c) false).
  destruct (mcf_iter_f ssp_levels (mcf_init e c) false) as [r fl]. cbn [fst]. destruct r; reflexivity.
Qed.

Lemma emd_impl_ll_f_fst ft PO QO Pc Qc Cc emp F0 : emd_impl_ll ft PO QO Pc Qc Cc emp F0 =
  match emd_impl_llf ft PO QO Pc Qc Cc emp F0 with Some (d, F, _) => Some (d, F) | None => None end.
Proof.
  unfold emd_impl_ll, emd_impl_llf. cbv zeta. rewrite mcf_ll_f_fst.
  destruct (min_cost_flow_ll_f _ _) as [[[md x] fl]|]; [|reflexivity].
  destruct (ft =? 2); [|reflexivity]. destruct (transform_flow_to_regular _ _ _); reflexivity.
Qed.

Lemma emd_hat_int32_ll_f_fst p q c pen ft gd : emd_hat_int32_ll p q c pen ft gd =
  match emd_hat_int32_llf p q c pen ft gd with Some (d, F, _) => Some (d, F) | None => None end.
Proof.
  unfold emd_hat_int32_ll, emd_hat_int32_llf. cbv zeta.
  destruct (if (length q <? length p)%nat then _ else _) as [[vp vq] vc].
  unfold emd_hat_ll, emd_hat_llf. cbv zeta.
  destruct gd; rewrite emd_impl_ll_f_fst; destruct (emd_impl_llf _ _ _ _ _ _ _ _) as [[[d F] fl]|]; try reflexivity;
    destruct (ft =? 0); reflexivity.
Qed.

Lemma ll_done_of_f e c md x r fl :
  min_cost_flow_ll e c = Some (md, x) -> mcf_iter_f ssp_levels (mcf_init e c) false = (r, fl) ->
  exists st, r = MDone st /\ x = m_x st /\ md = x_dist (m_x st).
Proof.
  intros H RUN. assert (E : mcf_iter ssp_levels (mcf_init e c) = r)
    by (rewrite <- (iter_f_fst ssp_levels (mcf_init e c) false), RUN; reflexivity).
  revert H. unfold min_cost_flow_ll. rewrite E. clear E RUN. intros H.
  destruct r as [st|st|]; try discriminate. exists st. split; [reflexivity|]. split; congruence.
Qed.

(* solver level, no open premise besides the flag: below the bound, what the int32 solver code returns
   is the Done state of the line-level run, and with the flag clear its capacity flow is a
   minimum-cost flow of the graph it was given *)
Theorem mcf_int32_optimal_below_bound e c md x :
  okp (min_cost_flow_p e c) = true ->
  run wrap32 (min_cost_flow_p e c) = (0, md, x) ->
  length c = length e ->
  (forall l tc, In l c -> In tc l -> (fst tc < length e)%nat /\ 0 <= snd tc) ->
  zsum e = 0 ->
  forall r fl, mcf_iter_f ssp_levels (mcf_init e c) false = (r, fl) -> fl = false ->
  exists st, r = MDone st /\ x = m_x st /\ md = x_dist (m_x st) /\
    let sk := sk_of c in
    let f := capflow c (m_rb st) in
    (forall k, In k (idx sk) -> 0 <= f k) /\
    (forall v, (v < length e)%nat -> gout sk f v = nz e v) /\
    forall g, (forall k, In k (idx sk) -> 0 <= g k) -> (forall v, (v < length e)%nat -> gout sk g v = nz e v) ->
              gcost sk f <= gcost sk g.
Proof.
  intros OK RW LC GC SE r fl RUN FL.
  rewrite (wrapped_run_simulation _ OK) in RW. apply run_min_cost_flow in RW.
  destruct (ll_done_of_f _ _ _ _ _ _ RW RUN) as [st [-> [E2 E1]]].
  destruct (mcf_model_optimal_if_A_idle (length e) c e st fl LC GC eq_refl SE RUN FL) as [A [B C]].
  exists st. split; [reflexivity|]. split; [exact E2|]. split; [exact E1|]. cbv zeta.
  split; [exact A|]. split; [exact B|exact C].
Qed.

(* the distance: below the bound and with the flag clear, the number min_cost_flow as written for int
   returns IS the minimum cost of the graph it was given: it is the cost of a feasible flow and no
   feasible flow is cheaper *)
Theorem mcf_int32_returns_min_cost e c md x :
  okp (min_cost_flow_p e c) = true ->
  run wrap32 (min_cost_flow_p e c) = (0, md, x) ->
  length c = length e ->
  (forall l tc, In l c -> In tc l -> (fst tc < length e)%nat /\ 0 <= snd tc) ->
  zsum e = 0 ->
  forall r fl, mcf_iter_f ssp_levels (mcf_init e c) false = (r, fl) -> fl = false ->
  let sk := sk_of c in
  (exists f, (forall k, In k (idx sk) -> 0 <= f k) /\ (forall v, (v < length e)%nat -> gout sk f v = nz e v) /\ md = gcost sk f) /\
  (forall g, (forall k, In k (idx sk) -> 0 <= g k) -> (forall v, (v < length e)%nat -> gout sk g v = nz e v) -> md <= gcost sk g).
Proof.
  intros OK RW LC GC SE r fl RUN FL. cbv zeta.
  destruct (mcf_int32_optimal_below_bound e c md x OK RW LC GC SE r fl RUN FL) as [st [-> [_ [EM [A [B C]]]]]].
  pose proof (dist_is_capflow_cost (length e) c LC GC e st fl eq_refl RUN FL) as D.
  split.
  - exists (capflow c (m_rb st)). split; [exact A|]. split; [exact B|]. rewrite EM. exact D.
  - intros g G1 G2. rewrite EM, D. apply C; auto.
Qed.

(* end to end.  PROVED: below the bound (no_wrap_b, evaluated per case), a finished run of the int32
   code as written returns exactly the distance and flow of the flagged line-level model.
   REMAINING PREMISES, listed: (flag clear) the run's companion flag is false — evaluated per case;
   (read_back_bookkeeping, incl. x_caps_consistent) from a flag-clear answer of the line-level model
   to "d is the earth mover's distance" — OPEN, taken as a premise on this instance. *)
Theorem emd_int32_correct_below_bound_partial p q c pen ft gd d F :
  no_wrap_b p q c pen ft gd = true ->
  emd_int32_as_written p q c pen ft gd = (0, d, F) ->
  (exists fl, emd_hat_int32_llf p q c pen ft gd = Some (d, F, fl)) /\
  forall d' F', emd_hat_int32_llf p q c pen ft gd = Some (d', F', false) ->           (* flag clear *)
    (emd_hat_int32_llf p q c pen ft gd = Some (d', F', false) ->
       emd_spec p q c (penalty_of c pen) d') ->                                        (* read_back_bookkeeping, open *)
    d' = d /\ F' = F /\ emd_spec p q c (penalty_of c pen) d.
Proof.
  intros NW AW. rewrite (no_wrap_below_bound _ _ _ _ _ _ NW) in AW. apply prog_equals_ll in AW.
  rewrite emd_hat_int32_ll_f_fst in AW.
  destruct (emd_hat_int32_llf p q c pen ft gd) as [[[d0 F0] fl0]|] eqn:E; [|discriminate].
  injection AW as <- <-. split; [exists fl0; reflexivity|].
  intros d' F' H RB. injection H as <- <- ->. repeat split; auto.
Qed.
