(* C13 — the antipodal cone cover of a hull polygon (direction continuity for the minimum Feret diameter):
   for every direction u there are two edge-flush directions R (clockwise of u) and L (counterclockwise of u), both
   in the cone of directions in which the extreme pair of u stays extreme; hence min over ALL directions = bf_min. *)
From Coq Require Import ZArith List Bool Lia ZifyBool.
From Centro Require Import Base.Sx Model.Hull Spec.HullSpec Model.Feret Spec.CalipersHyp Spec.FeretBrute Spec.FeretSpec
  Spec.FeretLower Proofs.FeretProofs Proofs.FeretLowerProofs Proofs.PolygonDiscC13 Proofs.FeretMinC13.
Import ListNotations.
Open Scope Z_scope.

(* ---------------------------------------------------------------- planar algebra over Z *)
Definition Jv (a : vec) : vec := (- snd a, fst a).             (* quarter turn counterclockwise *)
Definition negv (a : vec) : vec := (- fst a, - snd a).

Lemma dot_J a b : dotv (Jv a) b = crossv a b.
Proof. unfold dotv, crossv, Jv. cbn [fst snd]. ring. Qed.
Lemma cross_JJ a b : crossv (Jv a) (Jv b) = crossv a b.
Proof. unfold crossv, Jv. cbn [fst snd]. ring. Qed.

(* |u|^2 cross(cj, ci) = X_i Y_j - Y_i X_j with X = cross(u, c), Y = <c, u> *)
Lemma lagrange u ci cj : dotv u u * crossv cj ci = crossv u ci * dotv cj u - dotv ci u * crossv u cj.
Proof. unfold dotv, crossv. ring. Qed.

Lemma norm_pos (u : vec) : u <> (0, 0) -> 0 < dotv u u.
Proof.
  destruct u as [a b]. intros N. unfold dotv. cbn [fst snd].
  assert (a <> 0 \/ b <> 0) by (destruct (Z.eq_dec a 0), (Z.eq_dec b 0); subst; try tauto; congruence).
  pose proof (Z.square_nonneg a). pose proof (Z.square_nonneg b).
  destruct H; [pose proof (zsq_pos a H)|pose proof (zsq_pos b H)]; lia.
Qed.

(* smallest ratio fst / snd over a list of pairs with positive second components *)
Lemma ratio_argmin : forall l : list (Z * Z), l <> [] -> (forall p, In p l -> 0 < snd p) ->
  exists p, In p l /\ forall q, In q l -> fst p * snd q <= fst q * snd p.
Proof.
  induction l as [|a t IH]; intros NE Pos; [contradiction|]. destruct t as [|b t'].
  - exists a. split; [left; reflexivity|]. intros q [<-|[]]. lia.
  - destruct (IH ltac:(discriminate) (fun p Hp => Pos p (or_intror Hp))) as [m [Hm Min]].
    pose proof (Pos a (or_introl eq_refl)) as Pa. pose proof (Pos m (or_intror Hm)) as Pm.
    destruct (Z_le_gt_dec (fst m * snd a) (fst a * snd m)) as [L|G].
    + exists m. split; [right; exact Hm|]. intros q [<-|Hq]; [exact L|apply Min, Hq].
    + exists a. split; [left; reflexivity|]. intros q [<-|Hq]; [lia|].
      pose proof (Min q Hq) as Mq. pose proof (Pos q (or_intror Hq)) as Pq.
      (* a/sa < m/sm <= q/sq *)
      assert (fst a * snd m * snd q <= fst q * snd m * snd a) by nia.
      assert (snd m * (fst a * snd q) <= snd m * (fst q * snd a)) by lia.
      apply (Z.mul_le_mono_pos_l _ _ (snd m) Pm). exact H0.
Qed.

(* among vectors of the closed half-plane <c, u> >= 0, not all on its clockwise boundary ray, one is most counterclockwise *)
Lemma ccw_most (u : vec) (cs : list vec) : u <> (0, 0) ->
  (forall c, In c cs -> 0 <= dotv c u) ->
  (exists c, In c cs /\ (0 < crossv u c \/ 0 < dotv c u)) ->
  exists ci, In ci cs /\ forall cj, In cj cs -> 0 <= crossv cj ci.
Proof.
  intros Nu Hy [c0 [Ic0 H0]]. pose proof (norm_pos u Nu) as Np.
  assert (Key : forall ci, In ci cs -> (forall cj, In cj cs -> 0 <= crossv u ci * dotv cj u - dotv ci u * crossv u cj) ->
                forall cj, In cj cs -> 0 <= crossv cj ci).
  { intros ci Ici H cj Icj. specialize (H cj Icj). rewrite <- lagrange in H. nia. }
  destruct (existsb (fun c => 0 <? crossv u c) cs) eqn:Ex.
  - (* some X > 0: smallest Y / X among them *)
    set (sp := filter (fun c => 0 <? crossv u c) cs).
    assert (NE : map (fun c => (dotv c u, crossv u c)) sp <> []).
    { apply existsb_exists in Ex. destruct Ex as [c [Ic Pc]]. intro E. apply map_eq_nil in E.
      assert (In c sp) by (apply filter_In; split; assumption). rewrite E in H. destruct H. }
    destruct (ratio_argmin _ NE) as [p [Hp Min]].
    { intros p Hp. apply in_map_iff in Hp. destruct Hp as [c [<- Hc]]. apply filter_In in Hc. cbn [snd]. lia. }
    apply in_map_iff in Hp. destruct Hp as [ci [<- Hci]]. apply filter_In in Hci. destruct Hci as [Ici Xi].
    exists ci. split; [exact Ici|]. apply Key; [exact Ici|]. intros cj Icj.
    destruct (Z_lt_le_dec 0 (crossv u cj)) as [Xj|Xj].
    + specialize (Min (dotv cj u, crossv u cj) ltac:(apply in_map_iff; exists cj; split; [reflexivity|apply filter_In; split; [exact Icj|lia]])).
      cbn [fst snd] in Min. lia.
    + pose proof (Hy cj Icj). pose proof (Hy ci Ici). assert (0 < crossv u ci) by lia. nia.
  - (* all X <= 0: smallest (-X) / Y among those with Y > 0 *)
    assert (AllX : forall c, In c cs -> crossv u c <= 0).
    { intros c Ic. destruct (Z_lt_le_dec 0 (crossv u c)) as [P|P]; [|exact P].
      assert (existsb (fun c => 0 <? crossv u c) cs = true) by (apply existsb_exists; exists c; split; [exact Ic|lia]). congruence. }
    set (sp := filter (fun c => 0 <? dotv c u) cs).
    assert (NE : map (fun c => (- crossv u c, dotv c u)) sp <> []).
    { destruct H0 as [H0|H0]; [pose proof (AllX c0 Ic0); lia|]. intro E. apply map_eq_nil in E.
      assert (In c0 sp) by (apply filter_In; split; [exact Ic0|lia]). rewrite E in H. destruct H. }
    destruct (ratio_argmin _ NE) as [p [Hp Min]].
    { intros p Hp. apply in_map_iff in Hp. destruct Hp as [c [<- Hc]]. apply filter_In in Hc. cbn [snd]. lia. }
    apply in_map_iff in Hp. destruct Hp as [ci [<- Hci]]. apply filter_In in Hci. destruct Hci as [Ici Yi].
    exists ci. split; [exact Ici|]. apply Key; [exact Ici|]. intros cj Icj.
    destruct (Z_lt_le_dec 0 (dotv cj u)) as [Yj|Yj].
    + specialize (Min (- crossv u cj, dotv cj u) ltac:(apply in_map_iff; exists cj; split; [reflexivity|apply filter_In; split; [exact Icj|lia]])).
      cbn [fst snd] in Min. lia.
    + pose proof (Hy cj Icj). assert (dotv cj u = 0) by lia. pose proof (AllX cj Icj). assert (0 < dotv ci u) by lia. nia.
Qed.

Definition Mv (a : vec) : vec := (fst a, - snd a).             (* mirror *)
Lemma cross_M a b : crossv (Mv a) (Mv b) = - crossv a b.
Proof. unfold crossv, Mv. cbn [fst snd]. ring. Qed.
Lemma dot_M a b : dotv (Mv a) (Mv b) = dotv a b.
Proof. unfold dotv, Mv. cbn [fst snd]. ring. Qed.

Lemma cw_most (u : vec) (cs : list vec) : u <> (0, 0) ->
  (forall c, In c cs -> 0 <= dotv c u) ->
  (exists c, In c cs /\ (crossv u c < 0 \/ 0 < dotv c u)) ->
  exists ci, In ci cs /\ forall cj, In cj cs -> 0 <= crossv ci cj.
Proof.
  intros Nu Hy [c0 [Ic0 H0]].
  destruct (ccw_most (Mv u) (map Mv cs)) as [mi [Imi Hm]].
  - intro E. apply Nu. destruct u as [a b]. unfold Mv in E. cbn [fst snd] in E. injection E as -> E. f_equal. lia.
  - intros c Hc. apply in_map_iff in Hc. destruct Hc as [c' [<- Hc']]. rewrite dot_M. apply Hy, Hc'.
  - exists (Mv c0). split; [apply in_map, Ic0|]. rewrite cross_M, dot_M. destruct H0; [left; lia|right; assumption].
  - apply in_map_iff in Imi. destruct Imi as [ci [<- Ici]]. exists ci. split; [exact Ici|].
    intros cj Icj. specialize (Hm (Mv cj) (in_map Mv cs cj Icj)). rewrite cross_M in Hm.
    assert (crossv ci cj = - crossv cj ci) by (unfold crossv; ring). lia.
Qed.

Lemma JJ a : Jv (Jv a) = negv a.
Proof. unfold Jv, negv. cbn [fst snd]. f_equal; ring. Qed.
Lemma cross_neg_l a b : crossv (negv a) b = - crossv a b.
Proof. unfold crossv, negv. cbn [fst snd]. ring. Qed.
Lemma dot_neg_r a b : dotv a (negv b) = - dotv a b.
Proof. unfold dotv, negv. cbn [fst snd]. ring. Qed.
Lemma dot_neg_l a b : dotv (negv a) b = - dotv a b.
Proof. unfold dotv, negv. cbn [fst snd]. ring. Qed.
Lemma cross_anti a b : crossv a b = - crossv b a.
Proof. unfold crossv. ring. Qed.
Lemma dot_comm a b : dotv a b = dotv b a.
Proof. unfold dotv. ring. Qed.

(* two independent constraint vectors cannot both be orthogonal to a non-zero u *)
Lemma indep_not_both_orth c1 c2 u : crossv c1 c2 <> 0 -> u <> (0, 0) -> dotv c1 u = 0 -> dotv c2 u = 0 -> False.
Proof.
  intros Cr Nu D1 D2.
  assert (E1 : crossv c1 c2 * fst u = dotv c1 u * snd c2 - dotv c2 u * snd c1) by (unfold crossv, dotv; ring).
  assert (E2 : crossv c1 c2 * snd u = dotv c2 u * fst c1 - dotv c1 u * fst c2) by (unfold crossv, dotv; ring).
  rewrite D1, D2 in E1, E2. apply Nu. destruct u as [a b]. cbn [fst snd] in *. f_equal; nia.
Qed.

(* the planar cone lemma: for constraint vectors c1, c2 (independent), c3, c4 with <c, u> >= 0 there are R and L,
   each a quarter turn of one of them, inside the cone {m : <c, m> >= 0 for all four}, with u between them *)
Theorem cone_span (c1 c2 c3 c4 u : vec) :
  crossv c1 c2 <> 0 -> u <> (0, 0) ->
  0 <= dotv c1 u -> 0 <= dotv c2 u -> 0 <= dotv c3 u -> 0 <= dotv c4 u ->
  let cs := [c1; c2; c3; c4] in
  exists ci ck, In ci cs /\ In ck cs /\
    let R := negv (Jv ci) in let L := Jv ck in
    (forall c, In c cs -> 0 <= dotv c R) /\ (forall c, In c cs -> 0 <= dotv c L) /\
    0 <= crossv R u /\ crossv L u <= 0 /\ 0 <= crossv R L.
Proof.
  intros Cr Nu Y1 Y2 Y3 Y4 cs.
  assert (Hy : forall c, In c cs -> 0 <= dotv c u) by (intros c [<-|[<-|[<-|[<-|[]]]]]; assumption).
  assert (Pos : exists c, In c cs /\ 0 < dotv c u).
  { destruct (Z.eq_dec (dotv c1 u) 0) as [E1|N1]; [|exists c1; split; [left; reflexivity|lia]].
    destruct (Z.eq_dec (dotv c2 u) 0) as [E2|N2]; [|exists c2; split; [right; left; reflexivity|lia]].
    exfalso. exact (indep_not_both_orth c1 c2 u Cr Nu E1 E2). }
  destruct Pos as [c0 [Ic0 P0]].
  destruct (ccw_most u cs Nu Hy) as [ci [Ici Hi]]; [exists c0; split; [exact Ic0|right; exact P0]|].
  destruct (cw_most u cs Nu Hy) as [ck [Ick Hk]]; [exists c0; split; [exact Ic0|right; exact P0]|].
  exists ci, ck. split; [exact Ici|]. split; [exact Ick|]. cbv zeta. repeat split.
  - intros c Ic. rewrite dot_neg_r, dot_comm, dot_J. specialize (Hi c Ic). rewrite (cross_anti ci c). lia.
  - intros c Ic. rewrite dot_comm, dot_J. apply Hk, Ic.
  - rewrite cross_neg_l, <- dot_J, JJ, dot_neg_l. specialize (Hy ci Ici). lia.
  - rewrite <- dot_J, JJ, dot_neg_l. specialize (Hy ck Ick). lia.
  - rewrite cross_neg_l, cross_JJ. specialize (Hi ck Ick). rewrite (cross_anti ci ck). lia.
Qed.

(* ---------------------------------------------------------------- vertices, their neighbours, their edges *)
Definition prv (n i : nat) : nat := if (i =? 0)%nat then (n - 1)%nat else (i - 1)%nat.

Lemma nxt_prv n i : (3 <= n)%nat -> (i < n)%nat -> nxt n (prv n i) = i.
Proof. intros L3 Li. unfold nxt, prv. destruct (Nat.eqb_spec i 0); [subst; destruct (Nat.eqb_spec (S (n - 1)) n); lia|destruct (Nat.eqb_spec (S (i - 1)) n); lia]. Qed.
Lemma prv_lt n i : (3 <= n)%nat -> (i < n)%nat -> (prv n i < n)%nat.
Proof. intros L3 Li. unfold prv. destruct (Nat.eqb_spec i 0); lia. Qed.
Lemma nxt_lt' n i : (i < n)%nat -> (nxt n i < n)%nat.
Proof. intros Li. unfold nxt. destruct (Nat.eqb_spec (S i) n); lia. Qed.

Lemma triple_idx {A} (d : A) (V : list A) i : (3 <= length V)%nat -> (i < length V)%nat ->
  exists l1 l2, V ++ firstn 2 V = l1 ++ nth (prv (length V) i) V d :: nth i V d :: nth (nxt (length V) i) V d :: l2.
Proof.
  intros L3 Li.
  assert (F2 : firstn 2 V = [nth 0 V d; nth 1 V d]) by (clear Li; destruct V as [|x [|y r]]; cbn [length] in L3; try lia; reflexivity).
  set (n := length V) in *. set (C := V ++ firstn 2 V).
  assert (Lc : length C = (n + 2)%nat) by (unfold C; rewrite app_length, F2; reflexivity).
  set (j := prv n i).
  assert (Hj : (j + 2 < length C)%nat) by (rewrite Lc; unfold j, prv; destruct (Nat.eqb_spec i 0); lia).
  assert (E0 : nth j C d = nth (prv n i) V d) by (unfold C; apply app_nth1; apply prv_lt; assumption).
  assert (E1 : nth (j + 1) C d = nth i V d).
  { unfold j, prv, C. destruct (Nat.eqb_spec i 0) as [->|N].
    - replace (n - 1 + 1)%nat with n by lia. rewrite app_nth2 by (fold n; lia). fold n. rewrite Nat.sub_diag, F2. reflexivity.
    - replace (i - 1 + 1)%nat with i by lia. apply app_nth1. exact Li. }
  assert (E2 : nth (j + 2) C d = nth (nxt n i) V d).
  { unfold j, prv, nxt, C. destruct (Nat.eqb_spec i 0) as [->|N].
    - replace (n - 1 + 2)%nat with (S n) by lia. rewrite app_nth2 by (fold n; lia). fold n.
      replace (S n - n)%nat with 1%nat by lia. rewrite F2. destruct (Nat.eqb_spec 1 n); [lia|reflexivity].
    - replace (i - 1 + 2)%nat with (S i) by lia. destruct (Nat.eqb_spec (S i) n) as [E|N'].
      + rewrite app_nth2 by (fold n; lia). fold n. replace (S i - n)%nat with O by lia. rewrite F2. reflexivity.
      + apply app_nth1. fold n. lia. }
  exists (firstn j C), (skipn (j + 3) C). rewrite <- E1, <- E2. replace (nth j V d) with (nth j C d) by exact E0. apply (split3' d). exact Hj.
Qed.

Section Cover.
  Variable PS V : list pt.
  Hypothesis HS : HullSpec PS V.
  Hypothesis L3 : (3 <= length V)%nat.
  Let n := length V.

  Lemma consecutive_idx i : (i < n)%nat -> consecutive V (pnth (prv n i) V) (pnth i V) (pnth (nxt n i) V).
  Proof. intros Li. destruct (triple_idx (0, 0) V i L3 Li) as [l1 [l2 E]]. exists l1, l2. exact E. Qed.

  (* the four constraint vectors of the pair (vertex i on top, vertex k at the bottom) *)
  Definition cvec (i k : nat) : list vec :=
    [subv (pnth i V) (pnth (prv n i) V); subv (pnth i V) (pnth (nxt n i) V);
     subv (pnth (prv n k) V) (pnth k V); subv (pnth (nxt n k) V) (pnth k V)].

  (* inside the cone of the four constraints the pair is extreme for all of S *)
  Lemma pair_extreme i k m : (i < n)%nat -> (k < n)%nat ->
    (forall c, In c (cvec i k) -> 0 <= dotv c m) -> extreme_pair PS (pnth i V) (pnth k V) m.
  Proof.
    intros Li Lk Hc. destruct (hs_poly _ _ HS L3) as [sg [Sg Pl]].
    assert (Ii : In (pnth i V) PS) by (apply (hs_subset _ _ HS); apply nth_In; exact Li).
    assert (Ik : In (pnth k V) PS) by (apply (hs_subset _ _ HS); apply nth_In; exact Lk).
    split; [exact Ii|]. split; [exact Ik|]. intros s Hs.
    destruct (Pl _ _ _ (consecutive_idx i Li)) as [Ti Ini]. destruct (Ini s Hs) as [Ai Bi].
    destruct (Pl _ _ _ (consecutive_idx k Lk)) as [Tk Ink]. destruct (Ink s Hs) as [Ak Bk].
    pose proof (Hc _ (or_introl eq_refl)) as G1. pose proof (Hc _ (or_intror (or_introl eq_refl))) as G2.
    pose proof (Hc _ (or_intror (or_intror (or_introl eq_refl)))) as G3.
    pose proof (Hc _ (or_intror (or_intror (or_intror (or_introl eq_refl))))) as G4.
    unfold dotv, subv in G1, G2, G3, G4. cbn [fst snd] in G1, G2, G3, G4.
    split.
    - (* minimum at k: maximum of the negated functional *)
      pose proof (cone_max (- fst m) (- snd m) sg _ _ _ s Tk Ak Bk) as Mx. unfold phi in *. 
      assert (X : - fst m * fst s + - snd m * snd s <= - fst m * fst (pnth k V) + - snd m * snd (pnth k V)) by (apply Mx; lia).
      lia.
    - pose proof (cone_max (fst m) (snd m) sg _ _ _ s Ti Ai Bi) as Mx. unfold phi in *. apply Mx; lia.
  Qed.

  (* a quarter turn of a constraint vector is normal to an edge of V *)
  Lemma cvec_edge i k c : (i < n)%nat -> (k < n)%nat -> In c (cvec i k) ->
    edge_direction V (Jv c) /\ edge_direction V (negv (Jv c)).
  Proof.
    intros Li Lk Hc. unfold cvec in Hc.
    assert (Pi := nxt_prv n i L3 Li). assert (Pk := nxt_prv n k L3 Lk).
    destruct Hc as [<-|[<-|[<-|[<-|[]]]]]; split.
    - exists (prv n i), 1. split; [apply prv_lt; assumption|]. split; [lia|]. fold n. rewrite Pi. unfold Jv, subv. cbn [fst snd]. f_equal; ring.
    - exists (prv n i), (-1). split; [apply prv_lt; assumption|]. split; [lia|]. fold n. rewrite Pi. unfold negv, Jv, subv. cbn [fst snd]. f_equal; ring.
    - exists i, (-1). split; [exact Li|]. split; [lia|]. fold n. unfold Jv, subv. cbn [fst snd]. f_equal; ring.
    - exists i, 1. split; [exact Li|]. split; [lia|]. fold n. unfold negv, Jv, subv. cbn [fst snd]. f_equal; ring.
    - exists (prv n k), (-1). split; [apply prv_lt; assumption|]. split; [lia|]. fold n. rewrite Pk. unfold Jv, subv. cbn [fst snd]. f_equal; ring.
    - exists (prv n k), 1. split; [apply prv_lt; assumption|]. split; [lia|]. fold n. rewrite Pk. unfold negv, Jv, subv. cbn [fst snd]. f_equal; ring.
    - exists k, 1. split; [exact Lk|]. split; [lia|]. fold n. unfold Jv, subv. cbn [fst snd]. f_equal; ring.
    - exists k, (-1). split; [exact Lk|]. split; [lia|]. fold n. unfold negv, Jv, subv. cbn [fst snd]. f_equal; ring.
  Qed.
End Cover.

(* ---------------------------------------------------------------- the cover and the bound for all directions *)
Definition ConeCover2 (PS : list pt) (wn wd : Z) : Prop :=
  forall u : Z * Z, u <> (0, 0) ->
    (exists (m n : vec) (p q : pt), In p PS /\ In q PS /\
       0 < crossv m n /\ 0 <= crossv m u /\ crossv n u <= 0 /\
       wide_enough (subv p q) m wn wd = true /\ wide_enough (subv p q) n wn wd = true)
    \/ (exists (m : vec) (p q : pt), In p PS /\ In q PS /\ m <> (0, 0) /\ crossv m u = 0 /\
          wide_enough (subv p q) m wn wd = true).

Lemma parallel_bound (d m u : vec) wn wd :
  0 < wd -> m <> (0, 0) -> crossv m u = 0 -> wn * norm2 m <= dotv d m * dotv d m * wd ->
  wn * norm2 u <= dotv d u * dotv d u * wd.
Proof.
  intros Hd Nm Cr W. pose proof (norm_pos m Nm) as Pm. change (dotv m m) with (norm2 m) in Pm.
  assert (B : dotv d u * norm2 m - dotv d m * dotv m u = crossv d m * crossv u m) by (unfold norm2, dotv, crossv; ring).
  assert (N : norm2 u * norm2 m = dotv m u * dotv m u + crossv m u * crossv m u) by (unfold norm2, dotv, crossv; ring).
  assert (Cu : crossv u m = 0) by (rewrite (cross_anti u m); lia).
  rewrite Cu, Z.mul_0_r in B. rewrite Cr, Z.mul_0_r, Z.add_0_r in N.
  (* (d.u)^2 |m|^2 = (d.m)^2 |u|^2 *)
  assert (E : dotv d u * dotv d u * norm2 m * norm2 m = dotv d m * dotv d m * (norm2 u * norm2 m)).
  { rewrite N. assert (H : dotv d u * norm2 m = dotv d m * dotv m u) by lia.
    set (a := dotv d u) in *. set (b := norm2 m) in *. set (c := dotv d m) in *. set (e := dotv m u) in *.
    replace (a * a * b * b) with ((a * b) * (a * b)) by ring. rewrite H. ring. }
  assert (E' : dotv d u * dotv d u * norm2 m = dotv d m * dotv d m * norm2 u).
  { apply (Z.mul_cancel_r _ _ (norm2 m)); [lia|]. lia. }
  (* wn |u|^2 |m|^2 <= (d.m)^2 wd |u|^2 = (d.u)^2 |m|^2 wd *)
  pose proof (norm2_nonneg u) as Pu.
  assert (T : wn * norm2 m * norm2 u <= dotv d m * dotv d m * wd * norm2 u) by (apply Z.mul_le_mono_nonneg_r; assumption).
  apply (Z.mul_le_mono_pos_r _ _ (norm2 m) Pm). nia.
Qed.

Theorem width_lower_all PS wn wd :
  0 <= wn -> 0 < wd -> ConeCover2 PS wn wd -> width_lower (fun u => u <> (0, 0)) PS wn wd.
Proof.
  intros Hn Hd Cov u lo hi Nu St. change (norm2z u) with (norm2 u).
  destruct (Cov u Nu) as [[m [n [p [q (Ip & Iq & Cmn & Cmu & Cnu & Wm & Wn)]]]]|[m [p [q (Ip & Iq & Nm & Cr & Wm)]]]].
  - unfold wide_enough in Wm, Wn. apply andb_true_iff in Wm. apply andb_true_iff in Wn.
    destruct Wm as [A1 A2]. destruct Wn as [B1 B2].
    destruct (cone_bound (subv p q) m n u wn wd Hn Hd Cmn Cmu Cnu) as [P Q]; try lia.
    pose proof (strip_pair PS u lo hi p q St Ip Iq) as SP.
    assert (dotv (subv p q) u * dotv (subv p q) u <= (hi - lo) * (hi - lo)) by nia. nia.
  - unfold wide_enough in Wm. apply andb_true_iff in Wm. destruct Wm as [A1 A2].
    pose proof (parallel_bound (subv p q) m u wn wd Hd Nm Cr ltac:(lia)) as PB.
    pose proof (strip_pair PS u lo hi p q St Ip Iq) as S1. pose proof (strip_pair PS u lo hi q p St Iq Ip) as S2.
    assert (E : dotv (subv q p) u = - dotv (subv p q) u) by (unfold dotv, subv; cbn [fst snd]; ring).
    assert (dotv (subv p q) u * dotv (subv p q) u <= (hi - lo) * (hi - lo)) by nia. nia.
Qed.

(* ---------------------------------------------------------------- every hull polygon has the cover *)
Lemma edge_direction_nonzero PS V m : HullSpec PS V -> (3 <= length V)%nat -> edge_direction V m -> m <> (0, 0).
Proof.
  intros HS L3 [a [k (La & Hk & E)]] Z0. subst m.
  pose proof (edge_den_pos PS V HS L3 a La) as P. unfold edge_den, fdist2 in P.
  injection Z0 as E1 E2. apply Z.mul_eq_0 in E1, E2. destruct E1 as [E1|E1]; [lia|]. destruct E2 as [E2|E2]; [lia|]. apply Z.eq_opp_l in E2. cbn in E2. unfold fpt, pt in *. rewrite E1, E2 in P. cbn in P. lia.
Qed.

Lemma cvec_cross (a b c : pt) : crossv (subv b a) (subv b c) = cross a b c.
Proof. unfold crossv, subv, cross. cbn [fst snd]. ring. Qed.

Lemma decomp_cross (L R u : vec) : crossv L u * dotv R R = dotv L R * crossv R u - crossv R L * dotv R u.
Proof. unfold crossv, dotv. ring. Qed.
Lemma decomp_dot (L R c : vec) : dotv c L * dotv R R - dotv L R * dotv c R = crossv R L * (fst R * snd c - snd R * fst c).
Proof. unfold crossv, dotv. ring. Qed.

Theorem cone_cover_hull PS V bn bd :
  HullSpec PS V -> (3 <= length V)%nat -> bf_min V = Some (bn, bd) -> ConeCover2 PS bn bd.
Proof.
  intros HS L3 E u Nu.
  assert (NV : V <> []) by (intro X; rewrite X in L3; cbn in L3; lia).
  destruct (extreme_pair_exists PS V u HS NV) as [p [q (Ip & Iq & (Ip' & Iq' & Ex))]].
  destruct (In_nth V p (0, 0) Ip) as [i [Li Ei]]. destruct (In_nth V q (0, 0) Iq) as [k [Lk Ek]].
  change (nth i V (0, 0)) with (pnth i V) in Ei. change (nth k V (0, 0)) with (pnth k V) in Ek. subst p q.
  assert (inV : forall j, (j < length V)%nat -> In (pnth j V) PS) by (intros j Lj; apply (hs_subset _ _ HS), nth_In; exact Lj).
  pose proof (inV _ (prv_lt _ i L3 Li)) as Ipi. pose proof (inV _ (nxt_lt' _ i Li)) as Ini.
  pose proof (inV _ (prv_lt _ k L3 Lk)) as Ipk. pose proof (inV _ (nxt_lt' _ k Lk)) as Ink.
  destruct (Ex _ Ipi) as [A1 B1]. destruct (Ex _ Ini) as [A2 B2]. destruct (Ex _ Ipk) as [A3 B3]. destruct (Ex _ Ink) as [A4 B4].
  unfold phi in A1, B1, A2, B2, A3, B3, A4, B4.
  set (c1 := subv (pnth i V) (pnth (prv (length V) i) V)). set (c2 := subv (pnth i V) (pnth (nxt (length V) i) V)).
  set (c3 := subv (pnth (prv (length V) k) V) (pnth k V)). set (c4 := subv (pnth (nxt (length V) k) V) (pnth k V)).
  assert (Y1 : 0 <= dotv c1 u) by (unfold c1, dotv, subv; cbn [fst snd]; lia).
  assert (Y2 : 0 <= dotv c2 u) by (unfold c2, dotv, subv; cbn [fst snd]; lia).
  assert (Y3 : 0 <= dotv c3 u) by (unfold c3, dotv, subv; cbn [fst snd]; lia).
  assert (Y4 : 0 <= dotv c4 u) by (unfold c4, dotv, subv; cbn [fst snd]; lia).
  destruct (hs_poly _ _ HS L3) as [sg [Sg Pl]].
  destruct (Pl _ _ _ (consecutive_idx V L3 i Li)) as [Ti _].
  assert (Cr : crossv c1 c2 <> 0).
  { unfold c1, c2. rewrite cvec_cross. destruct Sg; subst sg; lia. }
  pose proof (cone_span c1 c2 c3 c4 u Cr Nu Y1 Y2 Y3 Y4) as CS. cbv zeta in CS.
  destruct CS as [ci [ck (Ici & Ick & HR & HL & Ru & Lu & RL)]].
  change [c1; c2; c3; c4] with (cvec V i k) in *.
  set (R := negv (Jv ci)) in *. set (L := Jv ck) in *.
  pose proof (proj2 (cvec_edge V L3 i k ci Li Lk Ici)) as ER. fold R in ER.
  pose proof (proj1 (cvec_edge V L3 i k ck Li Lk Ick)) as EL. fold L in EL.
  pose proof (pair_extreme PS V HS L3 i k R Li Lk HR) as XR.
  pose proof (pair_extreme PS V HS L3 i k L Li Lk HL) as XL.
  pose proof (extreme_pair_wide PS V _ _ R HS L3 ER XR bn bd E) as WR.
  pose proof (extreme_pair_wide PS V _ _ L HS L3 EL XL bn bd E) as WL.
  pose proof (edge_direction_nonzero PS V R HS L3 ER) as NR.
  pose proof (edge_direction_nonzero PS V L HS L3 EL) as NL.
  destruct (Z.eq_dec (crossv R u) 0) as [ZR|PR].
  { right. exists R, (pnth i V), (pnth k V). repeat split; assumption. }
  destruct (Z.eq_dec (crossv L u) 0) as [ZL|PL].
  { right. exists L, (pnth i V), (pnth k V). repeat split; assumption. }
  left. exists R, L, (pnth i V), (pnth k V).
  split; [exact Ip'|]. split; [exact Iq'|]. split; [|split; [exact Ru|split; [exact Lu|split; [exact WR|exact WL]]]].
  destruct (Z.eq_dec (crossv R L) 0) as [Z0|]; [|lia]. exfalso.
  pose proof (norm_pos R NR) as PN.
  pose proof (decomp_cross L R u) as D0. rewrite Z0, Z.mul_0_l, Z.sub_0_r in D0.
  assert (LR : dotv L R < 0) by nia.
  assert (O : forall c, In c (cvec V i k) -> dotv c R = 0).
  { intros c Ic. pose proof (decomp_dot L R c) as D1. rewrite Z0, Z.mul_0_l in D1.
    pose proof (HR c Ic). pose proof (HL c Ic). nia. }
  apply (indep_not_both_orth c1 c2 R Cr NR).
  - apply O. left. reflexivity.
  - apply O. right. left. reflexivity.
Qed.

(* the minimum Feret diameter is the minimum width over ALL directions *)
Theorem feret_min_all_directions PS V :
  HullSpec PS V -> (3 <= length V)%nat ->
  exists bn bd, bf_min V = Some (bn, bd) /\ 0 < bd /\
    width_attained PS bn bd /\ width_lower (fun u => u <> (0, 0)) PS bn bd.
Proof.
  intros HS L3. destruct (feret_min_edge_flush PS V HS L3) as [bn [bd (E & Bd & At & _)]].
  exists bn, bd. split; [exact E|]. split; [exact Bd|]. split; [exact At|].
  apply width_lower_all; [|exact Bd|exact (cone_cover_hull PS V bn bd HS L3 E)].
  destruct At as [u [lo [hi (Nu & _ & _ & W)]]].
  pose proof (Z.square_nonneg (hi - lo)) as Sq. pose proof (norm_pos u Nu) as Pn.
  change (norm2z u) with (dotv u u) in W.
  assert (0 <= (hi - lo) * (hi - lo) * bd) by (apply Z.mul_nonneg_nonneg; lia).
  destruct (Z_lt_le_dec bn 0) as [Neg|]; [|assumption]. exfalso.
  assert (bn * dotv u u < 0) by (apply Z.mul_neg_pos; assumption). lia.
Qed.

(* ---------------------------------------------------------------- one or two hull vertices: the width is 0 *)
Theorem feret_min_degenerate PS V : HullSpec PS V -> (1 <= length V <= 2)%nat ->
  width_attained PS 0 1 /\ width_lower (fun u => u <> (0, 0)) PS 0 1.
Proof.
  intros HS LV. split.
  - destruct V as [|a [|b [|c t]]]; cbn [length] in LV; try lia.
    + exists (1, 0), (fst a), (fst a).
      assert (Ia : In a PS) by (apply (hs_subset _ _ HS); left; reflexivity).
      split; [discriminate|]. split.
      { intros s Hs. rewrite (hs_one _ _ HS a eq_refl s Hs). cbn [fst snd]. lia. }
      split; [exists a, a; cbn [fst snd]; repeat split; try assumption; lia|].
      unfold norm2z. cbn [fst snd]. lia.
    + set (u := (snd b - snd a, - (fst b - fst a))).
      assert (Ib : In b PS) by (apply (hs_subset _ _ HS); right; left; reflexivity).
      assert (On : forall s, In s PS -> fst u * fst s + snd u * snd s = fst u * fst b + snd u * snd b).
      { intros s Hs. destruct (hs_two _ _ HS a b eq_refl s Hs) as [C0 _]. unfold cross in C0. unfold u. cbn [fst snd]. lia. }
      exists u, (fst u * fst b + snd u * snd b), (fst u * fst b + snd u * snd b).
      split.
      { intro E. unfold u in E. injection E as E1 E2. pose proof (hs_nodup _ _ HS) as ND. inversion ND as [|x l Nin _]; subst.
        apply Nin. left. destruct a as [a1 a2], b as [b1 b2]. cbn [fst snd] in *. f_equal; lia. }
      split; [intros s Hs; rewrite (On s Hs); lia|].
      split; [exists b, b; repeat split; assumption|]. lia.
  - intros u lo hi _ _. pose proof (Z.square_nonneg (hi - lo)). lia.
Qed.
