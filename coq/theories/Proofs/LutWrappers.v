(* C06 — the wrapper operations: composing the dispatch theorem, the regenerated constants and the
   table theorems gives, for every operation called without a mask, the documented rule iterated. *)
From Coq Require Import ZArith List Bool Lia ZifyBool.
From Centro Require Import Base.Sx Base.LutBits Spec.LutRule Spec.LutDocs Model.Lut Model.LutOps Gen.TablesC06
     Proofs.LutTables Proofs.LutLoop Proofs.LutSparse Proofs.LutDispatch.
Import ListNotations.
Open Scope Z_scope.

Lemma doc_step P b X : lut_step (doc_table P) b X = op_rule P b X.
Proof.
  unfold lut_step, op_rule. apply tab_ext. intros p q _ _. apply doc_table_spec. reflexivity.
Qed.

Lemma doc_iter k P b : forall X, lut_iter k (doc_table P) b X = iter k (op_rule P b) X.
Proof.
  induction k as [|k IH]; intros X; [reflexivity|]. rewrite lut_iter_S, doc_step. cbn [iter]. apply IH.
Qed.

Lemma gen_ops_nth code P m :
  nth_error doc_ops code = Some (P, m) -> nth_error gen_ops code = Some (doc_table P, meta_code m).
Proof.
  intros E. rewrite wrapper_constants_match_docs.
  rewrite (map_nth_error (fun d => (doc_table (fst d), meta_code (snd d))) code doc_ops E). reflexivity.
Qed.

(* Full (no mask): an operation that passes a count on (mode -2: bridge, clean, diag, fill, fill4,
   majority, thicken with the caller's k; literal k: branchpoints, endpoints) returns the documented
   rule applied that many times with the documented border value, for every rectangular image *)
Theorem wrapper_nomask_correct code P b f mode dt X k :
  nth_error doc_ops (Z.to_nat code) = Some (P, (b, f, mode)) -> 0 <= code < 13 ->
  mode = -2 \/ 0 <= mode ->
  (0 < length X)%nat -> rect X ->
  run_op code dt X None (Some k) = Some (iter (if mode =? -2 then k else Z.to_nat mode) (op_rule P b) X).
Proof.
  intros E Hc Hm LX RX. unfold run_op, SPUR.
  destruct (code =? 13) eqn:C13; [lia|].
  rewrite (gen_ops_nth _ _ _ E). unfold run_table_op, meta_code.
  set (fz := match f with None => -1 | Some v => Z.b2z v end).
  assert (EM : (if fz <? 0 then @None (grid bool) else None) = None) by (destruct (fz <? 0); reflexivity).
  rewrite EM. cbn [masked_of restore].
  assert (EB : negb (Z.b2z b =? 0) = b) by (destruct b; reflexivity). rewrite EB.
  destruct (mode =? -2) eqn:M2.
  - rewrite table_lookup_correct by assumption. rewrite doc_iter. reflexivity.
  - assert (ML : (mode <? 0) = false) by lia. rewrite ML.
    rewrite table_lookup_correct by assumption. rewrite doc_iter. reflexivity.
Qed.

Example wrapper_nomask_ex :
  nth_error doc_ops (Z.to_nat 1) = Some (doc_bridge, (false, Some false, -2)) /\
  nth_error doc_ops (Z.to_nat 4) = Some (doc_endpoints, (false, Some false, 1)).
Proof. split; reflexivity. Qed.

(* ------------------------------------------------------------ masked wrappers *)
Lemma rect_tab H W (f : Z -> Z -> bool) : rect (tab H W f).
Proof.
  unfold rect. destruct H as [|H]; [split; [reflexivity|constructor]|].
  assert (E1 : length (tab (S H) W f) = S H) by (unfold tab; rewrite map_length, seq_length; reflexivity).
  assert (E2 : length (hd [] (tab (S H) W f)) = W)
    by (unfold tab; cbn [length seq map hd]; rewrite map_length, seq_length; reflexivity).
  rewrite E1, E2. apply wf_tab.
Qed.

Lemma len_tab {A} H W (f : Z -> Z -> A) : length (tab H W f) = H.
Proof. unfold tab. rewrite map_length, seq_length. reflexivity. Qed.

Lemma masked_shape X m v : (0 < length X)%nat ->
  (0 < length (masked_of X (Some m) v))%nat /\ rect (masked_of X (Some m) v).
Proof. intros LX. cbn [masked_of]. split; [rewrite len_tab; exact LX|apply rect_tab]. Qed.

(* Full: a masked table wrapper = fill the masked-out pixels with the documented value, apply the
   documented rule the requested number of times to that image, put the input back outside the
   mask (every rectangular image and mask grid, every dtype class) *)
Theorem wrapper_mask_correct code P b v mode dt X m k :
  nth_error doc_ops (Z.to_nat code) = Some (P, (b, Some v, mode)) -> 0 <= code < 13 ->
  mode = -2 \/ 0 <= mode ->
  (0 < length X)%nat ->
  run_op code dt X (Some m) (Some k) =
  Some (spec_restore X (Some m)
          (iter (if mode =? -2 then k else Z.to_nat mode) (op_rule P b) (spec_masked X (Some m) v))).
Proof.
  intros E Hc Hm LX. unfold run_op, SPUR.
  destruct (code =? 13) eqn:C13; [lia|].
  rewrite (gen_ops_nth _ _ _ E). unfold run_table_op, meta_code.
  assert (F0 : (Z.b2z v <? 0) = false) by (destruct v; reflexivity). rewrite F0.
  assert (EB : negb (Z.b2z b =? 0) = b) by (destruct b; reflexivity). rewrite EB.
  assert (EV : negb (Z.b2z v =? 0) = v) by (destruct v; reflexivity). rewrite EV.
  destruct (masked_shape X m v LX) as [LM RM].
  destruct (mode =? -2) eqn:M2.
  - rewrite table_lookup_correct by assumption. rewrite doc_iter. reflexivity.
  - assert (ML : (mode <? 0) = false) by lia. rewrite ML.
    rewrite table_lookup_correct by assumption. rewrite doc_iter. reflexivity.
Qed.

(* what fill-and-restore means pixel by pixel *)
Theorem restore_outside X m R p q :
  0 <= p < gH X -> 0 <= q < gW X -> rd false m p q = false ->
  rd false (spec_restore X (Some m) R) p q = rd false X p q.
Proof. intros Hp Hq Hm. cbn [spec_restore]. rewrite rd_tab by assumption. rewrite Hm. reflexivity. Qed.

Theorem restore_inside X m R p q :
  0 <= p < gH X -> 0 <= q < gW X -> rd false m p q = true ->
  rd false (spec_restore X (Some m) R) p q = rd false R p q.
Proof. intros Hp Hq Hm. cbn [spec_restore]. rewrite rd_tab by assumption. rewrite Hm. reflexivity. Qed.

Example wrapper_mask_ex :
  nth_error doc_ops (Z.to_nat 5) = Some (doc_fill, (true, Some true, -2)).
Proof. reflexivity. Qed.

(* ------------------------------------------------------------ spur *)
Lemma spur1_erosive : erosive t_spur1. Proof. apply erosive_tb_sound. vm_compute. reflexivity. Qed.
Lemma spur2_erosive : erosive t_spur2. Proof. apply erosive_tb_sound. vm_compute. reflexivity. Qed.

Definition spur_round (Y : grid bool) : grid bool := lut_step t_spur2 false (lut_step t_spur1 false Y).

Lemma spur_round_doc Y : spur_round Y = op_rule doc_spur2 false (op_rule doc_spur1 false Y).
Proof. unfold spur_round. rewrite table_spur1, table_spur2, !doc_step. reflexivity. Qed.

Lemma one_pass T (ET : erosive T) X st H2 W2 :
  (0 < length X)%nat -> rect X -> H2 = (length X + 2)%nat -> W2 = (length (hd [] X) + 2)%nat ->
  Inv false X st -> Inv false (lut_step T false X) (index_lookup H2 W2 T (Some 1%nat) st).
Proof.
  intros LX RX EH EW I. unfold index_lookup.
  apply (il_loop_correct T false ET 1 X st H2 W2 LX RX EH EW I).
Qed.

Lemma spur_rounds n : forall X st H2 W2,
  (0 < length X)%nat -> rect X -> H2 = (length X + 2)%nat -> W2 = (length (hd [] X) + 2)%nat ->
  Inv false X st ->
  Inv false (iter n spur_round X)
      (iter n (fun st => index_lookup H2 W2 t_spur2 (Some 1%nat) (index_lookup H2 W2 t_spur1 (Some 1%nat) st)) st) /\
  length (iter n spur_round X) = length X /\ length (hd [] (iter n spur_round X)) = length (hd [] X) /\
  rect (iter n spur_round X) /\
  (forall p q, 0 <= p < gH X -> 0 <= q < gW X -> rd false (iter n spur_round X) p q = true -> rd false X p q = true).
Proof.
  induction n as [|n IH]; intros X st H2 W2 LX RX EH EW I.
  - cbn [iter]. split; [exact I|split; [reflexivity|split; [reflexivity|split; [exact RX|intros p q _ _ S; exact S]]]].
  - cbn [iter].
    set (Y1 := lut_step t_spur1 false X).
    assert (L1 : (0 < length Y1)%nat) by (unfold Y1; rewrite len_step; exact LX).
    assert (I1 : Inv false Y1 (index_lookup H2 W2 t_spur1 (Some 1%nat) st))
      by (apply one_pass; auto using spur1_erosive).
    assert (I2 : Inv false (spur_round X) (index_lookup H2 W2 t_spur2 (Some 1%nat) (index_lookup H2 W2 t_spur1 (Some 1%nat) st))).
    { unfold spur_round. fold Y1. apply one_pass; auto using spur2_erosive.
      - apply rect_step.
      - unfold Y1. rewrite len_step. exact EH.
      - unfold Y1. rewrite lenW_step by exact LX. exact EW. }
    assert (LR : length (spur_round X) = length X) by (unfold spur_round; rewrite !len_step; reflexivity).
    assert (WR : length (hd [] (spur_round X)) = length (hd [] X)).
    { unfold spur_round. rewrite lenW_step by (rewrite len_step; exact LX). apply lenW_step. exact LX. }
    assert (RR : rect (spur_round X)) by (unfold spur_round; apply rect_step).
    assert (LR0 : (0 < length (spur_round X))%nat) by lia.
    assert (EH' : H2 = (length (spur_round X) + 2)%nat) by lia.
    assert (EW' : W2 = (length (hd [] (spur_round X)) + 2)%nat) by lia.
    destruct (IH (spur_round X) _ H2 W2 LR0 RR EH' EW' I2) as [J1 [J2 [J3 [J4 J5]]]].
    split; [exact J1|]. split; [lia|]. split; [lia|]. split; [exact J4|].
      intros p q Hp Hq S. apply J5 in S; [|unfold gH in *; lia|unfold gW in *; lia].
      unfold spur_round in S.
      rewrite rd_step in S by (unfold gH, gW; rewrite ?len_step, ?lenW_step by exact LX; unfold gH, gW in *; lia).
      apply (erosive_step _ _ _ _ _ spur2_erosive) in S.
      rewrite px_in in S by (unfold gH, gW; rewrite ?len_step, ?lenW_step by exact LX; unfold gH, gW in *; lia).
      rewrite rd_step in S by assumption.
      apply (erosive_step _ _ _ _ _ spur1_erosive) in S. rewrite px_in in S by assumption. exact S.
Qed.

(* Full: spur (with or without mask) = the two documented half-rules alternated n times on the
   masked image, input restored outside the mask; n = the requested count, or the number of set
   pixels of the masked image when iterations=None *)
Theorem spur_correct X M iters :
  (0 < length X)%nat -> rect X ->
  let Xm := masked_of X M false in
  let n := match iters with None => length (argwhere1 Xm) | Some k => k end in
  run_spur X M iters =
  spec_restore X M (iter n (fun Y => op_rule doc_spur2 false (op_rule doc_spur1 false Y)) Xm).
Proof.
  intros LX RX Xm n. unfold run_spur. fold Xm.
  assert (SH : (0 < length Xm)%nat /\ rect Xm /\ length Xm = length X /\ length (hd [] Xm) = length (hd [] X) /\
               (forall p q, 0 <= p < gH X -> 0 <= q < gW X -> rd false Xm p q = true -> rd false X p q = true)).
  { unfold Xm. destruct M as [m|]; cbn [masked_of].
    - rewrite len_tab.
      split; [exact LX|]. split; [apply rect_tab|]. split; [reflexivity|]. split.
      + destruct X as [|r X']; [cbn in LX; lia|]. unfold tab. cbn [length seq map hd]. rewrite map_length, seq_length. reflexivity.
      + intros p q Hp Hq S. rewrite rd_tab in S by assumption. destruct (rd false m p q); [exact S|discriminate].
    - split; [exact LX|]. split; [exact RX|]. split; [reflexivity|]. split; [reflexivity|]. intros p q _ _ S. exact S. }
  destruct SH as [LM [RM [E1 [E2 Sub]]]].
  rewrite <- E1, <- E2.
  set (st0 := (argwhere1 Xm, remat (length Xm + 2) (length (hd [] Xm) + 2) (padded false Xm))).
  change (match iters with None => length (fst st0) | Some k => k end) with n.
  destruct (spur_rounds n Xm st0 _ _ LM RM eq_refl eq_refl (Inv_init false Xm)) as [[I1 _] [J2 [J3 [J4 J5]]]].
  assert (EX : extract X (fst (iter n (fun st => index_lookup (length Xm + 2) (length (hd [] Xm) + 2) t_spur2 (Some 1%nat)
                                  (index_lookup (length Xm + 2) (length (hd [] Xm) + 2) t_spur1 (Some 1%nat) st)) st0))
               = iter n spur_round Xm).
  { apply extract_correct; auto; try lia.
    intros p q Hp Hq S. apply Sub; auto. apply J5; unfold gH, gW in *; try lia; try exact S. }
  rewrite EX.
  replace (iter n spur_round Xm) with (iter n (fun Y => op_rule doc_spur2 false (op_rule doc_spur1 false Y)) Xm); [reflexivity|].
  clear. generalize Xm. induction n as [|n IH]; intros Y; [reflexivity|]. cbn [iter]. rewrite <- spur_round_doc. apply IH.
Qed.
