(* C06 — the wrapper operations: composing the dispatch theorem, the regenerated constants and the
   table theorems gives, for every operation called without a mask, the documented rule iterated. *)
From Coq Require Import ZArith List Bool Lia ZifyBool.
From Centro Require Import Base.Sx Base.LutBits Spec.LutRule Spec.LutDocs Model.Lut Model.LutOps Gen.TablesC06
     Proofs.LutTables Proofs.LutLoop Proofs.LutSparse Proofs.LutDispatch.
Import ListNotations.
Open Scope Z_scope.

Lemma doc_step P b X : lut_step (doc_table P) b X = op_rule P b X.
Proof.
  unfold lut_step, op_rule. apply tab_ext. intros p q _ _. apply doc_table_spec. reflexivity.
Qed.

Lemma doc_iter k P b : forall X, lut_iter k (doc_table P) b X = iter k (op_rule P b) X.
Proof.
  induction k as [|k IH]; intros X; [reflexivity|]. rewrite lut_iter_S, doc_step. cbn [iter]. apply IH.
Qed.

Lemma gen_ops_nth code P m :
  nth_error doc_ops code = Some (P, m) -> nth_error gen_ops code = Some (doc_table P, meta_code m).
Proof.
  intros E. rewrite wrapper_constants_match_docs.
  rewrite (map_nth_error (fun d => (doc_table (fst d), meta_code (snd d))) code doc_ops E). reflexivity.
Qed.

(* Full (no mask): an operation that passes a count on (mode -2: bridge, clean, diag, fill, fill4,
   majority, thicken with the caller's k; literal k: branchpoints, endpoints) returns the documented
   rule applied that many times with the documented border value, for every rectangular image *)
Theorem wrapper_nomask_correct code P b f mode dt X k :
  nth_error doc_ops (Z.to_nat code) = Some (P, (b, f, mode)) -> 0 <= code < 13 ->
  mode = -2 \/ 0 <= mode ->
  (0 < length X)%nat -> rect X ->
  run_op code dt X None (Some k) = Some (iter (if mode =? -2 then k else Z.to_nat mode) (op_rule P b) X).
Proof.
  intros E Hc Hm LX RX. unfold run_op, SPUR.
  destruct (code =? 13) eqn:C13; [lia|].
  rewrite (gen_ops_nth _ _ _ E). unfold run_table_op, meta_code.
  set (fz := match f with None => -1 | Some v => Z.b2z v end).
  assert (EM : (if fz <? 0 then @None (grid bool) else None) = None) by (destruct (fz <? 0); reflexivity).
  rewrite EM. cbn [masked_of restore].
  assert (EB : negb (Z.b2z b =? 0) = b) by (destruct b; reflexivity). rewrite EB.
  destruct (mode =? -2) eqn:M2.
  - rewrite table_lookup_correct by assumption. rewrite doc_iter. reflexivity.
  - assert (ML : (mode <? 0) = false) by lia. rewrite ML.
    rewrite table_lookup_correct by assumption. rewrite doc_iter. reflexivity.
Qed.

Example wrapper_nomask_ex :
  nth_error doc_ops (Z.to_nat 1) = Some (doc_bridge, (false, Some false, -2)) /\
  nth_error doc_ops (Z.to_nat 4) = Some (doc_endpoints, (false, Some false, 1)).
Proof. split; reflexivity. Qed.
