(* C19 — fill_labeled_holes_loop (Model.FillC19): the to_do stack never outgrows its array in
   either walk and no access of j / idx / i_count / is_not_hole / adjacent_non_hole leaves its
   array.  Counting arguments: first walk  |stack| + #zeros(is_not_hole) <= |to_do|  (a push turns a
   0 into a 1); second walk  |stack| + #zeros(adjacent_non_hole) <= n  (a push turns a 0 into the
   non-zero value of its parent). *)
From Coq Require Import ZArith List Bool Lia ZifyBool.
From Centro Require Import Base.ArrC19 Model.FillC19 Proofs.GraphC19Safe.
Import ListNotations.
Open Scope Z_scope.

Definition nzc (l : list Z) : Z := zlen (filter (fun x => negb (x =? 0)) l).

Lemma zeros_cons : forall x l, zeros (x :: l) = (if x =? 0 then 1 else 0) + zeros l.
Proof. intros. unfold zeros. cbn [filter]. destruct (x =? 0); unfold zlen; cbn [length]; lia. Qed.

Lemma nzc_cons : forall x l, nzc (x :: l) = (if x =? 0 then 0 else 1) + nzc l.
Proof. intros. unfold nzc. cbn [filter]. destruct (x =? 0); cbn [negb]; unfold zlen; cbn [length]; lia. Qed.

Lemma zeros_nonneg : forall l, 0 <= zeros l.
Proof. intros. unfold zeros. apply zlen_nonneg. Qed.

Lemma nzc_zeros : forall l, nzc l + zeros l = zlen l.
Proof.
  induction l as [|x t IH]; [reflexivity|]. rewrite nzc_cons, zeros_cons.
  unfold zlen in *. cbn [length]. destruct (x =? 0); lia.
Qed.

Lemma zeros_upd : forall l k v, nth_error l k = Some 0 -> v <> 0 -> zeros (upd l k v) = zeros l - 1.
Proof.
  induction l as [|x t IH]; intros k v Hn Hv; destruct k; cbn in Hn; try discriminate.
  - inversion Hn; subst. cbn [upd]. rewrite !zeros_cons. destruct (v =? 0) eqn:E; [lia|].
    change (0 =? 0) with true. cbv iota. lia.
  - cbn [upd]. rewrite !zeros_cons. rewrite (IH k v Hn Hv). lia.
Qed.

Lemma rd_nth : forall (l : list Z) j v, rd l j = Some v -> nth_error l (Z.to_nat j) = Some v.
Proof. intros l j v H. unfold rd in H. destruct (inb j (zlen l)); [assumption|discriminate]. Qed.

Lemma firstn_S_nth : forall (l : list Z) k x, nth_error l k = Some x -> firstn (S k) l = firstn k l ++ [x].
Proof.
  induction l as [|y t IH]; intros k x Hn; destruct k; cbn in Hn; try discriminate.
  - inversion Hn; subst. reflexivity.
  - change (firstn (S (S k)) (y :: t)) with (y :: firstn (S k) t).
    change (firstn (S k) (y :: t)) with (y :: firstn k t). rewrite (IH k x Hn). reflexivity.
Qed.

Lemma nzc_app : forall a b, nzc (a ++ b) = nzc a + nzc b.
Proof. intros. unfold nzc. rewrite filter_app. unfold zlen. rewrite app_length. lia. Qed.

Section Fill.
Variables (n cap lcount : Z) (jarr idx cnt : list Z).
Hypothesis Hn0 : 0 <= n.
Hypothesis Hli : zlen idx = n.
Hypothesis Hlc : zlen cnt = n.
Hypothesis Hj : forall v, In v jarr -> 0 <= v < n.
Hypothesis Hseg : forall v, 0 <= v < n -> 0 <= sel idx v /\ sel idx v + sel cnt v <= zlen jarr.
Hypothesis Hcap : n <= cap.

(* ---------------------------------------------------------------- first walk *)
Definition P1 (s : fstate) : Prop :=
  zlen (inh s) = n /\ zlen (adj s) = n /\ Forall (fun v => 0 <= v < n) (stk s) /\
  zlen (stk s) + zeros (inh s) <= cap.

Lemma f1_edge_ok : forall ii base s jidx, P1 s -> 0 <= base + jidx < zlen jarr ->
  exists s', f1_edge cap lcount ii jarr base s jidx = Some s' /\ P1 s'.
Proof.
  intros ii base s jidx (Li & La & Fs & Hm) Hr. unfold f1_edge.
  destruct (rd_ok _ jarr (base + jidx) Hr) as [jj Ejj]. rewrite Ejj. cbn [bind].
  apply rd_some in Ejj. destruct Ejj as [_ Ijj]. apply Hj in Ijj.
  rewrite (rd_sel (inh s) jj) by lia. cbn [bind].
  destruct (sel (inh s) jj =? 0) eqn:Eh; [|exists s; split; [reflexivity|repeat split; assumption]].
  assert (Hz : rd (inh s) jj = Some 0) by (rewrite (rd_sel (inh s) jj) by lia; f_equal; lia).
  (* the marking step, used by both `fall through` cases *)
  assert (Mark : exists s', (do inh' <- wr (inh s) jj 1;
                 if zlen (stk s) <? cap then Some (mkf inh' (adj s) (jj :: stk s)) else None) = Some s' /\ P1 s').
  { destruct (wr_ok _ (inh s) jj 1 ltac:(lia)) as [inh' [Ew Lw]]. rewrite Ew. cbn [bind].
    apply wr_some in Ew. destruct Ew as (_ & -> & _).
    pose proof (zeros_upd (inh s) (Z.to_nat jj) 1 (rd_nth _ _ _ Hz) ltac:(lia)) as Zu.
    pose proof (zeros_nonneg (upd (inh s) (Z.to_nat jj) 1)).
    replace (zlen (stk s) <? cap) with true by lia.
    eexists; split; [reflexivity|]. unfold P1; cbn [inh adj stk]. rewrite zlen_upd.
    split; [assumption|]. split; [assumption|]. split; [constructor; assumption|].
    unfold zlen in *. cbn [length]. lia. }
  destruct (ii <=? lcount).
  - rewrite (rd_sel (adj s) jj) by lia. cbn [bind].
    destruct (sel (adj s) jj =? 0).
    + destruct (wr_ok _ (adj s) jj ii ltac:(lia)) as [adj' [Ew Lw]]. rewrite Ew. cbn [bind].
      eexists; split; [reflexivity|]. unfold P1; cbn [inh adj stk]. repeat split; auto; lia.
    + destruct (sel (adj s) jj =? ii); cbn [bind]; [exists s; split; [reflexivity|repeat split; assumption]|].
      exact Mark.
  - destruct (lcount <? jj); cbn [bind]; [exists s; split; [reflexivity|repeat split; assumption]|].
    exact Mark.
Qed.

Lemma f1_pop_ok : forall s, P1 s -> exists s', f1_pop cap lcount jarr idx cnt s = Some s' /\ P1 s'.
Proof.
  intros s (Li & La & Fs & Hm). unfold f1_pop. destruct (stk s) as [|ii rest] eqn:ES.
  - exists s. split; [reflexivity|]. unfold P1. rewrite ES. repeat split; auto.
  - assert (Rii : 0 <= ii < n) by (inversion Fs; assumption).
    rewrite (rd_sel cnt ii) by lia. cbn [bind]. rewrite (rd_sel idx ii) by lia. cbn [bind].
    destruct (Hseg ii Rii) as [S0 S1].
    apply (foldM_inv _ _ P1 (fun jidx => 0 <= jidx < sel cnt ii)).
    + unfold P1; cbn [inh adj stk]. repeat split; auto.
      * inversion Fs; assumption.
      * unfold zlen in *. cbn [length] in Hm. lia.
    + apply Forall_forall. intros x Hx. apply In_zrange in Hx. lia.
    + intros s0 x Hs0 Hx. apply f1_edge_ok; [assumption|lia].
Qed.

Lemma f1_run_ok : forall fuel s, P1 s -> exists s', f1_run fuel cap lcount jarr idx cnt s = Some s' /\ P1 s'.
Proof.
  induction fuel as [|f IH]; intros s Hs; cbn [f1_run]; [eauto|].
  destruct (f1_pop_ok s Hs) as [s' [E Hs']].
  destruct (stk s) eqn:ES; [eauto|]. rewrite E. cbn [bind]. apply IH. exact Hs'.
Qed.

(* ---------------------------------------------------------------- second walk *)
Definition P2 (s : fstate) : Prop :=
  zlen (inh s) = n /\ zlen (adj s) = n /\
  Forall (fun v => 0 <= v < n /\ sel (adj s) v <> 0) (stk s) /\
  zlen (stk s) + zeros (adj s) <= n.

(* collecting: after looking at labels 0 .. k-1 the stack holds at most as many entries as there
   are non-zero cells among adjacent_non_hole[0 .. k) *)
Definition PC (k : Z) (s : fstate) : Prop :=
  zlen (inh s) = n /\ zlen (adj s) = n /\
  Forall (fun v => 0 <= v < n /\ sel (adj s) v <> 0) (stk s) /\
  zlen (stk s) <= nzc (firstn (Z.to_nat k) (adj s)).

Lemma nzc_single : forall x, nzc [x] = if x =? 0 then 0 else 1.
Proof. intros. unfold nzc. cbn [filter]. destruct (x =? 0); reflexivity. Qed.

Lemma nzc_nonneg : forall l, 0 <= nzc l.
Proof. intros. unfold nzc. apply zlen_nonneg. Qed.

Lemma nzc_firstn_le : forall l k, nzc (firstn k l) <= nzc l.
Proof.
  induction l as [|x t IH]; intros k; destruct k; cbn [firstn]; try lia.
  - change (nzc []) with 0. apply nzc_nonneg.
  - rewrite !nzc_cons. specialize (IH k). destruct (x =? 0); lia.
Qed.

Lemma f2_collect_ok : forall k s, 0 <= k < n -> PC k s ->
  exists s', f2_collect cap s k = Some s' /\ PC (k + 1) s'.
Proof.
  intros k s Hk (Li & La & Fs & Hm). unfold f2_collect.
  rewrite (rd_sel (inh s) k) by lia. cbn [bind]. rewrite (rd_sel (adj s) k) by lia. cbn [bind].
  assert (Hnth : nth_error (adj s) (Z.to_nat k) = Some (sel (adj s) k)).
  { apply rd_nth. apply rd_sel. lia. }
  assert (Hfs : firstn (Z.to_nat (k + 1)) (adj s) = firstn (Z.to_nat k) (adj s) ++ [sel (adj s) k]).
  { replace (Z.to_nat (k + 1)) with (S (Z.to_nat k)) by lia. apply firstn_S_nth. exact Hnth. }
  destruct ((sel (inh s) k =? 0) && negb (sel (adj s) k =? 0)) eqn:E.
  - assert (Hb : zlen (stk s) < cap).
    { pose proof (nzc_firstn_le (adj s) (Z.to_nat k)). pose proof (nzc_zeros (adj s)).
      pose proof (zeros_nonneg (adj s)).
      (* the k-th cell itself is non-zero and not among the first k *)
      pose proof (nzc_firstn_le (adj s) (Z.to_nat (k + 1))) as Hle. rewrite Hfs, nzc_app, nzc_single in Hle.
      replace (sel (adj s) k =? 0) with false in Hle by lia. lia. }
    replace (zlen (stk s) <? cap) with true by lia.
    eexists; split; [reflexivity|]. unfold PC; cbn [inh adj stk]. repeat split; auto.
    + constructor; [split; lia|assumption].
    + rewrite Hfs, nzc_app, nzc_single. replace (sel (adj s) k =? 0) with false by lia.
      unfold zlen in *. cbn [length]. lia.
  - exists s. split; [reflexivity|]. unfold PC. repeat split; auto.
    rewrite Hfs, nzc_app, nzc_single.
    destruct (sel (adj s) k =? 0); lia.
Qed.

Lemma collect_all : forall m k s, k + Z.of_nat m = n -> 0 <= k -> PC k s ->
  exists s', foldM (f2_collect cap) (zseq k m) s = Some s' /\ PC n s'.
Proof.
  induction m as [|m IH]; intros k s Hk H0 Hs; cbn [zseq foldM].
  - exists s. split; [reflexivity|]. replace n with k by lia. exact Hs.
  - destruct (f2_collect_ok k s ltac:(lia) Hs) as [s' [E Hs']]. rewrite E.
    apply IH; [lia|lia|exact Hs'].
Qed.

Lemma PC_P2 : forall s, PC n s -> P2 s.
Proof.
  intros s (Li & La & Fs & Hm). unfold P2. repeat split; auto.
  assert (firstn (Z.to_nat n) (adj s) = adj s) by (apply firstn_all2; unfold zlen in La; lia).
  rewrite H in Hm. pose proof (nzc_zeros (adj s)). lia.
Qed.

Lemma f2_edge_ok : forall ii base s jidx, P2 s -> 0 <= ii < n -> sel (adj s) ii <> 0 ->
  0 <= base + jidx < zlen jarr ->
  exists s', f2_edge cap ii jarr base s jidx = Some s' /\ P2 s' /\ sel (adj s') ii <> 0.
Proof.
  intros ii base s jidx (Li & La & Fs & Hm) Rii Hii Hr. unfold f2_edge.
  destruct (rd_ok _ jarr (base + jidx) Hr) as [jj Ejj]. rewrite Ejj. cbn [bind].
  apply rd_some in Ejj. destruct Ejj as [_ Ijj]. apply Hj in Ijj.
  rewrite (rd_sel (inh s) jj) by lia. cbn [bind]. rewrite (rd_sel (adj s) jj) by lia. cbn [bind].
  destruct ((sel (inh s) jj =? 0) && (sel (adj s) jj =? 0)) eqn:E;
    [|exists s; split; [reflexivity|split; [repeat split; assumption|assumption]]].
  rewrite (rd_sel (adj s) ii) by lia. cbn [bind].
  destruct (wr_ok _ (adj s) jj (sel (adj s) ii) ltac:(lia)) as [adj' [Ew Lw]]. rewrite Ew. cbn [bind].
  apply wr_some in Ew. destruct Ew as (_ & -> & _).
  assert (Hz : rd (adj s) jj = Some 0) by (rewrite (rd_sel (adj s) jj) by lia; f_equal; lia).
  pose proof (zeros_upd (adj s) (Z.to_nat jj) (sel (adj s) ii) (rd_nth _ _ _ Hz) Hii) as Zu.
  pose proof (zeros_nonneg (upd (adj s) (Z.to_nat jj) (sel (adj s) ii))).
  assert (Keep : forall v, 0 <= v < n -> sel (adj s) v <> 0 ->
                 sel (upd (adj s) (Z.to_nat jj) (sel (adj s) ii)) v <> 0).
  { intros v Hv Hnz. destruct (Z.eq_dec v jj) as [->|Hne]; [rewrite sel_upd_same by lia; assumption|].
    rewrite sel_upd_other by lia. assumption. }
  replace (zlen (stk s) <? cap) with true by lia.
  eexists; split; [reflexivity|]. cbn [inh adj stk]. split; [|apply Keep; assumption].
  unfold P2; cbn [inh adj stk]. rewrite zlen_upd. split; [assumption|]. split; [assumption|]. split.
  - constructor.
    + split; [lia|]. rewrite sel_upd_same by lia. assumption.
    + eapply Forall_impl; [|exact Fs]. cbn. intros v [Hv Hnz]. split; [assumption|]. apply Keep; assumption.
  - unfold zlen in *. cbn [length]. lia.
Qed.

Lemma f2_pop_ok : forall s, P2 s -> exists s', f2_pop cap jarr idx cnt s = Some s' /\ P2 s'.
Proof.
  intros s (Li & La & Fs & Hm). unfold f2_pop. destruct (stk s) as [|ii rest] eqn:ES.
  - exists s. split; [reflexivity|]. unfold P2. rewrite ES. repeat split; auto.
  - assert (Rii : 0 <= ii < n /\ sel (adj s) ii <> 0) by (inversion Fs; assumption).
    destruct Rii as [Rii Nii].
    rewrite (rd_sel cnt ii) by lia. cbn [bind]. rewrite (rd_sel idx ii) by lia. cbn [bind].
    destruct (Hseg ii Rii) as [S0 S1].
    destruct (foldM_inv _ _ (fun s0 => P2 s0 /\ sel (adj s0) ii <> 0) (fun jidx => 0 <= jidx < sel cnt ii)
                (f2_edge cap ii jarr (sel idx ii)) (zrange 0 (sel cnt ii)) (mkf (inh s) (adj s) rest))
      as [s' [E [Hs' _]]].
    + split; [|assumption]. unfold P2; cbn [inh adj stk]. repeat split; auto.
      * inversion Fs; assumption.
      * unfold zlen in *. cbn [length] in Hm. lia.
    + apply Forall_forall. intros x Hx. apply In_zrange in Hx. lia.
    + intros s0 x [Hs0 Hn0'] Hx. destruct (f2_edge_ok ii (sel idx ii) s0 x Hs0 Rii Hn0' ltac:(lia)) as [s1 (E1 & P & N)].
      exists s1. auto.
    + exists s'. auto.
Qed.

Lemma f2_run_ok : forall fuel s, P2 s -> exists s', f2_run fuel cap jarr idx cnt s = Some s' /\ P2 s'.
Proof.
  induction fuel as [|f IH]; intros s Hs; cbn [f2_run]; [eauto|].
  destruct (f2_pop_ok s Hs) as [s' [E Hs']].
  destruct (stk s) eqn:ES; [eauto|]. rewrite E. cbn [bind]. apply IH. exact Hs'.
Qed.

End Fill.

Theorem fill_safe : forall fuel n cap lcount jarr idx cnt inh0 adj0 todo0,
  kernel_pre_fill n cap jarr idx cnt inh0 adj0 todo0 = true ->
  fill_labeled_holes_loop fuel cap lcount jarr idx cnt inh0 adj0 todo0 <> None.
Proof.
  intros fuel n cap lcount jarr idx cnt inh0 adj0 todo0 Hp. unfold kernel_pre_fill in Hp.
  apply andb_prop in Hp. destruct Hp as [Hp Hcap]. apply andb_prop in Hp. destruct Hp as [Hp Hm].
  apply andb_prop in Hp. destruct Hp as [Hp Hseg]. apply andb_prop in Hp. destruct Hp as [Hp Ht].
  apply andb_prop in Hp. destruct Hp as [Hp Hj].
  assert (Li : zlen inh0 = n) by lia. assert (La : zlen adj0 = n) by lia.
  assert (Lx : zlen idx = n) by lia. assert (Lc : zlen cnt = n) by lia.
  assert (Hn0 : 0 <= n) by (pose proof (zlen_nonneg _ inh0); lia).
  assert (Hj' : forall v, In v jarr -> 0 <= v < n).
  { intros v Hv. apply (forallb_In _ _ _ _ Hj) in Hv. apply inb_true in Hv. exact Hv. }
  assert (Hseg' : forall v, 0 <= v < n -> 0 <= sel idx v /\ sel idx v + sel cnt v <= zlen jarr).
  { intros v Hv. assert (Hin : In v (zrange 0 n)) by (apply In_zrange; lia).
    apply (forallb_In _ _ _ _ Hseg) in Hin.
    rewrite (rd_sel idx v) in Hin by lia. rewrite (rd_sel cnt v) in Hin by lia. lia. }
  unfold fill_labeled_holes_loop.
  destruct (f1_run_ok n cap lcount jarr idx cnt Lx Lc Hj' Hseg' fuel (mkf inh0 adj0 todo0)) as [s1 [E1 (L1 & A1 & _ & _)]].
  { unfold P1; cbn [inh adj stk]. repeat split; auto; try lia.
    apply Forall_forall. intros v Hv. apply (forallb_In _ _ _ _ Ht) in Hv. apply inb_true in Hv. exact Hv. }
  rewrite E1. cbn [bind].
  assert (Hcap' : n <= cap) by lia.
  rewrite Li. unfold zrange. replace (n - 0) with n by lia.
  destruct (collect_all n cap idx cnt Hcap' (Z.to_nat n) 0 (mkf (inh s1) (adj s1) [])) as [s2 [E2 H2]].
  - lia.
  - lia.
  - unfold PC; cbn [inh adj stk]. split; [assumption|]. split; [assumption|]. split; [constructor|].
    change (zlen (@nil Z)) with 0. apply nzc_nonneg.
  - rewrite E2. cbn [bind].
    destruct (f2_run_ok n cap jarr idx cnt Lx Lc Hj' Hseg' Hcap' fuel s2 (PC_P2 n s2 H2)) as [s3 [E3 _]].
    rewrite E3. discriminate.
Qed.

(* labels 0..3: 1 is an object (lcount = 1), 0/2/3 are background regions; edges 0-1, 1-2, 2-3 *)
Example fill_pre_example :
  kernel_pre_fill 4 4 [1; 0; 2; 1; 3; 2] [0; 1; 3; 5] [1; 2; 2; 1] [1; 0; 0; 0] [0; 0; 0; 0] [0] = true /\
  match fill_labeled_holes_loop 20 4 1 [1; 0; 2; 1; 3; 2] [0; 1; 3; 5] [1; 2; 2; 1] [1; 0; 0; 0] [0; 0; 0; 0] [0] with
  | Some s => True
  | None => False
  end.
Proof. vm_compute. split; [reflexivity|exact I]. Qed.

(* a scratch stack one entry too short for the labels still marked 0 *)
Example fill_pre_needed :
  fill_labeled_holes_loop 20 1 2 [1; 2] [0; 0; 0; 0] [0; 0; 0; 2] [1; 0; 0; 1] [0; 0; 0; 0] [3] = None.
Proof. vm_compute. reflexivity. Qed.
