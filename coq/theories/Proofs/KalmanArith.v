(* C09 — the shortcut operations of Model/Kalman.v are the field operations of Qc. *)
From Coq Require Import ZArith List Bool QArith Qcanon.
From Centro Require Import Model.Kalman.
Import ListNotations.
Open Scope Qc_scope.

Lemma is0_sound x : is0 x = true -> x = 0.
Proof.
  unfold is0. destruct x as [[n d] c]. cbn [this Qnum]. destruct n; try discriminate. intros _.
  apply Qc_is_canon. cbn [this]. unfold Qeq. cbn. reflexivity.
Qed.

Lemma is1_sound x : is1 x = true -> x = 1.
Proof.
  unfold is1. destruct x as [[n d] c]. cbn [this Qnum Qden]. destruct n as [|[p|p|]|]; try discriminate.
  destruct d; try discriminate. intros _. apply Qc_is_canon. cbn [this]. reflexivity.
Qed.

Lemma qmul_eq x y : qmul x y = x * y.
Proof.
  unfold qmul. destruct (is0 x) eqn:E0; [rewrite (is0_sound x E0); ring|].
  destruct (is0 y) eqn:E1; [rewrite (is0_sound y E1); ring|].
  destruct (is1 x) eqn:E2; [rewrite (is1_sound x E2); ring|].
  destruct (is1 y) eqn:E3; [rewrite (is1_sound y E3); ring|]. reflexivity.
Qed.

Lemma qadd_eq x y : qadd x y = x + y.
Proof.
  unfold qadd. destruct (is0 x) eqn:E0; [rewrite (is0_sound x E0); ring|].
  destruct (is0 y) eqn:E1; [rewrite (is0_sound y E1); ring|]. reflexivity.
Qed.

Lemma qsub_eq x y : qsub x y = x - y.
Proof. unfold qsub. destruct (is0 y) eqn:E1; [rewrite (is0_sound y E1); ring|]. reflexivity. Qed.

Ltac qnorm := rewrite ?qmul_eq, ?qadd_eq, ?qsub_eq.
