(* C08 — filling twice equals filling once.  After one fill every changed region has merged into
   an unchanged object; on the output image every region is derivable by R1-R3 again (the
   derivation in the input graph is transported pixel by pixel), so the second fill changes
   nothing.  No unique-parent hypothesis is needed. *)
From Coq Require Import ZArith List Bool Lia ZifyBool.
From Centro Require Import Base.FillZMap Model.FillHoles Spec.FillHoles Proofs.FillRagged Proofs.FillImage Proofs.FillLabel.
Import ListNotations.
Open Scope Z_scope.

(* ---------------------------------------------------------------- grids *)
Lemma zseq_app m : forall lo n, zseq lo (m + n) = zseq lo m ++ zseq (lo + Z.of_nat m) n.
Proof.
  induction m as [|m IH]; intros lo n; cbn [plus zseq app].
  - f_equal. lia.
  - f_equal. rewrite IH. f_equal. f_equal. lia.
Qed.

Lemma map_shift (g : Z -> Z) a n : forall lo, map (fun c => g (a + c)) (zseq lo n) = map g (zseq (a + lo) n).
Proof. induction n as [|n IH]; intros lo; cbn [zseq map]; [reflexivity|]. f_equal. rewrite IH. f_equal. f_equal. lia. Qed.

Lemma concat_grid g H W : concat (grid_of H W g) = map g (zseq 0 (H * W)).
Proof.
  unfold grid_of.
  assert (G : forall H lo, concat (map (fun r => map (fun c => g (r * Z.of_nat W + c)) (zseq 0 W)) (zseq lo H)) =
                           map g (zseq (lo * Z.of_nat W) (H * W))).
  { induction H0 as [|h IH]; intros lo; cbn [zseq map concat mult]; [reflexivity|].
    rewrite IH, (map_shift g (lo * Z.of_nat W) W 0), zseq_app, map_app. f_equal; f_equal; f_equal; lia. }
  apply (G H 0).
Qed.

Lemma grid_len g H W : length (grid_of H W g) = H.
Proof. unfold grid_of. rewrite map_length, zseq_length. reflexivity. Qed.
Lemma grid_rect g H W : Forall (fun r => length r = W) (grid_of H W g).
Proof. unfold grid_of. apply Forall_forall. intros r Hr. apply in_map_iff in Hr as [x [<- _]]. rewrite map_length, zseq_length. reflexivity. Qed.
Lemma grid_hd g H W : (0 < H)%nat -> length (hd [] (grid_of H W g)) = W.
Proof. intros Hp. destruct H as [|h]; [lia|]. unfold grid_of. cbn [zseq map hd]. rewrite map_length, zseq_length. reflexivity. Qed.

Lemma nth_map_zseq (g : Z -> Z) n : forall lo k, (k < n)%nat -> nth k (map g (zseq lo n)) 0 = g (lo + Z.of_nat k).
Proof.
  induction n as [|n IH]; intros lo k Hk; [lia|]. cbn [zseq map]. destruct k as [|k]; cbn [nth]; [f_equal; lia|].
  rewrite IH by lia. f_equal. lia.
Qed.

Lemma pixv_grid g H W p : 0 <= p < Z.of_nat (H * W) -> pixv (grid_of H W g) p = g p.
Proof.
  intros Hp. unfold pixv. rewrite concat_grid, zload_spec, getz_empty, map_length, zseq_length.
  destruct ((0 <=? p) && (p <? 0 + Z.of_nat (H * W))) eqn:B; [|lia].
  rewrite nth_map_zseq by lia. f_equal. lia.
Qed.

Lemma grid_ext g g' H W : (forall p, 0 <= p < Z.of_nat (H * W) -> g p = g' p) -> grid_of H W g = grid_of H W g'.
Proof.
  intros E. unfold grid_of. apply map_ext_in. intros r Hr. apply map_ext_in. intros c Hc.
  apply zseq_In in Hr. apply zseq_In in Hc. apply E. nia.
Qed.

(* ---------------------------------------------------------------- facts about one image, in img_* terms *)
Section Facts.
Variable rows : list (list Z).
Variable bl : zmap Z.
Variable count : Z.
Hypothesis Hrn : rect_nonneg rows.
Hypothesis Hvl : valid_labelling rows bl count.

Let Hz := Z.of_nat (length rows).
Let Wz := Z.of_nat (length (hd [] rows)).
Let N := Z.of_nat (length (concat rows)).
Let reg := getz (img_regions rows bl).
Let lc := img_lcount rows.
Let E := img_edges rows bl.
Let B := img_border rows bl.

Lemma F_reg p : 0 <= p < N ->
  0 < reg p /\ (isobj lc (reg p) = true <-> pixv rows p <> 0) /\ (pixv rows p <> 0 -> reg p = pixv rows p) /\
  (pixv rows p = 0 -> reg p = getz bl p + lc + 1).
Proof.
  intros Hp. destruct Hrn as [Hr [Hn [Hw Hh]]]. destruct Hvl as [A Bq C D].
  destruct (reg_facts rows bl count Hn Hw Hh A Bq p Hp) as [X1 [X2 [X3 X4]]]. repeat split; try lia; try tauto; auto.
Qed.

Lemma F_pixel_edge p q : adj4 Hz Wz p q -> reg p <> reg q -> In (reg p, reg q) E.
Proof. destruct Hrn as [Hr [Hn [Hw Hh]]]. exact (pixel_edge rows bl count Hw Hh p q). Qed.

Lemma F_edge_adj4 a b : In (a, b) E -> exists p q, adj4 Hz Wz p q /\ reg p = a /\ reg q = b.
Proof. destruct Hrn as [Hr [Hn [Hw Hh]]]. exact (edge_adj4 rows bl count Hw Hh a b). Qed.

Lemma F_edge_ne a b : In (a, b) E -> a <> b.
Proof. destruct Hrn as [Hr [Hn [Hw Hh]]]. exact (edge_ne rows bl count Hw Hh a b). Qed.

Lemma F_has_pixel v : Unch E B lc v -> exists p, 0 <= p < N /\ reg p = v.
Proof. destruct Hrn as [Hr [Hn [Hw Hh]]]. exact (unch_has_pixel rows bl count Hr Hw Hh v). Qed.

Lemma F_border_in p : on_border Hz Wz p -> In (reg p) B.
Proof. destruct Hrn as [Hr [Hn [Hw Hh]]]. destruct Hvl as [A Bq C D]. exact (border_pixel_region rows bl count Hr Hn Hw Hh A Bq p). Qed.

Lemma F_border_pixel v : In v B -> exists q, on_border Hz Wz q /\ v = reg q.
Proof. destruct Hrn as [Hr [Hn [Hw Hh]]]. exact (border_region_pixel rows bl count Hw Hh v). Qed.

Lemma F_border_range q : on_border Hz Wz q -> 0 <= q < N.
Proof. destruct Hrn as [Hr [Hn [Hw Hh]]]. exact (on_border_in_range rows count Hr Hw Hh q). Qed.

Lemma F_adj_range p q : adj4 Hz Wz p q -> 0 <= p < N /\ 0 <= q < N.
Proof. destruct Hrn as [Hr [Hn [Hw Hh]]]. exact (adj4_in_range rows count Hr Hw Hh p q). Qed.

Lemma F_path_region p q : pixv rows p = 0 -> 0 <= p < N -> BgPath rows p q -> pixv rows q = 0 /\ 0 <= q < N /\ reg q = reg p.
Proof.
  destruct Hrn as [Hr [Hn [Hw Hh]]]. destruct Hvl as [A Bq C D].
  exact (bgpath_same_region rows bl count Hr Hn Hw Hh A Bq C D p q).
Qed.

Lemma F_dec v : Unch E B lc v \/ ~ Unch E B lc v.
Proof.
  destruct Hrn as [Hr [Hn [Hw Hh]]]. destruct Hvl as [A Bq C D].
  exact (decide_unch rows bl count Hr Hn Hw Hh A Bq C D v).
Qed.

End Facts.

(* ---------------------------------------------------------------- the second fill changes nothing *)
Section Idem.
Variable rows : list (list Z).
Variable bl bl' : zmap Z.
Variable count count' : Z.
Variable g : Z -> Z.
Hypothesis Hrn : rect_nonneg rows.
Hypothesis Hvl : valid_labelling rows bl count.
Hypothesis Hsep : components_separate rows bl.

Let H := length rows.
Let W := length (hd [] rows).
Let x' := grid_of H W g.
Let Hz := Z.of_nat H.
Let Wz := Z.of_nat W.
Let N := Z.of_nat (length (concat rows)).
Let reg := getz (img_regions rows bl).
Let lc := img_lcount rows.
Let E := img_edges rows bl.
Let B := img_border rows bl.
Let reg' := getz (img_regions x' bl').
Let lc' := img_lcount x'.
Let E' := img_edges x' bl'.
Let B' := img_border x' bl'.

(* g = the first fill's output *)
Hypothesis Hg : forall p, 0 <= p < N -> paint_ok E B lc (reg p) (g p).
Hypothesis Hvl' : valid_labelling x' bl' count'.

Lemma D1 : length x' = length rows. Proof. apply grid_len. Qed.
Lemma D2 : length (hd [] x') = length (hd [] rows).
Proof. apply grid_hd. destruct Hrn as [_ [_ [_ Hh]]]. exact Hh. Qed.
Lemma D3 : length (concat x') = length (concat rows).
Proof.
  unfold x'. rewrite concat_grid, map_length, zseq_length. destruct Hrn as [Hr _]. rewrite (concat_length_rect rows _ Hr). reflexivity.
Qed.
Lemma DN : N = Z.of_nat (H * W).
Proof. unfold N. destruct Hrn as [Hr _]. rewrite (concat_length_rect rows _ Hr). reflexivity. Qed.

Lemma px' p : 0 <= p < N -> pixv x' p = g p.
Proof. intros Hp. apply pixv_grid. rewrite <- DN. exact Hp. Qed.

Lemma K1 p : 0 <= p < N -> Unch E B lc (reg p) -> pixv x' p = pixv rows p.
Proof.
  intros Hp Uv. rewrite (px' p Hp). destruct (Hg p Hp) as [A _]. rewrite (A Uv).
  destruct (F_reg rows bl count Hrn Hvl p Hp) as [_ [O [F1 _]]]. fold reg lc in O, F1.
  destruct (isobj lc (reg p)) eqn:Ob.
  - apply F1. apply O. reflexivity.
  - destruct (Z.eq_dec (pixv rows p) 0) as [->|Nz]; [reflexivity|]. apply O in Nz. congruence.
Qed.

Lemma K2 p : 0 <= p < N -> ~ Unch E B lc (reg p) -> Parent E B lc (reg p) (pixv x' p).
Proof. intros Hp Nv. rewrite (px' p Hp). apply (Hg p Hp). exact Nv. Qed.

Lemma unch_pixel k : Unch E B lc k -> isobj lc k = true ->
  exists q, 0 <= q < N /\ reg q = k /\ pixv rows q = k /\ k <> 0.
Proof.
  intros Uk Ok. destruct (F_has_pixel rows bl count Hrn k Uk) as [q [Rq Eq]]. fold N reg in Rq, Eq.
  destruct (F_reg rows bl count Hrn Hvl q Rq) as [P [O [F1 _]]]. fold reg lc in P, O, F1.
  exists q. split; [exact Rq|]. split; [exact Eq|]. rewrite Eq in *. split; [symmetry; apply F1; apply O; exact Ok|lia].
Qed.

Lemma g_nonneg p : 0 <= p < N -> 0 <= pixv x' p.
Proof.
  intros Hp. destruct (F_dec rows bl count Hrn Hvl (reg p)) as [Uv|Nv].
  - rewrite (K1 p Hp Uv). destruct Hrn as [_ [Hn _]]. unfold pixv. rewrite zload_spec, getz_empty.
    destruct ((0 <=? p) && (p <? 0 + Z.of_nat (length (concat rows)))) eqn:C; [|lia].
    rewrite Forall_forall in Hn. apply Hn. apply nth_In. unfold N in Hp. lia.
  - destruct (K2 p Hp Nv) as [Uk [Ok _]]. destruct (unch_pixel _ Uk Ok) as [q [Rq [Eq [Pq Nz]]]].
    destruct (F_reg rows bl count Hrn Hvl q Rq) as [P _]. fold reg in P. lia.
Qed.

Lemma Hrn' : rect_nonneg x'.
Proof.
  destruct Hrn as [Hr [Hn [Hw Hh]]]. unfold rect_nonneg. rewrite D1, D2. split; [apply grid_rect|]. split; [|split; assumption].
  unfold x'. rewrite concat_grid. apply Forall_forall. intros v Hv. apply in_map_iff in Hv as [p [<- Hp]]. apply zseq_In in Hp.
  assert (Hp' : 0 <= p < N) by (rewrite DN; lia). rewrite <- (px' p Hp'). apply g_nonneg. exact Hp'.
Qed.

(* the facts about the output image, with the input's dimensions *)
Lemma Rg' p : 0 <= p < N ->
  0 < reg' p /\ (isobj lc' (reg' p) = true <-> pixv x' p <> 0) /\ (pixv x' p <> 0 -> reg' p = pixv x' p).
Proof.
  intros Hp. assert (Hp' : 0 <= p < Z.of_nat (length (concat x'))) by (rewrite D3; exact Hp).
  destruct (F_reg x' bl' count' Hrn' Hvl' p Hp') as [A [O [F1 _]]]. auto.
Qed.
Lemma PE' p q : adj4 Hz Wz p q -> reg' p <> reg' q -> In (reg' p, reg' q) E'.
Proof. intros A. apply (F_pixel_edge x' bl' count' Hrn'). rewrite D1, D2. exact A. Qed.
Lemma BI' p : on_border Hz Wz p -> In (reg' p) B'.
Proof. intros A. apply (F_border_in x' bl' count' Hrn' Hvl'). rewrite D1, D2. exact A. Qed.
Lemma PR' p q : pixv x' p = 0 -> 0 <= p < N -> BgPath x' p q -> reg' q = reg' p.
Proof.
  intros Pp Hp Path. assert (Hp' : 0 <= p < Z.of_nat (length (concat x'))) by (rewrite D3; exact Hp).
  apply (F_path_region x' bl' count' Hrn' Hvl' p q Pp Hp' Path).
Qed.

(* pixels of one unchanged region of the input lie in one region of the output *)
Lemma same_region v p q : Unch E B lc v -> 0 <= p < N -> 0 <= q < N -> reg p = v -> reg q = v -> reg' p = reg' q.
Proof.
  intros Uv Hp Hq Ep Eq.
  destruct (F_reg rows bl count Hrn Hvl p Hp) as [_ [Op [Fp Bp]]]. destruct (F_reg rows bl count Hrn Hvl q Hq) as [_ [Oq [Fq Bq]]].
  fold reg lc in Op, Fp, Bp, Oq, Fq, Bq.
  assert (Up : Unch E B lc (reg p)) by (rewrite Ep; exact Uv). assert (Uq : Unch E B lc (reg q)) by (rewrite Eq; exact Uv).
  destruct (Z.eq_dec (pixv rows p) 0) as [P0|P1].
  - assert (Q0 : pixv rows q = 0).
    { destruct (Z.eq_dec (pixv rows q) 0) as [|Nz]; [auto|]. exfalso. apply Oq in Nz. rewrite Eq, <- Ep in Nz. apply Op in Nz. contradiction. }
    assert (Ebl : getz bl p = getz bl q) by (pose proof (Bp P0); pose proof (Bq Q0); lia).
    assert (Nbl : getz bl p <> 0) by (destruct Hvl as [A _ _ _]; apply A; [exact Hp|exact P0]).
    pose proof (Hsep p q Hp Hq Ebl Nbl) as Path.
    assert (P0' : pixv x' p = 0) by (rewrite (K1 p Hp Up); exact P0).
    symmetry. apply (PR' p q P0' Hp).
    (* the path stays inside the unchanged region, whose pixels are still background *)
    clear Ebl Nbl Eq Uq Oq Fq Bq Q0 Hq. induction Path as [|s t Path IH A Pt]; [constructor|].
    destruct (F_path_region rows bl count Hrn Hvl p s P0 Hp Path) as [Ps [Rs Es]].
    assert (Path2 : BgPath rows p t) by (apply (BgPath_step rows p s t Path A Pt)).
    destruct (F_path_region rows bl count Hrn Hvl p t P0 Hp Path2) as [_ [Rt Et]]. fold N reg in Rt, Et.
    apply (BgPath_step x' p s t IH).
    + rewrite D1, D2. exact A.
    + rewrite (K1 t Rt); [exact Pt|]. rewrite Et. exact Up.
  - assert (Q1 : pixv rows q <> 0) by (apply Oq; rewrite Eq, <- Ep; apply Op; exact P1).
    destruct (Rg' p Hp) as [_ [_ F1]]. destruct (Rg' q Hq) as [_ [_ F2]].
    rewrite F1, F2; rewrite ?(K1 p Hp Up), ?(K1 q Hq Uq); auto. rewrite <- (Fp P1), <- (Fq Q1). congruence.
Qed.

Lemma unchanged_stays v : Unch E B lc v -> forall p, 0 <= p < N -> reg p = v -> Unch E' B' lc' (reg' p).
Proof.
  intros Uv. induction Uv as [v Hb|i j Ui IHi Oi Hj Oj|i1 i2 j U1 IH1 U2 IH2 O1 O2 Ne J1 J2]; intros p Hp Ep.
  - destruct (F_border_pixel rows bl count Hrn v Hb) as [q [Bq Eq]]. fold reg in Eq.
    assert (Rq : 0 <= q < N) by (apply (F_border_range rows count Hrn q Bq)).
    rewrite (same_region v p q (Unch_border E B lc v Hb) Hp Rq Ep (eq_sym Eq)). apply Unch_border. apply BI'. exact Bq.
  - assert (Uj : Unch E B lc j) by (apply (Unch_obj_bg E B lc i j); auto).
    destruct (F_edge_adj4 rows bl count Hrn i j Hj) as [a [b [A [Ea Eb]]]]. fold reg in Ea, Eb.
    destruct (F_adj_range rows count Hrn a b A) as [Ra Rb]. fold N in Ra, Rb.
    rewrite (same_region j p b Uj Hp Rb Ep Eb).
    destruct (F_reg rows bl count Hrn Hvl a Ra) as [_ [Oa _]]. destruct (F_reg rows bl count Hrn Hvl b Rb) as [_ [Ob _]].
    fold reg lc in Oa, Ob. rewrite Ea in Oa. rewrite Eb in Ob.
    assert (Pa : pixv x' a = 0).
    { rewrite (K1 a Ra); [|rewrite Ea; exact Ui]. destruct (Z.eq_dec (pixv rows a) 0) as [|Nz]; [auto|]. apply Oa in Nz. congruence. }
    assert (Pb : pixv x' b <> 0) by (rewrite (K1 b Rb); [apply Ob; exact Oj|rewrite Eb; exact Uj]).
    destruct (Rg' a Ra) as [_ [Oa' _]]. destruct (Rg' b Rb) as [_ [Ob' _]].
    assert (Oa2 : isobj lc' (reg' a) = false) by (destruct (isobj lc' (reg' a)) eqn:X; [exfalso; exact (proj1 Oa' eq_refl Pa)|reflexivity]).
    assert (Ob2 : isobj lc' (reg' b) = true) by (apply Ob'; exact Pb).
    apply (Unch_obj_bg E' B' lc' (reg' a) (reg' b)); [apply (IHi a Ra Ea)|exact Oa2| |exact Ob2].
    apply PE'; [exact A|]. intros X. rewrite X in Oa2. congruence.
  - assert (Uj : Unch E B lc j) by (apply (Unch_two E B lc i1 i2 j); auto).
    destruct (F_edge_adj4 rows bl count Hrn i1 j J1) as [a1 [b1 [A1 [Ea1 Eb1]]]].
    destruct (F_edge_adj4 rows bl count Hrn i2 j J2) as [a2 [b2 [A2 [Ea2 Eb2]]]]. fold reg in Ea1, Eb1, Ea2, Eb2.
    destruct (F_adj_range rows count Hrn a1 b1 A1) as [Ra1 Rb1]. destruct (F_adj_range rows count Hrn a2 b2 A2) as [Ra2 Rb2].
    fold N in Ra1, Rb1, Ra2, Rb2.
    rewrite (same_region j p b1 Uj Hp Rb1 Ep Eb1).
    pose proof (same_region j b1 b2 Uj Rb1 Rb2 Eb1 Eb2) as Sb.
    assert (Obj : forall a i, 0 <= a < N -> reg a = i -> Unch E B lc i -> isobj lc i = true ->
                  reg' a = i /\ isobj lc' (reg' a) = true /\ pixv x' a = i).
    { intros a i Ra Ea Ui Oi. destruct (F_reg rows bl count Hrn Hvl a Ra) as [_ [Oa [Fa _]]]. fold reg lc in Oa, Fa.
      rewrite Ea in Oa, Fa. assert (Pa : pixv rows a <> 0) by (apply Oa; exact Oi).
      assert (Pa' : pixv x' a = i) by (rewrite (K1 a Ra); [symmetry; apply Fa; exact Pa|rewrite Ea; exact Ui]).
      destruct (Rg' a Ra) as [Pos [Oa' Fa']]. assert (Nz : pixv x' a <> 0) by (rewrite Pa', (Fa Pa); exact Pa).
      split; [rewrite (Fa' Nz); exact Pa'|]. split; [apply Oa'; exact Nz|exact Pa']. }
    destruct (Obj a1 i1 Ra1 Ea1 U1 O1) as [X1 [Y1 Z1]]. destruct (Obj a2 i2 Ra2 Ea2 U2 O2) as [X2 [Y2 Z2]].
    assert (Diff : forall a b i, 0 <= a < N -> 0 <= b < N -> reg' a = i -> isobj lc' (reg' a) = true -> pixv x' a = i ->
                   reg b = j -> i <> j -> Unch E B lc i -> reg' a <> reg' b).
    { intros a b i Ra Rb Xa Ya Za Eb Nij Ui Heq.
      destruct (Rg' b Rb) as [_ [Ob' Fb']]. rewrite <- Heq in Ob'.
      assert (Nb : pixv x' b <> 0) by (apply Ob'; exact Ya).
      pose proof (Fb' Nb) as Fb. rewrite <- Heq, Xa in Fb.
      (* b keeps its input value (its region j is unchanged), which is then i: b would lie in object i, not in j *)
      assert (Kb : pixv x' b = pixv rows b) by (apply K1; [exact Rb|rewrite Eb; exact Uj]). rewrite Kb in Fb, Nb.
      destruct (F_reg rows bl count Hrn Hvl b Rb) as [_ [_ [Fbb _]]]. fold reg in Fbb. rewrite (Fbb Nb) in Eb. congruence. }
    assert (N1 : i1 <> j) by (apply (F_edge_ne rows bl count Hrn i1 j J1)).
    assert (N2 : i2 <> j) by (apply (F_edge_ne rows bl count Hrn i2 j J2)).
    apply (Unch_two E' B' lc' (reg' a1) (reg' a2) (reg' b1));
      [apply (IH1 a1 Ra1 Ea1)|apply (IH2 a2 Ra2 Ea2)|exact Y1|exact Y2|rewrite X1, X2; exact Ne| | ].
    + apply PE'; [exact A1|]. apply (Diff a1 b1 i1); auto.
    + rewrite Sb. apply PE'; [exact A2|]. apply (Diff a2 b2 i2); auto.
Qed.

(* every region of the output image is unchanged in the output's own graph *)
Lemma output_all_unchanged p : 0 <= p < N -> Unch E' B' lc' (reg' p).
Proof.
  intros Hp. destruct (F_dec rows bl count Hrn Hvl (reg p)) as [Uv|Nv].
  - apply (unchanged_stays (reg p) Uv p Hp eq_refl).
  - destruct (K2 p Hp Nv) as [Uk [Ok _]]. destruct (unch_pixel _ Uk Ok) as [q [Rq [Eq [Pq Nz]]]].
    assert (Pq' : pixv x' q = pixv x' p) by (rewrite (K1 q Rq); [exact Pq|rewrite Eq; exact Uk]).
    destruct (Rg' p Hp) as [_ [_ Fp]]. destruct (Rg' q Rq) as [_ [_ Fq]].
    assert (E1 : reg' p = reg' q) by (rewrite Fp, Fq; [auto|rewrite Pq'; exact Nz|exact Nz]).
    rewrite E1. apply (unchanged_stays _ Uk q Rq Eq).
Qed.

Theorem fill_twice_sec : f_out (fill_core x' bl' count') = x'.
Proof.
  destruct (fill_labeled_holes_correct_img x' bl' count' Hrn' Hvl') as [_ [g' [Eg Hg']]].
  rewrite Eg, D1, D2. fold H W. change x' with (grid_of H W g) at 1. apply grid_ext. intros p Hp. rewrite <- DN in Hp.
  assert (Hp' : 0 <= p < Z.of_nat (length (concat x'))) by (rewrite D3; exact Hp).
  destruct (Hg' p Hp') as [A _]. fold E' B' lc' reg' in A. rewrite (A (output_all_unchanged p Hp)).
  destruct (Rg' p Hp) as [_ [O F1]]. rewrite <- (px' p Hp).
  destruct (isobj lc' (reg' p)) eqn:Ob.
  - apply F1. apply O. reflexivity.
  - destruct (Z.eq_dec (pixv x' p) 0) as [->|Nz]; [reflexivity|]. apply O in Nz. congruence.
Qed.

End Idem.

(* filling twice equals filling once, for any valid labellings of the two images *)
Theorem fill_idempotent rows bl count bl' count' :
  rect_nonneg rows -> valid_labelling rows bl count -> components_separate rows bl ->
  let out := f_out (fill_core rows bl count) in
  valid_labelling out bl' count' -> f_out (fill_core out bl' count') = out.
Proof.
  intros Hrn Hvl Hsep out Hvl'.
  destruct (fill_labeled_holes_correct_img rows bl count Hrn Hvl) as [_ [g [Eg Hg]]].
  unfold out in *. rewrite Eg in *. apply (fill_twice_sec rows bl bl' count count' g Hrn Hvl Hsep Hg Hvl').
Qed.

(* ... and with the model's own labelling, for every rectangular non-negative image *)
Theorem fill_self_idempotent rows : rect_nonneg rows -> f_out (fill_self (f_out (fill_self rows))) = f_out (fill_self rows).
Proof.
  intros Hrn.
  set (own := label4 (Z.of_nat (length rows)) (Z.of_nat (length (hd [] rows))) (zload (concat rows) 0 zempty) (length (concat rows))).
  assert (E1 : fill_self rows = fill_core rows (fst own) (snd own)) by reflexivity.
  destruct (fill_labeled_holes_correct_img rows (fst own) (snd own) Hrn (label4_valid rows Hrn)) as [_ [g [Eg Hg]]].
  rewrite E1. set (out := f_out (fill_core rows (fst own) (snd own))) in *.
  assert (Hrn2 : rect_nonneg out).
  { rewrite Eg. apply (Hrn' rows (fst own) (snd own) g Hrn (label4_valid rows Hrn) Hg). }
  unfold fill_self at 1. cbv zeta.
  apply (fill_idempotent rows (fst own) (snd own) _ _ Hrn (label4_valid rows Hrn) (label4_separate rows Hrn)).
  apply (label4_valid out Hrn2).
Qed.

Example fill_self_idempotent_example :
  let rows := [[1;1;2;2];[1;3;0;2];[1;1;2;2]] in
  rect_nonneg rows /\ f_out (fill_self (f_out (fill_self rows))) = f_out (fill_self rows) /\ f_out (fill_self rows) <> rows.
Proof.
  cbv zeta. split; [|split; [vm_compute; reflexivity|vm_compute; discriminate]].
  unfold rect_nonneg. cbn [hd length concat app]. repeat split; try lia; repeat constructor; lia.
Qed.
