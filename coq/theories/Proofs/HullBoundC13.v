(* C13 — the kernel's only non-own input, the envelope sentinel max_i + 1 (max_i = largest row index of
   the whole call), is irrelevant: the guard-free kernel returns the same polygon for any two bounds that
   cover the label's own rows.  Hence own_hull is a function of the label's own rows alone. *)
From Coq Require Import ZArith List Bool Lia ZifyBool Sorted.
From Centro Require Import Model.Hull Spec.HullSpec Proofs.HullBatch Proofs.HullCorrect Proofs.HullGuard Proofs.OwnRowsC13
  Model.HullAreaC13 Model.Circle Model.Feret Model.MecFeretC13.
Import ListNotations.
Open Scope Z_scope.

(* two lower envelopes built with different sentinels: column by column either the same real value or
   both still the sentinel *)
Definition env_rel (m m' : Z) (e e' : env) : Prop :=
  forall j, (e j <= m /\ e' j <= m' /\ e j = e' j) \/ (e j = m + 1 /\ e' j = m' + 1).

Lemma lower_step_rel m m' e e' p :
  0 <= fst p <= m -> fst p <= m' -> env_rel m m' e e' -> env_rel m m' (lower_step e p) (lower_step e' p).
Proof.
  intros Hp Hp' R. unfold lower_step.
  destruct (R (snd p)) as [(A & B & C)|(A & B)].
  - rewrite <- C. destruct (fst p <? e (snd p)) eqn:E; [|exact R].
    intros j. unfold upd. destruct (Z.eqb_spec j (snd p)) as [->|N]; [left; lia|apply R].
  - replace (fst p <? e (snd p)) with true by lia. replace (fst p <? e' (snd p)) with true by lia.
    intros j. unfold upd. destruct (Z.eqb_spec j (snd p)) as [->|N]; [left; lia|apply R].
Qed.

Lemma build_lower_rel m m' pts :
  (forall s, In s pts -> 0 <= fst s <= m) -> (forall s, In s pts -> fst s <= m') ->
  env_rel m m' (build_lower m pts) (build_lower m' pts).
Proof.
  intros H H'. unfold build_lower.
  assert (G : forall l e e', (forall s, In s l -> 0 <= fst s <= m) -> (forall s, In s l -> fst s <= m') ->
              env_rel m m' e e' -> env_rel m m' (fold_left lower_step l e) (fold_left lower_step l e')).
  { induction l as [|p t IH]; intros e e' Hl Hl' R; cbn [fold_left]; [exact R|].
    apply IH; [intros s Hs; apply Hl; right; exact Hs|intros s Hs; apply Hl'; right; exact Hs|].
    apply lower_step_rel; [apply Hl; left; reflexivity|apply Hl'; left; reflexivity|exact R]. }
  apply G; auto. intros j. right. split; reflexivity.
Qed.

(* a column that holds a pixel is below the sentinel after the scan *)
Lemma lower_step_le e p j : lower_step e p j <= e j.
Proof.
  unfold lower_step. destruct (fst p <? e (snd p)) eqn:E; [|lia]. unfold upd.
  destruct (Z.eqb_spec j (snd p)) as [->|N]; lia.
Qed.

Lemma fold_lower_le l : forall e j, fold_left lower_step l e j <= e j.
Proof.
  induction l as [|p t IH]; intros e j; cbn [fold_left]; [lia|].
  eapply Z.le_trans; [apply IH|apply lower_step_le].
Qed.

Lemma fold_lower_present l : forall e p, In p l -> fold_left lower_step l e (snd p) <= fst p.
Proof.
  induction l as [|q t IH]; intros e p Hp; [destruct Hp|]. destruct Hp as [->|Hp]; cbn [fold_left].
  - eapply Z.le_trans; [apply fold_lower_le|]. unfold lower_step.
    destruct (fst p <? e (snd p)) eqn:E; [unfold upd; rewrite Z.eqb_refl; lia|lia].
  - apply IH. exact Hp.
Qed.

Lemma lower_emit_rel m m' e e' st j : env_rel m m' e e' -> lower_emit m e st j = lower_emit m' e' st j.
Proof.
  intros R. unfold lower_emit. destruct (R j) as [(A & B & C)|(A & B)].
  - replace (e j <? m + 1) with true by lia. replace (e' j <? m' + 1) with true by lia. rewrite C. reflexivity.
  - replace (e j <? m + 1) with false by lia. replace (e' j <? m' + 1) with false by lia. reflexivity.
Qed.

Lemma fold_lower_emit_rel m m' e e' cols : env_rel m m' e e' ->
  forall st, fold_left (lower_emit m e) cols st = fold_left (lower_emit m' e') cols st.
Proof.
  intros R. induction cols as [|j t IH]; intros st; cbn [fold_left]; [reflexivity|].
  rewrite (lower_emit_rel m m' e e' st j R). apply IH.
Qed.

Theorem hull_free_bound_irrelevant m m' pts :
  (forall s, In s pts -> 0 <= fst s <= m) -> (forall s, In s pts -> 0 <= fst s <= m') ->
  hull_free m pts = hull_free m' pts.
Proof.
  intros H H'. destruct pts as [|p0 t]; [reflexivity|]. unfold hull_free.
  pose proof (build_lower_rel m m' (p0 :: t) H (fun s Hs => proj2 (H' s Hs))) as R.
  assert (E0 : build_lower m (p0 :: t) (snd p0) = build_lower m' (p0 :: t) (snd p0)).
  { destruct (R (snd p0)) as [(_ & _ & C)|(A & _)]; [exact C|exfalso].
    pose proof (fold_lower_present (p0 :: t) (fun _ => m + 1) p0 (or_introl eq_refl)) as L.
    unfold build_lower in A. specialize (H p0 (or_introl eq_refl)). lia. }
  rewrite E0. rewrite (fold_lower_emit_rel m m' _ _ _ R). reflexivity.
Qed.

(* own_hull is a function of the label's own rows (in buffer order): two calls - other labels, other
   pixels of other labels, another largest row index - in which label l has the same rows give the same
   polygon, and therefore the same hull area, enclosing circle and Feret diameters *)
Theorem own_hull_independent ijv ijv' l :
  nonneg_rows ijv -> nonneg_rows ijv' -> own_rows ijv l = own_rows ijv' l -> own_hull ijv l = own_hull ijv' l.
Proof.
  intros Hn Hn' E. unfold own_hull. rewrite <- E.
  apply hull_free_bound_irrelevant.
  - apply (proj1 (label_ok_sel ijv l Hn)).
  - rewrite E. apply (proj1 (label_ok_sel ijv' l Hn')).
Qed.

Theorem mec_independent ijv ijv' idx idx' r r' :
  NoDup idx -> NoDup idx' -> (r < length idx)%nat -> (r' < length idx')%nat ->
  nonneg_rows ijv -> nonneg_rows ijv' -> nth r idx 0 = nth r' idx' 0 ->
  own_rows ijv (nth r idx 0) = own_rows ijv' (nth r idx 0) ->
  nth r (mec_rows (fst (convex_hull_ijv ijv idx))) (chrystal []) =
  nth r' (mec_rows (fst (convex_hull_ijv ijv' idx'))) (chrystal []).
Proof.
  intros ND ND' Hr Hr' Hn Hn' El E. rewrite !mec_own_rows_full by assumption. rewrite <- El.
  rewrite (own_hull_independent ijv ijv' _ Hn Hn' E). reflexivity.
Qed.

Theorem feret_independent ijv ijv' idx idx' r r' :
  NoDup idx -> NoDup idx' -> (r < length idx)%nat -> (r' < length idx')%nat ->
  nonneg_rows ijv -> nonneg_rows ijv' -> nth r idx 0 = nth r' idx' 0 ->
  own_rows ijv (nth r idx 0) = own_rows ijv' (nth r idx 0) ->
  nth r (feret_rows (fst (convex_hull_ijv ijv idx))) (sweep []) =
  nth r' (feret_rows (fst (convex_hull_ijv ijv' idx'))) (sweep []).
Proof.
  intros ND ND' Hr Hr' Hn Hn' El E. rewrite !feret_own_rows_full by assumption. rewrite <- El.
  rewrite (own_hull_independent ijv ijv' _ Hn Hn' E). reflexivity.
Qed.

Theorem hull_area_independent ijv ijv' idx idx' r r' :
  NoDup idx -> NoDup idx' -> (r < length idx)%nat -> (r' < length idx')%nat ->
  nonneg_rows ijv -> nonneg_rows ijv' -> nth r idx 0 = nth r' idx' 0 ->
  own_rows ijv (nth r idx 0) = own_rows ijv' (nth r idx 0) ->
  nth r (hull_areas_rows (fst (convex_hull_ijv ijv idx))) (hull_area_obj []) =
  nth r' (hull_areas_rows (fst (convex_hull_ijv ijv' idx'))) (hull_area_obj []).
Proof.
  intros ND ND' Hr Hr' Hn Hn' El E. rewrite !hull_area_own_rows_full by assumption. rewrite <- El.
  rewrite (own_hull_independent ijv ijv' _ Hn Hn' E). reflexivity.
Qed.

Example own_hull_independent_example :
  let a := [((0, 0), 3); ((0, 1), 3); ((1, 0), 3); ((5, 5), 8); ((9, 2), 8)] in
  let b := [((0, 0), 3); ((0, 1), 3); ((1, 0), 3); ((2, 2), 4)] in
  own_rows a 3 = own_rows b 3 /\ own_hull a 3 = own_hull b 3 /\ own_hull a 3 <> [].
Proof. cbv zeta. repeat split; try (vm_compute; reflexivity). vm_compute. discriminate. Qed.

(* ---------------------------------------------------------------- own rows from the label's rows alone *)
(* lexsort orders by label first, so filtering one label out of the sorted buffer = sorting that label's rows *)
Lemma sel_insert_row l r (L : list row) : StronglySorted vj_le L ->
  sel l (insert_row r L) = if r_v r =? l then insert_row r (sel l L) else sel l L.
Proof.
  intros HS. induction HS as [|x t HSt IH HF]; cbn [insert_row sel filter].
  - destruct (r_v r =? l); reflexivity.
  - destruct (row_leb r x) eqn:E.
    + (* r goes in front of x *)
      cbn [filter]. destruct (r_v r =? l) eqn:Er; [|reflexivity].
      destruct (r_v x =? l) eqn:Ex.
      * cbn [insert_row]. rewrite E. reflexivity.
      * (* x and everything after it carry a larger label: nothing of label l is left *)
        assert (Hx : l < r_v x).
        { apply (proj1 (row_leb_vj r x)) in E. unfold vj_le in E. lia. }
        assert (Et : filter (fun q => r_v q =? l) t = []).
        { rewrite Forall_forall in HF. clear - HF Hx. induction t as [|y t' IHt]; [reflexivity|]. cbn [filter].
          assert (Hy : vj_le x y) by (apply HF; left; reflexivity). unfold vj_le in Hy.
          replace (r_v y =? l) with false by lia. apply IHt. intros z Hz. apply HF. right. exact Hz. }
        unfold sel. rewrite Et. reflexivity.
    + cbn [filter]. fold (sel l (insert_row r t)). fold (sel l t). rewrite IH.
      destruct (r_v r =? l) eqn:Er; [|reflexivity].
      destruct (r_v x =? l) eqn:Ex; [|reflexivity].
      cbn [insert_row]. rewrite E. reflexivity.
Qed.

Lemma sel_lexsort l : forall ijv, sel l (lexsort ijv) = lexsort (sel l ijv).
Proof.
  induction ijv as [|r t IH]; [reflexivity|].
  change (lexsort (r :: t)) with (insert_row r (lexsort t)).
  rewrite (sel_insert_row l r (lexsort t) (lexsort_sorted_vj t)).
  change (sel l (r :: t)) with (if r_v r =? l then r :: sel l t else sel l t).
  destruct (r_v r =? l).
  - change (lexsort (r :: sel l t)) with (insert_row r (lexsort (sel l t))). rewrite IH. reflexivity.
  - exact IH.
Qed.

(* the buffer-order rows of label l are a function of the rows of l in the call's ijv list *)
Theorem own_rows_of_label ijv ijv' l : sel l ijv = sel l ijv' -> own_rows ijv l = own_rows ijv' l.
Proof. intros E. unfold own_rows. rewrite !sel_lexsort, E. reflexivity. Qed.
