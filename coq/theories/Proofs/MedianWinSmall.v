(* C07 — the uint16 premise discharged for the radii of the property: a window lies in the
   (2R+1)-square around its centre, so it holds fewer than 65536 pixels whenever (2R+1)^2 < 65536,
   i.e. for every radius <= 127, whatever the image and the mask.  (The premise is sharp a little
   further out: the octagon of radius 140 has 65017 points, that of radius 141 has 66145, and the
   compiled kernel returns 0 instead of 77 on a constant 322x322 image at radius 141.) *)
From Coq Require Import ZArith List Bool Lia ZifyBool.
From Centro Require Import Base.Sx Model.Median Spec.MedianSpec Proofs.MedianCheck Proofs.MedianGeom
  Proofs.MedianSlide Proofs.MedianInv.
Import ListNotations.
Open Scope Z_scope.

Lemma count_interval a b : forall n lo,
  countb (fun x => (a <=? x) && (x <=? b)) (zrange_n lo n) <= Z.max 0 (b - a + 1).
Proof.
  assert (G : forall n lo, countb (fun x => (a <=? x) && (x <=? b)) (zrange_n lo n) =
                           Z.max 0 (Z.min b (lo + Z.of_nat n - 1) - Z.max a lo + 1)).
  { induction n as [|n IH]; intros lo; cbn [zrange_n].
    - rewrite countb_nil. lia.
    - rewrite countb_cons, IH. destruct (a <=? lo) eqn:E1, (lo <=? b) eqn:E2; cbn [andb]; lia. }
  intros n lo. rewrite G. lia.
Qed.

Lemma window_in_box mask R a2 row c cols : 0 <= R -> forall n lo,
  countb (in_window mask R a2 row c) (flat_map (fun y => map (fun x => (y, x)) (zrange 0 cols)) (zrange_n lo n)) <=
  (2 * R + 1) * countb (fun y => (row - R <=? y) && (y <=? row + R)) (zrange_n lo n).
Proof.
  intros HR. induction n as [|n IH]; intros lo; cbn [zrange_n flat_map].
  - rewrite !countb_nil. lia.
  - rewrite countb_app, countb_cons. specialize (IH (lo + 1)).
    assert (Hrow : countb (in_window mask R a2 row c) (map (fun x => (lo, x)) (zrange 0 cols)) <=
                   if (row - R <=? lo) && (lo <=? row + R) then 2 * R + 1 else 0).
    { rewrite countb_map. destruct ((row - R <=? lo) && (lo <=? row + R)) eqn:E.
      - eapply Z.le_trans; [apply (countb_le _ (fun x => (c - R <=? x) && (x <=? c + R)))|].
        + intros x _. unfold in_window, octb. cbn [fst snd]. lia.
        + unfold zrange. eapply Z.le_trans; [apply count_interval|]. lia.
      - rewrite countb_false; [lia|]. intros x _. unfold in_window, octb. cbn [fst snd]. lia. }
    destruct ((row - R <=? lo) && (lo <=? row + R)); nia.
Qed.

Theorem WinSmall_of_radius mask rows cols radius : 1 <= radius <= 127 -> WinSmall mask rows cols radius.
Proof.
  intros Hr row c. pose proof (geom_octagon radius ltac:(lia)) as G. cbv zeta in G.
  destruct G as (G1 & G2 & G3 & G4 & G5 & _).
  assert (HR : 2 <= oct_R radius <= 127) by (destruct (Z.eq_dec radius 1) as [->|]; [destruct (G5 eq_refl); lia|rewrite G4; lia]).
  fold (countb (in_window mask (oct_R radius) (oct_a2 radius) row c) (coords rows cols)).
  unfold coords, zrange.
  eapply Z.le_lt_trans; [apply window_in_box; lia|].
  pose proof (count_interval (row - oct_R radius) (row + oct_R radius) (Z.to_nat (rows - 0)) 0). nia.
Qed.

(* with it the Full theorems hold for every radius of the property without a size premise *)
Corollary sliding_invariant_asis_127 data mask radius percent :
  2 <= radius <= 127 -> 0 <= percent <= 100 -> Masked8 data mask ->
  MedianSpec data mask radius percent (kernel AsIs data mask radius percent).
Proof.
  intros Hr Hp HM. apply sliding_invariant_asis; try assumption; try lia. apply WinSmall_of_radius. lia.
Qed.
