(* C18 — lemmas about the NumPy idioms of Model/VecC18.v. *)
From Coq Require Import ZArith List Bool Arith Lia Sorted Permutation.
From Centro Require Import Base.SortC18 Model.VecC18.
Import ListNotations.
Local Open Scope nat_scope.

(* ---------------------------------------------------------------- set_nth / scatter *)
Lemma set_nth_length {A} i (v : A) l : length (set_nth i v l) = length l.
Proof. revert i; induction l as [|x r IH]; intros [|i]; cbn [set_nth length]; auto. Qed.

Lemma set_nth_same {A} i (v d : A) l : i < length l -> nth i (set_nth i v l) d = v.
Proof.
  revert i; induction l as [|x r IH]; intros [|i] H; cbn [set_nth length nth] in *; try lia; auto.
  apply IH; lia.
Qed.

Lemma set_nth_other {A} i j (v d : A) l : i <> j -> nth j (set_nth i v l) d = nth j l d.
Proof.
  revert i j; induction l as [|x r IH]; intros [|i] [|j] H; cbn [set_nth nth]; auto; try lia.
Qed.

Lemma scatter_cons {A} i (v : A) idx vals base :
  scatter (i :: idx) (v :: vals) base = scatter idx vals (set_nth i v base).
Proof. reflexivity. Qed.

Lemma scatter_length {A} idx (vals base : list A) : length (scatter idx vals base) = length base.
Proof.
  revert vals base; induction idx as [|i idx IH]; intros [|v vals] base; try reflexivity.
  rewrite scatter_cons, IH, set_nth_length. reflexivity.
Qed.

Lemma scatter_other {A} idx (vals base : list A) j d :
  ~ In j idx -> nth j (scatter idx vals base) d = nth j base d.
Proof.
  revert vals base; induction idx as [|i idx IH]; intros [|v vals] base H; try reflexivity.
  rewrite scatter_cons, IH by (intros C; apply H; right; exact C).
  apply set_nth_other. intros ->. apply H. left; reflexivity.
Qed.

Lemma scatter_get {A} idx (vals base : list A) d d' k :
  NoDup idx -> length vals = length idx -> (forall j, In j idx -> j < length base) ->
  k < length idx -> nth (nth k idx d') (scatter idx vals base) d = nth k vals d.
Proof.
  intros ND. revert vals base k. induction ND as [|i idx Hi ND IH]; intros vals base k HL HB Hk.
  - cbn [length] in Hk; lia.
  - destruct vals as [|v vals]; [discriminate|]. rewrite scatter_cons.
    destruct k as [|k]; cbn [nth].
    + rewrite scatter_other by exact Hi. apply set_nth_same. apply HB; left; reflexivity.
    + apply IH.
      * cbn [length] in HL; lia.
      * intros j Hj. rewrite set_nth_length. apply HB; right; exact Hj.
      * cbn [length] in Hk; lia.
Qed.

(* ---------------------------------------------------------------- cumsum *)
Lemma ncumsum_from_length acc l : length (ncumsum_from acc l) = length l.
Proof. revert acc; induction l as [|x r IH]; intros acc; cbn [ncumsum_from length]; auto. Qed.

Lemma ncumsum_from_nth acc l k : k < length l ->
  nth k (ncumsum_from acc l) 0 = acc + nsum (firstn (S k) l).
Proof.
  revert acc k; induction l as [|x r IH]; intros acc k H; cbn [length] in H; [lia|].
  destruct k as [|k]; cbn [ncumsum_from nth].
  - cbn. lia.
  - rewrite IH by lia. cbn [firstn nsum fold_right]. unfold nsum. cbn [firstn fold_right]. lia.
Qed.

(* ---------------------------------------------------------------- compress *)
Lemma compress_In {A} m (l : list A) x : In x (compress m l) -> In x l.
Proof.
  revert l; induction m as [|b m IH]; intros [|y l] H; cbn [compress] in H; try contradiction.
  destruct b; [destruct H as [<-|H]; [left; reflexivity|right; auto]|right; auto].
Qed.

Lemma compress_length_le {A} m (l : list A) : length (compress m l) <= length l.
Proof.
  revert l; induction m as [|b m IH]; intros [|y l]; cbn [compress length]; try lia.
  destruct b; cbn [length]; specialize (IH l); lia.
Qed.

Lemma compress_length {A} m (l : list A) : length m = length l ->
  length (compress m l) = nsum (map b2n m).
Proof.
  revert l; induction m as [|b m IH]; intros [|y l] H; cbn [length] in H; try lia; try reflexivity.
  cbn [compress map nsum fold_right]. destruct b; cbn [length b2n]; rewrite IH by lia; reflexivity.
Qed.

Lemma compress_sorted (R : Z -> Z -> Prop) m l : StronglySorted R l -> StronglySorted R (compress m l).
Proof.
  intros S; revert m; induction S as [|a l S IH F]; intros [|b m]; cbn [compress]; try constructor.
  destruct b; [|apply IH]. constructor; [apply IH|].
  rewrite Forall_forall in *. intros x Hx. apply F. eapply compress_In; eauto.
Qed.

(* ---------------------------------------------------------------- permutations of seq *)
Lemma perm_seq_NoDup so n : Permutation so (seq 0 n) -> NoDup so.
Proof. intros P. eapply Permutation_NoDup; [symmetry; exact P|apply seq_NoDup]. Qed.

Lemma perm_seq_lt so n j : Permutation so (seq 0 n) -> In j so -> j < n.
Proof. intros P H. eapply Permutation_in in H; [|exact P]. apply in_seq in H. lia. Qed.

Lemma perm_seq_hit so n i : Permutation so (seq 0 n) -> i < n -> exists k, k < length so /\ nth k so 0 = i.
Proof.
  intros P H. assert (In i so) as Hi. { eapply Permutation_in; [symmetry; exact P|]. apply in_seq; lia. }
  destruct (In_nth so i 0 Hi) as [k [Hk E]]. exists k; auto.
Qed.

(* ---------------------------------------------------------------- lexsort / argsort *)
Lemma combine_seq_triples (k1 k2 : list Z) s :
  length k1 = length k2 ->
  Forall (fun t => t_k1 t = getz k1 (t_ix t - s) /\ t_k2 t = getz k2 (t_ix t - s) /\ s <= t_ix t < s + length k1)
         (combine (combine k1 k2) (seq s (length k1))).
Proof.
  revert k2 s. induction k1 as [|a k1 IH]; intros [|b k2] s H; cbn [length] in H; try lia; [constructor|].
  cbn [length seq combine]. constructor.
  - unfold t_k1, t_k2, t_ix, getz. cbn [fst snd]. rewrite Nat.sub_diag. cbn [nth]. repeat split; lia.
  - specialize (IH k2 (S s) ltac:(lia)). eapply Forall_impl; [|exact IH].
    intros t (E1 & E2 & E3). unfold getz in *.
    replace (t_ix t - s) with (S (t_ix t - S s)) by lia. cbn [nth]. repeat split; auto; lia.
Qed.

Lemma map_snd_combine_seq {A} (l : list A) s : map snd (combine l (seq s (length l))) = seq s (length l).
Proof. revert s; induction l as [|a l IH]; intros s; cbn [length seq combine map snd]; [reflexivity|]. rewrite IH. reflexivity. Qed.

Lemma lexsort_perm k2 k1 : length k1 = length k2 -> Permutation (lexsort k2 k1) (seq 0 (length k1)).
Proof.
  intros H. unfold lexsort.
  assert (length (combine k1 k2) = length k1) as HL by (rewrite combine_length; lia).
  pose proof (map_snd_combine_seq (combine k1 k2) 0) as E. rewrite HL in E.
  rewrite <- E at 2. apply Permutation_map. symmetry. apply tsort_perm.
Qed.

Lemma lexsort_triples k2 k1 : length k1 = length k2 ->
  Forall (fun t => t_k1 t = getz k1 (t_ix t) /\ t_k2 t = getz k2 (t_ix t) /\ t_ix t < length k1)
         (tsort (combine (combine k1 k2) (seq 0 (length k1)))).
Proof.
  intros H. pose proof (combine_seq_triples k1 k2 0 H) as F.
  rewrite Forall_forall in *. intros t Ht.
  eapply Permutation_in in Ht; [|symmetry; apply tsort_perm].
  specialize (F t Ht). rewrite Nat.sub_0_r in F. destruct F as (A & B & C). repeat split; auto; lia.
Qed.

Lemma tleb_k1 x y : tleb x y = true -> (t_k1 x <= t_k1 y)%Z.
Proof.
  unfold tleb. destruct (Z.ltb_spec (t_k1 x) (t_k1 y)); [lia|].
  destruct (Z.ltb_spec (t_k1 y) (t_k1 x)); [discriminate|lia].
Qed.

Lemma StronglySorted_map {A B} (R : A -> A -> Prop) (Q : B -> B -> Prop) (f : A -> B) l :
  (forall x y, R x y -> Q (f x) (f y)) -> StronglySorted R l -> StronglySorted Q (map f l).
Proof.
  intros H HS. induction HS as [|a l HS IH F]; cbn [map]; constructor; auto.
  rewrite Forall_forall in *. intros y Hy. apply in_map_iff in Hy as (x & <- & Hx). auto.
Qed.

Lemma argsort_perm a : Permutation (argsort a) (seq 0 (length a)).
Proof. unfold argsort. apply lexsort_perm. rewrite map_length. reflexivity. Qed.

Lemma argsort_sorted a : StronglySorted Z.le (map (getz a) (argsort a)).
Proof.
  unfold argsort, lexsort. rewrite map_map.
  assert (length a = length (map (fun _ : Z => 0%Z) a)) as HL by (rewrite map_length; reflexivity).
  pose proof (lexsort_triples _ a HL) as F. pose proof (tsort_sorted (combine (combine a (map (fun _ : Z => 0%Z) a)) (seq 0 (length a)))) as HS.
  rewrite (map_ext_in _ t_k1).
  - eapply StronglySorted_map; [|exact HS]. intros x y. apply tleb_k1.
  - intros t Ht. rewrite Forall_forall in F. destruct (F t Ht) as (E & _). symmetry. exact E.
Qed.
